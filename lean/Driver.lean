/-
  Line-protocol driver for the model (compiled, Mathlib-free).
  Request (one per line, TAB separated):   <cmd> <opts> <input> [<extra>...]
    cmd   = parse | single | split
    opts  = s=<0|1>,l=<N|int>,c=<0|1>,p=<0|1>     (strict, limit, convertpos, proceed)
    input = code points in hex joined by '.', "" for the empty string ("-" also means empty)
  Reply: canonical outcome (Bashlex/Serialize.lean), then " ## " and the sorted `sh_syntaxtab`
  keys newly touched.
-/
import Bashlex.Serialize
import Bashlex.Spec.Eval
import Bashlex.Model.Synth

open Bashlex

def parseHexInput (s : String) : Str :=
  if s == "" || s == "-" then []
  else (s.splitOn ".").filterMap fun h =>
    let n := h.toList.foldl (fun acc c =>
      let d := if '0' ≤ c && c ≤ '9' then c.toNat - 48
               else if 'a' ≤ c && c ≤ 'f' then c.toNat - 87
               else if 'A' ≤ c && c ≤ 'F' then c.toNat - 55 else 0
      16 * acc + d) 0
    if h == "" then none else some (Char.ofNat n)

def parseOpts (s : String) : Opts :=
  (s.splitOn ",").foldl (fun o kv =>
    match kv.splitOn "=" with
    | ["s", v] => { o with strict := v == "1" }
    | ["l", v] => { o with limit := if v == "N" then none else v.toInt? }
    | ["c", v] => { o with convertpos := v == "1" }
    | ["p", v] => { o with proceed := v == "1" }
    | _ => o) {}

def showTouched (t : List Char) : String :=
  joinWith "." ((t.map (·.toNat)).toArray.qsort (· < ·) |>.toList.map hexOf)

def handle (line : String) : String :=
  match line.splitOn "\t" with
  | cmd :: opts :: inp :: extra =>
    let s := parseHexInput inp
    let o := parseOpts opts
    let src := if o.convertpos then some s else none
    match cmd with
    | "parse" => let (r, t) := parse s o; showOutcome src r ++ " ## " ++ showTouched t
    | "single" => let (r, t) := parsesingle s o; showOutcome src r ++ " ## " ++ showTouched t
    | "split" => let (r, t) := split s; showOutcome none r ++ " ## " ++ showTouched t
    | "lr" =>
      -- lr <top|sub> <terminal numbers joined by '.'>
      let ids := (inp.splitOn ".").filterMap String.toNat?
      match runSynth (opts == "sub") ids with
      | .acc k reds => s!"ACC {k} " ++ ".".intercalate (reds.map toString)
      | .blank k => s!"BLANK {k}"
      | .err e => "EXN " ++ showExn e
    | _ => specHandle cmd opts inp extra
  | _ => "BAD-REQUEST"

partial def loop (hin : IO.FS.Stream) (hout : IO.FS.Stream) : IO Unit := do
  let line ← hin.getLine
  if line.isEmpty then return ()
  let line := String.ofList (line.toList.reverse.dropWhile (fun c => c == '\n' || c == '\r')).reverse
  hout.putStrLn (handle line)
  loop hin hout

def main : IO Unit := do
  let hin ← IO.getStdin
  let hout ← IO.getStdout
  loop hin hout
  hout.flush
