import Bashlex
def main : IO Unit := IO.println "driver"
