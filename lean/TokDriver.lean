/-
  Stand-alone driver for the tokenizer model (differential test against bashlex/tokenizer.py,
  see /verif/tools/tokdiff.py).

  stdin : one input per line, code points in hex separated by '.', empty line = empty string;
          optionally prefixed by `cfg/` where cfg is a '+'-separated list of initial parser-state
          flag names and/or `nonstrict` (e.g. `REGEXP+nonstrict/61.62`)
  stdout: one canonical result line per input
-/
import Bashlex.Model.Tokenizer

open Bashlex

namespace TokDriver

def hexNat (n : Nat) : String := String.ofList (Nat.toDigits 16 n)

def hexStr (s : Str) : String := ".".intercalate (s.map fun c => hexNat c.toNat)

def parseHexNat (s : String) : Nat :=
  s.toList.foldl (fun n c =>
    let d := if '0' ≤ c && c ≤ '9' then c.toNat - 48
             else if 'a' ≤ c && c ≤ 'f' then c.toNat - 87
             else if 'A' ≤ c && c ≤ 'F' then c.toNat - 55 else 0
    16 * n + d) 0

def decodeLine (line : String) : Str :=
  let line := (line.toList.filter fun c => c != '\n' && c != '\r')
  if line.isEmpty then [] else
    ((String.ofList line).splitOn ".").map fun h => Char.ofNat (parseHexNat h)

def sortStrings (xs : List String) : List String := (xs.toArray.qsort (· < ·)).toList

def joinOrDash (sep : String) (xs : List String) : String :=
  if xs.isEmpty then "-" else sep.intercalate xs

def showTVal : TVal → String
  | .none => "None"
  | .str s => hexStr s
  | .int n => s!"i{n}"

def showToken (t : Token) : String :=
  let ty := match t.ttype with | some ty => ty.name | none => "None"
  let (a, b) := match t.pos with
    | some (a, b) => (toString a, toString b)
    | none => ("None", "None")
  let flags := "+".intercalate (sortStrings (t.flags.map WordFlag.name))
  s!"{ty}:{a}:{b}:{showTVal t.value}:{flags}"

def psFlags (p : PState) : List String :=
  (if p.casepat then ["CASEPAT"] else []) ++ (if p.allowopnbrc then ["ALLOWOPNBRC"] else []) ++
  (if p.dblparen then ["DBLPAREN"] else []) ++ (if p.subshell then ["SUBSHELL"] else []) ++
  (if p.cmdsubst then ["CMDSUBST"] else []) ++ (if p.casestmt then ["CASESTMT"] else []) ++
  (if p.condcmd then ["CONDCMD"] else []) ++ (if p.condexpr then ["CONDEXPR"] else []) ++
  (if p.compassign then ["COMPASSIGN"] else []) ++ (if p.assignok then ["ASSIGNOK"] else []) ++
  (if p.eoftoken then ["EOFTOKEN"] else []) ++ (if p.regexp then ["REGEXP"] else []) ++
  (if p.redirlist then ["REDIRLIST"] else [])

def showCell (c : RedirCell) : String :=
  let h := match c.heredoc with
    | some ((a, b), v) => s!"{a},{b},{hexStr v}"
    | _ => "-"
  s!"{c.pos.1},{c.pos.2},{h}"

def showExn : Exn → String
  | .parsing msg src pos => s!"PE:{hexStr msg.toList}:{hexStr src}:{pos}"
  | .notImplemented w => s!"NI:{hexStr w.toList}"
  | .foreign ty site => s!"F:{ty}:{site}"
  | .outOfFuel _ => "FUEL"

/-- the mini-parser rule: a WORD right after `<<` / `<<-` queues a here-document -/
def miniParser (tok : Token) (l : Local) : Local :=
  let prev := l.lastReadToken
  if tok.is .WORD && (prev.is .LESS_LESS || prev.is .LESS_LESS_MINUS) then
    let id := l.store.length
    { l with store := l.store ++ [{ pos := (prev.lexpos, tok.endlexpos), delim := tok.valueStr }],
             redirstack := l.redirstack ++ [(id, prev.is .LESS_LESS_MINUS)] }
  else l

/-- tokens (reversed), outcome, last local state, environment -/
def tokLoop : Nat → Local → Env → List Token → (List Token × String × Local × Env)
  | 0, l, e, acc => (acc, "CAP", l, e)
  | n + 1, l, e, acc =>
    match M.run nextToken l e with
    | (.error x, e') => (acc, showExn x, l, e')
    | (.ok (tok, l'), e') =>
      let l'' := miniParser tok l'
      if tok.is .EOF then (tok :: acc, "EOF", l'', e')
      else tokLoop n l'' e' (tok :: acc)

def setFlag (p : PState) (name : String) : PState :=
  match name with
  | "CASEPAT" => { p with casepat := true } | "ALLOWOPNBRC" => { p with allowopnbrc := true }
  | "DBLPAREN" => { p with dblparen := true } | "SUBSHELL" => { p with subshell := true }
  | "CMDSUBST" => { p with cmdsubst := true } | "CASESTMT" => { p with casestmt := true }
  | "CONDCMD" => { p with condcmd := true } | "CONDEXPR" => { p with condexpr := true }
  | "COMPASSIGN" => { p with compassign := true } | "ASSIGNOK" => { p with assignok := true }
  | "EOFTOKEN" => { p with eoftoken := true } | "REGEXP" => { p with regexp := true }
  | "REDIRLIST" => { p with redirlist := true }
  | _ => p

def runOne (cfg : List String) (s : Str) : String :=
  let env : Env := { tape := Tape.ofInput s, strict := !cfg.contains "nonstrict" }
  let l0 : Local := { ps := cfg.foldl setFlag {} }
  let (racc, outcome, l, e) := tokLoop 10000 l0 env []
  let toks := " ".intercalate (racc.reverse.map showToken)
  let cells := joinOrDash ";" (l.store.map showCell)
  let touched := e.touched.filter fun c => synClass c == {}
  let touchedSorted := (touched.map (·.toNat)).toArray.qsort (· < ·) |>.toList
  let tstr := joinOrDash "." (touchedSorted.map hexNat)
  let flags := joinOrDash "+" (sortStrings (psFlags l.ps))
  s!"{toks} | {outcome} | {cells} | {flags} {l.openBraceCount} {l.esacsNeeded} {e.tape.idx} {tstr}"

partial def mainLoop (stdin stdout : IO.FS.Stream) : IO Unit := do
  let line ← stdin.getLine
  if line.isEmpty then return
  match line.splitOn "/" with
  | [cfg, h] => stdout.putStrLn (runOne (cfg.splitOn "+") (decodeLine h))
  | _ => stdout.putStrLn (runOne [] (decodeLine line))
  mainLoop stdin stdout

end TokDriver

def main : IO Unit := do
  let stdin ← IO.getStdin
  let stdout ← IO.getStdout
  TokDriver.mainLoop stdin stdout
  stdout.flush
