import Bashlex.Basic
import Bashlex.Model.Monad
import Bashlex.LR.Engine
import Bashlex.Proofs.Hoare
