/-
  Canonical text form of outcomes, shared with the Python harness (tools/harness/canon.py):
  nodes as `{attr=value,...}` with attribute names sorted, exactly what a generic `vars(node)`
  walk prints.
-/
import Bashlex.Model.Parse

namespace Bashlex

def hexOf (n : Nat) : String := String.ofList (Nat.toDigits 16 n)

def quoteStr (s : Str) : String :=
  "\"" ++ s.foldl (fun acc c =>
    acc ++ (if c == '\\' then "\\\\" else if c == '"' then "\\\"" else if c == '\n' then "\\n"
            else if c == '\t' then "\\t"
            else if c.toNat < 32 || c.toNat > 126 then "\\u{" ++ hexOf c.toNat ++ "}"
            else String.singleton c)) "" ++ "\""

def joinWith (sep : String) (l : List String) : String := sep.intercalate l

def sortAttrs (l : List (String × String)) : List (String × String) :=
  (l.toArray.qsort (fun a b => a.1 < b.1)).toList

def showAttrs (l : List (String × String)) : String :=
  "{" ++ joinWith "," ((sortAttrs l).map fun (k, v) => k ++ "=" ++ v) ++ "}"

def showRedirIn : RedirIn → String
  | .none => "None"
  | .num n => toString n
  | .str s => quoteStr s

/-- `src = some s`: convertpos was applied (spans replaced by the source text they denote) -/
def posAttr (src : Option Str) (p : Span) : String × String :=
  match src with
  | none => ("pos", s!"({p.1},{p.2})")
  | some s => ("s", quoteStr (Str.slice s p.1 p.2))

mutual
def showNode (src : Option Str) : Node → String
  | .operator p op => showAttrs [("kind", "\"operator\""), ("op", quoteStr op), posAttr src p]
  | .reservedword p w => showAttrs [("kind", "\"reservedword\""), ("word", quoteStr w), posAttr src p]
  | .pipe p w => showAttrs [("kind", "\"pipe\""), ("pipe", quoteStr w), posAttr src p]
  | .list p ps => showAttrs [("kind", "\"list\""), ("parts", showNodes src ps), posAttr src p]
  | .pipeline p ps => showAttrs [("kind", "\"pipeline\""), ("parts", showNodes src ps), posAttr src p]
  | .compound p l r => showAttrs [("kind", "\"compound\""), ("list", showNodes src l),
      ("redirects", showNodes src r), posAttr src p]
  | .ifN p ps => showAttrs [("kind", "\"if\""), ("parts", showNodes src ps), posAttr src p]
  | .forN p ps => showAttrs [("kind", "\"for\""), ("parts", showNodes src ps), posAttr src p]
  | .whileN p ps => showAttrs [("kind", "\"while\""), ("parts", showNodes src ps), posAttr src p]
  | .untilN p ps => showAttrs [("kind", "\"until\""), ("parts", showNodes src ps), posAttr src p]
  | .caseN p ps => showAttrs [("kind", "\"case\""), ("parts", showNodes src ps), posAttr src p]
  | .pattern p ps => showAttrs [("kind", "\"pattern\""), ("parts", showNodes src ps), posAttr src p]
  | .command p ps => showAttrs [("kind", "\"command\""), ("parts", showNodes src ps), posAttr src p]
  | .unimplemented p ps => showAttrs [("kind", "\"unimplemented\""), ("parts", showNodes src ps), posAttr src p]
  | .function p ni bi ps => showAttrs [("kind", "\"function\""), ("parts", showNodes src ps),
      ("name", s!"@{ni}"), ("body", s!"@{bi}"), posAttr src p]
  | .redirect p i t o oa h _ => showAttrs [("kind", "\"redirect\""), ("input", showRedirIn i),
      ("type", quoteStr t),
      ("output", match o with | some n => showNode src n | none => showRedirIn oa),
      ("heredoc", match h with | some n => showNode src n | none => "None"), posAttr src p]
  | .word p w ps => showAttrs [("kind", "\"word\""), ("word", quoteStr w), ("parts", showNodes src ps), posAttr src p]
  | .assignment p w ps => showAttrs [("kind", "\"assignment\""), ("word", quoteStr w), ("parts", showNodes src ps), posAttr src p]
  | .parameter p v => showAttrs [("kind", "\"parameter\""), ("value", quoteStr v), posAttr src p]
  | .tilde p v => showAttrs [("kind", "\"tilde\""), ("value", quoteStr v), posAttr src p]
  | .heredoc p v => showAttrs [("kind", "\"heredoc\""), ("value", quoteStr v), posAttr src p]
  | .commandsubstitution p c => showAttrs [("kind", "\"commandsubstitution\""), ("command", showNode src c), posAttr src p]
  | .processsubstitution p c => showAttrs [("kind", "\"processsubstitution\""), ("command", showNode src c), posAttr src p]
def showNodes (src : Option Str) : List Node → String
  | [] => "[]"
  | n :: ns => "[" ++ showNode src n ++ showNodesTail src ns
def showNodesTail (src : Option Str) : List Node → String
  | [] => "]"
  | n :: ns => "," ++ showNode src n ++ showNodesTail src ns
end

def showExn : Exn → String
  | .parsing msg src pos => s!"PE|{quoteStr msg.toList}|{quoteStr src}|{pos}"
  | .notImplemented _ => "NI"
  | .foreign ty site => s!"F|{ty}|{site}"
  | .outOfFuel site => s!"FUEL|{site}"

def showOutcome (src : Option Str) : Outcome → String
  | .parts l => "OK " ++ showNodes src l
  | .single none => "ONE None"
  | .single (some n) => "ONE " ++ showNode src n
  | .strs l => "STRS [" ++ joinWith "," (l.map quoteStr) ++ "]"
  | .exn e => "EXN " ++ showExn e

end Bashlex
