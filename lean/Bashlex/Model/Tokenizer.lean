/-
  Line-by-line model of bashlex/tokenizer.py, bashlex/heredoc.py and shutils.removequotes.

  Faithful means: what the Python does, quirks included.  Python behaviour outside the contract
  (TypeError, IndexError, UnboundLocalError, AssertionError, ValueError) is `M.foreign ty fn`
  where `fn` is the name of the innermost bashlex function on the traceback.
  Unobservable attributes (`_line_number`, `_function_dstart`, `startlineno`, `_token_to_read`)
  are omitted.  `try: ... finally: self._pop_delimiter()` is modelled without the `finally`:
  an exception leaves `M` with no state, so the pop on the exceptional path is unobservable.
-/
import Bashlex.Model.Monad

namespace Bashlex

/-! ## small Python helpers -/

/-- fuel for one loop over the tape -/
def loopFuel : M Nat := pure 1073741824
/-- fuel for the recursion depth of `_parse_matched_pair` / `_parse_comsub` -/
def depthFuel : M Nat := pure 1048576

/-- `s[i:]` for a Python int `i` (negative counts from the end) -/
def pySliceFromInt (s : Str) (i : Int) : Str :=
  if i ≥ 0 then s.drop i.toNat else s.drop (s.length - (-i).toNat)

/-- `s[i]` for a Python int `i`; `none` = IndexError -/
def pyAtInt? (s : Str) (i : Int) : Option Char :=
  if i ≥ 0 then s[i.toNat]? else
    if (-i).toNat ≤ s.length then s[s.length - (-i).toNat]? else none

/-- `s[-n:]` for `n > 0` -/
def pyLastN (s : Str) (n : Nat) : Str := s.drop (s.length - n)
/-- `s[:-n]` for `n > 0` -/
def pyDropLastN (s : Str) (n : Nat) : Str := s.take (s.length - n)

def hexDigit (n : Nat) : Char := if n < 10 then Char.ofNat (48 + n) else Char.ofNat (87 + n)

/-- Python `repr` of a `str` (ASCII input) -/
def pyReprStr (s : Str) : String :=
  let q : Char := if s.contains '\'' && !s.contains '"' then '"' else '\''
  let body : List Char := s.flatMap fun c =>
    if c == '\\' then ['\\', '\\']
    else if c == q then ['\\', c]
    else if c == '\n' then ['\\', 'n']
    else if c == '\t' then ['\\', 't']
    else if c == '\r' then ['\\', 'r']
    else if c.toNat < 32 || c.toNat == 127 then
      ['\\', 'x', hexDigit (c.toNat / 16), hexDigit (c.toNat % 16)]
    else [c]
  String.ofList ([q] ++ body ++ [q])

/-! ## shutils.removequotes (heredoc=False, doublequotes=False) -/

structure RQState where
  r : Str := []
  sindex : Nat := 0
  dquote : Bool := false

/-- one iteration of `while sindex < len(s)`; `.inr r` = `return r` -/
def removequotesStep (s : Str) (st : RQState) : RQState ⊕ Str :=
  if !(st.sindex < s.length) then .inr st.r else
  match s[st.sindex]? with
  | none => .inr st.r
  | some c =>
    if c == '\\' then
      let sindex := st.sindex + 1
      if sindex == s.length then .inr (st.r ++ ['\\'])
      else
        match s[sindex]? with
        | none => .inr st.r   -- unreachable: sindex < len(s)
        | some c2 =>
          -- `((heredoc and doublequotes) or dquote) and not _shellquote(c)`
          let r := if st.dquote && !(c2 == '"' || c2 == '`' || c2 == '\'') then st.r ++ ['\\'] else st.r
          -- NB: Python does not advance `sindex` past the escaped character here
          .inl { st with r := r ++ [c2], sindex := sindex }
    else if c == '\'' then
      if st.dquote then .inl { st with r := st.r ++ [c], sindex := st.sindex + 1 }
      else
        let t := match Str.findFrom s '\'' (st.sindex + 1) with
          | none => s.length
          | some t => t + 1
        .inl { st with r := st.r ++ Str.slice s (st.sindex + 1) (t - 1), sindex := t }
    else if c == '"' then .inl { st with dquote := !st.dquote, sindex := st.sindex + 1 }
    else .inl { st with r := st.r ++ [c], sindex := st.sindex + 1 }

def removequotesLoop (s : Str) : Nat → RQState → Str
  | 0, st => st.r
  | fuel + 1, st =>
    match removequotesStep s st with
    | .inl st' => removequotesLoop s fuel st'
    | .inr r => r

/-- `shutils.removequotes(s)`; every iteration advances `sindex`, so `2·len + 2` steps suffice -/
def removequotes (s : Str) : Str := removequotesLoop s (2 * s.length + 2) {}

/-! ## tokenizer.readline -/

structure RLState where
  linebuffer : Str := []
  passnext : Bool := false
  indx : Nat := 0

/-- `tokenizer.readline(removequotenewline)`; `none` = Python `None` -/
def readline (removequotenewline : Bool) : M (Option Str) := do
  let fuel ← loopFuel
  M.loop "readline" (fun (st : RLState) => do
    let c0 ← getc
    if c0.isNone && st.indx == 0 then return .inr none
    let c : Char := c0.getD '\n'
    let mut st := st
    if st.passnext then
      st := { st with linebuffer := st.linebuffer ++ [c], indx := st.indx + 1, passnext := false }
    else if c == '\\' && removequotenewline then
      let peek ← getc
      if peek == some '\n' then
        return .inl st            -- `continue`
      else
        ungetc peek
        st := { st with passnext := true, linebuffer := st.linebuffer ++ [c], indx := st.indx + 1 }
    else
      st := { st with linebuffer := st.linebuffer ++ [c], indx := st.indx + 1 }
    if c == '\n' then return .inr (some st.linebuffer)
    return .inl st) fuel {}

/-! ## heredoc.py -/

/-- `while fullline[0] == '\t': fullline = fullline[1:]`; `none` = IndexError on the empty string -/
def stripLeadingTabs : Str → Option Str
  | [] => none
  | c :: cs => if c == '\t' then stripLeadingTabs cs else some (c :: cs)

structure HDState where
  fullline : Option Str
  document : Str := []

/-- truthiness of `fullline` (None or '') -/
def strTruthy : Option Str → Bool
  | none => false
  | some [] => false
  | some _ => true

/-- `heredoc.makeheredoc(tokenizer, redirnode, 0, killleading)` for the store cell `id` -/
def makeheredoc (id : Nat) (killleading : Bool) : M Unit := do
  let l ← get
  let cell ← match l.store[id]? with
    | some c => pure c
    | none => M.foreign "IndexError" "makeheredoc"   -- not a Python path: ids come from the store
  let redirword := cell.delim
  let startpos ← curIdx
  let first ← readline false
  let fuel ← loopFuel
  -- `while fullline:` ... ; the loop result is the final (fullline, document)
  let fin ← M.loop "makeheredoc" (fun (st : HDState) => do
    if !strTruthy st.fullline then return .inr st
    let mut fullline : Str := st.fullline.getD []
    if killleading then
      match stripLeadingTabs fullline with
      | none => M.foreign "IndexError" "makeheredoc"
      | some f => fullline := f
    if fullline.isEmpty then return .inl { st with fullline := some fullline }   -- `continue`
    if pyDropLastN fullline 1 == redirword then
      match fullline[redirword.length]? with
      | none => M.foreign "IndexError" "makeheredoc"
      | some ch =>
        if ch == '\n' then
          -- `break` with a truthy `fullline`
          return .inr { fullline := some fullline, document := st.document ++ pyDropLastN fullline 1 }
    let document := st.document ++ fullline
    let next ← readline false
    return .inl { fullline := next, document := document }) fuel { fullline := first }
  if !strTruthy fin.fullline then
    let line ← tapeLine
    let i ← curIdx
    M.raise (mkParsingError
      ("here-document at line 0 delimited by end-of-file (wanted " ++ pyReprStr redirword ++ ")")
      line (i : Int))
  let document := fin.document
  let endpos := (← curIdx) - 1
  let l ← get
  let pos := if cell.pos.2 + 1 == startpos then (cell.pos.1, endpos) else cell.pos
  let cell' : RedirCell :=
    { cell with heredoc := some ((startpos, endpos), document), pos := pos }
  set { l with store := l.store.set id cell' }

/-- `heredoc.gatherheredocuments(tokenizer)` -/
def gatherheredocuments : M Unit := do
  let fuel := (← get).redirstack.length + 1
  M.loop "gatherheredocuments" (fun (_ : Unit) => do
    let l ← get
    match l.redirstack with
    | [] => return .inr ()
    | (id, kill) :: rest =>
      let p ← peekc
      if p.isNone then
        if !(← optStrict) then
          bumpIdx
          return .inr ()
      modify fun l => { l with redirstack := rest }
      makeheredoc id kill
      return .inl ()) fuel ()

/-! ## delimiter stack -/

def pushDelimiter (c : Char) : M Unit := modify fun l => { l with dstack := l.dstack ++ [c] }
def popDelimiter : M Unit := do
  let l ← get
  if l.dstack.isEmpty then M.foreign "IndexError" "_pop_delimiter"
  set { l with dstack := l.dstack.dropLast }
def currentDelimiter : M (Option Char) := do return (← get).dstack.getLast?

/-- outcome of the non-recursive first part of one loop iteration -/
inductive Step (σ : Type) where
  | cont (s : σ)             -- `continue`
  | done (r : Str)           -- `break`
  | next (s : σ) (c : Char)  -- fall through to the recursive part with the current `c`

/-! ## _parse_matched_pair -/

structure MPParams where
  doublequotes : Option Char
  opn : Char
  close : Char
  parsingcommand : Bool := false
  allowesc : Bool := false
  dquote : Bool := false
  firstclose : Bool := false
  dolbrace : Bool := false
  arraysub : Bool := false

structure CSParams where
  doublequotes : Option Char
  opn : Char
  close : Char
  parsingcommand : Bool := false
  dquote : Bool := false
  firstclose : Bool := false

inductive DolBrace where
  | empty | param | op | word | quote | quote2
  deriving DecidableEq, Repr

/-- `dolbracestate not in 'quote2'` (a substring test: '' , 'quote', 'quote2' are "in") -/
def DolBrace.notInQuote2 : DolBrace → Bool
  | .param | .op | .word => true
  | .empty | .quote | .quote2 => false

structure MPState where
  count : Nat := 1
  dolbracestate : DolBrace := .empty
  insidecomment : Bool := false
  sawdollar : Bool := false
  passnextchar : Bool := false
  ret : Str := []

def isDolOp (c : Char) : Bool :=
  ['#', '%', '^', ',', '~', ':', '-', '=', '?', '+', '/'].contains c
def isDolOpen (c : Char) : Bool := c == '(' || c == '{' || c == '['

/-- the prologue of `_parse_matched_pair`: returns (lookforcomments, rdquote) -/
def mpInit (P : MPParams) : M (Bool × Bool) := do
  let mut lookforcomments := false
  if P.parsingcommand then
    -- `doublequotes not in "`'\""` with `doublequotes is None` is a TypeError
    match P.doublequotes with
    | none => M.foreign "TypeError" "_parse_matched_pair"
    | some d =>
      if !(d == '`' || d == '\'' || d == '"') && P.dquote then lookforcomments := true
  let rdquote := if P.doublequotes == some '"' then true else P.dquote
  return (lookforcomments, rdquote)

/-- one iteration of `while count:` up to (excluding) `if open != close:` -/
def mpPre (P : MPParams) (lookforcomments : Bool) (st : MPState) : M (Step MPState) := do
  let c0 ← getc (P.doublequotes != some '\'' && !st.passnextchar)
  let c ← match c0 with
    | none => matchedPairError P.close
    | some c => pure c
  let mut st := st
  if st.insidecomment then
    st := { st with ret := st.ret ++ [c] }
    if c == '\n' then st := { st with insidecomment := false }
    return .cont st
  else if lookforcomments && !st.insidecomment && c == '#' &&
      (st.ret.isEmpty || st.ret.getLast? == some '\n' || (st.ret.getLast?.map shellblank).getD false) then
    st := { st with insidecomment := true }
  -- last char was backslash
  if st.passnextchar then
    return .cont { st with passnextchar := false, ret := st.ret ++ [c] }
  else if c == P.close then
    st := { st with count := st.count - 1 }
  else if P.opn != P.close && st.sawdollar && P.opn == '{' && c == P.opn then
    st := { st with count := st.count + 1 }
  else if !P.firstclose && c == P.opn then
    st := { st with count := st.count + 1 }
  st := { st with ret := st.ret ++ [c] }
  if st.count == 0 then return .done st.ret
  if P.opn == '\'' then
    if P.allowesc && c == '\\' then st := { st with passnextchar := true }
    return .cont st
  if c == '\\' then st := { st with passnextchar := true }
  if P.dolbrace then
    if st.dolbracestate == .param then
      if st.ret.length > 1 then
        if c == '%' || c == '#' || c == '^' || c == ',' then st := { st with dolbracestate := .quote }
        else if c == '/' then st := { st with dolbracestate := .quote2 }
      else if isDolOp c then st := { st with dolbracestate := .op }
    if st.dolbracestate == .op && isDolOp c then st := { st with dolbracestate := .word }
  if st.dolbracestate.notInQuote2 && P.dquote && P.dolbrace && c == '\'' then
    return .cont st    -- NB: `sawdollar` keeps its old value
  return .next st c

/-- the closure `handledollarword` of `_parse_matched_pair` -/
def handledollarword (pmp : MPParams → M Str) (pcs : CSParams → M Str) (P : MPParams)
    (rdquote : Bool) (c : Char) : M Str := do
  -- `count -= 1` makes `count` a local of the closure: UnboundLocalError
  if P.opn == c then M.foreign "UnboundLocalError" "handledollarword"
  if c == '(' then
    pcs { doublequotes := none, opn := '(', close := ')', parsingcommand := true, dquote := false }
  else if c == '{' then
    pmp { doublequotes := none, opn := '{', close := '}', firstclose := true, dquote := rdquote,
          dolbrace := true }
  else if c == '[' then
    pmp { doublequotes := none, opn := '[', close := ']', dquote := rdquote }
  else M.foreign "AssertionError" "handledollarword"

/-- the rest of the iteration, from `if open != close:`; `pmp`/`pcs` are the recursive calls -/
def mpPost (pmp : MPParams → M Str) (pcs : CSParams → M Str) (P : MPParams) (rdquote : Bool)
    (st : MPState) (c : Char) : M MPState := do
  let mut st := st
  if P.opn != P.close then
    if ← shellquote c then
      pushDelimiter c
      -- `if sawdollar and "'"` is just `if sawdollar`
      let nestret ← pmp { doublequotes := some c, opn := c, close := c,
                          parsingcommand := P.parsingcommand,
                          allowesc := if st.sawdollar then true else P.allowesc,
                          dquote := P.dquote, firstclose := P.firstclose, dolbrace := P.dolbrace }
      popDelimiter
      -- (`$'…'` and, since fix D41, `$"…"` are kept as written)
      st := { st with ret := st.ret ++ nestret }
    else if P.arraysub && st.sawdollar && isDolOpen c then
      let r ← handledollarword pmp pcs P rdquote c
      st := { st with ret := st.ret ++ r }
  else if P.opn == '"' && c == '`' then
    let r ← pmp { doublequotes := none, opn := '`', close := '`',
                  parsingcommand := P.parsingcommand, allowesc := P.allowesc, dquote := P.dquote,
                  firstclose := P.firstclose, dolbrace := P.dolbrace }
    st := { st with ret := st.ret ++ r }
  else if P.opn != '`' && st.sawdollar && isDolOpen c then
    let r ← handledollarword pmp pcs P rdquote c
    st := { st with ret := st.ret ++ r }
  return { st with sawdollar := c == '$' }

/-! ## _parse_comsub -/

structure CSState where
  count : Nat := 1
  heredelim : Str := []
  stripdoc : Bool := false
  insideheredoc : Bool := false
  insidecomment : Bool := false
  insideword : Bool := false
  insidecase : Bool := false
  readingheredocdelim : Bool := false
  wasdollar : Bool := false
  passnextchar : Bool := false
  reservedwordok : Bool := true
  lexfirstind : Int := -1
  lexrwlen : Nat := 0
  /-- `none`: the local `lexwlen` is unbound -/
  lexwlen : Option Nat := none
  ret : Str := []

/-- `while stripdoc and tind < len(ret) and ret[tind] == '\t': tind += 1`; `none` = IndexError -/
def skipTabs (stripdoc : Bool) (ret : Str) : Nat → Int → Option Int
  | 0, t => some t
  | f + 1, t =>
    if stripdoc && t < (ret.length : Int) then
      match pyAtInt? ret t with
      | none => none
      | some ch => if ch == '\t' then skipTabs stripdoc ret f (t + 1) else some t
    else some t

/-- `tind = lexfirstind; while ...; ret[tind:] == heredelim` -/
def csDelimMatches (st : CSState) : M Bool := do
  match skipTabs st.stripdoc st.ret (st.ret.length + 2) st.lexfirstind with
  | none => M.foreign "IndexError" "_parse_comsub"
  | some tind => return pySliceFromInt st.ret tind == st.heredelim

def csEndHeredoc (st : CSState) : CSState :=
  { st with stripdoc := false, insideheredoc := false, heredelim := [], lexfirstind := -1 }

/-- `c in '&|;'` -/
def isAndOrSemi (c : Char) : Bool := c == '&' || c == '|' || c == ';'

/-- from the `_getc` to the `passnextchar` test -/
def csA (P : CSParams) (st : CSState) : M (Step CSState) := do
  let c0 ← getc (P.doublequotes != some '\'' && !st.insidecomment && !st.passnextchar)
  let c ← match c0 with
    | none => matchedPairError P.close
    | some c => pure c
  let mut st := st
  -- bashlex/parse.y L3571
  if c == '\n' then
    if st.readingheredocdelim && !st.heredelim.isEmpty then
      st := { st with readingheredocdelim := false, insideheredoc := true,
                      lexfirstind := (st.ret.length : Int) + 1 }
    else if st.insideheredoc then
      if ← csDelimMatches st then st := csEndHeredoc st
      else st := { st with lexfirstind := (st.ret.length : Int) + 1 }
  -- bashlex/parse.y L3599
  if st.insideheredoc && c == P.close && st.count == 1 then
    if ← csDelimMatches st then st := csEndHeredoc st
  if st.insidecomment || st.insideheredoc then
    st := { st with ret := st.ret ++ [c] }
    if st.insidecomment && c == '\n' then st := { st with insidecomment := false }
    return .cont st
  if st.passnextchar then
    return .cont { st with passnextchar := false, ret := st.ret ++ [c] }
  return .next st c

/-- from `if _shellbreak(c)` to the end of the `not reservedwordok and checkcase` block -/
def csB (checkcase : Bool) (st : CSState) (c : Char) : M (Step CSState) := do
  let mut st := st
  if ← shellbreak c then
    st := { st with insideword := false }
  else
    if st.insideword then
      match st.lexwlen with
      | none => M.foreign "UnboundLocalError" "_parse_comsub"
      | some n => st := { st with lexwlen := some (n + 1) }
    else
      st := { st with insideword := true, lexwlen := some 0 }
  if shellblank c && !st.readingheredocdelim && st.lexrwlen == 0 then
    return .cont { st with ret := st.ret ++ [c] }
  -- bashlex/parse.y L3686
  if st.readingheredocdelim then
    if st.lexfirstind == -1 && !(← shellbreak c) then
      st := { st with lexfirstind := (st.ret.length : Int) }
    else if st.lexfirstind ≥ 0 && !st.passnextchar && (← shellbreak c) then
      if st.heredelim.isEmpty then
        let nestret := pySliceFromInt st.ret st.lexfirstind
        st := { st with heredelim := removequotes nestret }
      if c == '\n' then
        st := { st with insideheredoc := true, readingheredocdelim := false,
                        lexfirstind := (st.ret.length : Int) + 1 }
      else
        st := { st with lexfirstind := -1 }
  if !st.reservedwordok && checkcase && !st.insidecomment && ((← shellmeta c) || c == '\n') then
    st := { st with ret := st.ret ++ [c] }
    let peek ← getc true
    if some c == peek && isAndOrSemi c then
      return .cont { st with ret := st.ret ++ [c], reservedwordok := true, lexrwlen := 0 }
    else if c == '\n' || isAndOrSemi c then
      ungetc peek
      return .cont { st with reservedwordok := true, lexrwlen := 0 }
    -- `elif c is None` cannot hold
    else
      st := { st with ret := pyDropLastN st.ret 1 }
      ungetc peek
  return .next st c

/-- the `if reservedwordok:` block and the `<` / `#` block; may replace `c` by the peeked char -/
def csC (P : CSParams) (checkcase : Bool) (st : CSState) (c : Char) : M (Step CSState) := do
  let checkcomment := checkcase
  let mut st := st
  -- bashlex/parse.y L3761
  if st.reservedwordok then
    if isLowerAscii c then
      return .cont { st with ret := st.ret ++ [c], lexrwlen := st.lexrwlen + 1 }
    else if st.lexrwlen == 4 && (← shellbreak c) then
      if pyLastN st.ret 4 == ['c', 'a', 's', 'e'] then st := { st with insidecase := true }
      else if pyLastN st.ret 4 == ['e', 's', 'a', 'c'] then st := { st with insidecase := false }
      st := { st with reservedwordok := false }
    else if checkcomment && c == '#' &&
        (st.lexrwlen == 0 || (st.insideword && st.lexwlen == some 0)) then
      -- (`insideword` implies `lexwlen` is bound)
      pure ()
    else if !st.insidecase && (shellblank c || c == '\n') && st.lexrwlen == 2 &&
        pyLastN st.ret 2 == ['d', 'o'] then
      st := { st with lexrwlen := 0 }
    else if st.insidecase && c != '\n' then
      st := { st with reservedwordok := false }
    else if !(← shellbreak c) then
      st := { st with reservedwordok := false }
  if !st.insidecomment && checkcase && c == '<' then
    st := { st with ret := st.ret ++ [c] }
    let peek0 ← getc true
    let peek ← match peek0 with
      | none => matchedPairError P.close
      | some p => pure p
    if peek == c then
      st := { st with ret := st.ret ++ [peek] }
      let peek20 ← getc true
      let peek2 ← match peek20 with
        | none => matchedPairError P.close
        | some p => pure p
      if peek2 == '-' then
        st := { st with ret := st.ret ++ [peek2], stripdoc := true }
      else
        ungetc (some peek2)
      if peek2 != '<' then
        st := { st with readingheredocdelim := true, lexfirstind := -1 }
      return .cont st
    else
      return .next st peek      -- `c = peekc`
  else if checkcomment && !st.insidecomment && c == '#' then
    -- `(reservedwordok and lexrwlen == 0) or insideword or lexwlen == 0`
    let b ← (do
      if st.reservedwordok && st.lexrwlen == 0 then pure true
      else if st.insideword then pure true
      else match st.lexwlen with
        | none => M.foreign "UnboundLocalError" "_parse_comsub"
        | some n => pure (n == 0) : M Bool)
    if b then st := { st with insidecomment := true }
  return .next st c

/-- counting, `ret += c`, `break`, backslash -/
def csD (P : CSParams) (st : CSState) (c : Char) : M (Step CSState) := do
  let mut st := st
  if c == P.close && !st.insidecase then
    st := { st with count := st.count - 1 }
  else if !P.firstclose && !st.insidecase && c == P.opn then
    st := { st with count := st.count + 1 }
  st := { st with ret := st.ret ++ [c] }
  if st.count == 0 then return .done st.ret
  if c == '\\' then st := { st with passnextchar := true }
  return .next st c

def csPre (P : CSParams) (checkcase : Bool) (st : CSState) : M (Step CSState) := do
  match ← csA P st with
  | .cont s => return .cont s
  | .done r => return .done r
  | .next st c =>
    match ← csB checkcase st c with
    | .cont s => return .cont s
    | .done r => return .done r
    | .next st c =>
      match ← csC P checkcase st c with
      | .cont s => return .cont s
      | .done r => return .done r
      | .next st c => csD P st c

/-- the tail of the iteration (bashlex/parse.y L3897): nested quotes and `$(`, `${`, `$[` -/
def csPost (pmp : MPParams → M Str) (pcs : CSParams → M Str) (P : CSParams)
    (st : CSState) (c : Char) : M CSState := do
  let mut st := st
  if ← shellquote c then
    pushDelimiter c
    let nestret ← pmp { doublequotes := some c, opn := c, close := c,
                        allowesc := st.wasdollar && c == '\'', dquote := true }
    popDelimiter
    st := { st with ret := st.ret ++ nestret }
  else if st.wasdollar && isDolOpen c then
    if !st.insidecase && P.opn == c then st := { st with count := st.count - 1 }
    let nestret ←
      if c == '(' then
        pcs { doublequotes := none, opn := '(', close := ')', parsingcommand := true, dquote := false }
      else if c == '{' then
        pmp { doublequotes := none, opn := '{', close := '}', firstclose := true, dolbrace := true,
              dquote := true }
      else
        pmp { doublequotes := none, opn := '[', close := ']', dquote := true }
    st := { st with ret := st.ret ++ nestret }
  return { st with wasdollar := c == '$' }

/-! ## the two mutually recursive functions (structural on the depth fuel) -/

mutual

def parseMatchedPair : Nat → MPParams → M Str
  | 0, _ => M.raise (.outOfFuel "_parse_matched_pair")
  | fuel + 1, P => do
    let (lookforcomments, rdquote) ← mpInit P
    let lf ← loopFuel
    let init : MPState := { dolbracestate := if P.dolbrace then .param else .empty }
    M.loop "_parse_matched_pair" (fun (st : MPState) => do
      if st.count == 0 then return .inr st.ret
      match ← mpPre P lookforcomments st with
      | .cont s => return .inl s
      | .done r => return .inr r
      | .next s c =>
        let s' ← mpPost (parseMatchedPair fuel) (parseComsub fuel) P rdquote s c
        return .inl s') lf init
termination_by structural fuel => fuel

def parseComsub : Nat → CSParams → M Str
  | 0, _ => M.raise (.outOfFuel "_parse_comsub")
  | fuel + 1, P => do
    let peek ← getc false
    ungetc peek
    if peek == some '(' then
      parseMatchedPair fuel { doublequotes := P.doublequotes, opn := P.opn, close := P.close }
    else
      let checkcase : Bool := P.parsingcommand &&
        (match P.doublequotes with
         | none => true
         | some d => !(d == '\'' || d == '"')) && !P.dquote
      let lf ← loopFuel
      M.loop "_parse_comsub" (fun (st : CSState) => do
        if st.count == 0 then return .inr st.ret
        match ← csPre P checkcase st with
        | .cont s => return .inl s
        | .done r => return .inr r
        | .next s c =>
          let s' ← csPost (parseMatchedPair fuel) (parseComsub fuel) P s c
          return .inl s') lf {}
termination_by structural fuel => fuel

end

/-! ## tokens -/

/-- `TokType.strValue` as a character list (string literals cost axioms in `#print axioms`);
    tied to the table of Basic.lean by the `example` below -/
def TokType.strValueChars : TokType → Option Str
  | .BANG => some ['!'] | .AND_AND => some ['&', '&'] | .OR_OR => some ['|', '|']
  | .GREATER_GREATER => some ['>', '>'] | .LESS_LESS => some ['<', '<']
  | .LESS_AND => some ['<', '&'] | .LESS_LESS_LESS => some ['<', '<', '<']
  | .GREATER_AND => some ['>', '&'] | .SEMI_SEMI => some [';', ';'] | .SEMI_AND => some [';', '&']
  | .SEMI_SEMI_AND => some [';', ';', '&'] | .LESS_LESS_MINUS => some ['<', '<', '-']
  | .AND_GREATER => some ['&', '>'] | .AND_GREATER_GREATER => some ['&', '>', '>']
  | .LESS_GREATER => some ['<', '>'] | .GREATER_BAR => some ['>', '|']
  | .BAR_AND => some ['|', '&'] | .EOF => some ['$', 'e', 'n', 'd'] | .LEFT_PAREN => some ['(']
  | .RIGHT_PAREN => some [')'] | .BAR => some ['|'] | .SEMICOLON => some [';']
  | .DASH => some ['-'] | .NEWLINE => some ['\n'] | .LESS => some ['<'] | .GREATER => some ['>']
  | .AMPERSAND => some ['&']
  | _ => none

example : TokType.all.all (fun t => t.strValueChars == t.strValue.map String.toList) = true := by
  decide

/-- `valid_reserved_first_command` with character-list keys -/
def reservedFirstCommandChars : List (Str × TokType) :=
  [(['i', 'f'], .IF), (['t', 'h', 'e', 'n'], .THEN), (['e', 'l', 's', 'e'], .ELSE),
   (['e', 'l', 'i', 'f'], .ELIF), (['f', 'i'], .FI), (['c', 'a', 's', 'e'], .CASE),
   (['e', 's', 'a', 'c'], .ESAC), (['f', 'o', 'r'], .FOR), (['s', 'e', 'l', 'e', 'c', 't'], .SELECT),
   (['w', 'h', 'i', 'l', 'e'], .WHILE), (['u', 'n', 't', 'i', 'l'], .UNTIL), (['d', 'o'], .DO),
   (['d', 'o', 'n', 'e'], .DONE), (['i', 'n'], .IN),
   (['f', 'u', 'n', 'c', 't', 'i', 'o', 'n'], .FUNCTION), (['t', 'i', 'm', 'e'], .TIME),
   (['{'], .LEFT_CURLY), (['}'], .RIGHT_CURLY), (['!'], .BANG), (['[', '['], .COND_START),
   ([']', ']'], .COND_END), (['c', 'o', 'p', 'r', 'o', 'c'], .COPROC)]

example : reservedFirstCommandChars = reservedFirstCommand.map (fun p => (p.1.toList, p.2)) := by
  decide

/-- the value of an enum member (`tokentype.X.value`) -/
def TokType.enumValue (t : TokType) : TVal :=
  match t.strValueChars with
  | some s => .str s
  | none =>
    .int (match t with
      | .IF => 1 | .THEN => 2 | .ELSE => 3 | .ELIF => 4 | .FI => 5 | .CASE => 6 | .ESAC => 7
      | .FOR => 8 | .SELECT => 9 | .WHILE => 10 | .UNTIL => 11 | .DO => 12 | .DONE => 13
      | .FUNCTION => 14 | .COPROC => 15 | .COND_START => 16 | .COND_END => 17 | .IN => 19
      | .TIME => 21 | .TIMEOPT => 22 | .TIMEIGN => 23 | .WORD => 24 | .ASSIGNMENT_WORD => 25
      | .REDIR_WORD => 26 | .NUMBER => 27 | .ARITH_CMD => 28 | .ARITH_FOR_EXPRS => 29
      | .COND_CMD => 30 | .LEFT_CURLY => 47 | .RIGHT_CURLY => 48 | _ => 0)

/-- `_createtoken(type_, value, flags)` -/
def createtoken (ty : TokType) (v : TVal) (flags : WordFlags := []) : M Token := do
  let l ← get
  if l.positions.length < 2 then M.foreign "AssertionError" "_createtoken"
  let p2 := l.positions.getLast?.getD 0
  let rest := l.positions.dropLast
  let p1 := rest.getLast?.getD 0
  set { l with positions := rest.dropLast }
  -- `token.__init__`: `assert self.lexpos < self.endlexpos`
  if !(p1 < p2) then M.foreign "AssertionError" "token.__init__"
  return { ttype := some ty, value := v, pos := some (p1, p2), flags := flags }

/-- `_reserved_word_acceptable(tok)` -/
def reservedWordAcceptable (l : Local) (tok : Token) : Bool :=
  !tok.truthy
  || (match tok.ttype with | some t => reservedTypes.contains t | none => false)
  || (match tok.value with | .str [ch] => reservedChars.contains ch | _ => false)
  || (l.lastReadToken.is .WORD && l.tokenBeforeThat.is .FUNCTION)

/-- `_command_token_position(token)` (truthiness) -/
def commandTokenPosition (l : Local) (tok : Token) : Bool :=
  tok.is .ASSIGNMENT_WORD || l.ps.redirlist ||
  (!(tok.is .SEMI_SEMI || tok.is .SEMI_AND || tok.is .SEMI_SEMI_AND) && reservedWordAcceptable l tok)

/-- `_assignment_acceptable(token)` -/
def assignmentAcceptable (l : Local) (tok : Token) : Bool :=
  commandTokenPosition l tok && !l.ps.casepat

/-- `_time_command_acceptable()` returns None -/
def timeCommandAcceptable : Bool := false
/-- `shutils.legal_identifier(name)` returns None -/
def legalIdentifier (_ : Str) : Bool := false
/-- `shutils.legal_number` on a string (exact when the string is made of ASCII digits) -/
def legalNumber (s : Str) : Bool := !s.isEmpty && s.all isDigit
def digitsToNat (s : Str) : Nat := s.foldl (fun n c => 10 * n + (c.toNat - 48)) 0

/-- the `for i, c in enumerate(value)` loop of `_is_assignment` (truthiness of the result) -/
def isAssignmentLoop : Str → Bool
  | [] => false
  | c :: rest =>
    if c == '=' then true
    else if c == '+' && rest.head? == some '=' then true
    else if !(isAlnum c || c == '_') then false
    else isAssignmentLoop rest

/-- `_is_assignment(value, iscompassign)` (truthiness; index 0 cannot be returned) -/
def isAssignment (value : Str) : M Bool := do
  match value with
  | [] => M.foreign "IndexError" "_is_assignment"
  | c :: _ =>
    if !isAlpha c && c != '_' then return false
    return isAssignmentLoop value

/-- `_specialcasetokens(tokstr)` -/
def specialcasetokens (tokstr : Str) : M (Option TokType) := do
  let l ← get
  let last := l.lastReadToken
  let before := l.tokenBeforeThat
  if last.is .WORD && (before.is .FOR || before.is .CASE || before.is .SELECT) &&
      tokstr == ['i', 'n'] then
    if before.is .CASE then
      set { l with ps := { l.ps with casepat := true }, esacsNeeded := l.esacsNeeded + 1 }
    return some .IN
  if last.is .WORD && (before.is .FOR || before.is .SELECT) && tokstr == ['d', 'o'] then
    return some .DO
  if l.esacsNeeded != 0 then
    modify fun l => { l with esacsNeeded := l.esacsNeeded - 1 }
    if tokstr == ['e', 's', 'a', 'c'] then
      modify fun l => { l with ps := { l.ps with casepat := false } }
      return some .ESAC
  if (← get).ps.allowopnbrc then
    modify fun l => { l with ps := { l.ps with allowopnbrc := false } }
    if tokstr == ['{'] then
      modify fun l => { l with openBraceCount := l.openBraceCount + 1 }
      return some .LEFT_CURLY
  if last.is .ARITH_FOR_EXPRS && tokstr == ['d', 'o'] then
    return some .DO
  if last.is .ARITH_FOR_EXPRS && tokstr == ['{'] then
    modify fun l => { l with openBraceCount := l.openBraceCount + 1 }
    return some .LEFT_CURLY
  let l ← get
  if l.openBraceCount != 0 && reservedWordAcceptable l l.lastReadToken && tokstr == ['}'] then
    set { l with openBraceCount := l.openBraceCount - 1 }
    return some .RIGHT_CURLY
  if last.is .TIME && tokstr == ['-', 'p'] then return some .TIMEOPT
  if last.is .TIMEOPT && tokstr == ['-', '-'] then return some .TIMEIGN
  if l.ps.condexpr && tokstr == [']', ']'] then return some .COND_END
  return none

/-! ## _readtokenword -/

/-- the dict `d`, `tokenword` and the loop variable `c` -/
structure RWState where
  c : Option Char
  allDigit : Bool
  dollarPresent : Bool := false
  quoted : Bool := false
  passNext : Bool := false
  compoundAssignment : Bool := false
  tokenword : Str := []

/-- closure `handleescapedchar` -/
def handleescapedchar (st : RWState) (c : Char) : RWState :=
  { st with tokenword := st.tokenword ++ [c],
            allDigit := st.allDigit && isDigit c,
            dollarPresent := if !st.dollarPresent then c == '$' else st.dollarPresent }

/-- closure `handleshellquote` -/
def handleshellquote (st : RWState) (c : Char) : M RWState := do
  pushDelimiter c
  let ttok ← parseMatchedPair (← depthFuel)
    { doublequotes := some c, opn := c, close := c, parsingcommand := c == '`' }
  popDelimiter
  return { st with tokenword := st.tokenword ++ [c] ++ ttok, allDigit := false, quoted := true,
                   dollarPresent := if !st.dollarPresent then c == '"' && ttok.contains '$'
                                    else st.dollarPresent }

/-- closure `handleshellexp`; the Bool is its return value (`True`, or `None` = false) -/
def handleshellexp (st : RWState) (c : Char) (cd : Option Char) : M (RWState × Bool) := do
  let peek ← getc
  if peek == some '(' || (c == '$' && (peek == some '{' || peek == some '[')) then
    let ttok ←
      if peek == some '{' then
        parseMatchedPair (← depthFuel)
          { doublequotes := cd, opn := '{', close := '}', firstclose := true, dolbrace := true }
      else if peek == some '(' then do
        pushDelimiter '('
        let t ← parseComsub (← depthFuel)
          { doublequotes := cd, opn := '(', close := ')', parsingcommand := true }
        popDelimiter
        pure t
      else
        parseMatchedPair (← depthFuel) { doublequotes := cd, opn := '[', close := ']' }
    return ({ st with tokenword := st.tokenword ++ [c] ++ peek.toList ++ ttok,
                      dollarPresent := true, allDigit := false }, false)
  else if c == '$' && (peek == some '\'' || peek == some '"') then
    let p := peek.getD '"'
    pushDelimiter p
    let ttok ← parseMatchedPair (← depthFuel)
      { doublequotes := some p, opn := p, close := p, allowesc := p == '\'' }
    popDelimiter
    return ({ st with tokenword := st.tokenword ++ [c, p] ++ ttok, quoted := true,
                      allDigit := false }, false)
  else if c == '$' && peek == some '$' then
    return ({ st with tokenword := st.tokenword ++ ['$', '$'], dollarPresent := true,
                      allDigit := false }, false)
  else
    ungetc peek
    return (st, true)

/-- one iteration of `while True:` in `_readtokenword`; `.inr` = `break` -/
def readtokenwordStep (st : RWState) : M (RWState ⊕ RWState) := do
  match st.c with
  | none => return .inr st
  | some c0 =>
    let mut st := st
    let mut c := c0
    if st.passNext then
      st := handleescapedchar { st with passNext := false } c
    else
      let cd ← currentDelimiter
      let mut gotonext := false
      if c == '\\' then
        let peek ← getc false
        if peek == some '\n' then
          c := '\n'
          gotonext := true
        else
          ungetc peek
          let cond ← (do
            if cd.isNone || cd == some '`' then pure true
            else if cd == some '"' then
              match peek with
              | none => pure false
              | some p => pure (← syn p).dquote
            else pure false : M Bool)
          if cond then
            st := handleescapedchar { st with passNext := true, quoted := true } c
            gotonext := true
      else if ← shellquote c then
        st ← handleshellquote st c
        gotonext := true
      else if ← shellexp c then
        let (st', r) ← handleshellexp st c cd
        st := st'
        gotonext := !r
      if !gotonext then
        if ← shellbreak c then
          ungetc (some c)
          return .inr { st with c := some c }
        else
          st := handleescapedchar st c
    let cd ← currentDelimiter
    let nc ← getc (cd != some '\'' && !st.passNext)
    return .inl { st with c := nc }

/-- the part of `_readtokenword` after `# got_token` -/
def finishWord (st : RWState) : M Token := do
  recordpos
  let tokenword := st.tokenword
  let cIsRedir := st.c == some '<' || st.c == some '>'
  let l ← get
  if st.allDigit && (cIsRedir || l.lastReadToken.is .LESS_AND || l.lastReadToken.is .GREATER_AND)
      && legalNumber tokenword then
    return ← createtoken .NUMBER (.int (digitsToNat tokenword))
  -- bashlex/parse.y L4811
  match ← specialcasetokens tokenword with
  | some ty => return ← createtoken ty (.str tokenword)
  | none => pure ()
  let l ← get
  if !st.dollarPresent && !st.quoted && reservedWordAcceptable l l.lastReadToken then
    match reservedFirstCommandChars.lookup tokenword with
    | some ttype =>
      let ps := l.ps
      if ps.casepat && ttype != .ESAC then pure ()
      else if ttype == .TIME && !timeCommandAcceptable then pure ()
      else if ttype == .ESAC then set { l with ps := { ps with casepat := false, casestmt := false } }
      else if ttype == .CASE then set { l with ps := { ps with casestmt := true } }
      else if ttype == .COND_END then set { l with ps := { ps with condcmd := false, condexpr := false } }
      else if ttype == .COND_START then set { l with ps := { ps with condcmd := true } }
      else if ttype == .LEFT_CURLY then set { l with openBraceCount := l.openBraceCount + 1 }
      else if ttype == .RIGHT_CURLY && l.openBraceCount != 0 then
        set { l with openBraceCount := l.openBraceCount - 1 }
      return ← createtoken ttype (.str tokenword)
    | none => pure ()
  let mut tok ← createtoken .WORD (.str tokenword) []
  if st.dollarPresent then tok := { tok with flags := addFlag tok.flags .HASDOLLAR }
  if st.quoted then tok := { tok with flags := addFlag tok.flags .QUOTED }
  -- `d['compound_assignment']` is never set; `tokenword[-1]` on a token object is not reached
  if st.compoundAssignment then M.foreign "TypeError" "_readtokenword"
  let l ← get
  if ← isAssignment tokenword then
    tok := { tok with flags := addFlag tok.flags .ASSIGNMENT }
    if assignmentAcceptable l l.lastReadToken then
      tok := { tok with flags := addFlag tok.flags .NOSPLIT }
      if l.ps.compassign then tok := { tok with flags := addFlag tok.flags .NOGLOB }
  -- bashlex/parse.y L4865: `if self._command_token_position(...): pass`
  let _ := commandTokenPosition l l.lastReadToken
  -- (`value[0]`/`value[-1]` cannot raise: `_is_assignment` already indexed `value[0]`)
  if tokenword.head? == some '{' && tokenword.getLast? == some '}' && cIsRedir then
    if legalIdentifier (tokenword.drop 1) then
      tok := { tok with value := .str (tokenword.drop 1), ttype := some .REDIR_WORD }
    return tok
  if tok.flags.contains .ASSIGNMENT && tok.flags.contains .NOSPLIT then
    tok := { tok with ttype := some .ASSIGNMENT_WORD }
  if l.lastReadToken.is .FUNCTION then
    modify fun l => { l with ps := { l.ps with allowopnbrc := true } }
  return tok

/-- `_readtokenword(c)` -/
def readtokenword (c : Char) : M Token := do
  let fuel ← loopFuel
  let st ← M.loop "_readtokenword" readtokenwordStep fuel { c := some c, allDigit := isDigit c }
  finishWord st

/-! ## _readtoken, token -/

/-- `_discard_until(character)` -/
def discardUntil (character : Char) : M Unit := do
  let fuel ← loopFuel
  let c ← getc false
  let c ← M.loop "_discard_until" (fun (c : Option Char) => do
    match c with
    | none => return .inr c
    | some ch =>
      if ch != character then return .inl (← getc false) else return .inr c) fuel c
  if c.isSome then ungetc c

/-- `tokentype(character)` -/
def tokentypeOfChar (c : Char) : M TokType :=
  match TokType.ofChar c with
  | some t => pure t
  | none => M.foreign "ValueError" "_readtoken"

/-- the `_shellmeta(character) and not DBLPAREN` block of `_readtoken`;
    `none` = fall through to the code after the block -/
def readtokenMeta (character : Char) : M (Option TokType) := do
  modify fun l => { l with ps := { l.ps with assignok := false } }
  let peek ← getc true
  -- `both = character (+ peek_char)`; `character == peek_char`
  if peek == some character then
    if character == '<' then
      let p ← getc
      if p == some '-' then return some .LESS_LESS_MINUS
      else if p == some '<' then return some .LESS_LESS_LESS
      else
        ungetc p
        return some .LESS_LESS
    else if character == '>' then return some .GREATER_GREATER
    else if character == ';' then
      modify fun l => { l with ps := { l.ps with casepat := true } }
      let p ← getc
      if p == some '&' then return some .SEMI_SEMI_AND
      else
        ungetc p
        return some .SEMI_SEMI
    else if character == '&' then return some .AND_AND
    else if character == '|' then return some .OR_OR
  else if character == '<' && peek == some '&' then return some .LESS_AND
  else if character == '>' && peek == some '&' then return some .GREATER_AND
  else if character == '<' && peek == some '>' then return some .LESS_GREATER
  else if character == '>' && peek == some '|' then return some .GREATER_BAR
  else if character == '&' && peek == some '>' then
    let p ← getc
    if p == some '>' then return some .AND_GREATER_GREATER
    else
      ungetc p
      return some .AND_GREATER
  else if character == '|' && peek == some '&' then return some .BAR_AND
  else if character == ';' && peek == some '&' then return some .SEMI_AND
  ungetc peek
  let l ← get
  if character == ')' && l.lastReadToken.value == .str ['('] && l.tokenBeforeThat.is .WORD then
    modify fun l => { l with ps := { l.ps with allowopnbrc := true } }
  let l ← get
  if character == '(' && !l.ps.casepat then
    set { l with ps := { l.ps with subshell := true } }
  else if l.ps.casepat && character == ')' then
    set { l with ps := { l.ps with casepat := false } }
  else if l.ps.subshell && character == ')' then
    set { l with ps := { l.ps with subshell := false } }
  if !(character == '<' || character == '>') || peek != some '(' then
    return some (← tokentypeOfChar character)
  return none

/-- `_readtoken()`: a bare token type (`.inl`) or a token (`.inr`) -/
def readtoken : M (TokType ⊕ Token) := do
  let fuel ← loopFuel
  let c0 ← getc true
  let c1 ← M.loop "_readtoken" (fun (c : Option Char) => do
    match c with
    | some ch => if shellblank ch then return .inl (← getc true) else return .inr c
    | none => return .inr c) fuel c0
  let mut character ← match c1 with
    | none => return .inr { ttype := some .EOF, value := .none }
    | some ch => pure ch
  if character == '#' then
    discardUntil '\n'
    let _ ← getc false
    character := '\n'
  recordpos 1
  if character == '\n' then
    -- bashlex/parse.y L3034 ALIAS
    gatherheredocuments
    modify fun l => { l with ps := { l.ps with assignok := false } }
    return .inl (← tokentypeOfChar character)
  if (← get).ps.regexp then
    return .inr (← readtokenword character)
  if (← shellmeta character) && !(← get).ps.dblparen then
    match ← readtokenMeta character with
    | some t => return .inl t
    | none => pure ()
  let l ← get
  if character == '-' && (l.lastReadToken.is .LESS_AND || l.lastReadToken.is .GREATER_AND) then
    return .inl (← tokentypeOfChar character)
  return .inr (← readtokenword character)

/-- `tokenizer.token()` -/
def nextToken : M Token := do
  modify fun l => { l with twoTokensAgo := l.tokenBeforeThat, tokenBeforeThat := l.lastReadToken,
                           lastReadToken := l.currentToken }
  let cur ← match ← readtoken with
    | .inl ty => do
      recordpos
      createtoken ty ty.enumValue
    | .inr t => pure t
  modify fun l => { l with currentToken := cur }
  -- `ps & EOFTOKEN and cur.ttype == self._shell_eof_token` compares a tokentype with a token
  -- (or None): always False, the EOF substitution is dead
  modify fun l => { l with ps := { l.ps with eoftoken := false } }
  return cur

end Bashlex
