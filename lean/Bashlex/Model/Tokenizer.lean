/-
  Line-by-line model of bashlex/tokenizer.py, bashlex/heredoc.py and shutils.removequotes.

  Faithful means: what the Python does, quirks included.  Python behaviour outside the contract
  (TypeError, IndexError, UnboundLocalError, AssertionError, ValueError) is `M.foreign ty fn`
  where `fn` is the name of the innermost bashlex function on the traceback.
  Unobservable attributes (`_line_number`, `_function_dstart`, `startlineno`, `_token_to_read`)
  are omitted.  `try: ... finally: self._pop_delimiter()` is modelled without the `finally`:
  an exception leaves `M` with no state, so the pop on the exceptional path is unobservable.
-/
import Bashlex.Model.Monad

namespace Bashlex

/-! ## small Python helpers -/

/-- fuel for one loop over the tape -/
def loopFuel : M Nat := do return 4 * (← tapeLine).length + 16
/-- fuel for the recursion depth of `_parse_matched_pair` / `_parse_comsub` -/
def depthFuel : M Nat := do return (← tapeLine).length + 8

/-- `s[i:]` for a Python int `i` (negative counts from the end) -/
def pySliceFromInt (s : Str) (i : Int) : Str :=
  if i ≥ 0 then s.drop i.toNat else s.drop (s.length - (-i).toNat)

/-- `s[i]` for a Python int `i`; `none` = IndexError -/
def pyAtInt? (s : Str) (i : Int) : Option Char :=
  if i ≥ 0 then s[i.toNat]? else
    if (-i).toNat ≤ s.length then s[s.length - (-i).toNat]? else none

/-- `s[-n:]` for `n > 0` -/
def pyLastN (s : Str) (n : Nat) : Str := s.drop (s.length - n)
/-- `s[:-n]` for `n > 0` -/
def pyDropLastN (s : Str) (n : Nat) : Str := s.take (s.length - n)

def hexDigit (n : Nat) : Char := if n < 10 then Char.ofNat (48 + n) else Char.ofNat (87 + n)

/-- Python `repr` of a `str` (ASCII input) -/
def pyReprStr (s : Str) : String :=
  let q : Char := if s.contains '\'' && !s.contains '"' then '"' else '\''
  let body : List Char := s.flatMap fun c =>
    if c == '\\' then ['\\', '\\']
    else if c == q then ['\\', c]
    else if c == '\n' then ['\\', 'n']
    else if c == '\t' then ['\\', 't']
    else if c == '\r' then ['\\', 'r']
    else if c.toNat < 32 || c.toNat == 127 then
      ['\\', 'x', hexDigit (c.toNat / 16), hexDigit (c.toNat % 16)]
    else [c]
  String.ofList ([q] ++ body ++ [q])

/-! ## shutils.removequotes (heredoc=False, doublequotes=False) -/

structure RQState where
  r : Str := []
  sindex : Nat := 0
  dquote : Bool := false

/-- one iteration of `while sindex < len(s)`; `.inr r` = `return r` -/
def removequotesStep (s : Str) (st : RQState) : RQState ⊕ Str :=
  if !(st.sindex < s.length) then .inr st.r else
  match s[st.sindex]? with
  | none => .inr st.r
  | some c =>
    if c == '\\' then
      let sindex := st.sindex + 1
      if sindex == s.length then .inr (st.r ++ ['\\'])
      else
        match s[sindex]? with
        | none => .inr st.r   -- unreachable: sindex < len(s)
        | some c2 =>
          -- `((heredoc and doublequotes) or dquote) and not _shellquote(c)`
          let r := if st.dquote && !(c2 == '"' || c2 == '`' || c2 == '\'') then st.r ++ ['\\'] else st.r
          -- NB: Python does not advance `sindex` past the escaped character here
          .inl { st with r := r ++ [c2], sindex := sindex }
    else if c == '\'' then
      if st.dquote then .inl { st with r := st.r ++ [c], sindex := st.sindex + 1 }
      else
        let t := match Str.findFrom s '\'' (st.sindex + 1) with
          | none => s.length
          | some t => t + 1
        .inl { st with r := st.r ++ Str.slice s (st.sindex + 1) (t - 1), sindex := t }
    else if c == '"' then .inl { st with dquote := !st.dquote, sindex := st.sindex + 1 }
    else .inl { st with r := st.r ++ [c], sindex := st.sindex + 1 }

def removequotesLoop (s : Str) : Nat → RQState → Str
  | 0, st => st.r
  | fuel + 1, st =>
    match removequotesStep s st with
    | .inl st' => removequotesLoop s fuel st'
    | .inr r => r

/-- `shutils.removequotes(s)`; every iteration advances `sindex`, so `2·len + 2` steps suffice -/
def removequotes (s : Str) : Str := removequotesLoop s (2 * s.length + 2) {}

/-! ## tokenizer.readline -/

structure RLState where
  linebuffer : Str := []
  passnext : Bool := false
  indx : Nat := 0

/-- `tokenizer.readline(removequotenewline)`; `none` = Python `None` -/
def readline (removequotenewline : Bool) : M (Option Str) := do
  let fuel ← loopFuel
  M.loop "readline" (fun (st : RLState) => do
    let c0 ← getc
    if c0.isNone && st.indx == 0 then return .inr none
    let c : Char := c0.getD '\n'
    let mut st := st
    if st.passnext then
      st := { st with linebuffer := st.linebuffer ++ [c], indx := st.indx + 1, passnext := false }
    else if c == '\\' && removequotenewline then
      let peek ← getc
      if peek == some '\n' then
        return .inl st            -- `continue`
      else
        ungetc peek
        st := { st with passnext := true, linebuffer := st.linebuffer ++ [c], indx := st.indx + 1 }
    else
      st := { st with linebuffer := st.linebuffer ++ [c], indx := st.indx + 1 }
    if c == '\n' then return .inr (some st.linebuffer)
    return .inl st) fuel {}

/-! ## heredoc.py -/

/-- `while fullline[0] == '\t': fullline = fullline[1:]`; `none` = IndexError on the empty string -/
def stripLeadingTabs : Str → Option Str
  | [] => none
  | c :: cs => if c == '\t' then stripLeadingTabs cs else some (c :: cs)

structure HDState where
  fullline : Option Str
  document : Str := []

/-- truthiness of `fullline` (None or '') -/
def strTruthy : Option Str → Bool
  | none => false
  | some [] => false
  | some _ => true

/-- `heredoc.makeheredoc(tokenizer, redirnode, 0, killleading)` for the store cell `id` -/
def makeheredoc (id : Nat) (killleading : Bool) : M Unit := do
  let l ← get
  let cell ← match l.store[id]? with
    | some c => pure c
    | none => M.foreign "IndexError" "makeheredoc"   -- not a Python path: ids come from the store
  let redirword := cell.delim
  let startpos ← curIdx
  let first ← readline false
  let fuel ← loopFuel
  -- `while fullline:` ... ; the loop result is the final (fullline, document)
  let fin ← M.loop "makeheredoc" (fun (st : HDState) => do
    if !strTruthy st.fullline then return .inr st
    let mut fullline : Str := st.fullline.getD []
    if killleading then
      match stripLeadingTabs fullline with
      | none => M.foreign "IndexError" "makeheredoc"
      | some f => fullline := f
    if fullline.isEmpty then return .inl { st with fullline := some fullline }   -- `continue`
    if pyDropLastN fullline 1 == redirword then
      match fullline[redirword.length]? with
      | none => M.foreign "IndexError" "makeheredoc"
      | some ch =>
        if ch == '\n' then
          -- `break` with a truthy `fullline`
          return .inr { fullline := some fullline, document := st.document ++ pyDropLastN fullline 1 }
    let document := st.document ++ fullline
    let next ← readline false
    return .inl { fullline := next, document := document }) fuel { fullline := first }
  if !strTruthy fin.fullline then
    let line ← tapeLine
    let i ← curIdx
    M.raise (mkParsingError
      ("here-document at line 0 delimited by end-of-file (wanted " ++ pyReprStr redirword ++ ")")
      line (i : Int))
  let document := fin.document
  let endpos := (← curIdx) - 1
  let l ← get
  let pos := if cell.pos.2 + 1 == startpos then (cell.pos.1, endpos) else cell.pos
  let cell' : RedirCell :=
    { cell with heredoc := some (Node.heredoc (startpos, endpos) document), pos := pos }
  set { l with store := l.store.set id cell' }

/-- `heredoc.gatherheredocuments(tokenizer)` -/
def gatherheredocuments : M Unit := do
  let fuel := (← get).redirstack.length + 1
  M.loop "gatherheredocuments" (fun (_ : Unit) => do
    let l ← get
    match l.redirstack with
    | [] => return .inr ()
    | (id, kill) :: rest =>
      let p ← peekc
      if p.isNone then
        if !(← optStrict) then
          bumpIdx
          return .inr ()
      modify fun l => { l with redirstack := rest }
      makeheredoc id kill
      return .inl ()) fuel ()

end Bashlex
