/-
  parser.py: the semantic actions (`p_*` functions), `_makeparts`, `handleNotImplemented`,
  `handleAssert`, `p_error`.  Dispatch is by the *name* of the action function and the length
  of the right-hand side (never by production number).
-/
import Bashlex.Model.Subst
import Bashlex.Model.Tokenizer

namespace Bashlex

/-- semantic values on the LR stack: `p.slice[i]` is the token for terminals;
    `p[i]` is `token.value` for terminals -/
inductive SVal where
  | none
  | tok (t : Token)
  | node (n : Node)
  | nodes (l : List Node)
  deriving Repr, Inhabited

namespace SVal
def lexspan : SVal → Span
  | .tok t => (t.lexpos, t.endlexpos)
  | _ => (0, 0)            -- `getattr(sym, 'lexpos', 0)` on a YaccSymbol (tracking is off)
def isNode : SVal → Bool | .node _ => true | _ => false
end SVal

/-- current `pos` of a node (pending here-document redirects live in the store) -/
def nodePos (n : Node) : M Span := do
  match n with
  | .redirect p _ _ _ _ _ (some id) =>
    match (← get).store[id]? with
    | some c => pure c.pos
    | none => pure p
  | _ => pure n.pos

/-- `_partsspan(parts)` -/
def partsspan (parts : List Node) : M Span := do
  match parts.head?, parts.getLast? with
  | some a, some b => pure ((← nodePos a).1, (← nodePos b).2)
  | _, _ => M.foreign "IndexError" "_partsspan"

def tvalStr (v : TVal) : Str :=
  match v with | .str s => s | .int n => (toString n).toList | .none => "None".toList

structure PCtx where
  np : NestedParse
  args : List SVal

namespace PCtx
def len (p : PCtx) : Nat := p.args.length + 1
def slice (p : PCtx) (i : Nat) : SVal := p.args.getD (i - 1) .none
/-- the token of a terminal position -/
def tokAt (p : PCtx) (i : Nat) : M Token :=
  match p.slice i with
  | .tok t => pure t
  | _ => M.foreign "AttributeError" "p.slice"
def strAt (p : PCtx) (i : Nat) : M Str := do return (← p.tokAt i).valueStr
def nodeAt (p : PCtx) (i : Nat) (site : String) : M Node :=
  match p.slice i with
  | .node n => pure n
  | _ => M.foreign "AttributeError" site
def nodesAt (p : PCtx) (i : Nat) (site : String) : M (List Node) :=
  match p.slice i with
  | .nodes l => pure l
  | _ => M.foreign "TypeError" site
def lexspan (p : PCtx) (i : Nat) : Span := (p.slice i).lexspan
def isTok (p : PCtx) (i : Nat) (ty : TokType) : Bool :=
  match p.slice i with | .tok t => t.is ty | _ => false
end PCtx

def reservedAt (p : PCtx) (i : Nat) : M Node := do
  return .reservedword (p.lexspan i) (← p.strAt i)
def operatorAt (p : PCtx) (i : Nat) : M Node := do
  return .operator (p.lexspan i) (← p.strAt i)

/-- `_makeparts(p)` -/
def makeparts (p : PCtx) : M (List Node) := do
  let mut parts : List Node := []
  for a in p.args do
    match a with
    | .node n => parts := parts ++ [n]
    | .nodes l => parts := parts ++ l
    | .tok t =>
      if t.is .WORD then parts := parts ++ [← expandword p.np t]
      else parts := parts ++ [.reservedword (t.lexpos, t.endlexpos) (tvalStr t.value)]
    | .none => pure ()
  return parts

def handleAssert (test : Bool) : M Unit :=
  if test then pure () else M.foreign "AssertionError" "handleAssert"

/-- `handleNotImplemented(p, type)` -/
def handleNotImplemented (p : PCtx) (type : String) : M SVal := do
  if ← optProceed then
    let parts ← makeparts p
    return .node (.unimplemented (← partsspan parts) parts)
  else M.raise (.notImplemented type)

def isCompound (n : Node) : Bool := match n with | .compound .. => true | _ => false

/-- `p[0].redirects.extend(p[2])` with the two asserts and the span update
    (p_command and p_function_body) -/
def addRedirects (n : Node) (reds : List Node) : M Node := do
  handleAssert (isCompound n)
  match n with
  | .compound pos l r =>
    let r' := r ++ reds
    match r'.getLast? with
    | none => M.foreign "IndexError" "p_command"
    | some last =>
      let e := (← nodePos last).2
      handleAssert (pos.1 < e)
      return .compound (pos.1, e) l r'
  | _ => M.foreign "AssertionError" "handleAssert"

def mkCompound1 (inner : Span → List Node → Node) (parts : List Node) : M SVal := do
  let sp ← partsspan parts
  return .node (.compound sp [inner sp parts] [])

/-- `x ++ [sep] ++ y` for list1 / simple_list1 / pipeline -/
def joinLists (p : PCtx) (mk : Span → Str → Node) (site : String) : M SVal := do
  if p.len == 2 then
    return .nodes [← p.nodeAt 1 site]
  else
    let l ← p.nodesAt 1 site
    let r ← p.nodesAt (p.len - 1) site
    return .nodes (l ++ [mk (p.lexspan 2) (← p.strAt 2)] ++ r)

/-- `p.callable(pslice)`: returns `p[0]` and whether YaccAccept was raised -/
def actionCore (np : NestedParse) (fname : String) (args : List SVal) : M (SVal × Bool) := do
  let p : PCtx := { np := np, args := args }
  let ret (v : SVal) : M (SVal × Bool) := pure (v, false)
  match fname with
  | "p_inputunit" =>
    if (← get).ps.cmdsubst then modify fun l => { l with ps := { l.ps with eoftoken := true } }
    match p.slice 1 with
    | .node n => pure (.node n, true)
    | _ => ret .none
  | "p_word_list" =>
    if p.len == 2 then ret (.nodes [← expandword np (← p.tokAt 1)])
    else ret (.nodes ((← p.nodesAt 1 "p_word_list") ++ [← expandword np (← p.tokAt 2)]))
  | "p_redirection_heredoc" =>
    let n := p.len
    let wtok ← p.tokAt (n - 1)
    let output := Node.word (wtok.lexpos, wtok.endlexpos) wtok.valueStr []
    let (input, type, pos) ←
      if n == 3 then pure (RedirIn.none, ← p.strAt 1, ((p.lexspan 1).1, (p.lexspan 2).2))
      else do
        let t1 ← p.tokAt 1
        let inp := match t1.value with | .int k => RedirIn.num k | .str s => .str s | .none => .none
        pure (inp, ← p.strAt 2, ((p.lexspan 1).1, (p.lexspan 3).2))
    let l ← get
    let id := l.store.length
    let kill := !(p.isTok (n - 2) .LESS_LESS)
    let cell : RedirCell := { pos := pos, delim := wtok.valueStr }
    set { l with store := l.store ++ [cell], redirstack := l.redirstack ++ [(id, kill)] }
    ret (.node (.redirect pos input type (some output) .none none (some id)))
  | "p_redirection" =>
    let n := p.len
    let oi := n - 1
    let otok ← p.tokAt oi
    let (outNode, outAlt) ←
      if otok.is .WORD then pure (some (← expandword np otok), RedirIn.none)
      else pure (none, match otok.value with | .int k => RedirIn.num k | .str s => .str s | .none => .none)
    if n == 3 then
      ret (.node (.redirect ((p.lexspan 1).1, (p.lexspan 2).2) .none (← p.strAt 1) outNode outAlt none none))
    else
      let t1 ← p.tokAt 1
      let inp := match t1.value with | .int k => RedirIn.num k | .str s => .str s | .none => .none
      ret (.node (.redirect ((p.lexspan 1).1, (p.lexspan 3).2) inp (← p.strAt 2) outNode outAlt none none))
  | "p_simple_command_element" =>
    match p.slice 1 with
    | .node n => ret (.nodes [n])
    | _ =>
      let t ← p.tokAt 1
      let w ← expandword np t
      if t.is .ASSIGNMENT_WORD then
        match w with
        | .word pos s parts => ret (.nodes [.assignment pos s parts])
        | _ => ret (.nodes [w])
      else ret (.nodes [w])
  | "p_redirection_list" =>
    if p.len == 2 then ret (.nodes [← p.nodeAt 1 "p_redirection_list"])
    else ret (.nodes ((← p.nodesAt 1 "p_redirection_list") ++ [← p.nodeAt 2 "p_redirection_list"]))
  | "p_simple_command" =>
    if p.len == 3 then
      ret (.nodes ((← p.nodesAt 1 "p_simple_command") ++ (← p.nodesAt 2 "p_simple_command")))
    else ret (p.slice 1)
  | "p_command" =>
    match p.slice 1 with
    | .node n =>
      if p.len == 3 then ret (.node (← addRedirects n (← p.nodesAt 2 "p_command")))
      else ret (.node n)
    | _ =>
      let parts ← p.nodesAt 1 "_partsspan"
      ret (.node (.command (← partsspan parts) parts))
  | "p_shell_command" =>
    if p.len == 2 then
      let n ← p.nodeAt 1 "p_shell_command"
      handleAssert (isCompound n)
      ret (.node n)
    else
      let parts ← makeparts p
      match parts.head? with
      | some (.reservedword _ w) =>
        let sp ← partsspan parts
        if w == "while".toList then ret (.node (.compound sp [.whileN sp parts] []))
        else if w == "until".toList then ret (.node (.compound sp [.untilN sp parts] []))
        else M.foreign "AssertionError" "p_shell_command"
      | _ => M.foreign "AttributeError" "p_shell_command"
  | "p_for_command" =>
    let parts ← makeparts p
    -- convert the first `;` operator node into a reserved word
    let rec fix : List Node → List Node
      | [] => []
      | (.operator pos op) :: rest =>
        if op == [';'] then .reservedword pos [';'] :: rest else .operator pos op :: fix rest
      | n :: rest => n :: fix rest
    ret (← mkCompound1 .forN (fix parts))
  | "p_arith_for_command" => ret (← handleNotImplemented p "arithmetic for")
  | "p_select_command" => ret (← handleNotImplemented p "select command")
  | "p_case_command" => do let parts ← makeparts p; ret (← mkCompound1 .caseN parts)
  | "p_function_def" =>
    let parts ← makeparts p
    if parts.isEmpty then M.foreign "IndexError" "p_function_def"
    let bodyIdx := parts.length - 1
    let nameIdx := match parts.findIdx? (fun n => match n with | .word .. => true | _ => false) with
      | some i => i
      | none => bodyIdx      -- parts[-1]
    ret (.node (.function (← partsspan parts) nameIdx bodyIdx parts))
  | "p_function_body" =>
    let n ← p.nodeAt 1 "p_function_body"
    handleAssert (isCompound n)
    if p.len == 3 then ret (.node (← addRedirects n (← p.nodesAt 2 "p_function_body")))
    else ret (.node n)
  | "p_subshell" | "p_group_command" =>
    let l ← reservedAt p 1
    let r ← reservedAt p 3
    let mid ← p.nodeAt 2 "_partsspan"
    let parts := [l, mid, r]
    ret (.node (.compound (← partsspan parts) parts []))
  | "p_coproc" => ret (← handleNotImplemented p "coproc")
  | "p_if_command" => do let parts ← makeparts p; ret (← mkCompound1 .ifN parts)
  | "p_arith_command" => ret (← handleNotImplemented p "arithmetic command")
  | "p_cond_command" => ret (← handleNotImplemented p "cond command")
  | "p_elif_clause" =>
    let mut parts : List Node := []
    for a in args do
      match a with
      | .node n => parts := parts ++ [n]
      | .nodes l => parts := parts ++ l
      | .tok t => parts := parts ++ [.reservedword (t.lexpos, t.endlexpos) (tvalStr t.value)]
      | .none => parts := parts ++ [.reservedword (0, 0) "None".toList]   -- unreachable shape
    ret (.nodes parts)
  | "p_case_clause" =>
    if p.len == 2 then ret (.nodes [← p.nodeAt 1 "p_case_clause"])
    else ret (.nodes ((← p.nodesAt 1 "p_case_clause") ++ [← p.nodeAt 2 "p_case_clause"]))
  | "p_pattern_list" =>
    let parts ←
      if p.len == 5 then do
        let pat ← p.nodesAt 2 "_partsspan"
        let base := [Node.pattern (← partsspan pat) pat, ← reservedAt p 3]
        pure (match p.slice 4 with | .node n => base ++ [n] | _ => base)
      else do
        let pat ← p.nodesAt 3 "_partsspan"
        let base := [← reservedAt p 2, Node.pattern (← partsspan pat) pat, ← reservedAt p 4]
        pure (match p.slice 5 with | .node n => base ++ [n] | _ => base)
    ret (.node (.compound (← partsspan parts) parts []))
  | "p_case_clause_sequence" =>
    if p.len == 3 then
      ret (.nodes [← p.nodeAt 1 "p_case_clause_sequence", ← reservedAt p 2])
    else
      ret (.nodes ((← p.nodesAt 1 "p_case_clause_sequence") ++
                   [← p.nodeAt 2 "p_case_clause_sequence", ← reservedAt p 3]))
  | "p_pattern" =>
    if p.len == 2 then ret (.nodes [← expandword np (← p.tokAt 1)])
    else
      let l ← p.nodesAt 1 "p_pattern"
      let r ← reservedAt p 2
      ret (.nodes (l ++ [r, ← expandword np (← p.tokAt 3)]))
  | "p_list" => ret (p.slice 2)
  | "p_compound_list" =>
    if p.len == 2 then ret (p.slice 1)
    else
      let parts ← p.nodesAt 2 "p_compound_list"
      if parts.length > 1 then ret (.node (.list (← partsspan parts) parts))
      else match parts.head? with
        | some n => ret (.node n)
        | none => M.foreign "IndexError" "p_compound_list"
  | "p_list0" =>
    let parts ← p.nodesAt 1 "p_list0"
    if parts.length > 1 || !(p.isTok 2 .NEWLINE) then
      let parts := parts ++ [← operatorAt p 2]
      ret (.node (.list (← partsspan parts) parts))
    else match parts.head? with
      | some n => ret (.node n)
      | none => M.foreign "IndexError" "p_list0"
  | "p_list1" => ret (← joinLists p .operator "p_list1")
  | "p_simple_list_terminator" => ret .none
  | "p_list_terminator" =>
    match p.slice 1 with
    | .tok t => if t.value == .str [';'] then ret (.node (.operator (p.lexspan 1) [';'])) else ret .none
    | _ => ret .none
  | "p_newline_list" => ret .none
  | "p_simple_list" =>
    gatherheredocuments
    let l1 ← p.nodesAt 1 "p_simple_list"
    let v ←
      if p.len == 3 || l1.length > 1 then do
        let parts ← if p.len == 3 then pure (l1 ++ [← operatorAt p 2]) else pure l1
        pure (SVal.node (.list (← partsspan parts) parts))
      else match l1 with
        | [n] => pure (SVal.node n)
        | _ => M.foreign "AssertionError" "p_simple_list"
    let l ← get
    let accept := p.len == 2 && l.ps.cmdsubst &&
      (match l.eofToken with
       | some e => decide ({ l.currentToken with pos := none } = e)
       | none => false)
    pure (v, accept)
  | "p_simple_list1" => ret (← joinLists p .operator "p_simple_list1")
  | "p_pipeline_command" =>
    if p.len == 2 then
      let l ← p.nodesAt 1 "p_pipeline_command"
      match l with
      | [n] => ret (.node n)
      | _ =>
        match l.head?, l.getLast? with
        | some a, some b => ret (.node (.pipeline ((← nodePos a).1, (← nodePos b).2) l))
        | _, _ => M.foreign "IndexError" "p_pipeline_command"
    else
      let bang := Node.reservedword (p.lexspan 1) ['!']
      match p.slice 2 with
      | .none => ret (.node (.pipeline bang.pos [bang]))
      | .node (.pipeline _ parts) =>
        let parts := bang :: parts
        match parts.getLast? with
        | some b => ret (.node (.pipeline (bang.pos.1, (← nodePos b).2) parts))
        | none => M.foreign "IndexError" "p_pipeline_command"
      | .node n => ret (.node (.pipeline (bang.pos.1, (← nodePos n).2) [bang, n]))
      | _ => M.foreign "AttributeError" "p_pipeline_command"
  | "p_pipeline" => ret (← joinLists p .pipe "p_pipeline")
  | "p_timespec" => ret (← handleNotImplemented p "time command")
  | "p_empty" => ret .none
  | _ => M.foreign "NotModelled" ("action " ++ fname)

/-- the actions that may raise YaccAccept (`p.accept()`) -/
def acceptingActions : List String := ["p_inputunit", "p_simple_list"]

/-- `p.callable(pslice)`.  Only `p_inputunit` and `p_simple_list` call `p.accept()`; the model
    asserts it (the branch is dead: `actionCore` sets the flag nowhere else), which makes
    "acceptance happens only at `inputunit` / `simple_list`" a fact visible to the LR theorems. -/
def action (np : NestedParse) (fname : String) (args : List SVal) : M (SVal × Bool) := do
  let r ← actionCore np fname args
  if r.2 && !acceptingActions.contains fname then M.foreign "NotModelled" "accept outside p_inputunit/p_simple_list"
  else pure r

/-- `p_error(p)` -/
def pError (t : Token) : M Unit := do
  let src ← tapeSource
  if t.is .EOF then M.raise (mkParsingError "unexpected EOF" src src.length)
  else
    let r := match t.value with
      | .str s => pyReprStr s
      | .int n => toString n
      | .none => "None"
    M.raise (mkParsingError ("unexpected token " ++ r) src (t.lexpos : Nat))

end Bashlex
