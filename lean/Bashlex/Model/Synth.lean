/-
  The LR engine + semantic actions driven by a *synthetic* token source (C08/C09 correspondence):
  the tape holds one character per token (code = 256 + terminal number), so the model's engine
  and bashlex's `LRParser.parse` can be compared on arbitrary token sequences, in top-level and
  in command-substitution mode.
-/
import Bashlex.Model.Parse

namespace Bashlex

def synthValue (ty : TokType) : TVal :=
  match ty.strValue with
  | some s => .str s.toList
  | none =>
    match ty with
    | .NUMBER => .int 1
    | .WORD => .str ['w']
    | .ASSIGNMENT_WORD => .str ['a', '=', 'b']
    | .LEFT_CURLY => .str ['{']
    | .RIGHT_CURLY => .str ['}']
    | t => .str (t.name.toList.map Char.toLower)

def synthNext : M (Nat × SVal) := do
  let i ← curIdx
  match ← getc false with
  | none =>
    let t : Token := { ttype := some .EOF, value := .none, pos := none }
    modify fun l => { l with currentToken := t }
    pure (0, .tok t)
  | some c =>
    match TokType.all[c.toNat - 258]? with
    | none => M.foreign "ValueError" "synthNext"
    | some ty =>
      let t : Token := { ttype := some ty, value := synthValue ty, pos := some (i, i + 1) }
      modify fun l => { l with currentToken := t }
      pure (ty.sym, .tok t)

def synthHooks : LR.Hooks SVal :=
  { (lrHooks (fun _ _ => M.foreign "NotModelled" "nested parse in synthetic mode")) with next := synthNext }

inductive SynthRes where
  | acc (consumed : Nat) (reductions : List Nat)
  | blank (consumed : Nat)
  | err (e : Exn)

/-- run the engine on the token numbers `ids`; `sub` = command-substitution mode -/
def runSynth (sub : Bool) (ids : List Nat) : SynthRes :=
  let tape : Tape := { line := ids.map (fun n => Char.ofNat (256 + n)), idx := 0, added := false }
  let env : Env := { tape := tape }
  let l : Local := if sub then
      { ps := { cmdsubst := true, eoftoken := true }, eofToken := some rparenEofToken, opts := some (true, false) }
    else { opts := some (true, false) }
  let (r, env') := (LR.run LR.realTables synthHooks 1073741824).run l env
  -- tokens fetched from the source = final head position (the EOF token does not move the head)
  match r with
  | .ok (.accepted _ tr _ _, _) => .acc env'.tape.idx tr.reductions
  | .ok (.blank _ _, _) => .blank env'.tape.idx
  | .error e => .err e

end Bashlex
