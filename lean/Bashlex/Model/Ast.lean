/-
  ast.py: the node visitor and the helpers built on it (posshifter, posconverter's traversal,
  _adjustpositions, _endfinder), over the typed `Node`.
-/
import Bashlex.Basic

namespace Bashlex

namespace Node

/-- the child nodes `nodevisitor.visit` descends into, in its order -/
def children : Node → List Node
  | operator .. | reservedword .. | pipe .. | parameter .. | tilde .. | heredoc .. => []
  | list _ ps | pipeline _ ps | ifN _ ps | forN _ ps | whileN _ ps | untilN _ ps | caseN _ ps
  | pattern _ ps | command _ ps | unimplemented _ ps => ps
  | compound _ l r => l ++ r
  | function _ _ _ ps => ps
  | redirect _ _ _ o _ h _ => o.toList ++ h.toList
  | word _ _ ps | assignment _ _ ps => ps
  | commandsubstitution _ c | processsubstitution _ c => [c]

mutual
/-- apply `f` to the span of every node the visitor reaches (posshifter / _adjustpositions) -/
def mapPos (f : Span → Span) : Node → Node
  | operator p a => operator (f p) a
  | reservedword p a => reservedword (f p) a
  | pipe p a => pipe (f p) a
  | list p ps => list (f p) (mapPosL f ps)
  | pipeline p ps => pipeline (f p) (mapPosL f ps)
  | compound p l r => compound (f p) (mapPosL f l) (mapPosL f r)
  | ifN p ps => ifN (f p) (mapPosL f ps)
  | forN p ps => forN (f p) (mapPosL f ps)
  | whileN p ps => whileN (f p) (mapPosL f ps)
  | untilN p ps => untilN (f p) (mapPosL f ps)
  | caseN p ps => caseN (f p) (mapPosL f ps)
  | pattern p ps => pattern (f p) (mapPosL f ps)
  | command p ps => command (f p) (mapPosL f ps)
  | function p a b ps => function (f p) a b (mapPosL f ps)
  | redirect p i t o oa h hid => redirect (f p) i t (mapPosO f o) oa (mapPosO f h) hid
  | word p w ps => word (f p) w (mapPosL f ps)
  | assignment p w ps => assignment (f p) w (mapPosL f ps)
  | parameter p v => parameter (f p) v
  | tilde p v => tilde (f p) v
  | heredoc p v => heredoc (f p) v
  | commandsubstitution p c => commandsubstitution (f p) (mapPos f c)
  | processsubstitution p c => processsubstitution (f p) (mapPos f c)
  | unimplemented p ps => unimplemented (f p) (mapPosL f ps)
def mapPosL (f : Span → Span) : List Node → List Node
  | [] => []
  | n :: ns => mapPos f n :: mapPosL f ns
def mapPosO (f : Span → Span) : Option Node → Option Node
  | none => none
  | some n => some (mapPos f n)
end

mutual
/-- all nodes in visitor pre-order (each node before its children, children in visiting order) -/
def preorder : Node → List Node
  | n@(operator ..) | n@(reservedword ..) | n@(pipe ..) | n@(parameter ..) | n@(tilde ..)
  | n@(heredoc ..) => [n]
  | n@(list _ ps) | n@(pipeline _ ps) | n@(ifN _ ps) | n@(forN _ ps) | n@(whileN _ ps)
  | n@(untilN _ ps) | n@(caseN _ ps) | n@(pattern _ ps) | n@(command _ ps)
  | n@(unimplemented _ ps) | n@(function _ _ _ ps) | n@(word _ _ ps) | n@(assignment _ _ ps) =>
    n :: preorderL ps
  | n@(compound _ l r) => n :: (preorderL l ++ preorderL r)
  | n@(redirect _ _ _ o _ h _) => n :: (preorderO o ++ preorderO h)
  | n@(commandsubstitution _ c) | n@(processsubstitution _ c) => n :: preorder c
def preorderL : List Node → List Node
  | [] => []
  | n :: ns => preorder n ++ preorderL ns
def preorderO : Option Node → List Node
  | none => []
  | some n => preorder n
end

def shift (k : Nat) (n : Node) : Node := mapPos (fun p => (p.1 + k, p.2 + k)) n

/-- `_endfinder`: the furthest end of a here-document body in the tree, -1 (none) if there is none
    (before fix D39 this was the end of the *last visited* body; the name is kept) -/
def lastHeredocEnd (n : Node) : Option Nat :=
  let ends := n.preorder.filterMap fun m => match m with | heredoc p _ => some p.2 | _ => none
  match ends with
  | [] => none
  | e :: es => some (es.foldl max e)

end Node

end Bashlex
