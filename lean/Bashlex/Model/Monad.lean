/-
  The model monad.

  `Q` is a free monad over the only ways one parser run interacts with anything outside its own
  parser object: the caller's input seen as a tape with one head, the two options that are read
  at their point of use, and the module-level `sh_syntaxtab` (a defaultdict that grows on
  lookup).  `M = StateT Local (ExceptT Exn Q)`.

  Generic facts about *every* program written in `Q` (`Bashlex/Proofs/QCongr.lean`) then give
  "the outcome depends only on the answers to the queries actually made" without a walk through
  the tokenizer's control flow.
-/
import Bashlex.Basic

namespace Bashlex

/-- the input of one tokenizer: `_shell_input_line`, `_shell_input_line_index`, `_added_newline` -/
structure Tape where
  line : Str
  idx : Nat := 0
  added : Bool := false
  deriving DecidableEq, Repr, Inhabited

namespace Tape

/-- `tokenizer.__init__`: append a newline unless the input is empty or ends in one -/
def ofInput (s : Str) : Tape :=
  match s.getLast? with
  | none => { line := s }
  | some c => if c == '\n' then { line := s } else { line := s ++ ['\n'], added := true }

/-- `tokenizer.source` -/
def source (t : Tape) : Str := if t.added then t.line.dropLast else t.line

/-- result of `_getc`'s table access: `none` inside = Python `None` (end of input);
    `Except` = IndexError of `line[idx]` in the look-ahead for backslash-newline -/
def getc (t : Tape) (rqn : Bool) : Nat → Except Unit (Option Char × Tape)
  | 0 => .ok (none, t)   -- unreachable: fuel = line.length + 1 suffices (idx strictly increases)
  | fuel + 1 =>
    if t.idx < t.line.length then
      match t.line[t.idx]? with
      | none => .ok (none, t)
      | some c =>
        let t1 := { t with idx := t.idx + 1 }
        if c == '\\' && rqn then
          match t1.line[t1.idx]? with
          | none => .error ()                      -- IndexError: string index out of range
          | some d =>
            if d == '\n' then getc { t1 with idx := t1.idx + 1 } rqn fuel
            else .ok (some c, t1)
        else .ok (some c, t1)
    else .ok (none, t)

/-- `_ungetc`: `true` if the cursor was decremented, `false` if the caller must store the
    character in `_eol_ungetc_lookahead` -/
def ungetc (t : Tape) : Bool × Tape :=
  if !t.line.isEmpty && t.idx != 0 && t.idx ≤ t.line.length then (true, { t with idx := t.idx - 1 })
  else (false, t)

end Tape

/-- queries of one parser run to its environment -/
inductive Query where
  | getc (rqn : Bool)      -- `_getc` on the caller's tape
  | ungetc                 -- `_ungetc`
  | idx                    -- read `_shell_input_line_index`
  | bump                   -- `_shell_input_line_index += 1` (non-strict here-document skip)
  | source                 -- `tokenizer.source` (for error objects, `split`)
  | line                   -- `_shell_input_line` (here-document error object, `__iter__`)
  | added                  -- `_added_newline`
  | optStrict              -- `tokenizer._strictmode`
  | optProceed             -- `_parser._proceedonerror`
  | syntab (c : Char)      -- `sh_syntaxtab[c]` (module-level defaultdict, grows on lookup)
  deriving DecidableEq, Repr

abbrev Answer : Query → Type
  | .getc _ => Except Unit (Option Char)
  | .ungetc => Bool
  | .idx => Nat
  | .bump => Unit
  | .source => Str
  | .line => Str
  | .added => Bool
  | .optStrict => Bool
  | .optProceed => Bool
  | .syntab _ => SynClass

inductive Q (α : Type) where
  | pure : α → Q α
  | ask : (q : Query) → (Answer q → Q α) → Q α

namespace Q
def bind {α β : Type} : Q α → (α → Q β) → Q β
  | .pure a, f => f a
  | .ask q k, f => .ask q (fun a => bind (k a) f)

instance : Monad Q where
  pure := Q.pure
  bind := Q.bind

def query (q : Query) : Q (Answer q) := .ask q .pure
end Q

/-- the environment of a top-level parser run -/
structure Env where
  tape : Tape
  strict : Bool := true
  proceed : Bool := false
  /-- keys of `sh_syntaxtab` looked up so far (the defaultdict's growth) -/
  touched : List Char := []
  deriving Repr, Inhabited

namespace Env
def answer (e : Env) : (q : Query) → Answer q × Env
  | .getc rqn =>
    match e.tape.getc rqn (e.tape.line.length + 1) with
    | .ok (c, t) => (.ok c, { e with tape := t })
    | .error () => (.error (), e)
  | .ungetc => let (b, t) := e.tape.ungetc; (b, { e with tape := t })
  | .idx => (e.tape.idx, e)
  | .bump => ((), { e with tape := { e.tape with idx := e.tape.idx + 1 } })
  | .source => (e.tape.source, e)
  | .line => (e.tape.line, e)
  | .added => (e.tape.added, e)
  | .optStrict => (e.strict, e)
  | .optProceed => (e.proceed, e)
  | .syntab c => (synClass c, if e.touched.contains c then e else { e with touched := e.touched ++ [c] })
end Env

namespace Q
/-- run a program against an environment -/
def run {α : Type} : Q α → Env → α × Env
  | .pure a, e => (a, e)
  | .ask q k, e => let (a, e') := e.answer q; run (k a) e'
end Q

/-- mutable fields of a pending here-document redirect node -/
structure RedirCell where
  pos : Span
  /-- the body `makeheredoc` attached: span and value of the `heredoc` node -/
  heredoc : Option (Span × Str) := none
  /-- `redirnode.output.word`: the raw delimiter token value -/
  delim : Str
  deriving Repr, Inhabited

/-- the state of one `_parser` object with its tokenizer -/
structure Local where
  /-- `none`: the tape is the caller's input in the environment (top-level parser);
      `some t`: the parser runs over a string computed by the program (nested parser) -/
  tape : Option Tape := none
  /-- `none`: options are read from the environment; `some (strict, proceed)`: fixed -/
  opts : Option (Bool × Bool) := none
  eolLookahead : Option Char := none
  twoTokensAgo : Token := .null
  tokenBeforeThat : Token := .null
  lastReadToken : Token := .null
  currentToken : Token := .null
  ps : PState := {}
  openBraceCount : Nat := 0
  esacsNeeded : Nat := 0
  dstack : List Char := []
  positions : List Nat := []
  /-- `_shell_eof_token` -/
  eofToken : Option Token := none
  /-- `redirstack`: (redirect id, killleading), oldest first -/
  redirstack : List (Nat × Bool) := []
  /-- redirect store: cell `i` belongs to the redirect node with `hid = some i` -/
  store : List RedirCell := []
  /-- `_parser._expansionlimit` -/
  limit : Option Int := none
  deriving Repr, Inhabited

abbrev M := StateT Local (ExceptT Exn Q)

namespace M

def liftQ {α : Type} (q : Q α) : M α := fun s => (do let a ← q; pure (.ok (a, s)) : Q _)
def ask (q : Query) : M (Answer q) := liftQ (Q.query q)
def raise {α : Type} (e : Exn) : M α := fun _ => (pure (.error e) : Q _)
def foreign {α : Type} (ty site : String) : M α := raise (.foreign ty site)

/-- generic fuel loop: `body` returns `.inl s'` to iterate, `.inr a` to leave -/
def loop {σ α : Type} (site : String) (body : σ → M (σ ⊕ α)) : Nat → σ → M α
  | 0, _ => raise (.outOfFuel site)
  | fuel + 1, s => do
    match ← body s with
    | .inl s' => loop site body fuel s'
    | .inr a => pure a

def run {α : Type} (m : M α) (l : Local) (e : Env) : Except Exn (α × Local) × Env :=
  Q.run (m l) e

end M

/-! ### tape access, uniform for top-level and nested parsers -/

def getc (rqn : Bool := true) : M (Option Char) := do
  let l ← get
  match l.eolLookahead with
  | some c => set { l with eolLookahead := none }; pure (some c)
  | none =>
    match l.tape with
    | none =>
      match ← M.ask (.getc rqn) with
      | .ok c => pure c
      | .error () => M.foreign "IndexError" "_getc"
    | some t =>
      match t.getc rqn (t.line.length + 1) with
      | .ok (c, t') => set { l with tape := some t' }; pure c
      | .error () => M.foreign "IndexError" "_getc"

def ungetc (c : Option Char) : M Unit := do
  let l ← get
  match l.tape with
  | none =>
    let moved ← M.ask .ungetc
    if !moved then set { l with eolLookahead := c }
  | some t =>
    let (moved, t') := t.ungetc
    if moved then set { l with tape := some t' } else set { l with eolLookahead := c }

def curIdx : M Nat := do
  match (← get).tape with
  | none => M.ask .idx
  | some t => pure t.idx

def bumpIdx : M Unit := do
  let l ← get
  match l.tape with
  | none => M.ask .bump
  | some t => set { l with tape := some { t with idx := t.idx + 1 } }

def tapeSource : M Str := do
  match (← get).tape with
  | none => M.ask .source
  | some t => pure t.source

def tapeLine : M Str := do
  match (← get).tape with
  | none => M.ask .line
  | some t => pure t.line

def tapeAdded : M Bool := do
  match (← get).tape with
  | none => M.ask .added
  | some t => pure t.added

def optStrict : M Bool := do
  match (← get).opts with
  | none => M.ask .optStrict
  | some (s, _) => pure s

def optProceed : M Bool := do
  match (← get).opts with
  | none => M.ask .optProceed
  | some (_, p) => pure p

def syn (c : Char) : M SynClass := M.ask (.syntab c)
def shellmeta (c : Char) : M Bool := do return (← syn c).metac
def shellquote (c : Char) : M Bool := do return (← syn c).quote
def shellexp (c : Char) : M Bool := do return (← syn c).exp
def shellbreak (c : Char) : M Bool := do return (← syn c).brk

/-- `_peekc`: only unget if something was read -/
def peekc (rqn : Bool := true) : M (Option Char) := do
  let c ← getc rqn
  if c.isSome then ungetc c
  pure c

def recordpos (rel : Nat := 0) : M Unit := do
  let i ← curIdx
  modify fun l => { l with positions := l.positions ++ [i - rel] }

/-- `MatchedPairError(startline, message, tokenizer)` -/
def matchedPairError {α : Type} (close : Char) : M α := do
  let src ← tapeSource
  let i ← curIdx
  M.raise (mkParsingError
    s!"unexpected EOF while looking for matching {if close == '\'' then "\"'\"" else "'" ++ String.singleton close ++ "'"}"
    src ((i : Int) - 1))

end Bashlex
