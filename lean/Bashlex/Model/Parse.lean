/-
  parser.py: `_parser.parse`, nested parsers, and the entry points `parse`, `parsesingle`, `split`.
-/
import Bashlex.Model.Actions
import Bashlex.LR.RealTables

namespace Bashlex

/-- terminal number of a token as the LR engine sees it (`token.type`): `$end` for EOF, otherwise
    the member name; numbering as in `Gen.termNames` (checked by `termNames_agree`) -/
def TokType.sym (t : TokType) : Nat :=
  if t = .EOF then 0 else 2 + (TokType.all.idxOf t)

def symOfTok (t : Token) : Nat :=
  match t.ttype with
  | some ty => ty.sym
  | none => 1   -- `token.type` is None: no action entry matches; ("error" has none either)

def lrHooks (np : NestedParse) : LR.Hooks SVal :=
  { next := do let t ← nextToken; pure (symOfTok t, .tok t)
    act := fun p args => action np (Gen.prodFuncs.getD p "") args
    onError := fun la =>
      match la.2 with
      | .tok t => pError t
      | _ => M.foreign "AssertionError" "p_error"
    isNl := fun v => match v with | .tok t => t.is .NEWLINE | _ => false }

mutual
/-- substitute the final `pos` / `heredoc` of pending here-document redirects -/
def resolve (store : List RedirCell) : Node → Node
  | .list p ps => .list p (resolveL store ps)
  | .pipeline p ps => .pipeline p (resolveL store ps)
  | .compound p l r => .compound p (resolveL store l) (resolveL store r)
  | .ifN p ps => .ifN p (resolveL store ps)
  | .forN p ps => .forN p (resolveL store ps)
  | .whileN p ps => .whileN p (resolveL store ps)
  | .untilN p ps => .untilN p (resolveL store ps)
  | .caseN p ps => .caseN p (resolveL store ps)
  | .pattern p ps => .pattern p (resolveL store ps)
  | .command p ps => .command p (resolveL store ps)
  | .function p a b ps => .function p a b (resolveL store ps)
  | .redirect p i t o oa h hid =>
    match hid with
    | none => .redirect p i t o oa h none
    | some id =>
      match store[id]? with
      | some c => .redirect c.pos i t o oa (c.heredoc.map fun (p, v) => Node.heredoc p v) none
      | none => .redirect p i t o oa h none
  | .unimplemented p ps => .unimplemented p (resolveL store ps)
  | n => n   -- words hold only nodes of finished nested parsers; leaves
def resolveL (store : List RedirCell) : List Node → List Node
  | [] => []
  | n :: ns => resolve store n :: resolveL store ns
end

def rparenEofToken : Token := { ttype := some .RIGHT_PAREN, value := .str [')'] }

/-- `_parser.parse()` on the current parser object: what `LRParser.parse` returned, `none` when
    it is not a node (None, or the string of a NEWLINE token) -/
def parserRun : Nat → M (Option Node)
  | 0 => M.raise (.outOfFuel "nesting")
  | depth + 1 => do
    let np : NestedParse := fun string dolparen => do
      let outer ← get
      let ps := if dolparen then { outer.ps with cmdsubst := true, eoftoken := true } else outer.ps
      set ({ tape := some (Tape.ofInput string), opts := some (true, false)
             lastReadToken := outer.lastReadToken, tokenBeforeThat := outer.tokenBeforeThat
             twoTokensAgo := outer.twoTokensAgo, ps := ps
             eofToken := if dolparen then some rparenEofToken else none
             limit := outer.limit.map (· - 1) } : Local)
      let r ← parserRun depth
      let inner ← get
      -- copy.copy(parserstate) is shallow: the flag set is *shared* with the nested parser
      set { outer with ps := inner.ps }
      pure r
    let res ← LR.run LR.realTables (lrHooks np) 1073741824
    let store := (← get).store
    match res with
    | .accepted (.node n) _ _ _ => pure (some (resolve store n))
    | _ => pure none
end Bashlex

namespace Bashlex

structure Opts where
  strict : Bool := true
  limit : Option Int := none
  convertpos : Bool := false
  proceed : Bool := false
  deriving Repr, DecidableEq

/-- nesting fuel: substitutions deeper than this are outside the modelled domain
    (property C01 excludes nesting deeper than 50) -/
def maxDepth : Nat := 64

/-- one top-level `_parser(s, ...).parse()`; the environment's `touched` set is threaded -/
def runParser (s : Str) (o : Opts) (touched : List Char) : Except Exn (Option Node) × List Char :=
  let env : Env := { tape := Tape.ofInput s, strict := o.strict, proceed := o.proceed, touched := touched }
  let (r, env') := (parserRun maxDepth).run { limit := o.limit } env
  (r.map (·.1), env'.touched)

/-- `max(part.pos[1], ef.end)` -/
def nextIndex (part : Node) : Nat :=
  match part.lastHeredocEnd with
  | some e => max part.pos.2 e
  | none => part.pos.2

/-- the `while index < len(s)` loop of `parse` -/
def parseLoop (s : Str) (o : Opts) : Nat → Nat → List Node → List Char → Except Exn (List Node) × List Char
  | 0, _, _, touched => (.error (.outOfFuel "parse"), touched)
  | fuel + 1, index, parts, touched =>
    if index < s.length then
      match runParser (s.drop index) o touched with
      | (.error e, t) => (.error e, t)
      | (.ok none, t) => (.ok parts, t)
      | (.ok (some part), t) =>
        let part := part.shift index
        -- `max(part.pos[1], ef.end, index + 1)`: always advance
        parseLoop s o fuel (max (nextIndex part) (index + 1)) (parts ++ [part]) t
    else (.ok parts, touched)

inductive Outcome where
  | parts (l : List Node)
  | single (n : Option Node)
  | strs (l : List Str)
  | exn (e : Exn)
  deriving Repr

/-- `bashlex.parse(s, strictmode, expansionlimit, convertpos, proceedonerror)`
    (convertpos only changes how spans are presented; see `Driver`) -/
def parse (s : Str) (o : Opts := {}) : Outcome × List Char :=
  match runParser s o [] with
  | (.error e, t) => (.exn e, t)
  | (.ok none, t) => (.parts [], t)
  | (.ok (some first), t) =>
    match parseLoop s o (s.length + 1) (max (nextIndex first) 1) [first] t with
    | (.error e, t) => (.exn e, t)
    | (.ok parts, t) => (.parts parts, t)

/-- `bashlex.parsesingle` -/
def parsesingle (s : Str) (o : Opts := {}) : Outcome × List Char :=
  match runParser s o [] with
  | (.error e, t) => (.exn e, t)
  | (.ok n, t) => (.single n, t)

/-- `list(bashlex.split(s))` -/
def splitM (s : Str) : M (List Str) := do
  let line ← tapeLine
  let added ← tapeAdded
  let np : NestedParse := fun string dolparen => do
    -- same as in `parserRun` (a `_parser` object without a running LR engine)
    let outer ← get
    let ps := if dolparen then { outer.ps with cmdsubst := true, eoftoken := true } else outer.ps
    set ({ tape := some (Tape.ofInput string), opts := some (true, false)
           lastReadToken := outer.lastReadToken, tokenBeforeThat := outer.tokenBeforeThat
           twoTokensAgo := outer.twoTokensAgo, ps := ps
           eofToken := if dolparen then some rparenEofToken else none
           limit := outer.limit.map (· - 1) } : Local)
    let r ← parserRun maxDepth
    let inner ← get
    set { outer with ps := inner.ps }
    pure r
  M.loop "split" (fun (acc : List Str) => do
      let t ← nextToken
      if t.is .EOF || (added && t.lexpos + 1 == line.length) then return .inr acc
      if t.is .WORD || t.is .ASSIGNMENT_WORD then
        let quoted := t.flags.contains .QUOTED
        let doublequoted ←
          if quoted then
            match t.valueStr.head? with
            | none => M.foreign "IndexError" "split"
            | some c => pure (c == '"')
          else pure false
        let (_, w) ← expandwordinternal np t doublequoted
        return .inl (acc ++ [w])
      else
        return .inl (acc ++ [Str.slice s t.lexpos t.endlexpos]))
    (line.length + 4) []

def split (s : Str) : Outcome × List Char :=
  let env : Env := { tape := Tape.ofInput s }
  let (r, env') := (splitM s).run {} env
  match r with
  | .ok (l, _) => (.strs l, env'.touched)
  | .error e => (.exn e, env'.touched)

end Bashlex
