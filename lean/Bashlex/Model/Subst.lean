/-
  subst.py: word expansion (`_expandwordinternal`, `_paramexpand`, `_stringextract`,
  `_parsedolparen`, `_recursiveparse`, `_adjustpositions`) and `parser._expandword`.
  The nested parser is a parameter (open recursion; tied in `Model/Parse.lean`).
-/
import Bashlex.Model.Monad
import Bashlex.Model.Ast

namespace Bashlex

/-- run a fresh `_parser` over `string`; `dolparen` = called from `_parsedolparen` (CMDSUBST and
    EOFTOKEN set, `eoftoken` = `)`).  Returns what `p.parse()` returned (`none`: not a node). -/
abbrev NestedParse := (string : Str) → (dolparen : Bool) → M (Option Node)

/-- `_adjustpositions(node, base, endlimit)` -/
def adjustpositions (n : Node) (base endlimit : Nat) : M Node :=
  if n.preorder.all (fun m => m.pos.2 + base ≤ endlimit) then pure (n.shift base)
  else M.foreign "AssertionError" "visitnode"

/-- `_recursiveparse(parserobj, base, sindex, tokenizerargs)` -/
def recursiveparse (np : NestedParse) (base : Str) (sindex : Nat) (dolparen : Bool) :
    M (Node × Nat) := do
  match ← np (base.drop sindex) dolparen with
  | none => M.foreign "AttributeError" "_recursiveparse"
  | some node =>
    let endp := node.pos.2
    let node' ← adjustpositions node sindex base.length
    pure (node', endp)

/-- the `while endp > 0 and string[endp-1] == '\n'` loop of `_parsedolparen` -/
def backOverNewlines (string : Str) : Nat → Nat
  | 0 => 0
  | endp + 1 => if string[endp]? == some '\n' then backOverNewlines string endp else endp + 1

/-- `_parsedolparen(parserobj, base, sindex)` -/
def parsedolparen (np : NestedParse) (base : Str) (sindex : Nat) : M (Node × Nat) := do
  let string := base.drop sindex
  let (node, endp) ← recursiveparse np base sindex true
  match string[endp]? with
  | none => M.foreign "IndexError" "_parsedolparen"
  | some c =>
    let endp := if c != ')' then backOverNewlines string endp else endp
    pure (node, sindex + endp)

/-- `_stringextract(string, sindex, "`")`: index of the closing character or `none` (-1) -/
def stringextract (string : Str) (sindex : Nat) (ch : Char) : Option Nat :=
  go (string.length + 1) sindex
where
  go : Nat → Nat → Option Nat
    | 0, _ => none
    | fuel + 1, i =>
      match string[i]? with
      | none => none
      | some c =>
        if c == '\\' then
          if i + 1 < string.length then go fuel (i + 1) else none
        else if c == ch then some i
        else go fuel (i + 1)

/-- the `for zindex in range(tindex, len(string)+1)` scan of `_paramexpand` -/
def scanName (string : Str) : Nat → Nat → Nat
  | 0, z => z
  | fuel + 1, z =>
    match string[z]? with
    | none => z
    | some c => if !isAlnum c && c != '_' then z else scanName string fuel (z + 1)

/-- `_paramexpand(parserobj, string, sindex)` -/
def paramexpand (np : NestedParse) (string : Str) (sindex : Nat) : M (Option Node × Nat) := do
  let zindex := sindex + 1
  let c := string[zindex]?
  let finish (node : Option Node) (zindex : Nat) : M (Option Node × Nat) :=
    pure (node, if zindex < string.length then zindex + 1 else zindex)
  match c with
  | none =>
    -- `else` branch with the scan starting at the end of the string
    let z := scanName string (string.length + 1) zindex
    pure (some (.parameter (sindex, z) ((string.take z).drop (sindex + 1))), z)
  | some c =>
    if "0123456789$#?-!*@".toList.contains c then
      finish (some (.parameter (sindex, zindex + 1) [c])) zindex
    else if c == '{' then
      match Str.findFrom string '}' (zindex + 1) with
      | none => pure (none, sindex + 1)
      | some z => finish (some (.parameter (sindex, z + 1) (Str.slice string (sindex + 2) z))) z
    else if c == '(' then
      -- `_extractcommandsubst(parserobj, string, zindex + 1)`
      let si := zindex + 1
      match string[si]? with
      | none => M.foreign "IndexError" "_extractcommandsubst"
      | some d =>
        if d == '(' then M.raise (.notImplemented "arithmetic expansion")
        else do
          let (node, si') ← parsedolparen np string si
          let si' := si' + 1
          pure (some (.commandsubstitution (si - 2, si') node), si')
    else if c == '[' then M.raise (.notImplemented "arithmetic substitution")
    else
      let z := scanName string (string.length + 1) zindex
      pure (some (.parameter (sindex, z) ((string.take z).drop (sindex + 1))), z)

/-- loop state of `_expandwordinternal` -/
structure ExpSt where
  istring : Str := []
  parts : List Node := []
  sindex : Nat := 0
  flags : WordFlags := []

/-- the tilde prefix scan: returns (i, expand) -/
def tildeScan (string : Str) (stopatcolon : Bool) : Nat → Nat → Nat × Bool
  | 0, i => (i, true)
  | fuel + 1, i =>
    match string[i]? with
    | none => (i, true)
    | some r =>
      if r == '/' then (i, true)
      else if r == '\\' || r == '\'' || r == '"' then (i, false)
      else if stopatcolon && r == ':' then (i, true)
      else tildeScan string stopatcolon fuel (i + 1)

/-- one iteration of the `while True` loop of `_expandwordinternal`;
    `.inr (parts, istring)` = the loop is left -/
def expandStep (np : NestedParse) (tok : Token) (string : Str) (qdoublequotes : Bool)
    (st : ExpSt) : M (ExpSt ⊕ (List Node × Str × Bool)) := do
  if st.sindex == string.length then return .inr (st.parts, st.istring, false)
  match string[st.sindex]? with
  | none => M.foreign "IndexError" "_expandwordinternal"
  | some c =>
    let sindex := st.sindex
    if c == '<' || c == '>' then
      if string[sindex + 1]? != some '(' || qdoublequotes ||
          st.flags.contains .DQUOTE || st.flags.contains .NOPROCSUB then
        return .inl { st with sindex := sindex + 1, istring := st.istring ++ [c] }
      else
        let tindex := sindex + 2
        let (node, si) ← parsedolparen np string tindex
        let si := si + 1
        return .inl { st with
          parts := st.parts ++ [.processsubstitution (tindex - 2, si) node]
          istring := st.istring ++ Str.slice string (tindex - 2) si
          sindex := si }
    else if c == '~' then
      if st.flags.contains .NOTILDE || st.flags.contains .DQUOTE ||
          (sindex > 0 && !st.flags.contains .NOTILDE) || qdoublequotes then
        return .inl { st with flags := [.ITILDE], sindex := sindex + 1, istring := st.istring ++ [c] }
      else
        let stopatcolon := st.flags.contains .ASSIGNRHS || st.flags.contains .ASSIGNMENT ||
          st.flags.contains .TILDEEXP
        let (i, expand) := tildeScan string stopatcolon (string.length + 1) sindex
        let parts := if i > sindex && expand then
            st.parts ++ [.tilde (sindex, i) (Str.slice string sindex i)] else st.parts
        return .inl { st with parts := parts, istring := st.istring ++ Str.slice string sindex i,
                              sindex := i }
    else if c == '$' && string.length > 1 then
      let (node, si) ← paramexpand np string sindex
      let parts := match node with | some n => st.parts ++ [n] | none => st.parts
      return .inl { st with parts := parts, istring := st.istring ++ Str.slice string sindex si,
                            sindex := si }
    else if c == '`' then
      let tindex := sindex
      let sindex := sindex + 1          -- nextchar()
      if string[sindex]? == some '`' then
        return .inl { st with sindex := sindex + 1, istring := st.istring ++ ['`', '`'] }
      else
        match stringextract string sindex '`' with
        | none =>
          let src ← tapeSource
          M.raise (mkParsingError
            ("bad substitution: no closing \"`\" in " ++ String.ofList string) src
            ((tok.lexpos + tindex : Nat) : Int))
        | some x =>
          let word := Str.slice string (tindex + 1) x
          let (command, _) ← recursiveparse np word 0 false
          let command ← adjustpositions command (tindex + 1) string.length
          let sindex := x + 1
          return .inl { st with
            parts := st.parts ++ [.commandsubstitution (tindex, sindex) command]
            istring := st.istring ++ Str.slice string tindex sindex
            sindex := sindex }
    else if c == '\\' then
      return .inl { st with istring := st.istring ++ Str.slice string (sindex + 1) (sindex + 2),
                            sindex := sindex + 2 }
    else if c == '"' then
      return .inl { st with sindex := sindex + 1 }
    else if c == '\'' then
      if sindex == 0 && string.getLast? == some '\'' then
        return .inr ([], (string.drop 1).dropLast, true)
      else if !qdoublequotes then
        -- `string.find("'", sindex)` finds the quote the cursor is standing on
        return .inl { st with sindex := sindex + 1 }
      else
        return .inl { st with istring := st.istring ++ [c], sindex := sindex + 1 }
    else
      return .inl { st with istring := st.istring ++ [c], sindex := sindex + 1 }

/-- `_expandwordinternal(parserobj, wordtoken, 0, qdoublequotes, 0, 0)`: (parts, expanded word) -/
def expandwordinternal (np : NestedParse) (tok : Token) (qdoublequotes : Bool) :
    M (List Node × Str) := do
  let string := tok.valueStr
  let (parts, istring, early) ← M.loop "_expandwordinternal"
      (expandStep np tok string qdoublequotes) (2 * string.length + 4) { flags := tok.flags }
  if early || parts.isEmpty then return (parts, istring)
  -- the visitor `v` shifting every node of every part by the word's start
  let ok := parts.all fun p => p.preorder.all fun m => m.pos.2 + tok.lexpos ≤ tok.endlexpos
  if !ok then M.foreign "AssertionError" "visitnode"
  return (parts.map (·.shift tok.lexpos), istring)

def isSubstitution (n : Node) : Bool :=
  match n with
  | .commandsubstitution .. | .processsubstitution .. => true
  | _ => false

/-- `parser._expandword(parser, tokenword)` -/
def expandword (np : NestedParse) (tok : Token) : M Node := do
  let limit := (← get).limit
  if limit == some (-1) then
    -- word=tokenword (the token object itself); such nodes never leave a filtered substitution
    return .word (tok.lexpos, tok.endlexpos) tok.valueStr []
  let quoted := tok.flags.contains .QUOTED
  let doublequoted ←
    if quoted then
      match tok.valueStr.head? with
      | none => M.foreign "IndexError" "_expandword"
      | some c => pure (c == '"')
    else pure false
  let (parts, expanded) ← expandwordinternal np tok doublequoted
  let parts := if limit == some 0 then parts.filter (fun n => !isSubstitution n) else parts
  return .word (tok.lexpos, tok.endlexpos) expanded parts

end Bashlex
