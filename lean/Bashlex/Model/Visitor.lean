/-
  ast.py: `nodevisitor.visit` with a recording visitor.  The dispatch is transliterated branch by
  branch (one `match` arm per `if/elif` arm of the Python), not derived from `Node.children`.
-/
import Bashlex.Model.Ast

namespace Bashlex

/-- callback events of a visitor: `visitnode(n)`, `visit<kind>(n, fields…)`, `visitnodeend(n)` -/
inductive Ev where
  | enter (n : Node)
  | call (n : Node) (fields : List String)
  | leave (n : Node)
  deriving Repr, Inhabited

/-- short descriptor of an argument handed to a kind-specific callback -/
def descNode (n : Node) : String := s!"<{n.kind}@{n.pos.1}-{n.pos.2}>"
def descNodes (l : List Node) : String := "[" ++ ",".intercalate (l.map descNode) ++ "]"
def descStr (s : Str) : String := "'" ++ String.ofList s ++ "'"
def descOpt (o : Option Node) : String := match o with | some n => descNode n | none => "None"
def descRedirIn : RedirIn → String
  | .none => "None" | .num n => toString n | .str s => descStr s

mutual
/-- `nodevisitor.visit(n)`; `prune n` = the kind-specific callback returns False for `n` -/
def visit (prune : Node → Bool) : Node → List Ev
  | n@(.operator _ op) => [.enter n, .call n [descStr op], .leave n]
  | n@(.list _ parts) =>
    [.enter n, .call n [descNodes parts]] ++ (if prune n then [] else visitL prune parts) ++ [.leave n]
  | n@(.reservedword _ w) => [.enter n, .call n [descStr w], .leave n]
  | n@(.pipe _ p) => [.enter n, .call n [descStr p], .leave n]
  | n@(.pipeline _ parts) =>
    [.enter n, .call n [descNodes parts]] ++ (if prune n then [] else visitL prune parts) ++ [.leave n]
  | n@(.compound _ l r) =>
    [.enter n, .call n [descNodes l, descNodes r]] ++
      (if prune n then [] else visitL prune l ++ visitL prune r) ++ [.leave n]
  | n@(.ifN _ parts) | n@(.forN _ parts) | n@(.whileN _ parts) | n@(.untilN _ parts)
  | n@(.caseN _ parts) | n@(.pattern _ parts) =>
    [.enter n, .call n [descNodes parts]] ++ (if prune n then [] else visitL prune parts) ++ [.leave n]
  | n@(.command _ parts) =>
    [.enter n, .call n [descNodes parts]] ++ (if prune n then [] else visitL prune parts) ++ [.leave n]
  | n@(.function _ ni bi parts) =>
    [.enter n, .call n [descOpt parts[ni]?, descOpt parts[bi]?, descNodes parts]] ++
      (if prune n then [] else visitL prune parts) ++ [.leave n]
  | n@(.redirect _ i t o oa h _) =>
    [.enter n, .call n [descRedirIn i, descStr t,
        (match o with | some w => descNode w | none => descRedirIn oa), descOpt h]] ++
      (if prune n then [] else visitO prune o ++ visitO prune h) ++ [.leave n]
  | n@(.word _ w parts) | n@(.assignment _ w parts) =>
    [.enter n, .call n [descStr w]] ++ (if prune n then [] else visitL prune parts) ++ [.leave n]
  | n@(.parameter _ v) | n@(.tilde _ v) | n@(.heredoc _ v) => [.enter n, .call n [descStr v], .leave n]
  | n@(.commandsubstitution _ c) | n@(.processsubstitution _ c) =>
    [.enter n, .call n [descNode c]] ++ (if prune n then [] else visit prune c) ++ [.leave n]
  | n@(.unimplemented _ parts) =>
    [.enter n, .call n [descNodes parts]] ++ (if prune n then [] else visitL prune parts) ++ [.leave n]
def visitL (prune : Node → Bool) : List Node → List Ev
  | [] => []
  | n :: ns => visit prune n ++ visitL prune ns
def visitO (prune : Node → Bool) : Option Node → List Ev
  | none => []
  | some n => visit prune n
end

def showEv : Ev → String
  | .enter n => "E" ++ descNode n
  | .call n fs => "C" ++ descNode n ++ "(" ++ ";".intercalate fs ++ ")"
  | .leave n => "L" ++ descNode n

end Bashlex
