/-
  C07 — "substitutions are parsed compositionally and only where the shell expands", model level.

  The statements are about ONE WORD TOKEN `tok` (value `v = tok.valueStr`, position
  `k = tok.lexpos`) and an ARBITRARY nested parser `np` (the parameter of `expandword`), of which
  only `NPSpec R np` is assumed: every node `np body dolparen` returns is an `R`-answer for
  `(body, dolparen)`.  That makes them compositional by construction; `R := RNested d` is the
  instance for the real parser (`parserRun (d+1)` runs with `np = nestedOf d`).

  ## Results (all for every token, every state of the parser object, every environment)

  * `sat_expandwordinternal` (`C07/Word.lean`): the parts `_expandwordinternal` returns are those
    of a scan trace `Reach` over `v` — heads, and what was emitted at each head — shifted by `k`.
    At an *opener* head (`opener v q i fl`: `$(`, `<(`/`>(` when the word does not start with a
    double quote, a backquote not followed by a backquote) a substitution node is emitted whose
    command is an `R`-answer; every other head is the pure function `plainStep`.
  * **`C07_word`** (compositional core + spans + order): `expandword np tok` returns
    `word (k, kend) _ parts` with `PartsOK`:
      - every substitution part is a `SubstNode`:
        `$(`/`<(`/`>(` at offset `i`: `np` was called on `v.drop (i+2)` with `dolparen = true`,
        returned `n`; the part is `commandsubstitution|processsubstitution
        (k+i, k+i+2+dolEnd(…)+1) (n.shift (k+i+2))`;
        backquote at `i`, closing at `x` = first backquote after `i`: `np` was called on
        `v[i+1:x]` with `dolparen = false`, returned `n`; the part is
        `commandsubstitution (k+i, k+x+1) (n.shift (k+i+1))`;
        i.e. "the command subtree equals the nested parser's answer on the enclosed text,
        shifted to its offset";
      - every other part is a parameter or tilde node;
      - the parts are ordered and disjoint, non-empty, inside the word's span.
  * **`C07_exact`**: in a trace, a substitution node is emitted at a head **iff** the head is an
    opener (flags: the token's, or `[ITILDE]` after a `~`); `Reach.sorted`: heads increase, a part
    emitted at a head spans from the head to the next head.
  * **`Reach.opener_accounted`** (completeness, `C07/Cover.lean`): after a full scan every opener
    occurrence `j` of the word either carries a substitution node starting at `j`, or was skipped
    by an earlier head for one of four reasons (`Skipped`): it follows a scanned backslash; it lies
    inside the span of an earlier part (a substitution body — the nested parser's business — or
    `${…}`); it is the second of a bare pair of backquotes; it was swallowed by a tilde-prefix
    scan.  `Reach.cover`: every position is a head or skipped so.  `opener_dollar_iff`,
    `opener_backquote_iff`, `opener_proc_iff`: `opener` spelled out textually.
  * **`C07_protected`** (`protected_no_parts`): a wholly single-quoted word, and a word in which
    every `$`, backquote, `<`, `>`, `~` follows a backslash the scan stands on (`escOK`), has
    `parts = []` — for EVERY `np` (it is not consulted).  Local form:
    `Reach.escaped_not_head` — the character after a scanned backslash is never a head.
  * spans: `dollar_span_tight` (the nested node ends at the `)`: the span runs from the opener
    through that `)`), `dollar_span_loose` (D27/D9: otherwise the end is the nested node's end
    moved back over newlines, plus one — the `)` is NOT covered), `stringextract_first`
    (backquotes: the span ends after the first backquote, even an escaped one).
  * **`C07_nested`**: the instance `R = RNested d` for the real nested parser `nestedOf d`
    (`parserRun_succ`: that is the parser `parserRun (d+1)` hands to its actions);
    `RNested d body dolparen n` := `n` is what `parserRun d` returned on `Tape.ofInput body` from
    the state `nestedStart outer body dolparen` of a fresh parser object (`npspec_nested`).
    NOT proved: that such a nested run equals the stand-alone `parse body` (different tape
    location, inherited last tokens and parser-state flags, `)` as end-of-input token for
    `$(`/`<(`/`>(`, where moreover the nested parser is handed the whole rest of the word).
  * **`C07_partial`** / `C07_partial_single` / `C07_partial_subst` (trees, all inputs, all
    options, UNCONDITIONAL): in every tree `parse` / `parsesingle` returns, every word or
    assignment node — at top level and inside substitution commands at any depth — has parts
    `PartsOK (RNested d) tok.valueStr (qOf tok) …` for some nesting level `d < 64` and some token
    `tok` that the tokenizer delivered (`Delivered tok`: every `P` with `Sat nextToken P` holds
    of it — `Delivered.sat`), the node sitting at `tok`'s span moved by some `j`; so every
    substitution node of the tree is a `SubstNode`: its command is the result of a nested parser
    run on the enclosed text of `tok.valueStr`, shifted to its offset.  Proof: `C07/Prov*.lean` — every
    semantic action preserves "all word-like nodes are good" (one lemma per action function,
    found by a small walker tactic; word nodes are created only by `_expandword`, except the
    part-less delimiter word of a here-document redirect and the assignment node copied from a
    word), `LR.run_sound` for the engine, `G_resolve`, induction on the nesting budget
    (`parserRun_G`), the loop of `parse` (`parse_G`).  The token is existentially quantified:
    tying its value to the source text (`tok.valueStr` = the word's text with line continuations
    removed, D10) is a statement about the tokenizer (C04/C11) that can be transported through
    `Delivered.sat`; it is not proved here.
  * `C07/Witness.lean`: kernel-evaluated witnesses of every exclusion below.

  ## What is NOT claimed, with witnesses (all checked with `#eval` on the model, in the scratch
     file reproduced at the end of this comment, and on the Python implementation)

  * D6 — single quotes protect only a wholly quoted word: `x'$(a)'` → word parts
    `[commandsubstitution (2,6)]`.  The rule `opener` has no quote state at all; its double-quote
    twin: `a"<(b)"` → `[processsubstitution (2,6)]` (bash: no process substitution inside double
    quotes) while `"a"<(b)` → `[]` (recorded as D6-leading-dquote); only the FIRST character of
    the word (`q`) switches process substitution off.
  * D27 — `$(a )` → span `(0,4)` of 5 characters; D9 — `$(a\nb)` → span `(0,4)`, command `a`
    only: `dolEnd` (`dollar_span_loose`).  "Every command of the enclosed text present" holds
    exactly when the nested node's end is the offset of the `)` (`dollar_span_tight`).
  * D8 (`$(a && b)` → ParsingError "unexpected token ')'"), D24, D34/D35: these are facts about
    the nested parser's ANSWERS (`R`), resp. about the tokenizer; the word-level theorem holds
    regardless.  D10: offsets are offsets into the token value `v` (continuations removed).
  * a tilde prefix swallows what follows: `~$(a)"x"` → parts `[]` (`plainStep`, tilde branch:
    the cursor jumps to the end of the tilde scan; recorded under D6-unrec);
    `${x:-$(a)}` → `[parameter (0,10)]`: nothing inside `${…}` is expanded (`paramPlain`).
  * backquotes: `` `a\`b` `` → the body is `a\` (first backquote closes: `stringextract_first`),
    ParsingError "unexpected EOF".

  Scratch (`lake env lean`): `show1 s` = for every word node of `(parse s {}).1`, its `word` and
  the (kind, pos, command kind/pos) of its parts:
    x'$(a)'      [("x$(a)", [("commandsubstitution", (2, 6), some ("command", 4, 5))]), ("a", [])]
    a"<(b)"      [("a<(b)", [("processsubstitution", (2, 6), some ("command", 4, 5))]), ("b", [])]
    "a"<(b)      [("a<(b)", [])]
    $(a )        [("$(a )", [("commandsubstitution", (0, 4), some ("command", 2, 3))]), ("a", [])]
    $(a\nb)      [("$(a\nb)", [("commandsubstitution", (0, 4), some ("command", 2, 3))]), ("a", [])]
    ~$(a)"x"     [("~$(a)x", [])]
    ${x:-$(a)}   [("${x:-$(a)}", [("parameter", (0, 10), none)])]
    `a\`b`       Exn.parsing "unexpected EOF" ['a', '\\'] 2
    a\$(b)       Exn.parsing "unexpected token 'b'" … 4      (tokenizer: `(` is a metacharacter)
    '$(a)'       [("$(a)", [])]
    a\`b\`       [("a`b`", [])]
    $(a && b)    Exn.parsing "unexpected token ')'" ['a',' ','&','&',' ','b',')'] 6
    x$(a)y`b`<(c)  [("x$(a)y`b`<(c)", [("commandsubstitution", (1, 5), …), ("commandsubstitution",
                   (6, 9), …), ("processsubstitution", (9, 13), …)]), …]
-/
import Bashlex.Props.C07.Tree
import Bashlex.Props.C07.Witness

namespace Bashlex.C07
open Bashlex Bashlex.M

/-- **C07 (model level), `parse`** — all inputs, all options: every word or assignment node of
    every returned tree, at any depth, was built from a token `tok` the tokenizer delivered, sits
    at that token's span moved by some `j`, and has parts `PartsOK` with respect to the token's
    value and the real nested parser of some level: substitution parts are `SubstNode`s
    (command = nested parser's result on the enclosed text of `tok.valueStr`, shifted to its
    offset; span from the opener to `dolEnd` / the first closing backquote), the other parts are
    parameter / tilde nodes, the parts are ordered, disjoint and inside the node's span -/
theorem C07_partial (s : Str) (o : Opts) (parts : List Node) (h : (parse s o).1 = .parts parts) :
    ∀ n ∈ parts, ∀ w ∈ n.preorder, ∀ k kend expanded ps,
      (w = .word (k, kend) expanded ps ∨ w = .assignment (k, kend) expanded ps) →
      ∃ d tok j, d < maxDepth ∧ Delivered tok ∧ k = tok.lexpos + j ∧ kend = tok.endlexpos + j ∧
        PartsOK (RNested d) tok.valueStr (qOf tok) k kend ps := by
  intro n hn w hw k kend expanded ps hshape
  have hwl : isWordLike w = true := by rcases hshape with rfl | rfl <;> rfl
  obtain ⟨d, tok, j, e', ps', hd, ht, hw', hp⟩ := parse_G s o parts h n hn w hw hwl
  refine ⟨d, tok, j, hd, ht, ?_⟩
  rcases hshape with rfl | rfl <;> rcases hw' with h' | h' <;> cases h' <;> exact ⟨rfl, rfl, hp⟩

/-- the same for `parsesingle` -/
theorem C07_partial_single (s : Str) (o : Opts) (n : Node)
    (h : (parsesingle s o).1 = .single (some n)) :
    ∀ w ∈ n.preorder, ∀ k kend expanded ps,
      (w = .word (k, kend) expanded ps ∨ w = .assignment (k, kend) expanded ps) →
      ∃ d tok j, d < maxDepth ∧ Delivered tok ∧ k = tok.lexpos + j ∧ kend = tok.endlexpos + j ∧
        PartsOK (RNested d) tok.valueStr (qOf tok) k kend ps := by
  intro w hw k kend expanded ps hshape
  have hwl : isWordLike w = true := by rcases hshape with rfl | rfl <;> rfl
  obtain ⟨d, tok, j, e', ps', hd, ht, hw', hp⟩ := parsesingle_G s o n h w hw hwl
  refine ⟨d, tok, j, hd, ht, ?_⟩
  rcases hshape with rfl | rfl <;> rcases hw' with h' | h' <;> cases h' <;> exact ⟨rfl, rfl, hp⟩

/-- **every substitution node of every returned tree** that sits in a word or assignment is the
    shifted result of a nested parser run on the enclosed text of a delivered token's value -/
theorem C07_partial_subst (s : Str) (o : Opts) (parts : List Node)
    (h : (parse s o).1 = .parts parts) :
    ∀ n ∈ parts, ∀ w ∈ n.preorder, ∀ k kend expanded ps,
      (w = .word (k, kend) expanded ps ∨ w = .assignment (k, kend) expanded ps) →
      ∀ p ∈ ps, isSubstitution p = true →
        ∃ d tok, d < maxDepth ∧ Delivered tok ∧ SubstNode (RNested d) tok.valueStr (qOf tok) k p := by
  intro n hn w hw k kend expanded ps hshape p hp hs
  obtain ⟨d, tok, j, hd, ht, _, _, hok⟩ := C07_partial s o parts h n hn w hw k kend expanded ps hshape
  exact ⟨d, tok, hd, ht, hok.subst p hp hs⟩

end Bashlex.C07

#print axioms Bashlex.C07.sat_expandwordinternal
#print axioms Bashlex.C07.C07_word
#print axioms Bashlex.C07.C07_exact
#print axioms Bashlex.C07.C07_exact'
#print axioms Bashlex.C07.Reach.sorted
#print axioms Bashlex.C07.Reach.opener_accounted
#print axioms Bashlex.C07.Reach.escaped_not_head
#print axioms Bashlex.C07.C07_protected
#print axioms Bashlex.C07.C07_protected_internal
#print axioms Bashlex.C07.dollar_span_tight
#print axioms Bashlex.C07.dollar_span_loose
#print axioms Bashlex.C07.stringextract_first
#print axioms Bashlex.C07.C07_nested
#print axioms Bashlex.C07.parserRun_G
#print axioms Bashlex.C07.C07_partial
#print axioms Bashlex.C07.C07_partial_single
#print axioms Bashlex.C07.C07_partial_subst
#print axioms Bashlex.C07.witness_D6
#print axioms Bashlex.C07.witness_D27
