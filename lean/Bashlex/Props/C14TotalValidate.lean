/-
  C14Total: cross-check by evaluation of the model.

  * `NoD19` (the hypothesis of `Props/C14Total.lean`): on every input of C04's corpus and grids, and
    on every suffix of it, a parser run with `proceedonerror` off (strict and non-strict) returns
    an untainted tree.  With `proceedonerror` ON the same check fails (`time a`): the hypothesis
    is not vacuous.
  * `hrest` is not a theorem: `B = "a⏎#c"`.
-/
import Bashlex.Props.C14Total
import Bashlex.Props.C04.Validate

namespace Bashlex.C14
open Bashlex Bashlex.C13 Bashlex.C04

def untaintedRun (s : Str) (o : Opts) : Bool :=
  match (runParser s o []).1 with
  | .ok (some n) => !C03.tainted n
  | _ => true

def noD19Input (s : String) : Bool :=
  let l := s.toList
  (suffixStarts l).all fun i =>
    untaintedRun (l.drop i) {} && untaintedRun (l.drop i) { strict := false }

def noD19Report (l : List String) : Nat × Nat := (l.length, (l.filter (fun s => !noD19Input s)).length)

#eval noD19Report corpus
#eval noD19Report gridInputs
#eval noD19Report gridInputs2
#eval noD19Report ["time a", "time -p a | b", "! time a", "$(time a)", "a $(time b) c", "time\n", "`time a`"]
-- with `proceedonerror` the check fails: [false, false, true]
#eval ["time a", "a; time b", "a"].map fun s => untaintedRun s.toList { proceed := true }

-- `hrest` is false for `B = "a⏎#c"`: (2, false, true, true)
#eval (parseStop "a\n#c".toList {}, layoutB false ("a\n#c".toList.drop 2),
  parseLocal "a\n#c".toList {},
  C13.partsB (parse ("a\n#c".toList ++ ['\n']) {}).1 (C13.partsOf (parse "a\n#c".toList {}).1))

end Bashlex.C14
