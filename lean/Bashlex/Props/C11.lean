/-
  Property C11 ("errors point into the caller's input") at model level.

  Property text: a ParsingError raised for input `s` carries `s` itself as its source and a
  position `p` with `0 ≤ p ≤ len(s)` located at the offending token: for an unexpected-token error
  the text of `s` at `p` is that token, for an unexpected end of input `p = len(s)`; also inside a
  substitution, in a later line of a multi-line input, or in a here-document.

  The implementation violates parts of this and the model reproduces it (findings, with
  kernel-checked witnesses below).  What is proved, for all inputs and options:

  * **(1) `assert position <= len(s)` in `ParsingError.__init__`.**
    Unconditional, the tokenizer (`nextToken_good`, `gather_good`, `tok_no_init_assert`): from
    every `Good` state `token()` and `gatherheredocuments` preserve `Good`, every delivered token
    starts inside the line (`TF`), and they raise only `C01.TokExn` minus
    `AssertionError|ParsingError.__init__` — that entry can be removed from `C01.tokForeign`.
    Unconditional, `p_error` (`pError_ht`): both messages pass a position inside the source.
    Conditional on `TokLen` (see below), everything above the tokenizer
    (`C11_parserRun_conditional`, `no_init_assert_conditional`, `C11_parse_conditional`,
    `C01_partial'_conditional`): at every nesting depth, from every start state, every exception
    of a parser run is different from `AssertionError|ParsingError.__init__`, and every
    `ParsingError` satisfies `0 ≤ p ≤ len(src)` (`ErrShape`).
    The state-free formulation (`Sat`, all local states) is false: `stateless_formulation_false`.
  * **(2) the source**, site by site (`TopParsing`): a `ParsingError` raised by a parser itself
    (not by one of its nested parsers) carries `tokenizer.source` of that parser — for the
    top-level parser of `parsesingle s` / the first part of `parse s` this is `s` itself
    (`topGhost_source`, `topParsing_source`) — except the here-document error, which carries
    `_shell_input_line` (`s` plus the appended newline).  `C11_toplevel_conditional`: over ANY
    nested-parse function that raises no `ParsingError`, every `ParsingError` of a run is
    `TopParsing`.  `C11_first_conditional`: an error of `parsesingle s` is
    `TopParsing (topGhost s o)` or comes from a nested parser (finding: it then carries the
    nested parser's input; witness `a $(b;;)`).
  * **(3) the position** (`C11_position_conditional`, `topParsing_eof`, `topParsing_token`):
    "unexpected EOF" is at `len(src)`; "unexpected token R" is at the `lexpos` of a delivered
    token `t` with `repr(t.value) = R`, which starts inside the line.  That the text of the source
    at `lexpos` is the token is NOT proved here (it needs the token-text relation modulo line
    continuations).
  * **(4) later parts of `parse`** (`C11_later`, unconditional): an error of the loop of `parse`
    is the error of a parser run over the suffix `s[i:]`, `0 < i < len s`, unchanged: its source
    is the suffix (finding D15; witness `a⏎)`).

  One fact about tokens is a HYPOTHESIS (`TokLen`; it concerns `nextToken` only and is used only
  for the "bad substitution" error of `_expandwordinternal`, whose position is
  `wordtoken.lexpos + index of the backquote in the token's value`): a backquote at index `k` of
  the value of a delivered token satisfies `lexpos + k ≤ len(line) - 1` (`TL`; implied by "the
  value is not longer than the text the token spans").  Not proved: the walk would have to count
  consumed characters against `_ungetc(None)` moving the cursor back at end of input inside
  `_parse_comsub` (the value can transiently be one longer than the consumed text; such runs end
  in `MatchedPairError`).  2.3 million fuzzed tokens (Python), no counterexample.

  Files:
    C11/Hoare.lean      state-aware Hoare logic `HT` / `SatI` / `HTAt` / `HTQAt`
    C11/Tactic.lean     `split_head`
    C11/Inv.lean        ghost constants, `Live`, `Good`, `TopParsing`, `TopE`, `Tape.getc` facts
    C11/Prims.lean      `_getc`, `_ungetc`, accessors, the two raise sites of the tokenizer
    C11/Walk.lean       the automatic walks `live_walk`, `pre_walk`
    C11/Tokenizer.lean  every tokenizer function below `_readtoken` preserves `Live`
    C11/Tokens.lean     position stack, `_createtoken`, `finishWord`
    C11/NextToken.lean  `gatherheredocuments`, `_readtoken`, `token()` from `Good` states
    C11/Expand.lean     word expansion over a nested parser
    C11/Actions.lean    all semantic actions, `p_error`
    C11/Engine.lean     the LR engine carries a state invariant and a value invariant
    C11/Parse.lean      `parserRunWith`, `nestedOf`, all depths, `runParser`, `parse`
-/
import Bashlex.Props.C11.Parse
import Bashlex.Props.C01

namespace Bashlex.C11
open Bashlex Bashlex.M Bashlex.C10

/-! ## the shape of an escaping exception -/

/-- **ErrShape**: a `ParsingError` carries a position inside its source; the `AssertionError` of
    `ParsingError.__init__` does not occur -/
def ErrShape (x : Exn) : Prop :=
  x ≠ initAssert ∧ ∀ m src p, x = .parsing m src p → 0 ≤ p ∧ p ≤ (src.length : Int)

/-- the states a parser starts in: `Good` for a well-formed ghost, with an empty position stack -/
def Start (l : Local) (e : Env) : Prop := ∃ g, WFG g ∧ Good g [] l e

/-- **(1)** every exception of a parser run, at every nesting depth, from every start state -/
theorem C11_parserRun_conditional (hTL : TokLen) (d : Nat) :
    HT Start (parserRun d) (fun _ _ _ => True) ErrShape := by
  intro l e ⟨g, hg, hgood⟩
  have h := parserRun_good hTL d g hg l e hgood
  rcases hr : (parserRun d).run l e with ⟨r, e'⟩
  rw [hr] at h
  cases r with
  | ok v => exact True.intro
  | error x => exact exnAt_shape d g x h

/-- **(1)**, as asked: `AssertionError|ParsingError.__init__` never escapes a parser run -/
theorem no_init_assert_conditional (hTL : TokLen) (d : Nat) :
    HT Start (parserRun d) (fun _ _ _ => True)
      (fun x => x ≠ .foreign "AssertionError" "ParsingError.__init__") :=
  (C11_parserRun_conditional hTL d).exn (fun _ h => h.1)

theorem runParser_shape_conditional (hTL : TokLen) {s : Str} {o : Opts} {t : List Char} {x : Exn}
    (h : (runParser s o t).1 = .error x) : ErrShape x :=
  exnAt_shape _ _ _ (runParser_exn hTL h)

/-- **C11 (model level), `parse`**: every escaping exception has the shape -/
theorem C11_parse_conditional (hTL : TokLen) (s : Str) (o : Opts) {x : Exn}
    (h : (parse s o).1 = .exn x) : ErrShape x := by
  rcases parse_exn s o h with h | rfl | ⟨i, t, _, _, h⟩
  · exact runParser_shape_conditional hTL h
  · exact ⟨(fun h => by cases h), fun m src p h => by cases h⟩
  · exact runParser_shape_conditional hTL h

theorem C11_parsesingle_conditional (hTL : TokLen) (s : Str) (o : Opts) {x : Exn}
    (h : (parsesingle s o).1 = .exn x) : ErrShape x :=
  runParser_shape_conditional hTL (parsesingle_exn s o h)

/-- **C01 strengthened**: the exception discipline of C01 without the entry
    `AssertionError|ParsingError.__init__` in `knownForeign` / `tokForeign` -/
theorem C01_partial'_conditional (hTL : TokLen) (s : Str) (o : Opts) :
    match (parse s o).1 with
    | .parts _ => True
    | .exn x => C01.Disciplined x ∧ x ≠ .foreign "AssertionError" "ParsingError.__init__"
    | _ => False := by
  have h1 := C01.C01_partial s o
  have h2 := fun x => C11_parse_conditional hTL s o (x := x)
  revert h1 h2
  cases (parse s o).1 with
  | exn x => exact fun h1 h2 => ⟨h1, (h2 x rfl).1⟩
  | parts _ => exact fun h1 _ => h1
  | single _ => exact fun h1 _ => h1
  | strs _ => exact fun h1 _ => h1

/-! ## (2) the source -/

theorem ofInput_source (s : Str) : (Tape.ofInput s).source = s := by
  unfold Tape.ofInput Tape.source
  cases hs : s.getLast? with
  | none => simp only []; rfl
  | some c =>
    simp only []
    split
    · rfl
    · simp

/-- the source of the top-level parser over `s` is `s` -/
theorem topGhost_source (s : Str) (o : Opts) : (topGhost s o).source = s := ofInput_source s

/-- … and its line is `s`, or `s` plus the appended newline -/
theorem topGhost_line (s : Str) (o : Opts) :
    (topGhost s o).line = s ∨ (topGhost s o).line = s ++ ['\n'] := by
  show (Tape.ofInput s).line = s ∨ (Tape.ofInput s).line = s ++ ['\n']
  unfold Tape.ofInput
  cases hs : s.getLast? with
  | none => exact Or.inl rfl
  | some c =>
    simp only []
    split
    · exact Or.inl rfl
    · exact Or.inr rfl

/-- **(2) C11_toplevel**: over any nested-parse function `np` that preserves `Good` and raises no
    `ParsingError`, every `ParsingError` of a parser run is one of the run's own: classified
    (`TopParsing`), with the run's own source (`g.source`; `g.line` for the here-document error)
    and a position inside it -/
theorem C11_toplevel_conditional (hTL : TokLen) {g : Ghost} (hg : WFG g) {np : NestedParse}
    (hnp : NPOK g (fun x => ∀ m src p, x ≠ .parsing m src p) np) :
    SatI (Good g []) (parserRunWith np) (fun _ => True)
      (fun x => ∀ m src p, x = .parsing m src p → TopParsing g m src p) := by
  refine SatI.weaken (parserRunWith_good hTL hg hnp) (fun _ h => h) ?_
  rintro x (h | h) m src p rfl
  · exact h
  · exact absurd rfl (h m src p)

/-- **(2) C11_first**: a `ParsingError` of `parsesingle s` (= of the first part of `parse s`) was
    raised by the top-level parser — then it is classified, its source is `s` (`s` plus the
    appended newline for the here-document error) — or it passed through from a nested parser
    (finding: then it carries the nested parser's input) -/
theorem C11_first_conditional (hTL : TokLen) (s : Str) (o : Opts) {m : String} {src : Str} {p : Int}
    (h : (runParser s o []).1 = .error (.parsing m src p)) :
    TopParsing (topGhost s o) m src p ∨
    ∃ g', WFG g' ∧ ExnAt (maxDepth - 1) g' (.parsing m src p) := by
  have := runParser_exn hTL h
  exact this

/-- what `TopParsing` says about the source and the position, spelled out for `s` -/
theorem topParsing_source {s : Str} {o : Opts} {m : String} {src : Str} {p : Int}
    (h : TopParsing (topGhost s o) m src p) :
    0 ≤ p ∧ p ≤ (src.length : Int) ∧
    (src = s ∨ (src = s ++ ['\n'] ∧ ∃ d, m = heredocMsg d)) := by
  refine ⟨h.le.1, h.le.2, ?_⟩
  cases h with
  | matchedPair c p h0 h1 => exact Or.inl (topGhost_source s o)
  | heredoc d p hp =>
    rcases topGhost_line s o with hl | hl
    · exact Or.inl hl
    · exact Or.inr ⟨hl, d, rfl⟩
  | eof => exact Or.inl (topGhost_source s o)
  | token t _ _ => exact Or.inl (topGhost_source s o)
  | badSubst t k _ => exact Or.inl (topGhost_source s o)

/-! ## (3) the position -/

theorem len14 : "unexpected EOF".length = 14 := by decide

theorem topParsing_eof {g : Ghost} {m : String} {src : Str} {p : Int} (h : TopParsing g m src p)
    (hm : m = "unexpected EOF") : p = src.length ∧ src = g.source := by
  cases h with
  | matchedPair c p h0 h1 =>
    exfalso
    have := congrArg String.length hm
    unfold matchedPairMsg at this
    simp only [String.length_append, toString] at this
    have h1 : "unexpected EOF while looking for matching ".length = 42 := by decide
    rw [h1, len14] at this
    omega
  | heredoc d p hp =>
    exfalso
    have := congrArg String.length hm
    unfold heredocMsg at this
    simp only [String.length_append] at this
    have h1 : "here-document at line 0 delimited by end-of-file (wanted ".length = 57 := by decide
    rw [h1, len14] at this
    omega
  | eof => exact ⟨rfl, rfl⟩
  | token t _ _ =>
    exfalso
    have := congrArg String.length hm
    simp only [String.length_append] at this
    have h1 : "unexpected token ".length = 17 := by decide
    rw [h1, len14] at this
    omega
  | badSubst t k _ =>
    exfalso
    have := congrArg String.length hm
    simp only [String.length_append] at this
    have h1 : "bad substitution: no closing \"`\" in ".length = 36 := by decide
    rw [h1, len14] at this
    omega


theorem l_tok : "unexpected token ".toList = ['u','n','e','x','p','e','c','t','e','d',' ','t','o','k','e','n',' '] := by decide
theorem l_mp : "unexpected EOF while looking for matching ".toList = ['u','n','e','x','p','e','c','t','e','d',' ','E','O','F',' ','w','h','i','l','e',' ','l','o','o','k','i','n','g',' ','f','o','r',' ','m','a','t','c','h','i','n','g',' '] := by decide
theorem l_hd : "here-document at line 0 delimited by end-of-file (wanted ".toList = ['h','e','r','e','-','d','o','c','u','m','e','n','t',' ','a','t',' ','l','i','n','e',' ','0',' ','d','e','l','i','m','i','t','e','d',' ','b','y',' ','e','n','d','-','o','f','-','f','i','l','e',' ','(','w','a','n','t','e','d',' '] := by decide
theorem l_eof : "unexpected EOF".toList = ['u','n','e','x','p','e','c','t','e','d',' ','E','O','F'] := by decide
theorem l_bad : "bad substitution: no closing \"`\" in ".toList = ['b','a','d',' ','s','u','b','s','t','i','t','u','t','i','o','n',':',' ','n','o',' ','c','l','o','s','i','n','g',' ','"','`','"',' ','i','n',' '] := by decide

theorem topParsing_token {g : Ghost} {m r : String} {src : Str} {p : Int} (h : TopParsing g m src p)
    (hm : m = "unexpected token " ++ r) :
    ∃ t, TF g t ∧ r = tokRepr t ∧ p = (t.lexpos : Nat) ∧ src = g.source := by
  cases h with
  | matchedPair c p h0 h1 =>
    exfalso
    have := congrArg String.toList hm
    unfold matchedPairMsg at this
    simp only [String.toList_append, toString, l_tok, l_mp] at this
    revert this
    simp
  | heredoc d p hp =>
    exfalso
    have := congrArg String.toList hm
    unfold heredocMsg at this
    simp only [String.toList_append, l_tok, l_hd] at this
    revert this
    simp
  | eof =>
    exfalso
    have := congrArg String.toList hm
    simp only [String.toList_append, l_tok, l_eof] at this
    revert this
    simp
  | token t ht _ =>
    refine ⟨t, ht, ?_, rfl, rfl⟩
    have := congrArg String.toList hm
    simp only [String.toList_append, List.append_cancel_left_eq] at this
    exact (String.toList_inj.mp this).symm
  | badSubst t k _ =>
    exfalso
    have := congrArg String.toList hm
    simp only [String.toList_append, l_tok, l_bad] at this
    revert this
    simp

/-- every `ParsingError` of a parser run, at every depth, is classified: it was raised by some
    parser (this one or a nested one) at one of the five sites, with that parser's source -/
theorem exnAt_classified : ∀ d g x, ExnAt d g x → ∀ m src p, x = .parsing m src p →
    ∃ g', TopParsing g' m src p := by
  intro d
  induction d with
  | zero => intro g x h m src p hx; cases h; cases hx
  | succ d ih =>
    intro g x h m src p hx
    rcases h with h | ⟨g', _, h⟩
    · subst hx; exact ⟨g, h⟩
    · exact ih g' x h m src p hx

/-- **(3)** every escaping `ParsingError` of `parse`: "unexpected EOF" is at the end of its source;
    "unexpected token R" is at the `lexpos` of a delivered token `t` with `repr(t.value) = R`,
    and `t` starts inside the line of the parser that delivered it -/
theorem C11_position_conditional (hTL : TokLen) (s : Str) (o : Opts) {m : String} {src : Str} {p : Int}
    (h : (parse s o).1 = .exn (.parsing m src p)) :
    (m = "unexpected EOF" → p = src.length) ∧
    (∀ r, m = "unexpected token " ++ r →
      ∃ t g', TF g' t ∧ r = tokRepr t ∧ p = (t.lexpos : Nat) ∧ src = g'.source) := by
  have hcl : ∃ g', TopParsing g' m src p := by
    rcases parse_exn s o h with h | h | ⟨i, t, _, _, h⟩
    · exact exnAt_classified _ _ _ (runParser_exn hTL h) m src p rfl
    · cases h
    · exact exnAt_classified _ _ _ (runParser_exn hTL h) m src p rfl
  obtain ⟨g', hg'⟩ := hcl
  refine ⟨fun hm => (topParsing_eof hg' hm).1, fun r hm => ?_⟩
  obtain ⟨t, h1, h2, h3, h4⟩ := topParsing_token hg' hm
  exact ⟨t, g', h1, h2, h3, h4⟩

/-! ## the tokenizer alone: unconditional -/

/-- **the tokenizer never trips the assertion of `ParsingError.__init__`** (unconditional):
    from every `Good` state, `token()` and `gatherheredocuments` raise only `C01.TokExn` minus
    the entry `AssertionError|ParsingError.__init__`, i.e. that entry can be removed from
    `C01.tokForeign` -/
theorem tok_no_init_assert {g : Ghost} :
    HT (Good g []) nextToken (fun _ _ _ => True) (fun x => C01.TokExn x ∧ x ≠ initAssert) ∧
    HT (Good g []) gatherheredocuments (fun _ _ _ => True)
      (fun x => C01.TokExn x ∧ x ≠ initAssert) := by
  have hne : ∀ x, TopE g x → x ≠ initAssert := by
    intro x hx
    cases x with
    | parsing m src p => intro h; cases h
    | notImplemented w => exact hx
    | foreign ty site => exact hx
    | outOfFuel s => exact hx
  constructor
  · refine (HT.and_sat (nextToken_good (g := g)) C01.tok_nextToken).weaken (fun _ _ h => h)
      (fun _ _ _ _ => True.intro) (fun x h => ⟨h.1, hne x h.2⟩)
  · refine (HT.and_sat (gather_good (g := g) (ps := [])) C01.tok_gatherheredocuments).weaken
      (fun _ _ h => h) (fun _ _ _ _ => True.intro) (fun x h => ⟨h.1, hne x h.2⟩)

/-! ## (4) later parts of `parse` -/

/-- **(4) C11_later**: an exception of `parse s` that is not the exception of the first parser
    run is the exception, unchanged, of a parser run over a proper suffix `s[i:]`, `0 < i < len s`
    (so a `ParsingError` of it carries that suffix as source: finding D15), or the out-of-fuel
    marker of the loop (which C01 excludes) -/
theorem C11_later (s : Str) (o : Opts) {x : Exn} (h : (parse s o).1 = .exn x)
    (hfirst : (runParser s o []).1 ≠ .error x) :
    x = .outOfFuel "parse" ∨
    ∃ i t, 0 < i ∧ i < s.length ∧ (runParser (s.drop i) o t).1 = .error x := by
  rcases parse_exn s o h with h | h
  · exact absurd h hfirst
  · exact h

theorem C11_later_conditional (hTL : TokLen) (s : Str) (o : Opts) {m : String} {src : Str} {p : Int}
    (h : (parse s o).1 = .exn (.parsing m src p))
    (hfirst : (runParser s o []).1 ≠ .error (.parsing m src p)) :
    ∃ i, 0 < i ∧ i < s.length ∧
      (TopParsing (topGhost (s.drop i) o) m src p ∨
       ∃ g', WFG g' ∧ ExnAt (maxDepth - 1) g' (.parsing m src p)) := by
  rcases C11_later s o h hfirst with h | ⟨i, t, h0, h1, h2⟩
  · cases h
  · exact ⟨i, h0, h1, runParser_exn hTL h2⟩

/-! ## why the theorems speak of start states -/

/-- a local state no parser is ever in: a quote in the lookahead slot, the cursor far beyond the
    end of a one-character line -/
def badLocal : Local :=
  { tape := some { line := ['\n'], idx := 5 }, opts := some (true, false), eolLookahead := some '"' }

def errOf (r : Except Exn (Option Node × Local) × Env) : Option Exn :=
  match r.1 with
  | .error x => some x
  | _ => none

theorem badLocal_run :
    errOf ((parserRun 1).run badLocal { tape := { line := [] } }) = some initAssert := by
  decide +kernel

/-- the state-free formulation (`Sat` quantifies over ALL local states and environments) is
    false: from `badLocal` the assertion of `ParsingError.__init__` does fire
    (`MatchedPairError` at cursor − 1 = 4 > len "⏎").  Hence `HT Start …` above. -/
theorem stateless_formulation_false :
    ¬ M.Sat (parserRun 1) (fun _ => True) (fun x => x ≠ initAssert) := by
  intro h
  have h1 := h badLocal { tape := { line := [] } }
  have h2 := badLocal_run
  revert h1 h2
  rcases (parserRun 1).run badLocal { tape := { line := [] } } with ⟨r, e'⟩
  cases r with
  | ok v => intro _ h2; cases h2
  | error x =>
    intro h1 h2
    simp only [errOf, Option.some.injEq] at h2
    exact h1 h2

/-! ## witnesses of the findings (kernel-evaluated runs of the model) -/

/-- the exception `parse` raises (`none` if it returns) -/
def exnOf (s : Str) (o : Opts := {}) : Option Exn :=
  match (parse s o).1 with
  | .exn e => some e
  | _ => none

/-- D15: `a⏎)` — the error of the second part carries the suffix `⏎)` and a position in it -/
theorem witness_later :
    exnOf ['a', '\n', ')'] = some (.parsing "unexpected token ')'" ['\n', ')'] 1) := by
  decide +kernel

/-- nested parser: `a $(b;;)` — the error carries the nested parser's input `b;;)` -/
theorem witness_nested :
    exnOf ['a', ' ', '$', '(', 'b', ';', ';', ')'] =
      some (.parsing "unexpected token ';;'" ['b', ';', ';', ')'] 1) := by
  decide +kernel

/-- here-document: `cat <<E⏎x` — the source carries the appended newline and the position is
    `len(s) + 1` -/
theorem witness_heredoc :
    exnOf ['c', 'a', 't', ' ', '<', '<', 'E', '\n', 'x'] =
      some (.parsing "here-document at line 0 delimited by end-of-file (wanted 'E')"
        ['c', 'a', 't', ' ', '<', '<', 'E', '\n', 'x', '\n'] 10) := by
  decide +kernel

end Bashlex.C11

#print axioms Bashlex.C11.nextToken_good
#print axioms Bashlex.C11.gather_good
#print axioms Bashlex.C11.pError_ht
#print axioms Bashlex.C11.g_actionCore
#print axioms Bashlex.C11.parserRunWith_good
#print axioms Bashlex.C11.C11_parserRun_conditional
#print axioms Bashlex.C11.no_init_assert_conditional
#print axioms Bashlex.C11.C11_parse_conditional
#print axioms Bashlex.C11.C11_parsesingle_conditional
#print axioms Bashlex.C11.C01_partial'_conditional
#print axioms Bashlex.C11.C11_toplevel_conditional
#print axioms Bashlex.C11.C11_first_conditional
#print axioms Bashlex.C11.topParsing_source
#print axioms Bashlex.C11.C11_later
#print axioms Bashlex.C11.C11_position_conditional
#print axioms Bashlex.C11.tok_no_init_assert
#print axioms Bashlex.C11.C11_later_conditional
#print axioms Bashlex.C11.stateless_formulation_false
#print axioms Bashlex.C11.witness_later
#print axioms Bashlex.C11.witness_nested
#print axioms Bashlex.C11.witness_heredoc
