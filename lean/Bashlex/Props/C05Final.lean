/-
  Property C05 -- "the leaf tokens of the returned trees read in span order are exactly the tokens
  of the input, each once; every character outside all leaf spans is a blank, a newline, a
  comment or a line continuation; every top-level command of a multi-line input appears as
  exactly one returned part, in order" -- the COMBINED model-level theorem `C05_final`, for the
  real tokenizer, without hypothesis on the token source, under the decidable per-input
  condition `C03.rootEndsChecked s o` (`Props/C03/RootEnds.lean`) and `|s| + 1 < 2^30` (the
  model's loop fuel).

  `parse s o = parts`  ⟹  `PartsFinal s 0 parts`:
    PARTS   the parts are the results of successive parser runs: part `i` is the tree `n` of the
            run over `s[kᵢ:]`, moved by `kᵢ`; `k₀ = 0`, `kᵢ₊₁ = max (nextIndex partᵢ) (kᵢ + 1)`:
            one part per run, in order.  The list ends (`done`) when `kᵢ ≥ |s|`, or (`stop`) when
            the run over `s[kᵢ:]` returns `None`; such a run (`CharsNone`) was delivered NEWLINE
            tokens, which it dropped, and the end-of-input token only, its cursor reached the
            end of its line, every position of the line is layout, and -- the cursor being AT
            the end -- `Spec.isLayout` holds of the whole line: NO COMMAND IS LOST BEHIND THE
            LAST PART.  (Needs the engine theorem `run_sound_ordB`, `Props/C05/FSoundB.lean`:
            `run_sound_ordH` said nothing of the "everything is a newline" return.)
    For each run (`CharsData`), with `L0 = s[kᵢ:]` plus the newline `tokenizer.__init__` appends,
    the tokens `ts` the run consumed, at most one look-ahead token `la`, the cursor `B`:
    TOKENS  `FCovers`: the leaves of `n` in tree order are accounted for, group by group, by `ts`
            (one token ↦ one leaf; `[fd] op target` ↦ one redirect leaf; NEWLINEs dropped in
            five listed places; D19: the tokens of a `time` specification ↦ one leaf at (0,0));
            `TokSorted ts`; spatially every consumed token is a dropped NEWLINE, a `time` token
            or lies inside a leaf.
    CHARS   per position: every `p < B` of `L0` lies inside a leaf of `n`, or is layout
            (`PosLay`), or lies inside a consumed `time` token (D19), or inside the look-ahead
            token.  **The disjunct "inside a gathered here-document body" of `C05_chars_checked`
            is gone (residual R1): every body attached in the redirect store is a leaf of the
            tree flagged as a body (`InBodyLeaf`; `Props/C05/FIds.lean`, `FIdsEngine.lean`,
            `FStore.lean`, `FRun.lean`: conservation of pending redirects by all 39 action
            functions, `act_ids`; what each action does to the store, `act_store`; the stack
            invariant `IdI`)** -- also for D11 inputs (conservation holds; D11 is about WHICH
            text is the body: the body leaf then overlaps command leaves).
    CHAIN   tight form (`FChain.lean`, `FGaps.lean`, `FT1-3.lean`): the line up to `B` is a chain
            `Skip token Skip token …` in which every `Skip` is ANCHORED where the token before
            ends, and the regions `gatherheredocuments` consumed are, per position, a newline,
            the backslash of a backslash-newline pair, or inside a recorded body (`GRegT`).
            (`PosLay` alone is over-approximate: `posLay_overapprox`, witness `a#b c`.)
            `FLayout.lean`: `gap_layout`: between two tokens with only dropped NEWLINEs between
            them, the text -- if it holds no body -- satisfies `Spec.isLayout`.
    TILING  (residual R2, one run, `FTiled.lean`): if no leaf is flagged as a body and no leaf is
            empty (D19): the leaves in tree order tile the line (`Tiled`), hence
            `run_gapsOK`: `Spec.gapsOK`, the walker of the executable `Spec.coverOK`, run over the
            leaves of the run's tree on the run's line reports no `leaf-overlap` and no
            `gap-not-layout`.

  R2 for the WHOLE result of `parse`: see `Props/C05Cover.lean` (`C05_coverOK_plain_nil`:
  `Spec.coverOK s parts = []` for results without here-document body leaves and without D19,
  under the decidable conditions `SortOK`, `plainLeaves`, `rootsAtLeaves`) and
  `Props/C05/FCover.lean` (`coverOK_sound`: under `SortOK` every signature of `Spec.coverOK` has
  an order-free geometric reason; `C05_coverOK_conditional`).  Not proved: `rootsAtLeaves` as a
  theorem (where the ROOT of a top-level tree ends: `Props/C03/RE` proves `EG` only), results with
  here-document bodies (an extended redirect ends where its body ends; classification of the
  D11 overlaps), `Array.qsort` (`SortOK`).
  The chain survives the "dead" state (cursor beyond the line after the non-strict skip over a
  missing here-document, witness `cat <<E`, `strict = false`): the log is then the chain followed
  by end-of-input tokens (`TGT.ChainC`, `chainC_split`), so `CharsData` carries the chain and the
  tiling without a condition on the cursor.
-/
import Bashlex.Props.C05.FRun
import Bashlex.Props.C05.FLayout
import Bashlex.Props.C05.FTiled
import Bashlex.Props.C05.FCover

namespace Bashlex.C05
open Bashlex Bashlex.Spec Bashlex.Node Bashlex.M Bashlex.LR Bashlex.C12 Bashlex.C03
  Bashlex.C03.Tok Bashlex.C10 Bashlex.C11 Bashlex.C05.TG
set_option linter.unusedSimpArgs false
set_option linter.unusedVariables false

/-! ## both facts about the log at once -/

theorem covOK_and {C1 C2 : List Token → Local → Env → Prop} (h1 : TGT.CovOK C1) (h2 : TGT.CovOK C2) :
    TGT.CovOK (fun ts l e => C1 ts l e ∧ C2 ts l e) := by
  refine ⟨?_, ?_, ?_, ?_⟩
  · intro ts t L i0 len f l0 l e0 e hc a1 a2 a3 a4
    exact ⟨h1.next hc.1 a1 a2 a3 a4, h2.next hc.2 a1 a2 a3 a4⟩
  · intro ts L c len f l0 l e0 e hc a1 a2 a3 a4 a5
    exact ⟨h1.gather hc.1 a1 a2 a3 a4 a5, h2.gather hc.2 a1 a2 a3 a4 a5⟩
  · intro ts l0 l e0 e hc a1 a2 a3
    exact ⟨h1.same hc.1 a1 a2 a3, h2.same hc.2 a1 a2 a3⟩
  · intro ts l0 l e0 e hc a1 a2 a3
    exact ⟨h1.deadEof hc.1 a1 a2 a3, h2.deadEof hc.2 a1 a2 a3⟩

/-- coverage per position and the chain -/
def CovB (L0 : Str) (ts : List Token) (l : Local) (e : Env) : Prop :=
  TGT.CovL L0 ts l e ∧ TGT.ChainC L0 ts l e

theorem covOK_both (L0 : Str) : TGT.CovOK (CovB L0) :=
  covOK_and (TGT.covOK_covL L0).toNew (TGT.covOK_chain L0)

section
attribute [local instance] C16.stdEnvRel

/-- the nested-parser contract, for every fact closed under the tokenizer's moves -/
theorem npSpans_X {C : List Token → Local → Env → Prop} (hC : TGT.CovOK C) (tr : List Token)
    (d : Nat) : NPSpans (TLs (TGT.TLogX C) tr) (npK true (parserRunK d)) := by
  intro s b len F st
  rintro l e ⟨htl, hst⟩
  obtain ⟨⟨⟨hti, hdel⟩, hcov⟩, hsorted⟩ := htl
  have h := npSpans_npK d (parserRunK_spans d) s b len F st l e ⟨hti, hst⟩
  have hf := npK_frame d s b l e
  revert h hf
  rcases M.run (npK true (parserRunK d) s b) l e with ⟨r, e'⟩
  cases r with
  | error x => intro _ _; exact True.intro
  | ok v =>
    obtain ⟨r, l'⟩ := v
    rintro ⟨⟨h1, h2⟩, h3⟩ ⟨f1, f2⟩
    refine ⟨⟨⟨⟨⟨h1, hdel⟩, fun hlen => ?_⟩, hsorted⟩, h2⟩, h3⟩
    exact hC.same (hcov hlen) (by rw [f1]) (Or.inl (by rw [f1]))
      (fun p h => by rw [f2]; exact h)

end

/-- the invariant of the run over `s0` -/
def TLfin (s0 : Str) : List Token → Nat → Nat → Local → Env → Prop :=
  TLs (TGT.TLogX (CovB (Tape.ofInput s0).line))

theorem tokLogC_fin (s0 : Str) : TokLogC (TLfin s0) := (TGT.tokLogX (covOK_both _)).sorted

theorem tlfin_init (s0 : Str) (l : Local) (e : Env) (hi : InitState s0 l e) :
    TLfin s0 [] s0.length 0 l e := by
  have h1 := TGT.tokLogGL_init s0 l e hi
  have h2 := TGT.tokLogCh_init s0 l e hi
  exact ⟨⟨h1.1, fun hlen => ⟨h1.2 hlen, h2.2 hlen⟩⟩,
    ⟨⟨List.Pairwise.nil, fun t ht => by cases ht⟩, fun t ht => by cases ht⟩⟩

/-- the parts of `parse`, each with both facts and conservation of the bodies -/
theorem C05_parts_final (s : Str) (o : Opts) (parts : List Node)
    (hc : C03.rootEndsChecked s o = true) (h : (parse s o).1 = .parts parts) :
    PartsI TLfin s 0 parts :=
  parseK_leavesI tokLogC_fin (fun s0 tr d => npSpans_X (covOK_both _) tr d) tlfin_init s o parts
    (C03.parseK_of_checked hc h)

/-! ## one run -/

/-- what is known of one run (see the header), for the tokens `ts` it consumed, its look-ahead
    `la`, the cursor `B` and the redirect store `st` -/
def CharsData (s0 : Str) (n : Node) (ts la : List Token) (B : Nat) (st : List RedirCell) : Prop :=
    la.length ≤ 1 ∧ NoEOF ts ∧ TokSorted ts ∧
    -- token level
    FCovers s0.length ts (Spec.leaves n) ∧
    (∀ t ∈ ts, Droppable t ∨ IsTimeTok t ∨ InLeaf t (Spec.leaves n)) ∧
    -- the cursor
    (∀ t ∈ ts ++ la, t.ttype ≠ some .EOF → min t.endlexpos (Tape.ofInput s0).line.length ≤ B) ∧
    ((∃ t ∈ la, t.pos = none) → (Tape.ofInput s0).line.length ≤ B) ∧
    -- character level, per position: no disjunct for gathered bodies
    (∀ p, p < B → p < (Tape.ofInput s0).line.length →
      InLeafPos (Spec.leaves n) p ∨ PosLay (Tape.ofInput s0).line p ∨
      (∃ t ∈ ts, IsTimeTok t ∧ t.lexpos ≤ p ∧ p < t.endlexpos) ∨ InToks la p) ∧
    -- character level, tight
    (∃ la' c, (la' = la ∨ la' = []) ∧ TGT.ChainL (Tape.ofInput s0).line st 0 (ts ++ la') c ∧
      (c = B ∨ ((Tape.ofInput s0).line.length < c ∧ (Tape.ofInput s0).line.length < B))) ∧
    -- conservation: the bodies the regions of the chain refer to are leaves
    (∀ p, InBody st p → InBodyLeaf (Spec.leaves n) p) ∧
    -- the link to the specification's walker, for a run without body leaves and without D19
    ((∀ x ∈ Spec.leaves n, x.2 = false) →
      noEmptyLeaf (Spec.leaves n) = true → TGT.Tiled (Tape.ofInput s0).line 0 (Spec.leaves n))

/-- what is known of one run (see the header) -/
def CharsTotal (s0 : Str) (n : Node) : Prop :=
  ∃ (ts la : List Token) (B : Nat) (st : List RedirCell), CharsData s0 n ts la B st

theorem runOKI_total {s0 : Str} {n : Node} (hlen : s0.length + 1 < 1073741824)
    (h : RunOKI (TLfin s0) s0 n) : CharsTotal s0 n := by
  obtain ⟨_, ts, la, F, l, e, ⟨htl, hsort⟩, hla, hno, hcv, hbody⟩ := h
  have hs : TokSorted ts := by
    have := hsort.1
    rw [List.filter_append, filter_noEOF hno] at this
    exact this.append.1
  have hin := token_in_leaf hcv hs
  obtain ⟨⟨hti, hdel⟩, hcov⟩ := htl
  obtain ⟨⟨hline, hcovp, heof⟩, hcc⟩ := hcov hlen
  obtain ⟨la', c, g1, g2, g3⟩ := TGT.chainC_split hcc hno hla
  refine ⟨ts, la, (tapeOf l e).idx, l.store, ?_⟩
  unfold CharsData
  refine ⟨hla, hno, hs, hcv, hin, ?_, ?_, ?_, ⟨la', c, g1, g2.toL, g3⟩, hbody, ?_⟩
  · intro t ht hne
    have hF : t.endlexpos ≤ F := hsort.2 t ht (by simp [notEOF, hne])
    obtain ⟨L, _, _, hc⟩ := hti
    rcases hc with hc | hc
    · obtain ⟨a1, _, _, _, _, _, a7⟩ := hc
      have hL : L = (Tape.ofInput s0).line := by rw [← a1]; exact hline
      rw [hL] at a7
      simp only [Nat.min_def] at a7 ⊢
      split at a7 <;> split <;> omega
    · have hL : L = (Tape.ofInput s0).line := by rw [← hc.1]; exact hline
      have := hc.2.1
      rw [hL] at this
      simp only [Nat.min_def]
      split <;> omega
  · rintro ⟨t, ht, hp⟩
    exact heof ⟨t, List.mem_append_right _ ht, hp⟩
  · intro p hp1 hp2
    have hcp := hcovp p hp1 (by rw [hline]; exact hp2)
    rw [hline] at hcp
    rcases hcp with ⟨t, ht, hnn, h1, h2⟩ | hl | hb
    · rcases List.mem_append.mp ht with ht | ht
      · rcases hin t ht with hd | htime | ⟨x, hx, hx1, hx2⟩
        · exact absurd hd (nn_not_droppable hnn)
        · exact Or.inr (Or.inr (Or.inl ⟨t, ht, htime, h1, h2⟩))
        · exact Or.inl ⟨x, hx, by omega, by omega⟩
      · exact Or.inr (Or.inr (Or.inr ⟨t, ht, h1, h2⟩))
    · exact Or.inr (Or.inl hl)
    · exact Or.inl (hbody p hb).inLeaf
  · intro hfl hne
    have hnb : ∀ p, ¬ InBody l.store p := by
      intro p hp
      obtain ⟨x, hx, hxt, _⟩ := hbody p hp
      rw [hfl x hx] at hxt
      cases hxt
    exact TGT.tiled_of_covers hnb (fcovers_strict hcv hne) hfl hno 0 []
      (by simpa using g2.toL) (fun t ht => by cases ht)

/-- **C05, character level, bodies conserved (R1 closed)**: `C05_chars_checked` without the
    "gathered here-document body" disjunct, and with the tight chain -/
theorem C05_chars_total (s : Str) (o : Opts) (parts : List Node)
    (hlen : s.length + 1 < 1073741824)
    (hc : C03.rootEndsChecked s o = true) (h : (parse s o).1 = .parts parts) :
    ∀ part ∈ parts, ∃ k n, k ≤ s.length ∧ part = n.shift k ∧
      Spec.leaves part = (Spec.leaves n).map (shL k) ∧ CharsTotal (s.drop k) n := by
  intro part hp
  obtain ⟨k, n, _, hk, rfl, hrun⟩ := (C05_parts_final s o parts hc h).mem part hp
  refine ⟨k, n, hk, rfl, leaves_shift k n, runOKI_total ?_ hrun⟩
  rw [List.length_drop]; omega

/-! ## a run that returns `None` -/

theorem covers_nil_droppable {ts : List Token} {ls : List ALeaf} (h : Covers ts ls) :
    ls = [] → ∀ t ∈ ts, Droppable t := by
  induction h with
  | nil => intro _ t ht; cases ht
  | @cons ts1 ls1 ts2 ls2 hg _ ih =>
    intro hnil t ht
    obtain ⟨h1, h2⟩ := List.append_eq_nil_iff.mp hnil
    rcases List.mem_append.mp ht with ht | ht
    · cases hg with
      | leaf t0 => cases h1
      | drop t0 hd =>
        simp only [List.mem_singleton] at ht
        subst ht; exact hd
      | redir2 op tgt _ => cases h1
      | redir3 fd op tgt _ _ => cases h1
      | here2 op tgt id _ => cases h1
      | here3 fd op tgt id _ _ => cases h1
      | d19 _ _ _ => cases h1
    · exact ih h2 t ht

/-- what is known of a run that returned `None` (it ends the loop of `parse`): the tokens it was
    delivered were NEWLINEs it dropped (`lead`) and the end-of-input token `t`; the cursor `B` is
    at the end of its line `L0` (or beyond); every position of the line is layout (per position);
    and -- the cursor being AT the end -- the line is the chain of these tokens and
    **`Spec.isLayout` holds of the whole line**: the rest of the input is layout in the sense of
    the executable specification, no command is lost behind the last part -/
def CharsNone (s0 : Str) : Prop :=
  ∃ (lead : List Token) (t : Token) (B : Nat), (∀ x ∈ lead, Droppable x) ∧ t.ttype = some .EOF ∧
    (Tape.ofInput s0).line.length ≤ B ∧
    (∀ p, p < (Tape.ofInput s0).line.length →
      PosLay (Tape.ofInput s0).line p ∨ InToks [t] p) ∧
    (B = (Tape.ofInput s0).line.length →
      TGT.ChainL (Tape.ofInput s0).line [] 0 (lead ++ [t]) B) ∧
    -- the whole line is layout in the sense of the specification (also when the cursor left it)
    TGT.LF (Tape.ofInput s0).line 0 (Tape.ofInput s0).line.length

theorem runNone_chars {s0 : Str} (hlen : s0.length + 1 < 1073741824)
    (h : RunNone (TLfin s0) s0) : CharsNone s0 := by
  obtain ⟨lead, la, F, l, e, ⟨htl, hsort⟩, hla, hcv, hno, hst, t, htla, hty⟩ := h
  have hla1 : la = [t] := by
    cases la with
    | nil => cases htla
    | cons a as =>
      cases as with
      | nil => simp only [List.mem_singleton] at htla; rw [htla]
      | cons b bs => simp at hla
  subst hla1
  have hdrop := covers_nil_droppable hcv rfl
  obtain ⟨_, hcov⟩ := htl
  obtain ⟨⟨hline, hcovp, heof⟩, hcc⟩ := hcov hlen
  have hch := fun hb => TGT.chainC_live hcc hb
  have hB : (Tape.ofInput s0).line.length ≤ (tapeOf l e).idx := by
    by_cases hb : (tapeOf l e).idx ≤ (Tape.ofInput s0).line.length
    · exact TGT.Chain.last_eof (hch hb) lead t rfl hty
    · omega
  have hnb : ∀ p, ¬ InBody ([] : List RedirCell) p := by
    rintro p ⟨c, hc, _⟩; cases hc
  have hLF : TGT.LF (Tape.ofInput s0).line 0 (Tape.ofInput s0).line.length := by
    obtain ⟨_, ⟨pre, k, c, d1, d2, d3⟩, _⟩ := hcc
    rw [hst] at d2
    cases k with
    | zero =>
      have hpre : pre = lead ++ [t] := by simpa using d1.symm
      rw [hpre] at d2
      exact TGT.none_LF d2.toL hdrop hty
    | succ k =>
      rw [List.replicate_succ', ← List.append_assoc] at d1
      obtain ⟨d4, _⟩ := List.append_inj' d1 rfl
      have hk : k = 0 := by
        cases k with
        | zero => rfl
        | succ k =>
          exfalso
          have hm : C03.Tok.eofTok ∈ lead := by rw [d4]; simp [List.replicate_succ]
          rcases hdrop _ hm with hd | hd <;> cases hd
      subst hk
      have hpre : pre = lead := by simpa using d4.symm
      rw [hpre] at d2
      have hc : (Tape.ofInput s0).line.length < c := by
        rcases d3 with ⟨h0, _⟩ | ⟨h1, _⟩
        · cases h0
        · exact h1
      have hnl : ∀ x ∈ lead, x.ttype = some .NEWLINE :=
        fun x hx => TGT.droppable_nl d2.toL hx (hdrop x hx)
      exact TGT.chain_trunc hnb d2.toL hnl (Nat.zero_le _) (Nat.le_of_lt hc)
  refine ⟨lead, t, (tapeOf l e).idx, hdrop, hty, hB, ?_, ?_, hLF⟩
  · intro p hp2
    have hcp := hcovp p (by omega) (by rw [hline]; exact hp2)
    rw [hline] at hcp
    rcases hcp with ⟨t', ht', hnn, h1, h2⟩ | hl | hb
    · rcases List.mem_append.mp ht' with ht' | ht'
      · exact absurd (hdrop t' ht') (nn_not_droppable hnn)
      · exact Or.inr ⟨t', ht', h1, h2⟩
    · exact Or.inl hl
    · rw [hst] at hb
      obtain ⟨c, hc, _⟩ := hb
      cases hc
  · intro hb
    have hc := (hch (by omega)).toL
    rw [hst] at hc
    exact hc

/-- **the link to the executable specification, one run** (R2 for runs without here-document
    body leaves and without D19): `Spec.gapsOK` -- the walker of `Spec.coverOK` -- run over the
    leaves of the run's tree in tree order, on the run's own line, reports nothing between the
    leaves: no `leaf-overlap`, no `gap-not-layout`.  Conditions, all explicit: no leaf is flagged
    as a here-document body (witness `cat <<E⏎x⏎E⏎`: the body is a leaf), no leaf is empty (D19,
    witness `time a` with `proceedonerror`), the cursor `B` of the run stayed inside the line
    (it leaves it in non-strict mode on a missing here-document, witness `cat <<E`). -/
theorem run_gapsOK {s0 : Str} {n : Node} {ts la : List Token} {B : Nat} {st : List RedirCell}
    (h : CharsData s0 n ts la B st)
    (hfl : ∀ x ∈ Spec.leaves n, x.2 = false) (hne : noEmptyLeaf (Spec.leaves n) = true) :
    ∀ v ∈ Spec.gapsOK (Tape.ofInput s0).line 0 false (Spec.leaves n),
      v = "trailing-text-not-layout" := by
  obtain ⟨_, _, _, _, _, _, _, _, _, _, htile⟩ := h
  exact TGT.gapsOK_of_tiled _ _ 0 false (htile hfl hne)

/-! ## the combined theorem -/

/-- **the parts `parse` returns from index `i` on** (see the header) -/
inductive PartsFinal (s : Str) : Nat → List Node → Prop
  /-- the loop of `parse` stops at the end of the input … -/
  | done (i : Nat) : s.length ≤ i → PartsFinal s i []
  /-- … or when the run over `s[i:]` returns `None`: that run found layout only -/
  | stop (i : Nat) : CharsNone (s.drop i) → PartsFinal s i []
  | cons {i : Nat} {n : Node} {rest : List Node} : i ≤ s.length → TopOK (s.drop i).length n →
      CharsTotal (s.drop i) n →
      PartsFinal s (max (nextIndex (n.shift i)) (i + 1)) rest →
      PartsFinal s i (n.shift i :: rest)

theorem partsFinal_of {s : Str} (hlen : s.length + 1 < 1073741824) :
    ∀ {i : Nat} {ps : List Node}, PartsI TLfin s i ps → PartsFinal s i ps := by
  intro i ps h
  induction h with
  | done i hi => exact .done i hi
  | stop i hrun => exact .stop i (runNone_chars (by rw [List.length_drop]; omega) hrun)
  | @cons i n rest hi hrun _ ih =>
    exact .cons hi hrun.1 (runOKI_total (by rw [List.length_drop]; omega) hrun) ih

/-- **C05 (model level): token level + character level + parts, `parse`, for the real
    tokenizer** -/
theorem C05_final (s : Str) (o : Opts) (parts : List Node)
    (hlen : s.length + 1 < 1073741824)
    (hc : C03.rootEndsChecked s o = true) (h : (parse s o).1 = .parts parts) :
    PartsFinal s 0 parts :=
  partsFinal_of hlen (C05_parts_final s o parts hc h)

/-- every part of `PartsFinal` is a run's tree, moved -/
theorem PartsFinal.mem {s : Str} : ∀ {i : Nat} {ps : List Node}, PartsFinal s i ps →
    ∀ part ∈ ps, ∃ k n, i ≤ k ∧ k ≤ s.length ∧ part = n.shift k ∧
      Spec.leaves part = (Spec.leaves n).map (shL k) ∧ CharsTotal (s.drop k) n := by
  intro i ps h
  induction h with
  | done i _ => intro part hp; cases hp
  | stop i _ => intro part hp; cases hp
  | @cons i n rest hi _ hrun _ ih =>
    intro part hp
    rcases List.mem_cons.mp hp with rfl | hp
    · exact ⟨i, n, Nat.le_refl i, hi, rfl, leaves_shift i n, hrun⟩
    · obtain ⟨k, m, h1, h2, h3, h4⟩ := ih part hp
      refine ⟨k, m, ?_, h2, h3, h4⟩
      have : i + 1 ≤ max (nextIndex (n.shift i)) (i + 1) := Nat.le_max_right _ _
      omega

end Bashlex.C05

#print axioms Bashlex.C05.C05_chars_total
#print axioms Bashlex.C05.C05_final
#print axioms Bashlex.C05.C05_chain_checked
#print axioms Bashlex.C05.TGT.posLay_overapprox
#print axioms Bashlex.C05.run_gapsOK
#print axioms Bashlex.C05.coverOK_sound
#print axioms Bashlex.C05.act_ids
#print axioms Bashlex.C03.act_store
#print axioms Bashlex.LR.run_sound_ordB
#print axioms Bashlex.C05.TGT.tokLogX
#print axioms Bashlex.C05.TGT.gap_layout
#print axioms Bashlex.C05.TGT.none_layout
#print axioms Bashlex.C05.TGT.tiled_of_covers
