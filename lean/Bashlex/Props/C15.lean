/-
  C15: the visitor reaches every node once, in pre-order, siblings in list order, brackets every
  node with enter/leave, and skips exactly the subtree below a pruned node; the span helpers
  built on it touch every node.  All statements are for *every* tree of the typed AST and every
  prune predicate (structural induction), so "never fails with an unknown kind" is totality of
  `visit` plus the `Kinds` obligations on the regenerated source data.
-/
import Bashlex.Model.Visitor
import Bashlex.Gen.Kinds

namespace Bashlex.Props
open Bashlex

def enters : List Ev → List Node
  | [] => []
  | .enter n :: r => n :: enters r
  | _ :: r => enters r

theorem enters_append (a b : List Ev) : enters (a ++ b) = enters a ++ enters b := by
  induction a with
  | nil => rfl
  | cons e a ih => cases e <;> simp [enters, ih]

mutual
/-- specification: the nodes a traversal reaches when the children of pruned nodes are skipped
    (defined from `Node.children`-order, independently of the dispatch in `visit`) -/
def reached (prune : Node → Bool) : Node → List Node
  | n@(.operator ..) | n@(.reservedword ..) | n@(.pipe ..) | n@(.parameter ..) | n@(.tilde ..)
  | n@(.heredoc ..) => [n]
  | n@(.list _ ps) | n@(.pipeline _ ps) | n@(.ifN _ ps) | n@(.forN _ ps) | n@(.whileN _ ps)
  | n@(.untilN _ ps) | n@(.caseN _ ps) | n@(.pattern _ ps) | n@(.command _ ps)
  | n@(.unimplemented _ ps) | n@(.function _ _ _ ps) | n@(.word _ _ ps) | n@(.assignment _ _ ps) =>
    n :: (if prune n then [] else reachedL prune ps)
  | n@(.compound _ l r) => n :: (if prune n then [] else reachedL prune l ++ reachedL prune r)
  | n@(.redirect _ _ _ o _ h _) => n :: (if prune n then [] else reachedO prune o ++ reachedO prune h)
  | n@(.commandsubstitution _ c) | n@(.processsubstitution _ c) =>
    n :: (if prune n then [] else reached prune c)
def reachedL (prune : Node → Bool) : List Node → List Node
  | [] => []
  | n :: ns => reached prune n ++ reachedL prune ns
def reachedO (prune : Node → Bool) : Option Node → List Node
  | none => []
  | some n => reached prune n
end

mutual
/-- **every node is entered exactly once, parents before children, siblings in list order, and
    exactly the subtree below a pruned node is skipped** -/
theorem enters_visit (prune : Node → Bool) : ∀ n, enters (visit prune n) = reached prune n
  | .operator .. | .reservedword .. | .pipe .. | .parameter .. | .tilde .. | .heredoc .. => by
    simp [visit, reached, enters]
  | .list _ ps | .pipeline _ ps | .ifN _ ps | .forN _ ps | .whileN _ ps | .untilN _ ps
  | .caseN _ ps | .pattern _ ps | .command _ ps | .unimplemented _ ps | .function _ _ _ ps
  | .word _ _ ps | .assignment _ _ ps => by
    simp only [visit, reached, List.cons_append, List.nil_append, enters, enters_append]
    split <;> simp [enters, enters_visitL prune ps]
  | .compound _ l r => by
    simp only [visit, reached, List.cons_append, List.nil_append, enters, enters_append]
    split <;> simp [enters, enters_append, enters_visitL prune l, enters_visitL prune r]
  | .redirect _ _ _ o _ h _ => by
    simp only [visit, reached, List.cons_append, List.nil_append, enters, enters_append]
    split <;> simp [enters, enters_append, enters_visitO prune o, enters_visitO prune h]
  | .commandsubstitution _ c | .processsubstitution _ c => by
    simp only [visit, reached, List.cons_append, List.nil_append, enters, enters_append]
    split <;> simp [enters, enters_visit prune c]
theorem enters_visitL (prune : Node → Bool) : ∀ l, enters (visitL prune l) = reachedL prune l
  | [] => rfl
  | n :: ns => by simp [visitL, reachedL, enters_append, enters_visit prune n, enters_visitL prune ns]
theorem enters_visitO (prune : Node → Bool) : ∀ o, enters (visitO prune o) = reachedO prune o
  | none => rfl
  | some n => by simp [visitO, reachedO, enters_visit prune n]
end

mutual
/-- without pruning the nodes reached are all nodes, in pre-order -/
theorem reached_noprune : ∀ n : Node, reached (fun _ => false) n = n.preorder
  | .operator .. | .reservedword .. | .pipe .. | .parameter .. | .tilde .. | .heredoc .. => by
    simp [reached, Node.preorder]
  | .list _ ps | .pipeline _ ps | .ifN _ ps | .forN _ ps | .whileN _ ps | .untilN _ ps
  | .caseN _ ps | .pattern _ ps | .command _ ps | .unimplemented _ ps | .function _ _ _ ps
  | .word _ _ ps | .assignment _ _ ps => by
    simp [reached, Node.preorder, reachedL_noprune ps]
  | .compound _ l r => by simp [reached, Node.preorder, reachedL_noprune l, reachedL_noprune r]
  | .redirect _ _ _ o _ h _ => by
    simp [reached, Node.preorder, reachedO_noprune o, reachedO_noprune h]
  | .commandsubstitution _ c | .processsubstitution _ c => by
    simp [reached, Node.preorder, reached_noprune c]
theorem reachedL_noprune : ∀ l : List Node, reachedL (fun _ => false) l = Node.preorderL l
  | [] => rfl
  | n :: ns => by simp [reachedL, Node.preorderL, reached_noprune n, reachedL_noprune ns]
theorem reachedO_noprune : ∀ o : Option Node, reachedO (fun _ => false) o = Node.preorderO o
  | none => rfl
  | some n => by simp [reachedO, Node.preorderO, reached_noprune n]
end

/-- nesting depth after a list of events, `none` if a leave has no matching enter -/
def depthAfter : List Ev → Nat → Option Nat
  | [], d => some d
  | .enter _ :: r, d => depthAfter r (d + 1)
  | .call _ _ :: r, d => depthAfter r d
  | .leave _ :: r, d => match d with | 0 => none | d' + 1 => depthAfter r d'

theorem depthAfter_append (a b : List Ev) (d : Nat) :
    depthAfter (a ++ b) d = (depthAfter a d).bind (depthAfter b) := by
  induction a generalizing d with
  | nil => rfl
  | cons e a ih =>
    cases e with
    | enter n => simp [depthAfter, ih]
    | call n f => simp [depthAfter, ih]
    | leave n => cases d <;> simp [depthAfter, ih]

mutual
/-- **enter/leave events bracket every node**: the trace of a node is balanced -/
theorem visit_balanced (prune : Node → Bool) : ∀ (n : Node), ∀ d : Nat, depthAfter (visit prune n) d = some d
  | .operator .. | .reservedword .. | .pipe .. | .parameter .. | .tilde .. | .heredoc .. => by
    intro d; simp [visit, depthAfter]
  | .list _ ps | .pipeline _ ps | .ifN _ ps | .forN _ ps | .whileN _ ps | .untilN _ ps
  | .caseN _ ps | .pattern _ ps | .command _ ps | .unimplemented _ ps | .function _ _ _ ps
  | .word _ _ ps | .assignment _ _ ps => by
    intro d
    simp only [visit, List.cons_append, List.nil_append, depthAfter, depthAfter_append]
    split <;> simp [depthAfter, visitL_balanced prune ps]
  | .compound _ l r => by
    intro d
    simp only [visit, List.cons_append, List.nil_append, depthAfter, depthAfter_append]
    split <;> simp [depthAfter, depthAfter_append, visitL_balanced prune l, visitL_balanced prune r]
  | .redirect _ _ _ o _ h _ => by
    intro d
    simp only [visit, List.cons_append, List.nil_append, depthAfter, depthAfter_append]
    split <;> simp [depthAfter, depthAfter_append, visitO_balanced prune o, visitO_balanced prune h]
  | .commandsubstitution _ c | .processsubstitution _ c => by
    intro d
    simp only [visit, List.cons_append, List.nil_append, depthAfter, depthAfter_append]
    split <;> simp [depthAfter, visit_balanced prune c]
theorem visitL_balanced (prune : Node → Bool) : ∀ (l : List Node), ∀ d : Nat, depthAfter (visitL prune l) d = some d
  | [] => fun _ => rfl
  | n :: ns => by intro d; simp [visitL, depthAfter_append, visit_balanced prune n, visitL_balanced prune ns]
theorem visitO_balanced (prune : Node → Bool) : ∀ (o : Option Node), ∀ d : Nat, depthAfter (visitO prune o) d = some d
  | none => fun _ => rfl
  | some n => by intro d; simp [visitO, visit_balanced prune n]
end

mutual
/-- **the span helpers touch every node**: mapping spans (posshifter, _adjustpositions) rewrites
    the span of every node of the pre-order exactly once and changes nothing else's position in
    the traversal -/
theorem preorder_mapPos (f : Span → Span) : ∀ n : Node,
    (n.mapPos f).preorder.map Node.pos = n.preorder.map (fun m => f m.pos)
  | .operator .. | .reservedword .. | .pipe .. | .parameter .. | .tilde .. | .heredoc .. => by
    simp [Node.mapPos, Node.preorder, Node.pos]
  | .list _ ps | .pipeline _ ps | .ifN _ ps | .forN _ ps | .whileN _ ps | .untilN _ ps
  | .caseN _ ps | .pattern _ ps | .command _ ps | .unimplemented _ ps | .function _ _ _ ps
  | .word _ _ ps | .assignment _ _ ps => by
    simp [Node.mapPos, Node.preorder, Node.pos, preorderL_mapPos f ps]
  | .compound _ l r => by
    simp [Node.mapPos, Node.preorder, Node.pos, preorderL_mapPos f l, preorderL_mapPos f r]
  | .redirect _ _ _ o _ h _ => by
    simp [Node.mapPos, Node.preorder, Node.pos, preorderO_mapPos f o, preorderO_mapPos f h]
  | .commandsubstitution _ c | .processsubstitution _ c => by
    simp [Node.mapPos, Node.preorder, Node.pos, preorder_mapPos f c]
theorem preorderL_mapPos (f : Span → Span) : ∀ l : List Node,
    (Node.preorderL (Node.mapPosL f l)).map Node.pos = (Node.preorderL l).map (fun m => f m.pos)
  | [] => rfl
  | n :: ns => by simp [Node.mapPosL, Node.preorderL, preorder_mapPos f n, preorderL_mapPos f ns]
theorem preorderO_mapPos (f : Span → Span) : ∀ o : Option Node,
    (Node.preorderO (Node.mapPosO f o)).map Node.pos = (Node.preorderO o).map (fun m => f m.pos)
  | none => rfl
  | some n => by simp [Node.mapPosO, Node.preorderO, preorder_mapPos f n]
end

/-! ### obligations on data regenerated from the source -/

/-- kinds of the model's AST -/
def modelKinds : List String :=
  ["operator", "list", "reservedword", "pipe", "pipeline", "compound", "if", "for", "while", "until",
   "case", "pattern", "command", "function", "redirect", "word", "assignment", "parameter", "tilde",
   "heredoc", "commandsubstitution", "processsubstitution", "unimplemented"]

/-- every kind constructed anywhere in the sources is dispatched by `nodevisitor.visit`, every
    dispatched kind has a `visit<kind>` callback, and the model's AST has exactly the dispatched
    kinds -/
theorem kinds_covered :
    Gen.constructedKinds.all (fun k => Gen.dispatchKinds.contains k) = true ∧
    Gen.dispatchKinds.all (fun k => Gen.callbackKinds.contains k) = true ∧
    Gen.dispatchKinds.all (fun k => modelKinds.contains k) = true ∧
    modelKinds.all (fun k => Gen.dispatchKinds.contains k) = true := by decide

/-- **C15** -/
theorem C15 (prune : Node → Bool) (n : Node) :
    enters (visit prune n) = reached prune n ∧
    enters (visit (fun _ => false) n) = n.preorder ∧
    (∀ d, depthAfter (visit prune n) d = some d) :=
  ⟨enters_visit prune n, by rw [enters_visit, reached_noprune], visit_balanced prune n⟩

end Bashlex.Props
