/-
  C17: kernel-checked examples for `C17_proceed_only_NI` (`Props/C17Proceed.lean`).
-/
import Bashlex.Props.C17Proceed

namespace Bashlex.C17
open Bashlex

/-- the exception `parse` raises (`none` if it returns) -/
def exnOf (s : Str) (o : Opts := {}) : Option Exn :=
  match (parse s o).1 with
  | .exn e => some e
  | _ => none

/-- `time a`: `NotImplementedError` without the option … -/
theorem ex_time : exnOf ['t', 'i', 'm', 'e', ' ', 'a'] = some (.notImplemented "time command") := by
  decide +kernel
/-- … and a normal return with it (the tree holds an `unimplemented` node) -/
theorem ex_time_proceed : exnOf ['t', 'i', 'm', 'e', ' ', 'a'] { proceed := true } = none := by
  decide +kernel

theorem ex_coproc : exnOf ['c', 'o', 'p', 'r', 'o', 'c', ' ', 'a'] = some (.notImplemented "coproc") := by
  decide +kernel
theorem ex_coproc_proceed : exnOf ['c', 'o', 'p', 'r', 'o', 'c', ' ', 'a'] { proceed := true } = none := by
  decide +kernel

/-- the `NotImplementedError` of a NESTED parser escapes both runs: nested parsers never proceed -/
theorem ex_nested : exnOf ['a', ' ', '$', '(', 't', 'i', 'm', 'e', ' ', 'b', ')'] =
    some (.notImplemented "time command") := by decide +kernel
theorem ex_nested_proceed :
    exnOf ['a', ' ', '$', '(', 't', 'i', 'm', 'e', ' ', 'b', ')'] { proceed := true } =
      some (.notImplemented "time command") := by decide +kernel

/-- an input without unimplemented constructs: the premise of the theorem holds -/
theorem ex_plain : exnOf ['a', ' ', '|', ' ', 'b', ';', ' ', 'c'] = none := by decide +kernel

end Bashlex.C17
