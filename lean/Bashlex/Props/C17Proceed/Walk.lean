/-
  C17: `proceedonerror=True` changes the outcome only where the run with `proceedonerror=False`
  raises `NotImplementedError`.

  The option is read in ONE place of the model: `handleNotImplemented` (`Model/Actions.lean`), and
  with the answer `False` the very next thing is `raise NotImplementedError`, which aborts the
  top-level run (nested parsers carry `opts := some (true, false)` and never ask the
  environment).  `PI m` ("proceed-insensitive"): started with `proceed = false`, the run of `m`
  ends in a `NotImplementedError`, or the run with `proceed = true` is THE SAME run (same result,
  same final state, same environment up to the option).  `PI` is closed under the monad
  operations and every environment query but `optProceed`; an automatic walk (`pi_walk`, after
  C01's `tok_walk`) through the tokenizer, word expansion, all action functions, the LR engine and
  `parserRun` (induction on the nesting fuel) gives `pi_parserRun`; `handleNotImplemented` is the
  one place treated by hand (`PI.optProceed_bind`).  No exclusion for D18 is needed: its
  `AssertionError` (`select x in a; do b; done`) arises with `proceed = true` only, where the run
  with `proceed = false` raises `NotImplementedError`.
-/
import Bashlex.Proofs.HoareS
import Bashlex.Proofs.QCongr
import Bashlex.Model.Parse

namespace Bashlex.C17
open Bashlex Bashlex.M
set_option linter.unusedSimpArgs false
set_option linter.unusedVariables false

/-- the environment with the option switched on -/
def setP (e : Env) : Env := { e with proceed := true }

/-- the run ended in a `NotImplementedError` -/
def NIres {β : Type} (r : Except Exn β) : Prop := ∃ w, r = .error (.notImplemented w)

/-- proceed-insensitive unless `NotImplementedError` -/
def PI {α : Type} (m : M α) : Prop :=
  ∀ l e, e.proceed = false →
    (m.run l e).2.proceed = false ∧
    (NIres (m.run l e).1 ∨ m.run l (setP e) = ((m.run l e).1, setP (m.run l e).2))

variable {α β γ : Type}

theorem PI.pure (a : α) : PI (Pure.pure a : M α) := by
  intro l e he; rw [run_pure]; exact ⟨he, Or.inr rfl⟩

theorem PI.raise (x : Exn) : PI (M.raise x : M α) := by
  intro l e he; rw [run_raise]; exact ⟨he, Or.inr rfl⟩

theorem PI.foreign (a b : String) : PI (M.foreign a b : M α) := PI.raise _

theorem PI.bind {m : M α} {f : α → M β} (hm : PI m) (hf : ∀ a, PI (f a)) : PI (m >>= f) := by
  intro l e he
  obtain ⟨h1, h2⟩ := hm l e he
  rw [run_bind, run_bind]
  rcases hr : m.run l e with ⟨r, e1⟩
  rw [hr] at h1 h2
  cases r with
  | error x =>
    simp only []
    refine ⟨h1, ?_⟩
    rcases h2 with ⟨w, hw⟩ | h2
    · left; cases hw; exact ⟨w, rfl⟩
    · right; rw [h2]
  | ok v =>
    obtain ⟨a, l'⟩ := v
    simp only []
    have h3 := hf a l' e1 h1
    refine ⟨h3.1, ?_⟩
    rcases h2 with ⟨w, hw⟩ | h2
    · cases hw
    · rw [h2]; exact h3.2

theorem PI.ite {c : Prop} [Decidable c] {a b : M α} (ha : PI a) (hb : PI b) :
    PI (if c then a else b) := by
  split
  · exact ha
  · exact hb

theorem PI.map {m : M α} {f : α → β} (h : PI m) : PI (f <$> m) := by
  rw [map_eq_pure_bind]
  exact PI.bind h (fun _ => PI.pure _)

theorem PI.get : PI (get : M Local) := by
  intro l e he; rw [run_get]; exact ⟨he, Or.inr rfl⟩

theorem PI.set (l0 : Local) : PI (set l0 : M Unit) := by
  intro l e he; rw [run_set]; exact ⟨he, Or.inr rfl⟩

theorem PI.modify (f : Local → Local) : PI (modify f : M Unit) := by
  intro l e he; rw [run_modify]; exact ⟨he, Or.inr rfl⟩

theorem answer_proceed (e : Env) (q : Query) : (e.answer q).2.proceed = e.proceed := by
  cases q <;> simp only [Env.answer] <;> (try rfl)
  · split <;> rfl
  · split <;> rfl

/-- every query but the option itself -/
theorem PI.ask (q : Query) (hq : q ≠ .optProceed) : PI (M.ask q) := by
  intro l e he
  rw [run_ask, run_ask]
  refine ⟨by rw [answer_proceed]; exact he, Or.inr ?_⟩
  have := e.answer_setProceed true q hq
  show (Except.ok (((setP e).answer q).1, l), ((setP e).answer q).2) = _
  unfold setP
  rw [this.1, this.2]

theorem PI.loop {σ : Type} {site : String} {body : σ → M (σ ⊕ α)} (h : ∀ s, PI (body s)) :
    ∀ fuel s, PI (M.loop site body fuel s)
  | 0, s => PI.raise _
  | fuel + 1, s => by
    show PI (body s >>= _)
    refine PI.bind (h s) (fun r => ?_)
    cases r with
    | inl s' => exact PI.loop h fuel s'
    | inr a => exact PI.pure a

theorem PI.forIn {f : γ → β → M (ForInStep β)} (h : ∀ a b, PI (f a b)) :
    ∀ (l : List γ) (b : β), PI (forIn l b f)
  | [], b => by rw [List.forIn_nil]; exact PI.pure b
  | a :: rest, b => by
    rw [List.forIn_cons]
    refine PI.bind (h a b) (fun r => ?_)
    cases r with
    | done b' => exact PI.pure b'
    | yield b' => exact PI.forIn h rest b'

/-- **the one place where the option is read**: with the answer `False` the continuation raises
    `NotImplementedError` -/
theorem PI.optProceed_bind {k : Bool → M α} (hk : ∀ b, PI (k b))
    (hNI : ∀ l e, NIres ((k false).run l e).1) : PI (optProceed >>= k) := by
  intro l e he
  rw [run_bind, run_bind]
  unfold optProceed
  rw [run_bind, run_bind, run_get, run_get]
  simp only []
  cases hl : l.opts with
  | some p =>
    obtain ⟨s, pr⟩ := p
    simp only [run_pure]
    exact hk pr l e he
  | none =>
    have h1 : (e.answer .optProceed) = (false, e) := by
      show (e.proceed, e) = _; rw [he]
    have h2 : ((setP e).answer .optProceed) = (true, setP e) := rfl
    rw [run_ask, run_ask, h1, h2]
    simp only []
    exact ⟨(hk false l e he).1, Or.inl (hNI l e)⟩

/-- known callees (extended after each lemma) -/
syntax "pi_atom" : tactic
macro_rules | `(tactic| pi_atom) => `(tactic| assumption)
set_option hygiene false in
macro_rules | `(tactic| pi_atom) => `(tactic| exact hpmp _)
set_option hygiene false in
macro_rules | `(tactic| pi_atom) => `(tactic| exact hpcs _)
set_option hygiene false in
macro_rules | `(tactic| pi_atom) => `(tactic| exact hd _ _ _)
set_option hygiene false in
macro_rules | `(tactic| pi_atom) => `(tactic| exact hpost _ _ _ _)
set_option hygiene false in
macro_rules | `(tactic| pi_atom) => `(tactic| exact hcpost _ _ _)
set_option hygiene false in
macro_rules | `(tactic| pi_atom) => `(tactic| exact hnp _ _)
set_option hygiene false in
macro_rules | `(tactic| pi_atom) => `(tactic| exact hact _ _)
set_option hygiene false in
macro_rules | `(tactic| pi_atom) => `(tactic| exact herr _)
macro_rules | `(tactic| pi_atom) => `(tactic| exact PI.get)
macro_rules | `(tactic| pi_atom) => `(tactic| exact PI.set _)
macro_rules | `(tactic| pi_atom) => `(tactic| exact PI.modify _)
macro_rules | `(tactic| pi_atom) => `(tactic| exact PI.ask _ (fun h => Query.noConfusion h))

/-- walk through a program -/
macro "pi_walk" : tactic => `(tactic| repeat' (first
  | with_reducible exact PI.pure _
  | with_reducible refine PI.ite ?_ ?_
  | with_reducible pi_atom
  | with_reducible refine PI.bind ?_ (fun _ => ?_)
  | with_reducible refine PI.map ?_
  | with_reducible refine PI.forIn (fun _ _ => ?_) _ _
  | with_reducible exact PI.raise _
  | with_reducible exact PI.foreign _ _
  | with_reducible refine PI.loop (fun _ => ?_) _ _
  | split))

/-! ### readers -/

theorem pi_curIdx : PI curIdx := by unfold curIdx; pi_walk
theorem pi_tapeSource : PI tapeSource := by unfold tapeSource; pi_walk
theorem pi_tapeLine : PI tapeLine := by unfold tapeLine; pi_walk
theorem pi_tapeAdded : PI tapeAdded := by unfold tapeAdded; pi_walk
theorem pi_optStrict : PI optStrict := by unfold optStrict; pi_walk
macro_rules | `(tactic| pi_atom) => `(tactic| exact pi_curIdx)
macro_rules | `(tactic| pi_atom) => `(tactic| exact pi_tapeSource)
macro_rules | `(tactic| pi_atom) => `(tactic| exact pi_tapeLine)
macro_rules | `(tactic| pi_atom) => `(tactic| exact pi_tapeAdded)
macro_rules | `(tactic| pi_atom) => `(tactic| exact pi_optStrict)

theorem pi_nodePos (n : Node) : PI (nodePos n) := by unfold nodePos; pi_walk
macro_rules | `(tactic| pi_atom) => `(tactic| exact pi_nodePos _)

/-! ### tape access -/

theorem pi_getc (rqn : Bool) : PI (getc rqn) := by
  unfold getc; (try simp only []); pi_walk
macro_rules | `(tactic| pi_atom) => `(tactic| exact pi_getc _)

theorem pi_ungetc (c : Option Char) : PI (ungetc c) := by
  unfold ungetc; (try simp only []); pi_walk
macro_rules | `(tactic| pi_atom) => `(tactic| exact pi_ungetc _)

theorem pi_bumpIdx : PI bumpIdx := by
  unfold bumpIdx; (try simp only []); pi_walk
macro_rules | `(tactic| pi_atom) => `(tactic| exact pi_bumpIdx)

theorem pi_syn (c : Char) : PI (syn c) := PI.ask _ (by intro h; cases h)
macro_rules | `(tactic| pi_atom) => `(tactic| exact pi_syn _)

theorem pi_shellmeta (c : Char) : PI (shellmeta c) := by unfold shellmeta; pi_walk
theorem pi_shellquote (c : Char) : PI (shellquote c) := by unfold shellquote; pi_walk
theorem pi_shellexp (c : Char) : PI (shellexp c) := by unfold shellexp; pi_walk
theorem pi_shellbreak (c : Char) : PI (shellbreak c) := by unfold shellbreak; pi_walk
macro_rules | `(tactic| pi_atom) => `(tactic| exact pi_shellmeta _)
macro_rules | `(tactic| pi_atom) => `(tactic| exact pi_shellquote _)
macro_rules | `(tactic| pi_atom) => `(tactic| exact pi_shellexp _)
macro_rules | `(tactic| pi_atom) => `(tactic| exact pi_shellbreak _)

theorem pi_peekc (rqn : Bool) : PI (peekc rqn) := by
  unfold peekc; (try simp only []); pi_walk
macro_rules | `(tactic| pi_atom) => `(tactic| exact pi_peekc _)

theorem pi_recordpos (rel : Nat) : PI (recordpos rel) := by
  unfold recordpos; pi_walk
macro_rules | `(tactic| pi_atom) => `(tactic| exact pi_recordpos _)

theorem pi_matchedPairError {α : Type} (c : Char) : PI (matchedPairError c : M α) := by
  unfold matchedPairError; pi_walk
macro_rules | `(tactic| pi_atom) => `(tactic| exact pi_matchedPairError _)

theorem pi_loopFuel : PI loopFuel := PI.pure _
theorem pi_depthFuel : PI depthFuel := PI.pure _
macro_rules | `(tactic| pi_atom) => `(tactic| exact pi_loopFuel)
macro_rules | `(tactic| pi_atom) => `(tactic| exact pi_depthFuel)

/-! ### here-documents -/

theorem pi_readline (b : Bool) : PI (readline b) := by
  unfold readline; (try simp only []); pi_walk
macro_rules | `(tactic| pi_atom) => `(tactic| exact pi_readline _)

theorem pi_makeheredoc (id : Nat) (kill : Bool) : PI (makeheredoc id kill) := by
  unfold makeheredoc; (try simp only []); pi_walk
macro_rules | `(tactic| pi_atom) => `(tactic| exact pi_makeheredoc _ _)


theorem pi_gatherheredocuments : PI gatherheredocuments := by
  unfold gatherheredocuments; (try simp only []); pi_walk
macro_rules | `(tactic| pi_atom) => `(tactic| exact pi_gatherheredocuments)

/-! ### `_parse_matched_pair`, `_parse_comsub` -/

theorem pi_pushDelimiter (c : Char) : PI (pushDelimiter c) := by unfold pushDelimiter; pi_walk
theorem pi_popDelimiter : PI popDelimiter := by unfold popDelimiter; pi_walk
theorem pi_currentDelimiter : PI currentDelimiter := by unfold currentDelimiter; pi_walk
macro_rules | `(tactic| pi_atom) => `(tactic| exact pi_pushDelimiter _)
macro_rules | `(tactic| pi_atom) => `(tactic| exact pi_popDelimiter)
macro_rules | `(tactic| pi_atom) => `(tactic| exact pi_currentDelimiter)

theorem pi_mpInit (P : MPParams) : PI (mpInit P) := by
  unfold mpInit; (try simp only []); pi_walk
macro_rules | `(tactic| pi_atom) => `(tactic| exact pi_mpInit _)

theorem pi_mpPre (P : MPParams) (lfc : Bool) (st : MPState) : PI (mpPre P lfc st) := by
  unfold mpPre; (try simp only []); pi_walk
macro_rules | `(tactic| pi_atom) => `(tactic| exact pi_mpPre _ _ _)

theorem pi_handledollarword {pmp : MPParams → M Str} {pcs : CSParams → M Str}
    (hpmp : ∀ P, PI (pmp P)) (hpcs : ∀ P, PI (pcs P)) (P : MPParams) (rdquote : Bool) (c : Char) :
    PI (handledollarword pmp pcs P rdquote c) := by
  unfold handledollarword; (try simp only []); pi_walk

theorem pi_mpPost {pmp : MPParams → M Str} {pcs : CSParams → M Str}
    (hpmp : ∀ P, PI (pmp P)) (hpcs : ∀ P, PI (pcs P)) (P : MPParams) (rdquote : Bool)
    (st : MPState) (c : Char) : PI (mpPost pmp pcs P rdquote st c) := by
  have hd := pi_handledollarword hpmp hpcs
  unfold mpPost; (try simp only []); pi_walk

theorem pi_csDelimMatches (st : CSState) : PI (csDelimMatches st) := by
  unfold csDelimMatches; (try simp only []); pi_walk
macro_rules | `(tactic| pi_atom) => `(tactic| exact pi_csDelimMatches _)

theorem pi_csA (P : CSParams) (st : CSState) : PI (csA P st) := by
  unfold csA; (try simp only []); pi_walk
theorem pi_csB (b : Bool) (st : CSState) (c : Char) : PI (csB b st c) := by
  unfold csB; (try simp only []); pi_walk
theorem pi_csC (P : CSParams) (b : Bool) (st : CSState) (c : Char) : PI (csC P b st c) := by
  unfold csC; (try simp only []); pi_walk
theorem pi_csD (P : CSParams) (st : CSState) (c : Char) : PI (csD P st c) := by
  unfold csD; (try simp only []); pi_walk
macro_rules | `(tactic| pi_atom) => `(tactic| exact pi_csA _ _)
macro_rules | `(tactic| pi_atom) => `(tactic| exact pi_csB _ _ _)
macro_rules | `(tactic| pi_atom) => `(tactic| exact pi_csC _ _ _ _)
macro_rules | `(tactic| pi_atom) => `(tactic| exact pi_csD _ _ _)

theorem pi_csPre (P : CSParams) (b : Bool) (st : CSState) : PI (csPre P b st) := by
  unfold csPre; (try simp only []); pi_walk
macro_rules | `(tactic| pi_atom) => `(tactic| exact pi_csPre _ _ _)

theorem pi_csPost {pmp : MPParams → M Str} {pcs : CSParams → M Str}
    (hpmp : ∀ P, PI (pmp P)) (hpcs : ∀ P, PI (pcs P)) (P : CSParams)
    (st : CSState) (c : Char) : PI (csPost pmp pcs P st c) := by
  unfold csPost; (try simp only []); pi_walk

/-- the two mutually recursive scanners, by induction on the depth fuel -/
theorem pi_pmp_pcs : ∀ fuel, (∀ P, PI (parseMatchedPair fuel P)) ∧ (∀ P, PI (parseComsub fuel P)) := by
  intro fuel
  induction fuel with
  | zero =>
    refine ⟨fun P => ?_, fun P => ?_⟩
    · unfold parseMatchedPair; pi_walk
    · unfold parseComsub; pi_walk
  | succ fuel ih =>
    obtain ⟨hpmp, hpcs⟩ := ih
    have hpost := pi_mpPost hpmp hpcs
    have hcpost := pi_csPost hpmp hpcs
    refine ⟨fun P => ?_, fun P => ?_⟩
    · unfold parseMatchedPair; (try simp only []); pi_walk
    · unfold parseComsub; (try simp only []); pi_walk

theorem pi_parseMatchedPair (fuel : Nat) (P : MPParams) : PI (parseMatchedPair fuel P) :=
  (pi_pmp_pcs fuel).1 P
theorem pi_parseComsub (fuel : Nat) (P : CSParams) : PI (parseComsub fuel P) :=
  (pi_pmp_pcs fuel).2 P
macro_rules | `(tactic| pi_atom) => `(tactic| exact pi_parseMatchedPair _ _)
macro_rules | `(tactic| pi_atom) => `(tactic| exact pi_parseComsub _ _)

/-! ### tokens -/

theorem pi_createtoken (ty : TokType) (v : TVal) (flags : WordFlags) : PI (createtoken ty v flags) := by
  unfold createtoken; (try simp only []); pi_walk
macro_rules | `(tactic| pi_atom) => `(tactic| exact pi_createtoken _ _ _)

theorem pi_isAssignment (s : Str) : PI (isAssignment s) := by
  unfold isAssignment; (try simp only []); pi_walk
macro_rules | `(tactic| pi_atom) => `(tactic| exact pi_isAssignment _)

theorem pi_specialcasetokens (s : Str) : PI (specialcasetokens s) := by
  unfold specialcasetokens; (try simp only []); pi_walk
macro_rules | `(tactic| pi_atom) => `(tactic| exact pi_specialcasetokens _)

theorem pi_handleshellquote (st : RWState) (c : Char) : PI (handleshellquote st c) := by
  unfold handleshellquote; (try simp only []); pi_walk
macro_rules | `(tactic| pi_atom) => `(tactic| exact pi_handleshellquote _ _)

theorem pi_handleshellexp (st : RWState) (c : Char) (cd : Option Char) :
    PI (handleshellexp st c cd) := by
  unfold handleshellexp; (try simp only []); pi_walk
macro_rules | `(tactic| pi_atom) => `(tactic| exact pi_handleshellexp _ _ _)

theorem pi_readtokenwordStep (st : RWState) : PI (readtokenwordStep st) := by
  unfold readtokenwordStep; (try simp only []); pi_walk
macro_rules | `(tactic| pi_atom) => `(tactic| exact pi_readtokenwordStep _)

set_option maxHeartbeats 1000000 in
theorem pi_finishWord (st : RWState) : PI (finishWord st) := by
  unfold finishWord; (try simp only []); pi_walk
macro_rules | `(tactic| pi_atom) => `(tactic| exact pi_finishWord _)

theorem pi_readtokenword (c : Char) : PI (readtokenword c) := by
  unfold readtokenword; (try simp only []); pi_walk
macro_rules | `(tactic| pi_atom) => `(tactic| exact pi_readtokenword _)

theorem pi_discardUntil (c : Char) : PI (discardUntil c) := by
  unfold discardUntil; (try simp only []); pi_walk
macro_rules | `(tactic| pi_atom) => `(tactic| exact pi_discardUntil _)

theorem pi_tokentypeOfChar (c : Char) : PI (tokentypeOfChar c) := by
  unfold tokentypeOfChar; (try simp only []); pi_walk
macro_rules | `(tactic| pi_atom) => `(tactic| exact pi_tokentypeOfChar _)

theorem pi_readtokenMeta (c : Char) : PI (readtokenMeta c) := by
  unfold readtokenMeta; (try simp only []); pi_walk
macro_rules | `(tactic| pi_atom) => `(tactic| exact pi_readtokenMeta _)

theorem pi_readtoken : PI readtoken := by
  unfold readtoken; (try simp only []); pi_walk
macro_rules | `(tactic| pi_atom) => `(tactic| exact pi_readtoken)


theorem pi_nextToken : PI nextToken := by
  unfold nextToken; (try simp only []); pi_walk


/-! ### word expansion and actions (no nested parser involved) -/

theorem pi_adjustpositions (n : Node) (a b : Nat) : PI (adjustpositions n a b) := by
  unfold adjustpositions; (try simp only []); pi_walk
macro_rules | `(tactic| pi_atom) => `(tactic| exact pi_adjustpositions _ _ _)

theorem pi_partsspan (parts : List Node) : PI (partsspan parts) := by
  unfold partsspan; (try simp only []); pi_walk
macro_rules | `(tactic| pi_atom) => `(tactic| exact pi_partsspan _)

theorem pi_tokAt (p : PCtx) (i : Nat) : PI (p.tokAt i) := by
  unfold PCtx.tokAt; (try simp only []); pi_walk
macro_rules | `(tactic| pi_atom) => `(tactic| exact pi_tokAt _ _)

theorem pi_strAt (p : PCtx) (i : Nat) : PI (p.strAt i) := by
  unfold PCtx.strAt; (try simp only []); pi_walk
macro_rules | `(tactic| pi_atom) => `(tactic| exact pi_strAt _ _)

theorem pi_nodeAt (p : PCtx) (i : Nat) (s : String) : PI (p.nodeAt i s) := by
  unfold PCtx.nodeAt; (try simp only []); pi_walk
macro_rules | `(tactic| pi_atom) => `(tactic| exact pi_nodeAt _ _ _)

theorem pi_nodesAt (p : PCtx) (i : Nat) (s : String) : PI (p.nodesAt i s) := by
  unfold PCtx.nodesAt; (try simp only []); pi_walk
macro_rules | `(tactic| pi_atom) => `(tactic| exact pi_nodesAt _ _ _)

theorem pi_reservedAt (p : PCtx) (i : Nat) : PI (reservedAt p i) := by
  unfold reservedAt; (try simp only []); pi_walk
macro_rules | `(tactic| pi_atom) => `(tactic| exact pi_reservedAt _ _)

theorem pi_operatorAt (p : PCtx) (i : Nat) : PI (operatorAt p i) := by
  unfold operatorAt; (try simp only []); pi_walk
macro_rules | `(tactic| pi_atom) => `(tactic| exact pi_operatorAt _ _)

theorem pi_handleAssert (b : Bool) : PI (handleAssert b) := by
  unfold handleAssert; (try simp only []); pi_walk
macro_rules | `(tactic| pi_atom) => `(tactic| exact pi_handleAssert _)

theorem pi_addRedirects (n : Node) (reds : List Node) : PI (addRedirects n reds) := by
  unfold addRedirects; (try simp only []); pi_walk
macro_rules | `(tactic| pi_atom) => `(tactic| exact pi_addRedirects _ _)

theorem pi_mkCompound1 (inner : Span → List Node → Node) (parts : List Node) :
    PI (mkCompound1 inner parts) := by
  unfold mkCompound1; (try simp only []); pi_walk
macro_rules | `(tactic| pi_atom) => `(tactic| exact pi_mkCompound1 _ _)

theorem pi_joinLists (p : PCtx) (mk : Span → Str → Node) (s : String) :
    PI (joinLists p mk s) := by
  unfold joinLists; (try simp only []); pi_walk
macro_rules | `(tactic| pi_atom) => `(tactic| exact pi_joinLists _ _ _)

/-! ### word expansion and actions, given the nested parser -/

section
variable {np : NestedParse} (hnp : ∀ s b, PI (np s b))
include hnp

theorem pi_recursiveparse (base : Str) (i : Nat) (b : Bool) :
    PI (recursiveparse np base i b) := by
  unfold recursiveparse; (try simp only [])
  pi_walk
set_option hygiene false in
macro_rules | `(tactic| pi_atom) => `(tactic| exact pi_recursiveparse hnp _ _ _)

theorem pi_parsedolparen (base : Str) (i : Nat) :
    PI (parsedolparen np base i) := by
  unfold parsedolparen; (try simp only []); pi_walk
set_option hygiene false in
macro_rules | `(tactic| pi_atom) => `(tactic| exact pi_parsedolparen hnp _ _)

theorem pi_paramexpand (s : Str) (i : Nat) : PI (paramexpand np s i) := by
  unfold paramexpand; (try simp only []); pi_walk
set_option hygiene false in
macro_rules | `(tactic| pi_atom) => `(tactic| exact pi_paramexpand hnp _ _)

theorem pi_expandStep (tok : Token) (s : Str) (qd : Bool) (st : ExpSt) :
    PI (expandStep np tok s qd st) := by
  unfold expandStep; (try simp only []); pi_walk
set_option hygiene false in
macro_rules | `(tactic| pi_atom) => `(tactic| exact pi_expandStep hnp _ _ _ _)

theorem pi_expandwordinternal (tok : Token) (qd : Bool) :
    PI (expandwordinternal np tok qd) := by
  unfold expandwordinternal; (try simp only []); pi_walk
set_option hygiene false in
macro_rules | `(tactic| pi_atom) => `(tactic| exact pi_expandwordinternal hnp _ _)

theorem pi_expandword (tok : Token) : PI (expandword np tok) := by
  unfold expandword; (try simp only []); pi_walk
set_option hygiene false in
macro_rules | `(tactic| pi_atom) => `(tactic| exact pi_expandword hnp _)

theorem pi_makeparts (args : List SVal) :
    PI (makeparts ⟨np, args⟩) := by
  unfold makeparts; (try simp only []); pi_walk
set_option hygiene false in
macro_rules | `(tactic| pi_atom) => `(tactic| exact pi_makeparts hnp _)

theorem pi_handleNotImplemented (args : List SVal) (ty : String) :
    PI (handleNotImplemented ⟨np, args⟩ ty) := by
  have h1 := pi_makeparts hnp args
  unfold handleNotImplemented
  refine PI.optProceed_bind (fun b => ?_) (fun l e => ?_)
  · pi_walk
  · simp only [Bool.false_eq_true, if_false]
    exact ⟨ty, by rw [run_raise]⟩
set_option hygiene false in
macro_rules | `(tactic| pi_atom) => `(tactic| exact pi_handleNotImplemented hnp _ _)

set_option maxHeartbeats 2000000 in
theorem pi_actionCore (fname : String) (args : List SVal) : PI (actionCore np fname args) := by
  unfold actionCore
  simp only []
  split
  all_goals pi_walk

theorem pi_action (fname : String) (args : List SVal) : PI (action np fname args) := by
  unfold action; (try simp only [])
  refine PI.bind (pi_actionCore hnp _ _) (fun _ => ?_)
  pi_walk

end

end Bashlex.C17
