/-
  C12, part 1: the target predicate on trees (`TreeOK`: every schema violation of every node is
  a known one), its characterisation by children, and its invariance under the span-only tree
  transformations of the model (`mapPos`/`shift`, `resolve`).
-/
import Bashlex.Spec.Tree
import Bashlex.Model.Parse

namespace Bashlex.C12
open Bashlex Bashlex.Spec Bashlex.Node
set_option linter.unusedSimpArgs false

/-! ## known violations -/

/-- the signature `localSchemaViol` gives to a pipeline whose parts do not alternate -/
def pipeSig (ks : List String) : String := s!"pipeline-not-alternating:{ks}"

/-- signatures of genuine schema defects of bashlex (each with a witness input):
    * `"! ;"`     → `pipeline-not-alternating:[operator]`   (`BANG list_terminator`, terminator `;`)
    * `"!\n\n"`   → `pipeline-bang-without-command`          (`BANG list_terminator`, terminator newline)
    (`time ;` / `time` + newline give the same two with `proceedonerror`) -/
def C12_known : List String :=
  ["pipeline-bang-without-command", "pipeline-not-alternating:[operator]"]

/-- the open family of signatures of a *repeated* `!` (or `time`): the parts after the first `!`
    start with another `!`; witness `"! ! a"` → `pipeline-not-alternating:[reservedword, command]`,
    `"! ! ! a | b"` → `…:[reservedword, reservedword, command, pipe, command]`, … -/
def MultiBang (v : String) : Prop :=
  ∃ (b : Node) (r : List Node), isBang b = true ∧ v = pipeSig ((b :: r).map Node.kind)

def Known (v : String) : Prop := v ∈ C12_known ∨ MultiBang v

/-- a pending here-document redirect has a here-document operator as its type (needed when
    `resolve` attaches the body) -/
def hidOK : Node → Prop
  | .redirect _ _ ty _ _ _ (some _) => ty = ['<', '<'] ∨ ty = ['<', '<', '-']
  | _ => True

def IsPipelineNode (m : Node) : Prop := ∃ p ps, m = .pipeline p ps

/-- only pipeline nodes may violate their schema, and then only in the known ways -/
def ViolOK (m : Node) : Prop :=
  localSchemaViol m = [] ∨ (IsPipelineNode m ∧ ∀ v ∈ localSchemaViol m, Known v)

def LocalOK (m : Node) : Prop := ViolOK m ∧ hidOK m

theorem ViolOK.known {m : Node} (h : ViolOK m) : ∀ v ∈ localSchemaViol m, Known v := by
  rcases h with h | h
  · rw [h]; intro v hv; cases hv
  · exact h.2

/-- a non-pipeline node whose violations are among those of a conformant non-pipeline node -/
theorem violOK_of_sub {m m' : Node} (hm : ViolOK m) (hnp : ¬ IsPipelineNode m)
    (hsub : ∀ v, v ∈ localSchemaViol m' → v ∈ localSchemaViol m) : ViolOK m' := by
  rcases hm with h | h
  · left
    rw [h] at hsub
    exact List.eq_nil_iff_forall_not_mem.mpr (fun v hv => by cases hsub v hv)
  · exact absurd h.1 hnp

/-- every node of the tree conforms to the schema of its kind, up to known violations -/
def TreeOK (n : Node) : Prop := ∀ m ∈ n.preorder, LocalOK m

theorem schemaOK_of_treeOK {n : Node} (h : TreeOK n) : ∀ v ∈ schemaOK n, Known v := by
  intro v hv
  unfold schemaOK at hv
  simp only [Bool.false_eq_true, if_false] at hv
  obtain ⟨l, hl, hvl⟩ := List.mem_flatten.mp hv
  obtain ⟨m, hm, rfl⟩ := List.mem_map.mp hl
  exact (h m hm).1.known v hvl

/-! ## pre-order and children -/

theorem preorderL_append (a b : List Node) : preorderL (a ++ b) = preorderL a ++ preorderL b := by
  induction a with
  | nil => simp [preorderL]
  | cons x xs ih => simp [preorderL, ih, List.append_assoc]

theorem mem_preorderL {m : Node} {l : List Node} :
    m ∈ preorderL l ↔ ∃ c, c ∈ l ∧ m ∈ c.preorder := by
  induction l with
  | nil => simp [preorderL]
  | cons x xs ih =>
    simp only [preorderL, List.mem_append, ih, List.mem_cons]
    constructor
    · rintro (h | ⟨c, hc, hm⟩)
      · exact ⟨x, Or.inl rfl, h⟩
      · exact ⟨c, Or.inr hc, hm⟩
    · rintro ⟨c, (rfl | hc), hm⟩
      · exact Or.inl hm
      · exact Or.inr ⟨c, hc, hm⟩

theorem preorder_eq (n : Node) : n.preorder = n :: preorderL n.children := by
  cases n <;> simp [preorder, children, preorderL, preorderL_append]
  case redirect p i t o oa h hid =>
    cases o <;> cases h <;> simp [preorderO, preorderL]

theorem self_mem_preorder (n : Node) : n ∈ n.preorder := by
  rw [preorder_eq]; exact List.mem_cons_self

theorem treeOK_iff {n : Node} : TreeOK n ↔ LocalOK n ∧ ∀ c, c ∈ n.children → TreeOK c := by
  unfold TreeOK
  rw [preorder_eq]
  constructor
  · intro h
    refine ⟨h n List.mem_cons_self, fun c hc m hm => h m ?_⟩
    exact List.mem_cons_of_mem _ (mem_preorderL.mpr ⟨c, hc, hm⟩)
  · rintro ⟨h1, h2⟩ m hm
    rcases List.mem_cons.mp hm with rfl | hm
    · exact h1
    · obtain ⟨c, hc, hmc⟩ := mem_preorderL.mp hm
      exact h2 c hc m hmc

theorem TreeOK.local {n : Node} (h : TreeOK n) : LocalOK n := (treeOK_iff.mp h).1
theorem TreeOK.child {n c : Node} (h : TreeOK n) (hc : c ∈ n.children) : TreeOK c :=
  (treeOK_iff.mp h).2 c hc

/-! ## what a parent looks at in a child: `norm` -/

/-- a node stripped of everything `localSchemaViol` of its *parent* does not inspect -/
def norm : Node → Node
  | operator _ _ => operator (0, 0) []
  | reservedword _ w => reservedword (0, 0) w
  | pipe _ _ => pipe (0, 0) []
  | list _ _ => list (0, 0) []
  | pipeline _ _ => pipeline (0, 0) []
  | compound _ _ _ => compound (0, 0) [] []
  | ifN _ _ => ifN (0, 0) []
  | forN _ _ => forN (0, 0) []
  | whileN _ _ => whileN (0, 0) []
  | untilN _ _ => untilN (0, 0) []
  | caseN _ _ => caseN (0, 0) []
  | pattern _ _ => pattern (0, 0) []
  | command _ _ => command (0, 0) []
  | function _ _ _ _ => function (0, 0) 0 0 []
  | redirect _ _ _ _ _ _ _ => redirect (0, 0) .none [] none .none none none
  | word _ _ _ => word (0, 0) [] []
  | assignment _ _ _ => assignment (0, 0) [] []
  | parameter _ _ => parameter (0, 0) []
  | tilde _ _ => tilde (0, 0) []
  | heredoc _ _ => heredoc (0, 0) []
  | commandsubstitution _ _ => commandsubstitution (0, 0) (operator (0, 0) [])
  | processsubstitution _ _ => processsubstitution (0, 0) (operator (0, 0) [])
  | unimplemented _ _ => unimplemented (0, 0) []

/-- the node with its own span erased and its children replaced by their `norm` -/
def norm1 : Node → Node
  | operator _ a => operator (0, 0) a
  | reservedword _ a => reservedword (0, 0) a
  | pipe _ a => pipe (0, 0) a
  | list _ ps => list (0, 0) (ps.map norm)
  | pipeline _ ps => pipeline (0, 0) (ps.map norm)
  | compound _ l r => compound (0, 0) (l.map norm) (r.map norm)
  | ifN _ ps => ifN (0, 0) (ps.map norm)
  | forN _ ps => forN (0, 0) (ps.map norm)
  | whileN _ ps => whileN (0, 0) (ps.map norm)
  | untilN _ ps => untilN (0, 0) (ps.map norm)
  | caseN _ ps => caseN (0, 0) (ps.map norm)
  | pattern _ ps => pattern (0, 0) (ps.map norm)
  | command _ ps => command (0, 0) (ps.map norm)
  | function _ a b ps => function (0, 0) a b (ps.map norm)
  | redirect _ i t o oa h hid => redirect (0, 0) i t (o.map norm) oa (h.map norm) hid
  | word _ _ ps => word (0, 0) [] (ps.map norm)
  | assignment _ _ ps => assignment (0, 0) [] (ps.map norm)
  | parameter _ _ => parameter (0, 0) []
  | tilde _ _ => tilde (0, 0) []
  | heredoc _ _ => heredoc (0, 0) []
  | commandsubstitution _ c => commandsubstitution (0, 0) (norm c)
  | processsubstitution _ c => processsubstitution (0, 0) (norm c)
  | unimplemented _ ps => unimplemented (0, 0) (ps.map norm)

theorem all_norm {P : Node → Bool} (hP : ∀ a, P (norm a) = P a) (ps : List Node) :
    (ps.map norm).all P = ps.all P := by
  induction ps with
  | nil => rfl
  | cons a as ih => simp [List.all_cons, hP, ih]

theorem isCommandLike_norm (a : Node) : isCommandLike (norm a) = isCommandLike a := by
  cases a <;> rfl
theorem isOperator_norm (a : Node) : isOperator (norm a) = isOperator a := by cases a <;> rfl
theorem isPipe_norm (a : Node) : isPipe (norm a) = isPipe a := by cases a <;> rfl
theorem isBang_norm (a : Node) : isBang (norm a) = isBang a := by cases a <;> rfl
theorem kind_norm (a : Node) : (norm a).kind = a.kind := by cases a <;> rfl

theorem map_kind_norm (ps : List Node) : (ps.map norm).map Node.kind = ps.map Node.kind := by
  simp [List.map_map, Function.comp_def, kind_norm]

theorem alternates_norm {isSep : Node → Bool} (hS : ∀ a, isSep (norm a) = isSep a) (t : Bool) :
    ∀ ps : List Node, alternates isSep t (ps.map norm) = alternates isSep t ps
  | [] => rfl
  | [a] => by simp [alternates, isCommandLike_norm]
  | a :: b :: rest => by
    have ih := alternates_norm hS t rest
    simp only [List.map_cons, alternates, isCommandLike_norm, hS, ih]
    cases rest <;> simp

/-- `localSchemaViol` looks at a node's own attributes and at the `norm` of its children only -/
theorem localSchemaViol_norm1 (n : Node) : localSchemaViol (norm1 n) = localSchemaViol n := by
  cases n with
  | operator p a => rfl
  | reservedword p a => rfl
  | pipe p a => rfl
  | parameter p a => rfl
  | tilde p a => rfl
  | heredoc p a => rfl
  | list p ps =>
    simp only [norm1, localSchemaViol, alternates_norm isOperator_norm, List.length_map]
  | pipeline p ps =>
    cases ps with
    | nil => rfl
    | cons b rest =>
      simp only [norm1, List.map_cons, localSchemaViol, isBang_norm, List.isEmpty_map,
        alternates_norm isPipe_norm, map_kind_norm, List.length_cons, List.length_map]
      have h2 := alternates_norm isPipe_norm false (b :: rest)
      simp only [List.map_cons] at h2
      simp only [kind_norm, h2]
  | command p ps =>
    simp only [norm1, localSchemaViol, List.isEmpty_map]
    rw [all_norm (fun a => by cases a <;> rfl)]
  | compound p l r =>
    simp only [norm1, localSchemaViol, List.isEmpty_map]
    rw [all_norm (fun a => by cases a <;> rfl), all_norm (fun a => by cases a <;> rfl)]
  | ifN p ps =>
    simp only [norm1, localSchemaViol, List.isEmpty_map]
    rw [all_norm (fun a => by cases a <;> rfl)]; rfl
  | whileN p ps =>
    simp only [norm1, localSchemaViol, List.isEmpty_map]
    rw [all_norm (fun a => by cases a <;> rfl)]; rfl
  | untilN p ps =>
    simp only [norm1, localSchemaViol, List.isEmpty_map]
    rw [all_norm (fun a => by cases a <;> rfl)]; rfl
  | forN p ps =>
    simp only [norm1, localSchemaViol, List.isEmpty_map]
    rw [all_norm (fun a => by cases a <;> rfl)]
  | caseN p ps =>
    simp only [norm1, localSchemaViol, List.isEmpty_map]
    rw [all_norm (fun a => by cases a <;> rfl)]
  | pattern p ps =>
    simp only [norm1, localSchemaViol, List.isEmpty_map]
    rw [all_norm (fun a => by cases a <;> rfl)]
  | function p a b ps =>
    simp only [norm1, localSchemaViol, List.getElem?_map]
    rw [all_norm (fun a => by cases a <;> rfl)]
    congr 1
    congr 1
    · cases ps[a]? with
      | none => rfl
      | some x => cases x <;> rfl
    · cases ps[b]? with
      | none => rfl
      | some x => cases x <;> rfl
  | redirect p i t o oa h hid =>
    simp only [norm1, localSchemaViol]
    congr 1
    · congr 1
      cases o with
      | none => rfl
      | some a => cases a <;> cases oa <;> rfl
    · cases h with
      | none => rfl
      | some b => cases b <;> rfl
  | word p w ps =>
    simp only [norm1, localSchemaViol]
    rw [all_norm (fun a => by cases a <;> rfl)]
  | assignment p w ps =>
    simp only [norm1, localSchemaViol]
    rw [all_norm (fun a => by cases a <;> rfl)]
  | commandsubstitution p c =>
    simp only [norm1, localSchemaViol, isCommandLike_norm]
    cases c <;> rfl
  | processsubstitution p c =>
    simp only [norm1, localSchemaViol, isCommandLike_norm]
    cases c <;> rfl
  | unimplemented p ps =>
    simp only [norm1, localSchemaViol, List.isEmpty_map]

theorem hidOK_norm1 (n : Node) : hidOK (norm1 n) ↔ hidOK n := by
  cases n <;> simp [norm1, hidOK]
  case redirect p i t o oa h hid => cases hid <;> simp [hidOK]

theorem isPipelineNode_norm1 (n : Node) : IsPipelineNode (norm1 n) ↔ IsPipelineNode n := by
  unfold IsPipelineNode
  cases n <;> simp [norm1]

theorem localOK_norm1 (n : Node) : LocalOK (norm1 n) ↔ LocalOK n := by
  unfold LocalOK ViolOK; rw [localSchemaViol_norm1, hidOK_norm1, isPipelineNode_norm1]

theorem localOK_of_norm1_eq {n n' : Node} (h : norm1 n' = norm1 n) (hn : LocalOK n) : LocalOK n' := by
  rw [← localOK_norm1] at hn ⊢; rw [h]; exact hn

/-! ## `mapPos` / `shift` -/

theorem mapPosL_eq (f : Span → Span) (l : List Node) : mapPosL f l = l.map (mapPos f) := by
  induction l with
  | nil => simp [mapPosL]
  | cons a as ih => simp [mapPosL, ih]

theorem mapPosO_eq (f : Span → Span) (o : Option Node) : mapPosO f o = o.map (mapPos f) := by
  cases o <;> simp [mapPosO]

theorem norm_mapPos (f : Span → Span) (a : Node) : norm (mapPos f a) = norm a := by
  cases a <;> simp [mapPos, norm]

theorem norm1_mapPos (f : Span → Span) (n : Node) : norm1 (mapPos f n) = norm1 n := by
  cases n <;>
    simp [mapPos, norm1, mapPosL_eq, mapPosO_eq, List.map_map, Function.comp_def, norm_mapPos,
      Option.map_map]

mutual
theorem preorder_mapPos (f : Span → Span) :
    (n : Node) → (mapPos f n).preorder = n.preorder.map (mapPos f)
  | operator .. | reservedword .. | pipe .. | parameter .. | tilde .. | heredoc .. => by
    simp [mapPos, preorder]
  | list _ ps | pipeline _ ps | ifN _ ps | forN _ ps | whileN _ ps | untilN _ ps | caseN _ ps
  | pattern _ ps | command _ ps | unimplemented _ ps | function _ _ _ ps | word _ _ ps
  | assignment _ _ ps => by
    simp [mapPos, preorder, preorderL_mapPos f ps]
  | compound _ l r => by
    simp [mapPos, preorder, preorderL_mapPos f l, preorderL_mapPos f r]
  | redirect _ _ _ o _ h _ => by
    simp [mapPos, preorder, preorderO_mapPos f o, preorderO_mapPos f h]
  | commandsubstitution _ c | processsubstitution _ c => by
    simp [mapPos, preorder, preorder_mapPos f c]
theorem preorderL_mapPos (f : Span → Span) :
    (l : List Node) → preorderL (mapPosL f l) = (preorderL l).map (mapPos f)
  | [] => by simp [mapPosL, preorderL]
  | n :: ns => by simp [mapPosL, preorderL, preorder_mapPos f n, preorderL_mapPos f ns]
theorem preorderO_mapPos (f : Span → Span) :
    (o : Option Node) → preorderO (mapPosO f o) = (preorderO o).map (mapPos f)
  | none => by simp [mapPosO, preorderO]
  | some n => by simp [mapPosO, preorderO, preorder_mapPos f n]
end

theorem localOK_mapPos (f : Span → Span) {n : Node} (h : LocalOK n) : LocalOK (mapPos f n) :=
  localOK_of_norm1_eq (norm1_mapPos f n) h

theorem treeOK_mapPos (f : Span → Span) {n : Node} (h : TreeOK n) : TreeOK (mapPos f n) := by
  intro m hm
  rw [preorder_mapPos] at hm
  obtain ⟨m', hm', rfl⟩ := List.mem_map.mp hm
  exact localOK_mapPos f (h m' hm')

theorem treeOK_shift (k : Nat) {n : Node} (h : TreeOK n) : TreeOK (n.shift k) :=
  treeOK_mapPos _ h

theorem norm_shift (k : Nat) (n : Node) : norm (n.shift k) = norm n := norm_mapPos _ n

/-! ## `resolve` -/

theorem resolveL_eq (st : List RedirCell) (l : List Node) : resolveL st l = l.map (resolve st) := by
  induction l with
  | nil => simp [resolveL]
  | cons a as ih => simp [resolveL, ih]

theorem norm_resolve (st : List RedirCell) (a : Node) : norm (resolve st a) = norm a := by
  cases a with
  | redirect p i t o oa h hid =>
    cases hid with
    | none => simp [resolve, norm]
    | some id => simp only [resolve]; cases st[id]? <;> simp [norm]
  | _ => simp [resolve, norm]

theorem map_norm_resolveL (st : List RedirCell) (l : List Node) :
    (resolveL st l).map norm = l.map norm := by
  simp [resolveL_eq, List.map_map, Function.comp_def, norm_resolve]

/-- resolving a pending redirect keeps it conformant: the body is a `heredoc` node and the type
    is a here-document operator -/
theorem localOK_resolve_redirect (st : List RedirCell) {p i t o oa h hid}
    (hn : LocalOK (redirect p i t o oa h hid)) : LocalOK (resolve st (redirect p i t o oa h hid)) := by
  cases hid with
  | none => simpa [resolve] using hn
  | some id =>
    simp only [resolve]
    cases hc : st[id]? with
    | none =>
      simp only
      refine ⟨violOK_of_sub hn.1 (by rintro ⟨_, _, h⟩; cases h) ?_, trivial⟩
      intro v hv
      exact (by simpa [localSchemaViol] using hv)
    | some c =>
      simp only
      refine ⟨violOK_of_sub hn.1 (by rintro ⟨_, _, h⟩; cases h) ?_, trivial⟩
      have hty : t = ['<', '<'] ∨ t = ['<', '<', '-'] := hn.2
      intro v hv
      cases hh : c.heredoc with
      | none =>
        simp only [hh, Option.map_none, localSchemaViol, List.mem_append] at hv ⊢
        rcases hv with (hv | hv) | hv
        · exact Or.inl (Or.inl hv)
        · exact Or.inl (Or.inr hv)
        · simp at hv
      | some b =>
        simp only [hh, Option.map_some, localSchemaViol, List.mem_append] at hv ⊢
        rcases hv with (hv | hv) | hv
        · exact Or.inl (Or.inl hv)
        · exact Or.inl (Or.inr hv)
        · exfalso
          rcases hty with rfl | rfl <;> simp at hv

mutual
theorem treeOK_resolve (st : List RedirCell) : (n : Node) → TreeOK n → TreeOK (resolve st n)
  | list p ps, h | pipeline p ps, h | ifN p ps, h | forN p ps, h | whileN p ps, h
  | untilN p ps, h | caseN p ps, h | pattern p ps, h | command p ps, h | unimplemented p ps, h
  | function p _ _ ps, h => by
    rw [treeOK_iff] at h ⊢
    refine ⟨localOK_of_norm1_eq ?_ h.1, ?_⟩
    · simp [resolve, norm1, map_norm_resolveL]
    · simp only [resolve, children]
      exact treeOKL_resolve st ps h.2
  | compound p l r, h => by
    rw [treeOK_iff] at h ⊢
    refine ⟨localOK_of_norm1_eq ?_ h.1, ?_⟩
    · simp [resolve, norm1, map_norm_resolveL]
    · simp only [resolve, children, List.mem_append] at h ⊢
      rintro c (hc | hc)
      · exact treeOKL_resolve st l (fun c hc => h.2 c (Or.inl hc)) c hc
      · exact treeOKL_resolve st r (fun c hc => h.2 c (Or.inr hc)) c hc
  | redirect p i t o oa hd hid, h => by
    rw [treeOK_iff] at h ⊢
    refine ⟨localOK_resolve_redirect st h.1, ?_⟩
    intro c hc
    have hleaf : ∀ q v, TreeOK (heredoc q v) := by
      intro q v
      rw [treeOK_iff]
      exact ⟨⟨Or.inl (by simp [localSchemaViol]), trivial⟩, by simp [children]⟩
    cases hid with
    | none => exact h.2 c (by simpa [resolve] using hc)
    | some id =>
      simp only [resolve] at hc
      cases hs : st[id]? with
      | none => exact h.2 c (by simpa [hs, children] using hc)
      | some cell =>
        simp only [hs, children, List.mem_append, Option.mem_toList] at hc
        rcases hc with hc | hc
        · exact h.2 c (by simp [children, hc])
        · cases hh : cell.heredoc with
          | none => simp [hh] at hc
          | some b =>
            simp [hh] at hc
            subst hc
            exact hleaf _ _
  | operator .., h | reservedword .., h | pipe .., h | word .., h | assignment .., h
  | parameter .., h | tilde .., h | heredoc .., h | commandsubstitution .., h
  | processsubstitution .., h => by simpa [resolve] using h
theorem treeOKL_resolve (st : List RedirCell) :
    (l : List Node) → (∀ c, c ∈ l → TreeOK c) → ∀ c, c ∈ resolveL st l → TreeOK c
  | [], _ => by simp [resolveL]
  | n :: ns, h => by
    intro c hc
    simp only [resolveL, List.mem_cons] at hc
    rcases hc with rfl | hc
    · exact treeOK_resolve st n (h n List.mem_cons_self)
    · exact treeOKL_resolve st ns (fun c hc => h c (List.mem_cons_of_mem _ hc)) c hc
end

end Bashlex.C12
