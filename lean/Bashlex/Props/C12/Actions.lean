/-
  C12, part 4: soundness of the abstract type-checker `absAction` with respect to the semantic
  actions of the model.
-/
import Bashlex.Props.C12.Build

namespace Bashlex.C12
open Bashlex Bashlex.Spec Bashlex.Node Bashlex.M Bashlex.LR
set_option linter.unusedSimpArgs false
set_option linter.unusedVariables false

/-- what `expandword` returns -/
def WordOK (w : Node) : Prop := TreeOK w ∧ ∃ p s ps, w = .word p s ps

/-- the hypothesis on the nested parser, as seen through `expandword` (discharged in `Expand.lean`) -/
def WordSat (np : NestedParse) : Prop := ∀ t, Sat (expandword np t) WordOK

/-- post-condition of an action of result sort `σ` -/
def Post (σ : Srt) (r : SVal × Bool) : Prop := HasSort σ r.1 ∧ (r.2 = true → accSort σ = true)

theorem post_ret {σ : Srt} {v : SVal} (h : HasSort σ v) : Post σ (v, false) :=
  ⟨h, fun h => by cases h⟩

/-! ### inversion of `Forall2` -/

theorem forall2_nil {α β} {R : α → β → Prop} {l : List β} (h : Forall2 R [] l) : l = [] := by
  cases h; rfl

theorem forall2_cons {α β} {R : α → β → Prop} {a : α} {as : List α} {l : List β}
    (h : Forall2 R (a :: as) l) : ∃ b bs, l = b :: bs ∧ R a b ∧ Forall2 R as bs := by
  cases h with
  | cons h1 h2 => exact ⟨_, _, rfl, h1, h2⟩

theorem forall2_length {α β} {R : α → β → Prop} {l₁ : List α} {l₂ : List β}
    (h : Forall2 R l₁ l₂) : l₁.length = l₂.length := by
  induction h with
  | nil => rfl
  | cons _ _ ih => simp [ih]

theorem forall2_1 {α β} {R : α → β → Prop} {a : α} {l : List β} (h : Forall2 R [a] l) :
    ∃ b, l = [b] ∧ R a b := by
  obtain ⟨b, bs, rfl, h1, h2⟩ := forall2_cons h
  cases forall2_nil h2
  exact ⟨b, rfl, h1⟩

theorem forall2_2 {α β} {R : α → β → Prop} {a1 a2 : α} {l : List β} (h : Forall2 R [a1, a2] l) :
    ∃ b1 b2, l = [b1, b2] ∧ R a1 b1 ∧ R a2 b2 := by
  obtain ⟨b, bs, rfl, h1, h2⟩ := forall2_cons h
  obtain ⟨b', rfl, h3⟩ := forall2_1 h2
  exact ⟨b, b', rfl, h1, h3⟩

theorem forall2_3 {α β} {R : α → β → Prop} {a1 a2 a3 : α} {l : List β}
    (h : Forall2 R [a1, a2, a3] l) :
    ∃ b1 b2 b3, l = [b1, b2, b3] ∧ R a1 b1 ∧ R a2 b2 ∧ R a3 b3 := by
  obtain ⟨b, bs, rfl, h1, h2⟩ := forall2_cons h
  obtain ⟨b2, b3, rfl, h3, h4⟩ := forall2_2 h2
  exact ⟨b, b2, b3, rfl, h1, h3, h4⟩

theorem forall2_4 {α β} {R : α → β → Prop} {a1 a2 a3 a4 : α} {l : List β}
    (h : Forall2 R [a1, a2, a3, a4] l) :
    ∃ b1 b2 b3 b4, l = [b1, b2, b3, b4] ∧ R a1 b1 ∧ R a2 b2 ∧ R a3 b3 ∧ R a4 b4 := by
  obtain ⟨b, bs, rfl, h1, h2⟩ := forall2_cons h
  obtain ⟨b2, b3, b4, rfl, h3, h4, h5⟩ := forall2_3 h2
  exact ⟨b, b2, b3, b4, rfl, h1, h3, h4, h5⟩

theorem forall2_5 {α β} {R : α → β → Prop} {a1 a2 a3 a4 a5 : α} {l : List β}
    (h : Forall2 R [a1, a2, a3, a4, a5] l) :
    ∃ b1 b2 b3 b4 b5, l = [b1, b2, b3, b4, b5] ∧ R a1 b1 ∧ R a2 b2 ∧ R a3 b3 ∧ R a4 b4 ∧ R a5 b5 := by
  obtain ⟨b, bs, rfl, h1, h2⟩ := forall2_cons h
  obtain ⟨b2, b3, b4, b5, rfl, h3, h4, h5, h6⟩ := forall2_4 h2
  exact ⟨b, b2, b3, b4, b5, rfl, h1, h3, h4, h5, h6⟩

/-! ### tokens -/

theorem tok_str {t : Token} {ty : TokType} (hty : t.ttype = some ty) (hwf : TokWF t)
    (hr : resOK ty = true) :
    ∃ s, t.value = .str s ∧ s ≠ [] ∧ ∀ s', ty.strValueChars = some s' → s' = s :=
  (hwf ty hty).1 hr

theorem resOK_of_opIn_list {ty : TokType} (h : isListOp ty = true) : resOK ty = true := by
  cases ty <;> first | rfl | (exfalso; revert h; decide)
theorem resOK_of_opIn_pipe {ty : TokType} (h : isPipeOp ty = true) : resOK ty = true := by
  cases ty <;> first | rfl | (exfalso; revert h; decide)
theorem resOK_of_opIn_redir {ty : TokType} (h : isRedirOp ty = true) : resOK ty = true := by
  cases ty <;> first | rfl | (exfalso; revert h; decide)

theorem tok_op {ops : List Str} {t : Token} {ty : TokType} (hty : t.ttype = some ty)
    (hwf : TokWF t) (hr : resOK ty = true) (hop : opIn ops ty = true) :
    ops.contains t.valueStr = true := by
  obtain ⟨s, hv, _, hs⟩ := tok_str hty hwf hr
  unfold opIn at hop
  cases hsv : ty.strValueChars with
  | none => simp [hsv] at hop
  | some s' =>
    simp only [hsv] at hop
    have := hs s' hsv
    subst this
    simpa [Token.valueStr, hv] using hop

theorem tok_valueStr_ne {t : Token} {ty : TokType} (hty : t.ttype = some ty) (hwf : TokWF t)
    (hr : resOK ty = true) : t.valueStr ≠ [] := by
  obtain ⟨s, hv, hne, _⟩ := tok_str hty hwf hr
  simpa [Token.valueStr, hv] using hne

theorem tok_tvalStr_ne {t : Token} {ty : TokType} (hty : t.ttype = some ty) (hwf : TokWF t)
    (hr : resOK ty = true) : tvalStr t.value ≠ [] := by
  obtain ⟨s, hv, hne, _⟩ := tok_str hty hwf hr
  simpa [tvalStr, hv] using hne

/-! ### helpers of the actions -/

theorem sat_partsspan (parts : List Node) : Sat (partsspan parts) (fun _ => parts ≠ []) := by
  cases parts with
  | nil => exact Sat.foreign trivial
  | cons a l => exact (Sat.trivial _).weaken (fun _ _ => by simp) (fun _ h => h)

theorem sat_handleAssert (b : Bool) : Sat (handleAssert b) (fun _ => b = true) := by
  unfold handleAssert
  split
  · exact Sat.pure ‹_›
  · exact Sat.foreign trivial

/-! ### the simplest actions -/

theorem sound_empty {np args} : Sat (actionCore np "p_empty" args) (Post .none) := by
  unfold actionCore; simp only []
  exact Sat.pure (post_ret rfl)

theorem sound_newline_list {np args} : Sat (actionCore np "p_newline_list" args) (Post .none) := by
  unfold actionCore; simp only []
  exact Sat.pure (post_ret rfl)

theorem sound_simple_list_terminator {np args} :
    Sat (actionCore np "p_simple_list_terminator" args) (Post .none) := by
  unfold actionCore; simp only []
  exact Sat.pure (post_ret rfl)

theorem sound_list_terminator {np args} :
    Sat (actionCore np "p_list_terminator" args) (Post (.optNode .semiOp)) := by
  unfold actionCore; simp only []
  split
  · split
    · exact Sat.pure (post_ret (Or.inr ⟨_, rfl, _, rfl⟩))
    · exact Sat.pure (post_ret (Or.inl rfl))
  · exact Sat.pure (post_ret (Or.inl rfl))

theorem wordOK_words {w : Node} (h : WordOK w) : TreeOK w ∧ isWordN w = true := by
  obtain ⟨h1, p, s, ps, rfl⟩ := h
  exact ⟨h1, rfl⟩

theorem sound_inputunit {np sorts args σ} (h : absAction "p_inputunit" sorts = some σ)
    (ha : Forall2 HasSort sorts args) : Sat (actionCore np "p_inputunit" args) (Post σ) := by
  unfold absAction at h; simp only [] at h
  have key : σ = .optNode .top ∧ ∀ n, PCtx.slice ⟨np, args⟩ 1 = .node n → InCls .top n := by
    cases ha with
    | nil =>
      simp at h
      exact ⟨h.symm, fun n hn => by simp [PCtx.slice] at hn⟩
    | @cons s a ss as h1 h2 =>
      simp only [List.head?_cons] at h
      cases s with
      | none => cases h; exact ⟨rfl, fun n hn => by simp [PCtx.slice] at hn; rw [h1] at hn; cases hn⟩
      | tok ty =>
        cases h; obtain ⟨t, rfl, _⟩ := h1
        exact ⟨rfl, fun n hn => by simp [PCtx.slice] at hn⟩
      | nodes k =>
        cases h; obtain ⟨t, rfl, _⟩ := h1
        exact ⟨rfl, fun n hn => by simp [PCtx.slice] at hn⟩
      | node c =>
        simp only at h
        split at h
        · rename_i hle
          cases h; obtain ⟨m, rfl, hm⟩ := h1
          exact ⟨rfl, fun n hn => by simp [PCtx.slice] at hn; subst hn; exact hm.le_sound hle⟩
        · cases h
      | optNode c =>
        simp only at h
        split at h
        · rename_i hle
          cases h
          refine ⟨rfl, fun n hn => ?_⟩
          simp [PCtx.slice] at hn
          rcases h1 with rfl | ⟨m, rfl, hm⟩
          · cases hn
          · cases hn; exact hm.le_sound hle
        · cases h
  obtain ⟨rfl, hnode⟩ := key
  unfold actionCore; simp only []
  refine Sat.bind_any (fun l => ?_)
  have hm : Sat (match PCtx.slice ⟨np, args⟩ 1 with
      | .node n => (pure (SVal.node n, true) : M (SVal × Bool))
      | _ => pure (SVal.none, false)) (Post (.optNode .top)) := by
    split
    · rename_i n hn
      exact Sat.pure ⟨Or.inr ⟨n, rfl, hnode n hn⟩, fun _ => rfl⟩
    · exact Sat.pure (post_ret (Or.inl rfl))
  split
  · exact Sat.bind_any (fun _ => hm)
  · exact hm

theorem sound_word_list {np sorts args σ} (hW : WordSat np) (h : absAction "p_word_list" sorts = some σ)
    (ha : Forall2 HasSort sorts args) : Sat (actionCore np "p_word_list" args) (Post σ) := by
  unfold absAction at h; simp only [] at h
  split at h
  · cases h
    obtain ⟨a, rfl, ⟨t, rfl, -, -⟩⟩ := forall2_1 ha
    unfold actionCore; simp only []
    simp [PCtx.len, PCtx.tokAt, PCtx.slice]
    refine Sat.map ((hW t).weaken (fun w hw => post_ret ⟨_, rfl, ?_⟩) (fun _ h => h))
    intro n hn; simp at hn; subst hn; exact wordOK_words hw
  · cases h
    obtain ⟨a, b, rfl, ⟨l, rfl, hl⟩, ⟨t, rfl, -, -⟩⟩ := forall2_2 ha
    unfold actionCore; simp only []
    simp [PCtx.len, PCtx.tokAt, PCtx.slice, PCtx.nodesAt]
    refine Sat.map ((hW t).weaken (fun w hw => post_ret ⟨_, rfl, ?_⟩) (fun _ h => h))
    intro n hn
    simp at hn
    rcases hn with hn | rfl
    · exact hl n hn
    · exact wordOK_words hw
  · cases h

theorem sound_redirection_list {np sorts args σ} (h : absAction "p_redirection_list" sorts = some σ)
    (ha : Forall2 HasSort sorts args) : Sat (actionCore np "p_redirection_list" args) (Post σ) := by
  unfold absAction at h; simp only [] at h
  split at h
  · cases h
    obtain ⟨a, rfl, ⟨n, rfl, hn⟩⟩ := forall2_1 ha
    unfold actionCore; simp only []
    simp [PCtx.len, PCtx.nodeAt, PCtx.slice]
    refine Sat.pure (post_ret ⟨_, rfl, ?_⟩)
    intro m hm; simp at hm; subst hm; exact hn
  · cases h
    obtain ⟨a, b, rfl, ⟨l, rfl, hl⟩, ⟨n, rfl, hn⟩⟩ := forall2_2 ha
    unfold actionCore; simp only []
    simp [PCtx.len, PCtx.nodeAt, PCtx.slice, PCtx.nodesAt]
    refine Sat.pure (post_ret ⟨_, rfl, ?_⟩)
    intro m hm
    simp at hm
    rcases hm with hm | rfl
    · exact hl m hm
    · exact hn
  · cases h

theorem sound_simple_command {np sorts args σ} (h : absAction "p_simple_command" sorts = some σ)
    (ha : Forall2 HasSort sorts args) : Sat (actionCore np "p_simple_command" args) (Post σ) := by
  unfold absAction at h; simp only [] at h
  split at h
  · cases h
    obtain ⟨a, rfl, ⟨l, rfl, hl⟩⟩ := forall2_1 ha
    unfold actionCore; simp only []
    simp [PCtx.len, PCtx.slice]
    exact Sat.pure (post_ret ⟨_, rfl, hl⟩)
  · cases h
    obtain ⟨a, b, rfl, ⟨l, rfl, hl⟩, ⟨r, rfl, hr⟩⟩ := forall2_2 ha
    unfold actionCore; simp only []
    simp [PCtx.len, PCtx.slice, PCtx.nodesAt]
    refine Sat.pure (post_ret ⟨_, rfl, ?_, ?_⟩)
    · simp [hl.1]
    · intro m hm
      simp at hm
      rcases hm with hm | hm
      · exact hl.2 m hm
      · exact hr.2 m hm
  · cases h

theorem tok_here {t : Token} {ty : TokType} (hty : t.ttype = some ty) (hwf : TokWF t)
    (h : isHereOp ty = true) : t.valueStr = ['<', '<'] ∨ t.valueStr = ['<', '<', '-'] := by
  have hr : resOK ty = true := by
    cases ty <;> first | rfl | (exfalso; revert h; decide)
  obtain ⟨s, hv, _, hs⟩ := tok_str hty hwf hr
  simp only [Token.valueStr, hv]
  cases ty <;> first | (exfalso; revert h; decide) | (left; exact (hs _ rfl).symm) | (right; exact (hs _ rfl).symm)

/-- `RedirIn` of a token value, as the redirection actions compute it -/
theorem redirIn_ok {t : Token} {ty : TokType} (hty : t.ttype = some ty) (hwf : TokWF t)
    (h : (ty == .NUMBER || ty == .REDIR_WORD) = true) :
    ∀ s, (match t.value with | .int k => RedirIn.num k | .str s => .str s | .none => .none) = .str s →
      s ≠ [] := by
  intro s hs
  simp only [Bool.or_eq_true, beq_iff_eq] at h
  rcases h with rfl | rfl
  · obtain ⟨k, hk⟩ := (hwf _ hty).2 rfl
    rw [hk] at hs; cases hs
  · obtain ⟨s', hv, hne, _⟩ := tok_str hty hwf rfl
    rw [hv] at hs; cases hs; exact hne

theorem tk_plainword {p w} : TreeOK (.word p w []) := tk_word (by simp)

theorem okTok_inv {f : TokType → Bool} {s : Srt} {a : SVal} (h : okTok f s = true)
    (ha : HasSort s a) : ∃ t ty, a = .tok t ∧ t.ttype = some ty ∧ TokWF t ∧ f ty = true := by
  cases s with
  | tok ty =>
    cases ty with
    | none => simp [okTok] at h
    | some ty =>
      obtain ⟨t, rfl, hty, hwf⟩ := ha
      exact ⟨t, ty, rfl, hty, hwf, h⟩
  | _ => simp [okTok] at h

theorem redirOps_here {s : Str} (h : s = ['<', '<'] ∨ s = ['<', '<', '-']) :
    redirOps.contains s = true := by
  rcases h with rfl | rfl <;> decide

theorem sound_redirection_heredoc {np sorts args σ}
    (h : absAction "p_redirection_heredoc" sorts = some σ)
    (ha : Forall2 HasSort sorts args) : Sat (actionCore np "p_redirection_heredoc" args) (Post σ) := by
  unfold absAction at h; simp only [] at h
  split at h
  · split at h
    · rename_i hop
      cases h
      obtain ⟨a, b, rfl, hop', ⟨w, rfl, -, -⟩⟩ := forall2_2 ha
      obtain ⟨t, ty, rfl, hty, hwf, hf⟩ := okTok_inv hop hop'
      have hh := tok_here hty hwf hf
      unfold actionCore; simp only []
      simp [PCtx.len, PCtx.tokAt, PCtx.slice, PCtx.strAt]
      refine Sat.bind_any (fun l => Sat.map ((Sat.trivial _).weaken
        (fun _ _ => post_ret ⟨_, rfl, ?_, rfl⟩) (fun _ h => h)))
      exact tk_redirect (redirOps_here hh) (fun s hs => by cases hs)
        (Or.inl ⟨_, rfl, rfl, tk_plainword, rfl⟩) (fun _ => hh)
    · cases h
  · split at h
    · rename_i hop
      cases h
      simp only [Bool.and_eq_true] at hop
      obtain ⟨a, b, c, rfl, hin', hop', ⟨w, rfl, -, -⟩⟩ := forall2_3 ha
      obtain ⟨t, ty, rfl, hty, hwf, hf⟩ := okTok_inv hop.2 hop'
      obtain ⟨ti, tyi, rfl, htyi, hwfi, hfi⟩ := okTok_inv hop.1 hin'
      have hh := tok_here hty hwf hf
      have hi := redirIn_ok htyi hwfi hfi
      unfold actionCore; simp only []
      simp [PCtx.len, PCtx.tokAt, PCtx.slice, PCtx.strAt]
      refine Sat.bind_any (fun l => Sat.map ((Sat.trivial _).weaken
        (fun _ _ => post_ret ⟨_, rfl, ?_, rfl⟩) (fun _ h => h)))
      exact tk_redirect (redirOps_here hh) hi
        (Or.inl ⟨_, rfl, rfl, tk_plainword, rfl⟩) (fun _ => hh)
    · cases h
  · cases h

theorem out_ok {t : Token} {ty : TokType} (hty : t.ttype = some ty) (hwf : TokWF t)
    (h : ty = .NUMBER ∨ ty = .DASH) :
    (∃ k, (match t.value with | .int k => RedirIn.num k | .str s => .str s | .none => .none) = .num k) ∨
    (match t.value with | .int k => RedirIn.num k | .str s => .str s | .none => .none) = .str ['-'] := by
  rcases h with rfl | rfl
  · obtain ⟨k, hk⟩ := (hwf _ hty).2 rfl
    rw [hk]; exact Or.inl ⟨k, rfl⟩
  · obtain ⟨s', hv, _, hs⟩ := tok_str hty hwf rfl
    rw [hv]; right
    have := hs ['-'] rfl
    subst this; rfl

theorem not_word_of_out {o : Token} {tyo : TokType} (htyo : o.ttype = some tyo)
    (hfo : (tyo == TokType.WORD || tyo == TokType.NUMBER || tyo == TokType.DASH) = true)
    (hw : ¬ o.is .WORD = true) : tyo = .NUMBER ∨ tyo = .DASH := by
  simp only [Bool.or_eq_true, beq_iff_eq] at hfo
  rcases hfo with (rfl | h) | h
  · exact absurd (by simp [Token.is, htyo]) hw
  · exact Or.inl h
  · exact Or.inr h

theorem sound_redirection {np sorts args σ} (hW : WordSat np)
    (h : absAction "p_redirection" sorts = some σ)
    (ha : Forall2 HasSort sorts args) : Sat (actionCore np "p_redirection" args) (Post σ) := by
  unfold absAction at h; simp only [] at h
  split at h
  · split at h
    · rename_i hop
      cases h
      simp only [Bool.and_eq_true] at hop
      obtain ⟨a, b, rfl, hop', ho'⟩ := forall2_2 ha
      obtain ⟨t, ty, rfl, hty, hwf, hf⟩ := okTok_inv hop.1 hop'
      obtain ⟨o, tyo, rfl, htyo, hwfo, hfo⟩ := okTok_inv hop.2 ho'
      have hops := tok_op hty hwf (resOK_of_opIn_redir hf) hf
      unfold actionCore; simp only []
      simp [PCtx.len, PCtx.tokAt, PCtx.slice, PCtx.strAt]
      split
      · refine Sat.map ((hW o).weaken (fun w hw => post_ret ⟨_, rfl, ?_, rfl⟩) (fun _ h => h))
        exact tk_redirect hops (fun s hs => by cases hs)
          (Or.inl ⟨_, rfl, (wordOK_words hw).2, hw.1, rfl⟩) (fun h => absurd rfl h)
      · rename_i hw
        refine Sat.pure (post_ret ⟨_, rfl, ?_, rfl⟩)
        exact tk_redirect hops (fun s hs => by cases hs)
          (Or.inr ⟨rfl, out_ok htyo hwfo (not_word_of_out htyo hfo hw)⟩) (fun h => absurd rfl h)
    · cases h
  · split at h
    · rename_i hop
      cases h
      simp only [Bool.and_eq_true] at hop
      obtain ⟨a, b, c, rfl, hin', hop', ho'⟩ := forall2_3 ha
      obtain ⟨ti, tyi, rfl, htyi, hwfi, hfi⟩ := okTok_inv hop.1.1 hin'
      obtain ⟨t, ty, rfl, hty, hwf, hf⟩ := okTok_inv hop.1.2 hop'
      obtain ⟨o, tyo, rfl, htyo, hwfo, hfo⟩ := okTok_inv hop.2 ho'
      have hops := tok_op hty hwf (resOK_of_opIn_redir hf) hf
      have hi := redirIn_ok htyi hwfi hfi
      unfold actionCore; simp only []
      simp [PCtx.len, PCtx.tokAt, PCtx.slice, PCtx.strAt]
      split
      · refine Sat.map ((hW o).weaken (fun w hw => post_ret ⟨_, rfl, ?_, rfl⟩) (fun _ h => h))
        exact tk_redirect hops hi
          (Or.inl ⟨_, rfl, (wordOK_words hw).2, hw.1, rfl⟩) (fun h => absurd rfl h)
      · rename_i hw
        refine Sat.pure (post_ret ⟨_, rfl, ?_, rfl⟩)
        exact tk_redirect hops hi
          (Or.inr ⟨rfl, out_ok htyo hwfo (not_word_of_out htyo hfo hw)⟩) (fun h => absurd rfl h)
    · cases h
  · cases h

theorem tk_assignment_of_word {p s ps} (h : TreeOK (.word p s ps)) : TreeOK (.assignment p s ps) := by
  rw [treeOK_iff] at h ⊢
  exact ⟨⟨violOK_of_sub h.1.1 (by rintro ⟨_, _, h⟩; cases h) (fun v hv => hv), trivial⟩, h.2⟩

theorem sound_simple_command_element {np sorts args σ} (hW : WordSat np)
    (h : absAction "p_simple_command_element" sorts = some σ)
    (ha : Forall2 HasSort sorts args) :
    Sat (actionCore np "p_simple_command_element" args) (Post σ) := by
  unfold absAction at h; simp only [] at h
  split at h
  · cases h
    obtain ⟨a, rfl, ⟨n, rfl, hn⟩⟩ := forall2_1 ha
    unfold actionCore; simp only []
    simp [PCtx.len, PCtx.slice]
    refine Sat.pure (post_ret ⟨_, rfl, by simp, ?_⟩)
    intro m hm; simp at hm; subst hm
    exact ⟨hn.1, by have := hn.2; cases m <;> simp_all [isRedirect, isCmdPart]⟩
  · cases h
    obtain ⟨a, rfl, ⟨t, rfl, -, -⟩⟩ := forall2_1 ha
    unfold actionCore; simp only []
    simp [PCtx.len, PCtx.slice, PCtx.tokAt]
    refine Sat.bind (hW t) ?_
    intro w hw
    obtain ⟨hw1, p, s, ps, rfl⟩ := hw
    have hword : Post (Srt.nodes LCls.cmdparts) (SVal.nodes [word p s ps], false) :=
      post_ret ⟨_, rfl, by simp, fun m hm => by simp at hm; subst hm; exact ⟨hw1, rfl⟩⟩
    split
    · refine Sat.pure (post_ret ⟨_, rfl, by simp, fun m hm => ?_⟩)
      simp at hm; subst hm
      exact ⟨tk_assignment_of_word hw1, rfl⟩
    · exact Sat.pure hword
  · cases h

theorem all_append_of {F : Node → Bool} {r reds : List Node} (h : ∀ c, c ∈ reds → F c = true) :
    (r ++ reds).all F = r.all F := by
  rw [List.all_append, List.all_eq_true.mpr h, Bool.and_true]

theorem tk_compound_addRedirects {p p' l r reds} (h : TreeOK (.compound p l r))
    (hr : ∀ m, m ∈ reds → TreeOK m ∧ isRedirect m = true) : TreeOK (.compound p' l (r ++ reds)) := by
  rw [treeOK_iff] at h ⊢
  refine ⟨⟨violOK_of_sub h.1.1 (by rintro ⟨_, _, h⟩; cases h) ?_, trivial⟩, ?_⟩
  · intro v hv
    simp only [localSchemaViol] at hv ⊢
    rw [all_append_of] at hv
    · exact hv
    · intro c hc
      have := (hr c hc).2
      cases c <;> simp_all [isRedirect]
  · intro c hc
    simp only [children, List.mem_append] at hc
    rcases hc with hc | hc | hc
    · exact h.2 c (by simp [children, hc])
    · exact h.2 c (by simp [children, hc])
    · exact (hr c hc).1

theorem sat_addRedirects {n : Node} {reds : List Node} (hn : TreeOK n)
    (hr : ∀ m, m ∈ reds → TreeOK m ∧ isRedirect m = true) :
    Sat (addRedirects n reds) (fun r => InCls .compound r) := by
  unfold addRedirects
  refine Sat.bind_any (fun _ => ?_)
  split
  · simp only []
    split
    · exact Sat.foreign trivial
    · refine Sat.bind_any (fun _ => Sat.bind_any (fun _ => Sat.pure ?_))
      exact ⟨tk_compound_addRedirects hn hr, rfl⟩
  · exact Sat.foreign trivial

theorem sound_command {np sorts args σ} (h : absAction "p_command" sorts = some σ)
    (ha : Forall2 HasSort sorts args) : Sat (actionCore np "p_command" args) (Post σ) := by
  unfold absAction at h; simp only [] at h
  split at h
  · split at h
    · rename_i hle
      cases h
      obtain ⟨a, rfl, ⟨n, rfl, hn⟩⟩ := forall2_1 ha
      unfold actionCore; simp only []
      simp [PCtx.len, PCtx.slice]
      exact Sat.pure (post_ret ⟨_, rfl, hn.le_sound hle⟩)
    · cases h
  · cases h
    obtain ⟨a, b, rfl, ⟨n, rfl, hn⟩, ⟨l, rfl, hl⟩⟩ := forall2_2 ha
    unfold actionCore; simp only []
    simp [PCtx.len, PCtx.slice, PCtx.nodesAt]
    refine Sat.map ((sat_addRedirects hn.tree hl).weaken (fun r hr => post_ret ⟨_, rfl, ?_⟩) (fun _ h => h))
    exact hr.le_sound rfl
  · cases h
    obtain ⟨a, rfl, ⟨l, rfl, hl⟩⟩ := forall2_1 ha
    unfold actionCore; simp only []
    simp [PCtx.len, PCtx.slice, PCtx.nodesAt]
    refine Sat.map ((sat_partsspan l).weaken (fun r hr => post_ret ⟨_, rfl, ?_, ?_⟩) (fun _ h => h))
    · exact tk_command hl.1 hl.2
    · exact ⟨rfl, rfl⟩
  · cases h

theorem sound_function_body {np sorts args σ} (h : absAction "p_function_body" sorts = some σ)
    (ha : Forall2 HasSort sorts args) : Sat (actionCore np "p_function_body" args) (Post σ) := by
  unfold absAction at h; simp only [] at h
  split at h
  · cases h
    obtain ⟨a, rfl, ⟨n, rfl, hn⟩⟩ := forall2_1 ha
    unfold actionCore; simp only []
    simp [PCtx.len, PCtx.slice, PCtx.nodeAt]
    refine Sat.map ((sat_handleAssert _).weaken (fun _ hc => post_ret ⟨_, rfl, hn.tree, hc⟩) (fun _ h => h))
  · cases h
    obtain ⟨a, b, rfl, ⟨n, rfl, hn⟩, ⟨l, rfl, hl⟩⟩ := forall2_2 ha
    unfold actionCore; simp only []
    simp [PCtx.len, PCtx.slice, PCtx.nodesAt, PCtx.nodeAt]
    refine Sat.bind_any (fun _ => ?_)
    exact Sat.map ((sat_addRedirects hn.tree hl).weaken (fun r hr => post_ret ⟨_, rfl, hr⟩) (fun _ h => h))
  · cases h

theorem top_compElem {n : Node} (h : InCls .top n) : TreeOK n ∧ compElem n = true := by
  refine ⟨h.1, ?_⟩
  rcases h.2 with h | h <;> cases n <;> simp_all [compElem, isCommandLike, isListN]

theorem resword_compElem {p w} (h : w ≠ []) :
    TreeOK (.reservedword p w) ∧ compElem (.reservedword p w) = true := ⟨tk_reservedword h, rfl⟩

theorem absGroup_inv {sorts args σ} (h : absGroup sorts = some σ)
    (ha : Forall2 HasSort sorts args) :
    σ = .node .compound ∧ ∃ tl n tr, args = [.tok tl, .node n, .tok tr] ∧ InCls .top n ∧
      tl.valueStr ≠ [] ∧ tr.valueStr ≠ [] := by
  unfold absGroup at h
  split at h
  · split at h
    · rename_i hc
      cases h
      simp only [Bool.and_eq_true] at hc
      obtain ⟨a, b, c, rfl, hl, ⟨n, rfl, hn⟩, hr⟩ := forall2_3 ha
      obtain ⟨tl, tyl, rfl, htyl, hwfl, hfl⟩ := okTok_inv hc.1.1 hl
      obtain ⟨tr, tyr, rfl, htyr, hwfr, hfr⟩ := okTok_inv hc.2 hr
      exact ⟨rfl, tl, n, tr, rfl, hn.le_sound hc.1.2, tok_valueStr_ne htyl hwfl hfl,
        tok_valueStr_ne htyr hwfr hfr⟩
    · cases h
  · cases h

theorem sat_group {tl tr : Token} {n : Node} {p1 p3 : Span} (hn : InCls .top n)
    (hl : tl.valueStr ≠ []) (hr : tr.valueStr ≠ []) :
    Sat ((fun a => (SVal.node (compound a [reservedword p1 tl.valueStr, n, reservedword p3 tr.valueStr] []), false))
      <$> partsspan [reservedword p1 tl.valueStr, n, reservedword p3 tr.valueStr]) (Post (.node .compound)) := by
  refine Sat.map ((Sat.trivial _).weaken (fun r _ => post_ret ⟨_, rfl, ?_, rfl⟩) (fun _ h => h))
  refine tk_compound (by simp) ?_ (by simp)
  intro c hc
  simp at hc
  rcases hc with rfl | rfl | rfl
  · exact resword_compElem hl
  · exact top_compElem hn
  · exact resword_compElem hr

theorem sound_subshell {np sorts args σ} (h : absAction "p_subshell" sorts = some σ)
    (ha : Forall2 HasSort sorts args) : Sat (actionCore np "p_subshell" args) (Post σ) := by
  unfold absAction at h; simp only [] at h
  obtain ⟨rfl, tl, n, tr, rfl, hn, hl, hr⟩ := absGroup_inv h ha
  unfold actionCore; simp only []
  simp [PCtx.len, PCtx.slice, PCtx.nodeAt, reservedAt, PCtx.strAt, PCtx.tokAt]
  exact sat_group hn hl hr

theorem sound_group_command {np sorts args σ} (h : absAction "p_group_command" sorts = some σ)
    (ha : Forall2 HasSort sorts args) : Sat (actionCore np "p_group_command" args) (Post σ) := by
  unfold absAction at h; simp only [] at h
  obtain ⟨rfl, tl, n, tr, rfl, hn, hl, hr⟩ := absGroup_inv h ha
  unfold actionCore; simp only []
  simp [PCtx.len, PCtx.slice, PCtx.nodeAt, reservedAt, PCtx.strAt, PCtx.tokAt]
  exact sat_group hn hl hr

theorem sound_case_clause {np sorts args σ} (h : absAction "p_case_clause" sorts = some σ)
    (ha : Forall2 HasSort sorts args) : Sat (actionCore np "p_case_clause" args) (Post σ) := by
  unfold absAction at h; simp only [] at h
  split at h
  · cases h
    obtain ⟨a, rfl, ⟨n, rfl, hn⟩⟩ := forall2_1 ha
    unfold actionCore; simp only []
    simp [PCtx.len, PCtx.nodeAt, PCtx.slice]
    refine Sat.pure (post_ret ⟨_, rfl, ?_⟩)
    intro m hm; simp at hm; subst hm; exact ⟨hn.1, Or.inr hn.2⟩
  · cases h
    obtain ⟨a, b, rfl, ⟨l, rfl, hl⟩, ⟨n, rfl, hn⟩⟩ := forall2_2 ha
    unfold actionCore; simp only []
    simp [PCtx.len, PCtx.nodeAt, PCtx.slice, PCtx.nodesAt]
    refine Sat.pure (post_ret ⟨_, rfl, ?_⟩)
    intro m hm
    simp at hm
    rcases hm with hm | rfl
    · exact hl m hm
    · exact ⟨hn.1, Or.inr hn.2⟩
  · cases h

theorem sound_case_clause_sequence {np sorts args σ}
    (h : absAction "p_case_clause_sequence" sorts = some σ)
    (ha : Forall2 HasSort sorts args) : Sat (actionCore np "p_case_clause_sequence" args) (Post σ) := by
  unfold absAction at h; simp only [] at h
  split at h
  · split at h
    · rename_i hs
      cases h
      obtain ⟨a, b, rfl, ⟨n, rfl, hn⟩, hs'⟩ := forall2_2 ha
      obtain ⟨t, ty, rfl, hty, hwf, hf⟩ := okTok_inv hs hs'
      unfold actionCore; simp only []
      simp [PCtx.len, PCtx.nodeAt, PCtx.slice, reservedAt, PCtx.strAt, PCtx.tokAt]
      refine Sat.pure (post_ret ⟨_, rfl, ?_⟩)
      intro m hm
      simp at hm
      rcases hm with rfl | rfl
      · exact ⟨hn.1, Or.inr hn.2⟩
      · exact ⟨tk_reservedword (tok_valueStr_ne hty hwf hf), Or.inl rfl⟩
    · cases h
  · split at h
    · rename_i hs
      cases h
      obtain ⟨a, b, c, rfl, ⟨l, rfl, hl⟩, ⟨n, rfl, hn⟩, hs'⟩ := forall2_3 ha
      obtain ⟨t, ty, rfl, hty, hwf, hf⟩ := okTok_inv hs hs'
      unfold actionCore; simp only []
      simp [PCtx.len, PCtx.nodeAt, PCtx.slice, reservedAt, PCtx.strAt, PCtx.tokAt, PCtx.nodesAt]
      refine Sat.pure (post_ret ⟨_, rfl, ?_⟩)
      intro m hm
      simp at hm
      rcases hm with hm | rfl | rfl
      · exact hl m hm
      · exact ⟨hn.1, Or.inr hn.2⟩
      · exact ⟨tk_reservedword (tok_valueStr_ne hty hwf hf), Or.inl rfl⟩
    · cases h
  · cases h

theorem sound_pattern {np sorts args σ} (hW : WordSat np) (h : absAction "p_pattern" sorts = some σ)
    (ha : Forall2 HasSort sorts args) : Sat (actionCore np "p_pattern" args) (Post σ) := by
  unfold absAction at h; simp only [] at h
  split at h
  · cases h
    obtain ⟨a, rfl, ⟨t, rfl, -, -⟩⟩ := forall2_1 ha
    unfold actionCore; simp only []
    simp [PCtx.len, PCtx.tokAt, PCtx.slice]
    refine Sat.map ((hW t).weaken (fun w hw => post_ret ⟨_, rfl, ?_⟩) (fun _ h => h))
    intro n hn; simp at hn; subst hn
    exact ⟨hw.1, Or.inl (wordOK_words hw).2⟩
  · cases h
    obtain ⟨a, b, c, rfl, ⟨l, rfl, hl⟩, ⟨tb, rfl, htb, hwfb⟩, ⟨t, rfl, -, -⟩⟩ := forall2_3 ha
    obtain ⟨s, hv, _, hs⟩ := tok_str htb hwfb rfl
    have hbar : tb.valueStr = ['|'] := by
      have := hs ['|'] rfl
      simp [Token.valueStr, hv, this]
    unfold actionCore; simp only []
    simp [PCtx.len, PCtx.tokAt, PCtx.slice, PCtx.nodesAt, reservedAt, PCtx.strAt]
    refine Sat.map ((hW t).weaken (fun w hw => post_ret ⟨_, rfl, ?_⟩) (fun _ h => h))
    intro n hn
    simp at hn
    rcases hn with hn | rfl | rfl
    · exact hl n hn
    · rw [hbar]; exact ⟨tk_reservedword (by simp), Or.inr rfl⟩
    · exact ⟨hw.1, Or.inl (wordOK_words hw).2⟩
  · cases h

theorem sound_list {np sorts args σ} (h : absAction "p_list" sorts = some σ)
    (ha : Forall2 HasSort sorts args) : Sat (actionCore np "p_list" args) (Post σ) := by
  unfold absAction at h; simp only [] at h
  split at h
  · cases h
    obtain ⟨a, b, rfl, -, hb⟩ := forall2_2 ha
    unfold actionCore; simp only []
    simp [PCtx.slice]
    exact Sat.pure (post_ret hb)
  · cases h

theorem bodyOK_inv {s : Srt} {b : SVal} (h : bodyOK s = true) (hb : HasSort s b) :
    b = .none ∨ ∃ n, b = .node n ∧ InCls .top n := by
  cases s with
  | none => exact Or.inl hb
  | node c =>
    obtain ⟨n, rfl, hn⟩ := hb
    exact Or.inr ⟨n, rfl, hn.le_sound (by simpa [bodyOK, isNodeLe] using h)⟩
  | _ => simp [bodyOK, isNodeLe] at h

theorem pat_compElem {p ps} (hne : ps ≠ []) (h : InL .patparts ps) :
    TreeOK (.pattern p ps) ∧ compElem (.pattern p ps) = true := ⟨tk_pattern hne h, rfl⟩

theorem sound_pattern_list {np sorts args σ} (h : absAction "p_pattern_list" sorts = some σ)
    (ha : Forall2 HasSort sorts args) : Sat (actionCore np "p_pattern_list" args) (Post σ) := by
  unfold absAction at h; simp only [] at h
  split at h
  · split at h
    · rename_i hc
      cases h
      simp only [Bool.and_eq_true] at hc
      obtain ⟨x, a, r, b, rfl, -, ⟨pat, rfl, hpat⟩, hr, hb⟩ := forall2_4 ha
      obtain ⟨tr, tyr, rfl, htyr, hwfr, hfr⟩ := okTok_inv hc.1 hr
      have hrne := tok_valueStr_ne htyr hwfr hfr
      unfold actionCore; simp only []
      simp [PCtx.len, PCtx.slice, PCtx.nodesAt, reservedAt, PCtx.strAt, PCtx.tokAt]
      refine Sat.bind (sat_partsspan pat) (fun sp hne => ?_)
      rcases bodyOK_inv hc.2 hb with rfl | ⟨n, rfl, hn⟩
      · simp only []
        refine Sat.map ((Sat.trivial _).weaken (fun r _ => post_ret ⟨_, rfl, ?_, rfl⟩) (fun _ h => h))
        refine tk_compound (by simp) ?_ (by simp)
        intro c hc'
        simp at hc'
        rcases hc' with rfl | rfl
        · exact pat_compElem hne hpat
        · exact resword_compElem hrne
      · simp only []
        refine Sat.map ((Sat.trivial _).weaken (fun r _ => post_ret ⟨_, rfl, ?_, rfl⟩) (fun _ h => h))
        refine tk_compound (by simp) ?_ (by simp)
        intro c hc'
        simp at hc'
        rcases hc' with rfl | rfl | rfl
        · exact pat_compElem hne hpat
        · exact resword_compElem hrne
        · exact top_compElem hn
    · cases h
  · split at h
    · rename_i hc
      cases h
      simp only [Bool.and_eq_true] at hc
      obtain ⟨x, l, a, r, b, rfl, -, hl, ⟨pat, rfl, hpat⟩, hr, hb⟩ := forall2_5 ha
      obtain ⟨tl, tyl, rfl, htyl, hwfl, hfl⟩ := okTok_inv hc.1.1 hl
      obtain ⟨tr, tyr, rfl, htyr, hwfr, hfr⟩ := okTok_inv hc.1.2 hr
      have hlne := tok_valueStr_ne htyl hwfl hfl
      have hrne := tok_valueStr_ne htyr hwfr hfr
      unfold actionCore; simp only []
      simp [PCtx.len, PCtx.slice, PCtx.nodesAt, reservedAt, PCtx.strAt, PCtx.tokAt]
      refine Sat.bind (sat_partsspan pat) (fun sp hne => ?_)
      rcases bodyOK_inv hc.2 hb with rfl | ⟨n, rfl, hn⟩
      · simp only []
        refine Sat.map ((Sat.trivial _).weaken (fun r _ => post_ret ⟨_, rfl, ?_, rfl⟩) (fun _ h => h))
        refine tk_compound (by simp) ?_ (by simp)
        intro c hc'
        simp at hc'
        rcases hc' with rfl | rfl | rfl
        · exact resword_compElem hlne
        · exact pat_compElem hne hpat
        · exact resword_compElem hrne
      · simp only []
        refine Sat.map ((Sat.trivial _).weaken (fun r _ => post_ret ⟨_, rfl, ?_, rfl⟩) (fun _ h => h))
        refine tk_compound (by simp) ?_ (by simp)
        intro c hc'
        simp at hc'
        rcases hc' with rfl | rfl | rfl | rfl
        · exact resword_compElem hlne
        · exact pat_compElem hne hpat
        · exact resword_compElem hrne
        · exact top_compElem hn
    · cases h
  · cases h

def OpN (n : Node) : Prop := TreeOK n ∧ isOperator n = true
def PipeN (n : Node) : Prop := TreeOK n ∧ isPipe n = true

theorem altOp_alternates {l : List Node} (h : InL .altOp l) : alternates isOperator false l = true :=
  Alt.alternates (fun _ h => pc_commandLike h) (fun _ h => h.2) h

theorem altOp_single {l : List Node} {n : Node} (h : InL .altOp l) (hlen : ¬ l.length > 1)
    (hh : l.head? = some n) : InCls .top n := by
  cases h with
  | single hx => simp at hh; subst hh; exact hx.le_sound rfl
  | cons _ _ _ => simp at hlen

/-- the list node built from an alternation (with or without trailing operator) -/
theorem tk_list_of_alt {p l} (h : InL .altOp l) (hlen : l.length > 1) : InCls .top (.list p l) :=
  ⟨tk_list (alternates_weaken _ (altOp_alternates h)) hlen (InL.tree h), Or.inr rfl⟩

theorem tk_list_snoc {p l op} (h : InL .altOp l) (hop : OpN op) : InCls .top (.list p (l ++ [op])) := by
  refine ⟨tk_list (alternates_snoc hop.2 _ (altOp_alternates h)) ?_ ?_, Or.inr rfl⟩
  · have := Alt.ne_nil h
    cases l with
    | nil => exact absurd rfl this
    | cons a as => simp
  · intro c hc
    simp at hc
    rcases hc with hc | rfl
    · exact InL.tree h c hc
    · exact hop.1

theorem tok_opN {t : Token} {ty : TokType} {p : Span} (hty : t.ttype = some ty) (hwf : TokWF t)
    (h : isListOp ty = true) : OpN (.operator p t.valueStr) :=
  ⟨tk_operator (tok_op hty hwf (resOK_of_opIn_list h) h), rfl⟩

theorem tok_pipeN {t : Token} {ty : TokType} {p : Span} (hty : t.ttype = some ty) (hwf : TokWF t)
    (h : isPipeOp ty = true) : PipeN (.pipe p t.valueStr) :=
  ⟨tk_pipe (tok_op hty hwf (resOK_of_opIn_pipe h) h), rfl⟩

theorem sound_compound_list {np sorts args σ} (h : absAction "p_compound_list" sorts = some σ)
    (ha : Forall2 HasSort sorts args) : Sat (actionCore np "p_compound_list" args) (Post σ) := by
  unfold absAction at h; simp only [] at h
  split at h
  · cases h
    obtain ⟨a, rfl, hn⟩ := forall2_1 ha
    unfold actionCore; simp only []
    simp [PCtx.len, PCtx.slice]
    exact Sat.pure (post_ret hn)
  · cases h
    obtain ⟨a, b, rfl, -, ⟨l, rfl, hl⟩⟩ := forall2_2 ha
    unfold actionCore; simp only []
    simp [PCtx.len, PCtx.slice, PCtx.nodesAt]
    split
    · rename_i hlen
      exact Sat.map ((Sat.trivial _).weaken (fun r _ => post_ret ⟨_, rfl, tk_list_of_alt hl hlen⟩)
        (fun _ h => h))
    · rename_i hlen
      split
      · rename_i n hn
        exact Sat.pure (post_ret ⟨_, rfl, altOp_single hl hlen hn⟩)
      · exact Sat.foreign trivial
  · cases h

theorem sound_list0 {np sorts args σ} (h : absAction "p_list0" sorts = some σ)
    (ha : Forall2 HasSort sorts args) : Sat (actionCore np "p_list0" args) (Post σ) := by
  unfold absAction at h; simp only [] at h
  split at h
  · split at h
    · rename_i hop
      cases h
      obtain ⟨a, as, rfl, ⟨l, rfl, hl⟩, ha2⟩ := forall2_cons ha
      obtain ⟨b, bs, rfl, ⟨t, rfl, hty, hwf⟩, ha3⟩ := forall2_cons ha2
      unfold actionCore; simp only []
      simp [PCtx.len, PCtx.slice, PCtx.nodesAt, operatorAt, PCtx.strAt, PCtx.tokAt]
      split
      · exact Sat.map ((Sat.trivial _).weaken
          (fun r _ => post_ret ⟨_, rfl, tk_list_snoc hl (tok_opN hty hwf hop)⟩) (fun _ h => h))
      · rename_i hlen
        split
        · rename_i n hn
          refine Sat.pure (post_ret ⟨_, rfl, altOp_single hl ?_ hn⟩)
          intro hgt; exact hlen (by simp [hgt])
        · exact Sat.foreign trivial
    · cases h
  · cases h

theorem forall2_getLast {α β} {R : α → β → Prop} :
    ∀ {l₁ : List α} {l₂ : List β}, Forall2 R l₁ l₂ → ∀ a, l₁.getLast? = some a →
      ∃ b, l₂.getLast? = some b ∧ R a b := by
  intro l₁ l₂ h
  induction h with
  | nil => intro a ha; simp at ha
  | @cons x y xs ys hxy hrest ih =>
    intro a ha
    cases hrest with
    | nil =>
      simp at ha; subst ha
      exact ⟨y, by simp, hxy⟩
    | @cons x' y' xs' ys' h1 h2 =>
      have : (x' :: xs').getLast? = some a := by simpa [List.getLast?_cons_cons] using ha
      obtain ⟨b, hb, hr⟩ := ih a this
      exact ⟨b, by simpa [List.getLast?_cons_cons] using hb, hr⟩

theorem slice_last {np : NestedParse} {args : List SVal} {v : SVal} (h : args.getLast? = some v) :
    PCtx.slice ⟨np, args⟩ (PCtx.len ⟨np, args⟩ - 1) = v := by
  simp only [PCtx.slice, PCtx.len, Nat.add_sub_cancel]
  rw [List.getLast?_eq_getElem?] at h
  simp [List.getD_eq_getElem?_getD, h]

theorem sat_joinLists {np : NestedParse} {sorts : List Srt} {args : List SVal} {σ : Srt}
    {k : LCls} {elem : NCls} {sep : TokType → Bool} {mk : Span → Str → Node} {site : String}
    {X S : Node → Prop}
    (hk : ∀ l, InL k l ↔ Alt X S l) (helem : ∀ n, InCls elem n → X n)
    (hsep : ∀ (t : Token) ty p, t.ttype = some ty → TokWF t → sep ty = true → S (mk p t.valueStr))
    (h : absJoin k elem sep sorts = some σ) (ha : Forall2 HasSort sorts args) :
    Sat (joinLists ⟨np, args⟩ mk site) (fun v => HasSort σ v) := by
  unfold absJoin at h
  split at h
  · split at h
    · rename_i hle
      cases h
      obtain ⟨a, rfl, ⟨n, rfl, hn⟩⟩ := forall2_1 ha
      simp [joinLists, PCtx.len, PCtx.nodeAt, PCtx.slice]
      exact Sat.pure ⟨_, rfl, (hk _).mpr (.single (helem n (hn.le_sound hle)))⟩
    · cases h
  · split at h
    · rename_i hc
      cases h
      simp only [Bool.and_eq_true, beq_iff_eq] at hc
      obtain ⟨⟨rfl, hs⟩, hlast⟩ := hc
      obtain ⟨a, as, rfl, ⟨l, rfl, hl⟩, ha2⟩ := forall2_cons ha
      obtain ⟨b, bs, rfl, ⟨t, rfl, hty, hwf⟩, ha3⟩ := forall2_cons ha2
      obtain ⟨v, hv, ⟨r, rfl, hr⟩⟩ := forall2_getLast ha3 _ hlast
      have hbs : bs ≠ [] := by intro hb; subst hb; simp at hv
      have hlast' : (SVal.nodes l :: SVal.tok t :: bs).getLast? = some (.nodes r) := by
        cases bs with
        | nil => exact absurd rfl hbs
        | cons c cs => simpa [List.getLast?_cons_cons] using hv
      have hlen : ¬ (PCtx.len ⟨np, SVal.nodes l :: SVal.tok t :: bs⟩ == 2) = true := by
        cases bs with
        | nil => exact absurd rfl hbs
        | cons c cs => simp [PCtx.len]
      unfold joinLists
      simp only [hlen, if_false, Bool.false_eq_true]
      simp only [PCtx.nodesAt, slice_last hlast']
      simp [PCtx.slice, PCtx.strAt, PCtx.tokAt]
      refine Sat.pure ⟨_, rfl, (hk _).mpr ?_⟩
      exact Alt.append ((hk _).mp hl) (hsep t _ _ hty hwf hs) ((hk _).mp hr)
    · cases h
  · cases h

theorem sound_list1 {np sorts args σ} (h : absAction "p_list1" sorts = some σ)
    (ha : Forall2 HasSort sorts args) : Sat (actionCore np "p_list1" args) (Post σ) := by
  unfold absAction at h; simp only [] at h
  unfold actionCore; simp only []
  refine Sat.bind (sat_joinLists (X := InCls .pc) (S := OpN) (fun _ => Iff.rfl) (fun _ h => h)
    (fun t ty p hty hwf hs => tok_opN hty hwf hs) h ha) (fun v hv => Sat.pure (post_ret hv))

theorem sound_simple_list1 {np sorts args σ} (h : absAction "p_simple_list1" sorts = some σ)
    (ha : Forall2 HasSort sorts args) : Sat (actionCore np "p_simple_list1" args) (Post σ) := by
  unfold absAction at h; simp only [] at h
  unfold actionCore; simp only []
  refine Sat.bind (sat_joinLists (X := InCls .pc) (S := OpN) (fun _ => Iff.rfl) (fun _ h => h)
    (fun t ty p hty hwf hs => tok_opN hty hwf hs) h ha) (fun v hv => Sat.pure (post_ret hv))

theorem sound_pipeline {np sorts args σ} (h : absAction "p_pipeline" sorts = some σ)
    (ha : Forall2 HasSort sorts args) : Sat (actionCore np "p_pipeline" args) (Post σ) := by
  unfold absAction at h; simp only [] at h
  unfold actionCore; simp only []
  refine Sat.bind (sat_joinLists (X := InCls .cmd) (S := PipeN) (fun _ => Iff.rfl) (fun _ h => h)
    (fun t ty p hty hwf hs => tok_pipeN hty hwf hs) h ha) (fun v hv => Sat.pure (post_ret hv))

theorem sat_fin {v : SVal} (hv : HasSort (.node .top) v) {f : Local → Bool} :
    Sat ((fun a => (v, f a)) <$> (get : M Local)) (Post (.node .top)) :=
  Sat.map ((Sat.trivial _).weaken (fun _ _ => ⟨hv, fun _ => rfl⟩) (fun _ h => h))

theorem sound_simple_list {np sorts args σ} (h : absAction "p_simple_list" sorts = some σ)
    (ha : Forall2 HasSort sorts args) : Sat (actionCore np "p_simple_list" args) (Post σ) := by
  unfold absAction at h; simp only [] at h
  split at h
  · cases h
    obtain ⟨a, rfl, ⟨l, rfl, hl⟩⟩ := forall2_1 ha
    unfold actionCore; simp only []
    simp [PCtx.len, PCtx.slice, PCtx.nodesAt]
    refine Sat.bind_any (fun _ => ?_)
    split
    · rename_i hlen
      exact Sat.bind_any (fun _ => sat_fin ⟨_, rfl, tk_list_of_alt hl hlen⟩)
    · rename_i hlen
      split
      · rename_i n
        cases hl with
        | single hx => exact sat_fin ⟨_, rfl, hx.le_sound rfl⟩
      · exact Sat.bind (Sat.foreign (P := fun _ => False) trivial) (fun _ h => h.elim)
  · split at h
    · rename_i hop
      cases h
      obtain ⟨a, b, rfl, ⟨l, rfl, hl⟩, ⟨t, rfl, hty, hwf⟩⟩ := forall2_2 ha
      unfold actionCore; simp only []
      simp [PCtx.len, PCtx.slice, PCtx.nodesAt, operatorAt, PCtx.strAt, PCtx.tokAt]
      refine Sat.bind_any (fun _ => ?_)
      exact Sat.bind_any (fun _ => sat_fin ⟨_, rfl, tk_list_snoc hl (tok_opN hty hwf hop)⟩)
    · cases h
  · cases h

theorem tk_bang {p} : TreeOK (.reservedword p ['!']) := tk_reservedword (by simp)

theorem bangTail_of_body {parts : List Node} (h : PipeBody parts) : BangTail parts := by
  rcases h with ⟨h, _⟩ | ⟨b, r, rfl, hb, _⟩
  · exact Or.inr (Or.inr (Or.inl h))
  · exact Or.inr (Or.inr (Or.inr ⟨b, r, rfl, hb⟩))

theorem pc_bang {p q : Span} {tail : List Node} (ht : BangTail tail) (hc : ∀ c, c ∈ tail → TreeOK c) :
    InCls .pc (.pipeline q (.reservedword p ['!'] :: tail)) := by
  refine ⟨tk_pipeline (Or.inr ⟨_, _, rfl, rfl, ht⟩) ?_, Or.inr ⟨_, _, rfl, Or.inr ⟨_, _, rfl, rfl, ht⟩⟩⟩
  intro c hc'
  simp at hc'
  rcases hc' with rfl | hc'
  · exact tk_bang
  · exact hc c hc'

theorem sound_pipeline_command {np sorts args σ} (h : absAction "p_pipeline_command" sorts = some σ)
    (ha : Forall2 HasSort sorts args) : Sat (actionCore np "p_pipeline_command" args) (Post σ) := by
  unfold absAction at h; simp only [] at h
  split at h
  · cases h
    obtain ⟨a, rfl, ⟨l, rfl, hl⟩⟩ := forall2_1 ha
    unfold actionCore; simp only []
    simp [PCtx.len, PCtx.slice, PCtx.nodesAt]
    split
    · cases hl with
      | single hx => exact Sat.pure (post_ret ⟨_, rfl, hx.le_sound rfl⟩)
    · rename_i hne
      split
      · refine Sat.bind_any (fun _ => Sat.map ((Sat.trivial _).weaken (fun _ _ => post_ret ⟨_, rfl, ?_⟩) (fun _ h => h)))
        have halt : alternates isPipe false l = true :=
          Alt.alternates (fun _ h => h.2.1) (fun _ h => h.2) hl
        have hlen : 3 ≤ l.length := by
          rcases Alt.length hl with h1 | h3
          · exfalso
            cases hl with
            | single hx => exact hne _ rfl
            | cons _ _ _ => simp at h1
          · exact h3
        exact ⟨tk_pipeline (Or.inl ⟨halt, hlen⟩) (InL.tree hl), Or.inr ⟨_, _, rfl, Or.inl ⟨halt, hlen⟩⟩⟩
      · exact Sat.foreign trivial
  · cases h
    obtain ⟨x, b, rfl, -, ⟨n, rfl, hn⟩⟩ := forall2_2 ha
    unfold actionCore; simp only []
    simp [PCtx.len, PCtx.slice]
    split
    · rename_i heq; cases heq
    · rename_i pos parts heq
      cases heq
      have hbody : PipeBody parts := by
        obtain ⟨_, h | ⟨p, ps, heq, hb⟩⟩ := hn
        · exact absurd h.2 (by simp [isPipeline])
        · cases heq; exact hb
      have hch : ∀ c, c ∈ parts → TreeOK c := fun c hc => hn.tree.child (by simpa [children] using hc)
      split
      · exact Sat.map ((Sat.trivial _).weaken
          (fun _ _ => post_ret ⟨_, rfl, pc_bang (bangTail_of_body hbody) hch⟩) (fun _ h => h))
      · exact Sat.foreign trivial
    · rename_i m hnp heq
      have hmn : n = m := by injection heq
      subst hmn
      have hcm : CmdNP n := by
        obtain ⟨_, h | ⟨p, ps, rfl, hb⟩⟩ := hn
        · exact h
        · exact absurd rfl (hnp p ps)
      refine Sat.map ((Sat.trivial _).weaken (fun _ _ => post_ret ⟨_, rfl, pc_bang ?_ ?_⟩) (fun _ h => h))
      · exact Or.inr (Or.inr (Or.inl (by simpa [alternates] using hcm.1)))
      · intro c hc; simp at hc; subst hc; exact hn.tree
    · exact Sat.foreign trivial
  · cases h
    obtain ⟨x, b, rfl, -, hb⟩ := forall2_2 ha
    unfold actionCore; simp only []
    simp [PCtx.len, PCtx.slice]
    rcases hb with rfl | ⟨n, rfl, q, rfl⟩
    · simp only []
      exact Sat.pure (post_ret ⟨_, rfl, pc_bang (Or.inl rfl) (by simp)⟩)
    · simp only []
      refine Sat.map ((Sat.trivial _).weaken (fun _ _ => post_ret ⟨_, rfl, pc_bang ?_ ?_⟩) (fun _ h => h))
      · exact Or.inr (Or.inl ⟨q, rfl⟩)
      · intro c hc; simp at hc; subst hc; exact tk_operator (by decide)
  · cases h

/-- the parts `_makeparts` produces for one right-hand-side value -/
def ChunkOf (a : SVal) (chunk : List Node) : Prop :=
  match a with
  | .node n => chunk = [n]
  | .nodes l => chunk = l
  | .tok t =>
    if t.is .WORD = true then ∃ w, chunk = [w] ∧ WordOK w
    else chunk = [.reservedword (t.lexpos, t.endlexpos) (tvalStr t.value)]
  | .none => chunk = []

theorem forall2_snoc {α β} {R : α → β → Prop} {l₁ : List α} {l₂ : List β} {a : α} {b : β}
    (h : Forall2 R l₁ l₂) (hab : R a b) : Forall2 R (l₁ ++ [a]) (l₂ ++ [b]) := by
  induction h with
  | nil => exact .cons hab .nil
  | cons h1 _ ih => exact .cons h1 ih

theorem sat_makeparts {np : NestedParse} (hW : WordSat np) (args : List SVal) :
    Sat (makeparts ⟨np, args⟩)
      (fun parts => ∃ chunks, parts = chunks.flatten ∧ Forall2 ChunkOf args chunks) := by
  unfold makeparts
  simp only [bind_pure]
  refine Sat.forIn_list
    (I := fun rest acc => ∃ done chunks, args = done ++ rest ∧ acc = chunks.flatten ∧
      Forall2 ChunkOf done chunks) ?_ ?_ args [] ⟨[], [], rfl, rfl, .nil⟩
  · rintro a rest b ⟨done, chunks, hargs, rfl, hf⟩
    have hnext : ∀ chunk, ChunkOf a chunk → ∃ done' chunks', args = done' ++ rest ∧
        chunks.flatten ++ chunk = chunks'.flatten ∧ Forall2 ChunkOf done' chunks' := by
      intro chunk hc
      exact ⟨done ++ [a], chunks ++ [chunk], by simp [hargs], by simp, forall2_snoc hf hc⟩
    split
    · exact Sat.pure (hnext _ rfl)
    · exact Sat.pure (hnext _ rfl)
    · rename_i t
      split
      · rename_i hw
        refine Sat.bind (hW t) (fun w hw' => Sat.pure (hnext [w] ?_))
        simp only [ChunkOf, hw, if_true]
        exact ⟨w, rfl, hw'⟩
      · rename_i hw
        refine Sat.pure (hnext _ ?_)
        simp [ChunkOf, hw]
    · refine Sat.pure ?_
      have := hnext [] rfl
      simpa using this
  · rintro b ⟨done, chunks, hargs, rfl, hf⟩
    simp only [List.append_nil] at hargs
    subst hargs
    exact ⟨chunks, rfl, hf⟩

/-- from well-sorted arguments and their chunks, a property of all parts -/
theorem chunks_all {Q : Node → Prop} {ok : Srt → Bool}
    (hok : ∀ σ a chunk, ok σ = true → HasSort σ a → ChunkOf a chunk → ∀ c, c ∈ chunk → Q c) :
    ∀ {sorts : List Srt} {args : List SVal} {chunks : List (List Node)},
      sorts.all ok = true → Forall2 HasSort sorts args → Forall2 ChunkOf args chunks →
      ∀ c, c ∈ chunks.flatten → Q c := by
  intro sorts args chunks hall ha
  induction ha generalizing chunks with
  | nil => intro hc; cases hc; simp
  | @cons σ a ss as h1 _ ih =>
    intro hc
    cases hc with
    | @cons _ chunk _ cs hc1 hc2 =>
      simp only [List.all_cons, Bool.and_eq_true] at hall
      intro c hcm
      simp only [List.flatten_cons, List.mem_append] at hcm
      rcases hcm with hcm | hcm
      · exact hok σ a chunk hall.1 h1 hc1 c hcm
      · exact ih hall.2 hc2 c hcm

theorem is_word_iff {t : Token} {ty : TokType} (hty : t.ttype = some ty) :
    t.is .WORD = true ↔ ty = .WORD := by
  simp [Token.is, hty]

/-- the chunk of a token acceptable to `_makeparts` -/
theorem chunk_tok {t : Token} {ty : TokType} {chunk : List Node} (hty : t.ttype = some ty)
    (hwf : TokWF t) (hp : partTok ty = true) (hc : ChunkOf (.tok t) chunk) :
    ∀ c, c ∈ chunk → TreeOK c ∧ ((ty = .WORD ∧ isWordN c = true) ∨ (resOK ty = true ∧ isResWord c = true)) := by
  simp only [ChunkOf] at hc
  split at hc
  · rename_i hw
    obtain ⟨w, rfl, hw'⟩ := hc
    intro c hcm; simp at hcm; subst hcm
    exact ⟨hw'.1, Or.inl ⟨(is_word_iff hty).mp hw, (wordOK_words hw').2⟩⟩
  · rename_i hw
    subst hc
    have hr : resOK ty = true := by
      simp only [partTok, Bool.or_eq_true, beq_iff_eq] at hp
      rcases hp with hp | hp
      · exact hp
      · exact absurd ((is_word_iff hty).mpr hp) hw
    intro c hcm; simp at hcm; subst hcm
    exact ⟨tk_reservedword (tok_tvalStr_ne hty hwf hr), Or.inr ⟨hr, rfl⟩⟩

theorem resOK_not_word {ty : TokType} (h : resOK ty = true) : ty ≠ .WORD := by
  rintro rfl; cases h

theorem partTok_of_resOK {ty : TokType} (h : resOK ty = true) : partTok ty = true := by
  simp [partTok, h]

theorem hok_if : ∀ σ a chunk, ifPartSort σ = true → HasSort σ a → ChunkOf a chunk →
    ∀ c, c ∈ chunk → IfPart c := by
  intro σ a chunk hs ha hc c hcm
  cases σ with
  | none => cases ha; simp [ChunkOf] at hc; subst hc; simp at hcm
  | tok ty =>
    cases ty with
    | none => simp [ifPartSort] at hs
    | some ty =>
      obtain ⟨t, rfl, hty, hwf⟩ := ha
      have hr : resOK ty = true := hs
      obtain ⟨h1, h2⟩ := chunk_tok hty hwf (partTok_of_resOK hr) hc c hcm
      rcases h2 with ⟨h2, _⟩ | ⟨_, h2⟩
      · exact absurd h2 (resOK_not_word hr)
      · exact ⟨h1, Or.inl h2⟩
  | node k =>
    obtain ⟨n, rfl, hn⟩ := ha
    simp [ChunkOf] at hc; subst hc; simp at hcm; subst hcm
    have := hn.le_sound (d := .top) hs
    exact ⟨this.1, Or.inr this.2⟩
  | optNode k => simp [ifPartSort] at hs
  | nodes k =>
    cases k <;> simp [ifPartSort] at hs
    obtain ⟨l, rfl, hl⟩ := ha
    simp [ChunkOf] at hc; subst hc
    exact hl c hcm

theorem hok_case : ∀ σ a chunk, casePartSort σ = true → HasSort σ a → ChunkOf a chunk →
    ∀ c, c ∈ chunk → CasePart c := by
  intro σ a chunk hs ha hc c hcm
  cases σ with
  | none => cases ha; simp [ChunkOf] at hc; subst hc; simp at hcm
  | tok ty =>
    cases ty with
    | none => simp [casePartSort] at hs
    | some ty =>
      obtain ⟨t, rfl, hty, hwf⟩ := ha
      obtain ⟨h1, h2⟩ := chunk_tok hty hwf hs hc c hcm
      rcases h2 with ⟨_, h2⟩ | ⟨_, h2⟩
      · exact ⟨h1, Or.inr (Or.inl h2)⟩
      · exact ⟨h1, Or.inl h2⟩
  | node k => simp [casePartSort] at hs
  | optNode k => simp [casePartSort] at hs
  | nodes k =>
    cases k <;> simp [casePartSort] at hs
    obtain ⟨l, rfl, hl⟩ := ha
    simp [ChunkOf] at hc; subst hc
    obtain ⟨h1, h2 | h2⟩ := hl c hcm
    · exact ⟨h1, Or.inl h2⟩
    · exact ⟨h1, Or.inr (Or.inr h2)⟩

theorem hok_func : ∀ σ a chunk, funcPartSort σ = true → HasSort σ a → ChunkOf a chunk →
    ∀ c, c ∈ chunk → CasePart c := by
  intro σ a chunk hs ha hc c hcm
  cases σ with
  | none => cases ha; simp [ChunkOf] at hc; subst hc; simp at hcm
  | tok ty =>
    cases ty with
    | none => simp [funcPartSort] at hs
    | some ty =>
      obtain ⟨t, rfl, hty, hwf⟩ := ha
      obtain ⟨h1, h2⟩ := chunk_tok hty hwf hs hc c hcm
      rcases h2 with ⟨_, h2⟩ | ⟨_, h2⟩
      · exact ⟨h1, Or.inr (Or.inl h2)⟩
      · exact ⟨h1, Or.inl h2⟩
  | node k => simp [funcPartSort] at hs
  | optNode k => simp [funcPartSort] at hs
  | nodes k => simp [funcPartSort] at hs

theorem hok_any : ∀ σ a chunk, anyPartSort σ = true → HasSort σ a → ChunkOf a chunk →
    ∀ c, c ∈ chunk → TreeOK c := by
  intro σ a chunk hs ha hc c hcm
  cases σ with
  | none => cases ha; simp [ChunkOf] at hc; subst hc; simp at hcm
  | tok ty =>
    cases ty with
    | none => simp [anyPartSort] at hs
    | some ty =>
      obtain ⟨t, rfl, hty, hwf⟩ := ha
      exact (chunk_tok hty hwf hs hc c hcm).1
  | node k =>
    obtain ⟨n, rfl, hn⟩ := ha
    simp [ChunkOf] at hc; subst hc; simp at hcm; subst hcm
    exact hn.tree
  | optNode k =>
    rcases ha with rfl | ⟨n, rfl, hn⟩
    · simp [ChunkOf] at hc; subst hc; simp at hcm
    · simp [ChunkOf] at hc; subst hc; simp at hcm; subst hcm
      exact hn.tree
  | nodes k =>
    obtain ⟨l, rfl, hl⟩ := ha
    simp [ChunkOf] at hc; subst hc
    exact InL.tree hl c hcm

def IsSemiOp (c : Node) : Prop := ∃ p, c = .operator p [';']

theorem hok_for : ∀ σ a chunk, forPartSort σ = true → HasSort σ a → ChunkOf a chunk →
    (∀ c, c ∈ chunk → ForPart c) ∨ (σ = .optNode .semiOp ∧ ∃ c, chunk = [c] ∧ IsSemiOp c) := by
  intro σ a chunk hs ha hc
  cases σ with
  | none => left; intro c hcm; cases ha; simp [ChunkOf] at hc; subst hc; simp at hcm
  | tok ty =>
    cases ty with
    | none => simp [forPartSort] at hs
    | some ty =>
      left; intro c hcm
      obtain ⟨t, rfl, hty, hwf⟩ := ha
      obtain ⟨h1, h2⟩ := chunk_tok hty hwf hs hc c hcm
      rcases h2 with ⟨_, h2⟩ | ⟨_, h2⟩
      · exact ⟨h1, Or.inr (Or.inl h2)⟩
      · exact ⟨h1, Or.inl h2⟩
  | node k =>
    left; intro c hcm
    obtain ⟨n, rfl, hn⟩ := ha
    simp [ChunkOf] at hc; subst hc; simp at hcm; subst hcm
    have := hn.le_sound (d := .top) hs
    exact ⟨this.1, Or.inr (Or.inr this.2)⟩
  | optNode k =>
    cases k <;> simp [forPartSort] at hs
    rcases ha with rfl | ⟨n, rfl, hn⟩
    · left; intro c hcm; simp [ChunkOf] at hc; subst hc; simp at hcm
    · right
      simp [ChunkOf] at hc; subst hc
      exact ⟨rfl, n, rfl, hn⟩
  | nodes k =>
    cases k <;> simp [forPartSort] at hs
    left; intro c hcm
    obtain ⟨l, rfl, hl⟩ := ha
    simp [ChunkOf] at hc; subst hc
    exact ⟨(hl c hcm).1, Or.inr (Or.inl (hl c hcm).2)⟩

theorem sat_mkCompound1 {inner : Span → List Node → Node} {parts : List Node}
    (hin : ∀ sp, parts ≠ [] → TreeOK (inner sp parts) ∧ compElem (inner sp parts) = true) :
    Sat (mkCompound1 inner parts) (fun v => HasSort (.node .compound) v) := by
  unfold mkCompound1
  refine Sat.bind (sat_partsspan parts) (fun sp hne => Sat.pure ⟨_, rfl, ?_, rfl⟩)
  refine tk_compound (by simp) ?_ (by simp)
  intro c hc; simp at hc; subst hc
  exact hin sp hne

theorem sound_if_command {np sorts args σ} (hW : WordSat np)
    (h : absAction "p_if_command" sorts = some σ)
    (ha : Forall2 HasSort sorts args) : Sat (actionCore np "p_if_command" args) (Post σ) := by
  unfold absAction at h; simp only [] at h
  split at h
  · rename_i hall
    cases h
    unfold actionCore; simp only []
    refine Sat.bind (sat_makeparts hW args) ?_
    rintro parts ⟨chunks, rfl, hch⟩
    have hparts := chunks_all hok_if hall ha hch
    refine Sat.bind (sat_mkCompound1 (fun sp hne => ⟨tk_if hne hparts, rfl⟩))
      (fun v hv => Sat.pure (post_ret hv))
  · cases h

theorem sound_case_command {np sorts args σ} (hW : WordSat np)
    (h : absAction "p_case_command" sorts = some σ)
    (ha : Forall2 HasSort sorts args) : Sat (actionCore np "p_case_command" args) (Post σ) := by
  unfold absAction at h; simp only [] at h
  split at h
  · rename_i hall
    cases h
    unfold actionCore; simp only []
    refine Sat.bind (sat_makeparts hW args) ?_
    rintro parts ⟨chunks, rfl, hch⟩
    have hparts := chunks_all hok_case hall ha hch
    refine Sat.bind (sat_mkCompound1 (fun sp hne => ⟨tk_case hne hparts, rfl⟩))
      (fun v hv => Sat.pure (post_ret hv))
  · cases h

theorem sat_handleNotImplemented {np sorts args σ ty} (hW : WordSat np)
    (h : absUnimpl sorts = some σ) (ha : Forall2 HasSort sorts args) :
    Sat (handleNotImplemented ⟨np, args⟩ ty) (fun v => HasSort σ v) := by
  unfold absUnimpl at h
  split at h
  · rename_i hall
    cases h
    unfold handleNotImplemented
    refine Sat.bind_any (fun b => ?_)
    split
    · refine Sat.bind (sat_makeparts hW args) ?_
      rintro parts ⟨chunks, rfl, hch⟩
      have hparts := chunks_all hok_any hall ha hch
      refine Sat.bind (sat_partsspan _) (fun sp hne => Sat.pure ⟨_, rfl, ?_, rfl⟩)
      exact tk_unimplemented hne hparts
    · exact Sat.raise trivial
  · cases h

theorem sound_arith_for_command {np sorts args σ} (hW : WordSat np)
    (h : absAction "p_arith_for_command" sorts = some σ)
    (ha : Forall2 HasSort sorts args) : Sat (actionCore np "p_arith_for_command" args) (Post σ) := by
  unfold absAction at h; simp only [] at h
  unfold actionCore; simp only []
  exact Sat.bind (sat_handleNotImplemented hW h ha) (fun v hv => Sat.pure (post_ret hv))

theorem sound_select_command {np sorts args σ} (hW : WordSat np)
    (h : absAction "p_select_command" sorts = some σ)
    (ha : Forall2 HasSort sorts args) : Sat (actionCore np "p_select_command" args) (Post σ) := by
  unfold absAction at h; simp only [] at h
  unfold actionCore; simp only []
  exact Sat.bind (sat_handleNotImplemented hW h ha) (fun v hv => Sat.pure (post_ret hv))

theorem sound_coproc {np sorts args σ} (hW : WordSat np)
    (h : absAction "p_coproc" sorts = some σ)
    (ha : Forall2 HasSort sorts args) : Sat (actionCore np "p_coproc" args) (Post σ) := by
  unfold absAction at h; simp only [] at h
  unfold actionCore; simp only []
  exact Sat.bind (sat_handleNotImplemented hW h ha) (fun v hv => Sat.pure (post_ret hv))

theorem sound_arith_command {np sorts args σ} (hW : WordSat np)
    (h : absAction "p_arith_command" sorts = some σ)
    (ha : Forall2 HasSort sorts args) : Sat (actionCore np "p_arith_command" args) (Post σ) := by
  unfold absAction at h; simp only [] at h
  unfold actionCore; simp only []
  exact Sat.bind (sat_handleNotImplemented hW h ha) (fun v hv => Sat.pure (post_ret hv))

theorem sound_cond_command {np sorts args σ} (hW : WordSat np)
    (h : absAction "p_cond_command" sorts = some σ)
    (ha : Forall2 HasSort sorts args) : Sat (actionCore np "p_cond_command" args) (Post σ) := by
  unfold absAction at h; simp only [] at h
  unfold actionCore; simp only []
  exact Sat.bind (sat_handleNotImplemented hW h ha) (fun v hv => Sat.pure (post_ret hv))

theorem sound_timespec {np sorts args σ} (hW : WordSat np)
    (h : absAction "p_timespec" sorts = some σ)
    (ha : Forall2 HasSort sorts args) : Sat (actionCore np "p_timespec" args) (Post σ) := by
  unfold absAction at h; simp only [] at h
  unfold actionCore; simp only []
  exact Sat.bind (sat_handleNotImplemented hW h ha) (fun v hv => Sat.pure (post_ret hv))

theorem sound_shell_command {np sorts args σ} (hW : WordSat np)
    (h : absAction "p_shell_command" sorts = some σ)
    (ha : Forall2 HasSort sorts args) : Sat (actionCore np "p_shell_command" args) (Post σ) := by
  unfold absAction at h; simp only [] at h
  split at h
  · cases h
    obtain ⟨a, rfl, ⟨n, rfl, hn⟩⟩ := forall2_1 ha
    unfold actionCore; simp only []
    simp [PCtx.len, PCtx.slice, PCtx.nodeAt]
    exact Sat.map ((sat_handleAssert _).weaken (fun _ hc => post_ret ⟨_, rfl, hn.tree, hc⟩) (fun _ h => h))
  · split at h
    · rename_i hc
      cases h
      simp only [Bool.and_eq_true, bne_iff_ne, ne_eq] at hc
      have hlen : ¬ (PCtx.len ⟨np, args⟩ == 2) = true := by
        have := forall2_length ha
        simp [PCtx.len]; omega
      unfold actionCore; simp only []
      simp only [hlen, Bool.false_eq_true, if_false]
      refine Sat.bind (sat_makeparts hW args) ?_
      rintro parts ⟨chunks, rfl, hch⟩
      have hparts := chunks_all hok_if hc.2 ha hch
      split
      · refine Sat.bind (sat_partsspan _) (fun sp hne => ?_)
        split
        · exact Sat.pure (post_ret ⟨_, rfl, tk_compound (by simp)
            (by intro c hc'; simp at hc'; subst hc'; exact ⟨tk_while hne hparts, rfl⟩) (by simp), rfl⟩)
        · split
          · exact Sat.pure (post_ret ⟨_, rfl, tk_compound (by simp)
              (by intro c hc'; simp at hc'; subst hc'; exact ⟨tk_until hne hparts, rfl⟩) (by simp), rfl⟩)
          · exact Sat.foreign trivial
      · exact Sat.foreign trivial
    · cases h

theorem forPart_not_operator {c : Node} (h : ForPart c) : isOperator c = false := by
  obtain ⟨_, h | h | h | h⟩ := h <;> cases c <;>
    simp_all [isOperator, isResWord, isWordN, isCommandLike, isListN]

theorem for_parts : ∀ {sorts : List Srt} {args : List SVal} {chunks : List (List Node)},
    sorts.all forPartSort = true → Forall2 HasSort sorts args → Forall2 ChunkOf args chunks →
    (∀ c, c ∈ chunks.flatten → ForPart c ∨ IsSemiOp c) ∧
    (chunks.flatten.filter isOperator).length ≤ (sorts.filter (· == .optNode .semiOp)).length := by
  intro sorts args chunks hall ha
  induction ha generalizing chunks with
  | nil => intro hc; cases hc; simp
  | @cons σ a ss as h1 _ ih =>
    intro hc
    cases hc with
    | @cons _ chunk _ cs hc1 hc2 =>
      simp only [List.all_cons, Bool.and_eq_true] at hall
      obtain ⟨ih1, ih2⟩ := ih hall.2 hc2
      rcases hok_for σ a chunk hall.1 h1 hc1 with hfp | ⟨rfl, c, rfl, hsemi⟩
      · constructor
        · intro c hcm
          simp only [List.flatten_cons, List.mem_append] at hcm
          rcases hcm with hcm | hcm
          · exact Or.inl (hfp c hcm)
          · exact ih1 c hcm
        · have : chunk.filter isOperator = [] := by
            simp only [List.filter_eq_nil_iff]
            intro c hcm
            simp [forPart_not_operator (hfp c hcm)]
          simp only [List.flatten_cons, List.filter_append, this, List.nil_append]
          refine Nat.le_trans ih2 ?_
          simp only [List.filter_cons]
          split <;> simp
      · constructor
        · intro c' hcm
          simp only [List.flatten_cons, List.mem_append] at hcm
          rcases hcm with hcm | hcm
          · simp at hcm; subst hcm; exact Or.inr hsemi
          · exact ih1 c' hcm
        · obtain ⟨p, rfl⟩ := hsemi
          have e1 : ([[Node.operator p [';']]] ++ cs).flatten.filter isOperator =
              Node.operator p [';'] :: cs.flatten.filter isOperator := by
            simp [List.filter_cons, isOperator]
          have e2 : (Srt.optNode NCls.semiOp :: ss).filter (· == .optNode .semiOp) =
              Srt.optNode NCls.semiOp :: ss.filter (· == .optNode .semiOp) := by
            simp [List.filter_cons]
          show (([[Node.operator p [';']]] ++ cs).flatten.filter isOperator).length ≤ _
          rw [e1, e2]
          simp only [List.length_cons]
          omega

theorem fix_ok : ∀ (l : List Node), (∀ c, c ∈ l → ForPart c ∨ IsSemiOp c) →
    (l.filter isOperator).length ≤ 1 → ∀ c, c ∈ actionCore.fix l → ForPart c := by
  intro l
  induction l with
  | nil => intro _ _ c hc; simp [actionCore.fix] at hc
  | cons a rest ih =>
    intro hall hcount c hc
    rcases hall a List.mem_cons_self with ha | ⟨p, rfl⟩
    · have hnop := forPart_not_operator ha
      have hfix : actionCore.fix (a :: rest) = a :: actionCore.fix rest := by
        cases a <;> first | rfl | simp [isOperator] at hnop
      rw [hfix] at hc
      simp only [List.mem_cons] at hc
      rcases hc with rfl | hc
      · exact ha
      · refine ih (fun c hc => hall c (List.mem_cons_of_mem _ hc)) ?_ c hc
        simpa [List.filter_cons, hnop] using hcount
    · simp only [actionCore.fix, beq_self_eq_true, if_true, List.mem_cons] at hc
      rcases hc with rfl | hc
      · exact ⟨tk_reservedword (by simp), Or.inl rfl⟩
      · rcases hall c (List.mem_cons_of_mem _ hc) with h | ⟨q, rfl⟩
        · exact h
        · exfalso
          have : Node.operator q [';'] ∈ rest.filter isOperator := by
            simp [List.mem_filter, hc, isOperator]
          have e1 : (Node.operator p [';'] :: rest).filter isOperator =
              Node.operator p [';'] :: rest.filter isOperator := by
            simp [List.filter_cons, isOperator]
          rw [e1] at hcount
          simp only [List.length_cons] at hcount
          have : (rest.filter isOperator) = [] := List.eq_nil_of_length_eq_zero (by omega)
          simp_all

theorem sound_for_command {np sorts args σ} (hW : WordSat np)
    (h : absAction "p_for_command" sorts = some σ)
    (ha : Forall2 HasSort sorts args) : Sat (actionCore np "p_for_command" args) (Post σ) := by
  unfold absAction at h; simp only [] at h
  split at h
  · rename_i hc
    cases h
    simp only [Bool.and_eq_true, decide_eq_true_eq] at hc
    unfold actionCore; simp only []
    refine Sat.bind (sat_makeparts hW args) ?_
    rintro parts ⟨chunks, rfl, hch⟩
    obtain ⟨h1, h2⟩ := for_parts hc.1 ha hch
    have hparts := fix_ok _ h1 (Nat.le_trans h2 hc.2)
    refine Sat.bind (sat_mkCompound1 (fun sp hne => ⟨tk_for hne hparts, rfl⟩))
      (fun v hv => Sat.pure (post_ret hv))
  · cases h

theorem forall2_append_left {α β} {R : α → β → Prop} :
    ∀ {l₁ l₂ : List α} {l : List β}, Forall2 R (l₁ ++ l₂) l →
      ∃ m₁ m₂, l = m₁ ++ m₂ ∧ Forall2 R l₁ m₁ ∧ Forall2 R l₂ m₂ := by
  intro l₁
  induction l₁ with
  | nil => intro l₂ l h; exact ⟨[], l, rfl, .nil, h⟩
  | cons a as ih =>
    intro l₂ l h
    obtain ⟨b, bs, rfl, h1, h2⟩ := forall2_cons h
    obtain ⟨m₁, m₂, rfl, h3, h4⟩ := ih h2
    exact ⟨b :: m₁, m₂, rfl, .cons h1 h3, h4⟩

theorem forall2_mem_left {α β} {R : α → β → Prop} {l₁ : List α} {l₂ : List β}
    (h : Forall2 R l₁ l₂) : ∀ a, a ∈ l₁ → ∃ b, b ∈ l₂ ∧ R a b := by
  induction h with
  | nil => intro a ha; cases ha
  | cons h1 _ ih =>
    intro a ha
    rcases List.mem_cons.mp ha with rfl | ha
    · exact ⟨_, List.mem_cons_self, h1⟩
    · obtain ⟨b, hb, hr⟩ := ih a ha
      exact ⟨b, List.mem_cons_of_mem _ hb, hr⟩

theorem sound_function_def {np sorts args σ} (hW : WordSat np)
    (h : absAction "p_function_def" sorts = some σ)
    (ha : Forall2 HasSort sorts args) : Sat (actionCore np "p_function_def" args) (Post σ) := by
  unfold absAction at h; simp only [] at h
  split at h
  · rename_i hc
    cases h
    simp only [Bool.and_eq_true, beq_iff_eq, List.contains_iff_mem] at hc
    obtain ⟨⟨hinit, hlast⟩, hword⟩ := hc
    unfold actionCore; simp only []
    refine Sat.bind (sat_makeparts hW args) ?_
    rintro parts ⟨chunks, rfl, hch⟩
    -- split off the last argument
    have hsplit : sorts = sorts.dropLast ++ [.node .compound] := by
      have hne : sorts ≠ [] := by intro h0; subst h0; simp at hlast
      rw [List.getLast?_eq_some_getLast hne] at hlast
      have := List.dropLast_concat_getLast hne
      rw [Option.some.inj hlast] at this
      exact this.symm
    rw [hsplit] at ha
    obtain ⟨as₁, as₂, rfl, ha1, ha2⟩ := forall2_append_left ha
    obtain ⟨a, rfl, ⟨body, rfl, hbody⟩⟩ := forall2_1 ha2
    obtain ⟨cs₁, cs₂, rfl, hc1, hc2⟩ := forall2_append_left hch
    obtain ⟨c, rfl, hcb⟩ := forall2_1 hc2
    simp only [ChunkOf] at hcb
    subst hcb
    have hinitp := chunks_all hok_func hinit ha1 hc1
    have hflat : (cs₁ ++ [[body]]).flatten = cs₁.flatten ++ [body] := by simp
    rw [hflat]
    have hall : ∀ c, c ∈ cs₁.flatten ++ [body] → CasePart c := by
      intro c hc
      simp only [List.mem_append, List.mem_singleton] at hc
      rcases hc with hc | rfl
      · exact hinitp c hc
      · exact ⟨hbody.1, Or.inr (Or.inr hbody.2)⟩
    -- a word among the parts
    have hw : ∃ w, w ∈ cs₁.flatten ∧ isWordN w = true := by
      have hmem : Srt.tok (some TokType.WORD) ∈ sorts.dropLast := by
        rw [hsplit] at hword
        simp only [List.mem_append, List.mem_singleton] at hword
        rcases hword with hword | hword
        · exact hword
        · cases hword
      obtain ⟨a, hamem, ⟨t, rfl, hty, hwf⟩⟩ := forall2_mem_left ha1 _ hmem
      obtain ⟨chunk, hchm, hchunk⟩ := forall2_mem_left hc1 _ hamem
      have hisw : t.is .WORD = true := (is_word_iff hty).mpr rfl
      simp only [ChunkOf, hisw, if_true] at hchunk
      obtain ⟨w, rfl, hwo⟩ := hchunk
      exact ⟨w, List.mem_flatten.mpr ⟨_, hchm, by simp⟩, (wordOK_words hwo).2⟩
    have hlastp : (cs₁.flatten ++ [body])[(cs₁.flatten ++ [body]).length - 1]? = some body := by
      simp
    obtain ⟨w, hwm, hww⟩ := hw
    have hwm' : w ∈ cs₁.flatten ++ [body] := List.mem_append_left _ hwm
    generalize cs₁.flatten ++ [body] = parts at hall hlastp hwm' ⊢
    have hfin : ∀ sp, Post (.node .func) (SVal.node (function sp
        (match List.findIdx? (fun n => match n with | Node.word .. => true | _ => false) parts with
          | some i => i
          | none => parts.length - 1) (parts.length - 1) parts), false) := by
      intro sp
      refine post_ret ⟨_, rfl, tk_function ?_ ⟨body, hlastp, hbody.2⟩ hall, rfl⟩
      cases hfi : List.findIdx? (fun n => match n with | Node.word .. => true | _ => false) parts with
      | none =>
        exfalso
        rw [List.findIdx?_eq_none_iff] at hfi
        have := hfi w hwm'
        cases w <;> first | (simp [isWordN] at hww; done) | (simp at this; done)
      | some i =>
        simp only []
        obtain ⟨hi, hp, _⟩ := List.findIdx?_eq_some_iff_getElem.mp hfi
        refine ⟨parts[i], by simp [hi], ?_⟩
        generalize parts[i] = x at hp
        cases x <;> first | rfl | (simp at hp; done)
    split
    · exact Sat.bind (Sat.foreign (P := fun _ => False) trivial) (fun _ h => h.elim)
    · exact Sat.bind_any (fun sp => Sat.pure (hfin sp))
  · cases h

theorem sound_elif_clause {np sorts args σ}
    (h : absAction "p_elif_clause" sorts = some σ)
    (ha : Forall2 HasSort sorts args) : Sat (actionCore np "p_elif_clause" args) (Post σ) := by
  unfold absAction at h; simp only [] at h
  split at h
  · rename_i hall
    cases h
    unfold actionCore; simp only []
    refine Sat.bind (P := fun parts => ∀ c, c ∈ parts → IfPart c) ?_
      (fun parts hp => Sat.pure (post_ret ⟨_, rfl, hp⟩))
    refine Sat.forIn_list
      (I := fun rest acc => (∃ ss, Forall2 HasSort ss rest ∧ ss.all ifPartSort = true) ∧
        ∀ c, c ∈ acc → IfPart c) ?_ (fun b hb => hb.2) args [] ⟨⟨sorts, ha, hall⟩, by simp⟩
    rintro a rest b ⟨⟨ss, hss, hall'⟩, hacc⟩
    obtain ⟨σ, ss', rfl⟩ : ∃ σ ss', ss = σ :: ss' := by
      cases hss with
      | cons _ _ => exact ⟨_, _, rfl⟩
    obtain ⟨a', as', heq, hσ, hrest⟩ := forall2_cons hss
    cases heq
    simp only [List.all_cons, Bool.and_eq_true] at hall'
    have hnext : ∀ chunk : List Node, (∀ c, c ∈ chunk → IfPart c) →
        (∃ ss, Forall2 HasSort ss rest ∧ ss.all ifPartSort = true) ∧ ∀ c, c ∈ b ++ chunk → IfPart c := by
      intro chunk hch
      refine ⟨⟨ss', hrest, hall'.2⟩, fun c hc => ?_⟩
      rcases List.mem_append.mp hc with hc | hc
      · exact hacc c hc
      · exact hch c hc
    split
    · rename_i n
      refine Sat.pure (hnext [n] (hok_if σ _ _ hall'.1 hσ (by simp [ChunkOf])))
    · rename_i l
      refine Sat.pure (hnext l (hok_if σ _ _ hall'.1 hσ (by simp [ChunkOf])))
    · rename_i t
      refine Sat.pure (hnext _ ?_)
      cases σ with
      | tok ty =>
        cases ty with
        | none => simp [ifPartSort] at hall'
        | some ty =>
          obtain ⟨t', ht', hty, hwf⟩ := hσ
          cases ht'
          have hr : resOK ty = true := hall'.1
          intro c hc; simp at hc; subst hc
          exact ⟨tk_reservedword (tok_tvalStr_ne hty hwf hr), Or.inl rfl⟩
      | none => cases hσ
      | node k => obtain ⟨_, h, _⟩ := hσ; cases h
      | optNode k => simp [ifPartSort] at hall'
      | nodes k => obtain ⟨_, h, _⟩ := hσ; cases h
    · refine Sat.pure (hnext _ ?_)
      intro c hc; simp at hc; subst hc
      exact ⟨tk_reservedword (by decide), Or.inl rfl⟩
  · cases h

/-- **soundness of the abstract type-checker**: if `absAction` assigns the sort `σ` to the action
    `fname` on arguments of sorts `sorts`, the model's action returns a value of sort `σ` on all
    arguments of those sorts, and it accepts (YaccAccept) only at a sort where accepting is fine -/
theorem absAction_sound {np : NestedParse} {fname : String} {sorts : List Srt} {args : List SVal}
    {σ : Srt} (hW : WordSat np) (h : absAction fname sorts = some σ)
    (ha : Forall2 HasSort sorts args) : Sat (actionCore np fname args) (Post σ) := by
  unfold absAction at h
  split at h
  · exact sound_inputunit h ha
  · exact sound_word_list hW h ha
  · exact sound_redirection_heredoc h ha
  · exact sound_redirection hW h ha
  · exact sound_simple_command_element hW h ha
  · exact sound_redirection_list h ha
  · exact sound_simple_command h ha
  · exact sound_command h ha
  · exact sound_shell_command hW h ha
  · exact sound_for_command hW h ha
  · exact sound_arith_for_command hW h ha
  · exact sound_select_command hW h ha
  · exact sound_case_command hW h ha
  · exact sound_function_def hW h ha
  · exact sound_function_body h ha
  · exact sound_subshell h ha
  · exact sound_group_command h ha
  · exact sound_coproc hW h ha
  · exact sound_if_command hW h ha
  · exact sound_arith_command hW h ha
  · exact sound_cond_command hW h ha
  · exact sound_elif_clause h ha
  · exact sound_case_clause h ha
  · exact sound_pattern_list h ha
  · exact sound_case_clause_sequence h ha
  · exact sound_pattern hW h ha
  · exact sound_list h ha
  · exact sound_compound_list h ha
  · exact sound_list0 h ha
  · exact sound_list1 h ha
  · cases h; exact sound_simple_list_terminator
  · cases h; exact sound_list_terminator
  · cases h; exact sound_newline_list
  · exact sound_simple_list h ha
  · exact sound_simple_list1 h ha
  · exact sound_pipeline_command h ha
  · exact sound_pipeline h ha
  · exact sound_timespec hW h ha
  · cases h; exact sound_empty
  · cases h

end Bashlex.C12

namespace Bashlex.C12
open Bashlex Bashlex.M

/-- `action` is `actionCore` followed by a dead assertion: every post-condition carries over -/
theorem sat_action_of_core {np : NestedParse} {fname : String} {args : List SVal}
    {P : SVal × Bool → Prop} (h : Sat (actionCore np fname args) P) :
    Sat (action np fname args) P := by
  unfold action
  refine Sat.bind h ?_
  intro r hr
  split
  · exact Sat.foreign True.intro
  · exact Sat.pure hr

end Bashlex.C12
