/-
  C12, stage B: the real tokenizer delivers only tokens whose value fits their type (`TokWF`).
  The walk through `nextToken` / `readtoken` / `readtokenMeta` / `readtokenword` / `finishWord` /
  `specialcasetokens` / `createtoken` goes only as deep as the facts need: everything about
  positions, flags and parser state is skipped (`Sat.bind_any`).
-/
import Bashlex.Props.C12.Sorts
import Bashlex.Model.Tokenizer

namespace Bashlex.C12
open Bashlex Bashlex.M
set_option linter.unusedVariables false
set_option linter.unusedSimpArgs false
set_option linter.tactic.unusedName false

/-- token types `_readtoken` may return bare: their enum value is their spelling -/
def bareOK (ty : TokType) : Bool := ty.strValueChars.isSome

theorem valOK_bare {ty : TokType} (h : bareOK ty = true) : valOK ty ty.enumValue := by
  cases ty <;> first | (exfalso; revert h; decide) | (refine ⟨fun _ => ⟨_, rfl, (by decide), ?_⟩, fun h => (by cases h)⟩; intro s' hs'; cases hs'; rfl)

theorem sat_tokentypeOfChar (c : Char) : Sat (tokentypeOfChar c) (fun t => bareOK t = true) := by
  unfold tokentypeOfChar
  split
  · rename_i t ht
    refine Sat.pure ?_
    unfold TokType.ofChar at ht
    split at ht <;> first | (cases ht; rfl) | cases ht
  · exact Sat.foreign trivial

/-- walk through a monadic program, leaving the post-condition at every `pure` leaf -/
macro "sat_walk" : tactic => `(tactic| repeat' (first
  | refine Sat.ite (fun _ => ?_) (fun _ => ?_)
  | exact Sat.foreign trivial
  | exact Sat.raise trivial
  | refine Sat.bind (sat_tokentypeOfChar _) (fun _ _ => ?_)
  | refine Sat.bind_any (fun _ => ?_)
  | refine Sat.pure ?_))

theorem sat_readtokenMeta (c : Char) :
    Sat (readtokenMeta c) (fun r => ∀ t, r = some t → bareOK t = true) := by
  unfold readtokenMeta
  simp only []
  sat_walk
  all_goals (intro t ht; cases ht <;> first | rfl | assumption)


theorem sat_createtoken {ty : TokType} {v : TVal} {flags : WordFlags} :
    Sat (createtoken ty v flags) (fun t => t.ttype = some ty ∧ t.value = v) := by
  unfold createtoken
  simp only []
  sat_walk
  all_goals exact ⟨rfl, rfl⟩

/-- walk keeping the guards of the conditionals as hypotheses -/
macro "sat_walk_h" : tactic => `(tactic| repeat' (first
  | refine Sat.ite (fun h => ?_) (fun h => ?_)
  | exact Sat.foreign trivial
  | exact Sat.raise trivial
  | refine Sat.bind_any (fun _ => ?_)
  | refine Sat.pure ?_))

theorem sat_specialcasetokens (s : Str) :
    Sat (specialcasetokens s)
      (fun r => ∀ ty, r = some ty → s ≠ [] ∧ resOK ty = true ∧ ty.strValueChars = none) := by
  unfold specialcasetokens
  simp only []
  sat_walk_h
  all_goals (intro ty hty; cases hty <;> refine ⟨?_, rfl, rfl⟩ <;> (intro hs; subst hs; simp_all))


theorem tokWF_mk {t : Token} {ty : TokType} {v : TVal} (h : t.ttype = some ty ∧ t.value = v)
    (hv : valOK ty v) : TokWF t := by
  intro ty' hty'
  rw [h.1] at hty'
  cases hty'
  rw [h.2]; exact hv

theorem sat_createtoken_wf {ty : TokType} {v : TVal} {flags : WordFlags} (hv : valOK ty v) :
    Sat (createtoken ty v flags) TokWF :=
  sat_createtoken.weaken (fun _ h => tokWF_mk h hv) (fun _ h => h)

theorem valOK_number (k : Nat) : valOK .NUMBER (.int k) :=
  ⟨fun h => (by cases h), fun _ => ⟨k, rfl⟩⟩

theorem valOK_special {ty : TokType} {s : Str}
    (h : s ≠ [] ∧ resOK ty = true ∧ ty.strValueChars = none) : valOK ty (.str s) := by
  obtain ⟨hne, hres, hnone⟩ := h
  refine ⟨fun _ => ⟨s, rfl, hne, fun s' hs' => by rw [hnone] at hs'; cases hs'⟩, fun h => ?_⟩
  subst h; cases hres

theorem mem_of_lookup {α β} [BEq α] [LawfulBEq α] {k : α} {v : β} :
    ∀ {l : List (α × β)}, l.lookup k = some v → (k, v) ∈ l := by
  intro l
  induction l with
  | nil => intro h; cases h
  | cons kv rest ih =>
    intro h
    obtain ⟨k', v'⟩ := kv
    simp only [List.lookup] at h
    split at h
    · rename_i heq
      cases h
      have : k = k' := by simpa using heq
      subst this
      exact List.mem_cons_self
    · exact List.mem_cons_of_mem _ (ih h)

theorem valOK_lookup {s : Str} {ty : TokType}
    (h : List.lookup s reservedFirstCommandChars = some ty) : valOK ty (.str s) := by
  have hmem := mem_of_lookup h
  have hall : ∀ kv, kv ∈ reservedFirstCommandChars →
      (kv.2.strValueChars = none ∨ kv.2.strValueChars = some kv.1) ∧ kv.1 ≠ [] ∧ kv.2 ≠ .NUMBER := by
    decide
  obtain ⟨h1, h2, h3⟩ := hall _ hmem
  refine ⟨fun _ => ⟨s, rfl, h2, fun s' hs' => ?_⟩, fun h => absurd h h3⟩
  rcases h1 with h1 | h1
  · rw [h1] at hs'; cases hs'
  · rw [h1] at hs'; cases hs'; rfl

theorem tokWF_wordlike {t : Token} (h : t.ttype = some .WORD ∨ t.ttype = some .ASSIGNMENT_WORD) :
    TokWF t := by
  intro ty hty
  rcases h with h | h <;> (rw [h] at hty; cases hty; exact ⟨fun h => (by cases h), fun h => (by cases h)⟩)

def WordLike (t : Token) : Prop := t.ttype = some .WORD ∨ t.ttype = some .ASSIGNMENT_WORD

/-- close a block whose leaves are calls of a join point `k` (already specified) -/
macro "jp_leafs" k:term "," h:term : tactic => `(tactic| repeat' (first
  | (refine $k () _ ?_; first | exact $h | exact Or.inr rfl)
  | exact $k ()
  | refine Sat.ite (fun _ => ?_) (fun _ => ?_)
  | exact Sat.foreign trivial
  | refine Sat.bind_any (fun _ => ?_)))

theorem sat_finishWord (st : RWState) : Sat (finishWord st) TokWF := by
  unfold finishWord
  refine Sat.bind_any (fun _ => ?_)
  extract_lets -underBinder tokenword cIsRedir
  refine Sat.bind_any (fun l => ?_)
  refine Sat.ite (fun _ => sat_createtoken_wf (valOK_number _)) (fun _ => ?_)
  refine Sat.bind (sat_specialcasetokens _) (fun r hr => ?_)
  split
  · exact sat_createtoken_wf (valOK_special (hr _ rfl))
  refine Sat.bind_any (fun l => ?_)
  extract_lets -underBinder jp1
  have key1 : ∀ r, Sat (jp1 r) TokWF := by
    intro r
    show Sat (_ >>= _) _
    refine Sat.bind sat_createtoken (fun tok htok => ?_)
    have htok' : WordLike tok := Or.inl htok.1
    extract_lets -underBinder jp2 tok1
    have key2 : ∀ r t, WordLike t → Sat (jp2 r t) TokWF := by
      intro r t ht
      simp -zeta only [jp2]
      extract_lets -underBinder jp3 tok2
      have key3 : ∀ r t, WordLike t → Sat (jp3 r t) TokWF := by
        intro r t ht
        simp -zeta only [jp3]
        extract_lets -underBinder jp4
        have key4 : ∀ r, Sat (jp4 r) TokWF := by
          intro r
          simp -zeta only [jp4]
          refine Sat.bind_any (fun l => Sat.bind_any (fun b => ?_))
          extract_lets -underBinder jp5 tok3 tok4 tok5
          have key5 : ∀ r t, WordLike t → Sat (jp5 r t) TokWF := by
            intro r t ht
            simp -zeta only [jp5]
            extract_lets -underBinder jp6 tok6 jp7 tok7
            have key6 : ∀ r t, WordLike t → Sat (jp6 r t) TokWF := by
              intro r t ht
              exact Sat.pure (tokWF_wordlike ht)
            have key7 : ∀ r t, WordLike t → Sat (jp7 r t) TokWF := by
              intro r t ht
              simp -zeta only [jp7]
              extract_lets -underBinder jp8
              have key8 : ∀ r, Sat (jp8 r) TokWF := fun r => Sat.pure (tokWF_wordlike ht)
              jp_leafs key8, ht
            refine Sat.ite (fun _ => Sat.ite (fun h => ?_) (fun _ => key6 () _ ht)) (fun _ => ?_)
            · exfalso; simp [legalIdentifier] at h
            · jp_leafs key7, ht
          jp_leafs key5, ht
        jp_leafs key4, ht
      jp_leafs key3, ht
    jp_leafs key2, htok'
  clear_value jp1
  refine Sat.ite (fun _ => ?_) (fun _ => key1 _)
  split
  · rename_i ttype hlook
    extract_lets -underBinder ps jp9
    have key9 : ∀ r, Sat (jp9 r) TokWF := fun r => sat_createtoken_wf (valOK_lookup hlook)
    jp_leafs key9, key9
  · exact key1 _


theorem sat_readtokenword (c : Char) : Sat (readtokenword c) TokWF := by
  unfold readtokenword
  exact Sat.bind_any (fun _ => Sat.bind_any (fun st => sat_finishWord st))

def ReadOK (r : TokType ⊕ Token) : Prop :=
  match r with
  | .inl ty => bareOK ty = true
  | .inr t => TokWF t

theorem readOK_eof : ReadOK (.inr { ttype := some TokType.EOF, value := .none }) := by
  intro ty hty; cases hty; exact ⟨fun h => (by cases h), fun h => (by cases h)⟩

theorem sat_readtoken : Sat readtoken ReadOK := by
  unfold readtoken
  refine Sat.bind_any (fun _ => Sat.bind_any (fun _ => Sat.bind_any (fun c1 => ?_)))
  split
  · exact Sat.pure readOK_eof
  rename_i ch
  refine Sat.bind_any (fun character => ?_)
  extract_lets -underBinder jp1
  have key1 : ∀ r c, Sat (jp1 r c) ReadOK := by
    intro r c
    simp -zeta only [jp1]
    refine Sat.bind_any (fun _ => ?_)
    have hty : Sat (do let t ← tokentypeOfChar c; pure (Sum.inl t) : M (TokType ⊕ Token)) ReadOK :=
      Sat.bind (sat_tokentypeOfChar c) (fun t ht => Sat.pure ht)
    have hword : Sat (do let t ← readtokenword c; pure (Sum.inr t) : M (TokType ⊕ Token)) ReadOK :=
      Sat.bind (sat_readtokenword c) (fun t ht => Sat.pure ht)
    refine Sat.ite (fun _ => Sat.bind_any (fun _ => Sat.bind_any (fun _ => hty))) (fun _ => ?_)
    refine Sat.bind_any (fun _ => Sat.ite (fun _ => hword) (fun _ => ?_))
    refine Sat.bind_any (fun _ => Sat.bind_any (fun _ => ?_))
    extract_lets -underBinder jp2
    have key2 : ∀ r, Sat (jp2 r) ReadOK := by
      intro r
      simp -zeta only [jp2]
      exact Sat.bind_any (fun _ => Sat.ite (fun _ => hty) (fun _ => hword))
    refine Sat.ite (fun _ => ?_) (fun _ => key2 ())
    refine Sat.bind (sat_readtokenMeta c) (fun m hm => ?_)
    split
    · exact Sat.pure (hm _ rfl)
    · exact key2 ()
  refine Sat.ite (fun _ => ?_) (fun _ => key1 () _)
  exact Sat.bind_any (fun _ => Sat.bind_any (fun _ => key1 () _))

theorem sat_nextToken : Sat nextToken TokWF := by
  unfold nextToken
  refine Sat.bind_any (fun _ => ?_)
  refine Sat.bind sat_readtoken (fun r hr => ?_)
  extract_lets -underBinder jp
  have key : ∀ cur, TokWF cur → Sat (jp cur) TokWF := fun cur h =>
    Sat.bind_any (fun _ => Sat.bind_any (fun _ => Sat.pure h))
  split
  · exact Sat.bind_any (fun _ => Sat.bind (sat_createtoken_wf (valOK_bare hr)) (fun cur h => key cur h))
  · exact Sat.bind (Sat.pure (P := TokWF) hr) (fun cur h => key cur h)

end Bashlex.C12
