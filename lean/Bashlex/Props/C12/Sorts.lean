/-
  C12, part 2: sorts of semantic values, the abstract type-checker for the semantic actions,
  and the grammar obligation (decided by the kernel on the generated tables).
-/
import Bashlex.Props.C12.Tree
import Bashlex.LR.SoundAcc

namespace Bashlex.C12
open Bashlex Bashlex.Spec Bashlex.Node

/-! ## tokens -/

/-- token types whose tokens carry a non-empty string value (everything but words, numbers, EOF) -/
def resOK (ty : TokType) : Bool :=
  !(ty == .WORD || ty == .ASSIGNMENT_WORD || ty == .NUMBER || ty == .EOF)

/-- the facts relating a token's type and value that the schema needs -/
def valOK (ty : TokType) (v : TVal) : Prop :=
  (resOK ty = true → ∃ s, v = .str s ∧ s ≠ [] ∧ ∀ s', ty.strValueChars = some s' → s' = s) ∧
  (ty = .NUMBER → ∃ k, v = .int k)

def TokWF (t : Token) : Prop := ∀ ty, t.ttype = some ty → valOK ty t.value

def opIn (ops : List Str) (ty : TokType) : Bool :=
  match ty.strValueChars with
  | some s => ops.contains s
  | none => false

def isListOp (ty : TokType) : Bool := opIn listOps ty
def isPipeOp (ty : TokType) : Bool := opIn pipeOps ty
def isRedirOp (ty : TokType) : Bool := opIn redirOps ty
def isHereOp (ty : TokType) : Bool := ty == .LESS_LESS || ty == .LESS_LESS_MINUS

/-! ## classes of nodes -/

inductive NCls where
  | top        -- command-like or a list (what a parser returns; `compound_list`)
  | pc         -- `pipeline_command`: a command or a pipeline node
  | cmd        -- `command`: command-like, not a pipeline
  | compound | unimpl | func | redirect
  | semiOp     -- the operator node `;` of `list_terminator`
  deriving DecidableEq, Repr

def NCls.le : NCls → NCls → Bool
  | c, .top => !(c == .redirect || c == .semiOp)
  | c, .pc => c == .pc || c == .cmd || c == .compound || c == .unimpl || c == .func
  | c, .cmd => c == .cmd || c == .compound || c == .unimpl || c == .func
  | c, d => c == d

inductive LCls where
  | words | cmdparts | redirects | ifparts | caseparts | patparts | altOp | altPipe
  deriving DecidableEq, Repr

inductive Srt where
  | none
  | tok (ty : Option TokType)
  | node (c : NCls)
  | optNode (c : NCls)
  | nodes (k : LCls)
  deriving DecidableEq, Repr

def isWordN : Node → Bool | .word .. => true | _ => false
def isCmdPart : Node → Bool | .word .. | .assignment .. | .redirect .. => true | _ => false
def isRedirect : Node → Bool | .redirect .. => true | _ => false
def isResWord : Node → Bool | .reservedword .. => true | _ => false
def isListN : Node → Bool | .list .. => true | _ => false
def isUnimpl : Node → Bool | .unimplemented .. => true | _ => false
def isFunction : Node → Bool | .function .. => true | _ => false
def isPipeline : Node → Bool | .pipeline .. => true | _ => false
def isBarWord : Node → Bool | .reservedword _ w => w == ['|'] | _ => false

/-- the shapes of the parts of a pipeline node bashlex builds: a proper alternation, or a `!`
    followed by nothing / a `;` operator / an alternation / another `!`… -/
def BangTail (r : List Node) : Prop :=
  r = [] ∨ (∃ p, r = [.operator p [';']]) ∨ alternates isPipe false r = true ∨
  (∃ b r', r = b :: r' ∧ isBang b = true)

def PipeBody (l : List Node) : Prop :=
  (alternates isPipe false l = true ∧ 3 ≤ l.length) ∨
  (∃ b r, l = b :: r ∧ isBang b = true ∧ BangTail r)

/-- command-like, not a pipeline -/
def CmdNP (n : Node) : Prop := isCommandLike n = true ∧ isPipeline n = false

def InCls : NCls → Node → Prop
  | .top, n => TreeOK n ∧ (isCommandLike n = true ∨ isListN n = true)
  | .pc, n => TreeOK n ∧ (CmdNP n ∨ ∃ p parts, n = .pipeline p parts ∧ PipeBody parts)
  | .cmd, n => TreeOK n ∧ CmdNP n
  | .compound, n => TreeOK n ∧ isCompound n = true
  | .unimpl, n => TreeOK n ∧ isUnimpl n = true
  | .func, n => TreeOK n ∧ isFunction n = true
  | .redirect, n => TreeOK n ∧ isRedirect n = true
  | .semiOp, n => ∃ p, n = .operator p [';']

/-- `x (sep x)*` -/
inductive Alt (X S : Node → Prop) : List Node → Prop
  | single {a} : X a → Alt X S [a]
  | cons {a b rest} : X a → S b → Alt X S rest → Alt X S (a :: b :: rest)

def IfPart (n : Node) : Prop :=
  TreeOK n ∧ (isResWord n = true ∨ isCommandLike n = true ∨ isListN n = true)

def InL : LCls → List Node → Prop
  | .words, l => ∀ n, n ∈ l → TreeOK n ∧ isWordN n = true
  | .cmdparts, l => l ≠ [] ∧ ∀ n, n ∈ l → TreeOK n ∧ isCmdPart n = true
  | .redirects, l => ∀ n, n ∈ l → TreeOK n ∧ isRedirect n = true
  | .ifparts, l => ∀ n, n ∈ l → IfPart n
  | .caseparts, l => ∀ n, n ∈ l → TreeOK n ∧ (isResWord n = true ∨ isCompound n = true)
  | .patparts, l => ∀ n, n ∈ l → TreeOK n ∧ (isWordN n = true ∨ isBarWord n = true)
  | .altOp, l => Alt (InCls .pc) (fun n => TreeOK n ∧ isOperator n = true) l
  | .altPipe, l => Alt (InCls .cmd) (fun n => TreeOK n ∧ isPipe n = true) l

def HasSort : Srt → SVal → Prop
  | .none, v => v = .none
  | .tok ty, v => ∃ t, v = .tok t ∧ t.ttype = ty ∧ TokWF t
  | .node c, v => ∃ n, v = .node n ∧ InCls c n
  | .optNode c, v => v = .none ∨ ∃ n, v = .node n ∧ InCls c n
  | .nodes k, v => ∃ l, v = .nodes l ∧ InL k l

/-! ## sorts of grammar symbols (by name) -/

def sortOfNT (name : String) : Srt :=
  match name with
  | "S'" => .optNode .top
  | "inputunit" => .optNode .top
  | "word_list" => .nodes .words
  | "redirection" => .node .redirect
  | "simple_command_element" => .nodes .cmdparts
  | "redirection_list" => .nodes .redirects
  | "simple_command" => .nodes .cmdparts
  | "command" => .node .cmd
  | "shell_command" => .node .compound
  | "for_command" => .node .compound
  | "arith_for_command" => .node .unimpl
  | "select_command" => .node .unimpl
  | "case_command" => .node .compound
  | "function_def" => .node .func
  | "function_body" => .node .compound
  | "subshell" => .node .compound
  | "coproc" => .node .unimpl
  | "if_command" => .node .compound
  | "group_command" => .node .compound
  | "arith_command" => .node .unimpl
  | "cond_command" => .node .unimpl
  | "elif_clause" => .nodes .ifparts
  | "case_clause" => .nodes .caseparts
  | "pattern_list" => .node .compound
  | "case_clause_sequence" => .nodes .caseparts
  | "pattern" => .nodes .patparts
  | "list" => .node .top
  | "compound_list" => .node .top
  | "list0" => .node .top
  | "list1" => .nodes .altOp
  | "simple_list_terminator" => .none
  | "list_terminator" => .optNode .semiOp
  | "newline_list" => .none
  | "simple_list" => .node .top
  | "simple_list1" => .nodes .altOp
  | "pipeline_command" => .node .pc
  | "pipeline" => .nodes .altPipe
  | "timespec" => .node .unimpl
  | "empty" => .none
  | _ => .none

def tokTypeOfName (name : String) : Option TokType :=
  TokType.all.find? (fun t => t.yaccName == name)

def sortOfSymbol (sym : Nat) : Srt :=
  if sym < Gen.termNames.length then .tok (tokTypeOfName (Gen.termNames.getD sym ""))
  else sortOfNT (Gen.ntNames.getD (sym - Gen.termNames.length) "")

/-! ## the abstract type-checker -/

def okTok (f : TokType → Bool) : Srt → Bool
  | .tok (some ty) => f ty
  | _ => false

def isNodeLe (d : NCls) : Srt → Bool
  | .node c => c.le d
  | _ => false

/-- a token that `_makeparts` turns into a word or a non-empty reserved word -/
def partTok (ty : TokType) : Bool := resOK ty || ty == .WORD

def ifPartSort : Srt → Bool
  | .none => true
  | .tok (some ty) => resOK ty
  | .node c => c.le .top
  | .nodes .ifparts => true
  | _ => false

def forPartSort : Srt → Bool
  | .none => true
  | .tok (some ty) => partTok ty
  | .node c => c.le .top
  | .nodes .words => true
  | .optNode .semiOp => true
  | _ => false

def casePartSort : Srt → Bool
  | .none => true
  | .tok (some ty) => partTok ty
  | .nodes .caseparts => true
  | _ => false

def funcPartSort : Srt → Bool
  | .none => true
  | .tok (some ty) => partTok ty
  | _ => false

def anyPartSort : Srt → Bool
  | .tok none => false
  | .tok (some ty) => partTok ty
  | _ => true

def absJoin (k : LCls) (elem : NCls) (sep : TokType → Bool) : List Srt → Option Srt
  | [.node c] => if c.le elem then some (.nodes k) else none
  | .nodes k1 :: .tok (some ty) :: rest =>
    if k1 == k && sep ty && rest.getLast? == some (.nodes k) then some (.nodes k) else none
  | _ => none

def absRedirIn (s : Srt) : Bool := okTok (fun ty => ty == .NUMBER || ty == .REDIR_WORD) s

def absUnimpl (sorts : List Srt) : Option Srt :=
  if sorts.all anyPartSort then some (.node .unimpl) else none

def bodyOK (s : Srt) : Bool := s == .none || isNodeLe .top s

def absGroup : List Srt → Option Srt
  | [l, .node c, r] => if okTok resOK l && c.le .top && okTok resOK r then some (.node .compound) else none
  | _ => none

def absAction (fname : String) (sorts : List Srt) : Option Srt :=
  match fname with
  | "p_inputunit" =>
    match sorts.head? with
    | some (.node c) | some (.optNode c) => if c.le .top then some (.optNode .top) else none
    | _ => some (.optNode .top)
  | "p_word_list" =>
    match sorts with
    | [.tok _] => some (.nodes .words)
    | [.nodes .words, .tok _] => some (.nodes .words)
    | _ => none
  | "p_redirection_heredoc" =>
    match sorts with
    | [op, .tok _] => if okTok isHereOp op then some (.node .redirect) else none
    | [i, op, .tok _] => if absRedirIn i && okTok isHereOp op then some (.node .redirect) else none
    | _ => none
  | "p_redirection" =>
    let outOK := okTok (fun ty => ty == .WORD || ty == .NUMBER || ty == .DASH)
    match sorts with
    | [op, o] => if okTok isRedirOp op && outOK o then some (.node .redirect) else none
    | [i, op, o] =>
      if absRedirIn i && okTok isRedirOp op && outOK o then some (.node .redirect) else none
    | _ => none
  | "p_simple_command_element" =>
    match sorts with
    | [.node .redirect] => some (.nodes .cmdparts)
    | [.tok _] => some (.nodes .cmdparts)
    | _ => none
  | "p_redirection_list" =>
    match sorts with
    | [.node .redirect] => some (.nodes .redirects)
    | [.nodes .redirects, .node .redirect] => some (.nodes .redirects)
    | _ => none
  | "p_simple_command" =>
    match sorts with
    | [.nodes .cmdparts] => some (.nodes .cmdparts)
    | [.nodes .cmdparts, .nodes .cmdparts] => some (.nodes .cmdparts)
    | _ => none
  | "p_command" =>
    match sorts with
    | [.node c] => if c.le .cmd then some (.node .cmd) else none
    | [.node _, .nodes .redirects] => some (.node .cmd)
    | [.nodes .cmdparts] => some (.node .cmd)
    | _ => none
  | "p_shell_command" =>
    match sorts with
    | [.node _] => some (.node .compound)
    | _ => if sorts.length != 1 && sorts.all ifPartSort then some (.node .compound) else none
  | "p_for_command" =>
    if sorts.all forPartSort && (sorts.filter (· == .optNode .semiOp)).length ≤ 1 then
      some (.node .compound) else none
  | "p_arith_for_command" => absUnimpl sorts
  | "p_select_command" => absUnimpl sorts
  | "p_case_command" => if sorts.all casePartSort then some (.node .compound) else none
  | "p_function_def" =>
    if sorts.dropLast.all funcPartSort && sorts.getLast? == some (.node .compound) &&
        sorts.contains (.tok (some .WORD)) then some (.node .func) else none
  | "p_function_body" =>
    match sorts with
    | [.node _] => some (.node .compound)
    | [.node _, .nodes .redirects] => some (.node .compound)
    | _ => none
  | "p_subshell" => absGroup sorts
  | "p_group_command" => absGroup sorts
  | "p_coproc" => absUnimpl sorts
  | "p_if_command" => if sorts.all ifPartSort then some (.node .compound) else none
  | "p_arith_command" => absUnimpl sorts
  | "p_cond_command" => absUnimpl sorts
  | "p_elif_clause" => if sorts.all ifPartSort then some (.nodes .ifparts) else none
  | "p_case_clause" =>
    match sorts with
    | [.node .compound] => some (.nodes .caseparts)
    | [.nodes .caseparts, .node .compound] => some (.nodes .caseparts)
    | _ => none
  | "p_pattern_list" =>
    match sorts with
    | [_, .nodes .patparts, r, b] => if okTok resOK r && bodyOK b then some (.node .compound) else none
    | [_, l, .nodes .patparts, r, b] =>
      if okTok resOK l && okTok resOK r && bodyOK b then some (.node .compound) else none
    | _ => none
  | "p_case_clause_sequence" =>
    match sorts with
    | [.node .compound, s] => if okTok resOK s then some (.nodes .caseparts) else none
    | [.nodes .caseparts, .node .compound, s] => if okTok resOK s then some (.nodes .caseparts) else none
    | _ => none
  | "p_pattern" =>
    match sorts with
    | [.tok _] => some (.nodes .patparts)
    | [.nodes .patparts, .tok (some .BAR), .tok _] => some (.nodes .patparts)
    | _ => none
  | "p_list" =>
    match sorts with
    | [_, .node .top] => some (.node .top)
    | _ => none
  | "p_compound_list" =>
    match sorts with
    | [.node .top] => some (.node .top)
    | [_, .nodes .altOp] => some (.node .top)
    | _ => none
  | "p_list0" =>
    match sorts with
    | .nodes .altOp :: .tok (some ty) :: _ => if isListOp ty then some (.node .top) else none
    | _ => none
  | "p_list1" => absJoin .altOp .pc isListOp sorts
  | "p_simple_list_terminator" => some .none
  | "p_list_terminator" => some (.optNode .semiOp)
  | "p_newline_list" => some .none
  | "p_simple_list" =>
    match sorts with
    | [.nodes .altOp] => some (.node .top)
    | [.nodes .altOp, .tok (some ty)] => if isListOp ty then some (.node .top) else none
    | _ => none
  | "p_simple_list1" => absJoin .altOp .pc isListOp sorts
  | "p_pipeline_command" =>
    match sorts with
    | [.nodes .altPipe] => some (.node .pc)
    | [_, .node .pc] => some (.node .pc)
    | [_, .optNode .semiOp] => some (.node .pc)
    | _ => none
  | "p_pipeline" => absJoin .altPipe .cmd isPipeOp sorts
  | "p_timespec" => absUnimpl sorts
  | "p_empty" => some .none
  | _ => none

/-! ## the grammar obligation -/

/-- every production's action, applied to values of the sorts of its right-hand side, yields a
    value of the sort of its left-hand side (production 0, the augmented start, has no action) -/
def grammarCheck : Bool :=
  (List.zip Gen.prodFuncs Gen.prodTable).all fun (f, (lhs, rhs)) =>
    f == "" || absAction f (rhs.map sortOfSymbol) == some (sortOfSymbol lhs)

/-- symbols at which the parser may accept -/
def accSort (σ : Srt) : Bool := σ == .optNode .top || σ == .node .top

end Bashlex.C12
