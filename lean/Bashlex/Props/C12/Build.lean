/-
  C12, part 3: "constructor lemmas" — `TreeOK` of a node from facts about its parts — and basic
  facts about the classes of `Sorts.lean`.
-/
import Bashlex.Props.C12.Sorts

namespace Bashlex.C12
open Bashlex Bashlex.Spec Bashlex.Node

theorem localOK_of_nil {n : Node} (h : localSchemaViol n = []) (hh : hidOK n) : LocalOK n :=
  ⟨Or.inl h, hh⟩

theorem treeOK_mk {n : Node} (h : LocalOK n) (hc : ∀ c, c ∈ n.children → TreeOK c) : TreeOK n :=
  treeOK_iff.mpr ⟨h, hc⟩

/-! ### leaves -/

theorem tk_operator {p op} (h : listOps.contains op = true) : TreeOK (.operator p op) :=
  treeOK_mk (localOK_of_nil (by simp only [localSchemaViol, h]; simp) trivial) (by simp [children])

theorem tk_reservedword {p w} (h : w ≠ []) : TreeOK (.reservedword p w) :=
  treeOK_mk (localOK_of_nil (by simp [localSchemaViol, h]) trivial) (by simp [children])

theorem tk_pipe {p w} (h : pipeOps.contains w = true) : TreeOK (.pipe p w) :=
  treeOK_mk (localOK_of_nil (by simp only [localSchemaViol, h]; simp) trivial) (by simp [children])

theorem tk_parameter {p v} : TreeOK (.parameter p v) :=
  treeOK_mk (localOK_of_nil (by simp [localSchemaViol]) trivial) (by simp [children])

theorem tk_tilde {p v} : TreeOK (.tilde p v) :=
  treeOK_mk (localOK_of_nil (by simp [localSchemaViol]) trivial) (by simp [children])

theorem tk_heredoc {p v} : TreeOK (.heredoc p v) :=
  treeOK_mk (localOK_of_nil (by simp [localSchemaViol]) trivial) (by simp [children])

/-! ### inner nodes -/

theorem isEmpty_false {α} {l : List α} (h : l ≠ []) : l.isEmpty = false := by
  cases l with
  | nil => exact absurd rfl h
  | cons _ _ => rfl

theorem tk_list {p ps} (h1 : alternates isOperator true ps = true) (h2 : 2 ≤ ps.length)
    (hc : ∀ c, c ∈ ps → TreeOK c) : TreeOK (.list p ps) :=
  treeOK_mk (localOK_of_nil (by simp only [localSchemaViol, h1]; simp [h2]) trivial)
    (by simpa [children] using hc)

theorem tk_command {p ps} (hne : ps ≠ []) (hc : ∀ c, c ∈ ps → TreeOK c ∧ isCmdPart c = true) :
    TreeOK (.command p ps) := by
  refine treeOK_mk (localOK_of_nil ?_ trivial) (by simpa [children] using fun c h => (hc c h).1)
  simp only [localSchemaViol, isEmpty_false hne]
  simp
  intro c hcm
  have := (hc c hcm).2
  cases c <;> simp_all [isCmdPart]

def compElem : Node → Bool
  | .reservedword .. | .list .. | .ifN .. | .forN .. | .whileN .. | .untilN .. | .caseN ..
  | .pattern .. => true
  | c => isCommandLike c

theorem tk_compound {p l r} (hne : l ≠ []) (hl : ∀ c, c ∈ l → TreeOK c ∧ compElem c = true)
    (hr : ∀ c, c ∈ r → TreeOK c ∧ isRedirect c = true) : TreeOK (.compound p l r) := by
  refine treeOK_mk (localOK_of_nil ?_ trivial) ?_
  · simp only [localSchemaViol, isEmpty_false hne]
    simp
    constructor
    · intro c hcm
      have := (hl c hcm).2
      cases c <;> simp_all [compElem]
    · intro c hcm
      have := (hr c hcm).2
      cases c <;> simp_all [isRedirect]
  · intro c hc
    simp only [children, List.mem_append] at hc
    rcases hc with hc | hc
    · exact (hl c hc).1
    · exact (hr c hc).1

theorem tk_if {p ps} (hne : ps ≠ []) (hc : ∀ c, c ∈ ps → IfPart c) : TreeOK (.ifN p ps) := by
  refine treeOK_mk (localOK_of_nil ?_ trivial) (by simpa [children] using fun c h => (hc c h).1)
  simp only [localSchemaViol, isEmpty_false hne]
  simp
  intro c hcm
  obtain ⟨_, h | h | h⟩ := hc c hcm <;> cases c <;> simp_all [isResWord, isListN, isCommandLike]

theorem tk_while {p ps} (hne : ps ≠ []) (hc : ∀ c, c ∈ ps → IfPart c) : TreeOK (.whileN p ps) := by
  refine treeOK_mk (localOK_of_nil ?_ trivial) (by simpa [children] using fun c h => (hc c h).1)
  simp only [localSchemaViol, isEmpty_false hne]
  simp
  intro c hcm
  obtain ⟨_, h | h | h⟩ := hc c hcm <;> cases c <;> simp_all [isResWord, isListN, isCommandLike]

theorem tk_until {p ps} (hne : ps ≠ []) (hc : ∀ c, c ∈ ps → IfPart c) : TreeOK (.untilN p ps) := by
  refine treeOK_mk (localOK_of_nil ?_ trivial) (by simpa [children] using fun c h => (hc c h).1)
  simp only [localSchemaViol, isEmpty_false hne]
  simp
  intro c hcm
  obtain ⟨_, h | h | h⟩ := hc c hcm <;> cases c <;> simp_all [isResWord, isListN, isCommandLike]

def ForPart (c : Node) : Prop :=
  TreeOK c ∧ (isResWord c = true ∨ isWordN c = true ∨ isCommandLike c = true ∨ isListN c = true)

theorem tk_for {p ps} (hne : ps ≠ []) (hc : ∀ c, c ∈ ps → ForPart c) : TreeOK (.forN p ps) := by
  refine treeOK_mk (localOK_of_nil ?_ trivial) (by simpa [children] using fun c h => (hc c h).1)
  simp only [localSchemaViol, isEmpty_false hne]
  simp
  intro c hcm
  obtain ⟨_, h | h | h | h⟩ := hc c hcm <;> cases c <;>
    simp_all [isResWord, isListN, isWordN, isCommandLike]

def CasePart (c : Node) : Prop :=
  TreeOK c ∧ (isResWord c = true ∨ isWordN c = true ∨ isCompound c = true)

theorem tk_case {p ps} (hne : ps ≠ []) (hc : ∀ c, c ∈ ps → CasePart c) : TreeOK (.caseN p ps) := by
  refine treeOK_mk (localOK_of_nil ?_ trivial) (by simpa [children] using fun c h => (hc c h).1)
  simp only [localSchemaViol, isEmpty_false hne]
  simp
  intro c hcm
  obtain ⟨_, h | h | h⟩ := hc c hcm <;> cases c <;> simp_all [isResWord, isWordN, isCompound]

theorem tk_pattern {p ps} (hne : ps ≠ [])
    (hc : ∀ c, c ∈ ps → TreeOK c ∧ (isWordN c = true ∨ isBarWord c = true)) :
    TreeOK (.pattern p ps) := by
  refine treeOK_mk (localOK_of_nil ?_ trivial) (by simpa [children] using fun c h => (hc c h).1)
  simp only [localSchemaViol, isEmpty_false hne]
  simp
  intro c hcm
  obtain ⟨_, h | h⟩ := hc c hcm <;> cases c <;> simp_all [isWordN, isBarWord]

theorem tk_function {p ni bi ps} (hn : ∃ c, ps[ni]? = some c ∧ isWordN c = true)
    (hb : ∃ c, ps[bi]? = some c ∧ isCompound c = true) (hc : ∀ c, c ∈ ps → CasePart c) :
    TreeOK (.function p ni bi ps) := by
  refine treeOK_mk (localOK_of_nil ?_ trivial) (by simpa [children] using fun c h => (hc c h).1)
  obtain ⟨cn, hcn, hwn⟩ := hn
  obtain ⟨cb, hcb, hwb⟩ := hb
  simp only [localSchemaViol, hcn, hcb]
  simp
  refine ⟨?_, ?_, ?_⟩
  · cases cn <;> simp_all [isWordN]
  · cases cb <;> simp_all [isCompound]
  · intro c hcm
    obtain ⟨_, h | h | h⟩ := hc c hcm <;> cases c <;> simp_all [isResWord, isWordN, isCompound]

def isWordPart : Node → Bool
  | .parameter .. | .tilde .. | .commandsubstitution .. | .processsubstitution .. => true
  | _ => false

theorem tk_word {p w ps} (hc : ∀ c, c ∈ ps → TreeOK c ∧ isWordPart c = true) :
    TreeOK (.word p w ps) := by
  refine treeOK_mk (localOK_of_nil ?_ trivial) (by simpa [children] using fun c h => (hc c h).1)
  simp only [localSchemaViol]
  simp
  intro c hcm
  have := (hc c hcm).2
  cases c <;> simp_all [isWordPart]

theorem tk_assignment {p w ps} (hc : ∀ c, c ∈ ps → TreeOK c ∧ isWordPart c = true) :
    TreeOK (.assignment p w ps) := by
  refine treeOK_mk (localOK_of_nil ?_ trivial) (by simpa [children] using fun c h => (hc c h).1)
  simp only [localSchemaViol]
  simp
  intro c hcm
  have := (hc c hcm).2
  cases c <;> simp_all [isWordPart]

theorem tk_unimplemented {p ps} (hne : ps ≠ []) (hc : ∀ c, c ∈ ps → TreeOK c) :
    TreeOK (.unimplemented p ps) :=
  treeOK_mk (localOK_of_nil (by simp only [localSchemaViol, isEmpty_false hne]; simp) trivial)
    (by simpa [children] using hc)

theorem tk_cmdsub {p c} (h : InCls .top c) : TreeOK (.commandsubstitution p c) := by
  refine treeOK_mk (localOK_of_nil ?_ trivial) (by simpa [children] using h.1)
  obtain ⟨_, h | h⟩ := h
  · simp only [localSchemaViol, h]; simp
  · cases c <;> simp_all [isListN, localSchemaViol]

theorem tk_procsub {p c} (h : InCls .top c) : TreeOK (.processsubstitution p c) := by
  refine treeOK_mk (localOK_of_nil ?_ trivial) (by simpa [children] using h.1)
  obtain ⟨_, h | h⟩ := h
  · simp only [localSchemaViol, h]; simp
  · cases c <;> simp_all [isListN, localSchemaViol]

/-- a redirect without here-document body -/
theorem tk_redirect {p inp ty o oa hid} (hty : redirOps.contains ty = true)
    (hinp : ∀ s, inp = .str s → s ≠ [])
    (hout : (∃ w, o = some w ∧ isWordN w = true ∧ TreeOK w ∧ oa = .none) ∨
            (o = none ∧ ((∃ k, oa = .num k) ∨ oa = .str ['-'])))
    (hhid : hid ≠ none → ty = ['<', '<'] ∨ ty = ['<', '<', '-']) :
    TreeOK (.redirect p inp ty o oa none hid) := by
  refine treeOK_mk (localOK_of_nil ?_ ?_) ?_
  · simp only [localSchemaViol, hty]
    simp
    refine ⟨?_, ?_⟩
    · cases inp with
      | str s => simpa using hinp s rfl
      | _ => rfl
    · rcases hout with ⟨w, rfl, hw, _, rfl⟩ | ⟨rfl, ⟨k, rfl⟩ | rfl⟩
      · cases w <;> simp_all [isWordN]
      · rfl
      · rfl
  · cases hid with
    | none => trivial
    | some id => exact hhid (by simp)
  · intro c hc
    simp only [children, Option.toList_none, List.append_nil, Option.mem_toList] at hc
    rcases hout with ⟨w, rfl, _, hw, _⟩ | ⟨rfl, _⟩
    · simp at hc; subst hc; exact hw
    · simp at hc

/-! ### pipelines -/

theorem isBang_not_commandLike {b : Node} (h : isBang b = true) : isCommandLike b = false := by
  cases b <;> simp_all [isBang, isCommandLike]

theorem alternates_ne_nil {isSep : Node → Bool} {t : Bool} {l : List Node}
    (h : alternates isSep t l = true) : l ≠ [] := by
  intro hl; subst hl; simp [alternates] at h

theorem alternates_head {isSep : Node → Bool} {t : Bool} {a : Node} {l : List Node}
    (h : alternates isSep t (a :: l) = true) : isCommandLike a = true := by
  cases l with
  | nil => simpa [alternates] using h
  | cons b rest =>
    simp only [alternates, Bool.and_eq_true] at h
    exact h.1.1

theorem pipeSig_operator (p : Span) :
    pipeSig ([Node.operator p [';']].map Node.kind) = "pipeline-not-alternating:[operator]" := by
  show pipeSig ["operator"] = _
  decide

theorem tk_pipeline {p ps} (hb : PipeBody ps) (hc : ∀ c, c ∈ ps → TreeOK c) :
    TreeOK (.pipeline p ps) := by
  refine treeOK_mk ⟨Or.inr ⟨⟨_, _, rfl⟩, ?_⟩, trivial⟩ (by simpa [children] using hc)
  rcases hb with ⟨halt, hlen⟩ | ⟨b, r, rfl, hbang, htail⟩
  · cases ps with
    | nil => simp at hlen
    | cons b rest =>
      have hcl := alternates_head halt
      have hnb : isBang b = false := by
        cases hb : isBang b with
        | false => rfl
        | true => rw [isBang_not_commandLike hb] at hcl; cases hcl
      intro v hv
      simp only [localSchemaViol, hnb, halt] at hv
      simp only [List.length_cons] at hlen
      simp at hv
      omega
  · intro v hv
    simp only [localSchemaViol, hbang, if_true] at hv
    rcases htail with rfl | ⟨q, rfl⟩ | halt | ⟨b', r', rfl, hb'⟩
    · simp at hv
      subst hv
      exact Or.inl (by simp [C12_known])
    · have : alternates isPipe false [Node.operator q [';']] = false := rfl
      simp only [List.isEmpty_cons, this] at hv
      simp at hv
      subst hv
      left
      show pipeSig ([Node.operator q [';']].map Node.kind) ∈ C12_known
      rw [pipeSig_operator]; simp [C12_known]
    · simp only [isEmpty_false (alternates_ne_nil halt), halt] at hv
      simp at hv
    · simp only [List.isEmpty_cons, Bool.false_eq_true, if_false] at hv
      split at hv
      · simp at hv
      · simp only [List.mem_singleton] at hv
        subst hv
        exact Or.inr ⟨b', r', hb', rfl⟩

/-! ### classes -/

theorem InCls.tree {c : NCls} {n : Node} (h : InCls c n) : TreeOK n := by
  cases c with
  | semiOp =>
    obtain ⟨p, rfl⟩ := h
    exact tk_operator (by decide)
  | _ => exact h.1

theorem InCls.le_sound {c d : NCls} {n : Node} (hle : c.le d = true) (h : InCls c n) :
    InCls d n := by
  have hcl : ∀ {m : Node}, isCompound m = true → CmdNP m := by
    intro m hm; cases m <;> simp_all [isCompound, CmdNP, isCommandLike, isPipeline]
  have hun : ∀ {m : Node}, isUnimpl m = true → CmdNP m := by
    intro m hm; cases m <;> simp_all [isUnimpl, CmdNP, isCommandLike, isPipeline]
  have hfn : ∀ {m : Node}, isFunction m = true → CmdNP m := by
    intro m hm; cases m <;> simp_all [isFunction, CmdNP, isCommandLike, isPipeline]
  have hpc : InCls .pc n → isCommandLike n = true := by
    rintro ⟨_, h | ⟨p, parts, rfl, _⟩⟩
    · exact h.1
    · rfl
  cases c <;> cases d <;> first
    | exact h
    | (exfalso; revert hle; decide)
    | exact ⟨h.1, Or.inl (hpc h)⟩
    | exact ⟨h.1, Or.inl h.2.1⟩
    | exact ⟨h.1, Or.inl (hcl h.2).1⟩
    | exact ⟨h.1, Or.inl (hun h.2).1⟩
    | exact ⟨h.1, Or.inl (hfn h.2).1⟩
    | exact ⟨h.1, Or.inl h.2⟩
    | exact ⟨h.1, Or.inl (hcl h.2)⟩
    | exact ⟨h.1, Or.inl (hun h.2)⟩
    | exact ⟨h.1, Or.inl (hfn h.2)⟩
    | exact ⟨h.1, hcl h.2⟩
    | exact ⟨h.1, hun h.2⟩
    | exact ⟨h.1, hfn h.2⟩

theorem InCls.top_of_le {c : NCls} {n : Node} (hle : c.le .top = true) (h : InCls c n) :
    InCls .top n := InCls.le_sound hle h

theorem Alt.mem {X S : Node → Prop} {l : List Node} (h : Alt X S l) :
    ∀ n, n ∈ l → X n ∨ S n := by
  induction h with
  | single hx => intro n hn; simp at hn; subst hn; exact Or.inl hx
  | cons hx hs _ ih =>
    intro n hn
    simp only [List.mem_cons] at hn
    rcases hn with rfl | rfl | hn
    · exact Or.inl hx
    · exact Or.inr hs
    · exact ih n hn

theorem Alt.append {X S : Node → Prop} {l r : List Node} {b : Node} (hl : Alt X S l) (hb : S b)
    (hr : Alt X S r) : Alt X S (l ++ b :: r) := by
  induction hl with
  | single hx => exact .cons hx hb hr
  | cons hx hs _ ih => exact .cons hx hs ih

theorem Alt.ne_nil {X S : Node → Prop} {l : List Node} (h : Alt X S l) : l ≠ [] := by
  cases h <;> simp

theorem Alt.length {X S : Node → Prop} {l : List Node} (h : Alt X S l) :
    l.length = 1 ∨ 3 ≤ l.length := by
  cases h with
  | single _ => left; rfl
  | cons _ _ hr =>
    right
    have := hr.ne_nil
    cases hr <;> simp

theorem Alt.alternates {X S : Node → Prop} {isSep : Node → Bool} {l : List Node}
    (hX : ∀ a, X a → isCommandLike a = true) (hS : ∀ b, S b → isSep b = true) (h : Alt X S l) :
    alternates isSep false l = true := by
  induction h with
  | single hx => simpa [Spec.alternates] using hX _ hx
  | cons hx hs hr ih =>
    simp only [Spec.alternates, hX _ hx, hS _ hs, Bool.true_and, isEmpty_false hr.ne_nil]
    simpa using ih

/-- an alternation without trailing separator is one where a trailing separator is allowed -/
theorem alternates_weaken {isSep : Node → Bool} :
    ∀ l : List Node, alternates isSep false l = true → alternates isSep true l = true
  | [], h => by simp [alternates] at h
  | [a], h => by simpa [alternates] using h
  | a :: b :: rest, h => by
    simp only [alternates, Bool.and_eq_true] at h ⊢
    refine ⟨h.1, ?_⟩
    cases rest with
    | nil => simp
    | cons c cs =>
      simp only [List.isEmpty_cons] at h ⊢
      exact alternates_weaken (c :: cs) (by simpa using h.2)

theorem alternates_snoc {isSep : Node → Bool} {b : Node} (hb : isSep b = true) :
    ∀ l : List Node, alternates isSep false l = true → alternates isSep true (l ++ [b]) = true
  | [], h => by simp [alternates] at h
  | [a], h => by simpa [alternates, hb] using h
  | a :: c :: rest, h => by
    simp only [alternates, Bool.and_eq_true] at h
    cases rest with
    | nil => simp at h
    | cons d ds =>
      simp only [List.isEmpty_cons] at h
      have ih := alternates_snoc hb (d :: ds) (by simpa using h.2)
      simp only [List.cons_append, alternates, h.1.1, h.1.2, Bool.true_and]
      simpa using ih

theorem InL.tree {k : LCls} {l : List Node} (h : InL k l) : ∀ n, n ∈ l → TreeOK n := by
  cases k with
  | words => exact fun n hn => (h n hn).1
  | cmdparts => exact fun n hn => (h.2 n hn).1
  | redirects => exact fun n hn => (h n hn).1
  | ifparts => exact fun n hn => (h n hn).1
  | caseparts => exact fun n hn => (h n hn).1
  | patparts => exact fun n hn => (h n hn).1
  | altOp =>
    intro n hn
    rcases Alt.mem h n hn with hx | hx
    · exact hx.tree
    · exact hx.1
  | altPipe =>
    intro n hn
    rcases Alt.mem h n hn with hx | hx
    · exact hx.tree
    · exact hx.1

theorem pc_commandLike {n : Node} (h : InCls .pc n) : isCommandLike n = true := by
  obtain ⟨_, h | ⟨p, parts, rfl, _⟩⟩ := h
  · exact h.1
  · rfl

end Bashlex.C12
