/-
  C12, part 5: word expansion.  Given a nested parser that returns only conformant command-like
  or list nodes, `expandword` returns a conformant `word` node.
-/
import Bashlex.Props.C12.Actions

namespace Bashlex.C12
open Bashlex Bashlex.Spec Bashlex.Node Bashlex.M Bashlex.LR
set_option linter.unusedSimpArgs false
set_option linter.unusedVariables false

/-- the nested parser returns only conformant command-like or list nodes -/
def NPOK (np : NestedParse) : Prop :=
  ∀ s b, Sat (np s b) (fun r => ∀ n, r = some n → InCls .top n)

/-- a part of a word -/
def WPart (c : Node) : Prop := TreeOK c ∧ isWordPart c = true

theorem top_shift {n : Node} (k : Nat) (h : InCls .top n) : InCls .top (n.shift k) := by
  refine ⟨treeOK_shift k h.1, ?_⟩
  have h1 : isCommandLike (n.shift k) = isCommandLike n := by
    rw [← isCommandLike_norm, norm_shift, isCommandLike_norm]
  have h2 : isListN (n.shift k) = isListN n := by
    have : ∀ a, isListN (norm a) = isListN a := fun a => by cases a <;> rfl
    rw [← this, norm_shift, this]
  rw [h1, h2]; exact h.2

theorem sat_adjustpositions {n : Node} {base lim : Nat} (h : InCls .top n) :
    Sat (adjustpositions n base lim) (fun r => InCls .top r) := by
  unfold adjustpositions
  split
  · exact Sat.pure (top_shift base h)
  · exact Sat.foreign trivial

theorem sat_recursiveparse {np : NestedParse} (hnp : NPOK np) (base : Str) (sindex : Nat) (b : Bool) :
    Sat (recursiveparse np base sindex b) (fun r => InCls .top r.1) := by
  unfold recursiveparse
  refine Sat.bind (hnp _ _) (fun r hr => ?_)
  split
  · exact Sat.foreign trivial
  · rename_i node
    simp only []
    exact Sat.bind (sat_adjustpositions (hr node rfl)) (fun n' hn' => Sat.pure hn')

theorem sat_parsedolparen {np : NestedParse} (hnp : NPOK np) (base : Str) (sindex : Nat) :
    Sat (parsedolparen np base sindex) (fun r => InCls .top r.1) := by
  unfold parsedolparen
  simp only []
  refine Sat.bind (sat_recursiveparse hnp _ _ _) (fun r hr => ?_)
  obtain ⟨node, endp⟩ := r
  simp only []
  split
  · exact Sat.foreign trivial
  · exact Sat.pure hr

theorem sat_paramexpand {np : NestedParse} (hnp : NPOK np) (string : Str) (sindex : Nat) :
    Sat (paramexpand np string sindex) (fun r => ∀ n, r.1 = some n → WPart n) := by
  unfold paramexpand
  simp only []
  have hparam : ∀ (p : Span) (v : Str) (k : Nat),
      Sat (pure (some (Node.parameter p v), k) : M (Option Node × Nat))
        (fun r => ∀ n, r.1 = some n → WPart n) := by
    intro p v k
    refine Sat.pure ?_
    intro n hn; cases hn; exact ⟨tk_parameter, rfl⟩
  split
  · exact hparam _ _ _
  · split
    · exact hparam _ _ _
    · split
      · split
        · exact Sat.pure (fun n hn => by cases hn)
        · exact hparam _ _ _
      · split
        · split
          · exact Sat.foreign trivial
          · split
            · exact Sat.raise trivial
            · refine Sat.bind (sat_parsedolparen hnp _ _) (fun r hr => Sat.pure ?_)
              intro n hn; cases hn
              exact ⟨tk_cmdsub hr, rfl⟩
        · split
          · exact Sat.raise trivial
          · exact hparam _ _ _

theorem sat_expandStep {np : NestedParse} (hnp : NPOK np) (tok : Token) (string : Str) (qd : Bool)
    (st : ExpSt) (hst : ∀ c, c ∈ st.parts → WPart c) :
    Sat (expandStep np tok string qd st)
      (Sum.elim (fun st' => ∀ c, c ∈ st'.parts → WPart c) (fun r => ∀ c, c ∈ r.1 → WPart c)) := by
  unfold expandStep
  simp only []
  have snoc : ∀ n, WPart n → ∀ c, c ∈ st.parts ++ [n] → WPart c := by
    intro n hn c hc
    rcases List.mem_append.mp hc with hc | hc
    · exact hst c hc
    · simp at hc; subst hc; exact hn
  refine Sat.ite (fun _ => Sat.pure hst) (fun _ => ?_)
  split
  · exact Sat.foreign trivial
  rename_i c hc
  refine Sat.ite (fun _ => Sat.ite (fun _ => Sat.pure hst) (fun _ => ?_)) (fun _ => ?_)
  · refine Sat.bind (sat_parsedolparen hnp _ _) (fun r hr => Sat.pure ?_)
    exact snoc _ ⟨tk_procsub hr, rfl⟩
  refine Sat.ite (fun _ => Sat.ite (fun _ => Sat.pure hst) (fun _ => Sat.pure ?_)) (fun _ => ?_)
  · simp only [Sum.elim_inl]
    split
    · exact snoc _ ⟨tk_tilde, rfl⟩
    · exact hst
  refine Sat.ite (fun _ => ?_) (fun _ => ?_)
  · refine Sat.bind (sat_paramexpand hnp _ _) (fun r hr => Sat.pure ?_)
    show ∀ c, c ∈ (match r.1 with | some n => st.parts ++ [n] | none => st.parts) → WPart c
    cases hr1 : r.1 with
    | none => exact hst
    | some n => exact snoc n (hr n hr1)
  refine Sat.ite (fun _ => Sat.ite (fun _ => Sat.pure hst) (fun _ => ?_)) (fun _ => ?_)
  · split
    · exact Sat.bind_any (fun _ => Sat.raise trivial)
    · refine Sat.bind (sat_recursiveparse hnp _ _ _) (fun r hr => ?_)
      refine Sat.bind (sat_adjustpositions hr) (fun cmd hcmd => Sat.pure ?_)
      exact snoc _ ⟨tk_cmdsub hcmd, rfl⟩
  refine Sat.ite (fun _ => Sat.pure hst) (fun _ => ?_)
  refine Sat.ite (fun _ => Sat.pure hst) (fun _ => ?_)
  refine Sat.ite (fun _ => Sat.ite (fun _ => Sat.pure ?_) (fun _ => Sat.ite (fun _ => Sat.pure hst)
    (fun _ => Sat.pure hst))) (fun _ => Sat.pure hst)
  intro c hc; cases hc

theorem wpart_shift {c : Node} (k : Nat) (h : WPart c) : WPart (c.shift k) := by
  refine ⟨treeOK_shift k h.1, ?_⟩
  have : ∀ a, isWordPart (norm a) = isWordPart a := fun a => by cases a <;> rfl
  rw [← this, norm_shift, this]; exact h.2

theorem sat_expandwordinternal {np : NestedParse} (hnp : NPOK np) (tok : Token) (qd : Bool) :
    Sat (expandwordinternal np tok qd) (fun r => ∀ c, c ∈ r.1 → WPart c) := by
  unfold expandwordinternal
  simp only []
  refine Sat.bind (Sat.loop (I := fun st => ∀ c, c ∈ st.parts → WPart c)
    (R := fun r => ∀ c, c ∈ r.1 → WPart c) trivial
    (fun st hst => sat_expandStep hnp tok _ qd st hst) _ _ (by simp)) ?_
  rintro ⟨parts, istring, early⟩ hparts
  simp only [] at hparts ⊢
  have hshift : ∀ c, c ∈ List.map (fun x => shift tok.lexpos x) parts → WPart c := by
    intro c hc
    obtain ⟨c', hc', rfl⟩ := List.mem_map.mp hc
    exact wpart_shift _ (hparts c' hc')
  refine Sat.ite (fun _ => Sat.pure hparts) (fun _ => Sat.ite (fun _ => ?_) (fun _ => Sat.pure hshift))
  exact Sat.bind_any (fun _ => Sat.pure hshift)

theorem sat_expandword {np : NestedParse} (hnp : NPOK np) : WordSat np := by
  intro tok
  unfold expandword
  simp only []
  refine Sat.bind_any (fun l => ?_)
  have hfin : ∀ qd, Sat (do
      let x ← expandwordinternal np tok qd
      pure (word (tok.lexpos, tok.endlexpos) x.snd
        (if (l.limit == some 0) = true then List.filter (fun n => !isSubstitution n) x.fst
         else x.fst)) : M Node) WordOK := by
    intro qd
    refine Sat.bind (sat_expandwordinternal hnp tok qd) (fun r hr => Sat.pure ⟨tk_word ?_, _, _, _, rfl⟩)
    split
    · intro c hc
      exact hr c (List.mem_filter.mp hc).1
    · exact hr
  refine Sat.ite (fun _ => Sat.pure ⟨tk_plainword, _, _, _, rfl⟩) (fun _ => ?_)
  refine Sat.ite (fun _ => ?_) (fun _ => Sat.bind_any (fun _ => hfin _))
  split
  · exact Sat.bind_any (fun _ => hfin _)
  · exact Sat.bind_any (fun _ => hfin _)
end Bashlex.C12
