/-
  C12: the entries of `C12_known` and the first members of the `C12_multiBang` family are really
  produced by the model (kernel-evaluated runs of `parse`).
-/
import Bashlex.Props.C12

namespace Bashlex.C12
open Bashlex

/-- the violation lists of the trees `parse` returns (`[]` if it does not return trees) -/
def violsOf (s : Str) (o : Opts := {}) : List (List String) :=
  match (parse s o).1 with
  | .parts ps => ps.map Spec.schemaOK
  | _ => []

/-- `! ;` -/
theorem witness_bang_semi :
    violsOf ['!', ' ', ';'] = [["pipeline-not-alternating:[operator]"]] := by decide +kernel

/-- `!` newline newline -/
theorem witness_bang_newline :
    violsOf ['!', '\n', '\n'] = [["pipeline-bang-without-command"]] := by decide +kernel

/-- `! ! a` -/
theorem witness_bang_bang :
    violsOf ['!', ' ', '!', ' ', 'a'] = [["pipeline-not-alternating:[reservedword, command]"]] := by
  decide +kernel

/-- `time ;` with `proceedonerror` -/
theorem witness_time_semi :
    violsOf ['t', 'i', 'm', 'e', ' ', ';'] { proceed := true } =
      [["pipeline-not-alternating:[operator]"]] := by decide +kernel

end Bashlex.C12
