/-
  C12, part 2b: the grammar obligation and the accept entries, decided by the kernel on the
  generated tables (re-checked whenever the grammar changes).
-/
import Bashlex.Props.C12.Sorts
import Bashlex.Model.Parse

namespace Bashlex.C12
open Bashlex Bashlex.LR

/-! ## the value invariant of the LR engine -/

def VI (sym : Nat) (v : SVal) : Prop := HasSort (sortOfSymbol sym) v
def AccSym (sym : Nat) : Prop := accSort (sortOfSymbol sym) = true

/-- the grammar obligation, checked by the kernel on the generated tables -/
theorem grammar_ok : grammarCheck = true := by decide +kernel

/-- the `accept` entries of the generated action table sit in states entered on a symbol at which
    accepting is fine (`inputunit`) -/
theorem accept_ok : realRaw.checkAccept (fun s => accSort (sortOfSymbol s)) = true := by
  decide +kernel

theorem prodFuncs_length : Gen.prodFuncs.length = Gen.prodTable.length := by decide +kernel

theorem tok_sorts : ∀ ty : TokType, sortOfSymbol ty.sym = .tok (some ty) := by
  intro ty; cases ty <;> decide +kernel

theorem err_sort : sortOfSymbol 1 = .tok none := by decide +kernel

end Bashlex.C12
