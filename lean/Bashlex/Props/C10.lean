/-
  Property C10, the reader part, at model level:
  "Each '<<' or '<<-' redirection is paired with the here-document that follows the line it
   appears on, bodies being consumed in the order their operators appear.  The body runs to the
   first line equal to the quote-removed delimiter ('<<-' ignoring leading tabs); the body node's
   value and span are exactly that text through the delimiter line, and parsing resumes after it."

  What is proved here, for ALL states of a parser — top-level parsers (tape in the environment)
  and nested parsers (tape in the local state) by one and the same theorem, see `Tape.lean`:

    readline_spec     `readline(False)` returns `specReadline`'s text and moves the cursor there
    makeheredoc_spec  `makeheredoc` attaches exactly `specHeredoc`'s document with span
                      `(start, cursor' - 1)`, extends the redirect's span iff the body starts right
                      after it, moves the cursor to `cursor'`, changes nothing else; if the input
                      ends first it raises the ParsingError `eofError` (in both modes)
    gather_spec       `gatherheredocuments` = the fold `specGather` over the queue, oldest first:
                      body i+1 starts where body i ended (`specGather_cons`), the queue is empty
                      afterwards; non-strict mode at the end of input bumps the cursor and leaves
                      the rest queued.  `specGatherS_fifo` spells out "the i-th queued redirect
                      gets the i-th body; nothing else in the store changes".
    specHeredoc_*     the pure specification is the right one (`Facts.lean`): the value ends
                      with the delimiter, is the concatenation of the lines before the FIRST line
                      that equals the delimiter, is (for '<<') the consumed slice of the input
                      modulo continuation pairs, and the cursor afterwards is just behind the
                      newline of the delimiter line (or at the end of the input).
    *_local, *_top    the instances for `Local.tape = some t` and `Local.tape = none`
    *_top_eq_local    the simulation "a top-level run equals the local-tape run with the tape
                      moved into the state" for `gatherheredocuments`, `makeheredoc`, `readline`
                      (any state, no hypotheses), from the generic framework of `Sim.lean`
                      (`SimEq`, closed under `bind`/`loop`, one lemma per tape accessor).

  Hypotheses (`Ready l e`), all true whenever the tokenizer enters `gatherheredocuments` from
  `_readtoken` on an input built by `Tape.ofInput` of length < 2^30 in strict mode:
    eol   `_eol_ungetc_lookahead` is empty.  PROVED for the call site in `_readtoken`, in every
          state (`readtoken_gather_slot_empty`, `Entry.lean`: a guard on the slot in front of the
          call is dead, because the call follows a `_getc`, `getc_clears_slot`).  At the second
          call site (action `p_simple_list`) it is a hypothesis: `_ungetc` fills the slot only
          when the line is empty or the cursor is beyond the end (`Tape.ungetc`), i.e. only
          after a non-strict bump, so it holds there in strict mode.
    idx   the cursor is inside the input (false only after a non-strict bump:
          `gather_beyond_end` covers that case).
    len   |input| < 2^30 — the model's loop fuel (`loopFuel`); beyond it the model (not the
          implementation) gives `outOfFuel`.
    nbs   the input does not end in a backslash (`ofInput_noFinalBackslash`); otherwise `_getc`
          raises IndexError.

  NOT covered (the known findings of C10 live there; these theorems are about the reader GIVEN
  the queue):
    * WHEN the parser queues a redirect relative to when the tokenizer gathers (the LALR
      look-ahead, defect D11): inside `( )`, `{ }`, function bodies and `case` the redirect is
      queued only after the tokenizer has passed the newline, so the body is gathered one line too
      late.  Witness (checked with `#eval (parse "(cat <<E\nx\nE\n)\n".toList {}).1`): the
      heredoc node is `(11, 12) "E"` and `x` is parsed as a command.
    * quote removal of the delimiter: `RedirCell.delim` is the RAW token (`redirnode.output.word`)
      and is compared as such, so `<<'E'` never matches.  Witness:
      `#eval (parse "cat <<'E'\nx\nE\n".toList {}).1` =
      ParsingError "here-document at line 0 delimited by end-of-file (wanted \"'E'\")" at 14.
    * that `resolve` copies the store cell into the tree (`Model/Parse.lean`, by definition).
  Further observations (not defects of the model; behaviour of the implementation it copies):
    * a body does not start at the cursor but after the continuation pairs `_peekc` skips
      (`skipContIdx`): `#eval (parse "cat <<E\n\\\nx\nE\n".toList {}).1` has heredoc `(10, 13)`;
    * continuation pairs are removed inside bodies even for quoted delimiters, and a delimiter
      line may be spliced from `E\<newline>` pieces (`readline(False)` sits on `_getc(True)`);
    * in non-strict mode only a body that has not begun is skipped; an unterminated body raises
      the ParsingError in both modes (`#eval (parse "cat <<E\nfoo".toList {strict := false}).1`).
-/
import Bashlex.Props.C10.Gather
import Bashlex.Props.C10.Facts
import Bashlex.Props.C10.Sim
import Bashlex.Props.C10.Entry

namespace Bashlex.C10
open Bashlex
set_option linter.unusedSimpArgs false
set_option linter.unusedVariables false

/-! ## statements in terms of `(line, idx)` -/

/-- the hypotheses of the reader theorems (see the header for where they hold) -/
structure Ready (l : Local) (e : Env) : Prop where
  eol : l.eolLookahead = none
  idx : (tapeOf l e).idx ≤ (tapeOf l e).line.length
  len : (tapeOf l e).line.length < 1073741824
  nbs : NoFinalBackslash (tapeOf l e).line

/-- the state `(l, e)` with the cursor at `i` -/
def atL (l : Local) (e : Env) (i : Nat) : Local := putL l { tapeOf l e with idx := i }
def atE (l : Local) (e : Env) (i : Nat) : Env := putE l e { tapeOf l e with idx := i }

theorem stL_eq_atL (l : Local) (e : Env) (r : Str) :
    stL l e r = atL l e (posOf (tapeOf l e).line r) := rfl
theorem stE_eq_atE (l : Local) (e : Env) (r : Str) :
    stE l e r = atE l e (posOf (tapeOf l e).line r) := rfl

/-- nested parser: the cursor moves in the local state, the environment is untouched -/
theorem atL_local {l : Local} {t : Tape} (h : l.tape = some t) (e : Env) (i : Nat) :
    atL l e i = { l with tape := some { t with idx := i } } := by
  cases l with
  | mk tape => simp only at h; subst h; rfl
theorem atE_local {l : Local} {t : Tape} (h : l.tape = some t) (e : Env) (i : Nat) :
    atE l e i = e := by
  cases l with
  | mk tape => simp only at h; subst h; rfl
theorem tapeOf_local {l : Local} {t : Tape} (h : l.tape = some t) (e : Env) : tapeOf l e = t := by
  cases l with
  | mk tape => simp only at h; subst h; rfl

/-- top-level parser: the cursor moves in the environment, the local state is untouched -/
theorem atL_top {l : Local} (h : l.tape = none) (e : Env) (i : Nat) : atL l e i = l := by
  cases l with
  | mk tape => simp only at h; subst h; rfl
theorem atE_top {l : Local} (h : l.tape = none) (e : Env) (i : Nat) :
    atE l e i = { e with tape := { e.tape with idx := i } } := by
  cases l with
  | mk tape => simp only at h; subst h; rfl
theorem tapeOf_top {l : Local} (h : l.tape = none) (e : Env) : tapeOf l e = e.tape := by
  cases l with
  | mk tape => simp only at h; subst h; rfl

theorem Ready.suffix {l : Local} {e : Env} (h : Ready l e) :
    (tapeOf l e).line.drop (tapeOf l e).idx <:+ (tapeOf l e).line := List.drop_suffix _ _

theorem Ready.dropLen {l : Local} {e : Env} (h : Ready l e) :
    ((tapeOf l e).line.drop (tapeOf l e).idx).length < 1073741824 := by
  rw [List.length_drop]; have := h.len; omega

/-! ## 2. `readline(False)` -/

/-- `readline(False)` returns `specReadline`'s text and leaves the cursor behind it; at the end
    of the input (`none`) it returns `None` with the cursor at the end. -/
theorem readline_spec {l : Local} {e : Env} (h : Ready l e) :
    M.run (readline false) l e =
      match specReadline (tapeOf l e).line (tapeOf l e).idx with
      | some (txt, i) => (.ok (some txt, atL l e i), atE l e i)
      | none => (.ok (none, atL l e (tapeOf l e).line.length), atE l e (tapeOf l e).line.length) := by
  have key := run_readline_st l e h.eol h.suffix (h.nbs.drop _) h.dropLen
  rw [stL_self h.idx, stE_self h.idx] at key
  rw [key]
  unfold specReadline
  cases specReadlineS ((tapeOf l e).line.drop (tapeOf l e).idx) with
  | none => simp [stL_eq_atL, stE_eq_atE, posOf]
  | some w => obtain ⟨txt, r⟩ := w; simp [stL_eq_atL, stE_eq_atE]

/-! ## 3. `makeheredoc` -/

/-- `makeheredoc(tokenizer, redirnode, 0, killleading)` for the store cell `id`:
    if `specHeredoc` finds the document `v` ending at cursor `i`, the cell gets
    `heredoc = ((start, i - 1), v)`, its `pos` is extended to `(pos.1, i - 1)` iff
    `pos.2 + 1 = start` (`attach`), the cursor is `i`, nothing else changes;
    otherwise ParsingError "here-document at line 0 delimited by end-of-file (wanted …)" with the
    whole input and position = its length (`eofError`), whatever the strictness. -/
theorem makeheredoc_spec {l : Local} {e : Env} (h : Ready l e) {id : Nat} {cell : RedirCell}
    (hcell : l.store[id]? = some cell) (kill : Bool) :
    M.run (makeheredoc id kill) l e =
      match specHeredoc (tapeOf l e).line (tapeOf l e).idx cell.delim kill with
      | some (v, i) =>
        (.ok ((), { atL l e i with
            store := l.store.set id (attach cell (tapeOf l e).idx (i - 1) v) }), atE l e i)
      | none => (.error (eofError cell.delim (tapeOf l e).line), atE l e (tapeOf l e).line.length) := by
  have key := run_makeheredoc_st l e h.eol h.suffix (h.nbs.drop _) h.dropLen hcell kill
  rw [stL_self h.idx, stE_self h.idx] at key
  rw [key]
  unfold specHeredoc
  cases specHeredocS cell.delim kill ((tapeOf l e).line.drop (tapeOf l e).idx) with
  | none => simp [stE_eq_atE, posOf]
  | some w => obtain ⟨v, r⟩ := w; simp [stL_eq_atL, stE_eq_atE, posOf_drop h.idx]

/-! ## 4. `gatherheredocuments` -/

/-- the ways `gatherheredocuments` ends, with cursors -/
inductive GatherOutI where
  /-- the queue is empty; the final store and the cursor -/
  | done (store : List RedirCell) (idx : Nat)
  /-- non-strict mode at the end of input: cursor bumped to `|line| + 1`, `queue` stays pending -/
  | stopped (store : List RedirCell) (queue : List (Nat × Bool))
  /-- the input ended inside a body: ParsingError -/
  | eof (delim : Str)
  /-- an id outside the store (not a Python path) -/
  | badId (idx : Nat)

def GatherOut.toI (line : Str) : GatherOut → GatherOutI
  | .done st r => .done st (posOf line r)
  | .stopped st q => .stopped st q
  | .eof d => .eof d
  | .badId r => .badId (posOf line r)

/-- `gatherheredocuments` as a pure function of queue, store and cursor -/
def specGather (line : Str) (strict : Bool) (queue : List (Nat × Bool)) (store : List RedirCell)
    (idx : Nat) : GatherOutI :=
  (specGatherS line strict queue store (line.drop idx)).toI line

/-- the cursor after the continuation pairs `_peekc()` skips -/
def skipContIdx (line : Str) (idx : Nat) : Nat := posOf line (skipCont (line.drop idx))

/-- outcome of `gatherheredocuments` started in `(l, e)` -/
def gatherResultI (l : Local) (e : Env) : GatherOutI → Except Exn (Unit × Local) × Env
  | .done store i => (.ok ((), { atL l e i with redirstack := [], store := store }), atE l e i)
  | .stopped store q =>
    (.ok ((), { atL l e ((tapeOf l e).line.length + 1) with redirstack := q, store := store }),
     atE l e ((tapeOf l e).line.length + 1))
  | .eof d => (.error (eofError d (tapeOf l e).line), atE l e (tapeOf l e).line.length)
  | .badId i => (.error (.foreign "IndexError" "makeheredoc"), atE l e i)

theorem gatherResult_toI (l : Local) (e : Env) (o : GatherOut) :
    gatherResult l e o = gatherResultI l e (o.toI (tapeOf l e).line) := by
  cases o <;> simp [gatherResult, gatherResultI, GatherOut.toI, stL_eq_atL, stE_eq_atE, upd, atL,
    atE, posOf]

/-- `gatherheredocuments` computes `specGather` -/
theorem gather_spec {l : Local} {e : Env} (h : Ready l e) :
    M.run gatherheredocuments l e =
      gatherResultI l e
        (specGather (tapeOf l e).line (strictOf l e) l.redirstack l.store (tapeOf l e).idx) := by
  have key := run_gather_st l e h.eol h.suffix (h.nbs.drop _) h.dropLen
  rw [stL_self h.idx, stE_self h.idx] at key
  rw [key, gatherResult_toI]
  rfl

/-- FIFO, base: an empty queue is a no-op -/
theorem specGather_nil (line : Str) (strict : Bool) (store : List RedirCell) {idx : Nat}
    (hi : idx ≤ line.length) : specGather line strict [] store idx = .done store idx := by
  simp [specGather, specGatherS, GatherOut.toI, posOf_drop hi]

theorem skipContIdx_le (line : Str) (idx : Nat) : skipContIdx line idx ≤ line.length := posOf_le _ _

theorem drop_skipContIdx (line : Str) (idx : Nat) :
    line.drop (skipContIdx line idx) = skipCont (line.drop idx) :=
  drop_posOf ((skipCont_suffix _).trans (List.drop_suffix _ _))

/-- FIFO, step: the OLDEST queued redirect gets the body that starts at the cursor (after the
    continuation pairs `_peekc` skips); the next one continues from the cursor after that body.
    Non-strict mode with the input exhausted stops and keeps the queue. -/
theorem specGather_cons (line : Str) (strict : Bool) (id : Nat) (kill : Bool)
    (q : List (Nat × Bool)) (store : List RedirCell) (idx : Nat) :
    specGather line strict ((id, kill) :: q) store idx =
      if skipContIdx line idx = line.length ∧ strict = false then .stopped store ((id, kill) :: q)
      else
        match store[id]? with
        | none => .badId (skipContIdx line idx)
        | some cell =>
          match specHeredoc line (skipContIdx line idx) cell.delim kill with
          | none => .eof cell.delim
          | some (v, i) =>
            specGather line strict q
              (store.set id (attach cell (skipContIdx line idx) (i - 1) v)) i := by
  have hsuf : skipCont (line.drop idx) <:+ line := (skipCont_suffix _).trans (List.drop_suffix _ _)
  have hiff : skipCont (line.drop idx) = [] ↔ skipContIdx line idx = line.length := by
    unfold skipContIdx posOf
    have := hsuf.length_le
    constructor
    · intro h; rw [h]; simp
    · intro h; exact List.eq_nil_of_length_eq_zero (by omega)
  unfold specGather
  simp only [specGatherS, hiff]
  split
  · rfl
  · cases hcell : store[id]? with
    | none => rfl
    | some cell =>
      simp only [specHeredoc, drop_skipContIdx]
      cases hh : specHeredocS cell.delim kill (skipCont (line.drop idx)) with
      | none => rfl
      | some w =>
        obtain ⟨v, r⟩ := w
        have hr : r <:+ line := (specHeredocS_isSuffix hh).trans hsuf
        simp only [Option.map_some, drop_posOf hr]
        rfl

/-- after a non-strict bump (cursor beyond the end) a further call bumps again and keeps the
    queue: the only states with `idx > |line|` in which `gatherheredocuments` is entered -/
theorem gather_beyond_end {l : Local} {e : Env} (hla : l.eolLookahead = none)
    (hidx : (tapeOf l e).line.length ≤ (tapeOf l e).idx) (hq : l.redirstack ≠ [])
    (hstrict : strictOf l e = false) :
    M.run gatherheredocuments l e =
      (.ok ((), atL l e ((tapeOf l e).idx + 1)), atE l e ((tapeOf l e).idx + 1)) := by
  rw [gather_eq, M.run_bind, run_get]
  simp only [M.run_pure]
  rw [run_loop_succ]
  cases hq' : l.redirstack with
  | nil => exact absurd hq' hq
  | cons p rest =>
    obtain ⟨id, kill⟩ := p
    have hg : (tapeOf l e).getc true ((tapeOf l e).line.length + 1) = .ok (none, tapeOf l e) := by
      rw [Tape.getc_succ, List.getElem?_eq_none hidx]
    have : M.run (gBody ()) l e =
        (.ok (.inr (), atL l e ((tapeOf l e).idx + 1)), atE l e ((tapeOf l e).idx + 1)) := by
      unfold gBody
      simp only [M.run_bind, run_get, hq', peekc]
      rw [run_getc _ _ _ hla, hg]
      simp only [putL_self, putE_self, Option.isSome_none, Bool.false_eq_true, if_false,
        M.run_pure, Option.isNone_none, if_true, M.run_bind, run_optStrict, hstrict, Bool.not_false,
        run_bumpIdx]
      rfl
    rw [this]

/-! ## entry states -/

/-- inputs prepared by `tokenizer.__init__` never end in a backslash -/
theorem ofInput_noFinalBackslash (s : Str) : NoFinalBackslash (Tape.ofInput s).line := by
  unfold Tape.ofInput NoFinalBackslash
  cases hs : s.getLast? with
  | none => simp [hs]
  | some c =>
    simp only []
    by_cases hc : (c == '\n') = true
    · simp only [hc, if_true, hs]
      have : c = '\n' := by simpa using hc
      subst this; simp
    · simp only [hc, if_false, Bool.false_eq_true]
      simp

/-! ## 5. the specification is the right one, in `(line, idx)` form -/

theorem specHeredoc_some {line delim : Str} {start : Nat} {kill : Bool} {v : Str} {i : Nat}
    (h : specHeredoc line start delim kill = some (v, i)) :
    ∃ r, specHeredocS delim kill (line.drop start) = some (v, r) ∧ i = posOf line r ∧
      r <:+ line.drop start := by
  unfold specHeredoc at h
  cases hh : specHeredocS delim kill (line.drop start) with
  | none => rw [hh] at h; cases h
  | some w =>
    obtain ⟨v', r⟩ := w
    rw [hh] at h
    simp only [Option.map_some, Option.some.injEq, Prod.mk.injEq] at h
    exact ⟨r, by rw [h.1], h.2.symm, specHeredocS_isSuffix hh⟩

/-- the document ends with the delimiter -/
theorem specHeredoc_value_suffix {line delim : Str} {start : Nat} {kill : Bool} {v : Str} {i : Nat}
    (h : specHeredoc line start delim kill = some (v, i)) : delim <:+ v := by
  obtain ⟨r, hr, _, _⟩ := specHeredoc_some h
  exact specHeredocS_value_suffix hr

/-- the cursor after the document: strictly behind the start, inside the input, and just behind
    a newline (the one of the delimiter line) unless it is the end of the input -/
theorem specHeredoc_cursor {line delim : Str} {start : Nat} {kill : Bool} {v : Str} {i : Nat}
    (h : specHeredoc line start delim kill = some (v, i)) :
    start < i ∧ i ≤ line.length ∧ (line[i - 1]? = some '\n' ∨ i = line.length) := by
  obtain ⟨r, hr, hi, hsuf⟩ := specHeredoc_some h
  obtain ⟨pre, h1, h2, h3⟩ := specHeredocS_prefix delim kill _ _ (Nat.le_refl _) hr
  have hstart : start < line.length := by
    apply Nat.lt_of_not_le
    intro hc
    rw [List.drop_eq_nil_of_le hc] at h1
    have := List.append_eq_nil_iff.mp h1.symm
    exact h2 this.1
  have hline : line = line.take start ++ (pre ++ r) := by rw [← h1, List.take_append_drop]
  have hlen : line.length = start + (pre.length + r.length) := by
    conv => lhs; rw [hline]
    simp only [List.length_append, List.length_take]; omega
  have hpos : 0 < pre.length := List.length_pos_iff.mpr h2
  have hi' : i = start + pre.length := by rw [hi]; unfold posOf; omega
  refine ⟨by omega, by omega, ?_⟩
  rcases h3 with h3 | h3
  · left
    obtain ⟨ys, rfl⟩ := List.getLast?_eq_some_iff.mp h3
    rw [hline, hi']
    simp only [List.length_append, List.length_cons, List.length_nil]
    rw [List.getElem?_append_right (by simp; omega)]
    simp only [List.length_take, Nat.min_eq_left (Nat.le_of_lt hstart)]
    rw [List.append_assoc, List.getElem?_append_right (by omega)]
    have : start + (ys.length + (0 + 1)) - 1 - start - ys.length = 0 := by omega
    rw [this]; rfl
  · right; subst h3; simp at hlen; omega

/-- for `<<` (no tab stripping) the document, plus a newline unless the input ended right behind
    the delimiter, is exactly the slice of the input from the start of the body to the cursor
    after it, with the continuation pairs removed -/
theorem specHeredoc_slice {line delim : Str} {start : Nat} {v : Str} {i : Nat}
    (hbs : NoFinalBackslash line) (h : specHeredoc line start delim false = some (v, i)) :
    removeCont (Str.slice line start i) = v ++ ['\n'] ∨
      (i = line.length ∧ removeCont (Str.slice line start i) = v) := by
  obtain ⟨r, hr, hi, hsuf⟩ := specHeredoc_some h
  obtain ⟨pre, h1, h2, h3, h4⟩ := specHeredocS_slice (hbs.drop start) hr
  have hstart : start < line.length := by
    apply Nat.lt_of_not_le
    intro hc
    rw [List.drop_eq_nil_of_le hc] at h1
    have := List.append_eq_nil_iff.mp h1.symm
    exact h2 this.1
  have hline : line = line.take start ++ (pre ++ r) := by rw [← h1, List.take_append_drop]
  have hlen : line.length = start + (pre.length + r.length) := by
    conv => lhs; rw [hline]
    simp only [List.length_append, List.length_take]; omega
  have hi' : i = start + pre.length := by rw [hi]; unfold posOf; omega
  have hslice : Str.slice line start i = pre := by
    unfold Str.slice
    have htake : line.take i = line.take start ++ pre := by
      conv => lhs; rw [hline, ← List.append_assoc]
      rw [List.take_left' (by simp [List.length_take]; omega)]
    rw [htake, List.drop_left' (by simp [List.length_take]; omega)]
  rw [hslice]
  rcases h4 with h4 | ⟨h4, h5⟩
  · exact Or.inl h4
  · right; subst h4; simp at hlen; exact ⟨by omega, h5⟩

/-- the document is the concatenation of the lines before the delimiter line and the delimiter,
    and the delimiter line is the FIRST line equal to the delimiter (`readLines` iterates
    `readline(False)`; lines are compared after `heredocLine`, i.e. tab-stripped for `<<-`) -/
theorem specHeredoc_lines {line delim : Str} {start : Nat} {kill : Bool} {v : Str} {i : Nat}
    (h : specHeredoc line start delim kill = some (v, i)) :
    ∃ ls dl r, readLines (ls.length + 1) (line.drop start) = some (ls ++ [dl], r) ∧
      i = posOf line r ∧
      (∀ x ∈ ls, (heredocLine kill x).dropLast ≠ delim) ∧ (heredocLine kill dl).dropLast = delim ∧
      v = (ls.map (heredocLine kill)).flatten ++ delim := by
  obtain ⟨r, hr, hi, _⟩ := specHeredoc_some h
  obtain ⟨ls, dl, h1, h2, h3, h4⟩ := specHeredocS_lines delim kill _ _ (Nat.le_refl _) hr
  exact ⟨ls, dl, r, h1, hi, h2, h3, h4⟩

/-- the ParsingError is raised only if NO line of the rest of the input equals the delimiter -/
theorem specHeredoc_none {line delim : Str} {start : Nat} {kill : Bool}
    (h : specHeredoc line start delim kill = none) {n : Nat} {ls : List Str} {r : Str}
    (hl : readLines n (line.drop start) = some (ls, r)) :
    ∀ x ∈ ls, (heredocLine kill x).dropLast ≠ delim := by
  unfold specHeredoc at h
  cases hh : specHeredocS delim kill (line.drop start) with
  | none => exact specHeredocS_none delim kill n _ hh hl
  | some w => rw [hh] at h; cases h

/-! ## instances: nested parsers (local tape) and top-level parsers (environment tape) -/

theorem Ready.local {l : Local} {e : Env} {t : Tape} (ht : l.tape = some t)
    (hla : l.eolLookahead = none) (hidx : t.idx ≤ t.line.length)
    (hlen : t.line.length < 1073741824) (hbs : NoFinalBackslash t.line) : Ready l e := by
  refine ⟨hla, ?_, ?_, ?_⟩ <;> rw [tapeOf_local ht] <;> assumption

theorem Ready.top {l : Local} {e : Env} (ht : l.tape = none)
    (hla : l.eolLookahead = none) (hidx : e.tape.idx ≤ e.tape.line.length)
    (hlen : e.tape.line.length < 1073741824) (hbs : NoFinalBackslash e.tape.line) : Ready l e := by
  refine ⟨hla, ?_, ?_, ?_⟩ <;> rw [tapeOf_top ht] <;> assumption

/-- `readline_spec` on a local tape: a pure state function, the environment is not consulted -/
theorem readline_spec_local {l : Local} {e : Env} {t : Tape} (ht : l.tape = some t)
    (hla : l.eolLookahead = none) (hidx : t.idx ≤ t.line.length)
    (hlen : t.line.length < 1073741824) (hbs : NoFinalBackslash t.line) :
    M.run (readline false) l e =
      match specReadline t.line t.idx with
      | some (txt, i) => (.ok (some txt, { l with tape := some { t with idx := i } }), e)
      | none => (.ok (none, { l with tape := some { t with idx := t.line.length } }), e) := by
  rw [readline_spec (Ready.local ht hla hidx hlen hbs)]
  simp only [tapeOf_local ht, atL_local ht, atE_local ht]
  try rfl

/-- `readline_spec` on the environment's tape -/
theorem readline_spec_top {l : Local} {e : Env} (ht : l.tape = none)
    (hla : l.eolLookahead = none) (hidx : e.tape.idx ≤ e.tape.line.length)
    (hlen : e.tape.line.length < 1073741824) (hbs : NoFinalBackslash e.tape.line) :
    M.run (readline false) l e =
      match specReadline e.tape.line e.tape.idx with
      | some (txt, i) => (.ok (some txt, l), { e with tape := { e.tape with idx := i } })
      | none => (.ok (none, l), { e with tape := { e.tape with idx := e.tape.line.length } }) := by
  rw [readline_spec (Ready.top ht hla hidx hlen hbs)]
  simp only [tapeOf_top ht, atL_top ht, atE_top ht]
  try rfl

theorem makeheredoc_spec_local {l : Local} {e : Env} {t : Tape} (ht : l.tape = some t)
    (hla : l.eolLookahead = none) (hidx : t.idx ≤ t.line.length)
    (hlen : t.line.length < 1073741824) (hbs : NoFinalBackslash t.line)
    {id : Nat} {cell : RedirCell} (hcell : l.store[id]? = some cell) (kill : Bool) :
    M.run (makeheredoc id kill) l e =
      match specHeredoc t.line t.idx cell.delim kill with
      | some (v, i) =>
        (.ok ((), { l with
            tape := some { t with idx := i }
            store := l.store.set id (attach cell t.idx (i - 1) v) }), e)
      | none => (.error (eofError cell.delim t.line), e) := by
  rw [makeheredoc_spec (Ready.local ht hla hidx hlen hbs) hcell]
  simp only [tapeOf_local ht, atL_local ht, atE_local ht]
  try rfl

theorem makeheredoc_spec_top {l : Local} {e : Env} (ht : l.tape = none)
    (hla : l.eolLookahead = none) (hidx : e.tape.idx ≤ e.tape.line.length)
    (hlen : e.tape.line.length < 1073741824) (hbs : NoFinalBackslash e.tape.line)
    {id : Nat} {cell : RedirCell} (hcell : l.store[id]? = some cell) (kill : Bool) :
    M.run (makeheredoc id kill) l e =
      match specHeredoc e.tape.line e.tape.idx cell.delim kill with
      | some (v, i) =>
        (.ok ((), { l with store := l.store.set id (attach cell e.tape.idx (i - 1) v) }),
         { e with tape := { e.tape with idx := i } })
      | none => (.error (eofError cell.delim e.tape.line),
         { e with tape := { e.tape with idx := e.tape.line.length } }) := by
  rw [makeheredoc_spec (Ready.top ht hla hidx hlen hbs) hcell]
  simp only [tapeOf_top ht, atL_top ht, atE_top ht]
  try rfl

/-- `gather_spec` on a local tape -/
theorem gather_spec_local {l : Local} {e : Env} {t : Tape} (ht : l.tape = some t)
    (hla : l.eolLookahead = none) (hidx : t.idx ≤ t.line.length)
    (hlen : t.line.length < 1073741824) (hbs : NoFinalBackslash t.line) :
    M.run gatherheredocuments l e =
      match specGather t.line (strictOf l e) l.redirstack l.store t.idx with
      | .done store i =>
        (.ok ((), { l with tape := some { t with idx := i }, redirstack := [], store := store }), e)
      | .stopped store q =>
        (.ok ((), { l with tape := some { t with idx := t.line.length + 1 }, redirstack := q,
                           store := store }), e)
      | .eof d => (.error (eofError d t.line), e)
      | .badId _ => (.error (.foreign "IndexError" "makeheredoc"), e) := by
  rw [gather_spec (Ready.local ht hla hidx hlen hbs)]
  simp only [tapeOf_local ht]
  cases specGather t.line (strictOf l e) l.redirstack l.store t.idx <;>
    simp only [gatherResultI, tapeOf_local ht, atL_local ht, atE_local ht]

/-- `gather_spec` on the environment's tape -/
theorem gather_spec_top {l : Local} {e : Env} (ht : l.tape = none)
    (hla : l.eolLookahead = none) (hidx : e.tape.idx ≤ e.tape.line.length)
    (hlen : e.tape.line.length < 1073741824) (hbs : NoFinalBackslash e.tape.line) :
    M.run gatherheredocuments l e =
      match specGather e.tape.line (strictOf l e) l.redirstack l.store e.tape.idx with
      | .done store i =>
        (.ok ((), { l with redirstack := [], store := store }),
         { e with tape := { e.tape with idx := i } })
      | .stopped store q =>
        (.ok ((), { l with redirstack := q, store := store }),
         { e with tape := { e.tape with idx := e.tape.line.length + 1 } })
      | .eof d => (.error (eofError d e.tape.line),
         { e with tape := { e.tape with idx := e.tape.line.length } })
      | .badId i => (.error (.foreign "IndexError" "makeheredoc"),
         { e with tape := { e.tape with idx := i } }) := by
  rw [gather_spec (Ready.top ht hla hidx hlen hbs)]
  simp only [tapeOf_top ht]
  cases specGather e.tape.line (strictOf l e) l.redirstack l.store e.tape.idx <;>
    simp only [gatherResultI, tapeOf_top ht, atL_top ht, atE_top ht]

/-! ## the simulation: a top-level run equals the local-tape run with the tape moved into the state

  Generic framework in `Sim.lean` (`Sim`, `SimEq`, rules for `pure`/`bind`/`loop`/`raise`/
  `modify`/`get`, one lemma per accessor).  No hypothesis on the state: the look-ahead slot,
  the cursor, the strictness and the input are arbitrary. -/

/-- run `gatherheredocuments` with the tape moved into the state: the top-level run returns the
    same value, the same local state (tape field aside), and the final local tape is the final
    environment tape; an exception is the same exception (`TopEqLocal`). -/
theorem gather_top_eq_local (l : Local) (e : Env) (ht : l.tape = none) :
    TopEqLocal gatherheredocuments l e :=
  simEq_gatherheredocuments.top_eq_local l e ht

theorem makeheredoc_top_eq_local (id : Nat) (kill : Bool) (l : Local) (e : Env)
    (ht : l.tape = none) : TopEqLocal (makeheredoc id kill) l e :=
  (simEq_makeheredoc id kill).top_eq_local l e ht

theorem readline_top_eq_local (rqn : Bool) (l : Local) (e : Env) (ht : l.tape = none) :
    TopEqLocal (readline rqn) l e :=
  (simEq_readline rqn).top_eq_local l e ht

/-! ## the specification on concrete inputs (kernel-checked; the oracle is not vacuous) -/

/-- a continuation pair inside a line is removed; the cursor is behind the newline -/
example : specReadline "ab\\\ncd\nef".toList 0 = some ("abcd\n".toList, 7) := by
  simp [specReadline, specReadlineS_eq, getcS, posOf]

/-- `<<E`: a tab-indented `E` is not the delimiter; value through the delimiter without its
    newline; cursor behind the delimiter line -/
example : specHeredoc "cat <<E\nx\n\tE\nE\nrest\n".toList 8 ['E'] false =
    some ("x\n\tE\nE".toList, 15) := by
  simp [specHeredoc, specHeredocS_eq, specReadlineS_eq, getcS, posOf, heredocLine]

/-- `<<-E`: leading tabs are stripped before comparing and in the value -/
example : specHeredoc "cat <<-E\nx\n\tE\nE\nrest\n".toList 9 ['E'] true =
    some ("x\nE".toList, 14) := by
  simp [specHeredoc, specHeredocS_eq, specReadlineS_eq, getcS, posOf, heredocLine, stripTabs]

/-- the input ends first -/
example : specHeredoc "cat <<E\nx\n".toList 8 ['E'] false = none := by
  simp [specHeredoc, specHeredocS_eq, specReadlineS_eq, getcS, posOf, heredocLine]

end Bashlex.C10

#print axioms Bashlex.C10.readline_spec
#print axioms Bashlex.C10.makeheredoc_spec
#print axioms Bashlex.C10.gather_spec
#print axioms Bashlex.C10.specGather_nil
#print axioms Bashlex.C10.specGather_cons
#print axioms Bashlex.C10.specGatherS_fifo
#print axioms Bashlex.C10.gather_beyond_end
#print axioms Bashlex.C10.getc_clears_slot
#print axioms Bashlex.C10.readtoken_gather_slot_empty
#print axioms Bashlex.C10.ofInput_noFinalBackslash
#print axioms Bashlex.C10.specHeredoc_value_suffix
#print axioms Bashlex.C10.specHeredoc_cursor
#print axioms Bashlex.C10.specHeredoc_slice
#print axioms Bashlex.C10.specHeredoc_lines
#print axioms Bashlex.C10.specHeredoc_none
#print axioms Bashlex.C10.removeCont_getcS
#print axioms Bashlex.C10.readline_spec_local
#print axioms Bashlex.C10.readline_spec_top
#print axioms Bashlex.C10.makeheredoc_spec_local
#print axioms Bashlex.C10.makeheredoc_spec_top
#print axioms Bashlex.C10.gather_spec_local
#print axioms Bashlex.C10.gather_spec_top
#print axioms Bashlex.C10.gather_top_eq_local
#print axioms Bashlex.C10.makeheredoc_top_eq_local
#print axioms Bashlex.C10.readline_top_eq_local
#print axioms Bashlex.C10.SimEq.top_eq_local
