/-
  Property C01, tightened further: `C01_partial_tight2`, `C01_partial_single_tight2`,
  `C01_partial_split_tight2` = `C01_partial_tight` (`Props/C01Tight.lean`) without
  `IndexError|_extractcommandsubst` in the list of foreign exceptions above the tokenizer.

  The site is `string[zindex + 1]` in `_paramexpand` after `$(`: it raises iff the word value ends in
  `$(`.  Proof (`Props/C01/T2*.lean`):
    T2Scan   (state-agnostic) what `_parse_matched_pair` / `_parse_comsub` return is not empty and does
             not end in `(` (walk of `Props/C03/RE/WScan*.lean` with another predicate);
    T2Word   (state-agnostic) `sat_nextToken_tp`: no value of a delivered token ends in `$(` -- the loop of
             `_readtokenword` appends a non-break character, an escaped character right after its `\`,
             `$$`, or what a scanner returned; bare tokens by enumeration;
    T2Act    word expansion and all semantic actions, given tokens with that property (`h9_action`);
    T2Val    an action returns no token that was not among its arguments (`vt_action`);
    T2Parse  LR engine (`C11.run_ok` with the value invariant `VT`), nested parsers of every depth,
             `parse_e9`, `parsesingle_e9`, `split_e9`.
  Left in `knownForeignTight2`: the three recorded defects (D24, D18, D35: witnesses in
  `Props/C01/Witness.lean`), `AssertionError|visitnode` (needs span bounds of nested parses INSIDE the
  exception discipline) and `IndexError|_expandwordinternal` (needs the alignment of the expander's
  scan with the tokenizer's quoting); no witness found for the last two.

  Termination (partial, `Props/C01/T2Fuel.lean`, at the level of the tokenizer's state, NOT lifted to
  `parse`): with the potential `Phi` = characters left on the tape (+1 for the look-ahead slot),
  `getc_phi` (one `_getc` that returns a character lowers `Phi`), `ht_loop_mu` (measured loops):
  `discardUntil_nofuel`, `readline_nofuel` (`readline(False)`), `readtoken_loop_nofuel`.  The loops of
  `_parse_matched_pair` / `_parse_comsub` / `_readtokenword` / `makeheredoc` are not done: `_ungetc`
  after a `_getc` that returned `None` RAISES `Phi` by one (D32), so they need a finer measure.
-/
import Bashlex.Props.C01Tight
import Bashlex.Props.C01.T2Parse
import Bashlex.Props.C01.T2Fuel

namespace Bashlex.C01
open Bashlex Bashlex.M

def knownForeignTight2 : List Exn :=
  [ .foreign "AttributeError" "_recursiveparse",     -- D24, witness "` `"
    .foreign "AssertionError" "handleAssert",        -- D18
    .foreign "IndexError" "_parsedolparen",          -- D35
    .foreign "AssertionError" "visitnode",           -- not excluded, no witness
    .foreign "IndexError" "_expandwordinternal" ]    -- not excluded, no witness

/-- the discipline of `C01_partial_tight2` -/
def Tight2 (x : Exn) : Prop :=
  (∃ m s p, x = .parsing m s p) ∨ (∃ w, x = .notImplemented w) ∨
  x ∈ knownForeignTight2 ∨
  (∃ site, x = .outOfFuel site ∧ (site ∈ fuelSites ∨ site ∈ tokFuelTight))

theorem tight2_of {x : Exn} (h : Tight x) (h9 : E9 x) : Tight2 x := by
  rcases h with h | h | h | h | h
  · exact Or.inl h
  · exact Or.inr (Or.inl h)
  · refine Or.inr (Or.inr (Or.inl ?_))
    simp only [knownForeignTight, List.mem_cons, List.mem_nil_iff, or_false] at h
    rcases h with rfl | rfl | rfl | rfl | rfl | rfl
    all_goals first | exact absurd rfl h9 | simp [knownForeignTight2]
  · simp [tokForeignTight] at h
  · exact Or.inr (Or.inr (Or.inr h))

theorem tight2_tight {x : Exn} (h : Tight2 x) : Tight x := by
  rcases h with h | h | h | h
  · exact Or.inl h
  · exact Or.inr (Or.inl h)
  · refine Or.inr (Or.inr (Or.inl ?_))
    simp only [knownForeignTight2, List.mem_cons, List.mem_nil_iff, or_false] at h
    rcases h with rfl | rfl | rfl | rfl | rfl <;> simp [knownForeignTight]
  · exact Or.inr (Or.inr (Or.inr (Or.inr h)))

/-- **C01 tight 2, `parse`** -/
theorem C01_partial_tight2 (s : Str) (o : Opts) :
    match (parse s o).1 with
    | .parts _ => True
    | .exn x => Tight2 x
    | _ => False := by
  have h1 := C01_partial_tight s o
  have h9 := fun x => parse_e9 s o (x := x)
  revert h1 h9
  cases (parse s o).1 with
  | exn x => exact fun h1 h9 => tight2_of h1 (h9 x rfl)
  | parts _ => exact fun h1 _ => h1
  | single _ => exact fun h1 _ => h1
  | strs _ => exact fun h1 _ => h1

/-- **C01 tight 2, `parsesingle`** -/
theorem C01_partial_single_tight2 (s : Str) (o : Opts) :
    match (parsesingle s o).1 with
    | .single _ => True
    | .exn x => Tight2 x
    | _ => False := by
  have h1 := C01_partial_single_tight s o
  have h9 := fun x => parsesingle_e9 s o (x := x)
  revert h1 h9
  cases (parsesingle s o).1 with
  | exn x => exact fun h1 h9 => tight2_of h1 (h9 x rfl)
  | parts _ => exact fun h1 _ => h1
  | single _ => exact fun h1 _ => h1
  | strs _ => exact fun h1 _ => h1

/-- **C01 tight 2, `split`** -/
theorem C01_partial_split_tight2 (s : Str) :
    match (split s).1 with
    | .strs _ => True
    | .exn x => Tight2 x ∨ x = .outOfFuel "split"
    | _ => False := by
  have h1 := C01_partial_split_tight s
  have h9 := fun x => split_e9 s (x := x)
  revert h1 h9
  cases (split s).1 with
  | exn x =>
    intro h1 h9
    rcases h1 with h | h
    · exact Or.inl (tight2_of h (h9 x rfl))
    · exact Or.inr h
  | parts _ => exact fun h1 _ => h1
  | single _ => exact fun h1 _ => h1
  | strs _ => exact fun h1 _ => h1

end Bashlex.C01

#print axioms Bashlex.C01.T2.sat_nextToken_tp
#print axioms Bashlex.C01.h9_action
#print axioms Bashlex.C01.vt_action
#print axioms Bashlex.C01.parserRun9
#print axioms Bashlex.C01.parse_e9
#print axioms Bashlex.C01.split_e9
#print axioms Bashlex.C01.C01_partial_tight2
#print axioms Bashlex.C01.discardUntil_nofuel
#print axioms Bashlex.C01.readline_nofuel
#print axioms Bashlex.C01.readtoken_loop_nofuel
#print axioms Bashlex.C01.C01_partial_single_tight2
#print axioms Bashlex.C01.C01_partial_split_tight2
