/-
  C13 — top-level commands are parsed independently; spans are absolute offsets.
  C17 — `parsesingle` is the first element of `parse` (entry-point part).
  Model level, all inputs, all options.

  ## Results

  * Part 4 (`C13/Shift.lean`): `Node.shift_shift`, `Node.shift_zero`, `Node.preorder_mapPos_eq`,
    `Node.lastHeredocEnd_shift`, `nextIndex_shift`.
  * Part 1 (`C13/Single.lean`): `parsesingle_eq`, `parsesingle_eq_head`, `parsesingle_exn_iff`,
    `parse_exn_of_parsesingle_exn`, `parsesingle_of_parse_exn`, `parse_nil_iff`.
  * Part 2 (`C13/Loop.lean`): the loop of `parse` as a fuel-free relation `Loop`, functional and
    total; `parseLoop_eq` (fuel adequacy: any fuel `> len(s) + 1 - index`), `parse_unfold`,
    `parse_eq_loop`.
  * Part 3 (`C13/Indep.lean` and below):

    **`C13_independence`** (unconditional given locality).  Let `A` end in a newline or `R` start
    with one.  If `parse A` returns `psA` and every node-returning parser run of `parse A` was
    *local* (`parseLocal`: it never asked for `source` / the whole line / `_added_newline` and
    never examined a tape cell beyond the end of its own tape — it did not run into the end of
    input), then `parse (A ++ R)` returns `psA` followed by the parts a **fresh** call
    `parse ((A ++ R).drop j)` returns, shifted by `j`, where `j = parseStop A` is the index at
    which the loop of `parse A` stopped (`nextIndex` of `A`'s last part); if that fresh call
    raises, `parse (A ++ R)` raises the same exception.  So the only thing that flows from a
    top-level command to the next is the restart index.  `C13_first_part` is the instance for
    the first parser run alone (hypotheses (h1), (h2) of the task).

    **`C13_partial_conditional`**: with `R = sep ++ B`, to replace the fresh `parse` on
    `(A ++ sep).drop j ++ B` by `parse B` one needs `BlankSkip`: the *first* parser run on
    `blank ++ B` returns the first run on `B`, shifted.  This translation property of one
    parser run is the hypothesis left open (it needs a relational walk through the tokenizer).
    With it: `parse (A ++ sep ++ B) = psA ++ psB.map (shift (len A + len sep))`.

  ## Why each hypothesis is there (all witnesses checked with `#eval` on the model; the first
     three also on the Python implementation)

  * `parseLocal A o` (locality).  Two classes of accepted inputs are not local, and for both the
    conclusion of C13 really fails (model and Python implementation):
    (i) a missing here-document in non-strict mode: `A = "a <<E"`, `o.strict = false`, `B = "b"`:
    `parse A = [command (0,5) …]`, `parse B = [b]`, but `parse "a <<E\nb"` raises `ParsingError
    "here-document at line 0 delimited by end-of-file (wanted 'E')"` (the run on `A` has
    `maxCell = 7 > 6 = len(tape)`: it saw the end of input);
    (ii) a trailing backslash, in every mode: `A = "a;\\"`, `B = "b"`:
    `parse A = [list (0,3) [a, operator (1,3) ";"]]`, `parse B = [b]`, but
    `parse "a;\\\nb" = [list (0,5) [a, operator (1,4) ";", command (4,5) b]]` — one part: the
    backslash and the separator's newline form a line continuation.
    Evidence that there is no third class (`#eval` on the model): on 1146 pairs from the test
    corpus (661 with both sides accepted) locality failed only for `a <<E`, `a <<-b`, `a <<EOF`
    (non-strict), and for these the conclusion fails; on 26645 short strings (all strings of
    length ≤ 3 over 24 critical characters plus token combinations), each run under two of the
    four strict/proceed combinations, 12547 runs returned a node, 528 of them were not local:
    456 of class (i), 72 of class (ii), none else.  In all these runs `runLocal = runNoEOF`.
  * `Joinable A R`: `A = "a"`, `R = "b"`: `parse "ab" = [command [word "ab"]]`.
  * `BlankSkip` (`run`): `A = "b"`, `sep = "\n"`, `B = "time a"`, `o.proceed = true` — a real
    violation of C13 (defect D19-proceed: with `proceedonerror` the unsupported `time` prefix
    becomes a `reservedword "!"` node with the *constant* span `(0,0)`, relative to whatever
    string the parser run was given):
    `parse B = [pipeline (0,6) [reservedword (0,0) "!", command (5,6) [word "a"]]]`, but
    `parse "b\ntime a" = [b, pipeline (1,8) [reservedword (1,1) "!", command (7,8) …]]` where C13
    demands `pipeline (2,8) [reservedword (2,2) "!", command (7,8) …]`: the span of the second
    part depends on where the previous part ended.  Likewise `B = "time\n\n"`:
    `parse B = [pipeline (0,0) [reservedword (0,0) "!"], command (1,4) [word "ime"]]` but
    `parse "a\ntime\n\n" = [a, pipeline (1,1) …, pipeline (2,2) …, command (3,6) [word "ime"]]`.
    `blankSkipB "\n" "time a" {proceed := true} = false`.  On the test corpus (3610 checks, all
    four strict/proceed combinations, five blank prefixes) `BlankSkip` failed 6 times, and on
    the 26645 short strings (14597 checks; each string under two of the four combinations, two
    prefixes) 13 times — every failure an input containing `time` with `proceedonerror`.
  * `BlankSkip` (`pos`): logically needed (`parse` resumes at `max(end, 1)` after the first part
    but at `max(end, index + 1)` later, so a first part of `B` with `nextIndex = 0` would be
    returned twice behind a non-empty prefix); the only parts with `nextIndex = 0` known are the
    `time` nodes above, for which `run` already fails.
  * `parseStop A o ≤ len(A ++ sep)`: needed to split `(A ++ sep ++ B).drop j`; no input
    violating it is known (it would need a span reaching beyond the input; a C03-type fact).

  ## Observation
  * When a later parser run raises, the `ParsingError` carries the *suffix* as its source and a
    position relative to that suffix (`parse "a\n)"` raises
    `ParsingError("unexpected token ')'", "\n)", 1)`): error positions are not absolute offsets,
    unlike the spans of the nodes.
-/
import Bashlex.Props.C13.Single
import Bashlex.Props.C13.Indep
import Bashlex.Props.C13.NoEOF

namespace Bashlex.C13
open Bashlex

/-- **C13, independence.**  `A` ends in a newline or `R` starts with one; `parse A` returns `psA`
    and all its node-returning parser runs are local.  Then `parse (A ++ R)` is `psA` followed by
    the result of a fresh `parse` on the rest of the input from the index `parseStop A o` where
    the loop of `parse A` stopped, with spans shifted by that index (`glue`; an exception of the
    fresh `parse` is the exception of `parse (A ++ R)`). -/
theorem C13_independence (A R : Str) (o : Opts) (psA : List Node) (hj : Joinable A R)
    (hA : (parse A o).1 = .parts psA) (hloc : parseLocal A o = true) :
    (parse (A ++ R) o).1 =
      glue psA (parseStop A o) (parse ((A ++ R).drop (parseStop A o)) o).1 := by
  obtain ⟨w, hw, rfl⟩ := walk_of_parse hA
  have hs := walk_seg A o _ _ _ _ hw
  have e1 : parseStop A o = w.stop := by unfold parseStop; rw [hw]
  have e2 : w.loc = true := by unfold parseLocal at hloc; rw [hw] at hloc; exact hloc
  rw [e1]
  rw [e2] at hs
  exact indep_core hj hs

/-- **C13 for the first command alone** ((h1), (h2) of the task): if the first parser run on `A`
    returns the node `a` and is local, then `parse (A ++ R)` returns `a` followed by the result of
    a fresh `parse` on the input from `max (nextIndex a) 1`, shifted. -/
theorem C13_first_part (A R : Str) (o : Opts) (a : Node) (t1 : List Char) (hj : Joinable A R)
    (h1 : runParser A o [] = (.ok (some a), t1)) (h2 : runLocal A o [] = true) :
    (parse (A ++ R) o).1 =
      glue [a] (max (nextIndex a) 1) (parse ((A ++ R).drop (max (nextIndex a) 1)) o).1 := by
  have hA : A ≠ [] := by
    intro e
    rw [e, runParser_nil] at h1
    cases h1
  have hs : Seg true A o 0 [] [a.shift 0] (max (nextIndex (a.shift 0)) (0 + 1)) t1 :=
    .cons (List.length_pos_iff.2 hA) (by rw [List.drop_zero]; exact h1)
      (fun _ => by rw [List.drop_zero]; exact h2) .nil
  rw [Node.shift_zero, Nat.zero_add] at hs
  exact indep_core hj hs

/-- `C13_first_part` with the simpler locality condition: the run on `A` was never told
    "end of input" (`runNoEOF`, see `C13/NoEOF.lean`) -/
theorem C13_first_part_noEOF (A R : Str) (o : Opts) (a : Node) (t1 : List Char) (hj : Joinable A R)
    (h1 : runParser A o [] = (.ok (some a), t1)) (h2 : runNoEOF A o [] = true) :
    (parse (A ++ R) o).1 =
      glue [a] (max (nextIndex a) 1) (parse ((A ++ R).drop (max (nextIndex a) 1)) o).1 :=
  C13_first_part A R o a t1 hj h1 (runLocal_of_noEOF h2)

/-- **C13, exact form (unconditional).**  If moreover the loop of `parse A` stopped exactly at
    the end of `A` (`A`'s last command ends where `A` ends: no trailing blanks, comment or
    newline), then for every `R` that starts with a newline and parses on its own — the
    separator and the second command, `R = sep ++ B`, taken together —
    `parse (A ++ R) = parse A ++ shift (len A) (parse R)`. -/
theorem C13_partial (A R : Str) (o : Opts) (psA psR : List Node) (hj : Joinable A R)
    (hA : (parse A o).1 = .parts psA) (hR : (parse R o).1 = .parts psR)
    (hloc : parseLocal A o = true) (hstop : parseStop A o = A.length) :
    (parse (A ++ R) o).1 = .parts (psA ++ psR.map (Node.shift A.length)) := by
  have h := C13_independence A R o psA hj hA hloc
  rw [hstop, List.drop_left, hR] at h
  exact h

/-- … and if `parse R` raises, `parse (A ++ R)` raises the same exception -/
theorem C13_partial_exn (A R : Str) (o : Opts) (psA : List Node) (e : Exn) (hj : Joinable A R)
    (hA : (parse A o).1 = .parts psA) (hR : (parse R o).1 = .exn e)
    (hloc : parseLocal A o = true) (hstop : parseStop A o = A.length) :
    (parse (A ++ R) o).1 = .exn e := by
  have h := C13_independence A R o psA hj hA hloc
  rw [hstop, List.drop_left, hR] at h
  exact h

/-- **C13, conditional on `BlankSkip`.**  `parse A = psA`, `parse B = psB`, `A`'s runs are local,
    `A` ends in a newline or `sep ++ B` starts with one (e.g. `sep` starts with a newline), the
    loop of `parse A` stopped inside `A ++ sep`, and the first parser run on the remaining blank
    text followed by `B` is the shifted first run on `B`.  Then
    `parse (A ++ sep ++ B) = parse A ++ shift (len A + len sep) (parse B)`. -/
theorem C13_partial_conditional (A sep B : Str) (o : Opts) (psA psB : List Node)
    (hj : Joinable A (sep ++ B))
    (hA : (parse A o).1 = .parts psA) (hB : (parse B o).1 = .parts psB)
    (hloc : parseLocal A o = true)
    (hstop : parseStop A o ≤ (A ++ sep).length)
    (hE : BlankSkip ((A ++ sep).drop (parseStop A o)) B o) :
    (parse (A ++ sep ++ B) o).1 =
      .parts (psA ++ psB.map (Node.shift (A.length + sep.length))) := by
  have h := C13_independence A (sep ++ B) o psA hj hA hloc
  rw [List.append_assoc, h]
  have hd : (A ++ (sep ++ B)).drop (parseStop A o) = (A ++ sep).drop (parseStop A o) ++ B := by
    rw [← List.append_assoc]
    exact List.drop_append_of_le_length hstop
  rw [hd, parse_blankSkip hE, hB]
  simp only [glue, List.nil_append]
  rw [Node.map_shift_shift, List.length_drop]
  have : (A ++ sep).length - parseStop A o + parseStop A o = A.length + sep.length := by
    rw [List.length_append] at hstop ⊢
    omega
  rw [this]

/-- the separator of the property statement: a newline followed by anything (`sep = '\n' :: _`)
    always makes `A` joinable -/
theorem C13_partial_conditional_newline (A sep' B : Str) (o : Opts) (psA psB : List Node)
    (hA : (parse A o).1 = .parts psA) (hB : (parse B o).1 = .parts psB)
    (hloc : parseLocal A o = true)
    (hstop : parseStop A o ≤ (A ++ '\n' :: sep').length)
    (hE : BlankSkip ((A ++ '\n' :: sep').drop (parseStop A o)) B o) :
    (parse (A ++ '\n' :: sep' ++ B) o).1 =
      .parts (psA ++ psB.map (Node.shift (A.length + (sep'.length + 1)))) := by
  have := C13_partial_conditional A ('\n' :: sep') B o psA psB (joinable_cons A _) hA hB hloc
    hstop hE
  rw [List.length_cons] at this
  exact this

/-! ## Non-vacuity: the hypotheses hold on concrete inputs (kernel evaluation) -/

/-- boolean check of `(parse …).1 = .parts ps` -/
def partsB : Outcome → List Node → Bool
  | .parts ps, qs => Node.beqL ps qs
  | _, _ => false

theorem parts_of_check {x : Outcome} {qs : List Node} (h : partsB x qs = true) : x = .parts qs := by
  cases x <;> simp [partsB] at h
  rw [Node.eq_of_beqL _ _ h]

def partsOf : Outcome → List Node
  | .parts ps => ps
  | _ => []

def isParts : Outcome → Bool
  | .parts _ => true
  | _ => false

theorem parts_of_isParts {x : Outcome} (h : isParts x = true) : x = .parts (partsOf x) := by
  cases x <;> simp [isParts] at h
  rfl

namespace Examples

/-- `a b` -/
def A1 : Str := ['a', ' ', 'b']
/-- `c | d` -/
def B1 : Str := ['c', ' ', '|', ' ', 'd']
def psA1 : List Node := [.command (0, 3) [.word (0, 1) ['a'] [], .word (2, 3) ['b'] []]]
def psB1 : List Node :=
  [.pipeline (0, 5) [.command (0, 1) [.word (0, 1) ['c'] []], .pipe (2, 3) ['|'],
    .command (4, 5) [.word (4, 5) ['d'] []]]]

theorem hA1 : (parse A1 {}).1 = .parts psA1 := parts_of_check (by decide +kernel)
theorem hB1 : (parse B1 {}).1 = .parts psB1 := parts_of_check (by decide +kernel)
theorem hloc1 : parseLocal A1 {} = true := by decide +kernel
theorem hstop1 : parseStop A1 {} ≤ (A1 ++ ['\n']).length := by decide +kernel
theorem hE1 : BlankSkip ((A1 ++ ['\n']).drop (parseStop A1 {})) B1 {} :=
  blankSkip_of_check (by decide +kernel)

/-- `parse "a b\nc | d"` from `parse "a b"` and `parse "c | d"`, by the theorem -/
theorem ex1 : (parse (A1 ++ ['\n'] ++ B1) {}).1 = .parts (psA1 ++ psB1.map (Node.shift 4)) :=
  C13_partial_conditional A1 ['\n'] B1 {} psA1 psB1 (by decide) hA1 hB1 hloc1 hstop1 hE1

/-- `\nc | d`: the separator and the second command together -/
def R1 : Str := '\n' :: B1
theorem hR1 : (parse R1 {}).1 = .parts (psB1.map (Node.shift 1)) :=
  parts_of_check (by decide +kernel)
theorem hstop1' : parseStop A1 {} = A1.length := by decide +kernel

/-- the unconditional exact form on `a b` and `\nc | d` -/
theorem ex4 : (parse (A1 ++ R1) {}).1 =
    .parts (psA1 ++ (psB1.map (Node.shift 1)).map (Node.shift 3)) :=
  C13_partial A1 R1 {} psA1 _ (by decide) hA1 hR1 hloc1 hstop1'

/-- the first run on `a b` was never told "end of input" -/
theorem noEOF1 : runNoEOF A1 {} [] = true := by decide +kernel

/-- a here-document in `A`: `a <<E⏎x⏎E`, separator: newline, blank line, comment line -/
def A2 : Str := ['a', ' ', '<', '<', 'E', '\n', 'x', '\n', 'E']
def sep2 : Str := ['\n', ' ', '\n', '#', 'c', '\n']

theorem hA2 : (parse A2 {}).1 = .parts (partsOf (parse A2 {}).1) :=
  parts_of_isParts (by decide +kernel)
theorem hloc2 : parseLocal A2 {} = true := by decide +kernel
theorem hstop2 : parseStop A2 {} ≤ (A2 ++ sep2).length := by decide +kernel
theorem hE2 : BlankSkip ((A2 ++ sep2).drop (parseStop A2 {})) B1 {} :=
  blankSkip_of_check (by decide +kernel)

theorem ex2 : (parse (A2 ++ sep2 ++ B1) {}).1 =
    .parts (partsOf (parse A2 {}).1 ++ psB1.map (Node.shift 15)) :=
  C13_partial_conditional A2 sep2 B1 {} _ psB1 (by decide) hA2 hB1 hloc2 hstop2 hE2

/-- the part of `A2` does hold a here-document whose end (9) is the restart index -/
theorem ex2_stop : parseStop A2 {} = 9 := by decide +kernel

/-- two commands in `A`: `a⏎b #c⏎` (ends in a newline: joinable with anything, here `R = B1`
    directly); the loop of `parse A` stops at 3, before the comment -/
def A3 : Str := ['a', '\n', 'b', ' ', '#', 'c', '\n']

theorem hA3 : (parse A3 {}).1 = .parts (partsOf (parse A3 {}).1) :=
  parts_of_isParts (by decide +kernel)
theorem hloc3 : parseLocal A3 {} = true := by decide +kernel

/-- unconditional: `parse (A3 ++ B1)` is `parse A3` followed by a fresh `parse` of ` #c⏎c | d` -/
theorem ex3 : (parse (A3 ++ B1) {}).1 =
    glue (partsOf (parse A3 {}).1) (parseStop A3 {})
      (parse ((A3 ++ B1).drop (parseStop A3 {})) {}).1 :=
  C13_independence A3 B1 {} _ (by decide) hA3 hloc3

theorem ex3_parts : (partsOf (parse A3 {}).1).length = 2 ∧ parseStop A3 {} = 3 := by
  decide +kernel

/-- the locality hypothesis fails for the witness `a <<E` in non-strict mode -/
theorem nonlocal_witness :
    parseLocal ['a', ' ', '<', '<', 'E'] { strict := false } = false := by decide +kernel

/-- … and the conclusion of C13 fails for it: `parse "a <<E"` and `parse "b"` succeed,
    `parse "a <<E\nb"` raises -/
theorem nonlocal_witness_fails :
    isParts (parse ['a', ' ', '<', '<', 'E'] { strict := false }).1 = true ∧
    isParts (parse ['b'] { strict := false }).1 = true ∧
    isParts (parse ['a', ' ', '<', '<', 'E', '\n', 'b'] { strict := false }).1 = false := by
  decide +kernel

/-- the second non-local class: a trailing backslash, `a;\\` (strict mode) -/
theorem backslash_witness : parseLocal ['a', ';', '\\'] {} = false := by decide +kernel

/-- … `parse "a;\\"` returns one part and `parse "a;\\⏎b"` returns one part, not two -/
theorem backslash_witness_fails :
    (partsOf (parse ['a', ';', '\\'] {}).1).length = 1 ∧
    (partsOf (parse ['b'] {}).1).length = 1 ∧
    (partsOf (parse ['a', ';', '\\', '\n', 'b'] {}).1).length = 1 := by decide +kernel

/-- `BlankSkip` fails for `B = "time\n\n"` with `proceedonerror` -/
theorem blankSkip_witness :
    blankSkipB ['\n'] ['t', 'i', 'm', 'e', '\n', '\n'] { proceed := true } = false := by
  decide +kernel

end Examples

end Bashlex.C13

/-! ## Axioms -/
#print axioms Bashlex.Node.shift_shift
#print axioms Bashlex.Node.lastHeredocEnd_shift
#print axioms Bashlex.nextIndex_shift
#print axioms Bashlex.C13.parsesingle_eq
#print axioms Bashlex.C13.parsesingle_eq_head
#print axioms Bashlex.C13.parsesingle_exn_iff
#print axioms Bashlex.C13.parse_exn_of_parsesingle_exn
#print axioms Bashlex.C13.parsesingle_of_parse_exn
#print axioms Bashlex.C13.parse_nil_iff
#print axioms Bashlex.C13.Loop.det
#print axioms Bashlex.C13.Loop.total
#print axioms Bashlex.C13.parseLoop_eq
#print axioms Bashlex.C13.parseLoop_fuel_irrelevant
#print axioms Bashlex.C13.parse_unfold
#print axioms Bashlex.C13.parse_eq_loop'
#print axioms Bashlex.C13.ofInput_prefix
#print axioms Bashlex.C13.runParser_append
#print axioms Bashlex.C13.Seg.transfer
#print axioms Bashlex.C13.Loop.of_drop
#print axioms Bashlex.C13.indep_core
#print axioms Bashlex.C13.parse_blankSkip
#print axioms Bashlex.C13.C13_independence
#print axioms Bashlex.C13.C13_first_part
#print axioms Bashlex.C13.C13_partial
#print axioms Bashlex.C13.C13_partial_exn
#print axioms Bashlex.C13.C13_partial_conditional
#print axioms Bashlex.C13.C13_partial_conditional_newline
#print axioms Bashlex.C13.Examples.ex1
#print axioms Bashlex.C13.Examples.ex2
#print axioms Bashlex.C13.Examples.ex3
#print axioms Bashlex.C13.Examples.ex4
#print axioms Bashlex.C13.runLocal_of_noEOF
#print axioms Bashlex.C13.C13_first_part_noEOF
