/-
  C17, towards discharging `C17.StrictSite`: trace lemmas for `asked` over `>>=` and `M.loop`,
  the fact that no query changes `Env.strict`, a compositional predicate `SS` ("in strict mode,
  at top level, asking `.optStrict` means ending in the here-document end-of-input error") with
  its structural rules, and the reduction `StrictSite ⇐ SS (parserRun maxDepth)`.

  NOT done (time): the walk proving `SS` of the tokenizer / engine / actions.  What is left is the
  explicit hypothesis `SS (parserRun maxDepth)`, which is compositional (rules below), instead of
  the monolithic `StrictSite`.
-/
import Bashlex.Props.C17Strict

namespace Bashlex
open Bashlex

namespace Q
variable {α β : Type}

theorem trace_bind (p : Q α) (f : α → Q β) : ∀ e,
    trace (Q.bind p f) e = trace p e ++ trace (f (run p e).1) (run p e).2 := by
  induction p with
  | pure a => intro e; rfl
  | ask q k ih => intro e; simp only [Q.bind, trace_ask, run_ask, List.cons_append, ih]

theorem asked_bind (p : Q α) (f : α → Q β) (e : Env) :
    asked (Q.bind p f) e = asked p e ++ asked (f (run p e).1) (run p e).2 := by
  unfold asked; rw [trace_bind, List.map_append]

theorem answer_strict (e : Env) (q : Query) : (e.answer q).2.strict = e.strict := by
  cases q <;> simp only [Env.answer] <;> (try rfl)
  · split <;> rfl
  · split <;> rfl

/-- no query changes the option `strict` of the environment -/
theorem run_strict (p : Q α) : ∀ e, (run p e).2.strict = e.strict := by
  induction p with
  | pure a => intro e; rfl
  | ask q k ih => intro e; rw [run_ask, ih, answer_strict]

end Q

namespace M
variable {α β : Type}

theorem asked_bind (m : M α) (f : α → M β) (l : Local) (e : Env) :
    asked (m >>= f) l e = asked m l e ++
      match m.run l e with
      | (.ok (a, l'), e') => asked (f a) l' e'
      | (.error _, _) => [] := by
  show Q.asked (Q.bind (m l) _) e = _
  rw [Q.asked_bind]
  show _ = Q.asked (m l) e ++ match Q.run (m l) e with
      | (.ok (a, l'), e') => asked (f a) l' e'
      | (.error _, _) => []
  rcases Q.run (m l) e with ⟨r, e'⟩
  cases r with
  | error x => rfl
  | ok v => obtain ⟨a, l'⟩ := v; rfl

theorem run_strict (m : M α) (l : Local) (e : Env) : (m.run l e).2.strict = e.strict :=
  Q.run_strict (m l) e

end M

namespace C17

/-- **strict-site safe**: started at top level (`opts = none`) in strict mode, the program keeps
    `opts = none`, and if it puts `.optStrict` to the environment it ends in `HdEof` -/
def SS {α : Type} (m : M α) : Prop :=
  ∀ l e, l.opts = none → e.strict = true →
    (∀ a l' e', m.run l e = (.ok (a, l'), e') → l'.opts = none) ∧
    (Query.optStrict ∈ M.asked m l e → ∃ x e', m.run l e = (.error x, e') ∧ HdEof x)

namespace SS
variable {α β : Type}

theorem pure (a : α) : SS (Pure.pure a : M α) := by
  intro l e hl _
  refine ⟨?_, fun h => by cases h⟩
  intro a' l' e' h
  rw [M.run_pure] at h
  cases h; exact hl

theorem raise (x : Exn) : SS (M.raise x : M α) := by
  intro l e _ _
  refine ⟨?_, fun h => by cases h⟩
  intro a' l' e' h; rw [M.run_raise] at h; cases h

theorem bind {m : M α} {f : α → M β} (hm : SS m) (hf : ∀ a, SS (f a)) : SS (m >>= f) := by
  intro l e hl he
  obtain ⟨h1, h2⟩ := hm l e hl he
  have hstr := M.run_strict m l e
  rw [M.asked_bind, M.run_bind]
  rcases hr : m.run l e with ⟨r, e1⟩
  rw [hr] at hstr
  cases r with
  | error x =>
    refine ⟨fun a l' e' h => (by cases h), ?_⟩
    intro h
    simp only [List.append_nil] at h
    obtain ⟨x', e', hx, hx'⟩ := h2 h
    rw [hr] at hx
    cases hx
    exact ⟨x, e1, rfl, hx'⟩
  | ok v =>
    obtain ⟨a, l1⟩ := v
    have hl1 := h1 a l1 e1 hr
    obtain ⟨g1, g2⟩ := hf a l1 e1 hl1 (by rw [← he]; exact hstr)
    refine ⟨g1, ?_⟩
    intro h
    simp only [List.mem_append] at h
    rcases h with h | h
    · obtain ⟨x', e', hx, _⟩ := h2 h
      rw [hr] at hx; cases hx
    · exact g2 h

theorem ite {c : Prop} [Decidable c] {a b : M α} (ha : SS a) (hb : SS b) :
    SS (if c then a else b) := by
  split
  · exact ha
  · exact hb

theorem loop {σ : Type} {site : String} {body : σ → M (σ ⊕ α)} (h : ∀ s, SS (body s)) :
    ∀ fuel s, SS (M.loop site body fuel s)
  | 0, s => raise _
  | fuel + 1, s => by
    show SS (body s >>= _)
    refine bind (h s) (fun r => ?_)
    cases r with
    | inl s' => exact loop h fuel s'
    | inr a => exact pure a

/-- a query other than `.optStrict` -/
theorem ask (q : Query) (hq : q ≠ .optStrict) : SS (M.ask q) := by
  intro l e hl _
  refine ⟨?_, ?_⟩
  · intro a l' e' h
    have : (M.ask q).run l e = (.ok ((e.answer q).1, l), (e.answer q).2) := rfl
    rw [this] at h; cases h; exact hl
  · intro h
    have : M.asked (M.ask q) l e = [q] := rfl
    rw [this] at h
    simp at h
    exact absurd h.symm hq

theorem get : SS (MonadState.get : M Local) := by
  intro l e hl _
  refine ⟨?_, fun h => by cases h⟩
  intro a l' e' h
  have : (MonadState.get : M Local).run l e = (.ok (l, l), e) := rfl
  rw [this] at h; cases h; exact hl

/-- a state update that leaves `opts` alone -/
theorem modify (f : Local → Local) (hf : ∀ l, (f l).opts = l.opts) : SS (modify f : M Unit) := by
  intro l e hl _
  refine ⟨?_, fun h => by cases h⟩
  intro a l' e' h
  have : (_root_.modify f : M Unit).run l e = (.ok ((), f l), e) := rfl
  rw [this] at h; cases h; rw [hf]; exact hl

theorem set (l1 : Local) (h1 : l1.opts = none) : SS (MonadStateOf.set l1 : M Unit) := by
  intro l e _ _
  refine ⟨?_, fun h => by cases h⟩
  intro a l' e' h
  have : (MonadStateOf.set l1 : M Unit).run l e = (.ok ((), l1), e) := rfl
  rw [this] at h; cases h; exact h1

theorem foreign (a b : String) : SS (M.foreign a b : M α) := raise _

/-- `get`, remembering that the state read has `opts = none` -/
theorem get_bind {f : Local → M β} (h : ∀ l, l.opts = none → SS (f l)) :
    SS ((MonadState.get : M Local) >>= f) := by
  intro l e hl he
  have : ((MonadState.get : M Local) >>= f) = fun l => f l l := rfl
  have h1 : ((MonadState.get : M Local) >>= f).run l e = (f l).run l e := rfl
  have h2 : M.asked ((MonadState.get : M Local) >>= f) l e = M.asked (f l) l e := rfl
  rw [h1, h2]
  exact h l hl l e hl he

end SS

/-- leaves: lemmas already proved (extended by `macro_rules`) -/
syntax "ss_atom" : tactic
macro_rules | `(tactic| ss_atom) => `(tactic| assumption)
macro_rules | `(tactic| ss_atom) => `(tactic| with_reducible apply_assumption)

/-- structural walk -/
macro "ss_walk" : tactic => `(tactic| repeat' (first
  | ss_atom
  | (with_reducible exact SS.pure _)
  | (with_reducible exact SS.raise _)
  | (with_reducible exact SS.foreign _ _)
  | ((with_reducible refine SS.ask _ ?_); (intro h; cases h); done)
  | (with_reducible exact SS.modify _ (fun _ => rfl))
  | ((with_reducible refine SS.set _ ?_); (first | assumption | (simp only []; assumption)); done)
  | (with_reducible refine SS.get_bind (fun _ _ => ?_))
  | (with_reducible exact SS.get)
  | (with_reducible refine SS.bind ?_ (fun _ => ?_))
  | (with_reducible refine SS.ite ?_ ?_)
  | (with_reducible refine SS.loop (fun _ => ?_) _ _)
  | split
  | (dsimp only [])))

/-! ### the tape / option / table primitives of `Model/Monad.lean` (all but `optStrict`) -/

theorem ss_getc (rqn : Bool) : SS (getc rqn) := by unfold getc; ss_walk
theorem ss_ungetc (c : Option Char) : SS (ungetc c) := by unfold ungetc; ss_walk
theorem ss_curIdx : SS curIdx := by unfold curIdx; ss_walk
theorem ss_bumpIdx : SS bumpIdx := by unfold bumpIdx; ss_walk
theorem ss_tapeSource : SS tapeSource := by unfold tapeSource; ss_walk
theorem ss_tapeLine : SS tapeLine := by unfold tapeLine; ss_walk
theorem ss_tapeAdded : SS tapeAdded := by unfold tapeAdded; ss_walk
theorem ss_optProceed : SS optProceed := by unfold optProceed; ss_walk
theorem ss_syn (c : Char) : SS (syn c) := SS.ask _ (by intro h; cases h)

macro_rules | `(tactic| ss_atom) => `(tactic| with_reducible exact ss_getc _)
macro_rules | `(tactic| ss_atom) => `(tactic| with_reducible exact ss_ungetc _)
macro_rules | `(tactic| ss_atom) => `(tactic| with_reducible exact ss_curIdx)
macro_rules | `(tactic| ss_atom) => `(tactic| with_reducible exact ss_bumpIdx)
macro_rules | `(tactic| ss_atom) => `(tactic| with_reducible exact ss_tapeSource)
macro_rules | `(tactic| ss_atom) => `(tactic| with_reducible exact ss_tapeLine)
macro_rules | `(tactic| ss_atom) => `(tactic| with_reducible exact ss_tapeAdded)
macro_rules | `(tactic| ss_atom) => `(tactic| with_reducible exact ss_optProceed)
macro_rules | `(tactic| ss_atom) => `(tactic| with_reducible exact ss_syn _)

/-! ### tokenizer functions that never consult `strictmode` -/

theorem ss_shellmeta (c : Char) : SS (shellmeta c) := by unfold shellmeta; ss_walk
theorem ss_shellquote (c : Char) : SS (shellquote c) := by unfold shellquote; ss_walk
theorem ss_shellexp (c : Char) : SS (shellexp c) := by unfold shellexp; ss_walk
theorem ss_shellbreak (c : Char) : SS (shellbreak c) := by unfold shellbreak; ss_walk
theorem ss_peekc (rqn : Bool) : SS (peekc rqn) := by unfold peekc; ss_walk
theorem ss_recordpos (rel : Nat) : SS (recordpos rel) := by unfold recordpos; ss_walk
theorem ss_matchedPairError {α : Type} (c : Char) : SS (matchedPairError c : M α) := by
  unfold matchedPairError; ss_walk
theorem ss_pushDelimiter (c : Char) : SS (pushDelimiter c) := by unfold pushDelimiter; ss_walk
theorem ss_popDelimiter : SS popDelimiter := by unfold popDelimiter; ss_walk
theorem ss_currentDelimiter : SS currentDelimiter := by unfold currentDelimiter; ss_walk
macro_rules | `(tactic| ss_atom) => `(tactic| with_reducible exact ss_shellmeta _)
macro_rules | `(tactic| ss_atom) => `(tactic| with_reducible exact ss_shellquote _)
macro_rules | `(tactic| ss_atom) => `(tactic| with_reducible exact ss_shellexp _)
macro_rules | `(tactic| ss_atom) => `(tactic| with_reducible exact ss_shellbreak _)
macro_rules | `(tactic| ss_atom) => `(tactic| with_reducible exact ss_peekc _)
macro_rules | `(tactic| ss_atom) => `(tactic| with_reducible exact ss_recordpos _)
macro_rules | `(tactic| ss_atom) => `(tactic| with_reducible exact ss_matchedPairError _)
macro_rules | `(tactic| ss_atom) => `(tactic| with_reducible exact ss_pushDelimiter _)
macro_rules | `(tactic| ss_atom) => `(tactic| with_reducible exact ss_popDelimiter)
macro_rules | `(tactic| ss_atom) => `(tactic| with_reducible exact ss_currentDelimiter)

theorem ss_loopFuel : SS loopFuel := SS.pure _
theorem ss_depthFuel : SS depthFuel := SS.pure _
macro_rules | `(tactic| ss_atom) => `(tactic| with_reducible exact ss_loopFuel)
macro_rules | `(tactic| ss_atom) => `(tactic| with_reducible exact ss_depthFuel)

theorem ss_createtoken (ty : TokType) (v : TVal) (fl : WordFlags) : SS (createtoken ty v fl) := by
  unfold createtoken; ss_walk
theorem ss_isAssignment (v : Str) : SS (isAssignment v) := by unfold isAssignment; ss_walk
theorem ss_tokentypeOfChar (c : Char) : SS (tokentypeOfChar c) := by unfold tokentypeOfChar; ss_walk
theorem ss_discardUntil (c : Char) : SS (discardUntil c) := by unfold discardUntil; ss_walk
macro_rules | `(tactic| ss_atom) => `(tactic| with_reducible exact ss_createtoken _ _ _)
macro_rules | `(tactic| ss_atom) => `(tactic| with_reducible exact ss_isAssignment _)
macro_rules | `(tactic| ss_atom) => `(tactic| with_reducible exact ss_tokentypeOfChar _)
macro_rules | `(tactic| ss_atom) => `(tactic| with_reducible exact ss_discardUntil _)

theorem ss_specialcasetokens (w : Str) : SS (specialcasetokens w) := by
  unfold specialcasetokens; ss_walk
macro_rules | `(tactic| ss_atom) => `(tactic| with_reducible exact ss_specialcasetokens _)
theorem ss_finishWord (st : RWState) : SS (finishWord st) := by unfold finishWord; ss_walk
theorem ss_readtokenMeta (c : Char) : SS (readtokenMeta c) := by unfold readtokenMeta; ss_walk
theorem ss_readline (b : Bool) : SS (readline b) := by unfold readline; ss_walk
macro_rules | `(tactic| ss_atom) => `(tactic| with_reducible exact ss_finishWord _)
macro_rules | `(tactic| ss_atom) => `(tactic| with_reducible exact ss_readtokenMeta _)
macro_rules | `(tactic| ss_atom) => `(tactic| with_reducible exact ss_readline _)
-- (`makeheredoc`, `mpPre`: the same walk exceeds the elaboration budget in one piece; to be split)
theorem ss_mpInit (P : MPParams) : SS (mpInit P) := by unfold mpInit; ss_walk
macro_rules | `(tactic| ss_atom) => `(tactic| with_reducible exact ss_mpInit _)
theorem ss_handledollarword {pmp : MPParams → M Str} {pcs : CSParams → M Str}
    (h1 : ∀ P, SS (pmp P)) (h2 : ∀ P, SS (pcs P)) (P : MPParams) (b : Bool) (c : Char) :
    SS (handledollarword pmp pcs P b c) := by unfold handledollarword; ss_walk
theorem ss_mpPost {pmp : MPParams → M Str} {pcs : CSParams → M Str}
    (h1 : ∀ P, SS (pmp P)) (h2 : ∀ P, SS (pcs P)) (P : MPParams) (b : Bool) (st : MPState) (c : Char) :
    SS (mpPost pmp pcs P b st c) := by
  have := @ss_handledollarword pmp pcs h1 h2
  unfold mpPost; ss_walk

/-- **the reduction**: `StrictSite` follows from `SS` of one top-level parser run.
    (`SS` is compositional; the walk through tokenizer, engine and actions that proves
    `SS (parserRun maxDepth)` is what remains.) -/
theorem strictSite_of_ss (h : SS (parserRun maxDepth)) : StrictSite := by
  intro s o t ho hasked
  obtain ⟨_, h2⟩ := h { limit := o.limit } (runParserEnv s o t) rfl ho
  obtain ⟨x, e', hx, hx'⟩ := h2 hasked
  exact ⟨x, e'.touched, by rw [runParser_eq, hx]; rfl, hx'⟩

/-- the C17 theorem with the compositional hypothesis -/
theorem C17_strict_only_heredoc_eof_of_ss (hss : SS (parserRun maxDepth)) (s : Str) (o : Opts)
    (ho : o.strict = true) (h : ∀ x, (parse s o).1 = .exn x → ¬ HdEof x) :
    parse s { o with strict := false } = parse s o :=
  C17_strict_only_heredoc_eof_conditional (strictSite_of_ss hss) s o ho h

end C17
end Bashlex

#print axioms Bashlex.M.asked_bind
#print axioms Bashlex.C17.SS.bind
#print axioms Bashlex.C17.SS.loop
#print axioms Bashlex.C17.strictSite_of_ss
