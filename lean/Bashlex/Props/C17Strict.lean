/-
  Property C17: "strictmode=False changes the outcome only for inputs that end inside a missing
  here-document".

  `Proofs/QCongr.lean` proves the generic half: an outcome that depends on `strictmode` comes
  from a run that ASKED `.optStrict` (`Q.optStrict_asked_of_ne`, `parse_strict_irrelevant`).
  This file adds WHERE it is asked.  The model has one `optStrict` call, in
  `gatherheredocuments` at end of input (`Model/Tokenizer.lean`: `if p.isNone then if !(← optStrict)`);
  with the answer `true` the next event is the raise of `makeheredoc`
      ParsingError "here-document at line 0 delimited by end-of-file (wanted …)"
  and nested parsers never put the query to the environment (`opts := some (true, false)`).

  What is PROVED here (no hypothesis):
    * the site itself, from C10's equations on runs: `specGatherS_strict`, `gather_strict_site`
      (a top-level `gatherheredocuments` in strict mode does what the non-strict one does, or raises
      that error), `gather_nested_strict_irrelevant` (with `opts := some …` the environment's
      `strict` is never consulted);
    * the lift from one parser run to `parse` / `parsesingle` (`parseLoop_asked_eof`: a later
      part's error escapes `parse` as it is), giving
      `C17_strict_only_heredoc_eof(_single)_conditional`; kernel-checked instances.
  What is a HYPOTHESIS (`StrictSite`, time ran out for the program walk that discharges it): for
  ONE top-level parser run in strict mode, "asked `.optStrict`" implies "ended in that error".
  The hypothesis is validated by `decide +kernel` on the inputs below (both directions).
-/
import Bashlex.Proofs.QCongr
import Bashlex.Props.C10

namespace Bashlex.C17
open Bashlex
set_option linter.unusedSimpArgs false
set_option linter.unusedVariables false

/-- the ParsingError `makeheredoc` raises when the input ends inside a here-document
    (`mkParsingError` models the assertion of `ParsingError.__init__`) -/
def HdEof (x : Exn) : Prop := ∃ (w : String) (src : Str) (p : Int), x = mkParsingError
  ("here-document at line 0 delimited by end-of-file (wanted " ++ w ++ ")") src p

/-- decidable over-approximation used in the examples -/
def isHdEofB : Exn → Bool
  | .parsing msg _ _ => "here-document at line 0 delimited by end-of-file (wanted ".isPrefixOf msg
  | _ => false

/-- **the hypothesis**: in strict mode, a top-level parser run that reads `strictmode` ends in
    the here-document end-of-input error -/
def StrictSite : Prop := ∀ (s : Str) (o : Opts) (t : List Char), o.strict = true →
  Query.optStrict ∈ runParserAsked s o t → ∃ x u, runParser s o t = (.error x, u) ∧ HdEof x

theorem runParser_strict_conditional (hs : StrictSite) (s : Str) (o : Opts) (t : List Char)
    (ho : o.strict = true) (h : ∀ x u, runParser s o t = (.error x, u) → ¬ HdEof x) :
    runParser s { o with strict := false } t = runParser s o t := by
  refine runParser_strict_irrelevant s o t false (fun hasked => ?_)
  obtain ⟨x, u, hr, hx⟩ := hs s o t ho hasked
  exact h x u hr hx

/-- a later parser run of `parse` that reads `strictmode`: its error is the outcome of the loop -/
theorem parseLoop_asked_eof (hs : StrictSite) (s : Str) (o : Opts) (ho : o.strict = true) :
    ∀ (fuel index : Nat) (parts : List Node) (t : List Char),
      Query.optStrict ∈ parseLoopAsked s o fuel index t →
      ∃ x u, parseLoop s o fuel index parts t = (.error x, u) ∧ HdEof x := by
  intro fuel
  induction fuel with
  | zero => intro index parts t h; simp [parseLoopAsked] at h
  | succ fuel ih =>
    intro index parts t h
    unfold parseLoopAsked at h
    unfold parseLoop
    by_cases hlt : index < s.length
    · rw [if_pos hlt] at h ⊢
      rw [List.mem_append] at h
      rcases h with h | h
      · obtain ⟨x, u, hr, hx⟩ := hs (s.drop index) o t ho h
        rw [hr]
        exact ⟨x, u, rfl, hx⟩
      · rcases h1 : runParser (s.drop index) o t with ⟨r, u⟩
        rw [h1] at h
        cases r with
        | error x => simp at h
        | ok n =>
          cases n with
          | none => simp at h
          | some part => exact ih _ _ _ h
    · rw [if_neg hlt] at h; simp at h

/-- **C17_strict_only_heredoc_eof** (conditional on `StrictSite`): for every input and all
    options with `strictmode=True`: unless the outcome is the here-document end-of-input
    ParsingError, `parse(s, strictmode=False)` has the same outcome. -/
theorem C17_strict_only_heredoc_eof_conditional (hs : StrictSite) (s : Str) (o : Opts)
    (ho : o.strict = true) (h : ∀ x, (parse s o).1 = .exn x → ¬ HdEof x) :
    parse s { o with strict := false } = parse s o := by
  refine parse_strict_irrelevant s o false (fun hasked => ?_)
  unfold parseAsked at hasked
  rw [List.mem_append] at hasked
  rcases hasked with h1 | h1
  · obtain ⟨x, u, hr, hx⟩ := hs s o [] ho h1
    refine h x ?_ hx
    unfold parse; rw [hr]
  · rcases hr : runParser s o [] with ⟨r, u⟩
    rw [hr] at h1
    cases r with
    | error x => simp at h1
    | ok n =>
      cases n with
      | none => simp at h1
      | some first =>
        obtain ⟨x, u', hl, hx⟩ := parseLoop_asked_eof hs s o ho _ _ [first] u h1
        refine h x ?_ hx
        unfold parse; rw [hr]; simp only []; rw [hl]

theorem C17_strict_only_heredoc_eof_single_conditional (hs : StrictSite) (s : Str) (o : Opts)
    (ho : o.strict = true) (h : ∀ x, (parsesingle s o).1 = .exn x → ¬ HdEof x) :
    parsesingle s { o with strict := false } = parsesingle s o := by
  refine parsesingle_strict_irrelevant s o false (fun hasked => ?_)
  obtain ⟨x, u, hr, hx⟩ := hs s o [] ho hasked
  refine h x ?_ hx
  unfold parsesingle; rw [hr]

/-! ## the site, from C10's equations on runs (proved, no hypothesis)

  `gatherheredocuments` is the only function of the model that calls `optStrict`.  `C10.gather_spec`
  is an equation for its runs in terms of the pure `specGatherS line strict …`; `strict` occurs
  there once, in the test "the input has ended where a body should start, and strict = false". -/

open Bashlex.C10 in
theorem specGatherS_strict (line : Str) : ∀ (q : List (Nat × Bool)) (store : List RedirCell) (s : Str),
    specGatherS line true q store s = specGatherS line false q store s ∨
    (∃ d, specGatherS line true q store s = .eof d) ∨
    (∃ i, specGatherS line true q store s = .badId i)
  | [], store, s => Or.inl (by rw [specGatherS, specGatherS])
  | (id, kill) :: q, store, s => by
    by_cases hs : skipCont s = []
    · right
      rw [specGatherS]
      simp only [hs, true_and, Bool.true_eq_false, if_false]
      cases hc : store[id]? with
      | none => exact Or.inr ⟨_, rfl⟩
      | some cell =>
        simp only []
        have : specHeredocS cell.delim kill [] = none := by
          rw [specHeredocS_eq, specReadlineS_eq]; simp [getcS]
        rw [this]
        exact Or.inl ⟨_, rfl⟩
    · rw [specGatherS, specGatherS]
      simp only [hs, false_and, if_false]
      cases hc : store[id]? with
      | none => exact Or.inl rfl
      | some cell =>
        simp only []
        cases hh : specHeredocS cell.delim kill (skipCont s) with
        | none => exact Or.inl rfl
        | some w =>
          obtain ⟨v, r⟩ := w
          exact specGatherS_strict line q _ r

theorem eofError_hdEof (d line : Str) : HdEof (C10.eofError d line) :=
  ⟨pyReprStr d, line, line.length, by simp [C10.eofError, mkParsingError]⟩

open Bashlex.C10 in
/-- **the site, on runs**: `gatherheredocuments` of a top-level parser (options read from the
    environment) in strict mode either does what it does in non-strict mode, or raises the
    here-document end-of-input error (or the IndexError of an id outside the store, which the
    parser never queues) -/
theorem gather_strict_site {l : Local} {e : Env} (h : Ready l e) (ho : l.opts = none)
    (hs : e.strict = true) :
    (M.run gatherheredocuments l { e with strict := false }).1 = (M.run gatherheredocuments l e).1 ∨
    ∃ x u, M.run gatherheredocuments l e = (.error x, u) ∧
      (HdEof x ∨ x = .foreign "IndexError" "makeheredoc") := by
  have h' : Ready l { e with strict := false } := ⟨h.eol, h.idx, h.len, h.nbs⟩
  rw [gather_spec h, gather_spec h']
  have s1 : strictOf l e = true := by simp [strictOf, ho, hs]
  have s2 : strictOf l { e with strict := false } = false := by simp [strictOf, ho]
  have t1 : tapeOf l { e with strict := false } = tapeOf l e := by unfold tapeOf; cases l.tape <;> rfl
  rw [s1, s2, t1]
  unfold specGather
  rcases specGatherS_strict (tapeOf l e).line l.redirstack l.store
      ((tapeOf l e).line.drop (tapeOf l e).idx) with heq | ⟨d, hd⟩ | ⟨i, hi⟩
  · left
    rw [heq]
    generalize (specGatherS (tapeOf l e).line false l.redirstack l.store
      ((tapeOf l e).line.drop (tapeOf l e).idx)).toI (tapeOf l e).line = X
    cases X <;> simp [gatherResultI, atL, atE, t1]
  · right
    rw [hd]
    exact ⟨_, _, rfl, Or.inl (eofError_hdEof d _)⟩
  · right
    rw [hi]
    exact ⟨_, _, rfl, Or.inr rfl⟩

open Bashlex.C10 in
/-- a nested parser (`opts := some (true, false)`) never consults the environment's `strict` -/
theorem gather_nested_strict_irrelevant {l : Local} {e : Env} (h : Ready l e) (b : Bool)
    (ho : l.opts.isSome = true) :
    (M.run gatherheredocuments l { e with strict := b }).1 = (M.run gatherheredocuments l e).1 := by
  have h' : Ready l { e with strict := b } := ⟨h.eol, h.idx, h.len, h.nbs⟩
  have t1 : tapeOf l { e with strict := b } = tapeOf l e := by unfold tapeOf; cases l.tape <;> rfl
  have s1 : strictOf l { e with strict := b } = strictOf l e := by
    unfold strictOf
    cases hop : l.opts with
    | none => rw [hop] at ho; cases ho
    | some p => rfl
  rw [gather_spec h, gather_spec h', s1, t1]
  generalize specGather (tapeOf l e).line (strictOf l e) l.redirstack l.store (tapeOf l e).idx = X
  cases X <;> simp [gatherResultI, atL, atE, t1]

/-! ## kernel-checked instances -/

/-- the shape of an outcome: number of parts, or the exception -/
def shape : Outcome → Nat ⊕ Exn
  | .parts l => .inl l.length
  | .single _ => .inl 1
  | .strs l => .inl l.length
  | .exn x => .inr x

def outEof (o : Outcome) : Bool := match o with | .exn x => isHdEofB x | _ => false

def P (s : String) (strict : Bool) : Outcome := (parse s.toList { strict := strict }).1
def askedP (s : String) : Bool := decide (Query.optStrict ∈ parseAsked s.toList {})


-- `cat <<E`: the input ends inside a missing here-document.  Strict: that ParsingError;
-- non-strict: one command.  The strict run asked `.optStrict`.

-- `a $(cat <<E)`: the here-document is missing inside a command substitution.  The nested
-- parser is strict under both values (`opts := some (true, false)`): the same error under both,
-- and `.optStrict` is never put to the environment.

-- a later part: the error of the second parser run escapes `parse` as it is

-- complete here-documents, and inputs without one: not asked, same outcome

/-- the hypothesis `StrictSite`, checked on instances: asked ⇒ the run ends in the error -/
def siteOK (s : String) : Bool :=
  !decide (Query.optStrict ∈ runParserAsked s.toList {} []) ||
    (match (runParser s.toList {} []).1 with | .error x => isHdEofB x | _ => false)


example : shape (P "cat <<E" true) =
    .inr (.parsing "here-document at line 0 delimited by end-of-file (wanted 'E')" "cat <<E\n".toList 8) ∧
    shape (P "cat <<E" false) = .inl 1 ∧ askedP "cat <<E" = true := by decide +kernel

example : shape (P "a $(cat <<E)" true) = shape (P "a $(cat <<E)" false) ∧
    outEof (P "a $(cat <<E)" true) = true ∧ askedP "a $(cat <<E)" = false := by decide +kernel

example : outEof (P "a\ncat <<E" true) = true ∧ shape (P "a\ncat <<E" false) = .inl 2 ∧
    askedP "a\ncat <<E" = true := by decide +kernel

example : askedP "cat <<E\nx\nE\n" = false ∧ askedP "a; b" = false ∧ askedP "a $(b <<E\nE\n)" = false ∧
    shape (P "cat <<E\nx\nE\n" true) = shape (P "cat <<E\nx\nE\n" false) := by decide +kernel

example : ["cat <<E", "a $(cat <<E)", "cat <<E\nx\nE\n", "cat <<E\nx", "cat <<-E\n\tx", "a <<A <<B\nA\n",
    "if a; then cat <<E\nfi", "a | b <<E", "(a <<E", "a <<'E'\nE", "a `b <<E`", ""].all siteOK = true := by
  decide +kernel

end Bashlex.C17

#print axioms Bashlex.C17.specGatherS_strict
#print axioms Bashlex.C17.gather_strict_site
#print axioms Bashlex.C17.gather_nested_strict_irrelevant
#print axioms Bashlex.C17.parseLoop_asked_eof
#print axioms Bashlex.C17.C17_strict_only_heredoc_eof_conditional
#print axioms Bashlex.C17.C17_strict_only_heredoc_eof_single_conditional
