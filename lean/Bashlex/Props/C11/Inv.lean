/-
  C11, part 2: the state invariants of one parser (cursor inside the line, recorded positions),
  the classification `TopE` of what one parser itself may raise, and triples for the tape
  primitives of `Model/Monad.lean`.
-/
import Bashlex.Props.C11.Hoare
import Bashlex.Model.Actions

namespace Bashlex.C11
open Bashlex Bashlex.M Bashlex.C10
set_option linter.unusedVariables false
set_option linter.unusedSimpArgs false

/-- ghost constants of one parser run: they never change while the parser runs -/
structure Ghost where
  /-- `none`: a top-level parser (its tape is the environment's);
      `some t`: a nested parser (its tape is in its local state), the environment's tape is `t` -/
  env : Option Tape
  /-- `_shell_input_line` -/
  line : Str
  /-- `_added_newline` -/
  added : Bool
  /-- the environment's strict-mode option -/
  strict : Bool

/-- `tokenizer.source` -/
def Ghost.source (g : Ghost) : Str := if g.added then g.line.dropLast else g.line

/-- where the tape lives, and the environment's constants -/
def Frame (g : Ghost) (l : Local) (e : Env) : Prop :=
  (match g.env with
   | none => l.tape = none
   | some t => l.tape.isSome = true ∧ e.tape = t) ∧ e.strict = g.strict

def Base (g : Ghost) (l : Local) (e : Env) : Prop :=
  Frame g l e ∧ (tapeOf l e).line = g.line ∧ (tapeOf l e).added = g.added

/-- the cursor is inside the line; recorded positions are `ps`
    (a character in the `_eol_ungetc_lookahead` slot was read from the line: the line is not empty) -/
def Live (g : Ghost) (ps : List Nat) (l : Local) (e : Env) : Prop :=
  Base g l e ∧ (tapeOf l e).idx ≤ g.line.length ∧ (l.eolLookahead.isSome = true → g.line ≠ []) ∧
  l.positions = ps

/-- the cursor is inside the line, or it was moved past the end by the non-strict here-document
    skip (`_shell_input_line_index += 1` at end of input) and nothing can be read any more -/
def Good (g : Ghost) (ps : List Nat) (l : Local) (e : Env) : Prop :=
  Base g l e ∧ (l.eolLookahead.isSome = true → g.line ≠ []) ∧
  ((tapeOf l e).idx ≤ g.line.length ∨ (l.eolLookahead = none ∧ strictOf l e = false)) ∧
  l.positions = ps

theorem Live.good {g ps l e} (h : Live g ps l e) : Good g ps l e :=
  ⟨h.1, h.2.2.1, Or.inl h.2.1, h.2.2.2⟩

/-! ## what one parser itself may raise -/

/-- the token fact the error positions rely on: a token starts inside the line -/
def TF (g : Ghost) (t : Token) : Prop := t.lexpos ≤ g.line.length - 1

/-- `AssertionError` of `ParsingError.__init__` (`assert position <= len(s)`) -/
def initAssert : Exn := .foreign "AssertionError" "ParsingError.__init__"

def matchedPairMsg (close : Char) : String :=
  s!"unexpected EOF while looking for matching {if close == '\'' then "\"'\"" else "'" ++ String.singleton close ++ "'"}"

def heredocMsg (delim : Str) : String :=
  "here-document at line 0 delimited by end-of-file (wanted " ++ pyReprStr delim ++ ")"

def tokRepr (t : Token) : String :=
  match t.value with
  | .str s => pyReprStr s
  | .int n => toString n
  | .none => "None"

/-- the `ParsingError`s one parser raises itself (not its nested parsers), site by site -/
inductive TopParsing (g : Ghost) : String → Str → Int → Prop
  /-- `MatchedPairError` (tokenizer): at the cursor minus one, after `_getc` returned `None` -/
  | matchedPair (close : Char) (p : Int) : 0 ≤ p → p ≤ (g.source.length : Int) →
      TopParsing g (matchedPairMsg close) g.source p
  /-- here-document delimited by end of file: the source is `_shell_input_line`
      (it carries the appended newline) -/
  | heredoc (delim : Str) (p : Nat) : p ≤ g.line.length →
      TopParsing g (heredocMsg delim) g.line p
  /-- `p_error` on the EOF token -/
  | eof : TopParsing g "unexpected EOF" g.source g.source.length
  /-- `p_error` on another token: at the token's start -/
  | token (t : Token) : TF g t → t.lexpos ≤ g.source.length →
      TopParsing g ("unexpected token " ++ tokRepr t) g.source (t.lexpos : Nat)
  /-- `_expandwordinternal`: unclosed backquote inside the word `t`, at offset `k` -/
  | badSubst (t : Token) (k : Nat) : t.lexpos + k ≤ g.source.length →
      TopParsing g ("bad substitution: no closing \"`\" in " ++ String.ofList t.valueStr) g.source
        ((t.lexpos + k : Nat) : Int)

/-- what one parser itself may raise: classified `ParsingError`s, anything else but the
    `AssertionError` of `ParsingError.__init__` -/
def TopE (g : Ghost) (x : Exn) : Prop :=
  match x with
  | .parsing m src p => TopParsing g m src p
  | x => x ≠ initAssert

theorem topE_foreign {g : Ghost} {a b : String} (h : (a == "AssertionError" && b == "ParsingError.__init__") = false) :
    TopE g (.foreign a b) := by
  intro hx
  cases hx
  simp at h

theorem topE_fuel {g : Ghost} {s : String} : TopE g (.outOfFuel s) := by
  intro hx; cases hx

theorem topE_ni {g : Ghost} {s : String} : TopE g (.notImplemented s) := by
  intro hx; cases hx

theorem TopParsing.le {g m src p} (h : TopParsing g m src p) : 0 ≤ p ∧ p ≤ (src.length : Int) := by
  cases h with
  | matchedPair c p h0 h1 => exact ⟨h0, h1⟩
  | heredoc d p h => exact ⟨Int.natCast_nonneg _, Int.ofNat_le.mpr h⟩
  | eof => exact ⟨Int.natCast_nonneg _, Int.le_refl _⟩
  | token t _ h => exact ⟨Int.natCast_nonneg _, Int.ofNat_le.mpr h⟩
  | badSubst t k h => exact ⟨Int.natCast_nonneg _, Int.ofNat_le.mpr h⟩

theorem source_length (g : Ghost) : g.line.length - 1 ≤ g.source.length := by
  unfold Ghost.source
  split
  · simp
  · omega

theorem source_length_le (g : Ghost) : g.source.length ≤ g.line.length := by
  unfold Ghost.source
  split
  · simp
  · omega

/-! ## the state invariants and changes of the state -/

theorem tapeOf_env {l : Local} {e e' : Env} (h : e'.tape = e.tape) : tapeOf l e' = tapeOf l e := by
  unfold tapeOf; split <;> simp [h]

theorem strictOf_env {l : Local} {e e' : Env} (h : e'.strict = e.strict) :
    strictOf l e' = strictOf l e := by
  unfold strictOf; split <;> simp [h]

theorem Frame.env {g l e e'} (h : Frame g l e) (h1 : e'.tape = e.tape) (h2 : e'.strict = e.strict) :
    Frame g l e' := by
  unfold Frame at h ⊢
  rw [h1, h2]; exact h

theorem Base.env {g l e e'} (h : Base g l e) (h1 : e'.tape = e.tape) (h2 : e'.strict = e.strict) :
    Base g l e' := by
  unfold Base at h ⊢
  rw [tapeOf_env h1]; exact ⟨h.1.env h1 h2, h.2⟩

theorem Live.env {g ps l e e'} (h : Live g ps l e) (h1 : e'.tape = e.tape)
    (h2 : e'.strict = e.strict) : Live g ps l e' := by
  unfold Live at h ⊢
  rw [tapeOf_env h1]; exact ⟨h.1.env h1 h2, h.2⟩

theorem Good.env {g ps l e e'} (h : Good g ps l e) (h1 : e'.tape = e.tape)
    (h2 : e'.strict = e.strict) : Good g ps l e' := by
  unfold Good at h ⊢
  rw [tapeOf_env h1, strictOf_env h2]; exact ⟨h.1.env h1 h2, h.2⟩

/-- the tape was replaced by `t'` (same line) -/
theorem Frame.put {g l e} (h : Frame g l e) (t' : Tape) : Frame g (putL l t') (putE l e t') := by
  unfold Frame at h ⊢
  cases l with
  | mk tape =>
    cases tape with
    | none =>
      simp only [putL, putE]
      cases hg : g.env with
      | none => exact ⟨trivial, h.2⟩
      | some t => rw [hg] at h; exact absurd h.1.1 (by simp)
    | some t0 =>
      simp only [putL, putE]
      cases hg : g.env with
      | none => rw [hg] at h; exact absurd h.1 (by simp)
      | some t => rw [hg] at h; exact ⟨⟨rfl, h.1.2⟩, h.2⟩

theorem Base.put {g l e} (h : Base g l e) {t' : Tape} (h1 : t'.line = (tapeOf l e).line)
    (h2 : t'.added = (tapeOf l e).added) : Base g (putL l t') (putE l e t') := by
  unfold Base at h ⊢
  rw [tapeOf_put]
  exact ⟨h.1.put t', h1.trans h.2.1, h2.trans h.2.2⟩

@[simp] theorem putL_positions (l : Local) (t : Tape) : (putL l t).positions = l.positions := by
  cases l with
  | mk tape => cases tape <;> rfl

theorem Live.put {g ps l e} (h : Live g ps l e) {t' : Tape} (h1 : t'.line = (tapeOf l e).line)
    (h2 : t'.added = (tapeOf l e).added) (h3 : t'.idx ≤ g.line.length) :
    Live g ps (putL l t') (putE l e t') := by
  unfold Live at h ⊢
  rw [tapeOf_put, putL_positions, putL_eol]
  exact ⟨h.1.put h1 h2, h3, h.2.2⟩

/-! ## the tape -/

theorem getc_spec (rqn : Bool) : ∀ (fuel : Nat) (t : Tape) (c : Option Char) (t' : Tape),
    t.getc rqn fuel = .ok (c, t') →
      t'.line = t.line ∧ t'.added = t.added ∧ (t.line.length ≤ t.idx → c = none ∧ t' = t) ∧
      (t.idx ≤ t.line.length → t'.idx ≤ t.line.length) ∧ (c.isSome = true → t.idx < t.line.length) ∧
      (c = none → t.line.length - t.idx < fuel → t.line.length ≤ t'.idx) := by
  intro fuel
  induction fuel with
  | zero =>
    intro t c t' h
    simp only [Tape.getc] at h
    cases h
    refine ⟨rfl, rfl, fun _ => ⟨rfl, rfl⟩, fun h => h, ?_, ?_⟩
    · intro h; cases h
    · intro _ h; omega
  | succ fuel ih =>
    intro t c t' h
    unfold Tape.getc at h
    split at h
    · rename_i hlt
      split at h
      · rename_i hn
        cases h
        have := List.getElem?_eq_none_iff.mp hn
        omega
      · rename_i c0 hc
        simp only [] at h
        split at h
        · split at h
          · cases h
          · rename_i d hd
            have hd' : t.idx + 1 < t.line.length := (List.getElem?_eq_some_iff.mp hd).1
            split at h
            · obtain ⟨a1, a2, a3, a4, a5, a6⟩ := ih _ _ _ h
              simp only [] at a1 a2 a3 a4 a5 a6
              refine ⟨a1, a2, fun h => by omega, fun _ => a4 (by omega), fun _ => hlt, fun hc' hf => ?_⟩
              exact a6 hc' (by omega)
            · cases h
              exact ⟨rfl, rfl, fun h => by omega, fun _ => by simp only []; omega, fun _ => hlt,
                fun h => by cases h⟩
        · cases h
          exact ⟨rfl, rfl, fun h => by omega, fun _ => by simp only []; omega, fun _ => hlt,
            fun h => by cases h⟩
    · rename_i hge
      cases h
      refine ⟨rfl, rfl, fun _ => ⟨rfl, rfl⟩, fun h => h, ?_, ?_⟩
      · intro h; cases h
      · intro _ _; omega

end Bashlex.C11
