/-
  C11, part 7: word expansion (`Model/Subst.lean`) from a `Good` state, over a nested parser `np`
  whose exceptions satisfy `N`: `Good` is preserved and every exception is one of the parser's own
  (`TopE`) or one of the nested parser's (`N`).  The only raise site here, the "bad substitution"
  error of `_expandwordinternal`, passes `wordtoken.lexpos + index into the token value`: it is
  inside the source because the value of a token is not longer than the text it spans (`TL`).
-/
import Bashlex.Props.C11.NextToken
import Bashlex.Model.Subst

namespace Bashlex.C11
open Bashlex Bashlex.M Bashlex.C10
set_option linter.unusedSimpArgs false
set_option linter.unusedVariables false

/-- the exceptions of one parser run: its own, or those of its nested parsers -/
def EN (g : Ghost) (N : Exn → Prop) (x : Exn) : Prop := TopE g x ∨ N x

/-- the second token fact: a backquote at index `k` of the value of a token sits before the last
    character of the line, counted from the token's start.  (Implied by "the value of a token is
    not longer than the rest of the line from the token's start", `tl_of_length`: the value is the
    spanned text with the line continuations removed.) -/
def TL (g : Ghost) (t : Token) : Prop :=
  ∀ k, t.valueStr[k]? = some '`' → t.lexpos + k ≤ g.line.length - 1

theorem tl_of_length {g : Ghost} {t : Token} (h : t.lexpos + t.valueStr.length ≤ g.line.length) :
    TL g t := by
  intro k hk
  have := (List.getElem?_eq_some_iff.mp hk).1
  omega

/-- preserves `Good` (with an empty position stack), raises only `EN` -/
abbrev GSat {α : Type} (g : Ghost) (N : Exn → Prop) (m : M α) : Prop :=
  SatI (Good g []) m (fun _ => True) (EN g N)

/-- the nested parser, seen from the parser that calls it -/
@[reducible] def NPOK (g : Ghost) (N : Exn → Prop) (np : NestedParse) : Prop := ∀ s b, GSat g N (np s b)

variable {g : Ghost} {N : Exn → Prop} {np : NestedParse}

theorem g_adjustpositions (n : Node) (b l : Nat) : GSat g N (adjustpositions n b l) := by
  unfold adjustpositions; live_walk
macro_rules | `(tactic| live_atom) => `(tactic| exact g_adjustpositions _ _ _)

theorem g_recursiveparse (hnp : NPOK g N np) (base : Str) (i : Nat) (b : Bool) :
    GSat g N (recursiveparse np base i b) := by
  unfold recursiveparse; (try simp only []); live_walk
macro_rules | `(tactic| live_atom) => `(tactic| exact g_recursiveparse (by assumption) _ _ _)

theorem g_parsedolparen (hnp : NPOK g N np) (base : Str) (i : Nat) :
    GSat g N (parsedolparen np base i) := by
  unfold parsedolparen; (try simp only []); live_walk
macro_rules | `(tactic| live_atom) => `(tactic| exact g_parsedolparen (by assumption) _ _)

theorem g_paramexpand (hnp : NPOK g N np) (s : Str) (i : Nat) : GSat g N (paramexpand np s i) := by
  unfold paramexpand; (try simp only []); live_walk
macro_rules | `(tactic| live_atom) => `(tactic| exact g_paramexpand (by assumption) _ _)

/-- the "bad substitution" error -/
theorem badSubst_sat {α : Type} {ps : List Nat} (tok : Token) (k : Nat)
    (h : tok.lexpos + k ≤ g.source.length) {φ : α → Prop} :
    SatI (Good g ps) (do
      let src ← tapeSource
      (M.raise (mkParsingError
        ("bad substitution: no closing \"`\" in " ++ String.ofList tok.valueStr) src
        ((tok.lexpos + k : Nat) : Int)) : M α)) φ (EN g N) := by
  intro l e hl
  simp only [M.run_bind, run_tapeSource, M.run_raise]
  obtain ⟨⟨hf, hline, hadd⟩, _⟩ := hl
  have hsrc : (tapeOf l e).source = g.source := by
    unfold Tape.source Ghost.source; rw [hline, hadd]
  rw [hsrc]
  have hle : ((tok.lexpos + k : Nat) : Int) ≤ (g.source.length : Int) := Int.ofNat_le.mpr h
  unfold mkParsingError
  rw [if_pos hle]
  exact Or.inl (TopParsing.badSubst tok k h)

set_option hygiene false in
macro_rules | `(tactic| live_atom) => `(tactic| exact hbad (by assumption))

theorem g_expandStep (hnp : NPOK g N np) (tok : Token) (htl : TL g tok) (qd : Bool) (st : ExpSt) :
    GSat g N (expandStep np tok tok.valueStr qd st) := by
  unfold expandStep
  simp only []
  refine SatI.ite (fun _ => SatI.pure True.intro) (fun _ => ?_)
  split
  · exact SatI.foreign (Or.inl (topE_foreign rfl))
  rename_i c hc
  have hbad : (c == '`') = true → SatI (Good g []) (do
      let src ← tapeSource
      (M.raise (mkParsingError
        ("bad substitution: no closing \"`\" in " ++ String.ofList tok.valueStr) src
        ((tok.lexpos + st.sindex : Nat) : Int)) : M (ExpSt ⊕ (List Node × Str × Bool))))
      (fun _ => True) (EN g N) := by
    intro hq
    have hc' : tok.valueStr[st.sindex]? = some '`' := by
      have : c = '`' := by simpa using hq
      rw [← this]; exact hc
    exact badSubst_sat tok st.sindex (Nat.le_trans (htl _ hc') (source_length g))
  live_walk

theorem g_expandwordinternal (hnp : NPOK g N np) (tok : Token) (htl : TL g tok) (qd : Bool) :
    GSat g N (expandwordinternal np tok qd) := by
  have hstep := g_expandStep hnp tok htl qd
  unfold expandwordinternal
  simp only []
  live_walk

theorem g_expandword (hnp : NPOK g N np) (tok : Token) (htl : TL g tok) :
    GSat g N (expandword np tok) := by
  have hint := g_expandwordinternal hnp tok htl
  unfold expandword
  simp only []
  live_walk

end Bashlex.C11
