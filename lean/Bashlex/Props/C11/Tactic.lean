/-
  C11: a small tactic for the program walks: split the `match` at the head of the program of a
  triple (`split` picks its own target, which may be deep inside the program).
-/
import Lean.Elab.Tactic
import Bashlex.Props.C11.Hoare

namespace Bashlex.C11

open Lean Elab Tactic Meta in
/-- split the `match` at the head of the program of a triple (or at the head of the first
    component of its top-level bind) -/
elab "split_head" : tactic => do
  let goal ← getMainGoal
  let tgt ← whnfR (← instantiateMVars (← goal.getType))
  let args := tgt.getAppArgs
  let fn := tgt.getAppFn
  let prog ←
    if fn.isConstOf ``SatI then pure args[2]!
    else if fn.isConstOf ``HTAt then pure args[3]!
    else if fn.isConstOf ``HTQAt then pure args[3]!
    else if fn.isConstOf ``HT then pure args[2]!
    else throwError "split_head: not a triple"
  let head := if prog.isAppOfArity ``Bind.bind 6 then prog.getAppArgs[4]! else prog
  if (← isMatcherApp head) then
    let gs ← Split.splitMatch goal head
    replaceMainGoal gs
  else throwError "split_head: the head is not a match"


end Bashlex.C11
