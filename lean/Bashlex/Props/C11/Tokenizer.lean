/-
  C11, part 4b: the walk through `Model/Tokenizer.lean` in a live state (a character has been
  read, the cursor is inside the line): every function below `readtoken` preserves `Live` and
  raises only `TopE` — in particular both `ParsingError` sites of the tokenizer pass a position
  inside their source.
-/
import Bashlex.Props.C11.Walk

namespace Bashlex.C11
open Bashlex Bashlex.M Bashlex.C10
set_option linter.unusedSimpArgs false
set_option linter.unusedVariables false

variable {g : Ghost} {ps : List Nat}

/-! ### tape access -/

theorem live_shellmeta (c : Char) : LSat g ps (shellmeta c) := by unfold shellmeta; live_walk
theorem live_shellquote (c : Char) : LSat g ps (shellquote c) := by unfold shellquote; live_walk
theorem live_shellexp (c : Char) : LSat g ps (shellexp c) := by unfold shellexp; live_walk
theorem live_shellbreak (c : Char) : LSat g ps (shellbreak c) := by unfold shellbreak; live_walk
macro_rules | `(tactic| live_atom) => `(tactic| exact live_shellmeta _)
macro_rules | `(tactic| live_atom) => `(tactic| exact live_shellquote _)
macro_rules | `(tactic| live_atom) => `(tactic| exact live_shellexp _)
macro_rules | `(tactic| live_atom) => `(tactic| exact live_shellbreak _)

theorem live_peekc (hne : g.line ≠ []) (rqn : Bool) : LSat g ps (peekc rqn) := by
  unfold peekc; (try simp only []); live_walk
macro_rules | `(tactic| live_atom) => `(tactic| exact live_peekc (by assumption) _)

theorem live_loopFuel : LSat g ps loopFuel := SatI.pure True.intro
theorem live_depthFuel : LSat g ps depthFuel := SatI.pure True.intro
macro_rules | `(tactic| live_atom) => `(tactic| exact live_loopFuel)
macro_rules | `(tactic| live_atom) => `(tactic| exact live_depthFuel)

/-! ### here-documents -/

/-- `readline(False)` (the only call: `makeheredoc`) never calls `_ungetc` -/
theorem live_readline_false : LSat g ps (readline false) := by
  unfold readline; simp only [Bool.and_false, Bool.false_eq_true, if_false]; live_walk
macro_rules | `(tactic| live_atom) => `(tactic| exact live_readline_false)


theorem live_makeheredoc (id : Nat) (kill : Bool) : LSat g ps (makeheredoc id kill) := by
  unfold makeheredoc; (try simp only []); live_walk
macro_rules | `(tactic| live_atom) => `(tactic| exact live_makeheredoc _ _)

/-! ### `_parse_matched_pair`, `_parse_comsub` -/

theorem live_pushDelimiter (c : Char) : LSat g ps (pushDelimiter c) := by unfold pushDelimiter; live_walk
theorem live_popDelimiter : LSat g ps popDelimiter := by unfold popDelimiter; (try simp only []); live_walk
theorem live_currentDelimiter : LSat g ps currentDelimiter := by unfold currentDelimiter; live_walk
macro_rules | `(tactic| live_atom) => `(tactic| exact live_pushDelimiter _)
macro_rules | `(tactic| live_atom) => `(tactic| exact live_popDelimiter)
macro_rules | `(tactic| live_atom) => `(tactic| exact live_currentDelimiter)

theorem live_mpInit (P : MPParams) : LSat g ps (mpInit P) := by
  unfold mpInit; (try simp only []); live_walk
macro_rules | `(tactic| live_atom) => `(tactic| exact live_mpInit _)

theorem live_mpPre (hne : g.line ≠ []) (P : MPParams) (lfc : Bool) (st : MPState) : LSat g ps (mpPre P lfc st) := by
  unfold mpPre; (try simp only []); live_walk
macro_rules | `(tactic| live_atom) => `(tactic| exact live_mpPre (by assumption) _ _ _)

theorem live_handledollarword {pmp : MPParams → M Str} {pcs : CSParams → M Str}
    (hpmp : ∀ P, LSat g ps (pmp P)) (hpcs : ∀ P, LSat g ps (pcs P)) (P : MPParams) (rdquote : Bool)
    (c : Char) : LSat g ps (handledollarword pmp pcs P rdquote c) := by
  unfold handledollarword; (try simp only []); live_walk

theorem live_mpPost {pmp : MPParams → M Str} {pcs : CSParams → M Str}
    (hpmp : ∀ P, LSat g ps (pmp P)) (hpcs : ∀ P, LSat g ps (pcs P)) (P : MPParams) (rdquote : Bool)
    (st : MPState) (c : Char) : LSat g ps (mpPost pmp pcs P rdquote st c) := by
  have hd := live_handledollarword hpmp hpcs
  unfold mpPost; (try simp only []); live_walk

theorem live_csDelimMatches (st : CSState) : LSat g ps (csDelimMatches st) := by
  unfold csDelimMatches; (try simp only []); live_walk
macro_rules | `(tactic| live_atom) => `(tactic| exact live_csDelimMatches _)

theorem live_csA (hne : g.line ≠ []) (P : CSParams) (st : CSState) : LSat g ps (csA P st) := by
  unfold csA; (try simp only []); live_walk
theorem live_csB (hne : g.line ≠ []) (b : Bool) (st : CSState) (c : Char) : LSat g ps (csB b st c) := by
  unfold csB; (try simp only []); live_walk
theorem live_csC (hne : g.line ≠ []) (P : CSParams) (b : Bool) (st : CSState) (c : Char) : LSat g ps (csC P b st c) := by
  unfold csC; (try simp only []); live_walk
theorem live_csD (P : CSParams) (st : CSState) (c : Char) : LSat g ps (csD P st c) := by
  unfold csD; (try simp only []); live_walk
macro_rules | `(tactic| live_atom) => `(tactic| exact live_csA (by assumption) _ _)
macro_rules | `(tactic| live_atom) => `(tactic| exact live_csB (by assumption) _ _ _)
macro_rules | `(tactic| live_atom) => `(tactic| exact live_csC (by assumption) _ _ _ _)
macro_rules | `(tactic| live_atom) => `(tactic| exact live_csD _ _ _)

theorem live_csPre (hne : g.line ≠ []) (P : CSParams) (b : Bool) (st : CSState) : LSat g ps (csPre P b st) := by
  unfold csPre; (try simp only []); live_walk
macro_rules | `(tactic| live_atom) => `(tactic| exact live_csPre (by assumption) _ _ _)

theorem live_csPost {pmp : MPParams → M Str} {pcs : CSParams → M Str}
    (hpmp : ∀ P, LSat g ps (pmp P)) (hpcs : ∀ P, LSat g ps (pcs P)) (P : CSParams)
    (st : CSState) (c : Char) : LSat g ps (csPost pmp pcs P st c) := by
  unfold csPost; (try simp only []); live_walk

/-- the two mutually recursive scanners, by induction on the depth fuel -/
theorem live_pmp_pcs (hne : g.line ≠ []) : ∀ fuel,
    (∀ P, LSat g ps (parseMatchedPair fuel P)) ∧ (∀ P, LSat g ps (parseComsub fuel P)) := by
  intro fuel
  induction fuel with
  | zero =>
    refine ⟨fun P => ?_, fun P => ?_⟩
    · unfold parseMatchedPair; live_walk
    · unfold parseComsub; live_walk
  | succ fuel ih =>
    obtain ⟨hpmp, hpcs⟩ := ih
    have hpost := live_mpPost hpmp hpcs
    have hcpost := live_csPost hpmp hpcs
    refine ⟨fun P => ?_, fun P => ?_⟩
    · unfold parseMatchedPair; (try simp only []); live_walk
    · unfold parseComsub; (try simp only []); live_walk

theorem live_parseMatchedPair (hne : g.line ≠ []) (fuel : Nat) (P : MPParams) : LSat g ps (parseMatchedPair fuel P) :=
  (live_pmp_pcs hne fuel).1 P
theorem live_parseComsub (hne : g.line ≠ []) (fuel : Nat) (P : CSParams) : LSat g ps (parseComsub fuel P) :=
  (live_pmp_pcs hne fuel).2 P
macro_rules | `(tactic| live_atom) => `(tactic| exact live_parseMatchedPair (by assumption) _ _)
macro_rules | `(tactic| live_atom) => `(tactic| exact live_parseComsub (by assumption) _ _)

/-! ### words -/

theorem live_isAssignment (s : Str) : LSat g ps (isAssignment s) := by
  unfold isAssignment; (try simp only []); live_walk
macro_rules | `(tactic| live_atom) => `(tactic| exact live_isAssignment _)

theorem live_specialcasetokens (s : Str) : LSat g ps (specialcasetokens s) := by
  unfold specialcasetokens; (try simp only []); live_walk
macro_rules | `(tactic| live_atom) => `(tactic| exact live_specialcasetokens _)

theorem live_handleshellquote (hne : g.line ≠ []) (st : RWState) (c : Char) : LSat g ps (handleshellquote st c) := by
  unfold handleshellquote; (try simp only []); live_walk
macro_rules | `(tactic| live_atom) => `(tactic| exact live_handleshellquote (by assumption) _ _)

theorem live_handleshellexp (hne : g.line ≠ []) (st : RWState) (c : Char) (cd : Option Char) :
    LSat g ps (handleshellexp st c cd) := by
  unfold handleshellexp; (try simp only []); live_walk
macro_rules | `(tactic| live_atom) => `(tactic| exact live_handleshellexp (by assumption) _ _ _)

theorem live_readtokenwordStep (hne : g.line ≠ []) (st : RWState) : LSat g ps (readtokenwordStep st) := by
  unfold readtokenwordStep; (try simp only []); live_walk
macro_rules | `(tactic| live_atom) => `(tactic| exact live_readtokenwordStep (by assumption) _)

theorem live_discardUntil (hne : g.line ≠ []) (c : Char) : LSat g ps (discardUntil c) := by
  unfold discardUntil; (try simp only []); live_walk
macro_rules | `(tactic| live_atom) => `(tactic| exact live_discardUntil (by assumption) _)

theorem live_tokentypeOfChar (c : Char) : LSat g ps (tokentypeOfChar c) := by
  unfold tokentypeOfChar; (try simp only []); live_walk
macro_rules | `(tactic| live_atom) => `(tactic| exact live_tokentypeOfChar _)

theorem live_readtokenMeta (hne : g.line ≠ []) (c : Char) : LSat g ps (readtokenMeta c) := by
  unfold readtokenMeta; (try simp only []); live_walk
macro_rules | `(tactic| live_atom) => `(tactic| exact live_readtokenMeta (by assumption) _)

end Bashlex.C11
