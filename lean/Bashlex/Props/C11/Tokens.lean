/-
  C11, part 5: tokens.  Every token delivered by `nextToken` starts inside the line (`TF`): its
  `lexpos` was recorded by `recordpos 1` right after a character was read in a live state.
  `gatherheredocuments` is the only function that may leave the live states (the non-strict skip
  `_shell_input_line_index += 1` at end of input); it preserves `Good`.
-/
import Bashlex.Props.C11.Tokenizer

namespace Bashlex.C11
open Bashlex Bashlex.M Bashlex.C10
set_option linter.unusedSimpArgs false
set_option linter.unusedVariables false

variable {g : Ghost} {ps : List Nat}

/-! ## the position stack -/

theorem run_recordpos (rel : Nat) (l : Local) (e : Env) :
    M.run (recordpos rel) l e =
      (.ok ((), { l with positions := l.positions ++ [(tapeOf l e).idx - rel] }), e) := by
  simp only [recordpos, M.run_bind, run_curIdx, run_modify]

theorem run_createtoken (ty : TokType) (v : TVal) (fl : WordFlags) (l : Local) (e : Env) (a b : Nat)
    (hp : l.positions = [a, b]) :
    M.run (createtoken ty v fl) l e =
      if a < b then
        (.ok ({ ttype := some ty, value := v, pos := some (a, b), flags := fl },
          { l with positions := [] }), e)
      else (.error (.foreign "AssertionError" "token.__init__"), e) := by
  unfold createtoken
  simp only [M.run_bind, run_get, hp]
  have h1 : ¬ ([a, b].length < 2) := by simp
  rw [if_neg h1]
  simp only [M.run_bind, run_set]
  have e1 : [a, b].dropLast.getLast?.getD 0 = a := rfl
  have e2 : [a, b].getLast?.getD 0 = b := rfl
  have e3 : [a, b].dropLast.dropLast = ([] : List Nat) := rfl
  rw [e1, e2, e3]
  by_cases hab : a < b
  · simp only [hab, decide_true, Bool.not_true, Bool.false_eq_true, if_false, if_true, M.run_pure]
  · simp only [hab, decide_false, Bool.not_false, if_true, if_false, M.run_bind, run_foreign]

theorem recordpos_live (rel : Nat) :
    HT (Live g ps) (recordpos rel)
      (fun _ l e => ∃ a, a ≤ g.line.length - rel ∧ Live g (ps ++ [a]) l e) (TopE g) := by
  intro l e hl
  rw [run_recordpos]
  refine ⟨(tapeOf l e).idx - rel, ?_, hl.1, hl.2.1, hl.2.2.1, ?_⟩
  · have := hl.2.1; omega
  · show l.positions ++ _ = _; rw [hl.2.2.2]

theorem recordpos_good (rel : Nat) :
    HT (Good g ps) (recordpos rel) (fun _ l e => ∃ a, Good g (ps ++ [a]) l e) (TopE g) := by
  intro l e hl
  rw [run_recordpos]
  refine ⟨(tapeOf l e).idx - rel, hl.1, hl.2.1, hl.2.2.1, ?_⟩
  show l.positions ++ _ = _; rw [hl.2.2.2]

theorem createtoken_live (ty : TokType) (v : TVal) (fl : WordFlags) (a b : Nat) :
    HT (Live g [a, b]) (createtoken ty v fl)
      (fun t l e => t.pos = some (a, b) ∧ Live g [] l e) (TopE g) := by
  intro l e hl
  rw [run_createtoken ty v fl l e a b hl.2.2.2]
  by_cases hab : a < b
  · rw [if_pos hab]; exact ⟨rfl, hl.1, hl.2.1, hl.2.2.1, rfl⟩
  · rw [if_neg hab]; exact topE_foreign rfl

theorem createtoken_good (ty : TokType) (v : TVal) (fl : WordFlags) (a b : Nat) :
    HT (Good g [a, b]) (createtoken ty v fl)
      (fun t l e => t.pos = some (a, b) ∧ Good g [] l e) (TopE g) := by
  intro l e hl
  rw [run_createtoken ty v fl l e a b hl.2.2.2]
  by_cases hab : a < b
  · rw [if_pos hab]; exact ⟨rfl, hl.1, hl.2.1, hl.2.2.1, rfl⟩
  · rw [if_neg hab]; exact topE_foreign rfl

/-! ## `_readtokenword` -/

macro_rules | `(tactic| pre_leaf) => `(tactic| with_reducible exact createtoken_live _ _ _ _ _)
macro_rules | `(tactic| pre_leaf) => `(tactic|
  ((with_reducible refine HT.bind_switch (createtoken_live _ _ _ _ _) (fun _ _ => ?_));
   focus (live_walk_v; done)))

set_option maxHeartbeats 1000000 in
theorem finishWord_live (st : RWState) (a : Nat) :
    HT (Live g [a]) (finishWord st)
      (fun t l e => (∃ b, t.pos = some (a, b)) ∧ Live g [] l e) (TopE g) := by
  unfold finishWord
  simp only []
  refine HT.bind (recordpos_live 0) (fun _ => HT.pre_exists (fun b => HT.pre_pure (fun _ => ?_)))
  refine HT.post (Q := fun t l e => t.pos = some (a, b) ∧ Live g [] l e) ?_
    (fun t l e h => ⟨⟨b, h.1⟩, h.2⟩)
  show HT (Live g [a, b]) _ _ _
  pre_walk

end Bashlex.C11
