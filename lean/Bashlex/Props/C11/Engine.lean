/-
  C11, part 9: the LR engine carries a state invariant `I` of its hooks and a value invariant
  `VI` of its stack and look-ahead (here: "every token is `TokOK`").  No grammar reasoning: the
  engine only moves values around.
-/
import Bashlex.Props.C11.Hoare
import Bashlex.LR.Engine

namespace Bashlex.C11
open Bashlex Bashlex.M Bashlex.LR
set_option linter.unusedSimpArgs false
set_option linter.unusedVariables false

variable {V : Type}

structure HooksOK (I : Local → Env → Prop) (H : Hooks V) (VI : V → Prop) (E : Exn → Prop) : Prop where
  next : SatI I H.next (fun la => VI la.2) E
  act : ∀ p args, (∀ a, a ∈ args → VI a) → SatI I (H.act p args) (fun r => VI r.1) E
  /-- the error function never returns -/
  onError : ∀ la, VI la.2 → HT I (H.onError la) (fun _ _ _ => False) E
  /-- the engine's own raise sites -/
  foreign : ∀ ty, E (.foreign ty "LRParser.parse") ∧ E (.foreign ty "LRParser.parse(error recovery)")
  fuel : E (.outOfFuel "LRParser.parse")

def CfgOK (VI : V → Prop) (c : Cfg V) : Prop :=
  (∀ en, en ∈ c.stack → VI en.val) ∧ (∀ la, c.la = some la → VI la.2)

theorem popN_mem : ∀ (n : Nat) (st : Stack V) (es : List (Entry V)) (rest : Stack V),
    popN n st = some (es, rest) → (∀ x, x ∈ es → x ∈ st) ∧ (∀ x, x ∈ rest → x ∈ st) := by
  intro n
  induction n with
  | zero =>
    intro st es rest h
    simp only [popN] at h
    cases h
    exact ⟨(fun x hx => by cases hx), fun x hx => hx⟩
  | succ k ih =>
    intro st es rest h
    cases st with
    | nil => simp [popN] at h
    | cons e st =>
      simp only [popN] at h
      cases hp : popN k st with
      | none => rw [hp] at h; cases h
      | some v =>
        obtain ⟨es', r'⟩ := v
        rw [hp] at h
        simp only [Option.map] at h
        cases h
        obtain ⟨h1, h2⟩ := ih st es' rest hp
        refine ⟨fun x hx => ?_, fun x hx => List.mem_cons_of_mem _ (h2 x hx)⟩
        rcases List.mem_append.mp hx with hx | hx
        · exact List.mem_cons_of_mem _ (h1 x hx)
        · rw [List.mem_singleton.mp hx]; exact List.mem_cons_self

variable {I : Local → Env → Prop} {VI : V → Prop} {E : Exn → Prop}

theorem doReduce_ok (T : Tables) (H : Hooks V) (hH : HooksOK I H VI E) (c : Cfg V) (p : Nat)
    (hc : CfgOK VI c) :
    SatI I (doReduce T H c p) (Sum.elim (CfgOK VI) (fun _ => True)) E := by
  unfold doReduce
  split
  · exact SatI.foreign (hH.foreign _).1
  · split
    · exact SatI.foreign (hH.foreign _).1
    · rename_i lhs rhs _ es rest hpop
      obtain ⟨hes, hrest⟩ := popN_mem _ _ _ _ hpop
      have hargs : ∀ a, a ∈ es.map (·.val) → VI a := by
        intro a ha
        obtain ⟨en, hen, rfl⟩ := List.mem_map.mp ha
        exact hc.1 en (hes en hen)
      refine SatI.bind (hH.act p _ hargs) (fun r hr => ?_)
      obtain ⟨v, accept⟩ := r
      simp only []
      split
      · exact SatI.foreign (hH.foreign _).1
      · split
        · exact SatI.pure True.intro
        · refine SatI.pure ?_
          refine ⟨fun en hen => ?_, hc.2⟩
          rcases List.mem_cons.mp hen with h | h
          · rw [h]; exact hr
          · exact hc.1 en (hrest en h)

theorem step_ok (T : Tables) (H : Hooks V) (hH : HooksOK I H VI E) (c : Cfg V) (hc : CfgOK VI c) :
    SatI I (step T H c) (Sum.elim (CfgOK VI) (fun _ => True)) E := by
  unfold step
  simp only []
  split
  · exact doReduce_ok T H hH c _ hc
  · refine SatI.bind (φ := fun la => VI la.2) ?_ (fun la hla => ?_)
    · split
      · rename_i la hla
        exact SatI.pure (hc.2 la hla)
      · exact hH.next
    have hc' : CfgOK VI { c with la := some la } :=
      ⟨hc.1, fun la' h => by simp only [Option.some.injEq] at h; rw [← h]; exact hla⟩
    split
    · exact SatI.pure True.intro
    · split
      · exact HT.bind (hH.onError la hla) (fun _ => HT.pre_false)
      · split
        · exact SatI.pure ⟨hc.1, fun la' h => by cases h⟩
        · refine SatI.pure ⟨fun en hen => ?_, fun la' h => by cases h⟩
          rcases List.mem_cons.mp hen with h | h
          · rw [h]; exact hla
          · exact hc.1 en h
      · exact doReduce_ok T H hH _ _ hc'
      · split
        · exact SatI.pure True.intro
        · exact SatI.pure True.intro

/-- the engine preserves the invariant of its hooks and raises only their exceptions -/
theorem run_ok (T : Tables) (H : Hooks V) (hH : HooksOK I H VI E) (fuel : Nat) :
    SatI I (LR.run T H fuel) (fun _ => True) E := by
  unfold LR.run
  exact SatI.loop (J := CfgOK VI) hH.fuel (fun c hc => step_ok T H hH c hc) fuel {}
    ⟨(fun en h => by cases h), (fun la h => by cases h)⟩

end Bashlex.C11
