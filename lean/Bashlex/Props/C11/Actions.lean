/-
  C11, part 8: the semantic actions and `p_error` from a `Good` state: `Good` is preserved, every
  token handed on satisfies `TokOK`, and every exception is the parser's own (`TopE`) or one of
  the nested parser's (`N`).  No shape reasoning is needed here (that is C01's business): every
  foreign exception but the `AssertionError` of `ParsingError.__init__` is fine for `TopE`.
-/
import Bashlex.Props.C11.Expand
import Bashlex.Model.Actions

namespace Bashlex.C11
open Bashlex Bashlex.M Bashlex.C10
set_option linter.unusedSimpArgs false
set_option linter.unusedVariables false

/-- what is known of a token delivered by `token()` -/
def TokOK (g : Ghost) (t : Token) : Prop := TF g t ∧ TL g t

/-- the value invariant of the LR stack: tokens are `TokOK` -/
def VI (g : Ghost) (v : SVal) : Prop := ∀ t, v = .tok t → TokOK g t

def ArgsOK (g : Ghost) (args : List SVal) : Prop := ∀ a, a ∈ args → VI g a

variable {g : Ghost} {N : Exn → Prop} {np : NestedParse}

theorem vi_node {n : Node} : VI g (.node n) := fun _ h => by cases h
theorem vi_nodes {l : List Node} : VI g (.nodes l) := fun _ h => by cases h
theorem vi_none : VI g .none := fun _ h => by cases h

theorem vi_slice {args : List SVal} (h : ArgsOK g args) (np : NestedParse) (i : Nat) :
    VI g (PCtx.slice ⟨np, args⟩ i) := by
  unfold PCtx.slice
  simp only [List.getD_eq_getElem?_getD]
  cases hx : args[i - 1]? with
  | none => exact vi_none
  | some a => exact h a (List.mem_of_getElem? hx)

theorem g_expandword' (hnp : NPOK g N np) (tok : Token) (h : TokOK g tok) :
    GSat g N (expandword np tok) := g_expandword hnp tok h.2
macro_rules | `(tactic| live_atom) => `(tactic| exact g_expandword' (by assumption) _ (by assumption))

theorem g_gather : GSat g N gatherheredocuments :=
  SatI.weaken gather_good (fun _ h => h) (fun _ h => Or.inl h)
macro_rules | `(tactic| live_atom) => `(tactic| exact g_gather)

/-! ### access to the right-hand side -/

theorem g_tokAt {args : List SVal} (h : ArgsOK g args) (i : Nat) :
    SatI (Good g []) (PCtx.tokAt ⟨np, args⟩ i) (TokOK g) (EN g N) := by
  unfold PCtx.tokAt
  have := vi_slice h np i
  split
  · rename_i t ht
    exact SatI.pure (this t ht)
  · exact SatI.foreign (Or.inl (topE_foreign rfl))

theorem g_strAt {args : List SVal} (h : ArgsOK g args) (i : Nat) :
    GSat g N (PCtx.strAt ⟨np, args⟩ i) := by
  unfold PCtx.strAt
  exact SatI.bind (g_tokAt h i) (fun _ _ => SatI.pure True.intro)
macro_rules | `(tactic| live_atom) => `(tactic| exact g_strAt (by assumption) _)

theorem g_nodeAt (p : PCtx) (i : Nat) (s : String) : GSat g N (p.nodeAt i s) := by
  unfold PCtx.nodeAt; live_walk
theorem g_nodesAt (p : PCtx) (i : Nat) (s : String) : GSat g N (p.nodesAt i s) := by
  unfold PCtx.nodesAt; live_walk
macro_rules | `(tactic| live_atom) => `(tactic| exact g_nodeAt _ _ _)
macro_rules | `(tactic| live_atom) => `(tactic| exact g_nodesAt _ _ _)

theorem g_nodePos (n : Node) : GSat g N (nodePos n) := by
  unfold nodePos; live_walk
macro_rules | `(tactic| live_atom) => `(tactic| exact g_nodePos _)

theorem g_partsspan (parts : List Node) : GSat g N (partsspan parts) := by
  unfold partsspan; live_walk
macro_rules | `(tactic| live_atom) => `(tactic| exact g_partsspan _)

theorem g_reservedAt {args : List SVal} (h : ArgsOK g args) (i : Nat) :
    GSat g N (reservedAt ⟨np, args⟩ i) := by
  unfold reservedAt; live_walk
theorem g_operatorAt {args : List SVal} (h : ArgsOK g args) (i : Nat) :
    GSat g N (operatorAt ⟨np, args⟩ i) := by
  unfold operatorAt; live_walk
macro_rules | `(tactic| live_atom) => `(tactic| exact g_reservedAt (by assumption) _)
macro_rules | `(tactic| live_atom) => `(tactic| exact g_operatorAt (by assumption) _)

theorem g_handleAssert (b : Bool) : GSat g N (handleAssert b) := by
  unfold handleAssert; live_walk
macro_rules | `(tactic| live_atom) => `(tactic| exact g_handleAssert _)

theorem g_addRedirects (n : Node) (reds : List Node) : GSat g N (addRedirects n reds) := by
  unfold addRedirects; (try simp only []); live_walk
macro_rules | `(tactic| live_atom) => `(tactic| exact g_addRedirects _ _)

/-- `_makeparts` -/
theorem g_makeparts (hnp : NPOK g N np) {args : List SVal} (h : ArgsOK g args) :
    GSat g N (makeparts ⟨np, args⟩) := by
  unfold makeparts
  simp only [bind_pure]
  refine SatI.forIn_list (J := fun rest _ => ∀ a, a ∈ rest → VI g a) ?_ (fun _ _ => True.intro)
    args [] h
  intro a rest b hJ
  have ha : VI g a := hJ a List.mem_cons_self
  have hrest : ∀ a, a ∈ rest → VI g a := fun x hx => hJ x (List.mem_cons_of_mem _ hx)
  split
  · exact SatI.pure hrest
  · exact SatI.pure hrest
  · rename_i t
    have ht : TokOK g t := ha t rfl
    split
    · exact SatI.bindE (g_expandword' hnp t ht) (fun _ => SatI.pure hrest)
    · exact SatI.pure hrest
  · exact SatI.pure hrest
macro_rules | `(tactic| live_atom) => `(tactic| exact g_makeparts (by assumption) (by assumption))

/-! ### actions returning a semantic value: the value is never a token -/

/-- discharge `VI g v` -/
macro "vi_solve" : tactic => `(tactic| first
  | exact vi_node
  | exact vi_nodes
  | exact vi_none
  | exact vi_slice (by assumption) _ _
  | assumption)

theorem g_handleNotImplemented (hnp : NPOK g N np) {args : List SVal} (h : ArgsOK g args)
    (ty : String) :
    SatI (Good g []) (handleNotImplemented ⟨np, args⟩ ty) (VI g) (EN g N) := by
  unfold handleNotImplemented
  refine SatI.bindE sati_optProceed (fun b => ?_)
  split
  · refine SatI.bindE (g_makeparts hnp h) (fun parts => ?_)
    exact SatI.bindE (g_partsspan _) (fun _ => SatI.pure vi_node)
  · exact SatI.raise (Or.inl topE_ni)

theorem g_mkCompound1 (inner : Span → List Node → Node) (parts : List Node) :
    SatI (Good g []) (mkCompound1 inner parts) (VI g) (EN g N) := by
  unfold mkCompound1
  exact SatI.bindE (g_partsspan _) (fun _ => SatI.pure vi_node)

theorem g_joinLists {args : List SVal} (h : ArgsOK g args) (mk : Span → Str → Node) (s : String) :
    SatI (Good g []) (joinLists ⟨np, args⟩ mk s) (VI g) (EN g N) := by
  unfold joinLists
  (try simp only [])
  split
  · exact SatI.bindE (g_nodeAt _ _ _) (fun _ => SatI.pure vi_nodes)
  · refine SatI.bindE (g_nodesAt _ _ _) (fun _ => SatI.bindE (g_nodesAt _ _ _) (fun _ => ?_))
    exact SatI.bindE (g_strAt h _) (fun _ => SatI.pure vi_nodes)

/-- a `for` loop over a list with nothing to remember -/
theorem sati_forIn {γ β : Type} {I : Local → Env → Prop} {E : Exn → Prop}
    {f : γ → β → M (ForInStep β)} (h : ∀ a b, SatI I (f a b) (fun _ => True) E) (l : List γ) (b : β) :
    SatI I (forIn l b f) (fun _ => True) E :=
  SatI.forIn_list (J := fun _ _ => True)
    (fun a _ b _ => (h a b).weaken (fun r _ => by cases r <;> exact True.intro) (fun _ h => h))
    (fun _ _ => True.intro) l b True.intro

set_option hygiene false in
/-- one step of the walk through an action: as `live_step`; computations of type `M SVal` and
    `M (SVal × Bool)` carry `VI` -/
macro "act_step" : tactic => `(tactic| first
  | ((with_reducible refine SatI.bind (g_tokAt (by assumption) _) (fun _ _ => ?_)))
  | ((with_reducible refine SatI.bind (φ := VI g) ?_ (fun _ _ => ?_)))
  | with_reducible exact g_handleNotImplemented (by assumption) (by assumption) _
  | with_reducible exact g_mkCompound1 _ _
  | with_reducible exact g_joinLists (by assumption) _ _
  | live_step
  | with_reducible refine sati_forIn (fun _ _ => ?_) _ _
  | exact SatI.pure (by vi_solve))

macro "act_walk" : tactic => `(tactic| repeat' act_step)

/-! ### the actions -/

set_option maxHeartbeats 4000000 in
/-- **every semantic action** preserves `Good`, returns a value satisfying `VI`, and raises only
    the parser's own exceptions or those of the nested parser -/
theorem g_actionCore (hnp : NPOK g N np) (fname : String) (args : List SVal) (hargs : ArgsOK g args) :
    SatI (Good g []) (actionCore np fname args) (fun r => VI g r.1) (EN g N) := by
  unfold actionCore
  simp only []
  split
  all_goals act_walk

theorem g_action (hnp : NPOK g N np) (fname : String) (args : List SVal) (hargs : ArgsOK g args) :
    SatI (Good g []) (action np fname args) (fun r => VI g r.1) (EN g N) := by
  unfold action
  refine SatI.bind (g_actionCore hnp fname args hargs) (fun r hr => ?_)
  split
  · exact SatI.foreign (Or.inl (topE_foreign rfl))
  · exact SatI.pure hr

/-! ### `p_error` -/

/-- **`p_error` never trips the assertion of `ParsingError.__init__`**: "unexpected EOF" is
    raised at the end of the source, "unexpected token" at the start of the token, which is inside
    the source (`TF`) -/
theorem pError_ht {ps : List Nat} (t : Token) (ht : TF g t) :
    HT (Good g ps) (pError t) (fun _ _ _ => False) (EN g N) := by
  intro l e hl
  obtain ⟨⟨hf, hline, hadd⟩, _⟩ := hl
  have hsrc : (tapeOf l e).source = g.source := by
    unfold Tape.source Ghost.source; rw [hline, hadd]
  unfold pError
  simp only [M.run_bind, run_tapeSource, hsrc]
  by_cases heof : t.is .EOF = true
  · rw [if_pos heof, M.run_raise]
    unfold mkParsingError
    rw [if_pos (Int.le_refl _)]
    exact Or.inl TopParsing.eof
  · rw [if_neg heof, M.run_raise]
    have hle : t.lexpos ≤ g.source.length := Nat.le_trans ht (source_length g)
    unfold mkParsingError
    rw [if_pos (Int.ofNat_le.mpr hle)]
    exact Or.inl (TopParsing.token t ht hle)

end Bashlex.C11
