/-
  C11, part 6: `gatherheredocuments`, `_readtoken`, `token()` from a `Good` state: they preserve
  `Good`, raise only `TopE`, and every delivered token starts inside the line (`TF`).
-/
import Bashlex.Props.C11.Tokens

namespace Bashlex.C11
open Bashlex Bashlex.M Bashlex.C10
set_option linter.unusedSimpArgs false
set_option linter.unusedVariables false

variable {g : Ghost} {ps : List Nat}

/-! ## `gatherheredocuments` -/

theorem peekc_good (rqn : Bool) :
    HT (Good g ps) (peekc rqn)
      (fun p l e => Good g ps l e ∧ (p.isSome = true → Live g ps l e ∧ g.line ≠ []) ∧
        (p = none → l.eolLookahead = none)) (TopE g) := by
  unfold peekc
  simp only []
  refine HT.bind (getc_good rqn) (fun c => ?_)
  cases c with
  | none =>
    refine HT.ite (fun h => by cases h) (fun _ => ?_)
    exact HT.pure (fun l e h => ⟨h.1, (fun h' => by cases h'), fun _ => (h.2.2 rfl).1⟩)
  | some c =>
    refine HT.pre (P := fun l e => g.line ≠ [] ∧ Live g ps l e) (HT.pre_pure (fun hne => ?_))
      (fun l e h => ⟨(h.2.1 rfl).2, (h.2.1 rfl).1⟩)
    refine HT.ite (fun _ => ?_) (fun h => absurd rfl h)
    refine HT.bind_lE (ungetc_live (some c) (fun _ => hne)) (fun _ => ?_)
    exact HT.pure (fun l e h => ⟨h.good, fun _ => ⟨h, hne⟩, fun h' => by cases h'⟩)

theorem bumpIdx_good :
    HT (fun l e => Good g ps l e ∧ l.eolLookahead = none ∧ strictOf l e = false) bumpIdx
      (fun _ l e => Good g ps l e) (TopE g) := by
  intro l e ⟨hg, hla, hs⟩
  rw [run_bumpIdx]
  refine ⟨hg.1.put rfl rfl, ?_, Or.inr ⟨?_, ?_⟩, ?_⟩
  · rw [putL_eol]; exact hg.2.1
  · rw [putL_eol]; exact hla
  · rw [strictOf_put]; exact hs
  · rw [putL_positions]; exact hg.2.2.2

/-- **`gatherheredocuments` preserves `Good`**: it is the only place where the cursor may leave
    the line (`bumpIdx`: non-strict mode, end of input, pending here-document), and then nothing
    can be read any more -/
theorem gather_good : SatI (Good g ps) gatherheredocuments (fun _ => True) (TopE g) := by
  unfold gatherheredocuments
  simp only []
  refine SatI.bindE (SatI.get (fun _ => True.intro)) (fun l0 => ?_)
  refine SatI.loopT topE_fuel (fun _ => ?_) _ _
  refine SatI.bindE (SatI.get (fun _ => True.intro)) (fun l => ?_)
  split
  · exact SatI.pure True.intro
  · rename_i id kill rest _
    -- the common continuation, from a live state
    have hjp : ∀ {P : Local → Env → Prop}, (∀ l e, P l e → Live g ps l e) →
        HT P (do
          modify fun l => { l with redirstack := rest }
          makeheredoc id kill
          pure (Sum.inl ()) : M (Unit ⊕ Unit))
          (fun a l e => True ∧ Good g ps l e) (TopE g) := by
      intro P hP
      have : SatI (Live g ps) (do
          modify fun l => { l with redirstack := rest }
          makeheredoc id kill
          pure (Sum.inl ()) : M (Unit ⊕ Unit)) (fun _ => True) (TopE g) := by live_walk
      exact HT.weaken this hP (fun _ _ _ h => ⟨h.1, h.2.good⟩) (fun _ h => h)
    refine HT.bind (peekc_good true) (fun p => ?_)
    cases p with
    | none =>
      refine HT.ite (fun _ => ?_) (fun h => absurd rfl h)
      refine HT.bind (HT.reader run_optStrict) (fun s => ?_)
      cases s with
      | false =>
        refine HT.ite (fun _ => ?_) (fun h => absurd rfl h)
        refine HT.bind (Q := fun _ l e => Good g ps l e) ?_ (fun _ => HT.pure (fun l e h => ⟨True.intro, h⟩))
        exact HT.pre bumpIdx_good (fun l e h => ⟨h.2.1, h.2.2.2 rfl, h.1.symm⟩)
      | true =>
        refine HT.ite (fun h => by cases h) (fun _ => ?_)
        refine hjp (fun l e h => ?_)
        obtain ⟨hs, hg, _, _⟩ := h
        refine ⟨hg.1, ?_, hg.2.1, hg.2.2.2⟩
        rcases hg.2.2.1 with h | h
        · exact h
        · rw [h.2] at hs; cases hs
    | some c =>
      refine HT.ite (fun h => by cases h) (fun _ => ?_)
      exact hjp (fun l e h => (h.2.1 rfl).1)

/-- from a live state -/
theorem gather_live_good : HT (Live g ps) gatherheredocuments (fun _ l e => Good g ps l e) (TopE g) :=
  HT.weaken gather_good (fun _ _ h => h.good) (fun _ _ _ h => h.2) (fun _ h => h)

/-! ## `_readtoken` -/

theorem tf_of_pos {t : Token} {a : Nat} (ha : a ≤ g.line.length - 1) (h : ∃ b, t.pos = some (a, b)) :
    TF g t := by
  obtain ⟨b, hb⟩ := h
  unfold TF Token.lexpos
  rw [hb]; exact ha

theorem tf_eof : TF g { ttype := some .EOF, value := .none } := Nat.zero_le _

/-- what `_readtoken` returns: a bare token type with the start position on the stack, or a
    token that starts inside the line -/
def ReadPost (g : Ghost) (r : TokType ⊕ Token) (l : Local) (e : Env) : Prop :=
  match r with
  | .inl _ => ∃ a, a ≤ g.line.length - 1 ∧ Good g [a] l e
  | .inr t => TF g t ∧ Good g [] l e

theorem sati_tokentypeOfChar {I : Local → Env → Prop} (c : Char) :
    SatI I (tokentypeOfChar c) (fun _ => True) (TopE g) := by
  unfold tokentypeOfChar
  split
  · exact SatI.pure True.intro
  · exact SatI.foreign (topE_foreign rfl)

/-- the newline branch: `gatherheredocuments`, then the bare NEWLINE type -/
theorem nl_tail {a : Nat} (ha : a ≤ g.line.length - 1) {f : Local → Local} {c : Char}
    (hf : ∀ l e, Good g [a] l e → Good g [a] (f l) e) :
    HT (Live g [a]) (do
      gatherheredocuments
      modify f
      let t ← tokentypeOfChar c
      pure (Sum.inl t) : M (TokType ⊕ Token)) (ReadPost g) (TopE g) := by
  refine HT.bind gather_live_good (fun _ => ?_)
  refine HT.bind_lE (SatI.modifyT hf) (fun _ => ?_)
  refine HT.bind_lE (sati_tokentypeOfChar c) (fun t => ?_)
  exact HT.pure (fun l e h => ⟨a, ha, h⟩)

theorem tt_tail {a : Nat} (ha : a ≤ g.line.length - 1) {c : Char} :
    HT (Live g [a]) (do
      let t ← tokentypeOfChar c
      pure (Sum.inl t) : M (TokType ⊕ Token)) (ReadPost g) (TopE g) := by
  refine HT.bind_lE (sati_tokentypeOfChar c) (fun t => ?_)
  exact HT.pure (fun l e h => ⟨a, ha, h.good⟩)

theorem inl_tail {a : Nat} (ha : a ≤ g.line.length - 1) {t : TokType} :
    HT (Live g [a]) (pure (Sum.inl t) : M (TokType ⊕ Token)) (ReadPost g) (TopE g) :=
  HT.pure (fun l e h => ⟨a, ha, h.good⟩)

theorem readtokenword_live (hne : g.line ≠ []) (c : Char) (a : Nat) :
    HT (Live g [a]) (readtokenword c)
      (fun t l e => (∃ b, t.pos = some (a, b)) ∧ Live g [] l e) (TopE g) := by
  unfold readtokenword
  refine HT.bind_lE live_loopFuel (fun fuel => ?_)
  refine HT.bind_lE ?_ (fun st => finishWord_live st a)
  live_walk

theorem rtw_tail (hne : g.line ≠ []) {a : Nat} (ha : a ≤ g.line.length - 1) {c : Char} :
    HT (Live g [a]) (do
      let t ← readtokenword c
      pure (Sum.inr t) : M (TokType ⊕ Token)) (ReadPost g) (TopE g) := by
  refine HT.bind (readtokenword_live hne c a) (fun t => ?_)
  exact HT.pure (fun l e h => ⟨tf_of_pos ha h.1, h.2.good⟩)

macro_rules | `(tactic| pre_leaf) => `(tactic|
  ((with_reducible refine nl_tail (by assumption) ?_); (intro _ _ h; exact h)))
macro_rules | `(tactic| pre_leaf) => `(tactic| with_reducible exact tt_tail (by assumption))
macro_rules | `(tactic| pre_leaf) => `(tactic| with_reducible exact inl_tail (by assumption))
macro_rules | `(tactic| pre_leaf) => `(tactic|
  with_reducible exact rtw_tail (by assumption) (by assumption))
theorem recordpos_bind {β : Type} {k : Unit → M β} {Q : β → Local → Env → Prop}
    (h : ∀ a, a ≤ g.line.length - 1 → HT (Live g [a]) (k ()) Q (TopE g)) :
    HT (Live g []) (recordpos 1 >>= k) Q (TopE g) :=
  HT.bind (recordpos_live 1) (fun _ => HT.pre_exists (fun a => HT.pre_pure (fun ha => h a ha)))

macro_rules | `(tactic| pre_leaf) => `(tactic| with_reducible refine recordpos_bind (fun _ _ => ?_))

set_option maxHeartbeats 1000000 in
theorem readtoken_good : HT (Good g []) readtoken (ReadPost g) (TopE g) := by
  unfold readtoken
  simp only []
  refine HT.bind_lE (SatI.pure True.intro) (fun fuel => ?_)
  refine HT.bind (getc_good true) (fun c0 => ?_)
  -- skipping blanks
  refine HT.bind (Q := fun c l e => Good g [] l e ∧ (c.isSome = true → Live g [] l e ∧ g.line ≠ [])) ?_
    (fun c1 => ?_)
  · refine HT.pre (HT.loop (I := fun c l e => Good g [] l e ∧
        (c.isSome = true → Live g [] l e ∧ g.line ≠ [])) topE_fuel (fun c => ?_) fuel c0)
      (fun l e h => ⟨h.1, h.2.1⟩)
    cases c with
    | none => exact HT.pure (fun l e h => h)
    | some ch =>
      refine HT.ite (fun _ => ?_) (fun _ => HT.pure (fun l e h => h))
      refine HT.bind (HT.pre (getc_good true) (fun l e h => h.1)) (fun c' => ?_)
      exact HT.pure (fun l e h => ⟨h.1, h.2.1⟩)
  cases c1 with
  | none => exact HT.pure (fun l e h => ⟨tf_eof, h.1⟩)
  | some ch =>
    refine HT.pre (P := fun l e => g.line ≠ [] ∧ Live g [] l e) (HT.pre_pure (fun hne => ?_))
      (fun l e h => ⟨(h.2 rfl).2, (h.2 rfl).1⟩)
    simp only [pure_bind]
    pre_walk

/-! ## `token()` -/

/-- **every token `token()` delivers starts inside the line**, and `token()` preserves `Good` -/
theorem nextToken_good :
    HT (Good g []) nextToken (fun t l e => TF g t ∧ Good g [] l e) (TopE g) := by
  unfold nextToken
  simp only []
  refine HT.bind_lE (SatI.modifyT (fun _ _ h => h)) (fun _ => ?_)
  refine HT.bind readtoken_good (fun r => ?_)
  cases r with
  | inl ty =>
    refine HT.pre_exists (fun a => HT.pre_pure (fun ha => ?_))
    refine HT.bind (recordpos_good 0) (fun _ => HT.pre_exists (fun b => ?_))
    refine HT.bind (createtoken_good ty ty.enumValue [] a b) (fun cur => HT.pre_pure (fun hcur => ?_))
    refine HT.bind_lE (SatI.modifyT (fun _ _ h => h)) (fun _ => ?_)
    refine HT.bind_lE (SatI.modifyT (fun _ _ h => h)) (fun _ => ?_)
    exact HT.pure (fun l e h => ⟨tf_of_pos ha ⟨b, hcur⟩, h⟩)
  | inr t =>
    refine HT.pre_pure (fun ht => ?_)
    simp only [pure_bind]
    refine HT.bind_lE (SatI.modifyT (fun _ _ h => h)) (fun _ => ?_)
    refine HT.bind_lE (SatI.modifyT (fun _ _ h => h)) (fun _ => ?_)
    exact HT.pure (fun l e h => ⟨ht, h⟩)

end Bashlex.C11
