/-
  C11, part 10: one parser run at every nesting depth, `runParser`, `parse`, `parsesingle`.

  `parserRun (d+1) = parserRunWith (nestedOf (parserRun d))`.  For ANY nested-parse function `np`
  whose exceptions satisfy `N`, a run of `parserRunWith np` from a `Good` state raises only its
  own exceptions (`TopE g`: every `ParsingError` classified site by site, with the run's own
  source and a position inside it) or those of `np` (`N`).
-/
import Bashlex.Props.C11.Actions
import Bashlex.Props.C11.Engine
import Bashlex.Model.Parse

namespace Bashlex.C11
open Bashlex Bashlex.M Bashlex.C10 Bashlex.LR
set_option linter.unusedSimpArgs false
set_option linter.unusedVariables false

/-! ## the recursion of `parserRun`, made explicit -/

/-- the local state of a fresh nested `_parser` -/
def nestedLocal (outer : Local) (string : Str) (dolparen : Bool) : Local :=
  { tape := some (Tape.ofInput string), opts := some (true, false)
    lastReadToken := outer.lastReadToken, tokenBeforeThat := outer.tokenBeforeThat
    twoTokensAgo := outer.twoTokensAgo
    ps := if dolparen then { outer.ps with cmdsubst := true, eoftoken := true } else outer.ps
    eofToken := if dolparen then some rparenEofToken else none
    limit := outer.limit.map (· - 1) }

/-- the nested-parse function of `parserRun`, over the run `inner` of the nested parser -/
def nestedOf (inner : M (Option Node)) : NestedParse := fun string dolparen => do
  let outer ← get
  set (nestedLocal outer string dolparen)
  let r ← inner
  let inner ← get
  set { outer with ps := inner.ps }
  pure r

/-- `_parser.parse()` over the nested-parse function `np` -/
def parserRunWith (np : NestedParse) : M (Option Node) := do
  let res ← LR.run LR.realTables (lrHooks np) 1073741824
  let store := (← get).store
  match res with
  | .accepted (.node n) _ _ _ => pure (some (resolve store n))
  | _ => pure none

theorem parserRun_succ (d : Nat) : parserRun (d + 1) = parserRunWith (nestedOf (parserRun d)) := rfl

theorem run_nestedOf (inner : M (Option Node)) (s : Str) (b : Bool) (l : Local) (e : Env) :
    M.run (nestedOf inner s b) l e =
      match M.run inner (nestedLocal l s b) e with
      | (.ok (r, l'), e') => (.ok (r, { l with ps := l'.ps }), e')
      | (.error x, e') => (.error x, e') := by
  unfold nestedOf
  simp only [M.run_bind, run_get, run_set]
  rcases M.run inner (nestedLocal l s b) e with ⟨r, e'⟩
  cases r with
  | error x => rfl
  | ok v => obtain ⟨r, l'⟩ := v; rfl

/-! ## ghosts -/

/-- the ghost constants come from `tokenizer.__init__` -/
def WFG (g : Ghost) : Prop :=
  ∃ s, g.line = (Tape.ofInput s).line ∧ g.added = (Tape.ofInput s).added

/-- the ghost of a nested parser over `string`, started in environment `e` -/
def nestedGhost (string : Str) (e : Env) : Ghost :=
  { env := some e.tape, line := (Tape.ofInput string).line, added := (Tape.ofInput string).added
    strict := e.strict }

theorem ofInput_idx (s : Str) : (Tape.ofInput s).idx = 0 := by
  unfold Tape.ofInput; split
  · rfl
  · split <;> rfl

theorem good_nested (outer : Local) (s : Str) (b : Bool) (e : Env) :
    Good (nestedGhost s e) [] (nestedLocal outer s b) e := by
  refine ⟨⟨⟨⟨rfl, rfl⟩, rfl⟩, rfl, rfl⟩, (fun h => by cases h), Or.inl ?_, rfl⟩
  show (Tape.ofInput s).idx ≤ _
  rw [ofInput_idx]; exact Nat.zero_le _

/-! ## the hooks -/

/-- **hypothesis of the conditional theorems** (the one fact about tokens that is not proved
    here): the value of a delivered token is not longer than the rest of the line from the token's
    start -/
def TokLen : Prop :=
  ∀ g, WFG g → HT (Good g []) nextToken (fun t _ _ => TL g t) (fun _ => True)

theorem ht_and {α : Type} {P : Local → Env → Prop} {m : M α} {Q Q' : α → Local → Env → Prop}
    {E : Exn → Prop} (h1 : HT P m Q E) (h2 : HT P m Q' (fun _ => True)) :
    HT P m (fun a l e => Q a l e ∧ Q' a l e) E := by
  intro l e hp
  have a1 := h1 l e hp
  have a2 := h2 l e hp
  rcases hr : m.run l e with ⟨r, e'⟩
  rw [hr] at a1 a2
  cases r with
  | ok v => exact ⟨a1, a2⟩
  | error x => exact a1

variable {g : Ghost} {N : Exn → Prop} {np : NestedParse}

theorem hooks_ok (hTL : TokLen) (hg : WFG g) (hnp : NPOK g N np) :
    HooksOK (Good g []) (lrHooks np) (VI g) (EN g N) := by
  refine ⟨?_, ?_, ?_, ?_, ?_⟩
  · show SatI (Good g []) (nextToken >>= fun t => pure (symOfTok t, SVal.tok t)) _ _
    have h := (ht_and (nextToken_good (g := g)) (hTL g hg)).exn (E' := EN g N) (fun _ h => Or.inl h)
    refine HT.bind h (fun t => HT.pure (fun l e hp => ⟨?_, hp.1.2⟩))
    intro t' ht'
    cases ht'
    exact ⟨hp.1.1, hp.2⟩
  · intro p args hargs
    exact g_action hnp _ args hargs
  · rintro ⟨sym, v⟩ hv
    show HT _ (match v with | .tok t => pError t | _ => M.foreign "AssertionError" "p_error") _ _
    split
    · rename_i t
      exact pError_ht t (hv t rfl).1
    · exact HT.foreign (Or.inl (topE_foreign rfl))
  · intro ty
    exact ⟨Or.inl (topE_foreign (by simp)), Or.inl (topE_foreign (by simp))⟩
  · exact Or.inl topE_fuel

/-- **one parser run over an arbitrary nested-parse function** -/
theorem parserRunWith_good (hTL : TokLen) (hg : WFG g) (hnp : NPOK g N np) :
    GSat g N (parserRunWith np) := by
  unfold parserRunWith
  refine SatI.bindE (run_ok _ _ (hooks_ok hTL hg hnp) _) (fun res => ?_)
  refine SatI.bindE (SatI.get (fun _ => True.intro)) (fun l => ?_)
  split <;> exact SatI.pure True.intro

/-- the nested-parse function built from a run `inner` that is fine from every `Good` state of
    every well-formed ghost -/
theorem nestedOf_ok {inner : M (Option Node)} {Ninner : Ghost → Exn → Prop}
    (hin : ∀ g', WFG g' → SatI (Good g' []) inner (fun _ => True) (Ninner g')) (g : Ghost) :
    NPOK g (fun x => ∃ g', WFG g' ∧ Ninner g' x) (nestedOf inner) := by
  intro s b l e hgood
  rw [run_nestedOf]
  have hwf : WFG (nestedGhost s e) := ⟨s, rfl, rfl⟩
  have h := hin (nestedGhost s e) hwf (nestedLocal l s b) e (good_nested l s b e)
  rcases hr : M.run inner (nestedLocal l s b) e with ⟨r, e'⟩
  rw [hr] at h
  cases r with
  | error x => exact Or.inr ⟨_, hwf, h⟩
  | ok v =>
    obtain ⟨r, l'⟩ := v
    obtain ⟨_, hg'⟩ := h
    -- the nested run did not touch the environment's tape or options
    obtain ⟨⟨⟨hfr, hstrict⟩, _, _⟩, _⟩ := hg'
    have htape : e'.tape = e.tape := hfr.2
    have hst : e'.strict = e.strict := hstrict
    exact ⟨True.intro, Good.env (l := { l with ps := l'.ps }) hgood htape hst⟩

/-! ## every nesting depth -/

/-- the exceptions of a parser run at nesting fuel `d` with ghost `g`: its own, or those of a
    nested run (over some other input) -/
def ExnAt : Nat → Ghost → Exn → Prop
  | 0, _, x => x = .outOfFuel "nesting"
  | d + 1, g, x => TopE g x ∨ ∃ g', WFG g' ∧ ExnAt d g' x

theorem parserRun_good (hTL : TokLen) :
    ∀ d g, WFG g → SatI (Good g []) (parserRun d) (fun _ => True) (ExnAt d g) := by
  intro d
  induction d with
  | zero => intro g _; exact SatI.raise rfl
  | succ d ih =>
    intro g hg
    rw [parserRun_succ]
    exact parserRunWith_good hTL hg (nestedOf_ok ih g)

/-- the `AssertionError` of `ParsingError.__init__` is none of them, and every `ParsingError`
    carries a position inside its source -/
theorem exnAt_shape : ∀ d g x, ExnAt d g x →
    x ≠ initAssert ∧ ∀ m src p, x = .parsing m src p → 0 ≤ p ∧ p ≤ (src.length : Int) := by
  intro d
  induction d with
  | zero =>
    intro g x h
    cases h
    exact ⟨(fun h => by cases h), fun m src p h => by cases h⟩
  | succ d ih =>
    intro g x h
    rcases h with h | ⟨g', _, h⟩
    · cases x with
      | parsing m src p =>
        refine ⟨(fun h => by cases h), fun m' src' p' h' => ?_⟩
        cases h'
        exact TopParsing.le h
      | notImplemented w => exact ⟨(fun h => by cases h), fun m src p h => by cases h⟩
      | foreign ty site => exact ⟨h, fun m src p h => by cases h⟩
      | outOfFuel s => exact ⟨(fun h => by cases h), fun m src p h => by cases h⟩
    · exact ih g' x h

/-! ## the entry points -/

/-- the ghost of a top-level run over `s` -/
def topGhost (s : Str) (o : Opts) : Ghost :=
  { env := none, line := (Tape.ofInput s).line, added := (Tape.ofInput s).added, strict := o.strict }

theorem topGhost_wf (s : Str) (o : Opts) : WFG (topGhost s o) := ⟨s, rfl, rfl⟩

theorem good_top (s : Str) (o : Opts) (t : List Char) :
    Good (topGhost s o) [] { limit := o.limit }
      { tape := Tape.ofInput s, strict := o.strict, proceed := o.proceed, touched := t } := by
  refine ⟨⟨⟨rfl, rfl⟩, rfl, rfl⟩, (fun h => by cases h), Or.inl ?_, rfl⟩
  show (Tape.ofInput s).idx ≤ _
  rw [ofInput_idx]; exact Nat.zero_le _

theorem runParser_exn (hTL : TokLen) {s : Str} {o : Opts} {t : List Char} {x : Exn}
    (h : (runParser s o t).1 = .error x) : ExnAt maxDepth (topGhost s o) x := by
  unfold runParser at h
  simp only [] at h
  rcases hrun : (parserRun maxDepth).run { limit := o.limit }
      { tape := Tape.ofInput s, strict := o.strict, proceed := o.proceed, touched := t } with ⟨r, env'⟩
  rw [hrun] at h
  simp only [] at h
  cases r with
  | ok v => simp only [Except.map] at h; cases h
  | error y =>
    simp only [Except.map] at h
    cases h
    exact HT.err (parserRun_good hTL maxDepth _ (topGhost_wf s o)) (good_top s o t) hrun

/-- where the loop of `parse` takes its errors from: a run over a suffix `s[index:]`, `index > 0` -/
theorem parseLoop_exn (s : Str) (o : Opts) :
    ∀ (fuel index : Nat) (parts : List Node) (touched : List Char) (x : Exn), 0 < index →
      (parseLoop s o fuel index parts touched).1 = .error x →
      x = .outOfFuel "parse" ∨
      ∃ i t, 0 < i ∧ i < s.length ∧ (runParser (s.drop i) o t).1 = .error x := by
  intro fuel
  induction fuel with
  | zero => intro index parts touched x _ h; simp only [parseLoop] at h; cases h; exact Or.inl rfl
  | succ fuel ih =>
    intro index parts touched x hpos h
    unfold parseLoop at h
    split at h
    · rename_i hidx
      rcases hr : runParser (s.drop index) o touched with ⟨r, t⟩
      rw [hr] at h
      cases r with
      | error e =>
        simp only [] at h
        cases h
        exact Or.inr ⟨index, touched, hpos, hidx, by rw [hr]⟩
      | ok v =>
        cases v with
        | none => simp only [] at h; cases h
        | some part =>
          simp only [] at h
          refine ih _ _ _ x ?_ h
          have : index + 1 ≤ max (nextIndex (part.shift index)) (index + 1) := Nat.le_max_right _ _
          omega
    · cases h

/-- an exception of `parse` is the exception of its first parser run (over `s`), or of a later
    run over a proper suffix of `s` -/
theorem parse_exn (s : Str) (o : Opts) {x : Exn} (h : (parse s o).1 = .exn x) :
    (runParser s o []).1 = .error x ∨ x = .outOfFuel "parse" ∨
    ∃ i t, 0 < i ∧ i < s.length ∧ (runParser (s.drop i) o t).1 = .error x := by
  unfold parse at h
  rcases hr : runParser s o [] with ⟨r, t⟩
  rw [hr] at h
  cases r with
  | error e => simp only [] at h; cases h; exact Or.inl rfl
  | ok v =>
    cases v with
    | none => simp only [] at h; cases h
    | some first =>
      simp only [] at h
      rcases hl : parseLoop s o (s.length + 1) (max (nextIndex first) 1) [first] t with ⟨r2, t2⟩
      rw [hl] at h
      cases r2 with
      | ok ps => simp only [] at h; cases h
      | error e =>
        simp only [] at h
        cases h
        have := parseLoop_exn s o (s.length + 1) (max (nextIndex first) 1) [first] t x
          (by have : 1 ≤ max (nextIndex first) 1 := Nat.le_max_right _ _; omega) (by rw [hl])
        exact Or.inr this

theorem parsesingle_exn (s : Str) (o : Opts) {x : Exn} (h : (parsesingle s o).1 = .exn x) :
    (runParser s o []).1 = .error x := by
  unfold parsesingle at h
  rcases hr : runParser s o [] with ⟨r, t⟩
  rw [hr] at h
  cases r with
  | error e => simp only [] at h; cases h; rfl
  | ok v => simp only [] at h; cases h

end Bashlex.C11
