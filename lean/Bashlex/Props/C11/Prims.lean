/-
  C11, part 3: triples for the tape primitives (`getc`, `ungetc`, `curIdx`, `bumpIdx`, …) and the
  two raise sites of the tokenizer.
-/
import Bashlex.Props.C11.Inv

namespace Bashlex.C11
open Bashlex Bashlex.M Bashlex.C10
set_option linter.unusedVariables false
set_option linter.unusedSimpArgs false

variable {g : Ghost} {ps : List Nat}

/-! ## `_getc` -/

theorem run_getc_some (rqn : Bool) (l : Local) (e : Env) (c : Char) (h : l.eolLookahead = some c) :
    M.run (getc rqn) l e = (.ok (some c, { l with eolLookahead := none }), e) := by
  unfold getc
  simp only [M.run_bind, run_get, h, run_set, M.run_pure]

/-- everything about one `_getc` -/
theorem getc_facts (rqn : Bool) (l : Local) (e : Env) (hg : Good g ps l e) :
    match M.run (getc rqn) l e with
    | (.ok (c, l'), e') =>
      Good g ps l' e' ∧ (c.isSome = true → Live g ps l' e' ∧ g.line ≠ []) ∧
      (c = none → l'.eolLookahead = none ∧ g.line.length ≤ (tapeOf l' e').idx) ∧
      (Live g ps l e → Live g ps l' e')
    | (.error x, _) => TopE g x := by
  obtain ⟨hb, hla, hidx, hps⟩ := hg
  cases hl : l.eolLookahead with
  | some c =>
    rw [run_getc_some rqn l e c hl]
    have hne : g.line ≠ [] := hla (by rw [hl]; rfl)
    have hi : (tapeOf l e).idx ≤ g.line.length := by
      rcases hidx with h | h
      · exact h
      · rw [hl] at h; cases h.1
    have hlive : Live g ps { l with eolLookahead := none } e := ⟨hb, hi, (fun h => by cases h), hps⟩
    exact ⟨⟨hb, (fun h => by cases h), Or.inl hi, hps⟩, fun _ => ⟨hlive, hne⟩,
      (fun h => by cases h), fun _ => hlive⟩
  | none =>
    rw [run_getc rqn l e hl]
    cases hgc : (tapeOf l e).getc rqn ((tapeOf l e).line.length + 1) with
    | error u => cases u; exact topE_foreign rfl
    | ok v =>
      obtain ⟨c, t'⟩ := v
      obtain ⟨a1, a2, a3, a4, a5, a6⟩ := getc_spec rqn _ _ _ _ hgc
      have hline := hb.2.1
      rw [hline] at a3 a4 a5 a6
      have hb' : Base g (putL l t') (putE l e t') := hb.put a1 a2
      have hla' : (putL l t').eolLookahead.isSome = true → g.line ≠ [] := by
        rw [putL_eol, hl]; intro h; cases h
      simp only []
      refine ⟨⟨hb', hla', ?_, ?_⟩, ?_, ?_, ?_⟩
      · rw [tapeOf_put, putL_eol, strictOf_put]
        rcases hidx with h | h
        · exact Or.inl (a4 h)
        · by_cases hle : (tapeOf l e).idx ≤ g.line.length
          · exact Or.inl (a4 hle)
          · have := (a3 (by omega)).2
            rw [this]; exact Or.inr h
      · rw [putL_positions]; exact hps
      · intro hc
        have hlt := a5 hc
        refine ⟨⟨hb', ?_, hla', ?_⟩, ?_⟩
        · rw [tapeOf_put]; exact a4 (by omega)
        · rw [putL_positions]; exact hps
        · intro hnil; rw [hnil] at hlt; simp at hlt
      · intro hc
        refine ⟨by rw [putL_eol, hl], ?_⟩
        rw [tapeOf_put]
        exact a6 hc (by omega)
      · intro hlive
        refine ⟨hb', ?_, hla', ?_⟩
        · rw [tapeOf_put]; exact a4 hlive.2.1
        · rw [putL_positions]; exact hps

theorem getc_good (rqn : Bool) :
    HT (Good g ps) (getc rqn)
      (fun c l e => Good g ps l e ∧ (c.isSome = true → Live g ps l e ∧ g.line ≠ []) ∧
        (c = none → l.eolLookahead = none ∧ g.line.length ≤ (tapeOf l e).idx)) (TopE g) := by
  intro l e hg
  have := getc_facts rqn l e hg
  revert this
  rcases M.run (getc rqn) l e with ⟨r, e'⟩
  cases r with
  | ok v => obtain ⟨c, l'⟩ := v; exact fun h => ⟨h.1, h.2.1, h.2.2.1⟩
  | error x => exact fun h => h

/-- `_getc` in a live state; when it returns `None` the cursor is at the end of the line -/
theorem getc_live' (rqn : Bool) :
    HT (Live g ps) (getc rqn)
      (fun c l e => Live g ps l e ∧ (c = none → g.line.length ≤ (tapeOf l e).idx)) (TopE g) := by
  intro l e hl
  have := getc_facts rqn l e hl.good
  revert this
  rcases M.run (getc rqn) l e with ⟨r, e'⟩
  cases r with
  | ok v => obtain ⟨c, l'⟩ := v; exact fun h => ⟨h.2.2.2 hl, fun hc => (h.2.2.1 hc).2⟩
  | error x => exact fun h => h

theorem getc_live (rqn : Bool) : SatI (Live g ps) (getc rqn) (fun _ => True) (TopE g) :=
  HT.post (getc_live' rqn) (fun _ _ _ h => ⟨True.intro, h.1⟩)

/-! ## `_ungetc` -/

/-- `_ungetc(c)`: a character put back was read from the line -/
theorem ungetc_live (c : Option Char) (hc : c.isSome = true → g.line ≠ []) :
    SatI (Live g ps) (ungetc c) (fun _ => True) (TopE g) := by
  intro l e hl
  rw [run_ungetc]
  rcases ungetc_cases (tapeOf l e) with hu | hu
  · rw [hu]
    simp only []
    refine ⟨True.intro, hl.put rfl rfl ?_⟩
    have := hl.2.1
    show (tapeOf l e).idx - 1 ≤ _
    omega
  · rw [hu]
    exact ⟨True.intro, hl.1, hl.2.1, hc, hl.2.2.2⟩

/-! ## state-preserving accessors -/

/-- a computation that returns `f l e` and leaves the state alone -/
theorem HT.reader {α : Type} {m : M α} {f : Local → Env → α} {P : Local → Env → Prop}
    {E : Exn → Prop} (h : ∀ l e, M.run m l e = (.ok (f l e, l), e)) :
    HT P m (fun a l e => a = f l e ∧ P l e) E := by
  intro l e hp; rw [h]; exact ⟨rfl, hp⟩

theorem run_tapeSource (l : Local) (e : Env) :
    M.run tapeSource l e = (.ok ((tapeOf l e).source, l), e) := by
  cases l with
  | mk tape => cases tape <;> rfl

theorem run_tapeAdded (l : Local) (e : Env) :
    M.run tapeAdded l e = (.ok ((tapeOf l e).added, l), e) := by
  cases l with
  | mk tape => cases tape <;> rfl

theorem run_optProceed (l : Local) (e : Env) :
    ∃ b, M.run optProceed l e = (.ok (b, l), e) := by
  cases l with
  | mk tape opts =>
    cases opts with
    | none => exact ⟨_, rfl⟩
    | some p => obtain ⟨s, p⟩ := p; exact ⟨_, rfl⟩

theorem run_syn (c : Char) (l : Local) (e : Env) :
    ∃ e', M.run (syn c) l e = (.ok (synClass c, l), e') ∧ e'.tape = e.tape ∧ e'.strict = e.strict := by
  refine ⟨(e.answer (.syntab c)).2, rfl, ?_, ?_⟩
  · simp only [Env.answer]; split <;> rfl
  · simp only [Env.answer]; split <;> rfl

/-- invariants that depend on the environment only through its tape and strict flag -/
class EnvStable (I : Local → Env → Prop) : Prop where
  env : ∀ l e e', I l e → e'.tape = e.tape → e'.strict = e.strict → I l e'

instance : EnvStable (Live g ps) := ⟨fun _ _ _ h h1 h2 => h.env h1 h2⟩
instance : EnvStable (Good g ps) := ⟨fun _ _ _ h h1 h2 => h.env h1 h2⟩

variable {I : Local → Env → Prop} {E : Exn → Prop}

theorem sati_reader {α : Type} {m : M α} (h : ∀ l e, ∃ a, M.run m l e = (.ok (a, l), e)) :
    SatI I m (fun _ => True) E := by
  intro l e hi
  obtain ⟨a, ha⟩ := h l e
  rw [ha]; exact ⟨True.intro, hi⟩

theorem sati_curIdx : SatI I curIdx (fun _ => True) E := sati_reader (fun l e => ⟨_, run_curIdx l e⟩)
theorem sati_tapeSource : SatI I tapeSource (fun _ => True) E :=
  sati_reader (fun l e => ⟨_, run_tapeSource l e⟩)
theorem sati_tapeLine : SatI I tapeLine (fun _ => True) E :=
  sati_reader (fun l e => ⟨_, run_tapeLine l e⟩)
theorem sati_tapeAdded : SatI I tapeAdded (fun _ => True) E :=
  sati_reader (fun l e => ⟨_, run_tapeAdded l e⟩)
theorem sati_optStrict : SatI I optStrict (fun _ => True) E :=
  sati_reader (fun l e => ⟨_, run_optStrict l e⟩)
theorem sati_optProceed : SatI I optProceed (fun _ => True) E := sati_reader run_optProceed

theorem sati_syn [EnvStable I] (c : Char) : SatI I (syn c) (fun _ => True) E := by
  intro l e hi
  obtain ⟨e', hr, h1, h2⟩ := run_syn c l e
  rw [hr]; exact ⟨True.intro, EnvStable.env l e e' hi h1 h2⟩

/-! ## the raise sites of the tokenizer -/

/-- `MatchedPairError`, raised right after `_getc` returned `None` in a live state -/
theorem matchedPairError_ht {α : Type} (hne : g.line ≠ []) (close : Char)
    {Q : α → Local → Env → Prop} :
    HT (fun l e => Live g ps l e ∧ g.line.length ≤ (tapeOf l e).idx)
      (matchedPairError close : M α) Q (TopE g) := by
  intro l e ⟨hl, hge⟩
  have hrun : M.run (matchedPairError close : M α) l e =
      (.error (mkParsingError (matchedPairMsg close) (tapeOf l e).source
        (((tapeOf l e).idx : Int) - 1)), e) := by
    unfold matchedPairError
    simp only [M.run_bind, run_tapeSource, run_curIdx, M.run_raise]
    rfl
  rw [hrun]
  obtain ⟨⟨hf, hline, hadd⟩, hidx, _, _⟩ := hl
  have hsrc : (tapeOf l e).source = g.source := by
    unfold Tape.source Ghost.source; rw [hline, hadd]
  have hlen : 0 < g.line.length := List.length_pos_iff.mpr hne
  have heq : (tapeOf l e).idx = g.line.length := by omega
  have hs := source_length g
  rw [hsrc, heq]
  have hle : ((g.line.length : Int) - 1) ≤ (g.source.length : Int) := by omega
  unfold mkParsingError
  rw [if_pos hle]
  exact TopParsing.matchedPair close _ (by omega) hle

/-- the end-of-file error of `makeheredoc` -/
theorem heredocError_sat {α : Type} (delim : Str) {φ : α → Prop} :
    SatI (Live g ps) (do
      let line ← tapeLine
      let i ← curIdx
      (M.raise (mkParsingError
        ("here-document at line 0 delimited by end-of-file (wanted " ++ pyReprStr delim ++ ")")
        line (i : Int)) : M α)) φ (TopE g) := by
  intro l e hl
  simp only [M.run_bind, run_tapeLine, run_curIdx, M.run_raise]
  obtain ⟨⟨hf, hline, hadd⟩, hidx, _, _⟩ := hl
  rw [hline]
  have hle : ((tapeOf l e).idx : Int) ≤ (g.line.length : Int) := Int.ofNat_le.mpr hidx
  unfold mkParsingError
  rw [if_pos hle]
  exact TopParsing.heredoc delim _ hidx

/-- the same, followed by dead code -/
theorem heredocError_bind {α β : Type} (delim : Str) {k : α → M β} {φ : β → Prop} :
    SatI (Live g ps) (do
      let line ← tapeLine
      let i ← curIdx
      let x ← (M.raise (mkParsingError
        ("here-document at line 0 delimited by end-of-file (wanted " ++ pyReprStr delim ++ ")")
        line (i : Int)) : M α)
      k x) φ (TopE g) := by
  intro l e hl
  simp only [M.run_bind, run_tapeLine, run_curIdx, M.run_raise]
  obtain ⟨⟨hf, hline, hadd⟩, hidx, _, _⟩ := hl
  rw [hline]
  have hle : ((tapeOf l e).idx : Int) ≤ (g.line.length : Int) := Int.ofNat_le.mpr hidx
  unfold mkParsingError
  rw [if_pos hle]
  exact TopParsing.heredoc delim _ hidx

end Bashlex.C11
