/-
  C11, part 4a: the automatic walk (`live_walk`) through a program of the model monad with the
  invariant `Live` and the exception classification `TopE`.  Same idea as `tok_walk` of
  `Props/C01/TokExn.lean`, with state: between a `get` and the `set` that follows it the walk
  knows the local state (`HTAt`).
-/
import Bashlex.Props.C11.Prims
import Bashlex.Props.C11.Tactic
import Bashlex.Model.Tokenizer

namespace Bashlex.C11
open Bashlex Bashlex.M Bashlex.C10
set_option linter.unusedSimpArgs false
set_option linter.unusedVariables false

/-- preserves `Live`, raises only `TopE` -/
abbrev LSat {α : Type} (g : Ghost) (ps : List Nat) (m : M α) : Prop :=
  SatI (Live g ps) m (fun _ => True) (TopE g)

/-- discharge `TopE g x` for a literal non-`ParsingError` `x` -/
macro "topexn" : tactic => `(tactic| first
  | exact topE_fuel
  | exact topE_ni
  | exact topE_foreign rfl
  | exact Or.inl topE_fuel
  | exact Or.inl topE_ni
  | exact Or.inl (topE_foreign rfl))

/-- known callees (extended after each lemma) -/
syntax "live_atom" : tactic
macro_rules | `(tactic| live_atom) => `(tactic| assumption)
set_option hygiene false in
macro_rules | `(tactic| live_atom) => `(tactic| exact hnp _ _)
set_option hygiene false in
macro_rules | `(tactic| live_atom) => `(tactic| exact hstep _)
set_option hygiene false in
macro_rules | `(tactic| live_atom) => `(tactic| exact hint _)
set_option hygiene false in
macro_rules | `(tactic| live_atom) => `(tactic| exact hpmp _)
set_option hygiene false in
macro_rules | `(tactic| live_atom) => `(tactic| exact hpcs _)
set_option hygiene false in
macro_rules | `(tactic| live_atom) => `(tactic| exact hd _ _ _)
set_option hygiene false in
macro_rules | `(tactic| live_atom) => `(tactic| exact hpost _ _ _ _)
set_option hygiene false in
macro_rules | `(tactic| live_atom) => `(tactic| exact hcpost _ _ _)
macro_rules | `(tactic| live_atom) => `(tactic| exact getc_live _)
macro_rules | `(tactic| live_atom) => `(tactic| exact ungetc_live _ (fun _ => by assumption))
macro_rules | `(tactic| live_atom) => `(tactic| exact sati_curIdx)
macro_rules | `(tactic| live_atom) => `(tactic| exact sati_tapeSource)
macro_rules | `(tactic| live_atom) => `(tactic| exact sati_tapeLine)
macro_rules | `(tactic| live_atom) => `(tactic| exact sati_tapeAdded)
macro_rules | `(tactic| live_atom) => `(tactic| exact sati_optStrict)
macro_rules | `(tactic| live_atom) => `(tactic| exact sati_optProceed)
macro_rules | `(tactic| live_atom) => `(tactic| exact sati_syn _)
macro_rules | `(tactic| live_atom) => `(tactic| exact heredocError_sat _)
macro_rules | `(tactic| live_atom) => `(tactic| exact heredocError_bind _)

/-- `c0 ← _getc()`, then `MatchedPairError` if `c0 is None` (the `do` notation pushes the rest of
    the block into the arms of the `match`) -/
theorem getcOrErr {g : Ghost} {ps : List Nat} (hne : g.line ≠ []) {β : Type} {r : Bool} {cl : Char}
    {F : Option Char → M β} {K : Char → M β} {ρ : β → Prop}
    (h0 : F none = (matchedPairError cl : M Char) >>= K)
    (hk : ∀ c, SatI (Live g ps) (F (some c)) ρ (TopE g)) :
    SatI (Live g ps) (getc r >>= F) ρ (TopE g) := by
  refine HT.bind (getc_live' r) (fun c0 => ?_)
  cases c0 with
  | none =>
    rw [h0]
    refine HT.bind (Q := fun _ _ _ => False) ?_ (fun _ => HT.pre_false)
    exact HT.pre (matchedPairError_ht hne cl) (fun l e h => ⟨h.1, h.2 rfl⟩)
  | some c => exact HT.pre (hk c) (fun l e h => h.1)

/-- one step of the walk through a program: invariant `Live` (any invariant whose atoms are
    known to `live_atom`), exceptions `TopE` -/
macro "live_step" : tactic => `(tactic| first
  | with_reducible exact SatI.pure True.intro
  | with_reducible exact HTAt.pure True.intro
  | with_reducible refine SatI.ite (fun _ => ?_) (fun _ => ?_)
  | with_reducible refine HTAt.ite (fun _ => ?_) (fun _ => ?_)
  | with_reducible refine HTAt.ite_bind (fun _ => ?_) (fun _ => ?_)
  | with_reducible live_atom
  | ((with_reducible refine getcOrErr (by assumption) (K := ?_) (cl := ?_) ?_ (fun _ => ?_)); rotate_left 2;
     (focus with_reducible rfl); dsimp only)
  | with_reducible refine SatI.get_bind (fun _ => ?_)
  | ((with_reducible refine SatI.modifyT ?_); (intro _ _ h; exact h))
  | ((with_reducible refine HTAt.set_bind ?_ ?_); focus (intro _ h; exact h))
  | ((with_reducible refine HTAt.setT ?_); (intro _ h; exact h))
  | ((with_reducible refine HTAt.foreign_bind ?_); topexn)
  | ((with_reducible refine HTAt.foreign ?_); topexn)
  | with_reducible refine HTAt.pure_bind ?_
  | split_head
  | with_reducible refine HTAt.ofSatI ?_
  | with_reducible refine SatI.bindE ?_ (fun _ => ?_)
  | ((with_reducible refine SatI.raise ?_); topexn)
  | ((with_reducible refine SatI.foreign ?_); topexn)
  | ((with_reducible refine SatI.loopT ?_ (fun _ => ?_) _ _); focus topexn))

/-- walk through a program: invariant `Live`, exceptions `TopE` -/
macro "live_walk" : tactic => `(tactic| repeat' live_step)

/-- the same, keeping a fact about the result: `pure` leaves close by assumption -/
macro "live_walk_v" : tactic => `(tactic| repeat' (first
  | live_step
  | exact SatI.pure (by assumption)
  | exact HTAt.pure (by assumption)))

/-- leaves of a walk with a post-condition of its own (extended per function) -/
syntax "pre_leaf" : tactic
macro_rules | `(tactic| pre_leaf) => `(tactic| assumption)

/-- one step of the walk from the invariant `Live` to an arbitrary post-condition: the leaves
    (`pre_leaf`) establish the post-condition, everything before them preserves the invariant -/
macro "pre_step" : tactic => `(tactic| first
  | with_reducible refine HT.ite (fun _ => ?_) (fun _ => ?_)
  | with_reducible refine HTQAt.ite (fun _ => ?_) (fun _ => ?_)
  | with_reducible refine HTQAt.ite_bind (fun _ => ?_) (fun _ => ?_)
  | pre_leaf
  | with_reducible refine HT.get_bind (fun _ => ?_)
  | ((with_reducible refine HTQAt.set_bind ?_ ?_); focus (intro _ h; exact h))
  | ((with_reducible refine HTQAt.foreign_bind ?_); topexn)
  | ((with_reducible refine HTQAt.foreign ?_); topexn)
  | with_reducible refine HTQAt.pure_bind ?_
  | split_head
  | with_reducible refine HTQAt.ofHT ?_
  | ((with_reducible refine HT.bind_lE ?_ (fun _ => ?_)); focus (live_walk; done))
  | ((with_reducible refine HT.foreign ?_); topexn))

macro "pre_walk" : tactic => `(tactic| repeat' pre_step)

end Bashlex.C11
