/-
  C11, part 1: a Hoare logic for the model monad WITH state assertions.

  `Proofs/Hoare.lean`'s `Sat` quantifies over all local states and environments; the facts C11
  needs ("the cursor is inside the input", "the recorded positions are bounded by the length of
  the line") are facts about the state.  `HT P m Q E`: from any state satisfying `P`, a normal
  return of `m` satisfies `Q` (of the result and the final state), an exception satisfies `E`.
  `SatI I m φ E` is the invariant form (`I` before and after, `φ` of the result); its rules mirror
  those of `Sat`.  `HTAt I l0 m φ E` additionally knows that the current local state is `l0`
  (between a `get` and the `set` that follows it).
-/
import Bashlex.Props.C10.Tape

namespace Bashlex.C11
open Bashlex Bashlex.M Bashlex.C10

/-- state-aware Hoare triple: `Q` of a normal return, `E` of an exception -/
def HT {α : Type} (P : Local → Env → Prop) (m : M α) (Q : α → Local → Env → Prop)
    (E : Exn → Prop) : Prop :=
  ∀ l e, P l e → match m.run l e with
    | (.ok (a, l'), e') => Q a l' e'
    | (.error x, _) => E x

namespace HT
variable {α β : Type} {P P' : Local → Env → Prop} {Q Q' : α → Local → Env → Prop}
  {E E' : Exn → Prop}

theorem pure {a : α} (h : ∀ l e, P l e → Q a l e) : HT P (Pure.pure a : M α) Q E := by
  intro l e hp; rw [M.run_pure]; exact h l e hp

theorem raise {x : Exn} (h : E x) : HT P (M.raise x : M α) Q E := by
  intro l e _; rw [M.run_raise]; exact h

theorem raise' {x : Exn} (h : ∀ l e, P l e → E x) : HT P (M.raise x : M α) Q E := by
  intro l e hp; rw [M.run_raise]; exact h l e hp

theorem foreign {a b : String} (h : E (.foreign a b)) : HT P (M.foreign a b : M α) Q E :=
  raise h

theorem bind {m : M α} {f : α → M β} {R : β → Local → Env → Prop}
    (hm : HT P m Q E) (hf : ∀ a, HT (Q a) (f a) R E) : HT P (m >>= f) R E := by
  intro l e hp
  rw [M.run_bind]
  have h1 := hm l e hp
  rcases h : m.run l e with ⟨r, e'⟩
  rw [h] at h1
  cases r with
  | ok v => obtain ⟨a, l'⟩ := v; exact hf a l' e' h1
  | error x => exact h1

theorem weaken {m : M α} (hm : HT P m Q E) (hP : ∀ l e, P' l e → P l e)
    (hQ : ∀ a l e, Q a l e → Q' a l e) (hE : ∀ x, E x → E' x) : HT P' m Q' E' := by
  intro l e hp
  have h1 := hm l e (hP l e hp)
  rcases hr : m.run l e with ⟨r, e'⟩
  rw [hr] at h1
  cases r with
  | ok v => exact hQ _ _ _ h1
  | error x => exact hE _ h1

theorem pre {m : M α} (hm : HT P m Q E) (hP : ∀ l e, P' l e → P l e) : HT P' m Q E :=
  hm.weaken hP (fun _ _ _ h => h) (fun _ h => h)

theorem post {m : M α} (hm : HT P m Q E) (hQ : ∀ a l e, Q a l e → Q' a l e) : HT P m Q' E :=
  hm.weaken (fun _ _ h => h) hQ (fun _ h => h)

theorem exn {m : M α} (hm : HT P m Q E) (hE : ∀ x, E x → E' x) : HT P m Q E' :=
  hm.weaken (fun _ _ h => h) (fun _ _ _ h => h) hE

/-- a pure fact in the pre-condition moves to the context -/
theorem pre_pure {φ : Prop} {m : M α} (h : φ → HT P m Q E) :
    HT (fun l e => φ ∧ P l e) m Q E := by
  intro l e hp; exact h hp.1 l e hp.2

theorem pre_false {m : M α} : HT (fun _ _ => False) m Q E := by
  intro l e hp; exact hp.elim

theorem ite {c : Prop} [Decidable c] {a b : M α} (ha : c → HT P a Q E) (hb : ¬ c → HT P b Q E) :
    HT P (if c then a else b) Q E := by
  split
  · exact ha ‹_›
  · exact hb ‹_›

theorem get : HT P (MonadState.get : M Local) (fun a l e => a = l ∧ P l e) E := by
  intro l e hp; exact ⟨rfl, hp⟩

theorem set {Q : Unit → Local → Env → Prop} {l1 : Local} (h : ∀ l e, P l e → Q () l1 e) :
    HT P (MonadStateOf.set l1 : M Unit) Q E := by
  intro l e hp; exact h l e hp

theorem modify {Q : Unit → Local → Env → Prop} {f : Local → Local}
    (h : ∀ l e, P l e → Q () (f l) e) : HT P (_root_.modify f : M Unit) Q E := by
  intro l e hp; exact h l e hp

theorem loop {σ : Type} {site : String} {body : σ → M (σ ⊕ α)} (I : σ → Local → Env → Prop)
    (hfuel : E (.outOfFuel site))
    (hbody : ∀ s, HT (I s) (body s)
      (fun r l e => match r with | .inl s' => I s' l e | .inr a => Q a l e) E) :
    ∀ fuel s, HT (I s) (M.loop site body fuel s) Q E := by
  intro fuel
  induction fuel with
  | zero => intro s; exact HT.raise hfuel
  | succ n ih =>
    intro s
    show HT (I s) (body s >>= _) Q E
    refine HT.bind (hbody s) ?_
    intro r
    cases r with
    | inl s' => exact ih s'
    | inr a => exact HT.pure (fun _ _ h => h)

/-- a stateless fact joins a triple -/
theorem and_sat {m : M α} {φ : α → Prop} {F : Exn → Prop} (h1 : HT P m Q E) (h2 : Sat m φ F) :
    HT P m (fun a l e => φ a ∧ Q a l e) (fun x => F x ∧ E x) := by
  intro l e hp
  have a1 := h1 l e hp
  have a2 := h2 l e
  rcases hr : m.run l e with ⟨r, e'⟩
  rw [hr] at a1 a2
  cases r with
  | ok v => exact ⟨a2, a1⟩
  | error x => exact ⟨a2, a1⟩

theorem ok {m : M α} (h : HT P m Q E) {l e a l' e'} (hp : P l e)
    (hr : m.run l e = (.ok (a, l'), e')) : Q a l' e' := by
  have := h l e hp; rw [hr] at this; exact this

theorem err {m : M α} (h : HT P m Q E) {l e x e'} (hp : P l e)
    (hr : m.run l e = (.error x, e')) : E x := by
  have := h l e hp; rw [hr] at this; exact this

end HT

/-! ## invariant form -/

/-- `I` is preserved, the result satisfies `φ` -/
def SatI {α : Type} (I : Local → Env → Prop) (m : M α) (φ : α → Prop) (E : Exn → Prop) : Prop :=
  HT I m (fun a l e => φ a ∧ I l e) E

/-- as `SatI`, knowing that the local state is `l0` -/
def HTAt {α : Type} (I : Local → Env → Prop) (l0 : Local) (m : M α) (φ : α → Prop)
    (E : Exn → Prop) : Prop :=
  HT (fun l e => l = l0 ∧ I l e) m (fun a l e => φ a ∧ I l e) E

namespace SatI
variable {α β : Type} {I : Local → Env → Prop} {φ ψ : α → Prop} {E E' : Exn → Prop}

theorem pure {a : α} (h : φ a) : SatI I (Pure.pure a : M α) φ E :=
  HT.pure (fun _ _ hi => ⟨h, hi⟩)

theorem raise {x : Exn} (h : E x) : SatI I (M.raise x : M α) φ E := HT.raise h
theorem foreign {a b : String} (h : E (.foreign a b)) : SatI I (M.foreign a b : M α) φ E :=
  HT.raise h

theorem bind {m : M α} {f : α → M β} {ρ : β → Prop} (hm : SatI I m φ E)
    (hf : ∀ a, φ a → SatI I (f a) ρ E) : SatI I (m >>= f) ρ E :=
  HT.bind hm (fun a => HT.pre_pure (fun ha => hf a ha))

/-- bind when nothing is needed of the intermediate result -/
theorem bindE {m : M α} {f : α → M β} {ρ : β → Prop} (hm : SatI I m (fun _ => True) E)
    (hf : ∀ a, SatI I (f a) ρ E) : SatI I (m >>= f) ρ E :=
  bind hm (fun a _ => hf a)

theorem weaken {m : M α} (hm : SatI I m φ E) (h : ∀ a, φ a → ψ a) (hE : ∀ x, E x → E' x) :
    SatI I m ψ E' :=
  HT.weaken hm (fun _ _ h => h) (fun a _ _ ha => ⟨h a ha.1, ha.2⟩) hE

theorem triv {m : M α} (hm : SatI I m φ E) : SatI I m (fun _ => True) E :=
  hm.weaken (fun _ _ => True.intro) (fun _ h => h)

theorem ite {c : Prop} [Decidable c] {a b : M α} (ha : c → SatI I a φ E) (hb : ¬ c → SatI I b φ E) :
    SatI I (if c then a else b) φ E := HT.ite ha hb

theorem loop {σ : Type} {site : String} {body : σ → M (σ ⊕ α)} (J : σ → Prop)
    (hfuel : E (.outOfFuel site)) (hbody : ∀ s, J s → SatI I (body s) (Sum.elim J φ) E) :
    ∀ fuel s, J s → SatI I (M.loop site body fuel s) φ E := by
  intro fuel s hs
  have := HT.loop (Q := fun a l e => φ a ∧ I l e) (I := fun s l e => J s ∧ I l e) (E := E)
    (site := site) (body := body) hfuel (fun s => HT.pre_pure (fun hs => by
      refine HT.post (hbody s hs) ?_
      intro r l e h
      cases r with
      | inl s' => exact h
      | inr a => exact h)) fuel s
  exact HT.pre this (fun l e h => ⟨hs, h⟩)

/-- a fuel loop with nothing to remember -/
theorem loopT {σ : Type} {site : String} {body : σ → M (σ ⊕ α)}
    (hfuel : E (.outOfFuel site)) (hbody : ∀ s, SatI I (body s) (fun _ => True) E) (fuel : Nat)
    (s : σ) : SatI I (M.loop site body fuel s) (fun _ => True) E :=
  loop (J := fun _ => True) hfuel
    (fun s _ => (hbody s).weaken (fun r _ => by cases r <;> exact True.intro) (fun _ h => h))
    fuel s True.intro

theorem modify {f : Local → Local} {φ : Unit → Prop} (h : ∀ l e, I l e → I (f l) e) (hφ : φ ()) :
    SatI I (_root_.modify f : M Unit) φ E :=
  HT.modify (fun l e hi => ⟨hφ, h l e hi⟩)

theorem modifyT {f : Local → Local} (h : ∀ l e, I l e → I (f l) e) :
    SatI I (_root_.modify f : M Unit) (fun _ => True) E := modify h True.intro

theorem get {φ : Local → Prop} (h : ∀ l, φ l) : SatI I (MonadState.get : M Local) φ E :=
  HT.post HT.get (fun a _ _ ha => ⟨h a, ha.2⟩)

/-- `get` followed by a continuation that may `set` -/
theorem get_bind {f : Local → M β} {ρ : β → Prop} (h : ∀ l0, HTAt I l0 (f l0) ρ E) :
    SatI I ((MonadState.get : M Local) >>= f) ρ E := by
  refine HT.bind HT.get (fun l0 => ?_)
  exact HT.pre (h l0) (fun l e hp => ⟨hp.1.symm, hp.2⟩)

theorem forIn_list {γ : Type} {f : γ → β → M (ForInStep β)} {ρ : β → Prop}
    (J : List γ → β → Prop)
    (hstep : ∀ a rest b, J (a :: rest) b →
      SatI I (f a b) (fun r => match r with | .yield b' => J rest b' | .done b' => ρ b') E)
    (hdone : ∀ b, J [] b → ρ b) :
    ∀ (l : List γ) (b : β), J l b → SatI I (forIn l b f) ρ E := by
  intro l
  induction l with
  | nil => intro b hb; rw [List.forIn_nil]; exact SatI.pure (hdone b hb)
  | cons a rest ih =>
    intro b hb
    rw [List.forIn_cons]
    refine SatI.bind (hstep a rest b hb) ?_
    intro r hr
    cases r with
    | done b' => exact SatI.pure hr
    | yield b' => exact ih b' hr

/-- a computation that never touches the state -/
theorem of_sat_stateless {m : M α}
    (hs : ∀ l e, (∃ a, m.run l e = (.ok (a, l), e)) ∨ (∃ x, m.run l e = (.error x, e)))
    (h : Sat m φ E) : SatI I m φ E := by
  intro l e hi
  have h1 := h l e
  rcases hs l e with ⟨a, hr⟩ | ⟨x, hr⟩
  · rw [hr] at h1 ⊢; exact ⟨h1, hi⟩
  · rw [hr] at h1 ⊢; exact h1

end SatI

namespace HTAt
variable {α β : Type} {I : Local → Env → Prop} {φ : α → Prop} {E : Exn → Prop} {l0 : Local}

theorem pure {a : α} (h : φ a) : HTAt I l0 (Pure.pure a : M α) φ E :=
  HT.pure (fun _ _ hi => ⟨h, hi.2⟩)

theorem raise {x : Exn} (h : E x) : HTAt I l0 (M.raise x : M α) φ E := HT.raise h
theorem foreign {a b : String} (h : E (.foreign a b)) : HTAt I l0 (M.foreign a b : M α) φ E :=
  HT.raise h

theorem ite {c : Prop} [Decidable c] {a b : M α} (ha : c → HTAt I l0 a φ E)
    (hb : ¬ c → HTAt I l0 b φ E) : HTAt I l0 (if c then a else b) φ E := HT.ite ha hb

theorem ofSatI {m : M α} (h : SatI I m φ E) : HTAt I l0 m φ E := HT.pre h (fun _ _ hp => hp.2)

theorem set_bind {l1 : Local} {k : Unit → M β} {ρ : β → Prop} (h : ∀ e, I l0 e → I l1 e)
    (hk : SatI I (k ()) ρ E) : HTAt I l0 ((MonadStateOf.set l1 : M Unit) >>= k) ρ E := by
  refine HT.bind (Q := fun _ l e => I l e) (HT.set ?_) (fun _ => hk)
  rintro l e ⟨rfl, hi⟩
  exact h e hi

theorem set {l1 : Local} {φ : Unit → Prop} (h : ∀ e, I l0 e → I l1 e) (hφ : φ ()) :
    HTAt I l0 (MonadStateOf.set l1 : M Unit) φ E := by
  refine HT.set ?_
  rintro l e ⟨rfl, hi⟩
  exact ⟨hφ, h e hi⟩

theorem setT {l1 : Local} (h : ∀ e, I l0 e → I l1 e) :
    HTAt I l0 (MonadStateOf.set l1 : M Unit) (fun _ => True) E := set h True.intro

theorem ite_bind {c : Prop} [Decidable c] {a b : M α} {k : α → M β} {ρ : β → Prop}
    (ha : c → HTAt I l0 (a >>= k) ρ E) (hb : ¬ c → HTAt I l0 (b >>= k) ρ E) :
    HTAt I l0 ((if c then a else b) >>= k) ρ E := by
  split
  · exact ha ‹_›
  · exact hb ‹_›

/-- a raise followed by dead code -/
theorem raise_bind {x : Exn} {k : α → M β} {ρ : β → Prop} (h : E x) :
    HTAt I l0 ((M.raise x : M α) >>= k) ρ E := by
  intro l e _; rw [M.run_bind, M.run_raise]; exact h

theorem foreign_bind {a b : String} {k : α → M β} {ρ : β → Prop} (h : E (.foreign a b)) :
    HTAt I l0 ((M.foreign a b : M α) >>= k) ρ E := raise_bind h

theorem pure_bind {a : α} {k : α → M β} {ρ : β → Prop} (h : HTAt I l0 (k a) ρ E) :
    HTAt I l0 ((Pure.pure a : M α) >>= k) ρ E := by
  have : ((Pure.pure a : M α) >>= k) = k a := by simp
  rw [this]; exact h

end HTAt

/-! ## pre-invariant `I`, arbitrary post-condition -/

/-- as `HT` from the invariant `I`, knowing that the local state is `l0` -/
def HTQAt {α : Type} (I : Local → Env → Prop) (l0 : Local) (m : M α)
    (Q : α → Local → Env → Prop) (E : Exn → Prop) : Prop :=
  HT (fun l e => l = l0 ∧ I l e) m Q E

namespace HT
variable {α β : Type} {I J : Local → Env → Prop} {E : Exn → Prop}

/-- bind after a computation that preserves the invariant -/
theorem bind_l {m : M α} {f : α → M β} {ψ : α → Prop} {Q : β → Local → Env → Prop}
    (hm : SatI I m ψ E) (hf : ∀ a, ψ a → HT I (f a) Q E) : HT I (m >>= f) Q E :=
  HT.bind hm (fun a => HT.pre_pure (fun ha => hf a ha))

theorem bind_lE {m : M α} {f : α → M β} {Q : β → Local → Env → Prop}
    (hm : SatI I m (fun _ => True) E) (hf : ∀ a, HT I (f a) Q E) : HT I (m >>= f) Q E :=
  bind_l hm (fun a _ => hf a)

/-- bind after the computation that moves from invariant `I` to invariant `J` -/
theorem bind_switch {m : M α} {k : α → M β} {ψ : α → Prop} {φ : β → Prop}
    (hm : HT I m (fun a l e => ψ a ∧ J l e) E) (hk : ∀ a, ψ a → SatI J (k a) φ E) :
    HT I (m >>= k) (fun b l e => φ b ∧ J l e) E :=
  HT.bind hm (fun a => HT.pre_pure (fun ha => hk a ha))

theorem get_bind {f : Local → M β} {Q : β → Local → Env → Prop}
    (h : ∀ l0, HTQAt I l0 (f l0) Q E) : HT I ((MonadState.get : M Local) >>= f) Q E := by
  refine HT.bind HT.get (fun l0 => ?_)
  exact HT.pre (h l0) (fun l e hp => ⟨hp.1.symm, hp.2⟩)

theorem pre_exists {ι : Type} {P : ι → Local → Env → Prop} {m : M α}
    {Q : α → Local → Env → Prop} (h : ∀ i, HT (P i) m Q E) :
    HT (fun l e => ∃ i, P i l e) m Q E := by
  intro l e ⟨i, hp⟩; exact h i l e hp

end HT

namespace HTQAt
variable {α β : Type} {I : Local → Env → Prop} {Q : α → Local → Env → Prop} {E : Exn → Prop}
  {l0 : Local}

theorem ite {c : Prop} [Decidable c] {a b : M α} (ha : c → HTQAt I l0 a Q E)
    (hb : ¬ c → HTQAt I l0 b Q E) : HTQAt I l0 (if c then a else b) Q E := HT.ite ha hb

theorem ite_bind {c : Prop} [Decidable c] {a b : M α} {k : α → M β}
    {R : β → Local → Env → Prop}
    (ha : c → HTQAt I l0 (a >>= k) R E) (hb : ¬ c → HTQAt I l0 (b >>= k) R E) :
    HTQAt I l0 ((if c then a else b) >>= k) R E := by
  split
  · exact ha ‹_›
  · exact hb ‹_›

theorem ofHT {m : M α} (h : HT I m Q E) : HTQAt I l0 m Q E := HT.pre h (fun _ _ hp => hp.2)

theorem set_bind {l1 : Local} {k : Unit → M β} {R : β → Local → Env → Prop}
    (h : ∀ e, I l0 e → I l1 e) (hk : HT I (k ()) R E) :
    HTQAt I l0 ((MonadStateOf.set l1 : M Unit) >>= k) R E := by
  refine HT.bind (Q := fun _ l e => I l e) (HT.set ?_) (fun _ => hk)
  rintro l e ⟨rfl, hi⟩
  exact h e hi

theorem raise_bind {x : Exn} {k : α → M β} {R : β → Local → Env → Prop} (h : E x) :
    HTQAt I l0 ((M.raise x : M α) >>= k) R E := by
  intro l e _; rw [M.run_bind, M.run_raise]; exact h

theorem foreign_bind {a b : String} {k : α → M β} {R : β → Local → Env → Prop}
    (h : E (.foreign a b)) : HTQAt I l0 ((M.foreign a b : M α) >>= k) R E := raise_bind h

theorem foreign {a b : String} (h : E (.foreign a b)) : HTQAt I l0 (M.foreign a b : M α) Q E :=
  HT.raise h

theorem pure_bind {a : α} {k : α → M β} {R : β → Local → Env → Prop}
    (h : HTQAt I l0 (k a) R E) : HTQAt I l0 ((Pure.pure a : M α) >>= k) R E := by
  have : ((Pure.pure a : M α) >>= k) = k a := by simp
  rw [this]; exact h

end HTQAt

end Bashlex.C11
