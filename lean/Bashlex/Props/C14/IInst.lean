/-
  C14 interior, part 4: a concrete state relation `SI f` and a concrete family of environment
  relations `envRelOf T` (any relation `T` between the two tapes) for which the hypotheses
  `ActEnv.state` and `ActEnv.proceed` of `InteriorResidual` HOLD — so these two are properties
  of the set-up, not assumptions about the model, and the hypothesis structure is consistent.
-/
import Bashlex.Props.C14.IAct

namespace Bashlex.C14I
open Bashlex Bashlex.LR Bashlex.C16
set_option linter.unusedSimpArgs false
set_option linter.unusedVariables false

/-- the parser object of the second run: the same flags, options, delimiter stack, pending
    redirect ids; here-document cells and the remembered tokens under `f` (`positions` — the
    tokenizer's scratch list, empty between tokens — is not constrained) -/
structure SI (f : Span → Span) (l₁ l₂ : Local) : Prop where
  tape : l₂.tape = l₁.tape
  opts : l₂.opts = l₁.opts
  eol : l₂.eolLookahead = l₁.eolLookahead
  before : l₂.tokenBeforeThat = mapTok f l₁.tokenBeforeThat
  last : l₂.lastReadToken = mapTok f l₁.lastReadToken
  cur : l₂.currentToken = mapTok f l₁.currentToken
  ps : l₂.ps = l₁.ps
  obc : l₂.openBraceCount = l₁.openBraceCount
  esacs : l₂.esacsNeeded = l₁.esacsNeeded
  dstack : l₂.dstack = l₁.dstack
  eofToken : l₂.eofToken = l₁.eofToken
  redirstack : l₂.redirstack = l₁.redirstack
  store : l₂.store = l₁.store.map (cellMap f)
  limit : l₂.limit = l₁.limit

theorem sgood_SI (f : Span → Span) : SGood f (SI f) where
  store := fun _ _ h => h.store
  ps := fun _ _ h => h.ps
  setPs := fun l₁ l₂ h p =>
    { tape := h.tape, opts := h.opts, eol := h.eol, before := h.before, last := h.last
      cur := h.cur, ps := rfl, obc := h.obc, esacs := h.esacs, dstack := h.dstack
      eofToken := h.eofToken, redirstack := h.redirstack, store := h.store, limit := h.limit }
  eofTok := fun _ _ h => h.eofToken
  cur := fun l₁ l₂ h => by rw [h.cur]; rfl
  push := fun l₁ l₂ h c e =>
    { tape := h.tape, opts := h.opts, eol := h.eol, before := h.before, last := h.last
      cur := h.cur, ps := h.ps, obc := h.obc, esacs := h.esacs, dstack := h.dstack
      eofToken := h.eofToken
      redirstack := by show l₂.redirstack ++ [e] = l₁.redirstack ++ [e]; rw [h.redirstack]
      store := by
        show l₂.store ++ [cellMap f c] = (l₁.store ++ [c]).map (cellMap f)
        rw [h.store, List.map_append]; rfl
      limit := h.limit }

/-- environments of the two runs: the same options and `sh_syntaxtab` content, tapes related by
    `T` (for an insertion: `X ++ Y` and `X ++ ins ++ Y` with the cursors in step) -/
@[reducible] def envRelOf (T : Tape → Tape → Prop) : EnvRel :=
  ⟨fun e₁ e₂ => e₂.strict = e₁.strict ∧ e₂.proceed = e₁.proceed ∧ e₂.touched = e₁.touched ∧
    T e₁.tape e₂.tape⟩

/-- both runs see the same `proceedonerror` -/
theorem proceed_SI (f : Span → Span) (T : Tape → Tape → Prop) :
    @Rel (envRelOf T) _ _ (SI f) (SI f) optProceed optProceed Eq := by
  intro l₁ l₂ e₁ e₂ hS hE a₁ l₁' e₁' hr
  have h1 : ∀ (l : Local) (e : Env), optProceed.run l e =
      (.ok ((match l.opts with | none => e.proceed | some (_, p) => p), l), e) := by
    intro l e
    cases l with
    | mk tape opts =>
      cases opts with
      | none => rfl
      | some p => obtain ⟨s, p⟩ := p; rfl
  rw [h1] at hr
  cases hr
  refine ⟨_, l₂, e₂, h1 l₂ e₂, ?_, hS, hE⟩
  rw [hS.opts, hE.2.1]

end Bashlex.C14I
