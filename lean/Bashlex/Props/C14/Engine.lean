/-
  C14, layer 3c: the LR engine and `_parser.parse()` (`parserRun`) under the translation.

  The engine's control flow depends on token TYPES and on the parse tables only, so the two runs
  proceed in lock step: same states, same derivation trees, semantic values moved by the shift
  (`CfgRel`).  The first run's configuration also satisfies the unary invariant of `LR/Sound.lean`
  with the sorts of C12 (`Inv … VI`): at every reduction it yields the sorts of the popped values,
  hence (kernel-checked on the generated grammar, `shiftSafe_ok`) the right-hand sides on which the
  action is `shiftSafe`.  `timespec` values do not exist (`p_timespec` raises: `proceedonerror` is
  off), which removes the D19 production `timespec pipeline_command`.
-/
import Bashlex.Props.C14.ActBase
import Bashlex.Props.C12
import Bashlex.LR.Real

namespace Bashlex.C14
open Bashlex Bashlex.C10 Bashlex.C12 Bashlex.LR
set_option linter.unusedSimpArgs false
set_option linter.unusedVariables false

variable {pre : Str} {top : Bool} {n n' : Nat}

/-! ## once past the end of the tape, always past the end -/

theorem answer_pastEnd (e : Env) (q : Query) (h : e.tape.line.length < e.tape.idx) :
    (e.answer q).2.tape.line.length < (e.answer q).2.tape.idx := by
  cases q with
  | getc rqn =>
    simp only [Env.answer]
    rw [tgetc_end _ _ _ (by omega)]
    exact h
  | ungetc =>
    simp only [Env.answer]
    have : e.tape.ungetc = (false, e.tape) := by
      unfold Tape.ungetc
      rw [if_neg]
      simp only [Bool.and_eq_true, decide_eq_true_eq, not_and]
      intro _ ; omega
    rw [this]; exact h
  | bump => simp only [Env.answer]; omega
  | syntab c =>
    simp only [Env.answer]
    split <;> exact h
  | _ => exact h

theorem q_run_pastEnd {α : Type} (p : Q α) : ∀ e : Env, e.tape.line.length < e.tape.idx →
    (Q.run p e).2.tape.line.length < (Q.run p e).2.tape.idx := by
  induction p with
  | pure a => intro e h; exact h
  | ask q k ih =>
    intro e h
    rw [Q.run_ask]
    exact ih _ _ (answer_pastEnd e q h)

/-- no `M` program brings the cursor of the environment tape back from beyond the end -/
theorem run_pastEnd {α : Type} (m : M α) (l : Local) (e : Env)
    (h : e.tape.line.length < e.tape.idx) :
    (M.run m l e).2.tape.line.length < (M.run m l e).2.tape.idx := q_run_pastEnd (m l) e h

/-! ## configurations of the engine -/

/-- a stack with its values moved by `k` -/
def mapStk (k : Nat) (s : Stack SVal) : Stack SVal := s.map fun e => { e with val := shiftS k e.val }

@[simp] theorem topState_mapStk (k : Nat) (s : Stack SVal) : topState (mapStk k s) = topState s := by
  cases s <;> rfl

theorem popN_mapStk (k : Nat) : ∀ (m : Nat) (s : Stack SVal),
    popN m (mapStk k s) = (popN m s).map fun (es, r) => (mapStk k es, mapStk k r)
  | 0, s => rfl
  | m + 1, [] => rfl
  | m + 1, e :: s => by
    show (popN m (mapStk k s)).map _ = _
    rw [popN_mapStk k m s]
    show _ = ((popN m s).map _).map _
    cases popN m s with
    | none => rfl
    | some v => simp [mapStk]

theorem isNl_shiftS (np : NestedParse) (k : Nat) (v : SVal) :
    (lrHooks np).isNl (shiftS k v) = (lrHooks np).isNl v := by
  cases v <;> rfl

theorem all_isNl_mapStk (np : NestedParse) (k : Nat) (s : Stack SVal) :
    (mapStk k s).all (fun e => (lrHooks np).isNl e.val) = s.all (fun e => (lrHooks np).isNl e.val) := by
  unfold mapStk
  rw [List.all_map]
  congr 1
  funext e
  exact isNl_shiftS np k e.val

/-- the two configurations: same states and trees, values moved; the ghost fields are free -/
structure CfgRel (k : Nat) (c₁ c₂ : Cfg SVal) : Prop where
  stack : c₂.stack = mapStk k c₁.stack
  la : c₂.la = c₁.la.map fun la => (la.1, shiftS k la.2)

/-- the engine's results: the accepted values moved -/
def ResRel (k : Nat) : Res SVal → Res SVal → Prop
  | .accepted v₁ _ _ _, .accepted v₂ _ _ _ => v₂ = shiftS k v₁
  | .blank _ _, .blank _ _ => True
  | _, _ => False

/-! ## `p_error` -/

theorem sim_pError {t₁ t₂ : Token} (h : TokRel (kOf pre top) t₁ t₂) :
    Sim pre top n n (pError t₁) (pError t₂) (fun _ _ => False) := by
  unfold pError
  refine Sim.bind sim_tapeSource (fun s₁ s₂ hs => ?_)
  have his : t₂.is .EOF = t₁.is .EOF := by unfold Token.is; rw [h.ttype]
  rw [his, h.value]
  by_cases he : t₁.is .EOF = true
  · rw [if_pos he, if_pos he]
    refine Sim.raise ?_
    have := exnRel_mkParsingError hs "unexpected EOF" (s₁.length : Int)
    rw [hs.length, Int.natCast_add]
    exact this
  · rw [if_neg he, if_neg he]
    refine Sim.raise ?_
    have hp : t₁.pos.isSome = true := by
      cases hp : t₁.pos with
      | some p => rfl
      | none =>
        have := (h.hasPos hp).1
        unfold Token.is at he
        rw [this] at he
        exact absurd rfl he
    have hl : t₂.lexpos = t₁.lexpos + kOf pre top := by
      rw [h.eq_shiftTok]; exact shiftTok_lexpos _ hp
    have := exnRel_mkParsingError hs
      ("unexpected token " ++ match t₁.value with
        | .str s => pyReprStr s
        | .int n => toString n
        | .none => "None") (t₁.lexpos : Nat)
    rw [hl, Int.natCast_add]
    exact this

/-! ## the generated grammar -/

/-- the grammar symbol `timespec` -/
def tsSym : Nat := Gen.termNames.length + Gen.ntNames.idxOf "timespec"

/-- every production: no action, or `timespec` on the right-hand side (such values do not
    exist), or the action is `shiftSafe` on the sorts of the right-hand side -/
def shiftSafeCheck : Bool :=
  (List.zip Gen.prodFuncs Gen.prodTable).all fun (f, (_, rhs)) =>
    f == "" || rhs.contains tsSym || shiftSafe f (rhs.map sortOfSymbol)

theorem shiftSafe_ok : shiftSafeCheck = true := by decide +kernel

/-- the productions of `timespec` are those of the action `p_timespec` -/
def timespecCheck : Bool :=
  (List.zip Gen.prodFuncs Gen.prodTable).all fun (f, (lhs, _)) =>
    f == "" || (lhs == tsSym) == (f == "p_timespec")

theorem timespec_ok : timespecCheck = true := by decide +kernel

theorem tsSym_nonterminal : realTables.nTerms ≤ tsSym := Nat.le_add_right _ _

/-- the facts about production `p` used at a reduction -/
theorem prod_facts {p lhs : Nat} {rhs : List Nat} (hp : realTables.prods[p]? = some (lhs, rhs)) :
    (Gen.prodFuncs.getD p "" = "" ∨
      absAction (Gen.prodFuncs.getD p "") (rhs.map sortOfSymbol) = some (sortOfSymbol lhs)) ∧
    (Gen.prodFuncs.getD p "" = "" ∨ tsSym ∈ rhs ∨
      shiftSafe (Gen.prodFuncs.getD p "") (rhs.map sortOfSymbol) = true) ∧
    (Gen.prodFuncs.getD p "" = "" ∨ (lhs = tsSym ↔ Gen.prodFuncs.getD p "" = "p_timespec")) := by
  have hp' : Gen.prodTable[p]? = some (lhs, rhs) := hp
  have hlt : p < Gen.prodFuncs.length := by
    rw [prodFuncs_length]
    exact (List.getElem?_eq_some_iff.mp hp').1
  have hf : Gen.prodFuncs[p]? = some (Gen.prodFuncs.getD p "") := by
    simp [List.getD_eq_getElem?_getD, List.getElem?_eq_getElem hlt]
  have hz : (List.zip Gen.prodFuncs Gen.prodTable)[p]? = some (Gen.prodFuncs.getD p "", (lhs, rhs)) :=
    List.getElem?_zip_eq_some.mpr ⟨hf, hp'⟩
  have hmem := List.mem_of_getElem? hz
  refine ⟨?_, ?_, ?_⟩
  · have hg := grammar_ok
    unfold grammarCheck at hg
    have := List.all_eq_true.mp hg _ hmem
    simpa [Bool.or_eq_true, beq_iff_eq] using this
  · have hg := shiftSafe_ok
    unfold shiftSafeCheck at hg
    have := List.all_eq_true.mp hg _ hmem
    simpa [Bool.or_eq_true, beq_iff_eq, or_assoc] using this
  · have hg := timespec_ok
    unfold timespecCheck at hg
    have := List.all_eq_true.mp hg _ hmem
    simp only [Bool.or_eq_true, beq_iff_eq] at this
    rcases this with h | h
    · exact Or.inl h
    · right
      constructor
      · intro hl
        have : (lhs == tsSym) = true := by simpa using hl
        rw [this] at h
        simpa using h.symm
      · intro hf'
        have : (Gen.prodFuncs.getD p "" == "p_timespec") = true := by simpa using hf'
        rw [this] at h
        simpa using h

/-- values of non-terminals are not tokens -/
theorem sortOfNT_ne_tok (name : String) (ty : Option TokType) : sortOfNT name ≠ .tok ty := by
  unfold sortOfNT
  split <;> exact fun h => by cases h

theorem sok_of_nonterminal {sym : Nat} {v : SVal} (hs : realTables.nTerms ≤ sym)
    (hv : C12.VI sym v) : SOK v := by
  intro t ht
  subst ht
  unfold C12.VI sortOfSymbol at hv
  have : ¬ sym < Gen.termNames.length := Nat.not_lt.2 hs
  rw [if_neg this] at hv
  generalize hσ : sortOfNT _ = σ at hv
  cases σ with
  | tok ty => exact absurd hσ (sortOfNT_ne_tok _ ty)
  | none => cases hv
  | node c => obtain ⟨_, h, _⟩ := hv; cases h
  | optNode c => rcases hv with h | ⟨_, h, _⟩ <;> cases h
  | nodes k => obtain ⟨_, h, _⟩ := hv; cases h

/-! ## the hooks -/

/-- what the proofs of the semantic actions deliver (`Act1.lean`, `Act2.lean`, `Expand.lean`) -/
def ActionsShift (pre : Str) (top : Bool) (np : NestedParse) : Prop :=
  ∀ f, ActionRel pre top np f

/-- `p_timespec` does not return -/
theorem sim_timespec (np : NestedParse) (args₁ args₂ : List SVal) :
    Sim pre top n n (actionCore np "p_timespec" args₁) (actionCore np "p_timespec" args₂)
      (fun _ _ => False) := by
  unfold actionCore; simp only []
  refine Sim.bind (sim_handleNotImplemented (α := Unit) _ _ _) (fun _ _ h => h.elim)

/-- `action` from `actionCore` -/
theorem sim_action_of_core {np : NestedParse} {f : String} {args₁ args₂ : List SVal}
    {V : SVal × Bool → SVal × Bool → Prop} (hV : ∀ a b, V a b → b.2 = a.2)
    (h : Sim pre top n n (actionCore np f args₁) (actionCore np f args₂) V) :
    Sim pre top n n (action np f args₁) (action np f args₂) V := by
  unfold action
  refine Sim.bind h (fun a b hab => ?_)
  rw [hV a b hab]
  split
  · exact Sim.foreign _ _
  · exact Sim.pure (Nat.le_refl _) hab

/-- the token source -/
theorem sim_next (np : NestedParse) :
    Sim pre top 0 0 (lrHooks np).next (lrHooks np).next
      (fun a b => b = (a.1, shiftS (kOf pre top) a.2) ∧ SOK a.2 ∧
        ∃ t₁ t₂, a.2 = .tok t₁ ∧ b.2 = .tok t₂ ∧ TokRel (kOf pre top) t₁ t₂) := by
  show Sim pre top 0 0 (nextToken >>= fun t => pure (symOfTok t, SVal.tok t))
    (nextToken >>= fun t => pure (symOfTok t, SVal.tok t)) _
  refine Sim.bind sim_nextToken (fun t₁ t₂ ht => ?_)
  refine Sim.pure (Nat.le_refl _) ⟨?_, ht.sok, t₁, t₂, rfl, rfl, ht⟩
  have : symOfTok t₂ = symOfTok t₁ := by unfold symOfTok; rw [ht.ttype]
  rw [this, ht.shiftS]

/-! ## the engine -/

/-- the part of the invariant of the first configuration that is not in `LR.Inv`: tokens on the
    stack have spans (`SOK`), and no entry stands for `timespec` -/
def Extra (c : Cfg SVal) : Prop :=
  (∀ e, e ∈ c.stack → SOK e.val ∧ e.tree.root ≠ tsSym) ∧ (∀ la, c.la = some la → SOK la.2)

/-- the invariant of the first configuration -/
def EInv (c : Cfg SVal) : Prop :=
  Inv realTables (· ∈ realRaw.reach) C12.VI c ∧ Extra c

/-- related configurations, the first one satisfying the invariant -/
def CRel (k : Nat) (c₁ c₂ : Cfg SVal) : Prop := CfgRel k c₁ c₂ ∧ EInv c₁

theorem vals_mapStk (k : Nat) (es : Stack SVal) :
    (mapStk k es).map (·.val) = (es.map (·.val)).map (shiftS k) := by
  unfold mapStk; simp [List.map_map, Function.comp_def]

theorem trees_mapStk (k : Nat) (es : Stack SVal) :
    (mapStk k es).map (·.tree) = es.map (·.tree) := by
  unfold mapStk; simp [List.map_map, Function.comp_def]

theorem sim_action_unknown {np : NestedParse} {a₁ a₂ : List SVal}
    {V : SVal × Bool → SVal × Bool → Prop} :
    Sim pre top n n (action np "" a₁) (action np "" a₂) V := by
  unfold action
  refine Sim.bind (mid := n) (V := fun _ _ => False) ?_ (fun _ _ h => h.elim)
  unfold actionCore; simp only []
  exact Sim.foreign _ _

/-- the unary logic (with any exception predicate) can be used on the first run -/
theorem Sim.and_satE {α β : Type} {m₁ : M α} {m₂ : M β} {V : α → β → Prop} {P : α → Prop}
    {E : Exn → Prop} (h : Sim pre top n n' m₁ m₂ V) (hs : M.Sat m₁ P E) :
    Sim pre top n n' m₁ m₂ (fun a b => V a b ∧ P a) :=
  Sim.and_sat h (hs.weaken (fun _ h => h) (fun _ _ => True.intro))

theorem sim_doReduce {np : NestedParse} (hact : ActionsShift pre top np)
    {E : Exn → Prop} (hH : HooksRaise realTables (lrHooks np) C12.VI E)
    (c₁ c₂ : Cfg SVal) (p : Nat) (hrel : CfgRel (kOf pre top) c₁ c₂) (hinv : EInv c₁)
    (hb : ∃ lhs rhs, realTables.prods[p]? = some (lhs, rhs) ∧
      BackOK realTables (· ∈ realRaw.reach) realRaw.accOf (topState c₁.stack) rhs.reverse lhs) :
    Sim pre top 0 0 (doReduce realTables (lrHooks np) c₁ p) (doReduce realTables (lrHooks np) c₂ p)
      (SumRel (fun a b => CfgRel (kOf pre top) a b ∧ Extra a) (ResRel (kOf pre top))) := by
  obtain ⟨⟨⟨hp, hv, _⟩, hvi, hvila⟩, hex, hexla⟩ := hinv
  obtain ⟨lhs, rhs, hprod, hback⟩ := hb
  obtain ⟨es, rest, t, hpop, hroots, hvl, hp', hv', hg, hl, hy, hmes, hmrest⟩ :=
    pop_of_back real_WF rhs.reverse c₁.stack lhs hp hv hback
  simp only [List.length_reverse] at hpop
  have hroots' : es.map (fun e => e.tree.root) = rhs := by simpa using hroots
  have hargs : Forall2 C12.VI rhs (es.map (·.val)) :=
    forall2_of_entries es rhs hroots' (fun e he => hvi e (hmes e he))
  have hpop2 : popN rhs.length c₂.stack = some (mapStk (kOf pre top) es, mapStk (kOf pre top) rest) := by
    rw [hrel.stack, popN_mapStk, hpop]; rfl
  have htop2 : topState (mapStk (kOf pre top) rest) = topState rest := topState_mapStk _ _
  unfold doReduce
  simp only [hprod, hpop, hpop2, htop2, hg, vals_mapStk, trees_mapStk]
  -- the action call
  have hcall : Sim pre top 0 0 ((lrHooks np).act p (es.map (·.val)))
      ((lrHooks np).act p ((es.map (·.val)).map (shiftS (kOf pre top))))
      (fun r₁ r₂ => (ActRes (kOf pre top) r₁ r₂ ∧ lhs ≠ tsSym) ∧ C12.VI lhs r₁.1) := by
    refine Sim.and_satE ?_ (hH.act p lhs rhs _ hprod hargs)
    show Sim pre top 0 0 (action np (Gen.prodFuncs.getD p "") _) (action np (Gen.prodFuncs.getD p "") _) _
    obtain ⟨h1, h2, h3⟩ := prod_facts hprod
    by_cases hf0 : Gen.prodFuncs.getD p "" = ""
    · rw [hf0]; exact sim_action_unknown
    · have h1 := h1.resolve_left hf0
      have h2 := h2.resolve_left hf0
      have h3 := h3.resolve_left hf0
      by_cases hts : Gen.prodFuncs.getD p "" = "p_timespec"
      · rw [hts]
        exact (sim_action_of_core (V := fun _ _ => False) (fun _ _ h => h.elim)
          (sim_timespec np _ _)).weaken (fun _ _ h => h.elim)
      · have hlhs : lhs ≠ tsSym := fun h => hts (h3.1 h)
        have hnots : tsSym ∉ rhs := by
          intro hm
          rw [← hroots'] at hm
          obtain ⟨e, he, hr⟩ := List.mem_map.1 hm
          exact (hex e (hmes e he)).2 hr
        have hsafe := h2.resolve_left hnots
        have hsorts : Forall2 HasSort (rhs.map sortOfSymbol) (es.map (·.val)) :=
          C12.forall2_map_left hargs
        have hok : ∀ a, a ∈ es.map (·.val) → SOK a := by
          intro a ha
          obtain ⟨e, he, rfl⟩ := List.mem_map.1 ha
          exact (hex e (hmes e he)).1
        refine (sim_action_of_core (V := ActRes (kOf pre top)) (fun a b h => ?_)
          (hact _ _ _ _ h1 hsafe hsorts hok)).weaken (fun _ _ h => ⟨h, hlhs⟩)
        unfold ActRes at h
        rw [h]
  refine Sim.bind hcall (fun r₁ r₂ hr => ?_)
  obtain ⟨⟨hres, hlhs⟩, hvlhs⟩ := hr
  obtain ⟨v, accept⟩ := r₁
  unfold ActRes at hres
  subst hres
  simp only []
  by_cases hacc : accept = true
  · simp only [hacc, if_true]
    exact Sim.pure (Nat.le_refl _) rfl
  · simp only [hacc]
    refine Sim.pure (Nat.le_refl _) ⟨⟨?_, hrel.la⟩, ?_, hexla⟩
    · show _ = mapStk _ _
      simp only [hrel.stack]
      rfl
    · intro e he
      rcases List.mem_cons.1 he with rfl | he
      · exact ⟨sok_of_nonterminal hl hvlhs, hlhs⟩
      · exact hex e (hmrest e he)

/-- one step of the engine in the two runs -/
theorem sim_step {np : NestedParse} (hact : ActionsShift pre top np)
    {E : Exn → Prop} (hH : HooksRaise realTables (lrHooks np) C12.VI E)
    (c₁ c₂ : Cfg SVal) (hc : CRel (kOf pre top) c₁ c₂) :
    Sim pre top 0 0 (step realTables (lrHooks np) c₁) (step realTables (lrHooks np) c₂)
      (SumRel (CRel (kOf pre top)) (ResRel (kOf pre top))) := by
  obtain ⟨hrel, hinv⟩ := hc
  -- the unary invariant of the next configuration comes from `step_sat`
  suffices core : Sim pre top 0 0 (step realTables (lrHooks np) c₁) (step realTables (lrHooks np) c₂)
      (SumRel (fun a b => CfgRel (kOf pre top) a b ∧ Extra a) (ResRel (kOf pre top))) by
    refine (Sim.and_satE core (step_sat real_WF (lrHooks np) hH c₁ hinv.1)).weaken (fun a b h => ?_)
    obtain ⟨h1, h2⟩ := h
    cases a with
    | inl a' =>
      cases b with
      | inl b' => exact ⟨h1.1, h2, h1.2⟩
      | inr b' => exact h1.elim
    | inr a' =>
      cases b with
      | inl b' => exact h1.elim
      | inr b' => exact h1
  have hinv' := hinv
  obtain ⟨⟨⟨hp, hv, _⟩, hvi, hvila⟩, hex, hexla⟩ := hinv
  have hr := reach_top real_WF hp
  have htop : topState c₂.stack = topState c₁.stack := by rw [hrel.stack, topState_mapStk]
  unfold step
  simp only [htop]
  cases hd : realTables.dflt (topState c₁.stack) with
  | some p => exact sim_doReduce hact hH c₁ c₂ p hrel hinv' (real_WF.redDflt _ p hr hd)
  | none =>
    simp only []
    -- the look-ahead
    refine Sim.bind (mid := 0) (V := fun a b => b = (a.1, shiftS (kOf pre top) a.2) ∧ SOK a.2 ∧
        (∀ t₁, a.2 = .tok t₁ → ∃ t₂, b.2 = .tok t₂ ∧ TokRel (kOf pre top) t₁ t₂) ∧
        C12.VI a.1 a.2) ?_ ?_
    · rw [hrel.la]
      cases hla : c₁.la with
      | some la =>
        refine Sim.pure (Nat.le_refl _) ⟨rfl, hexla la hla, ?_, hvila la hla⟩
        intro t₁ ht
        have hs := hexla la hla
        refine ⟨shiftTok (kOf pre top) t₁, by simp only [ht]; rfl, rfl, rfl, rfl, rfl, ?_⟩
        exact hs t₁ ht
      | none =>
        refine (Sim.and_satE (sim_next np) hH.next).weaken (fun a b h => ⟨h.1.1, h.1.2.1, ?_, h.2⟩)
        obtain ⟨⟨_, _, t₁, t₂, h1, h2, h3⟩, _⟩ := h
        intro t ht
        rw [h1] at ht
        cases ht
        exact ⟨t₂, h2, h3⟩
    rintro ⟨la, lv⟩ ⟨la', lv'⟩ ⟨hb, hsok, htok, hvla⟩
    simp only [Prod.mk.injEq] at hb
    obtain ⟨rfl, rfl⟩ := hb
    simp only []
    have hall : (c₂.stack.all fun e => (lrHooks np).isNl e.val) =
        (c₁.stack.all fun e => (lrHooks np).isNl e.val) := by
      rw [hrel.stack]; exact all_isNl_mapStk np _ _
    rw [hall]
    refine Sim.ite (fun _ => Sim.pure (Nat.le_refl _) True.intro) (fun _ => ?_)
    -- the configuration with the look-ahead stored
    have hrelLa : CfgRel (kOf pre top) { c₁ with la := some (la', lv) }
        { c₂ with la := some (la', shiftS (kOf pre top) lv) } := ⟨hrel.stack, rfl⟩
    have hinvLa : EInv { c₁ with la := some (la', lv) } := by
      refine ⟨⟨⟨hp, hv, ?_⟩, hvi, ?_⟩, hex, ?_⟩
      · obtain ⟨⟨_, _, h⟩, _⟩ := hinv'.1
        exact h
      · intro la'' h; simp only [Option.some.injEq] at h; subst h; exact hvla
      · intro la'' h; simp only [Option.some.injEq] at h; subst h; exact hsok
    cases hact' : realTables.action (topState c₁.stack) la' with
    | none =>
      simp only []
      refine Sim.bind (mid := 0) (V := fun _ _ => False) ?_ (fun _ _ h => h.elim)
      show Sim pre top 0 0 ((lrHooks np).onError (la', lv))
        ((lrHooks np).onError (la', shiftS (kOf pre top) lv)) _
      cases lv with
      | tok t₁ =>
        obtain ⟨t₂, h2, h3⟩ := htok t₁ rfl
        simp only [shiftS_tok] at h2
        cases h2
        exact sim_pError h3
      | none => exact Sim.foreign _ _
      | node nd => exact Sim.foreign _ _
      | nodes l => exact Sim.foreign _ _
    | some a =>
      cases a with
      | shift t =>
        have hlaT := real_WF.shiftTerm _ _ _ hact'
        simp only []
        refine Sim.ite (fun _ => ?_) (fun _ => ?_)
        · refine Sim.pure (Nat.le_refl _) ⟨⟨hrel.stack, rfl⟩, hex, ?_⟩
          intro la'' h; cases h
        · refine Sim.pure (Nat.le_refl _) ⟨⟨?_, rfl⟩, ?_, ?_⟩
          · show _ = mapStk _ _
            simp only [hrel.stack]; rfl
          · intro e he
            rcases List.mem_cons.1 he with rfl | he
            · exact ⟨hsok, fun h => absurd (h ▸ hlaT : tsSym < realTables.nTerms)
                (Nat.not_lt.2 tsSym_nonterminal)⟩
            · exact hex e he
          · intro la'' h; cases h
      | reduce p =>
        simp only []
        exact sim_doReduce hact hH _ _ p hrelLa hinvLa (real_WF.redAct _ _ p hr hact')
      | accept =>
        simp only []
        rw [hrel.stack]
        cases hstk : c₁.stack with
        | nil => exact Sim.pure (Nat.le_refl _) True.intro
        | cons e tail => exact Sim.pure (Nat.le_refl _) rfl

/-- `LRParser.parse` in the two runs -/
theorem sim_lrRun {np : NestedParse} (hact : ActionsShift pre top np)
    {E : Exn → Prop} (hH : HooksRaise realTables (lrHooks np) C12.VI E) (fuel : Nat)
    (c₁ c₂ : Cfg SVal) (hc : CRel (kOf pre top) c₁ c₂) :
    Sim pre top 0 0 (M.loop "LRParser.parse" (step realTables (lrHooks np)) fuel c₁)
      (M.loop "LRParser.parse" (step realTables (lrHooks np)) fuel c₂) (ResRel (kOf pre top)) :=
  Sim.loop (fun s t hst => sim_step hact hH s t hst) fuel c₁ c₂ hc

/-- the initial configuration -/
theorem cRel_init (k : Nat) : CRel k ({} : Cfg SVal) {} := by
  refine ⟨⟨rfl, rfl⟩, ⟨⟨True.intro, True.intro, ⟨[], by simp [forestYield], by simp⟩⟩, ?_, ?_⟩, ?_, ?_⟩
  · intro e he; cases he
  · intro la hla; cases hla
  · intro e he; cases he
  · intro la hla; cases hla

/-! ## `resolve` -/

mutual
theorem resolve_mapPos (k : Nat) (st : List RedirCell) : ∀ nd : Node,
    resolve (st.map (cellShift k)) (Node.mapPos (sh k) nd) = Node.mapPos (sh k) (resolve st nd)
  | .operator .. | .reservedword .. | .pipe .. | .parameter .. | .tilde .. | .heredoc ..
  | .word .. | .assignment .. | .commandsubstitution .. | .processsubstitution .. => by
    simp only [resolve, Node.mapPos]
  | .list _ ps | .pipeline _ ps | .ifN _ ps | .forN _ ps | .whileN _ ps | .untilN _ ps
  | .caseN _ ps | .pattern _ ps | .command _ ps | .unimplemented _ ps | .function _ _ _ ps => by
    simp only [resolve, Node.mapPos, resolveL_mapPos k st ps]
  | .compound _ l r => by
    simp only [resolve, Node.mapPos, resolveL_mapPos k st l, resolveL_mapPos k st r]
  | .redirect p i t o oa h hid => by
    cases hid with
    | none => simp only [resolve, Node.mapPos]
    | some id =>
      simp only [Node.mapPos, resolve, List.getElem?_map]
      cases st[id]? with
      | none => simp only [Option.map_none, Node.mapPos]
      | some c =>
        simp only [Option.map_some, Node.mapPos, cellShift]
        cases c.heredoc <;> simp [Node.mapPosO, Node.mapPos]
theorem resolveL_mapPos (k : Nat) (st : List RedirCell) : ∀ l : List Node,
    resolveL (st.map (cellShift k)) (Node.mapPosL (sh k) l) = Node.mapPosL (sh k) (resolveL st l)
  | [] => rfl
  | nd :: ns => by
    simp only [Node.mapPosL, resolveL, resolve_mapPos k st nd, resolveL_mapPos k st ns]
end

theorem resolve_shift (k : Nat) (st : List RedirCell) (nd : Node) :
    resolve (st.map (cellShift k)) (nd.shift k) = (resolve st nd).shift k :=
  resolve_mapPos k st nd

/-! ## nested parsers and `_parser.parse()` -/

/-- the state of a fresh nested `_parser` object -/
def nestedState (outer : Local) (string : Str) (dolparen : Bool) : Local :=
  { tape := some (Tape.ofInput string), opts := some (true, false)
    lastReadToken := outer.lastReadToken, tokenBeforeThat := outer.tokenBeforeThat
    twoTokensAgo := outer.twoTokensAgo
    ps := if dolparen then { outer.ps with cmdsubst := true, eoftoken := true } else outer.ps
    eofToken := if dolparen then some rparenEofToken else none
    limit := outer.limit.map (· - 1) }

/-- the nested parser handed to the actions at nesting depth `depth + 1` -/
def npOf (depth : Nat) : NestedParse := fun string dolparen => do
  let outer ← get
  set (nestedState outer string dolparen)
  let r ← parserRun depth
  let inner ← get
  set { outer with ps := inner.ps }
  pure r

theorem parserRun_succ (depth : Nat) : parserRun (depth + 1) = (do
    let res ← LR.run LR.realTables (lrHooks (npOf depth)) 1073741824
    let store := (← get).store
    match res with
    | .accepted (.node n) _ _ _ => pure (some (resolve store n))
    | _ => pure none) := rfl

theorem run_npOf (depth : Nat) (s : Str) (d : Bool) (l : Local) (e : Env) :
    M.run (npOf depth s d) l e =
      match M.run (parserRun depth) (nestedState l s d) e with
      | (.ok (r, inner), e') => (.ok (r, { l with ps := inner.ps }), e')
      | (.error x, e') => (.error x, e') := by
  unfold npOf
  simp only [M.run_bind, run_get, run_set]
  rcases M.run (parserRun depth) (nestedState l s d) e with ⟨r, e'⟩
  cases r with
  | error x => rfl
  | ok v => obtain ⟨a, inner⟩ := v; simp only [M.run_bind, run_get, run_set, M.run_pure]

theorem rel_nested {l₁ l₂ : Local} {e₁ e₂ : Env} (hr : Rel pre top 0 l₁ e₁ l₂ e₂) (s : Str)
    (d : Bool) : Rel pre false 0 (nestedState l₁ s d) e₁ (nestedState l₂ s d) e₂ :=
  { env := hr.env
    loc :=
      { tape := rfl, opts := rfl, eol := rfl, before := hr.loc.before, last := hr.loc.last
        cur := HEq.refl _
        curFlags := rfl
        ps := by simp only [nestedState, hr.loc.ps]
        obc := rfl, esacs := rfl, dstack := rfl, positions := rfl, eofToken := rfl
        eofOK := by cases d <;> simp [nestedState]
        redirstack := rfl, store := rfl
        limit := by simp only [nestedState, hr.loc.limit] }
    mode := rfl
    room := fun h => by cases h
    eolOK := fun h => by cases h
    proc := rfl }

theorem run_proceed_frame {α : Type} (m : M α) (l : Local) (e : Env) :
    (M.run m l e).2.proceed = e.proceed := (Q.run_frame (m l) e).2.1

/-- a nested parser returns the same node in both runs, and the outer parsers stay related -/
theorem npRel_npOf (depth : Nat)
    (ih : Sim pre false 0 0 (parserRun depth) (parserRun depth) Eq) :
    NPRel pre top (npOf depth) := by
  intro s d l₁ l₂ e₁ e₂ hr
  rw [run_npOf, run_npOf]
  have h := ih _ _ e₁ e₂ (rel_nested hr s d)
  have hpe := run_pastEnd (parserRun depth) (nestedState l₁ s d) e₁
  have hpf := run_proceed_frame (parserRun depth) (nestedState l₁ s d) e₁
  rcases h1 : M.run (parserRun depth) (nestedState l₁ s d) e₁ with ⟨r₁, e₁'⟩
  rcases h2 : M.run (parserRun depth) (nestedState l₂ s d) e₂ with ⟨r₂, e₂'⟩
  rw [h1, h2] at h
  rw [h1] at hpe hpf
  cases r₁ with
  | error x₁ =>
    cases r₂ with
    | error x₂ => exact h
    | ok v₂ => exact h.elim
  | ok v₁ =>
    obtain ⟨a₁, in₁⟩ := v₁
    cases r₂ with
    | error x₂ => exact h.elim
    | ok v₂ =>
      obtain ⟨a₂, in₂⟩ := v₂
      obtain ⟨hv, hrel⟩ := h
      refine ⟨hv, ?_⟩
      exact
        { env := hrel.env
          loc := { hr.loc with ps := hrel.loc.ps }
          mode := hr.mode
          room := fun _ => Room.zero _
          eolOK := fun ht hs => hpe (hr.eolOK ht hs)
          proc := by
            have := hr.proc
            unfold proceedOf at this ⊢
            simp only [] at hpf
            cases ho : l₁.opts with
            | none => rw [ho] at this; simp only [ho]; rw [hpf]; exact this
            | some v => rw [ho] at this; simp only [ho]; exact this }

/-- what the proofs about the actions deliver, for every nested parser that behaves (`NPRel`) -/
def ActionsHyp : Prop :=
  ∀ (pre : Str) (top : Bool) (np : NestedParse), NPRel pre top np → ActionsShift pre top np

theorem npOK_npOf (depth : Nat) : NPOK (npOf depth) := by
  intro s b
  unfold npOf
  refine M.Sat.bind_any (fun _ => M.Sat.bind_any (fun _ =>
    M.Sat.bind (parserRun_ok sat_nextToken depth) (fun r hr => ?_)))
  exact M.Sat.bind_any (fun _ => M.Sat.bind_any (fun _ => M.Sat.pure hr))

/-- **one parser run under the translation**, at every nesting depth and in both modes: the
    second run returns the node of the first run moved by the shift in force -/
theorem sim_parserRun (hA : ActionsHyp) : ∀ (depth : Nat) (top : Bool),
    Sim pre top 0 0 (parserRun depth) (parserRun depth)
      (fun a b => b = a.map (Node.shift (kOf pre top))) := by
  intro depth
  induction depth with
  | zero => intro top; exact Sim.raise_eq _
  | succ depth ih =>
    intro top
    have ih0 : Sim pre false 0 0 (parserRun depth) (parserRun depth) Eq := by
      refine (ih false).weaken (fun a b h => ?_)
      rw [h]
      cases a with
      | none => rfl
      | some nd => simp only [Option.map_some, kOf_false, Node.shift_zero]
    have hnp : NPRel pre top (npOf depth) := npRel_npOf depth ih0
    have hact := hA pre top _ hnp
    have hH := (hooks_ok sat_nextToken (npOK_npOf depth)).toRaise
    rw [parserRun_succ]
    refine Sim.bind (sim_lrRun hact hH _ {} {} (cRel_init _)) (fun res₁ res₂ hres => ?_)
    refine Sim.get_bind (fun l₁ l₂ hl => ?_)
    cases res₁ with
    | blank a b =>
      cases res₂ with
      | blank a' b' => exact SimAt.pure (Nat.le_refl _) rfl
      | accepted v t c f => exact hres.elim
    | accepted v₁ t₁ c₁ f₁ =>
      cases res₂ with
      | blank a' b' => exact hres.elim
      | accepted v₂ t₂ c₂ f₂ =>
        have : v₂ = shiftS (kOf pre top) v₁ := hres
        subst this
        cases v₁ with
        | node nd =>
          refine SimAt.pure (Nat.le_refl _) ?_
          simp only [shiftS_node, Option.map_some, hl.store, resolve_shift]
        | none => exact SimAt.pure (Nat.le_refl _) rfl
        | tok t => exact SimAt.pure (Nat.le_refl _) rfl
        | nodes l => exact SimAt.pure (Nat.le_refl _) rfl

end Bashlex.C14
