/-
  C14 interior, part 6: PHASE 2 of the tokenizer side by the "double simulation".

  `C14.Sim pre …` does not care what `pre` contains.  Let run A be a tokenizer program on the tape
  `Y` (cursor `j`), run B the same program on `X ++ Y` (cursor `j + |X|`), run C on
  `(X ++ ins) ++ Y` (cursor `j + |X| + |ins|`), B and C started in states that are both images of
  the state of A.  The existing relational walk of the whole tokenizer (`sim_nextToken`,
  `sim_gatherheredocuments`), applied with `pre := X` and with `pre := X ++ ins`, relates A to B
  and A to C; A is one deterministic run, so (`sim_double`): if B returns, C returns, and the
  final states are again both images of the final state of A — the invariant `J2` is preserved.
  Consequence for tokens (`tok_double_map`): the token of C is the token of B under the rigid
  span map `spanMapR |X| |ins|` (every position `≥ |X|` moves), which agrees with `spanMap` on
  every span whose end is not exactly `|X|` (`spanMapR_eq`).

  Everything here is proved without hypotheses.  NOT done: feeding `J2` into
  `C14_interior_from_conditional` (its logic, C16's `Rel`, has separate relations for parser
  objects and environments, while `C14.Rel` ties `_eol_ungetc_lookahead` to the cursor; here-
  document cells created from tokens in front of the gap cannot be images of cells of A), and
  phase 1.
-/
import Bashlex.Props.C14.IBridge

namespace Bashlex.C14I
open Bashlex Bashlex.LR Bashlex.C14
set_option linter.unusedSimpArgs false
set_option linter.unusedVariables false

/-! ## the rigid span map -/

/-- every position `≥ x` moves by `k` (starts and ends alike) -/
def spanMapR (x k : Nat) (p : Span) : Span :=
  (if p.1 < x then p.1 else p.1 + k, if p.2 < x then p.2 else p.2 + k)

/-- it is `spanMap` except on spans that end exactly at `x` -/
theorem spanMapR_eq {x k : Nat} {p : Span} (h : p.2 ≠ x) : spanMapR x k p = spanMap x k p := by
  obtain ⟨a, b⟩ := p
  have h' : b ≠ x := h
  show (if a < x then a else a + k, if b < x then b else b + k) =
    (if a < x then a else a + k, if b ≤ x then b else b + k)
  congr 1
  by_cases h1 : b < x
  · rw [if_pos h1, if_pos (Nat.le_of_lt h1)]
  · have h2 : ¬ b ≤ x := by omega
    rw [if_neg h1, if_neg h2]

/-- a span moved by `x` is moved rigidly -/
theorem spanMapR_sh (x k : Nat) (p : Span) : spanMapR x k (sh x p) = sh (x + k) p := by
  obtain ⟨a, b⟩ := p
  show (if a + x < x then a + x else a + x + k, if b + x < x then b + x else b + x + k) =
    (a + (x + k), b + (x + k))
  have h1 : ¬ a + x < x := by omega
  have h2 : ¬ b + x < x := by omega
  rw [if_neg h1, if_neg h2, Nat.add_assoc, Nat.add_assoc]

/-! ## the double simulation -/

/-- **B and C are both images of A** -/
def J2 (X ins : Str) (l_B : Local) (e_B : Env) (l_C : Local) (e_C : Env) : Prop :=
  ∃ l_A e_A, C14.Rel X true 0 l_A e_A l_B e_B ∧ C14.Rel (X ++ ins) true 0 l_A e_A l_C e_C

/-- **double simulation**: a program that is simulated under every prefix, run on `X ++ Y` and
    on `X ++ ins ++ Y` from images of one state: if the first run returns, so does the second,
    with results that are both images (`V`) of one result, and `J2` holds again -/
theorem sim_double {α : Type} {m : M α} {V : Nat → α → α → Prop}
    (hm : ∀ pre : Str, Sim pre true 0 0 m m (V pre.length)) (X ins : Str)
    {l_B l_C : Local} {e_B e_C : Env} (hJ : J2 X ins l_B e_B l_C e_C)
    {a_B : α} {l_B' : Local} {e_B' : Env} (hr : M.run m l_B e_B = (.ok (a_B, l_B'), e_B')) :
    ∃ a_A a_C l_C' e_C', M.run m l_C e_C = (.ok (a_C, l_C'), e_C') ∧
      V X.length a_A a_B ∧ V (X ++ ins).length a_A a_C ∧ J2 X ins l_B' e_B' l_C' e_C' := by
  obtain ⟨l_A, e_A, hB, hC⟩ := hJ
  have h1 := hm X l_A l_B e_A e_B hB
  have h2 := hm (X ++ ins) l_A l_C e_A e_C hC
  rw [hr] at h1
  rcases hA : M.run m l_A e_A with ⟨rA, e_A'⟩
  rw [hA] at h1 h2
  cases rA with
  | error x => exact h1.elim
  | ok vA =>
    obtain ⟨a_A, l_A'⟩ := vA
    rcases hCr : M.run m l_C e_C with ⟨rC, e_C'⟩
    rw [hCr] at h2
    cases rC with
    | error y => exact h2.elim
    | ok vC =>
      obtain ⟨a_C, l_C'⟩ := vC
      exact ⟨a_A, a_C, l_C', e_C', rfl, h1.1, h2.1, ⟨l_A', e_A', h1.2, h2.2⟩⟩

/-- **`token()` in phase 2** -/
theorem tok_double (X ins : Str) {l_B l_C : Local} {e_B e_C : Env}
    (hJ : J2 X ins l_B e_B l_C e_C) {t_B : Token} {l_B' : Local} {e_B' : Env}
    (hr : M.run nextToken l_B e_B = (.ok (t_B, l_B'), e_B')) :
    ∃ t_A t_C l_C' e_C', M.run nextToken l_C e_C = (.ok (t_C, l_C'), e_C') ∧
      TokRel X.length t_A t_B ∧ TokRel (X ++ ins).length t_A t_C ∧
      J2 X ins l_B' e_B' l_C' e_C' :=
  sim_double (V := fun k => TokRel k) (fun pre => sim_nextToken (pre := pre) (top := true)) X ins hJ hr

/-- **`gatherheredocuments` in phase 2** -/
theorem gather_double (X ins : Str) {l_B l_C : Local} {e_B e_C : Env}
    (hJ : J2 X ins l_B e_B l_C e_C) {u : Unit} {l_B' : Local} {e_B' : Env}
    (hr : M.run gatherheredocuments l_B e_B = (.ok (u, l_B'), e_B')) :
    ∃ l_C' e_C', M.run gatherheredocuments l_C e_C = (.ok ((), l_C'), e_C') ∧
      J2 X ins l_B' e_B' l_C' e_C' := by
  obtain ⟨_, a_C, l_C', e_C', h, _, _, hJ'⟩ :=
    sim_double (V := fun _ _ _ => True)
      (fun pre => sim_gatherheredocuments (pre := pre) (top := true) (Nat.zero_le _)) X ins hJ hr
  exact ⟨l_C', e_C', h, hJ'⟩

/-- the token of C is the token of B under the rigid span map -/
theorem tokRel_map {x k : Nat} {t_A t_B t_C : Token} (hB : TokRel x t_A t_B)
    (hC : TokRel (x + k) t_A t_C) : t_C = mapTok (spanMapR x k) t_B := by
  cases t_A with
  | mk ty v p fl =>
  cases t_B with
  | mk ty₂ v₂ p₂ fl₂ =>
  cases t_C with
  | mk ty₃ v₃ p₃ fl₃ =>
  have h1 := hB.ttype; have h2 := hB.value; have h3 := hB.flags; have h4 := hB.pos
  have g1 := hC.ttype; have g2 := hC.value; have g3 := hC.flags; have g4 := hC.pos
  simp only at h1 h2 h3 h4 g1 g2 g3 g4
  subst h1 h2 h3 h4 g1 g2 g3 g4
  simp only [mapTok]
  cases p with
  | none => rfl
  | some q => simp only [Option.map_some, spanMapR_sh]

/-- **`token()` in phase 2, in terms of the span map** -/
theorem tok_double_map (X ins : Str) {l_B l_C : Local} {e_B e_C : Env}
    (hJ : J2 X ins l_B e_B l_C e_C) {t_B : Token} {l_B' : Local} {e_B' : Env}
    (hr : M.run nextToken l_B e_B = (.ok (t_B, l_B'), e_B')) :
    ∃ l_C' e_C', M.run nextToken l_C e_C =
        (.ok (mapTok (spanMapR X.length ins.length) t_B, l_C'), e_C') ∧
      (∀ p, t_B.pos = some p → X.length ≤ p.1 ∧ X.length ≤ p.2) ∧
      J2 X ins l_B' e_B' l_C' e_C' := by
  obtain ⟨t_A, t_C, l_C', e_C', h, hB, hC, hJ'⟩ := tok_double X ins hJ hr
  rw [List.length_append] at hC
  refine ⟨l_C', e_C', by rw [h, tokRel_map hB hC], ?_, hJ'⟩
  intro p hp
  have := hB.pos
  rw [hp] at this
  cases hq : t_A.pos with
  | none => rw [hq] at this; cases this
  | some q =>
    rw [hq] at this
    simp only [Option.map_some, Option.some.injEq] at this
    rw [this]
    exact ⟨Nat.le_add_left _ _, Nat.le_add_left _ _⟩

end Bashlex.C14I
