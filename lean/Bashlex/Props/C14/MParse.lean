/-
  C14More, part 3: `parse`-level theorems — a layout prefix and a layout suffix.
-/
import Bashlex.Props.C14.MEnd

namespace Bashlex.C14
open Bashlex Bashlex.C10 Bashlex.C12 Bashlex.LR Bashlex.C13
set_option linter.unusedSimpArgs false
set_option linter.unusedVariables false

/-! ## `parse` from its first run -/

theorem parse_of_run_error {s : Str} {o : Opts} {x : Exn} (h : (runParser s o []).1 = .error x) :
    (parse s o).1 = .exn x := by
  unfold parse
  rcases hr : runParser s o [] with ⟨r, t⟩
  rw [hr] at h
  simp only at h
  subst h
  rfl

theorem parse_of_run_none {s : Str} {o : Opts} (h : (runParser s o []).1 = .ok none) :
    (parse s o).1 = .parts [] := by
  unfold parse
  rcases hr : runParser s o [] with ⟨r, t⟩
  rw [hr] at h
  simp only at h
  subst h
  rfl

/-- `parse` returns parts or raises -/
theorem parse_cases (s : Str) (o : Opts) :
    (∃ ps, (parse s o).1 = .parts ps) ∨ ∃ x, (parse s o).1 = .exn x := by
  unfold parse
  rcases runParser s o [] with ⟨r, t⟩
  cases r with
  | error x => exact .inr ⟨x, rfl⟩
  | ok v =>
    cases v with
    | none => exact .inl ⟨[], rfl⟩
    | some first =>
      simp only []
      rcases parseLoop s o (s.length + 1) (max (nextIndex first) 1) [first] t with ⟨r2, t2⟩
      cases r2 with
      | error x => exact .inr ⟨x, rfl⟩
      | ok ps => exact .inl ⟨ps, rfl⟩

/-- **`parse` on layout only returns no part** -/
theorem parse_layout_only (s : Str) (o : Opts) (hs : Layout s)
    (hfuel : ∀ site, (runParser s o []).1 ≠ .error (.outOfFuel site)) :
    (parse s o).1 = .parts [] :=
  parse_of_run_none (runParser_layout_only s o [] hs hfuel)

set_option maxRecDepth 100000 in
theorem runParser_nl (o : Opts) (t : List Char) : (runParser ['\n'] o t).1 = .ok none := by
  rfl

/-- the inputs whose tape is shorter than 2 -/
theorem short_tape {B : Str} (h : ¬ 2 ≤ (Tape.ofInput B).line.length) : B = [] ∨ B = ['\n'] := by
  cases B with
  | nil => exact .inl rfl
  | cons c r =>
    cases r with
    | nil =>
      by_cases hc : c = '\n'
      · exact .inr (by rw [hc])
      · exfalso; apply h
        rw [ofInput_line_of_ne (s := [c]) (c := c) rfl hc]
        exact Nat.le_refl _
    | cons d r =>
      exfalso; apply h
      rcases ofInput_line (c :: d :: r) with e | e <;> rw [e] <;>
        simp only [List.length_cons, List.length_append] <;> omega

/-! ## one run, no restriction on `B` -/

/-- **C14, one parser run, layout prefix, every `B`**: `runParser_layout` without the artefact
    `B ∉ {"", "⏎"}` (for these two inputs both runs are runs on layout) -/
theorem runParser_layout_all (pre B : Str) (o : Opts) (t : List Char) (hpre : Layout pre)
    (hproc : o.proceed = false)
    (hfuel : ∀ site, (runParser (pre ++ B) o t).1 ≠ .error (.outOfFuel site)) :
    RunRel pre (runParser B o t).1 (runParser (pre ++ B) o t).1 := by
  by_cases hB : 2 ≤ (Tape.ofInput B).line.length
  · exact runParser_layout pre B o t hpre hB hproc hfuel
  · have hlB : Layout B := by
      rcases short_tape hB with rfl | rfl
      · exact .nil
      · exact .blank (.inr (.inr rfl)) .nil
    have h1 : (runParser B o t).1 = .ok none := by
      rcases short_tape hB with rfl | rfl
      · rw [runParser_nil]
      · exact runParser_nl o t
    rw [h1, runParser_layout_only (pre ++ B) o t (hpre.append hlB) hfuel]
    rfl

/-- the outcomes of `parsesingle B` and `parsesingle (pre ++ B)` -/
def SingleRel (pre : Str) : Outcome → Outcome → Prop
  | .single a, .single b => b = a.map (Node.shift pre.length)
  | .exn x, .exn y => ExnRel pre x y
  | _, _ => False

/-- **C14 for `parsesingle`, layout prefix** (no side condition besides `proceedonerror` off and
    fuel) -/
theorem parsesingle_layout_prefix (pre B : Str) (o : Opts) (hpre : Layout pre)
    (hproc : o.proceed = false)
    (hfuel : ∀ site, (runParser (pre ++ B) o []).1 ≠ .error (.outOfFuel site)) :
    SingleRel pre (parsesingle B o).1 (parsesingle (pre ++ B) o).1 := by
  have h := runParser_layout_all pre B o [] hpre hproc hfuel
  unfold parsesingle
  rcases h1 : runParser B o [] with ⟨r1, t1⟩
  rcases h2 : runParser (pre ++ B) o [] with ⟨r2, t2⟩
  rw [h1, h2] at h
  cases r1 <;> cases r2 <;> exact h

/-! ## a layout prefix -/

/-- the outcomes of `parse B` and `parse (pre ++ B)` -/
def ParseRel (pre : Str) : Outcome → Outcome → Prop
  | .parts a, .parts b => b = a.map (Node.shift pre.length)
  | .exn x, .exn y => ExnRel pre x y
  | _, _ => False

/-- the first run behind a layout prefix, when the run on `B` returns normally (`C13.BlankSkip`) -/
theorem layoutSkip (pre B : Str) (o : Opts) (hpre : Layout pre) (hproc : o.proceed = false)
    (hfuel : ∀ site, (runParser (pre ++ B) o []).1 ≠ .error (.outOfFuel site))
    (r : Option Node) (hr : (runParser B o []).1 = .ok r)
    (hpos : pre = [] ∨ ∀ part, (runParser B o []).1 = .ok (some part) → 0 < nextIndex part) :
    BlankSkip pre B o := by
  refine ⟨?_, hpos⟩
  by_cases hB : 2 ≤ (Tape.ofInput B).line.length
  · have h := runParser_layout pre B o [] hpre hB hproc hfuel
    rw [hr] at h ⊢
    cases h2 : (runParser (pre ++ B) o []).1 with
    | error x => rw [h2] at h; exact h.elim
    | ok b =>
      rw [h2] at h
      have : b = r.map (Node.shift pre.length) := h
      rw [this]; rfl
  · -- `B` is `""` or `"⏎"`: both inputs are layout
    have hlB : Layout B := by
      rcases short_tape hB with rfl | rfl
      · exact .nil
      · exact .blank (.inr (.inr rfl)) .nil
    have h1 : (runParser B o []).1 = .ok none := by
      rcases short_tape hB with rfl | rfl
      · rw [runParser_nil]
      · exact runParser_nl o []
    rw [h1, runParser_layout_only (pre ++ B) o [] (hpre.append hlB) hfuel]
    rfl

/-- **C14 at `parse` level, layout prefix.**  `pre` is layout (blanks, tabs, newlines, comment
    lines), `proceedonerror` is off, the first run on `pre ++ B` does not run out of fuel, and the
    first part of `B` does not end at 0.  Then `parse (pre ++ B)` is `parse B` with every span of
    every part moved by `|pre|`; if `parse B` raises, `parse (pre ++ B)` raises the same exception,
    except that a `ParsingError` of the FIRST top-level run carries `pre ++ src` and `p + |pre|`
    (the error of a later part is unchanged: D15). -/
theorem parse_layout_prefix (pre B : Str) (o : Opts) (hpre : Layout pre)
    (hproc : o.proceed = false)
    (hfuel : ∀ site, (runParser (pre ++ B) o []).1 ≠ .error (.outOfFuel site))
    (hpos : pre = [] ∨ ∀ part, (runParser B o []).1 = .ok (some part) → 0 < nextIndex part) :
    ParseRel pre (parse B o).1 (parse (pre ++ B) o).1 := by
  by_cases hB : 2 ≤ (Tape.ofInput B).line.length
  · cases hr : (runParser B o []).1 with
    | error x =>
      have h := runParser_layout pre B o [] hpre hB hproc hfuel
      rw [hr] at h
      cases h2 : (runParser (pre ++ B) o []).1 with
      | ok b => rw [h2] at h; exact h.elim
      | error y =>
        rw [h2] at h
        rw [parse_of_run_error hr, parse_of_run_error h2]
        exact h
    | ok r =>
      have hs := layoutSkip pre B o hpre hproc hfuel r hr hpos
      rw [parse_blankSkip hs]
      rcases parse_cases B o with ⟨ps, h⟩ | ⟨x, h⟩ <;> rw [h]
      · show [] ++ ps.map (Node.shift pre.length) = ps.map (Node.shift pre.length)
        rfl
      · exact ExnRel.rfl' x
  · -- `B` is `""` or `"⏎"`: both inputs are layout
    have hlB : Layout B := by
      rcases short_tape hB with rfl | rfl
      · exact .nil
      · exact .blank (.inr (.inr rfl)) .nil
    have h1 : (parse B o).1 = .parts [] := by
      rcases short_tape hB with rfl | rfl
      · rw [parse_nil_input]
      · exact parse_of_run_none (runParser_nl o [])
    rw [h1, parse_layout_only (pre ++ B) o (hpre.append hlB) hfuel]
    rfl

/-- … `parse B` returns parts: `parse (pre ++ B)` returns them moved by `|pre|` -/
theorem parse_layout_prefix_parts (pre B : Str) (o : Opts) (ps : List Node) (hpre : Layout pre)
    (hproc : o.proceed = false)
    (hfuel : ∀ site, (runParser (pre ++ B) o []).1 ≠ .error (.outOfFuel site))
    (hpos : pre = [] ∨ ∀ part, (runParser B o []).1 = .ok (some part) → 0 < nextIndex part)
    (hB : (parse B o).1 = .parts ps) :
    (parse (pre ++ B) o).1 = .parts (ps.map (Node.shift pre.length)) := by
  have h := parse_layout_prefix pre B o hpre hproc hfuel hpos
  rw [hB] at h
  cases h2 : (parse (pre ++ B) o).1 with
  | parts b => rw [h2] at h; have : b = ps.map (Node.shift pre.length) := h; rw [this]
  | exn y => rw [h2] at h; exact h.elim
  | single n => rw [h2] at h; exact h.elim
  | strs l => rw [h2] at h; exact h.elim

/-- … `parse B` raises: `parse (pre ++ B)` raises the related exception -/
theorem parse_layout_prefix_exn (pre B : Str) (o : Opts) (x : Exn) (hpre : Layout pre)
    (hproc : o.proceed = false)
    (hfuel : ∀ site, (runParser (pre ++ B) o []).1 ≠ .error (.outOfFuel site))
    (hpos : pre = [] ∨ ∀ part, (runParser B o []).1 = .ok (some part) → 0 < nextIndex part)
    (hB : (parse B o).1 = .exn x) :
    ∃ y, (parse (pre ++ B) o).1 = .exn y ∧ ExnRel pre x y := by
  have h := parse_layout_prefix pre B o hpre hproc hfuel hpos
  rw [hB] at h
  cases h2 : (parse (pre ++ B) o).1 with
  | parts b => rw [h2] at h; exact h.elim
  | exn y => rw [h2] at h; exact ⟨y, rfl, h⟩
  | single n => rw [h2] at h; exact h.elim
  | strs l => rw [h2] at h; exact h.elim

/-! ## a layout suffix -/

/-- **C14 at `parse` level, trailing layout.**  `B` ends in a newline or `post` starts with one;
    `parse B` returns `ps`, all its node-returning runs are local (none was told "end of input":
    `C13.parseLocal`, implied by `runNoEOF`), its loop stopped inside `B`, and what it left
    unparsed is layout (decidable; it is a newline when `B` ends in one).  Then for every layout
    `post` — blank lines, comment lines, trailing blanks — `parse (B ++ post)` returns the same
    parts with the same spans. -/
theorem parse_layout_suffix (B post : Str) (o : Opts) (ps : List Node) (hj : Joinable B post)
    (hB : (parse B o).1 = .parts ps) (hloc : parseLocal B o = true)
    (hstop : parseStop B o ≤ B.length) (hrest : Layout (B.drop (parseStop B o)))
    (hpost : Layout post)
    (hfuel : ∀ site, (runParser (B.drop (parseStop B o) ++ post) o []).1 ≠
      .error (.outOfFuel site)) :
    (parse (B ++ post) o).1 = .parts ps := by
  rw [C13_independence B post o ps hj hB hloc, List.drop_append_of_le_length hstop,
    parse_layout_only _ o (hrest.append hpost) hfuel]
  show Outcome.parts (ps ++ [].map (Node.shift _)) = _
  rw [List.map_nil, List.append_nil]

/-! ## layout between two top-level commands -/

/-- a run that raised nothing returned normally -/
theorem run_ok_of_parts {B : Str} {o : Opts} {psB : List Node} (hB : (parse B o).1 = .parts psB) :
    ∃ r, (runParser B o []).1 = .ok r := by
  cases hr : (runParser B o []).1 with
  | error x => rw [parse_of_run_error hr] at hB; cases hB
  | ok r => exact ⟨r, rfl⟩

/-- **C13 with a layout separator** (blank lines, comment lines, trailing blanks and
    continuations between two top-level commands): `C13_partial_blank` with comments allowed.
    `parse A = psA` with local runs, its loop stopped inside `A ++ sep`, what is left of
    `A ++ sep` there is layout, `parse B = psB`, `proceedonerror` is off.  Then
    `parse (A ++ sep ++ B) = parse A ++ shift (len A + len sep) (parse B)`. -/
theorem C13_partial_layout (A sep B : Str) (o : Opts) (psA psB : List Node)
    (hj : Joinable A (sep ++ B))
    (hA : (parse A o).1 = .parts psA) (hB : (parse B o).1 = .parts psB)
    (hloc : parseLocal A o = true)
    (hstop : parseStop A o ≤ (A ++ sep).length)
    (hsep : Layout ((A ++ sep).drop (parseStop A o))) (hproc : o.proceed = false)
    (hfuel : ∀ site, (runParser ((A ++ sep).drop (parseStop A o) ++ B) o []).1 ≠
      .error (.outOfFuel site))
    (hpos : ∀ part, (runParser B o []).1 = .ok (some part) → 0 < nextIndex part) :
    (parse (A ++ sep ++ B) o).1 =
      .parts (psA ++ psB.map (Node.shift (A.length + sep.length))) := by
  obtain ⟨r, hr⟩ := run_ok_of_parts hB
  exact C13_partial_conditional A sep B o psA psB hj hA hB hloc hstop
    (layoutSkip _ B o hsep hproc hfuel r hr (.inr hpos))

/-- **inserting layout at a top-level command boundary** (goal "interior layout" for the gaps
    BETWEEN top-level commands): if `sep` and `sep ++ ins` are both layout separators between `A`
    and `B` (hypotheses of `C13_partial_layout` for both), then `parse (A ++ sep ++ ins ++ B)` is
    `parse (A ++ sep ++ B)` with the parts of `A` unchanged and every later part moved by
    `|ins|` -/
theorem C14_insert_between (A sep ins B : Str) (o : Opts) (psA psB : List Node)
    (hj : Joinable A (sep ++ B)) (hj' : Joinable A ((sep ++ ins) ++ B))
    (hA : (parse A o).1 = .parts psA) (hB : (parse B o).1 = .parts psB)
    (hloc : parseLocal A o = true)
    (hstop : parseStop A o ≤ (A ++ sep).length)
    (hsep : Layout ((A ++ sep).drop (parseStop A o)))
    (hsep' : Layout ((A ++ (sep ++ ins)).drop (parseStop A o))) (hproc : o.proceed = false)
    (hfuel : ∀ site, (runParser ((A ++ sep).drop (parseStop A o) ++ B) o []).1 ≠
      .error (.outOfFuel site))
    (hfuel' : ∀ site, (runParser ((A ++ (sep ++ ins)).drop (parseStop A o) ++ B) o []).1 ≠
      .error (.outOfFuel site))
    (hpos : ∀ part, (runParser B o []).1 = .ok (some part) → 0 < nextIndex part) :
    (parse (A ++ sep ++ B) o).1 =
      .parts (psA ++ psB.map (Node.shift (A.length + sep.length))) ∧
    (parse (A ++ (sep ++ ins) ++ B) o).1 =
      .parts (psA ++ (psB.map (Node.shift (A.length + sep.length))).map (Node.shift ins.length)) := by
  refine ⟨C13_partial_layout A sep B o psA psB hj hA hB hloc hstop hsep hproc hfuel hpos, ?_⟩
  have hstop' : parseStop A o ≤ (A ++ (sep ++ ins)).length := by
    simp only [List.length_append] at hstop ⊢; omega
  rw [C13_partial_layout A (sep ++ ins) B o psA psB hj' hA hB hloc hstop' hsep' hproc hfuel' hpos,
    Node.map_shift_shift, List.length_append, Nat.add_assoc]

end Bashlex.C14
