/-
  C14, layer 2c: `_readtokenword` under the translation.
-/
import Bashlex.Props.C14.Pair

namespace Bashlex.C14
open Bashlex Bashlex.C10
set_option linter.unusedSimpArgs false
set_option linter.unusedVariables false

variable {pre : Str} {top : Bool} {n n' : Nat}

theorem sim_isAssignment (s : Str) : SimEq pre top n n (isAssignment s) := by
  unfold isAssignment; rel_walk
macro_rules | `(tactic| rel_atom) => `(tactic| exact sim_isAssignment _)

theorem sim_specialcasetokens (s : Str) : SimEq pre top n n (specialcasetokens s) := by
  unfold specialcasetokens; rel_walk_jp
macro_rules | `(tactic| rel_atom) => `(tactic| exact sim_specialcasetokens _)

theorem sim_handleshellquote (st : RWState) (c : Char) :
    SimEq pre top 1 1 (handleshellquote st c) := by
  unfold handleshellquote; rel_walk
macro_rules | `(tactic| rel_atom) => `(tactic| exact sim_handleshellquote _ _)

theorem sim_handleshellexp (st : RWState) (c : Char) (cd : Option Char) :
    SimEq pre top 1 1 (handleshellexp st c cd) := by
  unfold handleshellexp; rel_walk
macro_rules | `(tactic| rel_atom) => `(tactic| exact sim_handleshellexp _ _ _)

theorem sim_readtokenwordStep (st : RWState) :
    SimL pre top 1 (loopLvl 1 0) (readtokenwordStep st) (readtokenwordStep st) (SumEq Eq) := by
  unfold readtokenwordStep; rel_walk

end Bashlex.C14
