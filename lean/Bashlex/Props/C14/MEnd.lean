/-
  C14More, part 2: a parser run on layout only returns no node.

  After the layout is consumed (`consumeX`) the cursor is at the end of the tape; `_readtoken`
  delivers the EOF token, the engine — in state 0, nothing but NEWLINE tokens shifted — returns
  (`Res.blank`), and `_parser.parse()` returns `None`.
-/
import Bashlex.Props.C14.MComment

namespace Bashlex.C14
open Bashlex Bashlex.C10 Bashlex.C12 Bashlex.LR
set_option linter.unusedSimpArgs false
set_option linter.unusedVariables false

/-- the EOF token of `_readtoken` -/
def tokEOF : Token := { ttype := some .EOF, value := .none }

theorem run_getc_end (rqn : Bool) (l : Local) (e : Env) (hl : l.tape = none)
    (heol : l.eolLookahead = none) (hend : ¬ e.tape.idx < e.tape.line.length) :
    M.run (getc rqn) l e = (.ok (none, l), e) := by
  rw [run_getc rqn l e heol, tapeOf_none hl, tgetc_end _ _ _ hend]
  simp only [putL_none hl, putE_none hl]

theorem run_readtoken_eof (l : Local) (e : Env) (hl : l.tape = none)
    (heol : l.eolLookahead = none) (hend : ¬ e.tape.idx < e.tape.line.length) :
    M.run readtoken l e = (.ok (.inr tokEOF, l), e) := by
  rw [readtoken_eq, M.run_bind, run_getc_end true l e hl heol hend]
  simp only []
  rw [M.run_bind, run_loop_succ]
  have : M.run (blankBody none) l e = (.ok (.inr none, l), e) := rfl
  rw [this]
  rfl

/-- the parser object after `token()` delivered the EOF token -/
def afterEOF (l : Local) : Local :=
  { histStep l with ps := { l.ps with eoftoken := false }, currentToken := tokEOF }

theorem run_nextToken_eof (l : Local) (e : Env) (hl : l.tape = none)
    (heol : l.eolLookahead = none) (hend : ¬ e.tape.idx < e.tape.line.length) :
    M.run nextToken l e = (.ok (tokEOF, afterEOF l), e) := by
  unfold nextToken
  rw [M.run_bind, run_modify]
  simp only []
  show M.run (readtoken >>= _) (histStep l) e = _
  rw [M.run_bind, run_readtoken_eof (histStep l) e hl heol hend]
  rfl

theorem symEOF : symOfTok tokEOF = 0 := by
  show TokType.EOF.sym = 0
  decide +kernel

/-- a step of the engine at the end of the tape, from a fresh configuration: the
    "everything is a newline" return -/
theorem run_step_eof (np : NestedParse) (c : Cfg SVal) (hc : Fresh c) (l : Local) (e : Env)
    (hl : l.tape = none) (heol : l.eolLookahead = none)
    (hend : ¬ e.tape.idx < e.tape.line.length) :
    M.run (step realTables (lrHooks np) c) l e =
      (.ok (.inr (.blank c.nlShifted c.consumed), afterEOF l), e) := by
  unfold step
  simp only [hc.1, hc.2, topState, dflt0]
  show M.run (((nextToken >>= fun t => pure (symOfTok t, SVal.tok t)) : M (Nat × SVal)) >>= _) l e = _
  rw [M.run_bind, M.run_bind, run_nextToken_eof l e hl heol hend]
  simp only [M.run_pure, symEOF]
  rfl

/-- one parser run from a fresh configuration with the cursor at the end of the tape returns no
    node -/
theorem run_engine_eof (depth f : Nat) (c : Cfg SVal) (hc : Fresh c) (l : Local) (e : Env)
    (hl : l.tape = none) (heol : l.eolLookahead = none)
    (hend : ¬ e.tape.idx < e.tape.line.length) :
    resOf (M.run (engineRun depth (f + 1) c) l e) = .ok none := by
  unfold engineRun
  rw [M.run_bind, run_loop_succ, run_step_eof _ c hc l e hl heol hend]
  rfl

/-! ## a run on layout only -/

theorem layout_ofInput {s : Str} (hs : Layout s) : Layout (Tape.ofInput s).line := by
  rcases C13.ofInput_line s with h | h <;> rw [h]
  · exact hs
  · exact hs.append (.blank (.inr (.inr rfl)) .nil)

theorem ofInput_eta (s : Str) :
    Tape.ofInput s =
      { line := [] ++ ((Tape.ofInput s).line ++ []), idx := ([] : Str).length,
        added := (Tape.ofInput s).added } := by
  have hi := ofInput_idx s
  rcases h : Tape.ofInput s with ⟨ln, ix, ad⟩
  rw [h] at hi
  simp only at hi
  subst hi
  simp

/-- **a parser run on layout only returns no node** (unless it runs out of fuel) -/
theorem runParser_layout_only (s : Str) (o : Opts) (t : List Char) (hs : Layout s)
    (hfuel : ∀ site, (runParser s o t).1 ≠ .error (.outOfFuel site)) :
    (runParser s o t).1 = .ok none := by
  rw [runParser_fst] at hfuel ⊢
  have hmax : maxDepth = 63 + 1 := rfl
  rw [hmax] at hfuel ⊢
  have hpr : parserRun (63 + 1) = engineRun 63 1073741824 {} := rfl
  rw [hpr] at hfuel ⊢
  have hoof : ¬ IsOOF (M.run (engineRun 63 1073741824 {}) (initL o.limit) (envOf s o t)) := by
    rw [isOOF_iff_resOf]
    rintro ⟨site, h⟩
    exact hfuel site h
  obtain ⟨f', c', l', h1, h2, h3, h4⟩ := consumeX 63 [] (Tape.ofInput s).added o.limit
    (Tape.ofInput s).line (layout_ofInput hs) [] 1073741824 {} (initL o.limit) (envOf s o t)
    ⟨rfl, rfl⟩
    (by
      exact { tape := rfl, opts := rfl, eol := rfl, before := HEq.refl _, last := HEq.refl _
              cur := HEq.refl _, curFlags := rfl, ps := rfl, obc := rfl, esacs := rfl
              dstack := rfl, positions := rfl, eofToken := rfl, eofOK := Or.inl rfl
              redirstack := rfl, store := rfl, limit := rfl })
    (by simp only [envOf]; exact ofInput_eta s) (Nat.le_refl _) hoof
  have hoof' := fun h => hoof (h4.isOOF.2 h)
  rw [h4.resOf]
  cases f' with
  | zero =>
    exfalso
    apply hoof'
    unfold engineRun
    rw [M.run_bind, run_loop_zero]
    exact ⟨_, rfl⟩
  | succ g =>
    refine run_engine_eof 63 g c' h2 l' _ h3.tape h3.eol ?_
    simp only [envAt, envOf, List.length_nil, Nat.zero_add, Nat.lt_irrefl, not_false_eq_true]

end Bashlex.C14
