/-
  C14 interior, part 5: the bridge between the two phases.  An engine configuration all of whose
  spans lie below the insertion point (`p.1 < x`, `p.2 ≤ x`) is related TO ITSELF by
  `VRf (spanMap x k)`: `spanMap x k` fixes such spans.  So after phase 1 (identical runs up to
  the token in front of the gap) the two equal configurations are a legitimate starting point of
  `C14_interior_from_conditional`.
-/
import Bashlex.Props.C14.IInst

namespace Bashlex.C14I
open Bashlex Bashlex.LR Bashlex.C16 Bashlex.C14
set_option linter.unusedSimpArgs false
set_option linter.unusedVariables false

/-- a span below the insertion point -/
def Below (x : Nat) (p : Span) : Prop := p.1 < x ∧ p.2 ≤ x

theorem spanMap_below {x k : Nat} {p : Span} (h : Below x p) : spanMap x k p = p := by
  obtain ⟨a, b⟩ := p
  obtain ⟨h1, h2⟩ := h
  simp only [spanMap, phiS, phiE] at h1 h2 ⊢
  rw [if_pos h1, if_pos h2]

mutual
/-- all spans of a tree (every node `mapPos` visits) -/
def spansOf : Node → List Span
  | .operator p _ | .reservedword p _ | .pipe p _ | .parameter p _ | .tilde p _ | .heredoc p _ => [p]
  | .list p ps | .pipeline p ps | .ifN p ps | .forN p ps | .whileN p ps | .untilN p ps
  | .caseN p ps | .pattern p ps | .command p ps | .unimplemented p ps | .function p _ _ ps
  | .word p _ ps | .assignment p _ ps => p :: spansOfL ps
  | .compound p l r => p :: (spansOfL l ++ spansOfL r)
  | .redirect p _ _ o _ h _ => p :: (spansOfO o ++ spansOfO h)
  | .commandsubstitution p c | .processsubstitution p c => p :: spansOf c
def spansOfL : List Node → List Span
  | [] => []
  | n :: ns => spansOf n ++ spansOfL ns
def spansOfO : Option Node → List Span
  | none => []
  | some n => spansOf n
end

mutual
/-- a span map that fixes every span of a tree fixes the tree -/
theorem mapPos_fix (f : Span → Span) : ∀ n : Node, (∀ p ∈ spansOf n, f p = p) → n.mapPos f = n
  | .operator p _ | .reservedword p _ | .pipe p _ | .parameter p _ | .tilde p _ | .heredoc p _ => by
    intro h
    simp only [Node.mapPos, h p (by simp [spansOf])]
  | .list p ps | .pipeline p ps | .ifN p ps | .forN p ps | .whileN p ps | .untilN p ps
  | .caseN p ps | .pattern p ps | .command p ps | .unimplemented p ps | .function p _ _ ps
  | .word p _ ps | .assignment p _ ps => by
    intro h
    simp only [Node.mapPos, h p (by simp [spansOf]),
      mapPosL_fix f ps (fun q hq => h q (by simp [spansOf, hq]))]
  | .compound p l r => by
    intro h
    simp only [Node.mapPos, h p (by simp [spansOf]),
      mapPosL_fix f l (fun q hq => h q (by simp [spansOf, hq])),
      mapPosL_fix f r (fun q hq => h q (by simp [spansOf, hq]))]
  | .redirect p _ _ o _ hd _ => by
    intro h
    simp only [Node.mapPos, h p (by simp [spansOf]),
      mapPosO_fix f o (fun q hq => h q (by simp [spansOf, hq])),
      mapPosO_fix f hd (fun q hq => h q (by simp [spansOf, hq]))]
  | .commandsubstitution p c | .processsubstitution p c => by
    intro h
    simp only [Node.mapPos, h p (by simp [spansOf]),
      mapPos_fix f c (fun q hq => h q (by simp [spansOf, hq]))]
theorem mapPosL_fix (f : Span → Span) : ∀ l : List Node, (∀ p ∈ spansOfL l, f p = p) →
    Node.mapPosL f l = l
  | [] => fun _ => rfl
  | n :: ns => by
    intro h
    simp only [Node.mapPosL, mapPos_fix f n (fun q hq => h q (by simp [spansOfL, hq])),
      mapPosL_fix f ns (fun q hq => h q (by simp [spansOfL, hq]))]
theorem mapPosO_fix (f : Span → Span) : ∀ o : Option Node, (∀ p ∈ spansOfO o, f p = p) →
    Node.mapPosO f o = o
  | none => fun _ => rfl
  | some n => by
    intro h
    simp only [Node.mapPosO, mapPos_fix f n (fun q hq => h q (by simp [spansOfO, hq]))]
end

/-- all spans of a semantic value -/
def spansOfS : SVal → List Span
  | .none => []
  | .tok t => t.pos.toList
  | .node n => spansOf n
  | .nodes l => spansOfL l

theorem mapS_fix (f : Span → Span) (v : SVal) (h : ∀ p ∈ spansOfS v, f p = p) : mapS f v = v := by
  cases v with
  | none => rfl
  | tok t =>
    simp only [mapS, mapTok]
    cases hp : t.pos with
    | none => cases t; simp only at hp; subst hp; rfl
    | some p =>
      have := h p (by simp [spansOfS, hp])
      cases t; simp only at hp; subst hp
      simp only [Option.map_some, this]
  | node n => simp only [mapS, mapPos_fix f n h]
  | nodes l =>
    simp only [mapS]
    rw [← Node.mapPosL_eq_map, mapPosL_fix f l h]

/-- **the bridge**: a configuration without look-ahead whose stack holds only spans below `x`
    (and tokens satisfying `Q`) is related to itself -/
theorem cfgR_self (x k : Nat) (Q : Token → Prop) (c : Cfg SVal) (hla : c.la = none)
    (hst : ∀ e ∈ c.stack, (∀ p ∈ spansOfS e.val, Below x p) ∧ QV Q e.val) :
    CfgR (VRf (spanMap x k) Q) c c := by
  refine ⟨?_, by rw [hla]; trivial, rfl, rfl⟩
  generalize c.stack = st at hst
  induction st with
  | nil => exact .nil
  | cons e r ih =>
    refine .cons ⟨rfl, rfl, ?_, (hst e (List.mem_cons_self ..)).2⟩
      (ih (fun e' he' => hst e' (List.mem_cons_of_mem _ he')))
    exact (mapS_fix _ _ (fun p hp => spanMap_below ((hst e (List.mem_cons_self ..)).1 p hp))).symm

end Bashlex.C14I
