/-
  C14More, part 1: consuming a LAYOUT prefix — blanks, tabs, newlines and comment lines.

  `Prefix.lean` peels a prefix of blanks and newlines one character at a time.  Here the prefix
  may hold comments `# … ⏎` as well: `_readtoken` skips a comment with `_discard_until('\n')`
  (reads with `_getc(False)`, so a backslash-newline inside a comment is NOT a continuation),
  un-gets the newline, reads it again and delivers it as a NEWLINE token — the same token the bare
  newline would have given; the LR engine shifts it in state 0 without pushing it.  So a comment
  line costs fuel only (one iteration of the `_discard_until` loop per character), and unless the
  run runs out of fuel it ends like the run started behind the prefix.
-/
import Bashlex.Props.C14

namespace Bashlex.C14
open Bashlex Bashlex.C10 Bashlex.C12 Bashlex.LR
set_option linter.unusedSimpArgs false
set_option linter.unusedVariables false

/-! ## layout -/

/-- **layout**: the language `([ \t\n] | #[^\n]*\n | \\\n)*` — lines of blanks and tabs, each
    optionally ending in a comment, each ended by a newline, followed by blanks and tabs; a
    backslash-newline pair may stand wherever a blank may -/
inductive Layout : Str → Prop
  | nil : Layout []
  | blank {c : Char} {r : Str} (h : c = ' ' ∨ c = '\t' ∨ c = '\n') (hr : Layout r) : Layout (c :: r)
  | comment {r : Str} (body : Str) (hb : ∀ c ∈ body, c ≠ '\n') (hr : Layout r) :
      Layout ('#' :: (body ++ '\n' :: r))
  /-- a line continuation between layout characters (not inside a comment: `_discard_until`
      reads with `_getc(False)`) -/
  | cont {r : Str} (hr : Layout r) : Layout ('\\' :: '\n' :: r)

theorem layout_of_blankNL {pre : Str} (h : BlankNL pre) : Layout pre := by
  induction pre with
  | nil => exact .nil
  | cons c r ih =>
    exact .blank (h c (List.mem_cons_self ..)) (ih (fun d hd => h d (List.mem_cons_of_mem _ hd)))

theorem Layout.append {a b : Str} (ha : Layout a) (hb : Layout b) : Layout (a ++ b) := by
  induction ha with
  | nil => exact hb
  | blank h _ ih => exact .blank h ih
  | @comment r body hbody _ ih =>
    have : '#' :: (body ++ '\n' :: r) ++ b = '#' :: (body ++ '\n' :: (r ++ b)) := by simp
    rw [this]
    exact .comment body hbody ih
  | cont _ ih => exact .cont ih

/-- the boolean recogniser of `Layout` (`layout_iff_layoutB`); `inC`: inside a comment -/
def layoutB : Bool → Str → Bool
  | inC, [] => !inC
  | false, c :: r =>
    if c == ' ' || c == '\t' || c == '\n' then layoutB false r
    else if c == '#' then layoutB true r
    else if c == '\\' then
      match r with
      | d :: r' => d == '\n' && layoutB false r'
      | [] => false
    else false
  | true, c :: r => if c == '\n' then layoutB false r else layoutB true r

theorem layoutB_false_cons (c : Char) (r : Str) :
    layoutB false (c :: r) =
      if c == ' ' || c == '\t' || c == '\n' then layoutB false r
      else if c == '#' then layoutB true r
      else if c == '\\' then
        match r with
        | d :: r' => d == '\n' && layoutB false r'
        | [] => false
      else false := by
  cases r <;> rfl

theorem layoutB_true_cons (c : Char) (r : Str) :
    layoutB true (c :: r) = if c == '\n' then layoutB false r else layoutB true r := by
  rfl

theorem layout_of_layoutB_aux : ∀ (n : Nat) (s : Str), s.length ≤ n →
    (layoutB false s = true → Layout s) ∧
    (layoutB true s = true → ∃ body r, s = body ++ '\n' :: r ∧ (∀ c ∈ body, c ≠ '\n') ∧ Layout r) := by
  intro n
  induction n with
  | zero =>
    intro s hs
    have : s = [] := List.length_eq_zero_iff.1 (Nat.le_zero.1 hs)
    subst this
    exact ⟨fun _ => .nil, fun h => by simp [layoutB] at h⟩
  | succ n ih =>
    intro s hs
    cases s with
    | nil => exact ⟨fun _ => .nil, fun h => by simp [layoutB] at h⟩
    | cons c r =>
      have hr : r.length ≤ n := by simp only [List.length_cons] at hs; omega
      obtain ⟨ih1, ih2⟩ := ih r hr
      constructor
      · intro h
        rw [layoutB_false_cons] at h
        by_cases hc : (c == ' ' || c == '\t' || c == '\n') = true
        · rw [if_pos hc] at h
          refine .blank ?_ (ih1 h)
          simp only [Bool.or_eq_true, beq_iff_eq] at hc
          rcases hc with (hc | hc) | hc
          · exact .inl hc
          · exact .inr (.inl hc)
          · exact .inr (.inr hc)
        · rw [if_neg hc] at h
          by_cases h2 : (c == '#') = true
          · rw [if_pos h2] at h
            obtain ⟨body, r', rfl, hb, hl⟩ := ih2 h
            rw [beq_iff_eq.1 h2]
            exact .comment body hb hl
          · rw [if_neg h2] at h
            by_cases h3 : (c == '\\') = true
            · rw [if_pos h3] at h
              cases r with
              | nil => cases h
              | cons d r' =>
                simp only [Bool.and_eq_true, beq_iff_eq] at h
                rw [beq_iff_eq.1 h3, h.1]
                exact .cont ((ih r' (by simp only [List.length_cons] at hr; omega)).1 h.2)
            · rw [if_neg h3] at h; cases h
      · intro h
        rw [layoutB_true_cons] at h
        by_cases hc : (c == '\n') = true
        · rw [if_pos hc] at h
          rw [beq_iff_eq.1 hc]
          exact ⟨[], r, rfl, fun _ hx => absurd hx (List.not_mem_nil), ih1 h⟩
        · rw [if_neg hc] at h
          obtain ⟨body, r', rfl, hb, hl⟩ := ih2 h
          refine ⟨c :: body, r', rfl, ?_, hl⟩
          intro d hd
          rcases List.mem_cons.1 hd with rfl | hd
          · intro e; rw [e] at hc; exact hc rfl
          · exact hb d hd

theorem layout_of_layoutB {s : Str} (h : layoutB false s = true) : Layout s :=
  (layout_of_layoutB_aux s.length s (Nat.le_refl _)).1 h

theorem layoutB_comment (body r : Str) (hb : ∀ c ∈ body, c ≠ '\n') :
    layoutB true (body ++ '\n' :: r) = layoutB false r := by
  induction body with
  | nil => rw [List.nil_append, layoutB_true_cons, if_pos (by decide)]
  | cons b bs ih =>
    have hbn : (b == '\n') = false := by
      have := hb b (List.mem_cons_self ..)
      simpa using this
    rw [List.cons_append, layoutB_true_cons, hbn, if_neg (by decide)]
    exact ih (fun c hc => hb c (List.mem_cons_of_mem _ hc))

theorem layoutB_of_layout {s : Str} (h : Layout s) : layoutB false s = true := by
  induction h with
  | nil => rfl
  | @blank c r hc _ ih =>
    rw [layoutB_false_cons, if_pos]
    · exact ih
    · rcases hc with rfl | rfl | rfl <;> decide
  | @comment r body hb _ ih =>
    rw [layoutB_false_cons, if_neg (by decide), if_pos (by decide), layoutB_comment body r hb]
    exact ih
  | @cont r _ ih =>
    rw [layoutB_false_cons, if_neg (by decide), if_neg (by decide), if_pos (by decide)]
    simp only [ih, Bool.and_true, beq_self_eq_true]

/-- `Layout` is decidable (evaluate with `decide +kernel`: the elaborator's `decide` is slow on
    character comparisons) -/
theorem layout_iff_layoutB (s : Str) : Layout s ↔ layoutB false s = true :=
  ⟨layoutB_of_layout, layout_of_layoutB⟩

instance (s : Str) : Decidable (Layout s) := decidable_of_iff _ (layout_iff_layoutB s).symm

/-! ## `_discard_until('\n')` on a comment -/

theorem drop_head {L : Str} {i : Nat} {x : Char} {tl : Str} (h : L.drop i = x :: tl) :
    i < L.length ∧ L[i]? = some x ∧ L.drop (i + 1) = tl := by
  have hlt : i < L.length := by
    rcases Nat.lt_or_ge i L.length with h1 | h1
    · exact h1
    · rw [List.drop_eq_nil_of_le h1] at h; cases h
  refine ⟨hlt, ?_, ?_⟩
  · have := List.getElem?_drop (xs := L) (i := i) (j := 0)
    rw [h] at this
    simpa using this.symm
  · have : L.drop (i + 1) = (L.drop i).drop 1 := by rw [List.drop_drop]
    rw [this, h]; rfl

/-! ## a line continuation under the cursor -/

/-- more tape fuel than needed changes nothing -/
theorem tgetc_fuel (rqn : Bool) : ∀ (f : Nat) (t : Tape), t.line.length < f + t.idx →
    t.getc rqn (f + 1) = t.getc rqn f := by
  intro f
  induction f with
  | zero =>
    intro t h
    rw [Tape.getc_succ, List.getElem?_eq_none (by omega)]
    rfl
  | succ f ih =>
    intro t h
    rw [Tape.getc_succ, Tape.getc_succ t rqn f]
    have := ih { t with idx := t.idx + 2 } (by simp only; omega)
    rw [this]

/-- two runs end alike: identically, or both raise the same exception (the environments of two
    failed runs may differ: a failed `_getc` leaves the cursor where it was) -/
def Alike {α : Type} (r r' : Except Exn (α × Local) × Env) : Prop :=
  r = r' ∨ ∃ x, r.1 = .error x ∧ r'.1 = .error x

theorem Alike.rfl' {α : Type} (r : Except Exn (α × Local) × Env) : Alike r r := .inl rfl

theorem Alike.trans {α : Type} {a b c : Except Exn (α × Local) × Env} (h1 : Alike a b)
    (h2 : Alike b c) : Alike a c := by
  rcases h1 with rfl | ⟨x, hx1, hx2⟩
  · exact h2
  · rcases h2 with rfl | ⟨y, hy1, hy2⟩
    · exact .inr ⟨x, hx1, hx2⟩
    · rw [hx2] at hy1; cases hy1; exact .inr ⟨x, hx1, hy2⟩

theorem Alike.bind {α γ : Type} {m : M α} (f : α → M γ) {l l' : Local} {e e' : Env}
    (h : Alike (M.run m l e) (M.run m l' e')) :
    Alike (M.run (m >>= f) l e) (M.run (m >>= f) l' e') := by
  rcases h with h | ⟨x, h1, h2⟩
  · exact .inl (run_bind_congr f h)
  · right
    refine ⟨x, ?_, ?_⟩
    · rw [M.run_bind]
      rcases hr : M.run m l e with ⟨r, e1⟩
      rw [hr] at h1; simp only at h1; subst h1; rfl
    · rw [M.run_bind]
      rcases hr : M.run m l' e' with ⟨r, e1⟩
      rw [hr] at h2; simp only at h2; subst h2; rfl

theorem Alike.isOOF {α : Type} {a b : Except Exn (α × Local) × Env} (h : Alike a b) :
    IsOOF a ↔ IsOOF b := by
  rcases h with rfl | ⟨x, h1, h2⟩
  · exact Iff.rfl
  · unfold IsOOF; rw [h1, h2]

theorem Alike.resOf {a b : Except Exn (Option Node × Local) × Env} (h : Alike a b) :
    resOf a = resOf b := by
  rcases h with rfl | ⟨x, h1, h2⟩
  · rfl
  · unfold C14.resOf; rw [h1, h2]

/-- `_getc(True)` on a backslash-newline pair is `_getc(True)` behind it -/
theorem run_getc_cont (l : Local) (e : Env) (hl : l.tape = none) (heol : l.eolLookahead = none)
    (r : Str) (hd : e.tape.line.drop e.tape.idx = '\\' :: '\n' :: r) :
    Alike (M.run (getc true) l e) (M.run (getc true) l (envAt e (e.tape.idx + 2))) := by
  obtain ⟨hlt, hc, hd'⟩ := drop_head hd
  obtain ⟨hlt', hc', _⟩ := drop_head hd'
  rw [run_getc true l e heol, run_getc true l _ heol, tapeOf_none hl, tapeOf_none hl]
  have h1 : e.tape.getc true (e.tape.line.length + 1) =
      Tape.getc { e.tape with idx := e.tape.idx + 1 + 1 } true e.tape.line.length :=
    tgetc_bs_nl e.tape true _ '\\' '\n' hlt hc (by decide) hc' (by decide)
  have h2 : (envAt e (e.tape.idx + 2)).tape.getc true ((envAt e (e.tape.idx + 2)).tape.line.length + 1) =
      Tape.getc { e.tape with idx := e.tape.idx + 1 + 1 } true e.tape.line.length :=
    tgetc_fuel true _ _ (by simp only [envAt]; omega)
  rw [h1, h2]
  cases Tape.getc { e.tape with idx := e.tape.idx + 1 + 1 } true e.tape.line.length with
  | error u => exact .inr ⟨_, rfl, rfl⟩
  | ok v =>
    left
    simp only [putE_none hl, envAt]

/-- … hence `_readtoken` with the cursor on the pair is `_readtoken` behind it -/
theorem run_readtoken_cont (l : Local) (e : Env) (hl : l.tape = none)
    (heol : l.eolLookahead = none) (r : Str)
    (hd : e.tape.line.drop e.tape.idx = '\\' :: '\n' :: r) :
    Alike (M.run readtoken l e) (M.run readtoken l (envAt e (e.tape.idx + 2))) := by
  rw [readtoken_eq]
  exact (run_getc_cont l e hl heol r hd).bind _

/-- `run_loop_congr` for runs that end alike -/
theorem run_loop_alike {α : Type} (np : NestedParse) (c : Cfg SVal) (hc : Fresh c) (f : Nat)
    (K : Res SVal → M α) (l : Local) (e e' : Env)
    (h : Alike (M.run readtoken (histStep l) e) (M.run readtoken (histStep l) e')) :
    Alike (M.run (M.loop "LRParser.parse" (step realTables (lrHooks np)) (f + 1) c >>= K) l e)
      (M.run (M.loop "LRParser.parse" (step realTables (lrHooks np)) (f + 1) c >>= K) l e') := by
  refine Alike.bind _ ?_
  show Alike (M.run (step realTables (lrHooks np) c >>= _) l e)
    (M.run (step realTables (lrHooks np) c >>= _) l e')
  refine Alike.bind _ ?_
  unfold step
  simp only [hc.1, hc.2, topState, dflt0]
  show Alike (M.run ((lrHooks np).next >>= _) l e) (M.run ((lrHooks np).next >>= _) l e')
  refine Alike.bind _ ?_
  show Alike (M.run (nextToken >>= _) l e) (M.run (nextToken >>= _) l e')
  refine Alike.bind _ ?_
  unfold nextToken
  rw [M.run_bind, M.run_bind, run_modify, run_modify]
  show Alike (M.run (readtoken >>= _) (histStep l) e) (M.run (readtoken >>= _) (histStep l) e')
  exact h.bind _

/-- the loop of `_discard_until('\n')` -/
def duBody (c : Option Char) : M (Option Char ⊕ Option Char) := do
  match c with
  | none => return .inr c
  | some ch => if ch != '\n' then return .inl (← getc false) else return .inr c

theorem discardUntil_eq : discardUntil '\n' = (do
    let c ← getc false
    let c ← M.loop "_discard_until" duBody 1073741824 c
    if c.isSome then ungetc c) := rfl

variable {β : Type}

theorem run_duLoop_zero (K : Option Char → M β) (c : Option Char) (l : Local) (e : Env) :
    IsOOF (M.run (M.loop "_discard_until" duBody 0 c >>= K) l e) := by
  rw [M.run_bind, run_loop_zero]
  exact ⟨_, rfl⟩

theorem run_duLoop_nl (K : Option Char → M β) (f : Nat) (l : Local) (e : Env) :
    M.run (M.loop "_discard_until" duBody (f + 1) (some '\n') >>= K) l e =
      M.run (K (some '\n')) l e := by
  rw [M.run_bind, run_loop_succ]
  have : M.run (duBody (some '\n')) l e = (.ok (.inr (some '\n'), l), e) := rfl
  rw [this]

theorem run_duLoop_other (K : Option Char → M β) (f : Nat) (b : Char) (hb : b ≠ '\n') (l : Local)
    (e : Env) :
    M.run (M.loop "_discard_until" duBody (f + 1) (some b) >>= K) l e =
      M.run (getc false >>= fun c => M.loop "_discard_until" duBody f c >>= K) l e := by
  have hne : (b != '\n') = true := by simpa using hb
  show M.run ((duBody (some b) >>= _) >>= K) l e = _
  unfold duBody
  simp only [hne, if_true, bind_assoc, pure_bind]

/-- reading a comment body up to its newline (any continuation `K`): out of fuel, or the newline
    has just been read -/
theorem run_duLoop (K : Option Char → M β) (l : Local) (hl : l.tape = none)
    (heol : l.eolLookahead = none) :
    ∀ (body : Str), (∀ c ∈ body, c ≠ '\n') → ∀ (f : Nat) (e : Env) (rest : Str),
      e.tape.line.drop e.tape.idx = body ++ '\n' :: rest →
      IsOOF (M.run (getc false >>= fun c => M.loop "_discard_until" duBody f c >>= K) l e) ∨
      M.run (getc false >>= fun c => M.loop "_discard_until" duBody f c >>= K) l e =
        M.run (K (some '\n')) l (envAt e (e.tape.idx + body.length + 1)) := by
  intro body
  induction body with
  | nil =>
    intro _ f e rest hd
    obtain ⟨hlt, hc, _⟩ := drop_head hd
    rw [M.run_bind, run_getc_plain false l e '\n' hl heol hlt hc (by decide)]
    simp only []
    cases f with
    | zero => exact .inl (run_duLoop_zero K _ l _)
    | succ f => exact .inr (run_duLoop_nl K f l _)
  | cons b bs ih =>
    intro hb f e rest hd
    obtain ⟨hlt, hc, hd'⟩ := drop_head hd
    have hbn : b ≠ '\n' := hb b (List.mem_cons_self ..)
    rw [M.run_bind, run_getc_plain false l e b hl heol hlt hc (by simp)]
    simp only []
    cases f with
    | zero => exact .inl (run_duLoop_zero K _ l _)
    | succ f =>
      rw [run_duLoop_other K f b hbn]
      have := ih (fun c hc => hb c (List.mem_cons_of_mem _ hc)) f (envAt e (e.tape.idx + 1)) rest hd'
      simp only [envAt_envAt] at this
      have e1 : (envAt e (e.tape.idx + 1)).tape.idx + bs.length + 1 =
          e.tape.idx + (b :: bs).length + 1 := by
        simp only [envAt, List.length_cons]; omega
      rw [e1] at this
      exact this

theorem tungetc_pos (t : Tape) (h0 : 0 < t.idx) (hle : t.idx ≤ t.line.length) :
    t.ungetc = (true, { t with idx := t.idx - 1 }) := by
  have hne : t.line.isEmpty = false := by
    cases h : t.line with
    | nil => rw [h] at hle; simp at hle; omega
    | cons _ _ => rfl
  unfold Tape.ungetc
  rw [if_pos]
  simp only [hne, Bool.not_false, Bool.true_and, Bool.and_eq_true, bne_iff_ne, ne_eq,
    decide_eq_true_eq]
  exact ⟨by omega, hle⟩

theorem drop_len {L : Str} {i : Nat} {a : Str} (h : L.drop i = a) : a.length + i ≤ L.length ∨ a = [] := by
  subst h
  rcases Nat.lt_or_ge i L.length with h1 | h1
  · left; rw [List.length_drop]; omega
  · right; exact List.drop_eq_nil_of_le h1

/-- `_discard_until('\n')` with the cursor behind the `#` of a comment: out of fuel, or the cursor
    is on the newline that ends the comment -/
theorem run_discardUntil_comment (K : Unit → M β) (l : Local) (e : Env) (hl : l.tape = none)
    (heol : l.eolLookahead = none) (body rest : Str) (hb : ∀ c ∈ body, c ≠ '\n')
    (hd : e.tape.line.drop e.tape.idx = body ++ '\n' :: rest) :
    IsOOF (M.run (discardUntil '\n' >>= K) l e) ∨
    M.run (discardUntil '\n' >>= K) l e = M.run (K ()) l (envAt e (e.tape.idx + body.length)) := by
  have hrw : discardUntil '\n' >>= K =
      getc false >>= fun c => M.loop "_discard_until" duBody 1073741824 c >>= fun c =>
        ((if c.isSome then ungetc c else pure ()) >>= K) := by
    rw [discardUntil_eq]; simp only [bind_assoc]
  rw [hrw]
  rcases run_duLoop _ l hl heol body hb 1073741824 e rest hd with h | h
  · exact .inl h
  · right
    rw [h]
    simp only [Option.isSome_some, if_true]
    have hlen : e.tape.idx + body.length + 1 ≤ e.tape.line.length := by
      rcases drop_len hd with h1 | h1
      · simp only [List.length_append, List.length_cons] at h1; omega
      · simp at h1
    rw [M.run_bind, run_ungetc, tapeOf_none hl,
      tungetc_pos _ (by simp only [envAt]; omega) (by simp only [envAt]; exact hlen)]
    simp only [putL_none hl, putE_none hl, envAt, Nat.add_sub_cancel]

theorem drop_mid {L : Str} {j : Nat} {a : Str} {x : Char} {r : Str} (h : L.drop j = a ++ x :: r) :
    j + a.length < L.length ∧ L[j + a.length]? = some x := by
  have : L.drop (j + a.length) = x :: r := by
    rw [← List.drop_drop, h, List.drop_left]
  obtain ⟨h1, h2, _⟩ := drop_head this
  exact ⟨h1, h2⟩

/-- `_readtoken` on a comment (no pending here-document): the NEWLINE that ends it -/
theorem run_readtoken_comment (l : Local) (e : Env) (hl : l.tape = none)
    (heol : l.eolLookahead = none) (hrs : l.redirstack = []) (body rest : Str)
    (hb : ∀ c ∈ body, c ≠ '\n')
    (hd : e.tape.line.drop e.tape.idx = '#' :: (body ++ '\n' :: rest))
    (hoof : ¬ IsOOF (M.run readtoken l e)) :
    M.run readtoken l e =
      (.ok (.inl .NEWLINE,
        { l with positions := l.positions ++ [e.tape.idx + 1 + body.length],
                 ps := { l.ps with assignok := false } }),
        envAt e (e.tape.idx + 1 + body.length + 1)) := by
  obtain ⟨hlt, hc, hd'⟩ := drop_head hd
  obtain ⟨hlt2, hc2⟩ := drop_mid hd'
  have hR : M.run readtoken l e = M.run (readtokenRest (some '#')) l (envAt e (e.tape.idx + 1)) := by
    rw [readtoken_eq, M.run_bind, run_getc_plain true l e '#' hl heol hlt hc (by decide)]
    simp only []
    rw [M.run_bind, run_blankLoop_nonblank '#' (by decide) 1073741823]
  rw [hR] at hoof ⊢
  unfold readtokenRest at hoof ⊢
  simp only [pure_bind, show ('#' == '#') = true from by decide, if_true, bind_assoc,
    show ('\n' == '\n') = true from by decide] at hoof ⊢
  rcases run_discardUntil_comment _ l (envAt e (e.tape.idx + 1)) hl heol body rest hb hd' with h | h
  · exact absurd h hoof
  · rw [h]
    simp only [envAt_envAt]
    have hidx : (envAt e (e.tape.idx + 1)).tape.idx = e.tape.idx + 1 := rfl
    rw [hidx]
    rw [M.run_bind, run_getc_plain false l (envAt e (e.tape.idx + 1 + body.length)) '\n' hl heol
      hlt2 hc2 (by decide)]
    simp only [envAt_envAt]
    rw [M.run_bind, run_recordpos]
    simp only []
    rw [M.run_bind, run_gather_nil _ _ (by exact hrs)]
    simp only []
    rw [M.run_bind, run_modify]
    simp only []
    have ht : tokentypeOfChar '\n' = pure TokType.NEWLINE := rfl
    rw [ht, pure_bind, M.run_pure, tapeOf_none hl]
    simp only [envAt, Nat.add_sub_cancel]

/-! ## the NEWLINE token of a comment, and the engine step that drops it -/

/-- `token()` when `_readtoken` delivers the NEWLINE at `p` (cursor behind it) -/
theorem run_nextToken_nlAt (l : Local) (e : Env) (p : Nat) (hl : l.tape = none)
    (hpos : l.positions = [])
    (hrt : M.run readtoken (histStep l) e =
      (.ok (.inl .NEWLINE,
        { histStep l with positions := (histStep l).positions ++ [p],
                          ps := { (histStep l).ps with assignok := false } }), envAt e (p + 1))) :
    M.run nextToken l e = (.ok (tokNL p, afterNL l p), envAt e (p + 1)) := by
  unfold nextToken
  rw [M.run_bind, run_modify]
  simp only []
  show M.run (readtoken >>= _) (histStep l) e = _
  rw [M.run_bind, hrt]
  simp only []
  rw [M.run_bind, run_recordpos]
  simp only []
  rw [M.run_bind, run_createtoken]
  simp only [histStep, hpos, tapeOf, hl, envAt, List.nil_append, List.cons_append, List.length_cons,
    List.length_nil]
  have h1 : ¬ (0 + 1 + 1 < 2) := by decide
  have h2 : ([p, p + 1 - 0] : List Nat).dropLast.getLast?.getD 0 = p := rfl
  have h3 : ([p, p + 1 - 0] : List Nat).getLast?.getD 0 = p + 1 := rfl
  have h4 : ([p, p + 1 - 0] : List Nat).dropLast.dropLast = [] := rfl
  have h5 : (!decide (p < p + 1)) = false := by
    simp only [Nat.lt_succ_self, decide_true, Bool.not_true]
  rw [if_neg h1, h2, h3, h4, h5]
  simp only [Bool.false_eq_true, if_false, M.run_bind, run_modify, M.run_pure]
  have hv : TokType.NEWLINE.enumValue = .str ['\n'] := rfl
  rw [hv]
  cases l
  simp only at hl
  subst hl
  rfl

/-- a step of the engine from a fresh configuration when `_readtoken` delivers the NEWLINE at
    `p`: the token is shifted without being pushed -/
theorem run_step_nlAt (np : NestedParse) (c : Cfg SVal) (hc : Fresh c) (l : Local) (e : Env)
    (p : Nat) (hl : l.tape = none) (hpos : l.positions = [])
    (hrt : M.run readtoken (histStep l) e =
      (.ok (.inl .NEWLINE,
        { histStep l with positions := (histStep l).positions ++ [p],
                          ps := { (histStep l).ps with assignok := false } }), envAt e (p + 1))) :
    M.run (step realTables (lrHooks np) c) l e =
      (.ok (.inl (cfgNL c), afterNL l p), envAt e (p + 1)) := by
  unfold step
  simp only [hc.1, hc.2, topState, dflt0]
  show M.run (((nextToken >>= fun t => pure (symOfTok t, SVal.tok t)) : M (Nat × SVal)) >>= _) l e = _
  rw [M.run_bind, M.run_bind, run_nextToken_nlAt l e p hl hpos hrt]
  simp only [M.run_pure, symNL, act0nl]
  obtain ⟨hs, hla⟩ := hc
  cases c
  simp only at hs hla
  subst hs hla
  rfl

/-! ## consuming a layout prefix -/

/-- the engine loop followed by the tail of `_parser.parse()` -/
abbrev engineRun (depth f : Nat) (c : Cfg SVal) : M (Option Node) :=
  M.loop "LRParser.parse" (step realTables (lrHooks (npOf depth))) f c >>= parserTail

/-- **consuming layout** (blanks, tabs, newlines, comment lines): from a fresh engine
    configuration, with the cursor at the start of the layout `rest`, one parser run ends like a
    run from a fresh configuration (all that differs from the initial state is neutral:
    `LocRel 0 (initL lim)`) with the cursor behind `rest` — unless it runs out of fuel -/
theorem consumeX (depth : Nat) (line₁ : Str) (added : Bool) (lim : Option Int) :
    ∀ (rest : Str), Layout rest → ∀ (p0 : Str) (f : Nat) (c : Cfg SVal) (l : Local) (e : Env),
      Fresh c → LocRel 0 (initL lim) l →
      e.tape = { line := p0 ++ (rest ++ line₁), idx := p0.length, added := added } →
      f ≤ 1073741824 →
      ¬ IsOOF (M.run (engineRun depth f c) l e) →
      ∃ (f' : Nat) (c' : Cfg SVal) (l' : Local), f' ≤ 1073741824 ∧ Fresh c' ∧
        LocRel 0 (initL lim) l' ∧
        Alike (M.run (engineRun depth f c) l e)
          (M.run (engineRun depth f' c') l' (envAt e (p0.length + rest.length))) := by
  intro rest hrest
  induction hrest with
  | nil =>
    intro p0 f c l e hc hl he hf hoof
    have hidx : e.tape.idx = p0.length := by rw [he]
    refine ⟨f, c, l, hf, hc, hl, ?_⟩
    rw [List.length_nil, Nat.add_zero, ← hidx, envAt_self]
    exact Alike.rfl' _
  | @blank ch r hch hr ih =>
    intro p0 f c l e hc hl he hf hoof
    have hidx : e.tape.idx = p0.length := by rw [he]
    have hlt : e.tape.idx < e.tape.line.length := by
      rw [he]; simp only [List.length_append, List.length_cons]; omega
    have hat : e.tape.line[e.tape.idx]? = some ch := by
      rw [he]; simp only []
      rw [List.getElem?_append_right (Nat.le_refl _), Nat.sub_self]; rfl
    have hltape : l.tape = none := hl.tape
    have hleol : l.eolLookahead = none := hl.eol
    have he' : (envAt e (e.tape.idx + 1)).tape =
        { line := (p0 ++ [ch]) ++ (r ++ line₁), idx := (p0 ++ [ch]).length, added := added } := by
      simp only [envAt, he, List.length_append, List.length_cons, List.length_nil,
        List.append_assoc, List.cons_append, List.nil_append]
    have hfin : (p0 ++ [ch]).length + r.length = p0.length + (ch :: r).length := by
      simp only [List.length_append, List.length_cons, List.length_nil]; omega
    cases f with
    | zero => exact absurd ⟨"LRParser.parse", rfl⟩ hoof
    | succ f =>
      rcases hch with rfl | rfl | rfl
      · have hb := run_loop_blank (npOf depth) c hc f parserTail l e ' ' hltape hleol hlt hat
          (by decide) hoof
        unfold engineRun at hoof ⊢
        rw [hb] at hoof ⊢
        obtain ⟨f', c', l', h1, h2, h3, h4⟩ := ih (p0 ++ [' ']) (f + 1) c l _ hc hl he' hf hoof
        exact ⟨f', c', l', h1, h2, h3, by rw [envAt_envAt, hfin] at h4; exact h4⟩
      · have hb := run_loop_blank (npOf depth) c hc f parserTail l e '\t' hltape hleol hlt hat
          (by decide) hoof
        unfold engineRun at hoof ⊢
        rw [hb] at hoof ⊢
        obtain ⟨f', c', l', h1, h2, h3, h4⟩ := ih (p0 ++ ['\t']) (f + 1) c l _ hc hl he' hf hoof
        exact ⟨f', c', l', h1, h2, h3, by rw [envAt_envAt, hfin] at h4; exact h4⟩
      · have hstep := run_step_nl (npOf depth) c hc l e hltape hleol hl.redirstack
          (by rw [hl.positions]; rfl) hlt hat
        have hX : M.run (engineRun depth (f + 1) c) l e =
            M.run (engineRun depth f (cfgNL c)) (afterNL l e.tape.idx) (envAt e (e.tape.idx + 1)) := by
          unfold engineRun
          rw [M.run_bind, run_loop_succ, hstep, M.run_bind]
        rw [hX] at hoof ⊢
        obtain ⟨f', c', l', h1, h2, h3, h4⟩ := ih (p0 ++ ['\n']) f (cfgNL c) _ _ (fresh_cfgNL hc)
          (locRel_afterNL hl _) he' (by omega) hoof
        exact ⟨f', c', l', h1, h2, h3, by rw [envAt_envAt, hfin] at h4; exact h4⟩
  | @comment r body hbody hr ih =>
    intro p0 f c l e hc hl he hf hoof
    have hidx : e.tape.idx = p0.length := by rw [he]
    have hltape : l.tape = none := hl.tape
    have hleol : l.eolLookahead = none := hl.eol
    have hd : e.tape.line.drop e.tape.idx = '#' :: (body ++ '\n' :: (r ++ line₁)) := by
      rw [he]; simp only []
      rw [List.drop_left]
      simp only [List.cons_append, List.append_assoc]
    cases f with
    | zero => exact absurd ⟨"LRParser.parse", rfl⟩ hoof
    | succ f =>
      have hrt := run_readtoken_comment (histStep l) e hltape hleol hl.redirstack body
        (r ++ line₁) hbody hd (readtoken_not_oof (npOf depth) c hc f parserTail l e hoof)
      have hstep := run_step_nlAt (npOf depth) c hc l e (e.tape.idx + 1 + body.length) hltape
        (by rw [hl.positions]; rfl) hrt
      have hX : M.run (engineRun depth (f + 1) c) l e =
          M.run (engineRun depth f (cfgNL c)) (afterNL l (e.tape.idx + 1 + body.length))
            (envAt e (e.tape.idx + 1 + body.length + 1)) := by
        unfold engineRun
        rw [M.run_bind, run_loop_succ, hstep, M.run_bind]
      rw [hX] at hoof ⊢
      have he' : (envAt e (e.tape.idx + 1 + body.length + 1)).tape =
          { line := (p0 ++ ('#' :: (body ++ ['\n']))) ++ (r ++ line₁),
            idx := (p0 ++ ('#' :: (body ++ ['\n']))).length, added := added } := by
        simp only [envAt, he, List.length_append, List.length_cons, List.length_nil,
          List.append_assoc, List.cons_append, List.nil_append]
        congr 1
        omega
      have hfin : (p0 ++ ('#' :: (body ++ ['\n']))).length + r.length =
          p0.length + ('#' :: (body ++ '\n' :: r)).length := by
        simp only [List.length_append, List.length_cons, List.length_nil]; omega
      obtain ⟨f', c', l', h1, h2, h3, h4⟩ := ih (p0 ++ ('#' :: (body ++ ['\n']))) f (cfgNL c) _ _
        (fresh_cfgNL hc) (locRel_afterNL hl _) he' (by omega) hoof
      exact ⟨f', c', l', h1, h2, h3, by rw [envAt_envAt, hfin] at h4; exact h4⟩
  | @cont r hr ih =>
    intro p0 f c l e hc hl he hf hoof
    have hidx : e.tape.idx = p0.length := by rw [he]
    have hd : e.tape.line.drop e.tape.idx = '\\' :: '\n' :: (r ++ line₁) := by
      rw [he]; simp only []
      rw [List.drop_left]
      simp only [List.cons_append]
    cases f with
    | zero => exact absurd ⟨"LRParser.parse", rfl⟩ hoof
    | succ f =>
      have hb := run_loop_alike (npOf depth) c hc f parserTail l e _
        (run_readtoken_cont (histStep l) e hl.tape hl.eol _ hd)
      have hoof' := fun h => hoof (hb.isOOF.2 h)
      have he' : (envAt e (e.tape.idx + 2)).tape =
          { line := (p0 ++ ['\\', '\n']) ++ (r ++ line₁), idx := (p0 ++ ['\\', '\n']).length,
            added := added } := by
        simp only [envAt, he, List.length_append, List.length_cons, List.length_nil,
          List.append_assoc, List.cons_append, List.nil_append]
      have hfin : (p0 ++ ['\\', '\n']).length + r.length = p0.length + ('\\' :: '\n' :: r).length := by
        simp only [List.length_append, List.length_cons, List.length_nil]; omega
      obtain ⟨f', c', l', h1, h2, h3, h4⟩ := ih (p0 ++ ['\\', '\n']) (f + 1) c l _ hc hl he' hf hoof'
      exact ⟨f', c', l', h1, h2, h3, by rw [envAt_envAt, hfin] at h4; exact hb.trans h4⟩

/-- a run from a fresh configuration in a neutral state ends like the run of a fresh parser -/
theorem fresh_run_eq (depth : Nat) (lim : Option Int) (f : Nat) (c : Cfg SVal) (l : Local) (e : Env)
    (hc : Fresh c) (hl : LocRel 0 (initL lim) l) (hline : 2 ≤ e.tape.line.length)
    (hproc : e.proceed = false) (hf : f ≤ 1073741824)
    (hoof : ¬ IsOOF (M.run (engineRun depth f c) l e)) :
    resOf (M.run (engineRun depth f c) l e) =
      resOf (M.run (engineRun depth 1073741824 {}) (initL lim) e) := by
  have hrel := sim_parserFrom (pre := []) (top := true) depth f {} c
    ⟨⟨by rw [hc.1]; rfl, by rw [hc.2]; rfl⟩, (cRel_init 0).2⟩ _ _ e e
    (rel_nil_of_locRel hl e hline hproc)
  have hrr := runRel_nil_eq (runRel_of_outRel hrel)
  unfold engineRun at hoof ⊢
  rw [hrr]
  have hY : ¬ IsOOF (M.run (M.loop "LRParser.parse" (step realTables (lrHooks (npOf depth))) f {} >>=
      parserTail) (initL lim) e) := by
    rw [isOOF_iff_resOf] at hoof ⊢
    rw [← hrr]; exact hoof
  obtain ⟨d, hd⟩ : ∃ d, 1073741824 = f + d := ⟨1073741824 - f, by omega⟩
  rw [hd, M.run_bind, M.run_bind, loop_fuel_le _ _ _ _ _ d f (not_isOOF_of_bind hY)]

/-- **consuming a layout prefix**: … one parser run ends like the run started behind `rest` by a
    fresh parser — unless it runs out of fuel -/
theorem consumeL (depth : Nat) (line₁ : Str) (added : Bool) (lim : Option Int)
    (hlen : 2 ≤ line₁.length) (rest : Str) (hrest : Layout rest) (p0 : Str) (f : Nat)
    (c : Cfg SVal) (l : Local) (e : Env) (hc : Fresh c) (hl : LocRel 0 (initL lim) l)
    (he : e.tape = { line := p0 ++ (rest ++ line₁), idx := p0.length, added := added })
    (hproc : e.proceed = false) (hf : f ≤ 1073741824)
    (hoof : ¬ IsOOF (M.run (engineRun depth f c) l e)) :
    resOf (M.run (engineRun depth f c) l e) =
      resOf (M.run (engineRun depth 1073741824 {}) (initL lim)
        (envAt e (p0.length + rest.length))) := by
  obtain ⟨f', c', l', h1, h2, h3, h4⟩ := consumeX depth line₁ added lim rest hrest p0 f c l e hc hl
    he hf hoof
  rw [h4.resOf]
  refine fresh_run_eq depth lim f' c' l' _ h2 h3 ?_ hproc h1 (fun h => hoof (h4.isOOF.2 h))
  simp only [envAt, he, List.length_append]
  omega

/-! ## one parser run behind a layout prefix -/

/-- **C14, one parser run, layout prefix**: `runParser_shift` with comment lines allowed in the
    prefix -/
theorem runParser_layout (pre B : Str) (o : Opts) (t : List Char) (hpre : Layout pre)
    (hB : 2 ≤ (Tape.ofInput B).line.length) (hproc : o.proceed = false)
    (hfuel : ∀ site, (runParser (pre ++ B) o t).1 ≠ .error (.outOfFuel site)) :
    RunRel pre (runParser B o t).1 (runParser (pre ++ B) o t).1 := by
  have hBne : B ≠ [] := by
    intro h; subst h
    simp [Tape.ofInput] at hB
  rw [runParser_fst, runParser_fst]
  have hmax : maxDepth = 63 + 1 := rfl
  rw [hmax]
  have hoof : ¬ IsOOF (M.run (parserRun (63 + 1)) (initL o.limit) (envOf (pre ++ B) o t)) := by
    rw [isOOF_iff_resOf]
    rintro ⟨site, h⟩
    exact hfuel site (by rw [runParser_fst, hmax]; exact h)
  have hcons := consumeL 63 (Tape.ofInput B).line (Tape.ofInput B).added o.limit hB pre hpre
    [] 1073741824 {} (initL o.limit) (envOf (pre ++ B) o t) ⟨rfl, rfl⟩
    (by
      exact { tape := rfl, opts := rfl, eol := rfl, before := HEq.refl _, last := HEq.refl _
              cur := HEq.refl _, curFlags := rfl, ps := rfl, obc := rfl, esacs := rfl
              dstack := rfl, positions := rfl, eofToken := rfl, eofOK := Or.inl rfl
              redirstack := rfl, store := rfl, limit := rfl })
    (by simp only [envOf]; exact ofInput_append pre B hBne) hproc (Nat.le_refl _)
    hoof
  rw [List.length_nil, Nat.zero_add] at hcons
  have hpr : parserRun (63 + 1) = engineRun 63 1073741824 {} := rfl
  rw [hpr, hcons, ← hpr]
  refine runRel_of_outRel (n' := 0) ?_
  refine sim_parserRun actionsHyp (63 + 1) true _ _ _ _ ?_
  exact
    { env := ⟨⟨by simp only [envAt, envOf]; rw [ofInput_append pre B hBne],
                by simp only [envAt, envOf]; rw [ofInput_idx]; omega,
                by simp only [envAt, envOf]; rw [ofInput_append pre B hBne], hB⟩, rfl, rfl, rfl⟩
      loc := { tape := rfl, opts := rfl, eol := rfl, before := HEq.refl _, last := HEq.refl _
               cur := HEq.refl _, curFlags := rfl, ps := rfl, obc := rfl, esacs := rfl
               dstack := rfl, positions := rfl, eofToken := rfl, eofOK := Or.inl rfl
               redirstack := rfl, store := rfl, limit := rfl }
      mode := rfl
      room := fun _ => Room.zero _
      eolOK := fun _ h => by cases h
      proc := hproc }

end Bashlex.C14
