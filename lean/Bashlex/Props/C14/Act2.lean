/-
  C14, layer 3b (part 2): relational lemmas for the list / pipeline / case-clause actions.
-/
import Bashlex.Props.C14.ActSample

namespace Bashlex.C14
open Bashlex Bashlex.C10 Bashlex.C12 Bashlex.LR
set_option linter.unusedSimpArgs false
set_option linter.unusedVariables false

variable {pre : Str} {top : Bool} {n n' : Nat} {np : NestedParse}

/-! ## trivial actions -/

theorem rel_empty : ActionRel pre top np "p_empty" := by
  intro sorts σ args habs hsafe hargs hok
  unfold actionCore; simp only []
  exact Sim.pure (Nat.le_refl _) rfl

theorem rel_newline_list : ActionRel pre top np "p_newline_list" := by
  intro sorts σ args habs hsafe hargs hok
  unfold actionCore; simp only []
  exact Sim.pure (Nat.le_refl _) rfl

theorem rel_simple_list_terminator : ActionRel pre top np "p_simple_list_terminator" := by
  intro sorts σ args habs hsafe hargs hok
  unfold actionCore; simp only []
  exact Sim.pure (Nat.le_refl _) rfl

theorem rel_list : ActionRel pre top np "p_list" := by
  intro sorts σ args habs hsafe hargs hok
  unfold actionCore; simp only []
  rw [slice_map]
  exact Sim.pure (Nat.le_refl _) rfl

theorem rel_timespec : ActionRel pre top np "p_timespec" := by
  intro sorts σ args habs hsafe hargs hok
  unfold actionCore; simp only []
  exact Sim.bind (sim_handleNotImplemented (α := Unit) _ _ _) (fun _ _ h => h.elim)

/-! ## case clauses -/

theorem rel_case_clause : ActionRel pre top np "p_case_clause" := by
  intro sorts σ args habs hsafe hargs hok
  unfold actionCore; simp only []
  rw [len_map]
  refine Sim.ite (fun _ => ?_) (fun _ => ?_)
  · refine Sim.bind (sim_nodeAt 1 _) (fun a b hab => ?_)
    subst hab
    exact Sim.pure (Nat.le_refl _) rfl
  · refine Sim.bind (sim_nodesAt 1 _) (fun l l' hl => ?_)
    subst hl
    refine Sim.bind (sim_nodeAt 2 _) (fun a b hab => ?_)
    subst hab
    exact Sim.pure (Nat.le_refl _) (by simp [ActRes, shiftS, List.map_append])

theorem rel_case_clause_sequence : ActionRel pre top np "p_case_clause_sequence" := by
  intro sorts σ args habs hsafe hargs hok
  have hpos : ArgsPos args := argsPos_of_sorts hargs hsafe hok
  unfold actionCore; simp only []
  rw [len_map]
  refine Sim.ite (fun _ => ?_) (fun _ => ?_)
  · refine Sim.bind (sim_nodeAt 1 _) (fun a b hab => ?_)
    subst hab
    refine Sim.bind (sim_reservedAt hpos 2) (fun r r' hr => ?_)
    subst hr
    exact Sim.pure (Nat.le_refl _) rfl
  · refine Sim.bind (sim_nodesAt 1 _) (fun l l' hl => ?_)
    subst hl
    refine Sim.bind (sim_nodeAt 2 _) (fun a b hab => ?_)
    subst hab
    refine Sim.bind (sim_reservedAt hpos 3) (fun r r' hr => ?_)
    subst hr
    exact Sim.pure (Nat.le_refl _) (by simp [ActRes, shiftS, List.map_append])

theorem rel_pattern (hexp : ExpRel pre top np) : ActionRel pre top np "p_pattern" := by
  intro sorts σ args habs hsafe hargs hok
  have hpos : ArgsPos args := argsPos_of_sorts hargs hsafe hok
  unfold actionCore; simp only []
  rw [len_map]
  refine Sim.ite (fun _ => ?_) (fun _ => ?_)
  · refine Sim.bind (sim_tokAt hpos 1) (fun t t' ht => ?_)
    obtain ⟨rfl, hp, _⟩ := ht
    refine Sim.bind (hexp t hp) (fun w w' hw => ?_)
    subst hw
    exact Sim.pure (Nat.le_refl _) rfl
  · refine Sim.bind (sim_nodesAt 1 _) (fun l l' hl => ?_)
    subst hl
    refine Sim.bind (sim_reservedAt hpos 2) (fun r r' hr => ?_)
    subst hr
    refine Sim.bind (sim_tokAt hpos 3) (fun t t' ht => ?_)
    obtain ⟨rfl, hp, _⟩ := ht
    refine Sim.bind (hexp t hp) (fun w w' hw => ?_)
    subst hw
    exact Sim.pure (Nat.le_refl _) (by simp [ActRes, shiftS, List.map_append])

theorem sim_compoundOf (parts parts' : List Node)
    (h : parts' = parts.map (Node.shift (kOf pre top))) :
    Sim pre top n n
      (do let sp ← partsspan parts; pure (SVal.node (Node.compound sp parts []), false) : M (SVal × Bool))
      (do let sp ← partsspan parts'; pure (SVal.node (Node.compound sp parts' []), false))
      (ActRes (kOf pre top)) := by
  subst h
  refine Sim.bind (sim_partsspan parts) (fun sp sp' hsp => ?_)
  subst hsp
  refine Sim.pure (Nat.le_refl _) ?_
  simp [ActRes, shiftS, shift_compound]

theorem rel_pattern_list : ActionRel pre top np "p_pattern_list" := by
  intro sorts σ args habs hsafe hargs hok
  have hpos : ArgsPos args := argsPos_of_sorts hargs hsafe hok
  unfold actionCore; simp only []
  rw [len_map]
  refine Sim.ite (fun _ => ?_) (fun _ => ?_)
  · refine Sim.bind (sim_nodesAt 2 _) (fun pat pat' hpat => ?_)
    subst hpat
    refine Sim.bind (sim_partsspan pat) (fun sp sp' hsp => ?_)
    subst hsp
    refine Sim.bind (sim_reservedAt hpos 3) (fun r r' hr => ?_)
    subst hr
    rw [slice_map, pure_bind, pure_bind]
    cases PCtx.slice ⟨np, args⟩ 4 with
    | node nd => exact sim_compoundOf _ _ (by simp [Node.shift, Node.mapPos, Node.mapPosL_eq_map, sh])
    | none => exact sim_compoundOf _ _ (by simp [Node.shift, Node.mapPos, Node.mapPosL_eq_map, sh])
    | tok t => exact sim_compoundOf _ _ (by simp [Node.shift, Node.mapPos, Node.mapPosL_eq_map, sh])
    | nodes l => exact sim_compoundOf _ _ (by simp [Node.shift, Node.mapPos, Node.mapPosL_eq_map, sh])
  · refine Sim.bind (sim_nodesAt 3 _) (fun pat pat' hpat => ?_)
    subst hpat
    refine Sim.bind (sim_reservedAt hpos 2) (fun l l' hl => ?_)
    subst hl
    refine Sim.bind (sim_partsspan pat) (fun sp sp' hsp => ?_)
    subst hsp
    refine Sim.bind (sim_reservedAt hpos 4) (fun r r' hr => ?_)
    subst hr
    rw [slice_map, pure_bind, pure_bind]
    cases PCtx.slice ⟨np, args⟩ 5 with
    | node nd => exact sim_compoundOf _ _ (by simp [Node.shift, Node.mapPos, Node.mapPosL_eq_map, sh])
    | none => exact sim_compoundOf _ _ (by simp [Node.shift, Node.mapPos, Node.mapPosL_eq_map, sh])
    | tok t => exact sim_compoundOf _ _ (by simp [Node.shift, Node.mapPos, Node.mapPosL_eq_map, sh])
    | nodes l' => exact sim_compoundOf _ _ (by simp [Node.shift, Node.mapPos, Node.mapPosL_eq_map, sh])

/-! ## lists -/

theorem rel_compound_list : ActionRel pre top np "p_compound_list" := by
  intro sorts σ args habs hsafe hargs hok
  unfold actionCore; simp only []
  rw [len_map]
  refine Sim.ite (fun _ => ?_) (fun _ => ?_)
  · rw [slice_map]
    exact Sim.pure (Nat.le_refl _) rfl
  · refine Sim.bind (sim_nodesAt 2 _) (fun parts parts' hp => ?_)
    subst hp
    rw [List.length_map]
    refine Sim.ite (fun _ => ?_) (fun _ => ?_)
    · refine Sim.bind (sim_partsspan parts) (fun sp sp' hsp => ?_)
      subst hsp
      refine Sim.pure (Nat.le_refl _) ?_
      simp [ActRes, shiftS, Node.shift, Node.mapPos, Node.mapPosL_eq_map, sh]
    · rw [List.head?_map]
      cases parts.head? with
      | none => exact Sim.foreign _ _
      | some nd => exact Sim.pure (Nat.le_refl _) rfl

theorem rel_list0 : ActionRel pre top np "p_list0" := by
  intro sorts σ args habs hsafe hargs hok
  have hpos : ArgsPos args := argsPos_of_sorts hargs hsafe hok
  unfold actionCore; simp only []
  refine Sim.bind (sim_nodesAt 1 _) (fun parts parts' hp => ?_)
  subst hp
  rw [List.length_map, isTok_map]
  refine Sim.ite (fun _ => ?_) (fun _ => ?_)
  · refine Sim.bind (sim_operatorAt hpos 2) (fun r r' hr => ?_)
    subst hr
    rw [← List.map_singleton, ← List.map_append]
    refine Sim.bind (sim_partsspan _) (fun sp sp' hsp => ?_)
    subst hsp
    refine Sim.pure (Nat.le_refl _) ?_
    simp [ActRes, shiftS, Node.shift, Node.mapPos, Node.mapPosL_eq_map, sh]
  · rw [List.head?_map]
    cases parts.head? with
    | none => exact Sim.foreign _ _
    | some nd => exact Sim.pure (Nat.le_refl _) rfl

/-- `joinLists` (list1 / simple_list1 / pipeline) -/
theorem sim_joinLists {args : List SVal} (mk : Span → Str → Node)
    (hmk : ∀ sp s, mk (sh (kOf pre top) sp) s = (mk sp s).shift (kOf pre top))
    (hpos : ArgsPos args) (site : String) :
    Sim pre top n n (joinLists ⟨np, args⟩ mk site)
      (joinLists ⟨np, args.map (shiftS (kOf pre top))⟩ mk site)
      (fun a b => b = shiftS (kOf pre top) a) := by
  unfold joinLists
  rw [len_map]
  refine Sim.ite (fun _ => ?_) (fun _ => ?_)
  · refine Sim.bind (sim_nodeAt 1 _) (fun a b hab => ?_)
    subst hab
    exact Sim.pure (Nat.le_refl _) rfl
  · refine Sim.bind (sim_nodesAt 1 _) (fun l l' hl => ?_)
    subst hl
    refine Sim.bind (sim_nodesAt _ _) (fun r r' hr => ?_)
    subst hr
    refine Sim.bind (sim_strAt 2) (fun s s' hs => ?_)
    obtain ⟨rfl, t, h⟩ := hs
    rw [lexspan_map hpos h, hmk]
    exact Sim.pure (Nat.le_refl _) (by simp [shiftS, List.map_append])

theorem rel_list1 : ActionRel pre top np "p_list1" := by
  intro sorts σ args habs hsafe hargs hok
  have hpos : ArgsPos args := argsPos_of_sorts hargs hsafe hok
  unfold actionCore; simp only []
  refine Sim.bind (sim_joinLists .operator (fun _ _ => rfl) hpos _) (fun v v' hv => ?_)
  subst hv
  exact Sim.pure (Nat.le_refl _) rfl

theorem rel_simple_list1 : ActionRel pre top np "p_simple_list1" := by
  intro sorts σ args habs hsafe hargs hok
  have hpos : ArgsPos args := argsPos_of_sorts hargs hsafe hok
  unfold actionCore; simp only []
  refine Sim.bind (sim_joinLists .operator (fun _ _ => rfl) hpos _) (fun v v' hv => ?_)
  subst hv
  exact Sim.pure (Nat.le_refl _) rfl

theorem rel_pipeline : ActionRel pre top np "p_pipeline" := by
  intro sorts σ args habs hsafe hargs hok
  have hpos : ArgsPos args := argsPos_of_sorts hargs hsafe hok
  unfold actionCore; simp only []
  refine Sim.bind (sim_joinLists .pipe (fun _ _ => rfl) hpos _) (fun v v' hv => ?_)
  subst hv
  exact Sim.pure (Nat.le_refl _) rfl

/-! ## `p_list_terminator` -/

theorem rel_list_terminator : ActionRel pre top np "p_list_terminator" := by
  intro sorts σ args habs hsafe hargs hok
  unfold actionCore; simp only []
  rw [slice_map]
  cases h : PCtx.slice ⟨np, args⟩ 1 with
  | none => exact Sim.pure (Nat.le_refl _) rfl
  | node nd => exact Sim.pure (Nat.le_refl _) rfl
  | nodes l => exact Sim.pure (Nat.le_refl _) rfl
  | tok t =>
    show Sim pre top 0 0 (if (t.value == TVal.str [';']) = true then _ else _)
      (if ((shiftTok (kOf pre top) t).value == TVal.str [';']) = true then _ else _) _
    refine Sim.iteIff Iff.rfl (fun hv => ?_) (fun _ => ?_)
    · have hp : t.pos.isSome = true := by
        cases hp : t.pos with
        | some p => rfl
        | none =>
          have := (hok _ (slice_mem h) t rfl hp).2
          rw [this] at hv
          exact absurd hv (by decide)
      have e : PCtx.lexspan ⟨np, args.map (shiftS (kOf pre top))⟩ 1 =
          sh (kOf pre top) (PCtx.lexspan ⟨np, args⟩ 1) := by
        unfold PCtx.lexspan
        rw [slice_map, h]
        exact lexspan_shiftS_tok _ hp
      rw [e]
      exact Sim.pure (Nat.le_refl _) rfl
    · exact Sim.pure (Nat.le_refl _) rfl

/-! ## `p_elif_clause` -/

/-- the arguments of `p_elif_clause`: tokens with spans, nodes, lists of nodes; never `None` -/
theorem elif_args : ∀ {sorts : List Srt} {args : List SVal}, Forall2 HasSort sorts args →
    sorts.all ifPartSort = true → sorts.all (fun s => s != .none && tokNotEOF s) = true →
    (∀ a, a ∈ args → SOK a) →
    ∀ a, a ∈ args → a ≠ .none ∧ ∀ t, a = .tok t → t.pos.isSome = true := by
  intro sorts args h
  induction h with
  | nil => intro _ _ _ a ha; cases ha
  | @cons s v ss vs h1 _ ih =>
    intro hif hall hok a ha
    rw [List.all_cons, Bool.and_eq_true] at hif hall
    rcases List.mem_cons.1 ha with rfl | ha'
    · have hs := hall.1
      rw [Bool.and_eq_true] at hs
      cases s with
      | none => exact absurd hs.1 (by decide)
      | tok ty =>
        cases ty with
        | none => exact absurd hs.2 (by decide)
        | some ty =>
          have hne : ty ≠ .EOF := by
            intro h; subst h; exact absurd hs.2 (by decide)
          obtain ⟨t', rfl, _, _, hp⟩ :=
            tok_of_sort (s := .tok (some ty)) h1 hne (hok _ List.mem_cons_self)
          exact ⟨fun h => (by cases h), fun t ht => (by cases ht; exact hp)⟩
      | node c =>
        obtain ⟨_, rfl, _⟩ := h1
        exact ⟨fun h => (by cases h), fun t ht => (by cases ht)⟩
      | optNode c => exact absurd hif.1 (by simp [ifPartSort])
      | nodes k =>
        obtain ⟨_, rfl, _⟩ := h1
        exact ⟨fun h => (by cases h), fun t ht => (by cases ht)⟩
    · exact ih hif.2 hall.2 (fun a ha => hok a (List.mem_cons_of_mem _ ha)) a ha'

theorem rel_elif_clause : ActionRel pre top np "p_elif_clause" := by
  intro sorts σ args habs hsafe hargs hok
  have hif : sorts.all ifPartSort = true := by
    unfold absAction at habs; simp only [] at habs
    split at habs
    · assumption
    · cases habs
  have hA := elif_args hargs hif hsafe hok
  unfold actionCore; simp only []
  refine Sim.bind (mid := 0) (V := fun (a b : List Node) => b = a.map (Node.shift (kOf pre top))) ?_
    (fun parts parts' hp => ?_)
  · refine Sim.forIn_map (g := shiftS (kOf pre top))
      (R := fun (a b : List Node) => b = a.map (Node.shift (kOf pre top)))
      (fun a => a ≠ .none ∧ ∀ t, a = .tok t → t.pos.isSome = true) ?_ args [] [] hA rfl
    intro a b₁ b₂ ha hb
    subst hb
    cases a with
    | none => exact absurd rfl ha.1
    | node nd => exact Sim.pure (Nat.le_refl _) (by simp [List.map_append])
    | nodes l => exact Sim.pure (Nat.le_refl _) (by simp [List.map_append])
    | tok t =>
      have hp := ha.2 t rfl
      refine Sim.pure (Nat.le_refl _) ?_
      show _ = List.map _ _
      rw [shiftTok_span _ hp]
      simp [List.map_append, Node.shift, Node.mapPos, sh]
  · subst hp
    exact Sim.pure (Nat.le_refl _) rfl

/-! ## `p_pipeline_command` -/

theorem pipeline_command_shape {sorts : List Srt} {args : List SVal}
    (hsafe : shiftSafe "p_pipeline_command" sorts = true) (hargs : Forall2 HasSort sorts args)
    (hok : ∀ a, a ∈ args → SOK a) :
    (∃ l, args = [.nodes l]) ∨ (∃ t v, args = [.tok t, v] ∧ t.pos.isSome = true) := by
  unfold shiftSafe at hsafe; simp only [] at hsafe
  split at hsafe
  · obtain ⟨a, rfl, ⟨l, rfl, _⟩⟩ := forall2_1 hargs
    exact Or.inl ⟨l, rfl⟩
  · rename_i ty s
    obtain ⟨a, b, rfl, ha, _⟩ := forall2_2 hargs
    have hne : ty ≠ .EOF := by simpa using hsafe
    obtain ⟨t, rfl, _, _, hp⟩ :=
      tok_of_sort (s := .tok (some ty)) ha hne (hok _ List.mem_cons_self)
    exact Or.inr ⟨t, b, rfl, hp⟩
  · cases hsafe

/-- a pipeline node over `l` (spans from the first and the last part) -/
theorem sim_pipeOf (l : List Node) :
    Sim pre top n n
      (match l.head?, l.getLast? with
       | some a, some b => do
         let pa ← nodePos a
         let pb ← nodePos b
         pure (SVal.node (Node.pipeline (pa.fst, pb.snd) l), false)
       | _, _ => M.foreign "IndexError" "p_pipeline_command" : M (SVal × Bool))
      (match (l.map (Node.shift (kOf pre top))).head?, (l.map (Node.shift (kOf pre top))).getLast? with
       | some a, some b => do
         let pa ← nodePos a
         let pb ← nodePos b
         pure (SVal.node (Node.pipeline (pa.fst, pb.snd) (l.map (Node.shift (kOf pre top)))), false)
       | _, _ => M.foreign "IndexError" "p_pipeline_command" : M (SVal × Bool))
      (ActRes (kOf pre top)) := by
  rw [List.head?_map, List.getLast?_map]
  cases l.head? with
  | none => exact Sim.foreign _ _
  | some a =>
    cases l.getLast? with
    | none => exact Sim.foreign _ _
    | some b =>
      simp only [Option.map_some]
      refine Sim.bind (sim_nodePos a) (fun pa pa' ha => ?_)
      refine Sim.bind (sim_nodePos b) (fun pb pb' hb => ?_)
      subst ha hb
      refine Sim.pure (Nat.le_refl _) ?_
      simp [ActRes, shiftS, Node.shift, Node.mapPos, Node.mapPosL_eq_map, sh]

/-- `! pipeline` where the second element is a pipeline node -/
theorem sim_bangPipe (sp : Span) (parts parts' : List Node)
    (h : parts' = parts.map (Node.shift (kOf pre top))) :
    Sim pre top n n
      (match (Node.reservedword sp ['!'] :: parts).getLast? with
       | some b => do
         let pb ← nodePos b
         pure (SVal.node (Node.pipeline ((Node.reservedword sp ['!']).pos.fst, pb.snd)
           (Node.reservedword sp ['!'] :: parts)), false)
       | none => M.foreign "IndexError" "p_pipeline_command" : M (SVal × Bool))
      (match (Node.reservedword (sh (kOf pre top) sp) ['!'] :: parts').getLast? with
       | some b => do
         let pb ← nodePos b
         pure (SVal.node (Node.pipeline ((Node.reservedword (sh (kOf pre top) sp) ['!']).pos.fst, pb.snd)
           (Node.reservedword (sh (kOf pre top) sp) ['!'] :: parts')), false)
       | none => M.foreign "IndexError" "p_pipeline_command" : M (SVal × Bool))
      (ActRes (kOf pre top)) := by
  subst h
  have e : Node.reservedword (sh (kOf pre top) sp) ['!'] :: parts.map (Node.shift (kOf pre top)) =
      (Node.reservedword sp ['!'] :: parts).map (Node.shift (kOf pre top)) := rfl
  rw [e, List.getLast?_map]
  cases (Node.reservedword sp ['!'] :: parts).getLast? with
  | none => exact Sim.foreign _ _
  | some b =>
    simp only [Option.map_some]
    refine Sim.bind (sim_nodePos b) (fun pb pb' hb => ?_)
    subst hb
    refine Sim.pure (Nat.le_refl _) ?_
    simp [ActRes, shiftS, Node.shift, Node.mapPos, Node.mapPosL_eq_map, sh, Node.pos]

/-- `! command` -/
theorem sim_bangNode (sp : Span) (nd : Node) :
    Sim pre top n n
      (do
        let pb ← nodePos nd
        pure (SVal.node (Node.pipeline ((Node.reservedword sp ['!']).pos.fst, pb.snd)
          [Node.reservedword sp ['!'], nd]), false) : M (SVal × Bool))
      (do
        let pb ← nodePos (nd.shift (kOf pre top))
        pure (SVal.node (Node.pipeline ((Node.reservedword (sh (kOf pre top) sp) ['!']).pos.fst, pb.snd)
          [Node.reservedword (sh (kOf pre top) sp) ['!'], nd.shift (kOf pre top)]), false))
      (ActRes (kOf pre top)) := by
  refine Sim.bind (sim_nodePos nd) (fun pb pb' hb => ?_)
  subst hb
  refine Sim.pure (Nat.le_refl _) ?_
  simp [ActRes, shiftS, Node.shift, Node.mapPos, Node.mapPosL_eq_map, sh, Node.pos]

theorem rel_pipeline_command : ActionRel pre top np "p_pipeline_command" := by
  intro sorts σ args habs hsafe hargs hok
  have hshape := pipeline_command_shape hsafe hargs hok
  unfold actionCore; simp only []
  rw [len_map]
  refine Sim.ite (fun _ => ?_) (fun hlen => ?_)
  · refine Sim.bind (sim_nodesAt 1 _) (fun l l' hl => ?_)
    subst hl
    cases l with
    | nil => exact Sim.foreign _ _
    | cons a r =>
      cases r with
      | nil => exact Sim.pure (Nat.le_refl _) rfl
      | cons b r' => exact sim_pipeOf (a :: b :: r')
  · rcases hshape with ⟨l, rfl⟩ | ⟨t, v, rfl, hp⟩
    · exact absurd rfl hlen
    · have hs2 : PCtx.slice ⟨np, [.tok t, v]⟩ 2 = v := rfl
      have hl1 : PCtx.lexspan ⟨np, [.tok t, v]⟩ 1 = (t.lexpos, t.endlexpos) := rfl
      have hs2' : PCtx.slice ⟨np, [.tok t, v].map (shiftS (kOf pre top))⟩ 2 =
          shiftS (kOf pre top) v := rfl
      have hl1' : PCtx.lexspan ⟨np, [.tok t, v].map (shiftS (kOf pre top))⟩ 1 =
          sh (kOf pre top) (t.lexpos, t.endlexpos) := shiftTok_span _ hp
      rw [hs2, hl1, hs2', hl1']
      generalize (t.lexpos, t.endlexpos) = sp
      cases v with
      | none => exact Sim.pure (Nat.le_refl _) rfl
      | tok t' => exact Sim.foreign _ _
      | nodes l => exact Sim.foreign _ _
      | node nd =>
        cases nd
        case pipeline pos parts =>
          exact sim_bangPipe sp parts _ (Node.mapPosL_eq_map _ _)
        all_goals exact sim_bangNode sp _

/-! ## `p_simple_list`

  The value is moved by the shift.  The YaccAccept flag is
  `len(p) == 2 and cmdsubst and tok == eoftoken`, where `tok` is the current token of the
  tokenizer with its position erased.  `LocRel.cur` relates the current tokens of the two runs by
  `HEq` only (type and value, or both "neutral"): this does NOT determine the test (the flags of
  the two tokens are not related, and a placeholder / NEWLINE pair answers differently for an
  eof token that is a NEWLINE token).  The missing fact is the explicit hypothesis `CurFlags`;
  `curFlags_of` reduces it to: same flags, and the eof token is neither the placeholder nor a
  NEWLINE token (the only eof token of the model is `rparenEofToken`). -/

/-- the hypothesis left open for `p_simple_list`: in related states of a command-substitution parser
    with an eof token, `tok == eoftoken` answers the same in both runs -/
def CurFlags (pre : Str) (top : Bool) : Prop :=
  ∀ l₁ l₂ : Local, LocRel (kOf pre top) l₁ l₂ → l₁.ps.cmdsubst = true →
    ∀ e : Token, l₁.eofToken = some e →
      (({ l₂.currentToken with pos := none } : Token) = e ↔
        ({ l₁.currentToken with pos := none } : Token) = e)

/-- `tok == eoftoken` for `HEq` tokens with the same flags, against an eof token that is neither the
    placeholder nor a NEWLINE token -/
theorem eofTest_iff {t₁ t₂ e : Token} (h : HEq t₁ t₂) (hf : t₂.flags = t₁.flags)
    (he1 : e.ttype ≠ none) (he2 : e.ttype ≠ some .NEWLINE) :
    (({ t₂ with pos := none } : Token) = e ↔ ({ t₁ with pos := none } : Token) = e) := by
  rcases h with ⟨h1, h2⟩ | ⟨ha, hb⟩
  · rw [h1, h2, hf]
  · have hn : ∀ t : Token, Neutral t → ¬ (({ t with pos := none } : Token) = e) := by
      intro t ht heq
      subst heq
      rcases ht with ⟨h1, _⟩ | ⟨h1, _⟩
      · exact he1 h1
      · exact he2 h1
    exact ⟨fun h => absurd h (hn _ hb), fun h => absurd h (hn _ ha)⟩

/-- the eof token of the model (`rparenEofToken`) -/
theorem eofTest_rparen {t₁ t₂ : Token} (h : HEq t₁ t₂) (hf : t₂.flags = t₁.flags) :
    (({ t₂ with pos := none } : Token) = rparenEofToken ↔
      ({ t₁ with pos := none } : Token) = rparenEofToken) :=
  eofTest_iff h hf (by decide) (by decide)

theorem curFlags_of
    (h : ∀ l₁ l₂ : Local, LocRel (kOf pre top) l₁ l₂ → l₁.ps.cmdsubst = true →
      ∀ e : Token, l₁.eofToken = some e →
        l₂.currentToken.flags = l₁.currentToken.flags ∧ e.ttype ≠ none ∧ e.ttype ≠ some .NEWLINE) :
    CurFlags pre top := by
  intro l₁ l₂ hl hc e he
  obtain ⟨hf, he1, he2⟩ := h l₁ l₂ hl hc e he
  exact eofTest_iff hl.cur hf he1 he2

/-- the end of `p_simple_list`: the accept flag -/
theorem sim_acceptTail (hcur : CurFlags pre top) (b : Bool) (v : SVal) :
    Sim pre top n n
      (do
        let l ← get
        pure (v, b && l.ps.cmdsubst &&
          (match l.eofToken with
           | some e => decide (({ l.currentToken with pos := none } : Token) = e)
           | none => false)) : M (SVal × Bool))
      (do
        let l ← get
        pure (shiftS (kOf pre top) v, b && l.ps.cmdsubst &&
          (match l.eofToken with
           | some e => decide (({ l.currentToken with pos := none } : Token) = e)
           | none => false)) : M (SVal × Bool))
      (ActRes (kOf pre top)) := by
  refine Sim.get_bind (fun l₁ l₂ hl => ?_)
  refine SimAt.pure (Nat.le_refl _) ?_
  show (_, _) = (_, _)
  rw [hl.ps, hl.eofToken]
  congr 1
  cases b with
  | false => rfl
  | true =>
    cases hc : l₁.ps.cmdsubst with
    | false => rfl
    | true =>
      cases he : l₁.eofToken with
      | none => rfl
      | some e =>
        simp only [Bool.true_and]
        exact decide_eq_decide.2 (hcur l₁ l₂ hl hc e he)

theorem rel_simple_list (hcur : CurFlags pre top) : ActionRel pre top np "p_simple_list" := by
  intro sorts σ args habs hsafe hargs hok
  have hpos : ArgsPos args := argsPos_of_sorts hargs hsafe hok
  unfold actionCore; simp only []
  refine Sim.bindU (mid := 0) (sim_gatherheredocuments (n := 0) (by decide)) ?_
  refine Sim.bind (sim_nodesAt 1 _) (fun l1 l1' hl1 => ?_)
  subst hl1
  rw [len_map, List.length_map]
  refine Sim.ite (fun _ => ?_) (fun _ => ?_)
  · refine Sim.ite (fun h3 => ?_) (fun _ => ?_)
    · refine Sim.bind (sim_operatorAt hpos 2) (fun r r' hr => ?_)
      subst hr
      rw [pure_bind, pure_bind, ← List.map_singleton, ← List.map_append]
      refine Sim.bind (sim_partsspan _) (fun sp sp' hsp => ?_)
      subst hsp
      rw [pure_bind, pure_bind]
      have e : SVal.node (Node.list (sh (kOf pre top) sp)
            (List.map (Node.shift (kOf pre top)) (l1 ++ [r]))) =
          shiftS (kOf pre top) (SVal.node (Node.list sp (l1 ++ [r]))) := by
        simp [shiftS, Node.shift, Node.mapPos, Node.mapPosL_eq_map, sh]
      rw [e]
      exact sim_acceptTail hcur _ _
    · rw [pure_bind, pure_bind]
      refine Sim.bind (sim_partsspan _) (fun sp sp' hsp => ?_)
      subst hsp
      rw [pure_bind, pure_bind]
      have e : SVal.node (Node.list (sh (kOf pre top) sp)
            (List.map (Node.shift (kOf pre top)) l1)) =
          shiftS (kOf pre top) (SVal.node (Node.list sp l1)) := by
        simp [shiftS, Node.shift, Node.mapPos, Node.mapPosL_eq_map, sh]
      rw [e]
      exact sim_acceptTail hcur _ _
  · cases l1 with
    | nil => exact Sim.bind (mid := 0) (V := fun _ _ => False) (Sim.foreign _ _) (fun _ _ h => h.elim)
    | cons a r =>
      cases r with
      | nil =>
        simp only [List.map_cons, List.map_nil]
        rw [pure_bind, pure_bind]
        exact sim_acceptTail hcur _ (SVal.node a)
      | cons b r' => exact Sim.bind (mid := 0) (V := fun _ _ => False) (Sim.foreign _ _) (fun _ _ h => h.elim)

end Bashlex.C14
