/-
  C14 interior, part 2: the LR engine and `_parser.parse()` are natural in the spans, for EVERY
  span map `f : Span → Span` — conditional on the same statement for the token source and for the
  semantic actions (`InteriorHyp`).

  The two-run logic is C16's (`C16.Rel S S' m₁ m₂ R`: if run 1 returns normally, run 2 returns
  normally with `R`-related results, in `S'`-related states); its engine theorems `rel_step`,
  `rel_run` are generic in the value relation.  Here the value relation is
  `v₂ = mapS f v₁` (tokens: `pos.map f`; nodes: `Node.mapPos f`), and the loop is entered from ANY
  pair of related engine configurations (`engine_from`), which is what a two-phase argument
  (identical runs up to the insertion point, moved spans behind it) needs: for
  `f = spanMap |X| |ins|` old values (all positions `< |X|`) are fixed by `f` and new ones are
  moved by `|ins|`, so the single relation `v₂ = mapS f v₁` covers the mixed stack.
-/
import Bashlex.Props.C14.ISpec
import Bashlex.Props.C16.Engine

namespace Bashlex.C14I
open Bashlex Bashlex.LR Bashlex.C16
set_option linter.unusedSimpArgs false
set_option linter.unusedVariables false

/-! ## values under a span map -/

def mapTok (f : Span → Span) (t : Token) : Token := { t with pos := t.pos.map f }

def mapS (f : Span → Span) : SVal → SVal
  | .none => .none
  | .tok t => .tok (mapTok f t)
  | .node n => .node (n.mapPos f)
  | .nodes l => .nodes (l.map (Node.mapPos f))

def cellMap (f : Span → Span) (c : RedirCell) : RedirCell :=
  { c with pos := f c.pos, heredoc := c.heredoc.map (fun x => (f x.1, x.2)) }

/-- a property of the tokens on the value stack (intended: the token lies on one side of the
    insertion point, so that `f` moves it rigidly — what word expansion needs) -/
def QV (Q : Token → Prop) (v : SVal) : Prop := ∀ t, v = .tok t → Q t

/-- the value relation of the two runs -/
def VRf (f : Span → Span) (Q : Token → Prop) (v₁ v₂ : SVal) : Prop := v₂ = mapS f v₁ ∧ QV Q v₁

@[simp] theorem mapTok_ttype (f : Span → Span) (t : Token) : (mapTok f t).ttype = t.ttype := rfl
@[simp] theorem mapTok_value (f : Span → Span) (t : Token) : (mapTok f t).value = t.value := rfl
@[simp] theorem mapTok_flags (f : Span → Span) (t : Token) : (mapTok f t).flags = t.flags := rfl
@[simp] theorem mapTok_valueStr (f : Span → Span) (t : Token) :
    (mapTok f t).valueStr = t.valueStr := rfl
@[simp] theorem mapTok_is (f : Span → Span) (t : Token) (ty : TokType) :
    (mapTok f t).is ty = t.is ty := rfl

theorem symOfTok_mapTok (f : Span → Span) (t : Token) : symOfTok (mapTok f t) = symOfTok t := rfl

/-- the span of a moved token; a token without a span (EOF) reads `(0, 0)`, so `f` has to fix
    `(0, 0)` (true of `spanMap x k` for `0 < x`) -/
theorem mapTok_span {f : Span → Span} (h0 : f (0, 0) = (0, 0)) (t : Token) :
    ((mapTok f t).lexpos, (mapTok f t).endlexpos) = f (t.lexpos, t.endlexpos) := by
  unfold Token.lexpos Token.endlexpos mapTok
  cases t.pos with
  | none => simp only [Option.map_none, Option.getD_none, h0]
  | some p => simp only [Option.map_some, Option.getD_some]

theorem lexspan_mapS {f : Span → Span} (h0 : f (0, 0) = (0, 0)) (v : SVal) :
    (mapS f v).lexspan = f v.lexspan := by
  cases v with
  | tok t => exact mapTok_span h0 t
  | none => exact h0.symm
  | node n => exact h0.symm
  | nodes l => exact h0.symm

theorem forall2_VRf {f : Span → Span} {Q : Token → Prop} {a₁ a₂ : List SVal}
    (h : Forall2 (VRf f Q) a₁ a₂) : a₂ = a₁.map (mapS f) ∧ ∀ a ∈ a₁, QV Q a := by
  induction h with
  | nil => exact ⟨rfl, fun a ha => by cases ha⟩
  | cons h1 _ ih =>
    refine ⟨by rw [h1.1, ih.1]; rfl, fun a ha => ?_⟩
    rcases List.mem_cons.1 ha with rfl | ha
    · exact h1.2
    · exact ih.2 a ha

/-! ## `resolve` -/

mutual
theorem resolve_mapPos (f : Span → Span) (st : List RedirCell) : ∀ nd : Node,
    resolve (st.map (cellMap f)) (Node.mapPos f nd) = Node.mapPos f (resolve st nd)
  | .operator .. | .reservedword .. | .pipe .. | .parameter .. | .tilde .. | .heredoc ..
  | .word .. | .assignment .. | .commandsubstitution .. | .processsubstitution .. => by
    simp only [resolve, Node.mapPos]
  | .list _ ps | .pipeline _ ps | .ifN _ ps | .forN _ ps | .whileN _ ps | .untilN _ ps
  | .caseN _ ps | .pattern _ ps | .command _ ps | .unimplemented _ ps | .function _ _ _ ps => by
    simp only [resolve, Node.mapPos, resolveL_mapPos f st ps]
  | .compound _ l r => by
    simp only [resolve, Node.mapPos, resolveL_mapPos f st l, resolveL_mapPos f st r]
  | .redirect p i t o oa h hid => by
    cases hid with
    | none => simp only [resolve, Node.mapPos]
    | some id =>
      simp only [Node.mapPos, resolve, List.getElem?_map]
      cases st[id]? with
      | none => simp only [Option.map_none, Node.mapPos]
      | some c =>
        simp only [Option.map_some, Node.mapPos, cellMap]
        cases c.heredoc <;> simp [Node.mapPosO, Node.mapPos]
theorem resolveL_mapPos (f : Span → Span) (st : List RedirCell) : ∀ l : List Node,
    resolveL (st.map (cellMap f)) (Node.mapPosL f l) = Node.mapPosL f (resolveL st l)
  | [] => rfl
  | nd :: ns => by
    simp only [Node.mapPosL, resolveL, resolve_mapPos f st nd, resolveL_mapPos f st ns]
end

/-! ## the hypotheses -/

section
variable [EnvRel]

/-- naturality of one action function -/
def ActNat (f : Span → Span) (Q : Token → Prop) (S : Local → Local → Prop)
    (np₁ np₂ : NestedParse) (fname : String) : Prop :=
  ∀ args, (∀ a ∈ args, QV Q a) →
    Rel S S (action np₁ fname args) (action np₂ fname (args.map (mapS f)))
      (fun r₁ r₂ => VRf f Q r₁.1 r₂.1 ∧ r₁.2 = r₂.2)

/-- **what is assumed**: the token source delivers the same tokens with spans under `f`; every
    action function of the grammar is natural; the stores of pending here-documents are related -/
structure InteriorHyp (f : Span → Span) (Q : Token → Prop) (S : Local → Local → Prop)
    (np₁ np₂ : NestedParse) : Prop where
  tok : Rel S S nextToken nextToken (fun t₁ t₂ => t₂ = mapTok f t₁ ∧ Q t₁)
  act : ∀ fname, fname ∈ Gen.prodFuncs → ActNat f Q S np₁ np₂ fname
  store : ∀ l₁ l₂, S l₁ l₂ → l₂.store = l₁.store.map (cellMap f)

variable {f : Span → Span} {Q : Token → Prop} {S : Local → Local → Prop} {np₁ np₂ : NestedParse}

omit [EnvRel] in
theorem isNl_mapS (np : NestedParse) (v : SVal) :
    (lrHooks np).isNl (mapS f v) = (lrHooks np).isNl v := by
  cases v <;> rfl

/-- the hooks of the two engines are related -/
theorem hooksR (h : InteriorHyp f Q S np₁ np₂) : HooksR S (VRf f Q) (lrHooks np₁) (lrHooks np₂) where
  next := by
    show Rel S S (nextToken >>= fun t => pure (symOfTok t, SVal.tok t))
      (nextToken >>= fun t => pure (symOfTok t, SVal.tok t)) _
    refine Rel.bind h.tok ?_
    rintro t₁ t₂ ⟨rfl, hq⟩
    exact Rel.pure ⟨(symOfTok_mapTok f t₁).symm, rfl, fun t ht => by cases ht; exact hq⟩
  act := by
    intro p args₁ args₂ ha
    obtain ⟨hargs, hq⟩ := forall2_VRf ha
    rw [hargs]
    show Rel S S (action np₁ (Gen.prodFuncs.getD p "") args₁)
      (action np₂ (Gen.prodFuncs.getD p "") (args₁.map (mapS f))) _
    by_cases hp : p < Gen.prodFuncs.length
    · have hmem : Gen.prodFuncs.getD p "" ∈ Gen.prodFuncs := by
        rw [List.getD_eq_getElem?_getD, List.getElem?_eq_getElem hp]; exact List.getElem_mem hp
      exact (h.act _ hmem args₁ hq).conseq (fun r₁ r₂ hr => ⟨hr.1, hr.2⟩)
    · -- no such production: the action is the model's "not modelled" marker
      have : Gen.prodFuncs.getD p "" = "" := by
        rw [List.getD_eq_getElem?_getD, List.getElem?_eq_none (Nat.le_of_not_lt hp)]; rfl
      rw [this]
      refine Rel.noRet ?_
      unfold action actionCore
      exact NoRet.bind_left NoRet.foreign
  isNl := by
    rintro v₁ v₂ ⟨rfl, _⟩
    exact (isNl_mapS np₂ v₁).symm.trans (by cases v₁ <;> rfl)

/-- **the engine from any pair of related configurations** (mixed stacks included) -/
theorem engine_from (h : InteriorHyp f Q S np₁ np₂) (fuel : Nat) (c₁ c₂ : Cfg SVal)
    (hc : CfgR (VRf f Q) c₁ c₂) :
    Rel S S (M.loop "LRParser.parse" (step realTables (lrHooks np₁)) fuel c₁)
      (M.loop "LRParser.parse" (step realTables (lrHooks np₂)) fuel c₂) (ResRel (VRf f Q)) :=
  Rel.loop (I := CfgR (VRf f Q)) (fun c₁ c₂ hc => rel_step realTables (hooksR h) hc) fuel _ _ hc

/-- … and the tail of `_parser.parse()`: the node of run 2 is the node of run 1 under `f` -/
theorem parserTail_rel (h : InteriorHyp f Q S np₁ np₂) {r₁ r₂ : Res SVal}
    (hr : ResRel (VRf f Q) r₁ r₂) :
    Rel S S (C14.parserTail r₁) (C14.parserTail r₂)
      (fun a b => b = a.map (Node.mapPos f)) := by
  unfold C14.parserTail
  refine Rel.bind Rel.get ?_
  intro l₁ l₂ hl
  cases r₁ with
  | blank a b =>
    cases r₂ with
    | blank a' b' => exact Rel.pure rfl
    | accepted v t c g => exact hr.elim
  | accepted v₁ t₁ c₁ g₁ =>
    cases r₂ with
    | blank a' b' => exact hr.elim
    | accepted v₂ t₂ c₂ g₂ =>
      have hv : v₂ = mapS f v₁ := hr.1.1
      subst hv
      cases v₁ with
      | node nd =>
        refine Rel.pure ?_
        simp only [mapS, Option.map_some, h.store l₁ l₂ hl, resolve_mapPos]
      | none => exact Rel.pure rfl
      | tok t => exact Rel.pure rfl
      | nodes l => exact Rel.pure rfl

/-- **C14 interior, conditional, one parser run from related configurations**: if run 1 returns
    a result, run 2 returns that result with every span under `f` -/
theorem interior_from_conditional (h : InteriorHyp f Q S np₁ np₂) (fuel : Nat) (c₁ c₂ : Cfg SVal)
    (hc : CfgR (VRf f Q) c₁ c₂) :
    Rel S S
      (M.loop "LRParser.parse" (step realTables (lrHooks np₁)) fuel c₁ >>= C14.parserTail)
      (M.loop "LRParser.parse" (step realTables (lrHooks np₂)) fuel c₂ >>= C14.parserTail)
      (fun a b => b = a.map (Node.mapPos f)) :=
  Rel.bind (engine_from h fuel c₁ c₂ hc) (fun r₁ r₂ hr => parserTail_rel h hr)

/-- … from the start of the run: `parserRun (depth + 1)` with the nested parser of that depth -/
theorem interior_run_conditional (depth : Nat)
    (h : InteriorHyp f Q S (C14.npOf depth) (C14.npOf depth)) :
    Rel S S (parserRun (depth + 1)) (parserRun (depth + 1))
      (fun a b => b = a.map (Node.mapPos f)) := by
  have e := C14.parserRun_succ' depth
  rw [e]
  have hc : CfgR (VRf f Q) ({} : Cfg SVal) ({} : Cfg SVal) := ⟨.nil, trivial, rfl, rfl⟩
  exact interior_from_conditional h 1073741824 {} {} hc

end

end Bashlex.C14I
