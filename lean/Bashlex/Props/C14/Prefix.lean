/-
  C14, layer 4: consuming a prefix of blanks and newlines.

  `sim_parserRun` relates the run on `B` from the start of its tape with the run on `pre ++ B`
  started BEHIND the prefix (cursor at `|pre|`).  The real run on `pre ++ B` starts at cursor 0 and
  first consumes the prefix: a blank is skipped by the loop at the head of `_readtoken` (one more
  iteration of that loop), a newline becomes a NEWLINE token which the LR engine shifts in state 0
  without pushing it (one more iteration of the engine loop).  Both only cost fuel; so, unless the
  run on `pre ++ B` runs out of fuel, it ends like the run started behind the prefix.
  The prefix is peeled one character at a time.
-/
import Bashlex.Props.C14.Engine
import Bashlex.Props.C14.Actions

namespace Bashlex.C14
open Bashlex Bashlex.C10 Bashlex.C12 Bashlex.LR
set_option linter.unusedSimpArgs false
set_option linter.unusedVariables false

/-! ## fuel -/

/-- the outcome "out of fuel" -/
def IsOOF {α : Type} (r : Except Exn α × Env) : Prop := ∃ site, r.1 = .error (.outOfFuel site)

theorem isOOF_bind {α β : Type} (m : M α) (f : α → M β) (l : Local) (e : Env)
    (h : IsOOF (M.run m l e)) : IsOOF (M.run (m >>= f) l e) := by
  obtain ⟨site, hs⟩ := h
  rw [M.run_bind]
  rcases hr : M.run m l e with ⟨r, e'⟩
  rw [hr] at hs
  simp only [] at hs
  subst hs
  exact ⟨site, rfl⟩

/-- more fuel does not change the outcome of a loop that did not run out of fuel -/
theorem loop_fuel_succ {σ α : Type} (site : String) (body : σ → M (σ ⊕ α)) :
    ∀ (fuel : Nat) (s : σ) (l : Local) (e : Env),
      ¬ IsOOF (M.run (M.loop site body fuel s) l e) →
      M.run (M.loop site body (fuel + 1) s) l e = M.run (M.loop site body fuel s) l e := by
  intro fuel
  induction fuel with
  | zero =>
    intro s l e h
    exact absurd ⟨site, rfl⟩ h
  | succ fuel ih =>
    intro s l e h
    rw [run_loop_succ site body (fuel + 1), run_loop_succ site body fuel] at *
    rcases hb : M.run (body s) l e with ⟨r, e'⟩
    rw [hb] at h
    cases r with
    | error x => rfl
    | ok v =>
      obtain ⟨a, l'⟩ := v
      cases a with
      | inl s' => exact ih s' l' e' h
      | inr a' => rfl

theorem not_isOOF_of_bind {α β : Type} {m : M α} {f : α → M β} {l : Local} {e : Env}
    (h : ¬ IsOOF (M.run (m >>= f) l e)) : ¬ IsOOF (M.run m l e) :=
  fun h' => h (isOOF_bind m f l e h')

theorem run_bind_congr {α β : Type} {m : M α} (f : α → M β) {l l' : Local} {e e' : Env}
    (h : M.run m l e = M.run m l' e') : M.run (m >>= f) l e = M.run (m >>= f) l' e' := by
  rw [M.run_bind, M.run_bind, h]

/-! ## a blank in front: one more iteration of the loop at the head of `_readtoken` -/

/-- the environment with the cursor of its tape at `i` -/
def envAt (e : Env) (i : Nat) : Env := { e with tape := { e.tape with idx := i } }

/-- reading a plain character off the top-level tape -/
theorem run_getc_plain (rqn : Bool) (l : Local) (e : Env) (c : Char) (hl : l.tape = none)
    (heol : l.eolLookahead = none) (hlt : e.tape.idx < e.tape.line.length)
    (hc : e.tape.line[e.tape.idx]? = some c) (hb : (c == '\\' && rqn) = false) :
    M.run (getc rqn) l e = (.ok (some c, l), envAt e (e.tape.idx + 1)) := by
  rw [run_getc rqn l e heol, tapeOf_none hl, tgetc_plain _ _ _ c hlt hc hb]
  simp only [putL_none hl, putE_none hl]
  rfl

/-- the loop at the head of `_readtoken` -/
def blankBody (c : Option Char) : M (Option Char ⊕ Option Char) := do
  match c with
  | some ch => if shellblank ch then return .inl (← getc true) else return .inr c
  | none => return .inr c

/-- `_readtoken` after its loop -/
def readtokenRest (c1 : Option Char) : M (TokType ⊕ Token) := do
  let mut character ← match c1 with
    | none => return .inr { ttype := some .EOF, value := .none }
    | some ch => pure ch
  if character == '#' then
    discardUntil '\n'
    let _ ← getc false
    character := '\n'
  recordpos 1
  if character == '\n' then
    gatherheredocuments
    modify fun l => { l with ps := { l.ps with assignok := false } }
    return .inl (← tokentypeOfChar character)
  if (← get).ps.regexp then
    return .inr (← readtokenword character)
  if (← shellmeta character) && !(← get).ps.dblparen then
    match ← readtokenMeta character with
    | some t => return .inl t
    | none => pure ()
  let l ← get
  if character == '-' && (l.lastReadToken.is .LESS_AND || l.lastReadToken.is .GREATER_AND) then
    return .inl (← tokentypeOfChar character)
  return .inr (← readtokenword character)

theorem readtoken_eq : readtoken = (do
    let c0 ← getc true
    let c1 ← M.loop "_readtoken" blankBody 1073741824 c0
    readtokenRest c1) := rfl

/-- a blank under the cursor is skipped by `_readtoken` -/
theorem run_readtoken_blank (l : Local) (e : Env) (c : Char) (hl : l.tape = none)
    (heol : l.eolLookahead = none) (hlt : e.tape.idx < e.tape.line.length)
    (hc : e.tape.line[e.tape.idx]? = some c) (hblank : shellblank c = true)
    (hoof : ¬ IsOOF (M.run readtoken l e)) :
    M.run readtoken l e = M.run readtoken l (envAt e (e.tape.idx + 1)) := by
  have hbs : (c == '\\' && true) = false := by
    unfold shellblank at hblank
    rcases Bool.or_eq_true_iff.1 hblank with h | h <;> rw [beq_iff_eq.1 h] <;> rfl
  -- the first iteration of the loop reads the next character
  have hloop : ∀ (K : Option Char → M (TokType ⊕ Token)),
      M.run (M.loop "_readtoken" blankBody 1073741824 (some c) >>= K) l (envAt e (e.tape.idx + 1)) =
      M.run (getc true >>= fun c0 => M.loop "_readtoken" blankBody 1073741823 c0 >>= K) l
        (envAt e (e.tape.idx + 1)) := by
    intro K
    show M.run ((blankBody (some c) >>= _) >>= K) _ _ = _
    unfold blankBody
    simp only [hblank, if_true, bind_assoc, pure_bind]
  have hL : M.run readtoken l e =
      M.run (getc true >>= fun c0 => M.loop "_readtoken" blankBody 1073741823 c0 >>= readtokenRest) l
        (envAt e (e.tape.idx + 1)) := by
    rw [readtoken_eq, M.run_bind, run_getc_plain true l e c hl heol hlt hc hbs]
    exact hloop _
  rw [hL] at hoof ⊢
  rw [readtoken_eq]
  rw [M.run_bind] at hoof
  rw [M.run_bind, M.run_bind]
  rcases hg : M.run (getc true) l (envAt e (e.tape.idx + 1)) with ⟨r, e'⟩
  rw [hg] at hoof
  cases r with
  | error x => rfl
  | ok v =>
    obtain ⟨c0, l'⟩ := v
    simp only [] at hoof ⊢
    have := loop_fuel_succ "_readtoken" blankBody 1073741823 c0 l' e' (not_isOOF_of_bind hoof)
    rw [M.run_bind, M.run_bind]
    have e1 : (1073741824 : Nat) = 1073741823 + 1 := rfl
    rw [e1, this]

/-- the history shift at the head of `token()` -/
def histStep (l : Local) : Local :=
  { l with twoTokensAgo := l.tokenBeforeThat, tokenBeforeThat := l.lastReadToken,
           lastReadToken := l.currentToken }

theorem dflt0 : realTables.dflt 0 = none := by decide +kernel

/-- an engine configuration with nothing on the stack and no look-ahead (the initial one, or the
    one after NEWLINE tokens were shifted in state 0) -/
def Fresh (c : Cfg SVal) : Prop := c.stack = [] ∧ c.la = none

variable {α : Type}

/-- from a fresh configuration the first thing the engine does is `token()`, whose first tape
    access is `_readtoken` -/
theorem run_loop_congr (np : NestedParse) (c : Cfg SVal) (hc : Fresh c) (f : Nat)
    (K : Res SVal → M α) (l : Local) (e e' : Env)
    (h : M.run readtoken (histStep l) e = M.run readtoken (histStep l) e') :
    M.run (M.loop "LRParser.parse" (step realTables (lrHooks np)) (f + 1) c >>= K) l e =
      M.run (M.loop "LRParser.parse" (step realTables (lrHooks np)) (f + 1) c >>= K) l e' := by
  refine run_bind_congr _ ?_
  show M.run (step realTables (lrHooks np) c >>= _) l e = M.run (step realTables (lrHooks np) c >>= _) l e'
  refine run_bind_congr _ ?_
  unfold step
  simp only [hc.1, hc.2, topState, dflt0]
  show M.run ((lrHooks np).next >>= _) l e = M.run ((lrHooks np).next >>= _) l e'
  refine run_bind_congr _ ?_
  show M.run (nextToken >>= _) l e = M.run (nextToken >>= _) l e'
  refine run_bind_congr _ ?_
  unfold nextToken
  rw [M.run_bind, M.run_bind, run_modify, run_modify]
  show M.run (readtoken >>= _) (histStep l) e = M.run (readtoken >>= _) (histStep l) e'
  exact run_bind_congr _ h

/-- … and a run that did not run out of fuel did not run out of fuel in that `_readtoken` -/
theorem readtoken_not_oof (np : NestedParse) (c : Cfg SVal) (hc : Fresh c) (f : Nat)
    (K : Res SVal → M α) (l : Local) (e : Env)
    (h : ¬ IsOOF (M.run (M.loop "LRParser.parse" (step realTables (lrHooks np)) (f + 1) c >>= K) l e)) :
    ¬ IsOOF (M.run readtoken (histStep l) e) := by
  have h1 := not_isOOF_of_bind h
  have h2 : ¬ IsOOF (M.run (step realTables (lrHooks np) c) l e) := by
    change ¬ IsOOF (M.run (step realTables (lrHooks np) c >>= _) l e) at h1
    exact not_isOOF_of_bind h1
  have h3 : ¬ IsOOF (M.run (lrHooks np).next l e) := by
    unfold step at h2
    simp only [hc.1, hc.2, topState, dflt0] at h2
    exact not_isOOF_of_bind h2
  have h4 : ¬ IsOOF (M.run nextToken l e) := not_isOOF_of_bind h3
  unfold nextToken at h4
  rw [M.run_bind, run_modify] at h4
  exact not_isOOF_of_bind h4

/-- **a blank in front**: the run from cursor `i` (on a blank) ends like the run from `i + 1` -/
theorem run_loop_blank (np : NestedParse) (c : Cfg SVal) (hc : Fresh c) (f : Nat)
    (K : Res SVal → M α) (l : Local) (e : Env) (ch : Char) (hl : l.tape = none)
    (heol : l.eolLookahead = none) (hlt : e.tape.idx < e.tape.line.length)
    (hch : e.tape.line[e.tape.idx]? = some ch) (hblank : shellblank ch = true)
    (hoof : ¬ IsOOF (M.run (M.loop "LRParser.parse" (step realTables (lrHooks np)) (f + 1) c >>= K) l e)) :
    M.run (M.loop "LRParser.parse" (step realTables (lrHooks np)) (f + 1) c >>= K) l e =
      M.run (M.loop "LRParser.parse" (step realTables (lrHooks np)) (f + 1) c >>= K) l
        (envAt e (e.tape.idx + 1)) :=
  run_loop_congr np c hc f K l e _
    (run_readtoken_blank (histStep l) e ch hl heol hlt hch hblank
      (readtoken_not_oof np c hc f K l e hoof))

/-! ## a newline in front: one more iteration of the engine loop -/

theorem run_recordpos (rel : Nat) (l : Local) (e : Env) :
    M.run (recordpos rel) l e =
      (.ok ((), { l with positions := l.positions ++ [(tapeOf l e).idx - rel] }), e) := by
  unfold recordpos
  rw [M.run_bind, run_curIdx]
  rfl

theorem run_gather_nil (l : Local) (e : Env) (h : l.redirstack = []) :
    M.run gatherheredocuments l e = (.ok ((), l), e) := by
  rw [gather_eq, M.run_bind, run_get]
  simp only [h, List.length_nil, Nat.zero_add]
  rw [run_loop_succ, run_gBody_nil l e h]

theorem run_blankLoop_nonblank (c : Char) (hc : shellblank c = false) (fuel : Nat) (l : Local)
    (e : Env) :
    M.run (M.loop "_readtoken" blankBody (fuel + 1) (some c)) l e = (.ok (some c, l), e) := by
  rw [run_loop_succ]
  unfold blankBody
  simp only [hc, Bool.false_eq_true, if_false]
  rfl

/-- `_readtoken` on a newline (no pending here-document) -/
theorem run_readtoken_nl (l : Local) (e : Env) (hl : l.tape = none)
    (heol : l.eolLookahead = none) (hrs : l.redirstack = [])
    (hlt : e.tape.idx < e.tape.line.length) (hc : e.tape.line[e.tape.idx]? = some '\n') :
    M.run readtoken l e =
      (.ok (.inl .NEWLINE,
        { l with positions := l.positions ++ [e.tape.idx],
                 ps := { l.ps with assignok := false } }), envAt e (e.tape.idx + 1)) := by
  rw [readtoken_eq, M.run_bind, run_getc_plain true l e '\n' hl heol hlt hc (by decide)]
  simp only []
  rw [M.run_bind, run_blankLoop_nonblank '\n' (by decide) 1073741823]
  simp only []
  unfold readtokenRest
  simp only [pure_bind, show ('\n' == '#') = false from by decide, Bool.false_eq_true, if_false,
    show ('\n' == '\n') = true from by decide, if_true, bind_assoc]
  rw [M.run_bind, run_recordpos]
  simp only []
  rw [M.run_bind, run_gather_nil _ _ (by exact hrs)]
  simp only []
  rw [M.run_bind, run_modify]
  simp only []
  have ht : tokentypeOfChar '\n' = pure TokType.NEWLINE := rfl
  rw [ht, pure_bind, M.run_pure, tapeOf_none hl]
  simp only [envAt, Nat.add_sub_cancel]

/-- the NEWLINE token at `i` -/
def tokNL (i : Nat) : Token :=
  { ttype := some .NEWLINE, value := .str ['\n'], pos := some (i, i + 1), flags := [] }

/-- the parser object after `token()` delivered a NEWLINE token -/
def afterNL (l : Local) (i : Nat) : Local :=
  { histStep l with positions := [], ps := { l.ps with assignok := false, eoftoken := false },
                    currentToken := tokNL i }

/-- `token()` on a newline -/
theorem run_nextToken_nl (l : Local) (e : Env) (hl : l.tape = none)
    (heol : l.eolLookahead = none) (hrs : l.redirstack = []) (hpos : l.positions = [])
    (hlt : e.tape.idx < e.tape.line.length) (hc : e.tape.line[e.tape.idx]? = some '\n') :
    M.run nextToken l e = (.ok (tokNL e.tape.idx, afterNL l e.tape.idx), envAt e (e.tape.idx + 1)) := by
  unfold nextToken
  rw [M.run_bind, run_modify]
  simp only []
  rw [M.run_bind, run_readtoken_nl _ e (by exact hl) (by exact heol) (by exact hrs) hlt hc]
  simp only []
  rw [M.run_bind, run_recordpos]
  simp only []
  rw [M.run_bind, run_createtoken]
  simp only [hpos, tapeOf, hl, envAt, List.nil_append, List.cons_append, List.length_cons,
    List.length_nil]
  have h1 : ¬ (0 + 1 + 1 < 2) := by decide
  have h2 : ([e.tape.idx, e.tape.idx + 1 - 0] : List Nat).dropLast.getLast?.getD 0 = e.tape.idx := rfl
  have h3 : ([e.tape.idx, e.tape.idx + 1 - 0] : List Nat).getLast?.getD 0 = e.tape.idx + 1 := rfl
  have h4 : ([e.tape.idx, e.tape.idx + 1 - 0] : List Nat).dropLast.dropLast = [] := rfl
  have h5 : (!decide (e.tape.idx < e.tape.idx + 1)) = false := by
    simp only [Nat.lt_succ_self, decide_true, Bool.not_true]
  rw [if_neg h1, h2, h3, h4, h5]
  simp only [Bool.false_eq_true, if_false, M.run_bind, run_modify, M.run_pure]
  have hv : TokType.NEWLINE.enumValue = .str ['\n'] := rfl
  rw [hv]
  cases l
  simp only at hl
  subst hl
  rfl

theorem act0nl : realTables.action 0 55 = some (.shift 3) := by decide +kernel
theorem symNL (i : Nat) : symOfTok (tokNL i) = 55 := by
  show TokType.NEWLINE.sym = 55
  decide +kernel

/-- the engine configuration after one more NEWLINE was shifted in state 0 -/
def cfgNL (c : Cfg SVal) : Cfg SVal :=
  { c with la := none, nlShifted := c.nlShifted + 1, consumed := c.consumed ++ [55] }

theorem fresh_cfgNL {c : Cfg SVal} (hc : Fresh c) : Fresh (cfgNL c) := ⟨hc.1, rfl⟩

/-- a step of the engine on a newline, from a fresh configuration: the NEWLINE token is shifted
    without being pushed -/
theorem run_step_nl (np : NestedParse) (c : Cfg SVal) (hc : Fresh c) (l : Local) (e : Env)
    (hl : l.tape = none) (heol : l.eolLookahead = none) (hrs : l.redirstack = [])
    (hpos : l.positions = []) (hlt : e.tape.idx < e.tape.line.length)
    (hch : e.tape.line[e.tape.idx]? = some '\n') :
    M.run (step realTables (lrHooks np) c) l e =
      (.ok (.inl (cfgNL c), afterNL l e.tape.idx), envAt e (e.tape.idx + 1)) := by
  unfold step
  simp only [hc.1, hc.2, topState, dflt0]
  show M.run (((nextToken >>= fun t => pure (symOfTok t, SVal.tok t)) : M (Nat × SVal)) >>= _) l e = _
  rw [M.run_bind, M.run_bind, run_nextToken_nl l e hl heol hrs hpos hlt hch]
  simp only [M.run_pure, symNL, act0nl]
  obtain ⟨hs, hla⟩ := hc
  cases c
  simp only at hs hla
  subst hs hla
  rfl

/-! ## one parser run from any pair of related engine configurations -/

/-- what `_parser.parse()` does with the result of the LR engine -/
def parserTail (res : Res SVal) : M (Option Node) := do
  let store := (← get).store
  match res with
  | .accepted (.node n) _ _ _ => pure (some (resolve store n))
  | _ => pure none

theorem parserRun_succ' (depth : Nat) : parserRun (depth + 1) =
    (M.loop "LRParser.parse" (step realTables (lrHooks (npOf depth))) 1073741824 {} >>= parserTail) :=
  rfl

variable {pre : Str} {top : Bool}

theorem sim_parserTail {res₁ res₂ : Res SVal} (hres : ResRel (kOf pre top) res₁ res₂) :
    Sim pre top 0 0 (parserTail res₁) (parserTail res₂)
      (fun a b => b = a.map (Node.shift (kOf pre top))) := by
  unfold parserTail
  refine Sim.get_bind (fun l₁ l₂ hl => ?_)
  cases res₁ with
  | blank a b =>
    cases res₂ with
    | blank a' b' => exact SimAt.pure (Nat.le_refl _) rfl
    | accepted v t c f => exact hres.elim
  | accepted v₁ t₁ c₁ f₁ =>
    cases res₂ with
    | blank a' b' => exact hres.elim
    | accepted v₂ t₂ c₂ f₂ =>
      have : v₂ = shiftS (kOf pre top) v₁ := hres
      subst this
      cases v₁ with
      | node nd =>
        refine SimAt.pure (Nat.le_refl _) ?_
        simp only [shiftS_node, Option.map_some, hl.store, resolve_shift]
      | none => exact SimAt.pure (Nat.le_refl _) rfl
      | tok t => exact SimAt.pure (Nat.le_refl _) rfl
      | nodes l => exact SimAt.pure (Nat.le_refl _) rfl

/-- the engine loop followed by the tail of `_parser.parse()`, from related configurations, with
    any fuel -/
theorem sim_parserFrom (depth : Nat) (fuel : Nat) (c₁ c₂ : Cfg SVal)
    (hc : CRel (kOf pre top) c₁ c₂) :
    Sim pre top 0 0
      (M.loop "LRParser.parse" (step realTables (lrHooks (npOf depth))) fuel c₁ >>= parserTail)
      (M.loop "LRParser.parse" (step realTables (lrHooks (npOf depth))) fuel c₂ >>= parserTail)
      (fun a b => b = a.map (Node.shift (kOf pre top))) := by
  have ih0 : Sim pre false 0 0 (parserRun depth) (parserRun depth) Eq := by
    refine (sim_parserRun actionsHyp depth false).weaken (fun a b h => ?_)
    rw [h]
    cases a with
    | none => rfl
    | some nd => simp only [Option.map_some, kOf_false, Node.shift_zero]
  have hnp : NPRel pre top (npOf depth) := npRel_npOf depth ih0
  have hact := actionsHyp pre top _ hnp
  have hH := (hooks_ok sat_nextToken (npOK_npOf depth)).toRaise
  exact Sim.bind (sim_lrRun hact hH fuel c₁ c₂ hc) (fun r₁ r₂ hr => sim_parserTail hr)

/-! ## results -/

/-- what `runParser` keeps of a run -/
def resOf (x : Except Exn (Option Node × Local) × Env) : Except Exn (Option Node) := x.1.map (·.1)

/-- **the results of one parser run on `B` and on `pre ++ B`**: the same node with every span
    moved by `|pre|`; `ParsingError`s raised by the top-level parser carry the longer source and
    the moved position, all other exceptions are the same -/
def RunRel (pre : Str) : Except Exn (Option Node) → Except Exn (Option Node) → Prop
  | .ok a, .ok b => b = a.map (Node.shift pre.length)
  | .error x, .error y => ExnRel pre x y
  | _, _ => False

theorem runRel_of_outRel {n' : Nat} {r₁ r₂ : Except Exn (Option Node × Local) × Env}
    (h : OutRel pre true n' (fun a b => b = a.map (Node.shift (kOf pre true))) r₁ r₂) :
    RunRel pre (resOf r₁) (resOf r₂) := by
  obtain ⟨x₁, e₁⟩ := r₁
  obtain ⟨x₂, e₂⟩ := r₂
  cases x₁ with
  | error a => cases x₂ with
    | error b => exact h.1
    | ok b => exact h.elim
  | ok a => cases x₂ with
    | error b => exact h.elim
    | ok b => exact h.1

theorem RunRel.refl (r : Except Exn (Option Node)) : RunRel [] r r := by
  cases r with
  | error x => exact Or.inl rfl
  | ok a =>
    show a = a.map (Node.shift 0)
    cases a with
    | none => rfl
    | some nd => simp only [Option.map_some, Node.shift_zero]


theorem runRel_nil_eq {r₁ r₂ : Except Exn (Option Node)} (h : RunRel [] r₁ r₂) : r₂ = r₁ := by
  cases r₁ with
  | error x =>
    cases r₂ with
    | ok b => exact h.elim
    | error y =>
      rcases h with h | ⟨m, src, p, rfl, rfl⟩
      · rw [h]
      · simp
  | ok a =>
    cases r₂ with
    | error y => exact h.elim
    | ok b =>
      have : b = a.map (Node.shift 0) := h
      rw [this]
      cases a with
      | none => rfl
      | some nd => simp only [Option.map_some, Node.shift_zero]

theorem isOOF_iff_resOf (x : Except Exn (Option Node × Local) × Env) :
    IsOOF x ↔ ∃ site, resOf x = .error (.outOfFuel site) := by
  obtain ⟨r, e⟩ := x
  cases r with
  | error y =>
    constructor
    · rintro ⟨s, h⟩; exact ⟨s, by simp only [] at h; rw [h]; rfl⟩
    · rintro ⟨s, h⟩
      refine ⟨s, ?_⟩
      simp only [resOf, Except.map] at h
      have := Except.error.inj h
      subst this
      rfl
  | ok v =>
    constructor
    · rintro ⟨s, h⟩; cases h
    · rintro ⟨s, h⟩; cases h

/-- more fuel does not change the outcome of a loop that did not run out of fuel -/
theorem loop_fuel_le {σ β : Type} (site : String) (body : σ → M (σ ⊕ β)) (s : σ) (l : Local)
    (e : Env) : ∀ (d f : Nat), ¬ IsOOF (M.run (M.loop site body f s) l e) →
      M.run (M.loop site body (f + d) s) l e = M.run (M.loop site body f s) l e := by
  intro d
  induction d with
  | zero => intro f _; rfl
  | succ d ih =>
    intro f h
    have h1 := ih f h
    rw [← Nat.add_assoc, loop_fuel_succ site body (f + d) s l e (by rw [h1]; exact h), h1]

/-! ## consuming the prefix -/

/-- blanks and newlines -/
def BlankNL (pre : Str) : Prop := ∀ c, c ∈ pre → c = ' ' ∨ c = '\t' ∨ c = '\n'

/-- the state of a fresh top-level `_parser` -/
def initL (lim : Option Int) : Local := { limit := lim }

theorem envAt_self (e : Env) : envAt e e.tape.idx = e := rfl
theorem envAt_envAt (e : Env) (i j : Nat) : envAt (envAt e i) j = envAt e j := rfl

theorem locRel_afterNL {lim : Option Int} {l : Local} (hl : LocRel 0 (initL lim) l) (i : Nat) :
    LocRel 0 (initL lim) (afterNL l i) :=
  { tape := hl.tape, opts := hl.opts, eol := hl.eol
    before := hl.last, last := hl.cur
    cur := Or.inr ⟨Or.inl ⟨rfl, rfl⟩, Or.inr ⟨rfl, rfl⟩⟩
    curFlags := rfl
    ps := by
      show ({ l.ps with assignok := false, eoftoken := false } : PState) = _
      rw [hl.ps]; rfl
    obc := hl.obc, esacs := hl.esacs, dstack := hl.dstack, positions := rfl
    eofToken := hl.eofToken, eofOK := hl.eofOK, redirstack := hl.redirstack, store := hl.store
    limit := hl.limit }

theorem rel_nil_of_locRel {lim : Option Int} {l : Local} (hl : LocRel 0 (initL lim) l) (e : Env)
    (hlen : 2 ≤ e.tape.line.length) (hproc : e.proceed = false) :
    Rel [] true 0 (initL lim) e l e :=
  { env := ⟨⟨rfl, rfl, rfl, hlen⟩, rfl, rfl, rfl⟩
    loc := hl
    mode := rfl
    room := fun _ => Room.zero _
    eolOK := fun _ h => by cases h
    proc := hproc }

/-- **consuming a prefix of blanks and newlines**: from a fresh engine configuration, with the
    cursor at `j` inside the prefix, one parser run ends like the run started behind the prefix
    by a fresh parser — unless it runs out of fuel -/
theorem consume (depth : Nat) (pre line₁ : Str) (added : Bool) (lim : Option Int)
    (hlen : 2 ≤ line₁.length) (hpre : BlankNL pre) :
    ∀ (m j : Nat), j + m = pre.length → ∀ (f : Nat) (c : Cfg SVal) (l : Local) (e : Env),
      Fresh c → LocRel 0 (initL lim) l →
      e.tape = { line := pre ++ line₁, idx := j, added := added } → e.proceed = false →
      f ≤ 1073741824 →
      ¬ IsOOF (M.run (M.loop "LRParser.parse" (step realTables (lrHooks (npOf depth))) f c >>=
          parserTail) l e) →
      resOf (M.run (M.loop "LRParser.parse" (step realTables (lrHooks (npOf depth))) f c >>=
          parserTail) l e) =
        resOf (M.run (M.loop "LRParser.parse" (step realTables (lrHooks (npOf depth))) 1073741824 {} >>=
          parserTail) (initL lim) (envAt e pre.length)) := by
  intro m
  induction m with
  | zero =>
    intro j hj f c l e hc hl he hproc hf hoof
    have hidx : e.tape.idx = pre.length := by rw [he]; omega
    have hline : 2 ≤ e.tape.line.length := by rw [he]; simp only [List.length_append]; omega
    rw [← hidx, envAt_self]
    have hrel := sim_parserFrom (pre := []) (top := true) depth f {} c
      ⟨⟨by rw [hc.1]; rfl, by rw [hc.2]; rfl⟩, (cRel_init 0).2⟩ _ _ e e
      (rel_nil_of_locRel hl e hline hproc)
    have hrr := runRel_nil_eq (runRel_of_outRel hrel)
    rw [hrr]
    have hY : ¬ IsOOF (M.run (M.loop "LRParser.parse" (step realTables (lrHooks (npOf depth))) f {} >>=
        parserTail) (initL lim) e) := by
      rw [isOOF_iff_resOf] at hoof ⊢
      rw [← hrr]; exact hoof
    obtain ⟨d, hd⟩ : ∃ d, 1073741824 = f + d := ⟨1073741824 - f, by omega⟩
    rw [hd, M.run_bind, M.run_bind, loop_fuel_le _ _ _ _ _ d f (not_isOOF_of_bind hY)]
  | succ m ih =>
    intro j hj f c l e hc hl he hproc hf hoof
    have hjlt : j < pre.length := by omega
    obtain ⟨ch, hch⟩ : ∃ ch, pre[j]? = some ch := ⟨_, List.getElem?_eq_getElem hjlt⟩
    have hmem : ch ∈ pre := List.mem_of_getElem? hch
    have hidx : e.tape.idx = j := by rw [he]
    have hlt : e.tape.idx < e.tape.line.length := by
      rw [he]; simp only [List.length_append]; omega
    have hat : e.tape.line[e.tape.idx]? = some ch := by
      rw [he]; simp only []
      rw [List.getElem?_append_left hjlt]; exact hch
    have hltape : l.tape = none := hl.tape
    have hleol : l.eolLookahead = none := hl.eol
    cases f with
    | zero => exact absurd ⟨"LRParser.parse", rfl⟩ hoof
    | succ f =>
      have he' : (envAt e (e.tape.idx + 1)).tape = { line := pre ++ line₁, idx := j + 1, added := added } := by
        simp only [envAt, he]
      rcases hpre ch hmem with rfl | rfl | rfl
      · -- a space
        have hb := run_loop_blank (npOf depth) c hc f parserTail l e ' ' hltape hleol hlt hat
          (by decide) hoof
        rw [hb] at hoof ⊢
        have := ih (j + 1) (by omega) (f + 1) c l _ hc hl he' hproc hf hoof
        rw [this, envAt_envAt]
      · -- a tab
        have hb := run_loop_blank (npOf depth) c hc f parserTail l e '\t' hltape hleol hlt hat
          (by decide) hoof
        rw [hb] at hoof ⊢
        have := ih (j + 1) (by omega) (f + 1) c l _ hc hl he' hproc hf hoof
        rw [this, envAt_envAt]
      · -- a newline
        have hstep := run_step_nl (npOf depth) c hc l e hltape hleol hl.redirstack
          (by rw [hl.positions]; rfl) hlt hat
        have hX : M.run (M.loop "LRParser.parse" (step realTables (lrHooks (npOf depth))) (f + 1) c >>=
              parserTail) l e =
            M.run (M.loop "LRParser.parse" (step realTables (lrHooks (npOf depth))) f (cfgNL c) >>=
              parserTail) (afterNL l e.tape.idx) (envAt e (e.tape.idx + 1)) := by
          rw [M.run_bind, run_loop_succ, hstep, M.run_bind]
        rw [hX] at hoof ⊢
        have := ih (j + 1) (by omega) f (cfgNL c) _ _ (fresh_cfgNL hc) (locRel_afterNL hl _) he'
          hproc (by omega) hoof
        rw [this, envAt_envAt]

end Bashlex.C14
