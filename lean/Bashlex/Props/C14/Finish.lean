/-
  C14, layer 2d: the part of `_readtokenword` after `# got_token` (`finishWord`): the token built
  in the second run is the token of the first run, moved by the shift.
-/
import Bashlex.Props.C14.Word

namespace Bashlex.C14
open Bashlex Bashlex.C10
set_option linter.unusedSimpArgs false
set_option linter.unusedVariables false

variable {pre : Str} {top : Bool} {n n' : Nat}

theorem TokRel.eq_shiftTok {k : Nat} {a b : Token} (h : TokRel k a b) : b = shiftTok k a := by
  obtain ⟨h1, h2, h3, h4, _⟩ := h
  cases a; cases b
  simp only [shiftTok] at *
  subst h1 h2 h3 h4
  rfl

/-- `_createtoken`, with the second token as a function of the first -/
theorem sim_createtokenF (ty : TokType) (v : TVal) (flags : WordFlags) :
    Sim pre top n n (createtoken ty v flags) (createtoken ty v flags)
      (fun a b => b = shiftTok (kOf pre top) a ∧ a.pos.isSome = true) := by
  refine (Sim.and_sat (sim_createtoken ty v flags) (P := fun a => a.pos.isSome = true) ?_).weaken
    (fun a b h => ⟨h.1.eq_shiftTok, h.2⟩)
  intro l e
  rw [run_createtoken]
  by_cases h2 : l.positions.length < 2
  · rw [if_pos h2]; exact True.intro
  · rw [if_neg h2]
    by_cases h3 : (!decide (l.positions.dropLast.getLast?.getD 0 < l.positions.getLast?.getD 0)) = true
    · rw [if_pos h3]; exact True.intro
    · rw [if_neg h3]; rfl
macro_rules | `(tactic| rel_atom) => `(tactic| exact sim_createtokenF _ _ _)

/-- discharge `TokRel k (F t) (F (shiftTok k t))` for a token `t` with a span -/
macro "tokrel" : tactic => `(tactic|
  (refine ⟨rfl, rfl, rfl, rfl, ?_⟩; intro h; simp_all))

theorem Sim.pureTok {a b : Token} (hn : n' ≤ n) (h : TokRel (kOf pre top) a b) :
    Sim pre top n n' (Pure.pure a : M Token) (Pure.pure b : M Token) (TokRel (kOf pre top)) :=
  Sim.pure hn h

set_option maxHeartbeats 1000000 in
theorem sim_finishWord (st : RWState) :
    Sim pre top 0 0 (finishWord st) (finishWord st) (TokRel (kOf pre top)) := by
  unfold finishWord
  repeat' (first
    | rel_step_jp
    | (with_reducible refine Sim.pureTok (by lvl) ?_); tokrel)

end Bashlex.C14
