/-
  C14, layer 3c: word expansion (`Model/Subst.lean`) under the translation.

  The expansion works on `tok.valueStr` and `tok.flags` (the same in both runs) and on the results
  of the nested parser (the same node in both runs: `NPRel`); the positions it computes are
  relative to the word until the very end of `_expandwordinternal`, where every part is moved by
  `tok.lexpos`.  Hence every intermediate result is EQUAL in the two runs, and the final parts of
  the second run are the parts of the first run moved by the shift.
-/
import Bashlex.Props.C14.ActBase

namespace Bashlex.C14
open Bashlex Bashlex.C10 Bashlex.C12 Bashlex.LR
set_option linter.unusedSimpArgs false
set_option linter.unusedVariables false

variable {pre : Str} {top : Bool} {n n' : Nat}

/-- `_adjustpositions`: pure -/
theorem sim_adjustpositions (nd : Node) (base endlimit : Nat) :
    SimEq pre top n n (adjustpositions nd base endlimit) := by
  unfold adjustpositions; rel_walk
macro_rules | `(tactic| rel_atom) => `(tactic| exact sim_adjustpositions _ _ _)

section walk
/- atoms that refer to the hypothesis `hnp` of the lemmas of this section (local: they mean nothing
   elsewhere) -/
set_option hygiene false
local macro_rules | `(tactic| rel_atom) => `(tactic| exact hnp _ _)

/-- `_recursiveparse` -/
theorem sim_recursiveparse {np : NestedParse} (hnp : NPRel pre top np) (base : Str) (sindex : Nat)
    (d : Bool) : SimEq pre top 0 0 (recursiveparse np base sindex d) := by
  have hnp : ∀ s d, SimEq pre top 0 0 (np s d) := hnp
  unfold recursiveparse; rel_walk

local macro_rules | `(tactic| rel_atom) => `(tactic| exact sim_recursiveparse hnp _ _ _)

/-- `_parsedolparen` -/
theorem sim_parsedolparen {np : NestedParse} (hnp : NPRel pre top np) (base : Str) (sindex : Nat) :
    SimEq pre top 0 0 (parsedolparen np base sindex) := by
  unfold parsedolparen; rel_walk

local macro_rules | `(tactic| rel_atom) => `(tactic| exact sim_parsedolparen hnp _ _)

/-- `_paramexpand` -/
theorem sim_paramexpand {np : NestedParse} (hnp : NPRel pre top np) (string : Str) (sindex : Nat) :
    SimEq pre top 0 0 (paramexpand np string sindex) := by
  unfold paramexpand; simp only []; rel_walk

local macro_rules | `(tactic| rel_atom) => `(tactic| exact sim_paramexpand hnp _ _)

/-- results of the loop of `_expandwordinternal`: equal; an early exit has no parts -/
def ERel (a b : List Node × Str × Bool) : Prop := a = b ∧ (a.2.2 = true → a.1 = [])

theorem Sim.pureInl {σ α β : Type} {V : α → β → Prop} {s : σ} :
    Sim pre top n n (Pure.pure (.inl s) : M (σ ⊕ α)) (Pure.pure (.inl s) : M (σ ⊕ β)) (SumEq V) :=
  Sim.pure (Nat.le_refl _) rfl

theorem Sim.pureInr {σ α β : Type} {V : α → β → Prop} {a : α} {b : β} (h : V a b) :
    Sim pre top n n (Pure.pure (.inr a) : M (σ ⊕ α)) (Pure.pure (.inr b) : M (σ ⊕ β)) (SumEq V) :=
  Sim.pure (Nat.le_refl _) h

/-- one iteration of the loop of `_expandwordinternal` -/
theorem sim_expandStep {np : NestedParse} (hnp : NPRel pre top np) (tok : Token)
    (ht : tok.pos.isSome = true) (string : Str) (q : Bool) (st : ExpSt) :
    Sim pre top 0 0 (expandStep np tok string q st)
      (expandStep np (shiftTok (kOf pre top) tok) string q st) (SumEq ERel) := by
  unfold expandStep
  rel_walk
  all_goals try exact Sim.pureInl
  all_goals try exact Sim.pureInr ⟨rfl, fun _ => rfl⟩
  all_goals try exact Sim.pureInr ⟨rfl, fun h => by cases h⟩
  all_goals try (split; exact Sim.pureInl)
  -- the unterminated backquote: the error position is absolute
  refine Sim.bind sim_tapeSource (fun s₁ s₂ hs => ?_)
  refine Sim.raise ?_
  rw [shiftTok_lexpos _ ht]
  have key := exnRel_mkParsingError hs
    ("bad substitution: no closing \"`\" in " ++ String.ofList string)
    ((tok.lexpos + st.sindex : Nat) : Int)
  have e : ((tok.lexpos + kOf pre top + st.sindex : Nat) : Int) =
      ((tok.lexpos + st.sindex : Nat) : Int) + (kOf pre top : Nat) := by omega
  rw [e]
  exact key

end walk

/-- `_expandwordinternal`: the parts are moved by `tok.lexpos` at the very end -/
theorem sim_expandwordinternal {np : NestedParse} (hnp : NPRel pre top np) (tok : Token)
    (ht : tok.pos.isSome = true) (q : Bool) :
    Sim pre top 0 0 (expandwordinternal np tok q)
      (expandwordinternal np (shiftTok (kOf pre top) tok) q)
      (fun a b => b = (a.1.map (Node.shift (kOf pre top)), a.2)) := by
  unfold expandwordinternal
  refine Sim.bind (V := ERel) (Sim.loopEq (fun s => sim_expandStep hnp tok ht _ q s) _ _)
    (fun a b hab => ?_)
  obtain ⟨rfl, hearly⟩ := hab
  obtain ⟨parts, istring, early⟩ := a
  simp only []
  rw [shiftTok_lexpos _ ht, shiftTok_endlexpos _ ht]
  refine Sim.ite (fun hc => ?_) (fun _ => ?_)
  · have hp : parts = [] := by
      cases early with
      | true => exact hearly rfl
      | false =>
        cases parts with
        | nil => rfl
        | cons x xs => simp at hc
    subst hp
    exact Sim.pure (Nat.le_refl _) rfl
  · have hok : (parts.all fun p => p.preorder.all fun m =>
          decide (m.pos.snd + (tok.lexpos + kOf pre top) ≤ tok.endlexpos + kOf pre top)) =
        (parts.all fun p => p.preorder.all fun m => decide (m.pos.snd + tok.lexpos ≤ tok.endlexpos)) := by
      congr 1; funext p; congr 1; funext m
      have : (m.pos.snd + (tok.lexpos + kOf pre top) ≤ tok.endlexpos + kOf pre top) ↔
          (m.pos.snd + tok.lexpos ≤ tok.endlexpos) := by omega
      exact decide_eq_decide.2 this
    rw [hok]
    refine Sim.ite (fun _ => ?_) (fun _ => ?_)
    · exact Sim.bind (mid := 0) (V := fun _ _ => False) (Sim.foreign _ _) (fun _ _ h => h.elim)
    · refine Sim.pure (Nat.le_refl _) ?_
      show (_, _) = (List.map _ (List.map _ _), _)
      rw [Node.map_shift_shift]
theorem isSubstitution_shift (k : Nat) (nd : Node) :
    isSubstitution (nd.shift k) = isSubstitution nd := by
  cases nd <;> rfl

theorem filter_subst_shift (k : Nat) (l : List Node) :
    (l.map (Node.shift k)).filter (fun n => !isSubstitution n) =
      (l.filter (fun n => !isSubstitution n)).map (Node.shift k) := by
  induction l with
  | nil => rfl
  | cons a l ih =>
    rw [List.map_cons, List.filter_cons, List.filter_cons, isSubstitution_shift, ih]
    cases isSubstitution a <;> rfl

/-- the word node built by `_expandword` -/
theorem word_shift (k : Nat) (sp : Span) (expanded : Str) (parts : List Node) (c : Bool) :
    Node.word (sh k sp) expanded
        (if c = true then (parts.map (Node.shift k)).filter (fun n => !isSubstitution n)
          else parts.map (Node.shift k)) =
      (Node.word sp expanded
        (if c = true then parts.filter (fun n => !isSubstitution n) else parts)).shift k := by
  rw [filter_subst_shift]
  cases c <;> simp [Node.shift, Node.mapPos, Node.mapPosL_eq_map, sh]

/-- **`parser._expandword` moves with the input**, given that the nested parser returns the same
    node in both runs -/
theorem expRel_of_npRel {np : NestedParse} (hnp : NPRel pre top np) : ExpRel pre top np := by
  intro t ht
  have leaf : ∀ (dq : Bool) (f₁ f₂ : List Node × Str → M Node),
      (∀ parts expanded, Sim pre top 0 0 (f₁ (parts, expanded))
        (f₂ (parts.map (Node.shift (kOf pre top)), expanded))
        (fun a b => b = a.shift (kOf pre top))) →
      Sim pre top 0 0 (expandwordinternal np t dq >>= f₁)
        (expandwordinternal np (shiftTok (kOf pre top) t) dq >>= f₂)
        (fun a b => b = a.shift (kOf pre top)) := by
    intro dq f₁ f₂ hf
    refine Sim.bind (sim_expandwordinternal hnp t ht dq) (fun a b hab => ?_)
    subst hab
    exact hf a.1 a.2
  unfold expandword
  refine Sim.get_bind (fun l₁ l₂ hl => ?_)
  rw [hl.limit]
  simp only [pure_bind, shiftTok_valueStr, shiftTok_flags]
  rw [shiftTok_span _ ht]
  refine Sim.at ?_ l₁ l₂
  refine Sim.ite (fun _ => ?_) (fun _ => ?_)
  · exact Sim.pure (Nat.le_refl _) rfl
  refine Sim.ite (fun _ => ?_) (fun _ => ?_)
  · split
    · exact Sim.bind (mid := 0) (V := fun _ _ => False) (Sim.foreign _ _) (fun _ _ h => h.elim)
    · refine leaf _ _ _ (fun parts expanded => ?_)
      exact Sim.pure (Nat.le_refl _) (word_shift _ _ _ _ _)
  · refine leaf _ _ _ (fun parts expanded => ?_)
    exact Sim.pure (Nat.le_refl _) (word_shift _ _ _ _ _)

end Bashlex.C14

#print axioms Bashlex.C14.expRel_of_npRel
