/-
  C14, layer 1c: the walker `rel_walk` for goals `Sim pre top n n' m m' V` where `m` and `m'` are
  the same program text (the tokenizer runs the same code in both runs; only the state differs).

  `rel_atom` is the extensible table of known callees (one `macro_rules` per lemma).
  Conventions: tokenizer functions are stated at level `1 → 1` (`Sim pre top 1 1 f f V`);
  `rel_walk` inserts `Sim.lvlTo` when the current level is higher.
-/
import Lean.Elab.Tactic
import Bashlex.Props.C14.Access

namespace Bashlex.C14
open Bashlex Bashlex.C10
set_option linter.unusedSimpArgs false
set_option linter.unusedVariables false

variable {pre : Str} {top : Bool} {n n' : Nat}

/-- use a lemma stated at a lower entry level; the exit level is the lemma's -/
theorem Sim.lvlTo {α β : Type} {m₁ : M α} {m₂ : M β} {V : α → β → Prop} {a b : Nat}
    (h : Sim pre top a b m₁ m₂ V) (hn : a ≤ n) : Sim pre top n b m₁ m₂ V :=
  h.mono hn (Nat.le_refl _) (fun _ _ h => h)

/-- bind where the first computation returns the same known value in both runs -/
theorem Sim.bindBoth {α γ δ : Type} {m₁ m₂ : M α} {f₁ : α → M γ} {f₂ : α → M δ}
    {W : γ → δ → Prop} {mid : Nat} {x : α}
    (hm : Sim pre top n mid m₁ m₂ (fun a b => a = x ∧ b = x))
    (hf : Sim pre top mid n' (f₁ x) (f₂ x) W) :
    Sim pre top n n' (m₁ >>= f₁) (m₂ >>= f₂) W :=
  Sim.bind hm (fun a b hab => by obtain ⟨ha, hb⟩ := hab; subst ha hb; exact hf)

/-- bind where nothing is known (or needed) about the first results (`Unit`) -/
theorem Sim.bindU {γ δ : Type} {m₁ m₂ : M Unit} {f₁ : Unit → M γ} {f₂ : Unit → M δ}
    {W : γ → δ → Prop} {mid : Nat}
    (hm : Sim pre top n mid m₁ m₂ (fun _ _ => True))
    (hf : Sim pre top mid n' (f₁ ()) (f₂ ()) W) :
    Sim pre top n n' (m₁ >>= f₁) (m₂ >>= f₂) W :=
  Sim.bind hm (fun a b _ => hf)

theorem Sim.pureEq {α : Type} {a : α} (hn : n' ≤ n) :
    Sim pre top n n' (Pure.pure a : M α) (Pure.pure a : M α) Eq := Sim.pure hn rfl

theorem Sim.pureSum {σ α : Type} {a : σ ⊕ α} (hn : n' ≤ n) :
    Sim pre top n n' (Pure.pure a : M (σ ⊕ α)) (Pure.pure a : M (σ ⊕ α)) (SumEq Eq) :=
  Sim.pure hn (sumEq_of_eq rfl)

theorem Sim.pureT {α β : Type} {a : α} {b : β} (hn : n' ≤ n) :
    Sim pre top n n' (Pure.pure a : M α) (Pure.pure b : M β) (fun _ _ => True) :=
  Sim.pure hn True.intro

/-- a computation with equal results, used where a `SumEq Eq` result is expected -/
theorem Sim.toSumEq {σ α : Type} {m₁ m₂ : M (σ ⊕ α)} (h : Sim pre top n n' m₁ m₂ Eq) :
    Sim pre top n n' m₁ m₂ (SumEq Eq) := h.weaken (fun _ _ h => sumEq_of_eq h)

theorem Sim.ite {α β : Type} {c : Prop} [Decidable c] {a₁ b₁ : M α} {a₂ b₂ : M β}
    {V : α → β → Prop} (ha : c → Sim pre top n n' a₁ a₂ V) (hb : ¬ c → Sim pre top n n' b₁ b₂ V) :
    Sim pre top n n' (if c then a₁ else b₁) (if c then a₂ else b₂) V := by
  by_cases h : c
  · rw [if_pos h, if_pos h]; exact ha h
  · rw [if_neg h, if_neg h]; exact hb h

theorem SimAt.ite {α β : Type} {c : Prop} [Decidable c] {a₁ b₁ : M α} {a₂ b₂ : M β}
    {V : α → β → Prop} {l₁ l₂ : Local}
    (ha : c → SimAt pre top n n' l₁ l₂ a₁ a₂ V) (hb : ¬ c → SimAt pre top n n' l₁ l₂ b₁ b₂ V) :
    SimAt pre top n n' l₁ l₂ (if c then a₁ else b₁) (if c then a₂ else b₂) V := by
  by_cases h : c
  · rw [if_pos h, if_pos h]; exact ha h
  · rw [if_neg h, if_neg h]; exact hb h

theorem Sim.iteIff {α β : Type} {c₁ c₂ : Prop} [Decidable c₁] [Decidable c₂] {a₁ b₁ : M α}
    {a₂ b₂ : M β} {V : α → β → Prop} (h : c₂ ↔ c₁)
    (ha : c₁ → Sim pre top n n' a₁ a₂ V) (hb : ¬ c₁ → Sim pre top n n' b₁ b₂ V) :
    Sim pre top n n' (if c₁ then a₁ else b₁) (if c₂ then a₂ else b₂) V := by
  by_cases hc : c₁
  · rw [if_pos hc, if_pos (h.2 hc)]; exact ha hc
  · rw [if_neg hc, if_neg (fun x => hc (h.1 x))]; exact hb hc

theorem SimAt.iteIff {α β : Type} {c₁ c₂ : Prop} [Decidable c₁] [Decidable c₂] {a₁ b₁ : M α}
    {a₂ b₂ : M β} {V : α → β → Prop} {l₁ l₂ : Local} (h : c₂ ↔ c₁)
    (ha : c₁ → SimAt pre top n n' l₁ l₂ a₁ a₂ V) (hb : ¬ c₁ → SimAt pre top n n' l₁ l₂ b₁ b₂ V) :
    SimAt pre top n n' l₁ l₂ (if c₁ then a₁ else b₁) (if c₂ then a₂ else b₂) V := by
  by_cases hc : c₁
  · rw [if_pos hc, if_pos (h.2 hc)]; exact ha hc
  · rw [if_neg hc, if_neg (fun x => hc (h.1 x))]; exact hb hc

/-- raising computations in bind position: nothing returns -/
theorem Sim.foreignF {α : Type} (a b : String) :
    Sim pre top n n (M.foreign a b : M α) (M.foreign a b : M α) (fun _ _ => False) :=
  Sim.foreign a b
theorem Sim.raiseF {α : Type} (x : Exn) :
    Sim pre top n n (M.raise x : M α) (M.raise x : M α) (fun _ _ => False) := Sim.raise_eq x
theorem sim_matchedPairErrorF {α : Type} (close : Char) (hn : n ≤ 2) :
    Sim pre top n n (matchedPairError close : M α) (matchedPairError close : M α)
      (fun _ _ => False) := sim_matchedPairError close hn

/-- level side conditions -/
macro "lvl" : tactic => `(tactic| first
  | exact Nat.le_refl _ | decide | omega | (simp only [loopLvl]; omega))

/-- known callees (extended after each lemma) -/
syntax "rel_atom" : tactic
macro_rules | `(tactic| rel_atom) => `(tactic| assumption)
macro_rules | `(tactic| rel_atom) => `(tactic| exact sim_getc_same _)
macro_rules | `(tactic| rel_atom) => `(tactic| exact sim_getc _ (by decide))
macro_rules | `(tactic| rel_atom) => `(tactic| exact sim_ungetc _)
macro_rules | `(tactic| rel_atom) => `(tactic| exact sim_peekc _ (by decide))
macro_rules | `(tactic| rel_atom) => `(tactic| exact sim_bumpIdx)
macro_rules | `(tactic| rel_atom) => `(tactic| exact sim_tapeAdded)
macro_rules | `(tactic| rel_atom) => `(tactic| exact sim_optStrict)
macro_rules | `(tactic| rel_atom) => `(tactic| exact sim_shellmeta _)
macro_rules | `(tactic| rel_atom) => `(tactic| exact sim_shellquote _)
macro_rules | `(tactic| rel_atom) => `(tactic| exact sim_shellexp _)
macro_rules | `(tactic| rel_atom) => `(tactic| exact sim_shellbreak _)
macro_rules | `(tactic| rel_atom) => `(tactic| exact sim_syn _)
macro_rules | `(tactic| rel_atom) => `(tactic| exact sim_matchedPairError _ (by decide))
macro_rules | `(tactic| rel_atom) => `(tactic| exact sim_recordpos _ (by decide) (by decide))
macro_rules | `(tactic| rel_atom) => `(tactic| exact sim_createtoken _ _ _)
macro_rules | `(tactic| rel_atom) => `(tactic| exact sim_pushDelimiter _)
macro_rules | `(tactic| rel_atom) => `(tactic| exact sim_popDelimiter)
macro_rules | `(tactic| rel_atom) => `(tactic| exact sim_currentDelimiter)
macro_rules | `(tactic| rel_atom) => `(tactic| exact sim_loopFuel)
macro_rules | `(tactic| rel_atom) => `(tactic| exact sim_depthFuel)
macro_rules | `(tactic| rel_atom) => `(tactic| exact Sim.foreignF _ _)
macro_rules | `(tactic| rel_atom) => `(tactic| exact Sim.raiseF _)
macro_rules | `(tactic| rel_atom) => `(tactic| exact sim_matchedPairErrorF _ (by decide))
macro_rules | `(tactic| rel_atom) => `(tactic| exact Sim.foreign _ _)
macro_rules | `(tactic| rel_atom) => `(tactic| exact Sim.raise_eq _)

/-- `LocRel` after the same update of fields other than the history in both states -/
macro "loc_upd" h:ident : tactic => `(tactic| (
  refine ⟨?_, ?_, ?_, ?_, ?_, ?_, ?_, ?_, ?_, ?_, ?_, ?_, ?_, ?_, ?_, ?_, ?_⟩ <;>
  first
  | rfl
  | exact (LocRel.tape $h :) | exact (LocRel.opts $h :) | exact (LocRel.eol $h :) | exact (LocRel.before $h :)
  | exact (LocRel.last $h :) | exact (LocRel.cur $h :) | exact (LocRel.ps $h :) | exact (LocRel.obc $h :)
  | exact (LocRel.curFlags $h :) | exact (LocRel.eofOK $h :)
  | exact (LocRel.esacs $h :) | exact (LocRel.dstack $h :) | exact (LocRel.positions $h :)
  | exact (LocRel.eofToken $h :) | exact (LocRel.redirstack $h :) | exact (LocRel.store $h :)
  | exact (LocRel.limit $h :)
  | (simp only [LocRel.ps $h, LocRel.obc $h, LocRel.esacs $h, LocRel.dstack $h,
      LocRel.redirstack $h, LocRel.limit $h, LocRel.eofToken $h])))

theorem sim_modifySame {f₁ f₂ : Local → Local}
    (h : ∀ l₁ e₁ l₂ e₂, Rel pre top n l₁ e₁ l₂ e₂ → Rel pre top n (f₁ l₁) e₁ (f₂ l₂) e₂) :
    Sim pre top n n (modify f₁ : M Unit) (modify f₂ : M Unit) (fun _ _ => True) := Sim.modify h

theorem simAt_setSame {l₁ l₂ l₁' l₂' : Local}
    (h : ∀ e₁ e₂, Rel pre top n l₁ e₁ l₂ e₂ → Rel pre top n l₁' e₁ l₂' e₂) :
    SimAt pre top n n l₁ l₂ (set l₁' : M Unit) (set l₂' : M Unit) (fun _ _ => True) := SimAt.set h

/-- `modify f` with the same `f` in both runs, touching only plain fields -/
macro "rel_modify" : tactic => `(tactic|
  ((refine sim_modifySame (fun l₁ e₁ l₂ e₂ hr => ?_));
   (exact Rel.update hr (by have hl := Rel.loc hr; loc_upd hl) rfl rfl rfl)))

/-- an atom, possibly stated at a lower entry level -/
macro "rel_atom'" : tactic => `(tactic| first
  | rel_atom
  | rel_modify
  | exact Sim.lvlTo (by with_reducible rel_atom) (by lvl))

/-- introduce the related results of the first computation of a bind -/
macro "rel_intro" : tactic => `(tactic| (intro a b hab; first
  | exact False.elim hab
  | (obtain ⟨ha, hb⟩ := hab; subst ha; (first | subst hb | skip))
  | subst hab
  | skip))

theorem SimAt.bindU {γ δ : Type} {m₁ m₂ : M Unit} {f₁ : Unit → M γ} {f₂ : Unit → M δ}
    {W : γ → δ → Prop} {mid : Nat} {l₁ l₂ : Local}
    (hm : SimAt pre top n mid l₁ l₂ m₁ m₂ (fun _ _ => True))
    (hf : Sim pre top mid n' (f₁ ()) (f₂ ()) W) :
    SimAt pre top n n' l₁ l₂ (m₁ >>= f₁) (m₂ >>= f₂) W :=
  SimAt.bind hm (fun a b _ => hf)

/-- a condition on the second state is the condition on the first one -/
macro "loc_cond1" h:term : tactic => `(tactic| (simp only [iff_self,
  LocRel.ps $h, LocRel.obc $h, LocRel.esacs $h, LocRel.dstack $h, LocRel.redirstack $h,
  LocRel.limit $h, LocRel.eofToken $h, LocRel.eol $h, LocRel.tape $h, LocRel.opts $h,
  HEq.rwa $h (LocRel.last $h), HEq.ctp $h (LocRel.last $h), HEq.aa $h (LocRel.last $h),
  HEq.is_eq (LocRel.last $h) (ty := .WORD) (by decide),
  HEq.is_eq (LocRel.last $h) (ty := .FUNCTION) (by decide),
  HEq.is_eq (LocRel.last $h) (ty := .ARITH_FOR_EXPRS) (by decide),
  HEq.is_eq (LocRel.last $h) (ty := .TIME) (by decide),
  HEq.is_eq (LocRel.last $h) (ty := .TIMEOPT) (by decide),
  HEq.is_eq (LocRel.last $h) (ty := .LESS_AND) (by decide),
  HEq.is_eq (LocRel.last $h) (ty := .GREATER_AND) (by decide),
  HEq.value_beq (LocRel.last $h) (v := .str ['(']) (by decide) (by decide),
  HEq.is_eq (LocRel.before $h) (ty := .WORD) (by decide),
  HEq.is_eq (LocRel.before $h) (ty := .FUNCTION) (by decide),
  HEq.is_eq (LocRel.before $h) (ty := .FOR) (by decide),
  HEq.is_eq (LocRel.before $h) (ty := .CASE) (by decide),
  HEq.is_eq (LocRel.before $h) (ty := .SELECT) (by decide)]))

open Lean Elab Tactic Meta in
/-- `c₂ ↔ c₁`: rewrite with every `LocRel` fact in the context -/
elab "loc_cond" : tactic => withMainContext do
  let lctx ← getLCtx
  let mut hs : Array Expr := #[]
  for d in lctx do
    if d.isImplementationDetail then continue
    let ty ← instantiateMVars d.type
    if ty.getAppFn.isConstOf ``Bashlex.C14.LocRel then hs := hs.push d.toExpr
  for h in hs.reverse do
    if (← getGoals).isEmpty then break
    let hstx ← Term.exprToSyntax h
    evalTactic (← `(tactic| try loc_cond1 $hstx))
  unless (← getGoals).isEmpty do
    evalTactic (← `(tactic| exact Iff.rfl))

/-- `set` of the state just read, updated in plain fields -/
macro "rel_set" h:ident : tactic => `(tactic|
  ((refine simAt_setSame (fun e₁ e₂ hr => ?_)); (exact Rel.update hr (by loc_upd $h) rfl rfl rfl)))

/-- a token moved by `k` -/
@[reducible] def shiftTok (k : Nat) (t : Token) : Token := { t with pos := t.pos.map (sh k) }

/-! ### join points

  `do` blocks compile `if c then x := f x` (and every `if` followed by more code) into
  `have __do_jp := fun x r => K; if c then __do_jp (f x) () else __do_jp x ()`.  Splitting the `if`
  first duplicates `K` on every path (exponential in the number of such statements);
  `rel_jp j` proves `K` once, at level `j`, for all arguments (`Token` arguments of the second
  run are the arguments of the first run moved by the shift), and hands the fact to the walk
  through the body as a hypothesis about two opaque functions. -/

open Lean Elab Tactic Meta in
elab "rel_jp " j:(term)? : tactic => withMainContext do
  let g ← getMainGoal
  let t ← whnfR (← instantiateMVars (← g.getType))
  let args := t.getAppArgs
  let isAt := t.getAppFn.isConstOf ``Bashlex.C14.SimAt && args.size == 11
  unless (t.getAppFn.isConstOf ``Bashlex.C14.Sim && args.size == 9) || isAt do
    throwError "rel_jp: not a Sim/SimAt goal"
  let i₁ := if isAt then 8 else 6
  let m₁ := args[i₁]!.consumeMData.headBeta
  let m₂ := args[i₁ + 1]!.consumeMData.headBeta
  let V := args[i₁ + 2]!
  let (.letE _ ty₁ v₁ b₁ _) := m₁ | throwError "rel_jp: no join point"
  let (.letE _ ty₂ v₂ b₂ _) := m₂ | throwError "rel_jp: no join point"
  let jE ← match j with
    | some j => Tactic.elabTermEnsuringType j (some (mkConst ``Nat))
    | none => pure args[4]!
  let k := mkApp2 (mkConst ``Bashlex.C14.kOf) args[2]! args[3]!
  let simC := mkConst ``Bashlex.C14.Sim
  let mkH (jp₁ jp₂ : Expr) : MetaM Expr := do
    forallTelescope ty₁ fun xs _ => do
      let mut ys : Array Expr := #[]
      let mut conds : Array Expr := #[]
      for x in xs do
        let xt ← inferType x
        if xt.isConstOf ``Bashlex.Token then
          ys := ys.push (mkApp2 (mkConst ``Bashlex.C14.shiftTok) k x)
          let p ← mkAppM ``Bashlex.Token.pos #[x]
          let isS ← mkAppM ``Option.isSome #[p]
          conds := conds.push (← mkEq isS (mkConst ``Bool.true))
        else ys := ys.push x
      withLocalDeclD `m (mkConst ``Nat) fun m => do
        let le ← mkAppM ``LE.le #[jE, m]
        let simT := mkAppN simC #[args[0]!, args[1]!, args[2]!, args[3]!, m, args[5]!,
          mkAppN jp₁ xs, mkAppN jp₂ ys, V]
        let body ← mkArrow le simT
        let body ← mkForallFVars #[m] body
        let body ← conds.foldrM (fun c acc => mkArrow c acc) body
        mkForallFVars xs body
  let h1T ← mkH v₁ v₂
  let h2T ← withLocalDeclD `jp₁ ty₁ fun jp₁ => withLocalDeclD `jp₂ ty₂ fun jp₂ => do
    let H ← mkH jp₁ jp₂
    withLocalDeclD `hjp H fun hjp => do
      let args' := (args.set! i₁ (b₁.instantiate1 jp₁)).set! (i₁ + 1) (b₂.instantiate1 jp₂)
      let body := mkAppN t.getAppFn args'
      mkForallFVars #[jp₁, jp₂, hjp] body
  let g1 ← mkFreshExprSyntheticOpaqueMVar h1T
  let g2 ← mkFreshExprSyntheticOpaqueMVar h2T
  g.assign (mkApp3 g2 v₁ v₂ g1)
  g1.mvarId!.setTag `jpK
  g2.mvarId!.setTag `jpB
  replaceMainGoal [g1.mvarId!, g2.mvarId!]

open Lean Elab Tactic Meta in
/-- inline the join point at the head of the two programs -/
elab "rel_zeta" : tactic => withMainContext do
  let g ← getMainGoal
  let t ← whnfR (← instantiateMVars (← g.getType))
  let args := t.getAppArgs
  let i₁ ←
    if t.getAppFn.isConstOf ``Bashlex.C14.SimAt && args.size == 11 then pure 8
    else if (t.getAppFn.isConstOf ``Bashlex.C14.Sim || t.getAppFn.isConstOf ``Bashlex.C14.SimL)
      && args.size == 9 then pure 6
    else throwError "rel_zeta: not a Sim/SimAt/SimL goal"
  let z (m : Expr) : MetaM Expr := do
    match m.consumeMData.headBeta with
    | .letE _ _ v b _ => pure (b.instantiate1 v).headBeta
    | m' => pure m'
  let args' := (args.set! i₁ (← z args[i₁]!)).set! (i₁ + 1) (← z args[i₁ + 1]!)
  let g' ← g.replaceTargetDefEq (mkAppN t.getAppFn args')
  replaceMainGoal [g']

/-- use a join-point hypothesis -/
macro "rel_jp_use" : tactic => `(tactic|
  (apply_assumption <;> first | lvl | assumption))

/-! ### dispatch on the shape of the first program -/

open Lean Elab Tactic Meta in
/-- the shape of a program term -/
def progKind (m : Expr) : MetaM String := do
  let m0 := (← instantiateMVars m).consumeMData.headBeta
  if let .letE nm _ _ _ _ := m0 then
    if nm.eraseMacroScopes == `__do_jp then return "jp"
  let m ← whnfCore m
  let fn := m.getAppFn
  if (← isMatcherApp m) then return "match"
  match fn with
  | .const nm _ =>
    if nm == ``ite || nm == ``dite then return "ite"
    else if nm == ``Pure.pure then return "pure"
    else if nm == ``Bind.bind then
      let args := m.getAppArgs
      if h : args.size = 6 then
        let x ← whnfCore args[4]
        if (← isMatcherApp x) then return "bind-struct"
        match x.getAppFn with
        | .const nx _ =>
          if nx == ``Pure.pure then return "bind-pure"
          else if nx == ``ite || nx == ``dite || nx == ``Bind.bind then
            return "bind-struct"
          else if nx == ``MonadState.get || nx == ``get || nx == ``getThe
              || nx == ``MonadStateOf.get then return "bind-get"
          else return "bind-atom"
        | .fvar _ => return "bind-atom"
        | _ => return "bind-struct"
      else return "other"
    else return "atom"
  | .fvar _ => return "atom"
  | _ => return "other"

open Lean Elab Tactic Meta in
/-- `rel_kind k`: succeed iff the first program of the `Sim`/`SimAt` goal has shape `k` -/
elab "rel_kind " k:str : tactic => withMainContext do
  let g ← getMainGoal
  let t ← instantiateMVars (← g.getType)
  let t ← whnfR t
  let args := t.getAppArgs
  let fn := t.getAppFn
  let m ←
    if fn.isConstOf ``Bashlex.C14.Sim && args.size == 9 then pure args[6]!
    else if fn.isConstOf ``Bashlex.C14.SimL && args.size == 9 then pure args[6]!
    else if fn.isConstOf ``Bashlex.C14.SimAt && args.size == 11 then pure args[8]!
    else throwError "rel_kind: not a Sim/SimAt goal"
  let kind ← progKind m
  unless kind == k.getString do throwError "rel_kind: {kind}"

open Lean Elab Tactic Meta in
/-- move the goals of type `Nat` (levels to be found by unification) to the end -/
elab "defer_nat" : tactic => do
  let gs ← getGoals
  let mut nat := []
  let mut rest := []
  for g in gs do
    if (← instantiateMVars (← g.getType)).isConstOf ``Nat then nat := nat ++ [g]
    else rest := rest ++ [g]
  setGoals (rest ++ nat)

set_option hygiene false in
/-- one step of the walk -/
macro "rel_step" : tactic => `(tactic| first
  | (rel_kind "jp"; rel_zeta)
  | (rel_kind "ite"; with_reducible first
      | refine Sim.ite (fun _ => ?_) (fun _ => ?_)
      | refine SimAt.ite (fun _ => ?_) (fun _ => ?_)
      | refine SimL.ite (fun _ => ?_) (fun _ => ?_)
      | refine Sim.iteIff (by loc_cond) (fun _ => ?_) (fun _ => ?_)
      | refine SimAt.iteIff (by loc_cond) (fun _ => ?_) (fun _ => ?_))
  | (rel_kind "pure"; with_reducible first
      | exact Sim.pureEq (by lvl)
      | exact Sim.pureSum (by lvl)
      | exact Sim.pureT (by lvl)
      | exact SimAt.pure (by lvl) rfl
      | exact SimAt.pure (by lvl) (sumEq_of_eq rfl)
      | exact SimAt.pure (by lvl) True.intro
      | exact SimL.pure (by lvl) rfl
      | exact SimL.pure (by lvl) (sumEq_of_eq rfl)
      | exact SimL.pure (by lvl) True.intro)
  | (rel_kind "atom"; with_reducible first
      | rel_atom'
      | rel_jp_use
      | ((refine Sim.toSumEq ?_); rel_atom')
      | rel_set hl
      | refine Sim.at ?_ _ _)
  | (rel_kind "bind-atom"; with_reducible first
      | ((refine Sim.bind (by with_reducible rel_atom') ?_); rel_intro)
      | ((refine SimL.bind (by with_reducible rel_atom') ?_); rel_intro)
      | rel_atom'
      | (refine SimAt.bindU (by with_reducible rel_set hl) ?_)
      | refine Sim.at ?_ _ _)
  | (rel_kind "bind-get"; with_reducible first
      | (refine Sim.get_bind (fun l₁ l₂ hl => ?_))
      | refine Sim.at ?_ _ _)
  | (rel_kind "bind-pure"; simp only [pure_bind])
  | (rel_kind "bind-struct"; with_reducible first
      | ((refine Sim.bindU (mid := ?_) ?_ ?_); defer_nat)
      | ((refine Sim.bindEq (mid := ?_) ?_ (fun _ => ?_)); defer_nat)
      | ((refine SimL.bindU (mid := ?_) ?_ ?_); defer_nat)
      | ((refine SimL.bindEq (mid := ?_) ?_ (fun _ => ?_)); defer_nat)
      | refine Sim.at ?_ _ _)
  | (rel_kind "match"; split))

macro "rel_walk" : tactic => `(tactic| repeat' rel_step)

/-- one step of the walk, join points proved once (at the entry level of the join point) -/
macro "rel_step_jp" : tactic => `(tactic| first
  | (rel_kind "jp"; rel_jp;
      (case' jpK => (intros; (refine Sim.lvlTo ?_ (by assumption))));
      (case' jpB => intro jp₁ jp₂ hjp))
  | rel_step)

macro "rel_walk_jp" : tactic => `(tactic| repeat' rel_step_jp)

end Bashlex.C14
