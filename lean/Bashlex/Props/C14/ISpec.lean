/-
  C14 interior, part 1: the TARGET statement as an executable check.

  `B = X ++ Y`, `ins` an insertion at index `|X|`.  Spans of the run on `X ++ ins ++ Y` are the
  spans of the run on `B` under `spanMap |X| |ins|`: a span START `< |X|` stays, `≥ |X|` moves; a
  span END `≤ |X|` stays (the token that ends exactly at the insertion point does not grow),
  `> |X|` moves.
-/
import Bashlex.Props.C14.MParse

namespace Bashlex.C14
open Bashlex Bashlex.C13

/-- start positions -/
def phiS (x k i : Nat) : Nat := if i < x then i else i + k
/-- end positions -/
def phiE (x k i : Nat) : Nat := if i ≤ x then i else i + k

/-- the span map of an insertion of `k` characters at `x` -/
def spanMap (x k : Nat) (p : Span) : Span := (phiS x k p.1, phiE x k p.2)

/-- results of one run under the span map; a top-level `ParsingError` carries the edited source
    and the moved position (positions are compared as START positions) -/
def mapRes (x k : Nat) (src' : Str) : Except Exn (Option Node) → Except Exn (Option Node)
  | .ok r => .ok (r.map (Node.mapPos (spanMap x k)))
  | .error (.parsing m s p) =>
    .error (.parsing m src' (if p < (x : Int) then p else p + (k : Int)))
  | .error e => .error e

/-- **the target, as a check**: the run on `X ++ ins ++ Y` is the run on `X ++ Y` under the span
    map -/
def interiorB (B : Str) (x : Nat) (ins : Str) (o : Opts) : Bool :=
  runResBeq (runParser (B.take x ++ ins ++ B.drop x) o []).1
    (mapRes x ins.length (B.take x ++ ins ++ B.drop x) (runParser B o []).1)

/-- … with the node part only (errors: both must be errors) -/
def interiorOkB (B : Str) (x : Nat) (ins : Str) (o : Opts) : Bool :=
  match (runParser (B.take x ++ ins ++ B.drop x) o []).1, (runParser B o []).1 with
  | .ok a, .ok b => runResBeq (.ok a) (.ok (b.map (Node.mapPos (spanMap x ins.length))))
  | .error _, .error _ => true
  | _, _ => false

def isBlank (c : Char) : Bool := c == ' ' || c == '\t'

/-- leaf-like nodes: their span is the span of one token (or of a here-document body) -/
def isLeaf : Node → Bool
  | .operator .. | .reservedword .. | .pipe .. | .word .. | .assignment .. | .parameter ..
  | .tilde .. | .heredoc .. => true
  | _ => false

/-- `x` is strictly inside a leaf of the tree -/
def insideLeaf (n : Node) (x : Nat) : Bool :=
  n.preorder.any (fun m => isLeaf m && decide (m.pos.1 < x) && decide (x < m.pos.2))

/-- **widening an existing gap**: the characters on both sides of `x` are blanks or tabs, and `x`
    is not inside a leaf (a quoted blank, a here-document body) of the tree of the run on `B` -/
def WidenGap (B : Str) (x : Nat) (o : Opts) : Bool :=
  decide (0 < x) && (B[x - 1]?.map isBlank).getD false && (B[x]?.map isBlank).getD false &&
  match (runParser B o []).1 with
  | .ok (some n) => !insideLeaf n x
  | _ => true

/-- all widenable positions of `B` -/
def widenable (B : Str) (o : Opts) : List Nat :=
  (List.range (B.length + 1)).filter (fun x => WidenGap B x o)

/-- the check at every widenable position, for each of the given insertions: the positions where it
    FAILS -/
def widenFails (B : Str) (inss : List Str) (o : Opts) : List (Nat × Str) :=
  (widenable B o).flatMap fun x => (inss.filter fun ins => !interiorB B x ins o).map (x, ·)

/-- **the end of a line** (`x = |B|` or `B[x] = '\n'`), not inside a leaf (a quoted newline, a
    here-document body): where ` #comment` may be added -/
def EolGap (B : Str) (x : Nat) (o : Opts) : Bool :=
  (x == B.length || B[x]? == some '\n') &&
  match (runParser B o []).1 with
  | .ok (some n) => !insideLeaf n x
  | _ => true

/-- the check at every end of line, for each of the given insertions: where it FAILS -/
def eolFails (B : Str) (inss : List Str) (o : Opts) : List (Nat × Str) :=
  ((List.range (B.length + 1)).filter (fun x => EolGap B x o)).flatMap fun x =>
    (inss.filter fun ins => !interiorB B x ins o).map (x, ·)

end Bashlex.C14
