/-
  C14, layer 2a: the relational walk through `_parse_matched_pair` / `_parse_comsub`
  (`Model/Tokenizer.lean`): these scanners only read characters and keep the delimiter stack;
  both runs return the same string.  All lemmas at level `1 → 1`.
-/
import Bashlex.Props.C14.Walk

namespace Bashlex.C14
open Bashlex Bashlex.C10
set_option linter.unusedSimpArgs false
set_option linter.unusedVariables false

variable {pre : Str} {top : Bool} {n n' : Nat}

theorem sim_mpInit (P : MPParams) : SimEq pre top n n (mpInit P) := by
  unfold mpInit; rel_walk
macro_rules | `(tactic| rel_atom) => `(tactic| exact sim_mpInit _)

theorem sim_mpPre (P : MPParams) (lfc : Bool) (st : MPState) :
    SimEq pre top 1 1 (mpPre P lfc st) := by
  unfold mpPre; rel_walk
macro_rules | `(tactic| rel_atom) => `(tactic| exact sim_mpPre _ _ _)

set_option hygiene false in
macro_rules | `(tactic| rel_atom) => `(tactic| exact hpmp _)
set_option hygiene false in
macro_rules | `(tactic| rel_atom) => `(tactic| exact hpcs _)
set_option hygiene false in
macro_rules | `(tactic| rel_atom) => `(tactic| exact hd _ _ _)
set_option hygiene false in
macro_rules | `(tactic| rel_atom) => `(tactic| exact hpost _ _ _ _)
set_option hygiene false in
macro_rules | `(tactic| rel_atom) => `(tactic| exact hcpost _ _ _)

theorem sim_handledollarword {pmp : MPParams → M Str} {pcs : CSParams → M Str}
    (hpmp : ∀ P, SimEq pre top 1 1 (pmp P)) (hpcs : ∀ P, SimEq pre top 1 1 (pcs P))
    (P : MPParams) (rdquote : Bool) (c : Char) :
    SimEq pre top 1 1 (handledollarword pmp pcs P rdquote c) := by
  unfold handledollarword; rel_walk

theorem sim_mpPost {pmp : MPParams → M Str} {pcs : CSParams → M Str}
    (hpmp : ∀ P, SimEq pre top 1 1 (pmp P)) (hpcs : ∀ P, SimEq pre top 1 1 (pcs P))
    (P : MPParams) (rdquote : Bool) (st : MPState) (c : Char) :
    SimEq pre top 1 1 (mpPost pmp pcs P rdquote st c) := by
  have hd := sim_handledollarword hpmp hpcs
  unfold mpPost; rel_walk

theorem sim_csDelimMatches (st : CSState) : SimEq pre top n n (csDelimMatches st) := by
  unfold csDelimMatches; rel_walk
macro_rules | `(tactic| rel_atom) => `(tactic| exact sim_csDelimMatches _)

theorem sim_csA (P : CSParams) (st : CSState) : SimEq pre top 1 1 (csA P st) := by
  unfold csA; rel_walk
theorem sim_csB (b : Bool) (st : CSState) (c : Char) : SimEq pre top 1 1 (csB b st c) := by
  unfold csB; rel_walk
theorem sim_csC (P : CSParams) (b : Bool) (st : CSState) (c : Char) :
    SimEq pre top 1 1 (csC P b st c) := by
  unfold csC; rel_walk
theorem sim_csD (P : CSParams) (st : CSState) (c : Char) : SimEq pre top n n (csD P st c) := by
  unfold csD; rel_walk
macro_rules | `(tactic| rel_atom) => `(tactic| exact sim_csA _ _)
macro_rules | `(tactic| rel_atom) => `(tactic| exact sim_csB _ _ _)
macro_rules | `(tactic| rel_atom) => `(tactic| exact sim_csC _ _ _ _)
macro_rules | `(tactic| rel_atom) => `(tactic| exact sim_csD _ _ _)

theorem sim_csPre (P : CSParams) (b : Bool) (st : CSState) : SimEq pre top 1 1 (csPre P b st) := by
  unfold csPre; rel_walk
macro_rules | `(tactic| rel_atom) => `(tactic| exact sim_csPre _ _ _)

theorem sim_csPost {pmp : MPParams → M Str} {pcs : CSParams → M Str}
    (hpmp : ∀ P, SimEq pre top 1 1 (pmp P)) (hpcs : ∀ P, SimEq pre top 1 1 (pcs P))
    (P : CSParams) (st : CSState) (c : Char) :
    SimEq pre top 1 1 (csPost pmp pcs P st c) := by
  unfold csPost; rel_walk

/-- the two mutually recursive scanners, by induction on the depth fuel -/
theorem sim_pmp_pcs : ∀ fuel, (∀ P, SimEq pre top 1 1 (parseMatchedPair fuel P)) ∧
    (∀ P, SimEq pre top 1 1 (parseComsub fuel P)) := by
  intro fuel
  induction fuel with
  | zero =>
    refine ⟨fun P => ?_, fun P => ?_⟩
    · unfold parseMatchedPair; rel_walk
    · unfold parseComsub; rel_walk
  | succ fuel ih =>
    obtain ⟨hpmp, hpcs⟩ := ih
    have hpost := sim_mpPost hpmp hpcs
    have hcpost := sim_csPost hpmp hpcs
    refine ⟨fun P => ?_, fun P => ?_⟩
    · unfold parseMatchedPair
      simp only [loopFuel, pure_bind]
      refine Sim.bindEq (sim_mpInit P) (fun r => ?_)
      refine Sim.loopEq (fun st => ?_) _ _
      rel_walk
    · unfold parseComsub
      simp only [loopFuel, pure_bind]
      refine Sim.bindEq (mid := 2) (sim_getc false (by decide)) (fun peek => ?_)
      refine Sim.bindU (mid := 1) (sim_ungetc peek) ?_
      refine Sim.ite (fun _ => hpmp _) (fun _ => ?_)
      refine Sim.loopEq (fun st => ?_) _ _
      rel_walk

theorem sim_parseMatchedPair (fuel : Nat) (P : MPParams) :
    SimEq pre top 1 1 (parseMatchedPair fuel P) := (sim_pmp_pcs fuel).1 P
theorem sim_parseComsub (fuel : Nat) (P : CSParams) :
    SimEq pre top 1 1 (parseComsub fuel P) := (sim_pmp_pcs fuel).2 P
macro_rules | `(tactic| rel_atom) => `(tactic| exact sim_parseMatchedPair _ _)
macro_rules | `(tactic| rel_atom) => `(tactic| exact sim_parseComsub _ _)

end Bashlex.C14
