/-
  C14, layer 3b (part 1): relational lemmas for the actions `p_inputunit` … `p_cond_command`.
-/
import Bashlex.Props.C14.ActSample

namespace Bashlex.C14
open Bashlex Bashlex.C10 Bashlex.C12 Bashlex.LR
set_option linter.unusedSimpArgs false
set_option linter.unusedVariables false

variable {pre : Str} {top : Bool} {n n' : Nat} {np : NestedParse}

/-! ## the unimplemented constructs -/

theorem sim_unimpl (p₁ p₂ : PCtx) (ty : String) :
    Sim pre top 0 0 (do let v ← handleNotImplemented p₁ ty; pure (v, false) : M (SVal × Bool))
      (do let v ← handleNotImplemented p₂ ty; pure (v, false) : M (SVal × Bool))
      (ActRes (kOf pre top)) :=
  Sim.bind (V := fun _ _ => False) (sim_handleNotImplemented (α := Unit) p₁ p₂ ty)
    (fun _ _ h => h.elim)

theorem rel_arith_for_command : ActionRel pre top np "p_arith_for_command" := by
  intro sorts σ args habs hsafe hargs hok
  unfold actionCore; simp only []
  exact sim_unimpl _ _ _

theorem rel_select_command : ActionRel pre top np "p_select_command" := by
  intro sorts σ args habs hsafe hargs hok
  unfold actionCore; simp only []
  exact sim_unimpl _ _ _

theorem rel_coproc : ActionRel pre top np "p_coproc" := by
  intro sorts σ args habs hsafe hargs hok
  unfold actionCore; simp only []
  exact sim_unimpl _ _ _

theorem rel_arith_command : ActionRel pre top np "p_arith_command" := by
  intro sorts σ args habs hsafe hargs hok
  unfold actionCore; simp only []
  exact sim_unimpl _ _ _

theorem rel_cond_command : ActionRel pre top np "p_cond_command" := by
  intro sorts σ args habs hsafe hargs hok
  unfold actionCore; simp only []
  exact sim_unimpl _ _ _

/-! ## lists of redirects, simple commands -/

theorem rel_redirection_list : ActionRel pre top np "p_redirection_list" := by
  intro sorts σ args habs hsafe hargs hok
  unfold actionCore; simp only []
  rw [len_map]
  refine Sim.ite (fun _ => ?_) (fun _ => ?_)
  · refine Sim.bind (sim_nodeAt 1 _) (fun a b hab => ?_)
    subst hab
    exact Sim.pure (Nat.le_refl _) rfl
  · refine Sim.bind (sim_nodesAt 1 _) (fun l l' hl => ?_)
    subst hl
    refine Sim.bind (sim_nodeAt 2 _) (fun a b hab => ?_)
    subst hab
    exact Sim.pure (Nat.le_refl _) (by shift_eq)

theorem rel_simple_command : ActionRel pre top np "p_simple_command" := by
  intro sorts σ args habs hsafe hargs hok
  unfold actionCore; simp only []
  rw [len_map]
  refine Sim.ite (fun _ => ?_) (fun _ => ?_)
  · refine Sim.bind (sim_nodesAt 1 _) (fun l l' hl => ?_)
    subst hl
    refine Sim.bind (sim_nodesAt 2 _) (fun r r' hr => ?_)
    subst hr
    exact Sim.pure (Nat.le_refl _) (by shift_eq)
  · rw [slice_map]
    exact Sim.pure (Nat.le_refl _) rfl

/-! ## commands -/

theorem sim_command_parts {args : List SVal} :
    Sim pre top 0 0
      (do let parts ← PCtx.nodesAt ⟨np, args⟩ 1 "_partsspan"
          let sp ← partsspan parts
          pure (SVal.node (.command sp parts), false) : M (SVal × Bool))
      (do let parts ← PCtx.nodesAt ⟨np, args.map (shiftS (kOf pre top))⟩ 1 "_partsspan"
          let sp ← partsspan parts
          pure (SVal.node (.command sp parts), false) : M (SVal × Bool))
      (ActRes (kOf pre top)) := by
  refine Sim.bind (sim_nodesAt 1 _) (fun l l' hl => ?_)
  subst hl
  refine Sim.bind (sim_partsspan l) (fun sp sp' hsp => ?_)
  subst hsp
  exact Sim.pure (Nat.le_refl _) (by shift_eq)

theorem rel_command : ActionRel pre top np "p_command" := by
  intro sorts σ args habs hsafe hargs hok
  unfold actionCore; simp only []
  rw [slice_map, len_map]
  cases h : PCtx.slice ⟨np, args⟩ 1 with
  | node nd =>
    simp only [shiftS_node]
    refine Sim.ite (fun _ => ?_) (fun _ => ?_)
    · refine Sim.bind (sim_nodesAt 2 _) (fun l l' hl => ?_)
      subst hl
      refine Sim.bind (sim_addRedirects nd l) (fun a b hab => ?_)
      subst hab
      exact Sim.pure (Nat.le_refl _) rfl
    · exact Sim.pure (Nat.le_refl _) rfl
  | none => exact sim_command_parts
  | tok t => exact sim_command_parts
  | nodes l => exact sim_command_parts

theorem rel_function_body : ActionRel pre top np "p_function_body" := by
  intro sorts σ args habs hsafe hargs hok
  unfold actionCore; simp only []
  rw [len_map]
  refine Sim.bind (sim_nodeAt 1 _) (fun nd nd' hnd => ?_)
  subst hnd
  rw [isCompound_shift]
  refine Sim.bindU (mid := 0) (sim_handleAssert _) ?_
  refine Sim.ite (fun _ => ?_) (fun _ => ?_)
  · refine Sim.bind (sim_nodesAt 2 _) (fun l l' hl => ?_)
    subst hl
    refine Sim.bind (sim_addRedirects nd l) (fun a b hab => ?_)
    subst hab
    exact Sim.pure (Nat.le_refl _) rfl
  · exact Sim.pure (Nat.le_refl _) rfl

/-- `p_subshell` / `p_group_command` -/
theorem sim_group {args : List SVal} (hpos : ArgsPos args) :
    Sim pre top 0 0
      (do let l ← reservedAt ⟨np, args⟩ 1
          let r ← reservedAt ⟨np, args⟩ 3
          let mid ← PCtx.nodeAt ⟨np, args⟩ 2 "_partsspan"
          let sp ← partsspan [l, mid, r]
          pure (SVal.node (.compound sp [l, mid, r] []), false) : M (SVal × Bool))
      (do let l ← reservedAt ⟨np, args.map (shiftS (kOf pre top))⟩ 1
          let r ← reservedAt ⟨np, args.map (shiftS (kOf pre top))⟩ 3
          let mid ← PCtx.nodeAt ⟨np, args.map (shiftS (kOf pre top))⟩ 2 "_partsspan"
          let sp ← partsspan [l, mid, r]
          pure (SVal.node (.compound sp [l, mid, r] []), false) : M (SVal × Bool))
      (ActRes (kOf pre top)) := by
  refine Sim.bind (sim_reservedAt hpos 1) (fun l l' hl => ?_)
  subst hl
  refine Sim.bind (sim_reservedAt hpos 3) (fun r r' hr => ?_)
  subst hr
  refine Sim.bind (sim_nodeAt 2 _) (fun m m' hm => ?_)
  subst hm
  refine Sim.bind (sim_partsspan [l, m, r]) (fun sp sp' hsp => ?_)
  subst hsp
  exact Sim.pure (Nat.le_refl _) (by shift_eq)

theorem rel_subshell : ActionRel pre top np "p_subshell" := by
  intro sorts σ args habs hsafe hargs hok
  have hpos : ArgsPos args := argsPos_of_sorts hargs hsafe hok
  unfold actionCore; simp only []
  exact sim_group hpos

theorem rel_group_command : ActionRel pre top np "p_group_command" := by
  intro sorts σ args habs hsafe hargs hok
  have hpos : ArgsPos args := argsPos_of_sorts hargs hsafe hok
  unfold actionCore; simp only []
  exact sim_group hpos

theorem rel_case_command (hexp : ExpRel pre top np) : ActionRel pre top np "p_case_command" := by
  intro sorts σ args habs hsafe hargs hok
  have hpos : ArgsPos args := argsPos_of_sorts hargs hsafe hok
  unfold actionCore; simp only []
  refine Sim.bind (sim_makeparts hexp args hpos) (fun parts parts' hp => ?_)
  subst hp
  refine Sim.bind (sim_mkCompound1 .caseN (fun sp ps => by simp [Node.shift, Node.mapPos, Node.mapPosL_eq_map, sh]) parts)
    (fun v v' hv => ?_)
  subst hv
  exact Sim.pure (Nat.le_refl _) rfl

theorem rel_shell_command (hexp : ExpRel pre top np) : ActionRel pre top np "p_shell_command" := by
  intro sorts σ args habs hsafe hargs hok
  have hpos : ArgsPos args := argsPos_of_sorts hargs hsafe hok
  unfold actionCore; simp only []
  rw [len_map]
  refine Sim.ite (fun _ => ?_) (fun _ => ?_)
  · refine Sim.bind (sim_nodeAt 1 _) (fun nd nd' hnd => ?_)
    subst hnd
    rw [isCompound_shift]
    refine Sim.bindU (mid := 0) (sim_handleAssert _) ?_
    exact Sim.pure (Nat.le_refl _) rfl
  · refine Sim.bind (sim_makeparts hexp args hpos) (fun parts parts' hp => ?_)
    subst hp
    rw [List.head?_map]
    cases hh : parts.head? with
    | none => exact Sim.foreign _ _
    | some nd =>
      simp only [Option.map_some]
      cases nd with
      | reservedword p w =>
        show Sim pre top 0 0 (partsspan parts >>= _)
          (partsspan (parts.map (Node.shift (kOf pre top))) >>= _) _
        refine Sim.bind (sim_partsspan parts) (fun sp sp' hsp => ?_)
        subst hsp
        refine Sim.ite (fun _ => ?_) (fun _ => ?_)
        · exact Sim.pure (Nat.le_refl _) (by shift_eq)
        · refine Sim.ite (fun _ => ?_) (fun _ => ?_)
          · exact Sim.pure (Nat.le_refl _) (by shift_eq)
          · exact Sim.foreign _ _
      | _ => exact Sim.foreign _ _

/-! ## `for` -/

theorem fix_map (k : Nat) : ∀ l : List Node,
    actionCore.fix (l.map (Node.shift k)) = (actionCore.fix l).map (Node.shift k)
  | [] => rfl
  | nd :: rest => by
    have ih := fix_map k rest
    cases nd with
    | operator pos op =>
      show actionCore.fix (Node.operator (sh k pos) op :: rest.map (Node.shift k)) = _
      unfold actionCore.fix
      split
      · rfl
      · rw [ih]; rfl
    | _ =>
      show _ = _ :: (actionCore.fix rest).map (Node.shift k)
      rw [← ih]
      rfl

theorem rel_for_command (hexp : ExpRel pre top np) : ActionRel pre top np "p_for_command" := by
  intro sorts σ args habs hsafe hargs hok
  have hpos : ArgsPos args := argsPos_of_sorts hargs hsafe hok
  unfold actionCore; simp only []
  refine Sim.bind (sim_makeparts hexp args hpos) (fun parts parts' hp => ?_)
  subst hp
  rw [fix_map]
  refine Sim.bind (sim_mkCompound1 .forN (fun sp ps => by simp [Node.shift, Node.mapPos, Node.mapPosL_eq_map, sh]) _)
    (fun v v' hv => ?_)
  subst hv
  exact Sim.pure (Nat.le_refl _) rfl

/-! ## function definitions -/

theorem findIdx?_shift (k : Nat) (p : Node → Bool) (hp : ∀ n, p (Node.shift k n) = p n) :
    ∀ l : List Node, List.findIdx? p (l.map (Node.shift k)) = List.findIdx? p l
  | [] => rfl
  | a :: rest => by
    rw [List.map_cons, List.findIdx?_cons, List.findIdx?_cons, hp, findIdx?_shift k p hp rest]

/-- the body of `p_function_def` after `_makeparts` -/
theorem sim_function_tail (p : Node → Bool) (hp : ∀ n, p (Node.shift (kOf pre top) n) = p n)
    (parts : List Node) :
    Sim pre top 0 0
      (do let sp ← partsspan parts
          pure (SVal.node (.function sp
            (match List.findIdx? p parts with
             | some i => i
             | none => parts.length - 1) (parts.length - 1) parts), false) : M (SVal × Bool))
      (do let sp ← partsspan (parts.map (Node.shift (kOf pre top)))
          pure (SVal.node (.function sp
            (match List.findIdx? p (parts.map (Node.shift (kOf pre top))) with
             | some i => i
             | none => (parts.map (Node.shift (kOf pre top))).length - 1)
            ((parts.map (Node.shift (kOf pre top))).length - 1)
            (parts.map (Node.shift (kOf pre top)))), false) : M (SVal × Bool))
      (ActRes (kOf pre top)) := by
  rw [findIdx?_shift _ p hp, List.length_map]
  refine Sim.bind (sim_partsspan parts) (fun sp sp' hsp => ?_)
  subst hsp
  exact Sim.pure (Nat.le_refl _) (by shift_eq)

theorem rel_function_def (hexp : ExpRel pre top np) : ActionRel pre top np "p_function_def" := by
  intro sorts σ args habs hsafe hargs hok
  have hpos : ArgsPos args := argsPos_of_sorts hargs hsafe hok
  unfold actionCore; simp only []
  refine Sim.bind (sim_makeparts hexp args hpos) (fun parts parts' hp => ?_)
  subst hp
  rw [List.isEmpty_map]
  refine Sim.ite (fun _ => ?_) (fun _ => ?_)
  · exact Sim.bind (mid := 0) (V := fun _ _ => False) (Sim.foreign _ _) (fun _ _ h => h.elim)
  · exact sim_function_tail _ (fun nd => by cases nd <;> rfl) parts

/-! ## `inputunit` -/

theorem sim_inputunit_tail (args : List SVal) :
    Sim pre top 0 0
      (match PCtx.slice ⟨np, args⟩ 1 with
        | SVal.node n => pure (SVal.node n, true)
        | _ => pure (SVal.none, false) : M (SVal × Bool))
      (match PCtx.slice ⟨np, args.map (shiftS (kOf pre top))⟩ 1 with
        | SVal.node n => pure (SVal.node n, true)
        | _ => pure (SVal.none, false) : M (SVal × Bool))
      (ActRes (kOf pre top)) := by
  rw [slice_map]
  cases PCtx.slice ⟨np, args⟩ 1 <;> exact Sim.pure (Nat.le_refl _) rfl

theorem rel_inputunit : ActionRel pre top np "p_inputunit" := by
  intro sorts σ args habs hsafe hargs hok
  unfold actionCore; simp only []
  refine Sim.get_bind (fun l₁ l₂ hl => ?_)
  rw [hl.ps]
  refine SimAt.ite (fun _ => ?_) (fun _ => ?_)
  · refine SimAt.bindU (mid := 0) (Sim.at ?_ _ _) (sim_inputunit_tail args)
    rel_modify
  · exact Sim.at (sim_inputunit_tail args) _ _

/-! ## words -/

theorem rel_word_list (hexp : ExpRel pre top np) : ActionRel pre top np "p_word_list" := by
  intro sorts σ args habs hsafe hargs hok
  have hpos : ArgsPos args := argsPos_of_sorts hargs hsafe hok
  unfold actionCore; simp only []
  rw [len_map]
  refine Sim.ite (fun _ => ?_) (fun _ => ?_)
  · refine Sim.bind (sim_tokAt hpos 1) (fun t t' ht => ?_)
    obtain ⟨rfl, hp, -⟩ := ht
    refine Sim.bind (hexp t hp) (fun w w' hw => ?_)
    subst hw
    exact Sim.pure (Nat.le_refl _) rfl
  · refine Sim.bind (sim_nodesAt 1 _) (fun l l' hl => ?_)
    subst hl
    refine Sim.bind (sim_tokAt hpos 2) (fun t t' ht => ?_)
    obtain ⟨rfl, hp, -⟩ := ht
    refine Sim.bind (hexp t hp) (fun w w' hw => ?_)
    subst hw
    exact Sim.pure (Nat.le_refl _) (by shift_eq)

theorem sim_sce_tok (hexp : ExpRel pre top np) {args : List SVal} (hpos : ArgsPos args) :
    Sim pre top 0 0
      (do let t ← PCtx.tokAt ⟨np, args⟩ 1
          let w ← expandword np t
          if t.is TokType.ASSIGNMENT_WORD = true then
            match w with
            | Node.word pos s parts => pure (SVal.nodes [Node.assignment pos s parts], false)
            | _ => pure (SVal.nodes [w], false)
          else pure (SVal.nodes [w], false) : M (SVal × Bool))
      (do let t ← PCtx.tokAt ⟨np, args.map (shiftS (kOf pre top))⟩ 1
          let w ← expandword np t
          if t.is TokType.ASSIGNMENT_WORD = true then
            match w with
            | Node.word pos s parts => pure (SVal.nodes [Node.assignment pos s parts], false)
            | _ => pure (SVal.nodes [w], false)
          else pure (SVal.nodes [w], false) : M (SVal × Bool))
      (ActRes (kOf pre top)) := by
  refine Sim.bind (sim_tokAt hpos 1) (fun t t' ht => ?_)
  obtain ⟨rfl, hp, -⟩ := ht
  refine Sim.bind (hexp t hp) (fun w w' hw => ?_)
  subst hw
  refine Sim.iteIff Iff.rfl (fun _ => ?_) (fun _ => ?_)
  · cases w <;> exact Sim.pure (Nat.le_refl _) (by shift_eq)
  · exact Sim.pure (Nat.le_refl _) rfl

theorem rel_simple_command_element (hexp : ExpRel pre top np) :
    ActionRel pre top np "p_simple_command_element" := by
  intro sorts σ args habs hsafe hargs hok
  have hpos : ArgsPos args := argsPos_of_sorts hargs hsafe hok
  unfold actionCore; simp only []
  rw [slice_map]
  cases h : PCtx.slice ⟨np, args⟩ 1 with
  | node nd => exact Sim.pure (Nat.le_refl _) rfl
  | none => exact sim_sce_tok hexp hpos
  | tok t => exact sim_sce_tok hexp hpos
  | nodes l => exact sim_sce_tok hexp hpos

/-! ## redirections -/

/-- a redirection has two or three right-hand-side symbols -/
theorem len_redirection {sorts : List Srt} {σ : Srt} {args : List SVal}
    (h : absAction "p_redirection" sorts = some σ) (ha : Forall2 HasSort sorts args) :
    PCtx.len ⟨np, args⟩ = 3 ∨ PCtx.len ⟨np, args⟩ = 4 := by
  have hl := forall2_length ha
  unfold absAction at h; simp only [] at h
  unfold PCtx.len
  split at h
  · left; simp at hl; simp [← hl]
  · right; simp at hl; simp [← hl]
  · cases h

theorem len_redirection_heredoc {sorts : List Srt} {σ : Srt} {args : List SVal}
    (h : absAction "p_redirection_heredoc" sorts = some σ) (ha : Forall2 HasSort sorts args) :
    PCtx.len ⟨np, args⟩ = 3 ∨ PCtx.len ⟨np, args⟩ = 4 := by
  have hl := forall2_length ha
  unfold absAction at h; simp only [] at h
  unfold PCtx.len
  split at h
  · left; simp at hl; simp [← hl]
  · right; simp at hl; simp [← hl]
  · cases h

theorem redirect_shift (k : Nat) (a b : Span) (i : RedirIn) (t : Str) (o : Option Node) (oa : RedirIn)
    (hid : Option Nat) :
    Node.redirect ((sh k a).1, (sh k b).2) i t (Node.mapPosO (sh k) o) oa none hid =
      (Node.redirect (a.1, b.2) i t o oa none hid).shift k := rfl

/-- the end of `p_redirection`, once the output is known -/
theorem sim_redirection_tail {args : List SVal} (hpos : ArgsPos args)
    (hlen : PCtx.len ⟨np, args⟩ = 3 ∨ PCtx.len ⟨np, args⟩ = 4) {otok : Token}
    (hot : PCtx.slice ⟨np, args⟩ (PCtx.len ⟨np, args⟩ - 1) = .tok otok) (o : Option Node)
    (oa : RedirIn) :
    Sim pre top 0 0
      (if (PCtx.len ⟨np, args⟩ == 3) = true then do
          let s ← PCtx.strAt ⟨np, args⟩ 1
          pure (SVal.node (Node.redirect ((PCtx.lexspan ⟨np, args⟩ 1).1, (PCtx.lexspan ⟨np, args⟩ 2).2)
            RedirIn.none s o oa none none), false)
        else do
          let t1 ← PCtx.tokAt ⟨np, args⟩ 1
          let s ← PCtx.strAt ⟨np, args⟩ 2
          pure (SVal.node (Node.redirect ((PCtx.lexspan ⟨np, args⟩ 1).1, (PCtx.lexspan ⟨np, args⟩ 3).2)
            (match t1.value with
              | TVal.int k => RedirIn.num k
              | TVal.str s => RedirIn.str s
              | TVal.none => RedirIn.none) s o oa none none), false) : M (SVal × Bool))
      (if (PCtx.len ⟨np, args⟩ == 3) = true then do
          let s ← PCtx.strAt ⟨np, args.map (shiftS (kOf pre top))⟩ 1
          pure (SVal.node (Node.redirect
            ((PCtx.lexspan ⟨np, args.map (shiftS (kOf pre top))⟩ 1).1,
              (PCtx.lexspan ⟨np, args.map (shiftS (kOf pre top))⟩ 2).2)
            RedirIn.none s (Node.mapPosO (sh (kOf pre top)) o) oa none none), false)
        else do
          let t1 ← PCtx.tokAt ⟨np, args.map (shiftS (kOf pre top))⟩ 1
          let s ← PCtx.strAt ⟨np, args.map (shiftS (kOf pre top))⟩ 2
          pure (SVal.node (Node.redirect
            ((PCtx.lexspan ⟨np, args.map (shiftS (kOf pre top))⟩ 1).1,
              (PCtx.lexspan ⟨np, args.map (shiftS (kOf pre top))⟩ 3).2)
            (match t1.value with
              | TVal.int k => RedirIn.num k
              | TVal.str s => RedirIn.str s
              | TVal.none => RedirIn.none) s (Node.mapPosO (sh (kOf pre top)) o) oa none none), false)
          : M (SVal × Bool))
      (ActRes (kOf pre top)) := by
  refine Sim.ite (fun h3 => ?_) (fun h3 => ?_)
  · have h3' : PCtx.len ⟨np, args⟩ = 3 := by simpa using h3
    rw [h3'] at hot
    refine Sim.bind (sim_strAt 1) (fun s s' hs => ?_)
    obtain ⟨rfl, t1, h1⟩ := hs
    rw [lexspan_map hpos h1, lexspan_map hpos hot]
    refine Sim.pure (Nat.le_refl _) ?_
    show (_, _) = (_, _)
    rw [redirect_shift]; rfl
  · have h4 : PCtx.len ⟨np, args⟩ = 4 := by
      rcases hlen with h | h
      · exact absurd (by simp [h]) h3
      · exact h
    rw [h4] at hot
    refine Sim.bind (sim_tokAt hpos 1) (fun t1 t1' ht1 => ?_)
    obtain ⟨rfl, -, h1⟩ := ht1
    refine Sim.bind (sim_strAt 2) (fun s s' hs => ?_)
    obtain ⟨rfl, -⟩ := hs
    rw [lexspan_map hpos h1, lexspan_map hpos hot]
    refine Sim.pure (Nat.le_refl _) ?_
    show (_, _) = (_, _)
    rw [redirect_shift]; rfl

theorem rel_redirection (hexp : ExpRel pre top np) : ActionRel pre top np "p_redirection" := by
  intro sorts σ args habs hsafe hargs hok
  have hpos : ArgsPos args := argsPos_of_sorts hargs hsafe hok
  have hlen := len_redirection (np := np) habs hargs
  unfold actionCore; simp only []
  rw [len_map]
  refine Sim.bind (sim_tokAt hpos _) (fun otok otok' hot => ?_)
  obtain ⟨rfl, hp, hot⟩ := hot
  refine Sim.iteIff Iff.rfl (fun _ => ?_) (fun _ => ?_)
  · refine Sim.bind (hexp otok hp) (fun w w' hw => ?_)
    subst hw
    simp only [pure_bind]
    exact sim_redirection_tail hpos hlen hot (some w) RedirIn.none
  · simp only [pure_bind]
    exact sim_redirection_tail hpos hlen hot none _

/-- the end of `p_redirection_heredoc`: a new cell in the redirect store, a new entry on the
    `redirstack`, and the redirect node that refers to the cell -/
theorem sim_heredoc_store (pos : Span) (inp : RedirIn) (ty : Str) (kill : Bool) {wtok : Token}
    (hp : wtok.pos.isSome = true) :
    Sim pre top 0 0
      (do let l ← get
          set { l with
            redirstack := l.redirstack ++ [(l.store.length, kill)],
            store := l.store ++ [({ pos := pos, delim := wtok.valueStr } : RedirCell)] }
          pure (SVal.node (Node.redirect pos inp ty
            (some (Node.word (wtok.lexpos, wtok.endlexpos) wtok.valueStr [])) RedirIn.none none
            (some l.store.length)), false) : M (SVal × Bool))
      (do let l ← get
          set { l with
            redirstack := l.redirstack ++ [(l.store.length, kill)],
            store := l.store ++ [({ pos := sh (kOf pre top) pos, delim := wtok.valueStr } : RedirCell)] }
          pure (SVal.node (Node.redirect (sh (kOf pre top) pos) inp ty
            (some (Node.word ((shiftTok (kOf pre top) wtok).lexpos, (shiftTok (kOf pre top) wtok).endlexpos)
              wtok.valueStr [])) RedirIn.none none
            (some l.store.length)), false) : M (SVal × Bool))
      (ActRes (kOf pre top)) := by
  refine Sim.get_bind (fun l₁ l₂ hl => ?_)
  refine SimAt.bindU (mid := 0) (SimAt.set (fun e₁ e₂ hr => hr.update ?_ rfl rfl rfl)) ?_
  · exact { hl with
      store := by
        show l₂.store ++ _ = List.map _ (l₁.store ++ _)
        rw [hl.store, List.map_append]; rfl
      redirstack := by
        show l₂.redirstack ++ [(l₂.store.length, kill)] = l₁.redirstack ++ [(l₁.store.length, kill)]
        rw [hl.redirstack, hl.store, List.length_map] }
  · refine Sim.pure (Nat.le_refl _) ?_
    rw [hl.store, List.length_map, shiftTok_span _ hp]
    rfl

theorem rel_redirection_heredoc : ActionRel pre top np "p_redirection_heredoc" := by
  intro sorts σ args habs hsafe hargs hok
  have hpos : ArgsPos args := argsPos_of_sorts hargs hsafe hok
  have hlen := len_redirection_heredoc (np := np) habs hargs
  unfold actionCore; simp only []
  rw [len_map]
  refine Sim.bind (sim_tokAt hpos _) (fun wtok wtok' hwt => ?_)
  obtain ⟨rfl, hp, hwt⟩ := hwt
  rw [isTok_map]
  refine Sim.ite (fun h3 => ?_) (fun h3 => ?_)
  · have h3' : PCtx.len ⟨np, args⟩ = 3 := by simpa using h3
    rw [h3'] at hwt
    refine Sim.bind (sim_strAt 1) (fun s s' hs => ?_)
    obtain ⟨rfl, t1, h1⟩ := hs
    rw [lexspan_map hpos h1, lexspan_map hpos hwt]
    simp only [pure_bind]
    exact sim_heredoc_store _ _ _ _ hp
  · have h4 : PCtx.len ⟨np, args⟩ = 4 := by
      rcases hlen with h | h
      · exact absurd (by simp [h]) h3
      · exact h
    rw [h4] at hwt
    refine Sim.bind (sim_tokAt hpos 1) (fun t1 t1' ht1 => ?_)
    obtain ⟨rfl, -, h1⟩ := ht1
    refine Sim.bind (sim_strAt 2) (fun s s' hs => ?_)
    obtain ⟨rfl, -⟩ := hs
    rw [lexspan_map hpos h1, lexspan_map hpos hwt]
    simp only [pure_bind]
    exact sim_heredoc_store _ _ _ _ hp

end Bashlex.C14
