/-
  C14, layer 3d: all semantic actions move with the input (`ActionsHyp` of `Engine.lean`), from
  the per-action lemmas of `Act1.lean`, `Act2.lean` and word expansion (`Expand.lean`).
-/
import Bashlex.Props.C14.Act1
import Bashlex.Props.C14.Act2
import Bashlex.Props.C14.Expand
import Bashlex.Props.C14.Engine

namespace Bashlex.C14
open Bashlex Bashlex.C10 Bashlex.C12 Bashlex.LR
set_option linter.unusedSimpArgs false
set_option linter.unusedVariables false

variable {pre : Str} {top : Bool}

/-- the accept test of `p_simple_list` gives the same answer in both runs -/
theorem curFlags (pre : Str) (top : Bool) : CurFlags pre top := by
  refine curFlags_of (fun l₁ l₂ hl _ e he => ⟨hl.curFlags, ?_⟩)
  rcases hl.eofOK with h | h
  · rw [h] at he; cases he
  · rw [h] at he
    cases he
    exact ⟨by decide, by decide⟩

set_option maxHeartbeats 1000000 in
/-- every action function moves with the input -/
theorem actionsHyp : ActionsHyp := by
  intro pre top np hnp f sorts σ args habs hsafe hargs hok
  have hexp := expRel_of_npRel hnp
  have hcur := curFlags pre top
  have h0 := habs
  unfold absAction at h0
  split at h0
  · exact rel_inputunit sorts σ args habs hsafe hargs hok
  · exact rel_word_list hexp sorts σ args habs hsafe hargs hok
  · exact rel_redirection_heredoc sorts σ args habs hsafe hargs hok
  · exact rel_redirection hexp sorts σ args habs hsafe hargs hok
  · exact rel_simple_command_element hexp sorts σ args habs hsafe hargs hok
  · exact rel_redirection_list sorts σ args habs hsafe hargs hok
  · exact rel_simple_command sorts σ args habs hsafe hargs hok
  · exact rel_command sorts σ args habs hsafe hargs hok
  · exact rel_shell_command hexp sorts σ args habs hsafe hargs hok
  · exact rel_for_command hexp sorts σ args habs hsafe hargs hok
  · exact rel_arith_for_command sorts σ args habs hsafe hargs hok
  · exact rel_select_command sorts σ args habs hsafe hargs hok
  · exact rel_case_command hexp sorts σ args habs hsafe hargs hok
  · exact rel_function_def hexp sorts σ args habs hsafe hargs hok
  · exact rel_function_body sorts σ args habs hsafe hargs hok
  · exact rel_subshell sorts σ args habs hsafe hargs hok
  · exact rel_group_command sorts σ args habs hsafe hargs hok
  · exact rel_coproc sorts σ args habs hsafe hargs hok
  · exact rel_if_command hexp sorts σ args habs hsafe hargs hok
  · exact rel_arith_command sorts σ args habs hsafe hargs hok
  · exact rel_cond_command sorts σ args habs hsafe hargs hok
  · exact rel_elif_clause sorts σ args habs hsafe hargs hok
  · exact rel_case_clause sorts σ args habs hsafe hargs hok
  · exact rel_pattern_list sorts σ args habs hsafe hargs hok
  · exact rel_case_clause_sequence sorts σ args habs hsafe hargs hok
  · exact rel_pattern hexp sorts σ args habs hsafe hargs hok
  · exact rel_list sorts σ args habs hsafe hargs hok
  · exact rel_compound_list sorts σ args habs hsafe hargs hok
  · exact rel_list0 sorts σ args habs hsafe hargs hok
  · exact rel_list1 sorts σ args habs hsafe hargs hok
  · exact rel_simple_list_terminator sorts σ args habs hsafe hargs hok
  · exact rel_list_terminator sorts σ args habs hsafe hargs hok
  · exact rel_newline_list sorts σ args habs hsafe hargs hok
  · exact rel_simple_list hcur sorts σ args habs hsafe hargs hok
  · exact rel_simple_list1 sorts σ args habs hsafe hargs hok
  · exact rel_pipeline_command sorts σ args habs hsafe hargs hok
  · exact rel_pipeline sorts σ args habs hsafe hargs hok
  · exact rel_timespec sorts σ args habs hsafe hargs hok
  · exact rel_empty sorts σ args habs hsafe hargs hok
  · cases h0

end Bashlex.C14
