/-
  C14, layer 3b (template): relational lemmas for three actions.
-/
import Bashlex.Props.C14.ActBase

namespace Bashlex.C14
open Bashlex Bashlex.C10 Bashlex.C12 Bashlex.LR
set_option linter.unusedSimpArgs false
set_option linter.unusedVariables false

variable {pre : Str} {top : Bool} {n n' : Nat} {np : NestedParse}

/-- `mkCompound1` -/
theorem sim_mkCompound1 (inner : Span → List Node → Node)
    (hinner : ∀ sp ps, inner (sh (kOf pre top) sp) (ps.map (Node.shift (kOf pre top))) =
      (inner sp ps).shift (kOf pre top)) (parts : List Node) :
    Sim pre top n n (mkCompound1 inner parts)
      (mkCompound1 inner (parts.map (Node.shift (kOf pre top))))
      (fun a b => b = shiftS (kOf pre top) a) := by
  unfold mkCompound1
  refine Sim.bind (sim_partsspan parts) (fun sp sp' hsp => ?_)
  subst hsp
  refine Sim.pure (Nat.le_refl _) ?_
  rw [hinner]
  simp [shiftS, shift_compound]

theorem rel_if_command (hexp : ExpRel pre top np) : ActionRel pre top np "p_if_command" := by
  intro sorts σ args habs hsafe hargs hok
  have hpos : ArgsPos args := argsPos_of_sorts hargs hsafe hok
  unfold actionCore; simp only []
  refine Sim.bind (sim_makeparts hexp args hpos) (fun parts parts' hp => ?_)
  subst hp
  refine Sim.bind (sim_mkCompound1 .ifN (fun sp ps => by simp [Node.shift, Node.mapPos, Node.mapPosL_eq_map, sh]) parts)
    (fun v v' hv => ?_)
  subst hv
  exact Sim.pure (Nat.le_refl _) rfl

end Bashlex.C14
