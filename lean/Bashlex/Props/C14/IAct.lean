/-
  C14 interior, part 3: naturality of semantic actions in the spans, for an arbitrary span map
  `f` fixing `(0, 0)` — the actions only read spans (`lexspan`, `nodePos`) and pair a first start
  with a last end; no action does arithmetic on positions.  Proved here: the actions that neither
  expand words nor touch pending here-documents (`ActNat` for the names in `provedActions`);
  the others remain hypotheses of `C14Interior`.
-/
import Bashlex.Props.C14.IEngine

namespace Bashlex.C14I
open Bashlex Bashlex.LR Bashlex.C16
set_option linter.unusedSimpArgs false
set_option linter.unusedVariables false
set_option linter.unusedSectionVars false

variable [EnvRel] {f : Span → Span} {Q : Token → Prop} {S : Local → Local → Prop}
  {np₁ np₂ : NestedParse} {args : List SVal}

/-! ## the context `p` of the two runs -/

theorem mapS_none (f : Span → Span) : mapS f .none = .none := rfl

theorem slice_map (np₁ np₂ : NestedParse) (args : List SVal) (i : Nat) :
    (PCtx.mk np₂ (args.map (mapS f))).slice i = mapS f ((PCtx.mk np₁ args).slice i) := by
  unfold PCtx.slice
  simp only [List.getD_eq_getElem?_getD, List.getElem?_map]
  cases args[i - 1]? <;> rfl

theorem len_map (np₁ np₂ : NestedParse) (args : List SVal) :
    (PCtx.mk np₂ (args.map (mapS f))).len = (PCtx.mk np₁ args).len := by
  unfold PCtx.len; simp only [List.length_map]

theorem lexspan_map (h0 : f (0, 0) = (0, 0)) (np₁ np₂ : NestedParse) (args : List SVal) (i : Nat) :
    (PCtx.mk np₂ (args.map (mapS f))).lexspan i = f ((PCtx.mk np₁ args).lexspan i) := by
  unfold PCtx.lexspan
  rw [slice_map np₁ np₂, lexspan_mapS h0]

theorem isTok_map (np₁ np₂ : NestedParse) (args : List SVal) (i : Nat) (ty : TokType) :
    (PCtx.mk np₂ (args.map (mapS f))).isTok i ty = (PCtx.mk np₁ args).isTok i ty := by
  unfold PCtx.isTok
  rw [slice_map np₁ np₂]
  cases (PCtx.mk np₁ args).slice i <;> rfl

/-- a token among the arguments satisfies `Q` -/
theorem slice_Q (hq : ∀ a ∈ args, QV Q a) (np : NestedParse) (i : Nat) :
    QV Q ((PCtx.mk np args).slice i) := by
  unfold PCtx.slice
  simp only [List.getD_eq_getElem?_getD]
  cases h : args[i - 1]? with
  | none => intro t ht; cases ht
  | some a => exact hq a (List.mem_of_getElem? h)

theorem rel_tokAt (hq : ∀ a ∈ args, QV Q a) (i : Nat) :
    Rel S S ((PCtx.mk np₁ args).tokAt i) ((PCtx.mk np₂ (args.map (mapS f))).tokAt i)
      (fun t t' => t' = mapTok f t ∧ Q t) := by
  unfold PCtx.tokAt
  rw [slice_map np₁ np₂]
  have := slice_Q hq np₁ i
  revert this
  cases (PCtx.mk np₁ args).slice i <;> intro hQ
  · exact Rel.foreign_left
  · exact Rel.pure ⟨rfl, hQ _ rfl⟩
  · exact Rel.foreign_left
  · exact Rel.foreign_left

theorem rel_strAt (hq : ∀ a ∈ args, QV Q a) (i : Nat) :
    Rel S S ((PCtx.mk np₁ args).strAt i) ((PCtx.mk np₂ (args.map (mapS f))).strAt i) Eq := by
  unfold PCtx.strAt
  refine Rel.bind (rel_tokAt hq i) ?_
  rintro t t' ⟨rfl, _⟩
  exact Rel.pure rfl

theorem rel_nodeAt (i : Nat) (site : String) :
    Rel S S ((PCtx.mk np₁ args).nodeAt i site) ((PCtx.mk np₂ (args.map (mapS f))).nodeAt i site)
      (fun n n' => n' = n.mapPos f) := by
  unfold PCtx.nodeAt
  rw [slice_map np₁ np₂]
  cases (PCtx.mk np₁ args).slice i
  · exact Rel.foreign_left
  · exact Rel.foreign_left
  · exact Rel.pure rfl
  · exact Rel.foreign_left

theorem rel_nodesAt (i : Nat) (site : String) :
    Rel S S ((PCtx.mk np₁ args).nodesAt i site) ((PCtx.mk np₂ (args.map (mapS f))).nodesAt i site)
      (fun l l' => l' = l.map (Node.mapPos f)) := by
  unfold PCtx.nodesAt
  rw [slice_map np₁ np₂]
  cases (PCtx.mk np₁ args).slice i
  · exact Rel.foreign_left
  · exact Rel.foreign_left
  · exact Rel.foreign_left
  · exact Rel.pure rfl

theorem rel_reservedAt (h0 : f (0, 0) = (0, 0)) (hq : ∀ a ∈ args, QV Q a) (i : Nat) :
    Rel S S (reservedAt (PCtx.mk np₁ args) i) (reservedAt (PCtx.mk np₂ (args.map (mapS f))) i)
      (fun n n' => n' = n.mapPos f) := by
  unfold reservedAt
  refine Rel.bind (rel_strAt hq i) ?_
  rintro s _ rfl
  rw [lexspan_map h0 np₁ np₂]
  exact Rel.pure rfl

theorem rel_operatorAt (h0 : f (0, 0) = (0, 0)) (hq : ∀ a ∈ args, QV Q a) (i : Nat) :
    Rel S S (operatorAt (PCtx.mk np₁ args) i) (operatorAt (PCtx.mk np₂ (args.map (mapS f))) i)
      (fun n n' => n' = n.mapPos f) := by
  unfold operatorAt
  refine Rel.bind (rel_strAt hq i) ?_
  rintro s _ rfl
  rw [lexspan_map h0 np₁ np₂]
  exact Rel.pure rfl

/-- the shape of the claim about `actionCore` -/
abbrev ResOK (f : Span → Span) (Q : Token → Prop) (r₁ r₂ : SVal × Bool) : Prop :=
  VRf f Q r₁.1 r₂.1 ∧ r₁.2 = r₂.2

theorem qv_node (n : Node) : QV Q (.node n) := fun t ht => by cases ht
theorem qv_nodes (l : List Node) : QV Q (.nodes l) := fun t ht => by cases ht
theorem qv_none : QV Q .none := fun t ht => by cases ht

theorem rel_ret_node (n : Node) :
    Rel S S (pure (SVal.node n, false) : M (SVal × Bool))
      (pure (SVal.node (n.mapPos f), false) : M (SVal × Bool)) (ResOK f Q) :=
  Rel.pure ⟨⟨rfl, qv_node n⟩, rfl⟩

theorem rel_ret_nodes (l : List Node) :
    Rel S S (pure (SVal.nodes l, false) : M (SVal × Bool))
      (pure (SVal.nodes (l.map (Node.mapPos f)), false) : M (SVal × Bool)) (ResOK f Q) :=
  Rel.pure ⟨⟨rfl, qv_nodes l⟩, rfl⟩

theorem rel_ret_none :
    Rel S S (pure (SVal.none, false) : M (SVal × Bool))
      (pure (SVal.none, false) : M (SVal × Bool)) (ResOK f Q) :=
  Rel.pure ⟨⟨rfl, qv_none⟩, rfl⟩

theorem rel_ret_slice (hq : ∀ a ∈ args, QV Q a) (i : Nat) :
    Rel S S (pure ((PCtx.mk np₁ args).slice i, false) : M (SVal × Bool))
      (pure ((PCtx.mk np₂ (args.map (mapS f))).slice i, false) : M (SVal × Bool)) (ResOK f Q) := by
  rw [slice_map np₁ np₂]
  exact Rel.pure ⟨⟨rfl, slice_Q hq np₁ i⟩, rfl⟩

/-- from `actionCore` to `action` -/
theorem actNat_of_core {fname : String}
    (h : ∀ args, (∀ a ∈ args, QV Q a) →
      Rel S S (actionCore np₁ fname args) (actionCore np₂ fname (args.map (mapS f))) (ResOK f Q)) :
    ActNat f Q S np₁ np₂ fname := by
  intro args hq
  unfold action
  refine Rel.bind (h args hq) ?_
  rintro ⟨v, b⟩ ⟨v', b'⟩ ⟨hv, hb⟩
  simp only [] at hv hb ⊢
  subst hb
  exact Rel.ite' (fun _ => Rel.foreign_left) (fun _ => Rel.pure ⟨hv, rfl⟩)

/-! ## actions that only rearrange their arguments -/

theorem nat_list : ActNat f Q S np₁ np₂ "p_list" :=
  actNat_of_core (fun args hq => by
    unfold actionCore; simp only []
    exact rel_ret_slice hq 2)

theorem nat_simple_list_terminator : ActNat f Q S np₁ np₂ "p_simple_list_terminator" :=
  actNat_of_core (fun args hq => by unfold actionCore; simp only []; exact rel_ret_none)

theorem nat_newline_list : ActNat f Q S np₁ np₂ "p_newline_list" :=
  actNat_of_core (fun args hq => by unfold actionCore; simp only []; exact rel_ret_none)

theorem nat_empty : ActNat f Q S np₁ np₂ "p_empty" :=
  actNat_of_core (fun args hq => by unfold actionCore; simp only []; exact rel_ret_none)

theorem nat_list_terminator (h0 : f (0, 0) = (0, 0)) : ActNat f Q S np₁ np₂ "p_list_terminator" :=
  actNat_of_core (fun args hq => by
    unfold actionCore; simp only []
    rw [slice_map np₁ np₂, lexspan_map h0 np₁ np₂]
    cases (PCtx.mk np₁ args).slice 1 with
    | tok t =>
      simp only [mapS, mapTok_value]
      exact Rel.ite' (fun _ => rel_ret_node _) (fun _ => rel_ret_none)
    | none => exact rel_ret_none
    | node n => exact rel_ret_none
    | nodes l => exact rel_ret_none)

theorem nat_simple_command : ActNat f Q S np₁ np₂ "p_simple_command" :=
  actNat_of_core (fun args hq => by
    unfold actionCore; simp only []
    rw [len_map np₁ np₂]
    refine Rel.ite' (fun _ => ?_) (fun _ => rel_ret_slice hq 1)
    refine Rel.bind (rel_nodesAt 1 _) ?_; rintro l _ rfl
    refine Rel.bind (rel_nodesAt 2 _) ?_; rintro r _ rfl
    rw [← List.map_append]
    exact rel_ret_nodes _)

theorem nat_redirection_list : ActNat f Q S np₁ np₂ "p_redirection_list" :=
  actNat_of_core (fun args hq => by
    unfold actionCore; simp only []
    rw [len_map np₁ np₂]
    refine Rel.ite' (fun _ => ?_) (fun _ => ?_)
    · refine Rel.bind (rel_nodeAt 1 _) ?_; rintro n _ rfl
      exact rel_ret_nodes [n]
    · refine Rel.bind (rel_nodesAt 1 _) ?_; rintro l _ rfl
      refine Rel.bind (rel_nodeAt 2 _) ?_; rintro n _ rfl
      have : l.map (Node.mapPos f) ++ [n.mapPos f] = (l ++ [n]).map (Node.mapPos f) := by simp
      rw [this]
      exact rel_ret_nodes _)

theorem nat_case_clause : ActNat f Q S np₁ np₂ "p_case_clause" :=
  actNat_of_core (fun args hq => by
    unfold actionCore; simp only []
    rw [len_map np₁ np₂]
    refine Rel.ite' (fun _ => ?_) (fun _ => ?_)
    · refine Rel.bind (rel_nodeAt 1 _) ?_; rintro n _ rfl
      exact rel_ret_nodes [n]
    · refine Rel.bind (rel_nodesAt 1 _) ?_; rintro l _ rfl
      refine Rel.bind (rel_nodeAt 2 _) ?_; rintro n _ rfl
      have : l.map (Node.mapPos f) ++ [n.mapPos f] = (l ++ [n]).map (Node.mapPos f) := by simp
      rw [this]
      exact rel_ret_nodes _)

theorem nat_case_clause_sequence (h0 : f (0, 0) = (0, 0)) :
    ActNat f Q S np₁ np₂ "p_case_clause_sequence" :=
  actNat_of_core (fun args hq => by
    unfold actionCore; simp only []
    rw [len_map np₁ np₂]
    refine Rel.ite' (fun _ => ?_) (fun _ => ?_)
    · refine Rel.bind (rel_nodeAt 1 _) ?_; rintro n _ rfl
      refine Rel.bind (rel_reservedAt h0 hq 2) ?_; rintro r _ rfl
      exact rel_ret_nodes [n, r]
    · refine Rel.bind (rel_nodesAt 1 _) ?_; rintro l _ rfl
      refine Rel.bind (rel_nodeAt 2 _) ?_; rintro n _ rfl
      refine Rel.bind (rel_reservedAt h0 hq 3) ?_; rintro r _ rfl
      have : l.map (Node.mapPos f) ++ [n.mapPos f, r.mapPos f] =
          (l ++ [n, r]).map (Node.mapPos f) := by simp
      rw [this]
      exact rel_ret_nodes _)

/-- `x ++ [sep] ++ y` -/
theorem rel_joinLists (h0 : f (0, 0) = (0, 0)) (hq : ∀ a ∈ args, QV Q a)
    (mk : Span → Str → Node) (hmk : ∀ sp s, (mk sp s).mapPos f = mk (f sp) s) (site : String) :
    Rel S S (joinLists (PCtx.mk np₁ args) mk site)
      (joinLists (PCtx.mk np₂ (args.map (mapS f))) mk site)
      (fun v v' => VRf f Q v v') := by
  unfold joinLists
  rw [len_map np₁ np₂]
  refine Rel.ite' (fun _ => ?_) (fun _ => ?_)
  · refine Rel.bind (rel_nodeAt 1 _) ?_; rintro n _ rfl
    exact Rel.pure ⟨rfl, qv_nodes _⟩
  · refine Rel.bind (rel_nodesAt 1 _) ?_; rintro l _ rfl
    refine Rel.bind (rel_nodesAt _ _) ?_; rintro r _ rfl
    refine Rel.bind (rel_strAt hq 2) ?_; rintro s _ rfl
    rw [lexspan_map h0 np₁ np₂, ← hmk]
    refine Rel.pure ⟨?_, qv_nodes _⟩
    simp [mapS]

theorem nat_join (h0 : f (0, 0) = (0, 0)) {fname : String} (mk : Span → Str → Node)
    (hmk : ∀ sp s, (mk sp s).mapPos f = mk (f sp) s) (site : String)
    (hcore : ∀ np args, actionCore np fname args =
      (do let v ← joinLists (PCtx.mk np args) mk site; pure (v, false))) :
    ActNat f Q S np₁ np₂ fname :=
  actNat_of_core (fun args hq => by
    rw [hcore, hcore]
    refine Rel.bind (rel_joinLists h0 hq mk hmk site) ?_
    intro v v' hv
    exact Rel.pure ⟨hv, rfl⟩)

theorem nat_list1 (h0 : f (0, 0) = (0, 0)) : ActNat f Q S np₁ np₂ "p_list1" :=
  nat_join h0 .operator (fun _ _ => rfl) "p_list1" (fun _ _ => rfl)
theorem nat_simple_list1 (h0 : f (0, 0) = (0, 0)) : ActNat f Q S np₁ np₂ "p_simple_list1" :=
  nat_join h0 .operator (fun _ _ => rfl) "p_simple_list1" (fun _ _ => rfl)
theorem nat_pipeline (h0 : f (0, 0) = (0, 0)) : ActNat f Q S np₁ np₂ "p_pipeline" :=
  nat_join h0 .pipe (fun _ _ => rfl) "p_pipeline" (fun _ _ => rfl)

/-! ## actions that read node spans -/

/-- what the state relation has to provide -/
structure SGood (f : Span → Span) (S : Local → Local → Prop) : Prop where
  store : ∀ l₁ l₂, S l₁ l₂ → l₂.store = l₁.store.map (cellMap f)
  ps : ∀ l₁ l₂, S l₁ l₂ → l₂.ps = l₁.ps
  setPs : ∀ l₁ l₂, S l₁ l₂ → ∀ p : PState, S { l₁ with ps := p } { l₂ with ps := p }
  eofTok : ∀ l₁ l₂, S l₁ l₂ → l₂.eofToken = l₁.eofToken
  /-- the current token, span erased (`p_simple_list` compares it with `_shell_eof_token`) -/
  cur : ∀ l₁ l₂, S l₁ l₂ →
    ({ l₂.currentToken with pos := none } : Token) = { l₁.currentToken with pos := none }
  /-- a new pending here-document (`p_redirection_heredoc`) -/
  push : ∀ l₁ l₂, S l₁ l₂ → ∀ (c : RedirCell) (e : Nat × Bool),
    S { l₁ with store := l₁.store ++ [c], redirstack := l₁.redirstack ++ [e] }
      { l₂ with store := l₂.store ++ [cellMap f c], redirstack := l₂.redirstack ++ [e] }

/-- `f` acts on starts and ends separately (true of `spanMap x k`) -/
def Comp (f : Span → Span) : Prop := ∀ p q : Span, ((f p).1, (f q).2) = f (p.1, q.2)

theorem pos_mapPos' (f : Span → Span) (n : Node) : (n.mapPos f).pos = f n.pos := by
  cases n <;> rfl

theorem rel_nodePos (hS : SGood f S) (n : Node) :
    Rel S S (nodePos n) (nodePos (n.mapPos f)) (fun p p' => p' = f p) := by
  cases n with
  | redirect p i t o oa h hid =>
    cases hid with
    | none => exact Rel.pure rfl
    | some id =>
      simp only [Node.mapPos, nodePos]
      refine Rel.bind Rel.get ?_
      intro l₁ l₂ hl
      rw [hS.store l₁ l₂ hl, List.getElem?_map]
      cases l₁.store[id]? with
      | none => exact Rel.pure rfl
      | some c => exact Rel.pure rfl
  | _ => exact Rel.pure rfl

theorem rel_partsspan (hS : SGood f S) (hc : Comp f) (parts : List Node) :
    Rel S S (partsspan parts) (partsspan (parts.map (Node.mapPos f))) (fun p p' => p' = f p) := by
  unfold partsspan
  rw [List.head?_map, List.getLast?_map]
  cases parts.head? with
  | none => exact Rel.foreign_left
  | some a =>
    cases parts.getLast? with
    | none => exact Rel.foreign_left
    | some b =>
      simp only [Option.map_some]
      refine Rel.bind (rel_nodePos hS a) ?_; rintro pa _ rfl
      refine Rel.bind (rel_nodePos hS b) ?_; rintro pb _ rfl
      exact Rel.pure (hc pa pb)

theorem nat_inputunit (hS : SGood f S) : ActNat f Q S np₁ np₂ "p_inputunit" :=
  actNat_of_core (fun args hq => by
    unfold actionCore; simp only []
    refine Rel.bind Rel.get ?_
    intro l₁ l₂ hl
    rw [hS.ps l₁ l₂ hl, slice_map np₁ np₂]
    have hmod : Rel S S
        (modify fun l => { l with ps := { l.ps with eoftoken := true } } : M Unit)
        (modify fun l => { l with ps := { l.ps with eoftoken := true } } : M Unit)
        (fun _ _ => True) := by
      refine (Rel.modify (fun a b hab => ?_)).conseq (fun _ _ _ => trivial)
      rw [hS.ps a b hab]
      exact hS.setPs a b hab _
    have htail : Rel S S
        (match (PCtx.mk np₁ args).slice 1 with
          | .node n => pure (SVal.node n, true)
          | _ => pure (SVal.none, false) : M (SVal × Bool))
        (match mapS f ((PCtx.mk np₁ args).slice 1) with
          | .node n => pure (SVal.node n, true)
          | _ => pure (SVal.none, false) : M (SVal × Bool)) (ResOK f Q) := by
      cases (PCtx.mk np₁ args).slice 1 with
      | node n => exact Rel.pure ⟨⟨rfl, qv_node n⟩, rfl⟩
      | none => exact rel_ret_none
      | tok t => exact rel_ret_none
      | nodes l => exact rel_ret_none
    exact Rel.ite' (fun _ => Rel.bind hmod (fun _ _ _ => htail)) (fun _ => htail))

/-- `f` keeps "starts before the end of" (true of `spanMap x k`) -/
def Mono (f : Span → Span) : Prop := ∀ p q : Span, p.1 < q.2 → (f p).1 < (f q).2

theorem rel_handleAssert {c₁ c₂ : Bool} (h : c₁ = true → c₂ = true) :
    Rel S S (handleAssert c₁) (handleAssert c₂) (fun _ _ => True) := by
  unfold handleAssert
  cases c₁ with
  | false => exact Rel.foreign_left
  | true => rw [h rfl]; exact Rel.pure trivial

theorem isCompound_mapPos (n : Node) : isCompound (n.mapPos f) = isCompound n := by
  cases n <;> rfl

theorem rel_addRedirects (hS : SGood f S) (hc : Comp f) (hm : Mono f) (n : Node)
    (reds : List Node) :
    Rel S S (addRedirects n reds) (addRedirects (n.mapPos f) (reds.map (Node.mapPos f)))
      (fun r r' => r' = r.mapPos f) := by
  unfold addRedirects
  rw [isCompound_mapPos]
  refine Rel.bind (rel_handleAssert id) ?_
  intro _ _ _
  cases n with
  | compound pos l r =>
    simp only [Node.mapPos, Node.mapPosL_eq_map, ← List.map_append, List.getLast?_map]
    cases (r ++ reds).getLast? with
    | none => exact Rel.foreign_left
    | some last =>
      simp only [Option.map_some]
      refine Rel.bind (rel_nodePos hS last) ?_; rintro pl _ rfl
      refine Rel.bind (rel_handleAssert (c₁ := decide (pos.1 < pl.2))
        (c₂ := decide ((f pos).1 < (f pl).2)) ?_) ?_
      · intro h
        exact decide_eq_true (hm pos pl (of_decide_eq_true h))
      · intro _ _ _
        refine Rel.pure ?_
        simp only [Node.mapPos, Node.mapPosL_eq_map, hc pos pl, List.map_nil]
  | _ => exact Rel.foreign_left

theorem nat_command (hS : SGood f S) (hc : Comp f) (hm : Mono f) :
    ActNat f Q S np₁ np₂ "p_command" :=
  actNat_of_core (fun args hq => by
    unfold actionCore; simp only []
    rw [slice_map np₁ np₂, len_map np₁ np₂]
    cases hs : (PCtx.mk np₁ args).slice 1 with
    | node n =>
      simp only [mapS]
      refine Rel.ite' (fun _ => ?_) (fun _ => rel_ret_node n)
      refine Rel.bind (rel_nodesAt 2 _) ?_; rintro reds _ rfl
      refine Rel.bind (rel_addRedirects hS hc hm n reds) ?_; rintro r _ rfl
      exact rel_ret_node r
    | none =>
      simp only [mapS]
      refine Rel.bind (rel_nodesAt 1 _) ?_; rintro parts _ rfl
      refine Rel.bind (rel_partsspan hS hc parts) ?_; rintro sp _ rfl
      exact Rel.pure ⟨⟨by simp [mapS, Node.mapPos, Node.mapPosL_eq_map], qv_node _⟩, rfl⟩
    | tok t =>
      simp only [mapS]
      refine Rel.bind (rel_nodesAt 1 _) ?_; rintro parts _ rfl
      refine Rel.bind (rel_partsspan hS hc parts) ?_; rintro sp _ rfl
      exact Rel.pure ⟨⟨by simp [mapS, Node.mapPos, Node.mapPosL_eq_map], qv_node _⟩, rfl⟩
    | nodes l =>
      simp only [mapS]
      refine Rel.bind (rel_nodesAt 1 _) ?_; rintro parts _ rfl
      refine Rel.bind (rel_partsspan hS hc parts) ?_; rintro sp _ rfl
      exact Rel.pure ⟨⟨by simp [mapS, Node.mapPos, Node.mapPosL_eq_map], qv_node _⟩, rfl⟩)

theorem nat_function_body (hS : SGood f S) (hc : Comp f) (hm : Mono f) :
    ActNat f Q S np₁ np₂ "p_function_body" :=
  actNat_of_core (fun args hq => by
    unfold actionCore; simp only []
    rw [len_map np₁ np₂]
    refine Rel.bind (rel_nodeAt 1 _) ?_; rintro n _ rfl
    rw [isCompound_mapPos]
    refine Rel.bind (rel_handleAssert id) ?_; intro _ _ _
    refine Rel.ite' (fun _ => ?_) (fun _ => rel_ret_node n)
    refine Rel.bind (rel_nodesAt 2 _) ?_; rintro reds _ rfl
    refine Rel.bind (rel_addRedirects hS hc hm n reds) ?_; rintro r _ rfl
    exact rel_ret_node r)

theorem rel_fin_list (hS : SGood f S) (hc : Comp f) (parts : List Node) :
    Rel S S
      (do let sp ← partsspan parts; pure (SVal.node (.list sp parts), false) : M (SVal × Bool))
      (do let sp ← partsspan (parts.map (Node.mapPos f))
          pure (SVal.node (.list sp (parts.map (Node.mapPos f))), false) : M (SVal × Bool))
      (ResOK f Q) := by
  refine Rel.bind (rel_partsspan hS hc parts) ?_; rintro sp _ rfl
  exact Rel.pure ⟨⟨by simp [mapS, Node.mapPos, Node.mapPosL_eq_map], qv_node _⟩, rfl⟩

theorem nat_compound_list (hS : SGood f S) (hc : Comp f) :
    ActNat f Q S np₁ np₂ "p_compound_list" :=
  actNat_of_core (fun args hq => by
    unfold actionCore; simp only []
    rw [len_map np₁ np₂]
    refine Rel.ite' (fun _ => rel_ret_slice hq 1) (fun _ => ?_)
    refine Rel.bind (rel_nodesAt 2 _) ?_; rintro parts _ rfl
    rw [List.length_map]
    refine Rel.ite' (fun _ => rel_fin_list hS hc parts) (fun _ => ?_)
    rw [List.head?_map]
    cases parts.head? with
    | none => exact Rel.foreign_left
    | some n => exact rel_ret_node n)

theorem nat_list0 (h0 : f (0, 0) = (0, 0)) (hS : SGood f S) (hc : Comp f) :
    ActNat f Q S np₁ np₂ "p_list0" :=
  actNat_of_core (fun args hq => by
    unfold actionCore; simp only []
    refine Rel.bind (rel_nodesAt 1 _) ?_; rintro parts _ rfl
    rw [List.length_map, isTok_map np₁ np₂]
    refine Rel.ite' (fun _ => ?_) (fun _ => ?_)
    · refine Rel.bind (rel_operatorAt h0 hq 2) ?_; rintro op _ rfl
      have : parts.map (Node.mapPos f) ++ [op.mapPos f] = (parts ++ [op]).map (Node.mapPos f) := by
        simp
      rw [this]
      exact rel_fin_list hS hc _
    · rw [List.head?_map]
      cases parts.head? with
      | none => exact Rel.foreign_left
      | some n => exact rel_ret_node n)

theorem nat_subshell_group (h0 : f (0, 0) = (0, 0)) (hS : SGood f S) (hc : Comp f)
    (args : List SVal) (hq : ∀ a ∈ args, QV Q a) :
    Rel S S
      (do let l ← reservedAt (PCtx.mk np₁ args) 1
          let r ← reservedAt (PCtx.mk np₁ args) 3
          let mid ← (PCtx.mk np₁ args).nodeAt 2 "_partsspan"
          pure (SVal.node (.compound (← partsspan [l, mid, r]) [l, mid, r] []), false)
        : M (SVal × Bool))
      (do let l ← reservedAt (PCtx.mk np₂ (args.map (mapS f))) 1
          let r ← reservedAt (PCtx.mk np₂ (args.map (mapS f))) 3
          let mid ← (PCtx.mk np₂ (args.map (mapS f))).nodeAt 2 "_partsspan"
          pure (SVal.node (.compound (← partsspan [l, mid, r]) [l, mid, r] []), false)
        : M (SVal × Bool))
      (ResOK f Q) := by
  refine Rel.bind (rel_reservedAt h0 hq 1) ?_; rintro l _ rfl
  refine Rel.bind (rel_reservedAt h0 hq 3) ?_; rintro r _ rfl
  refine Rel.bind (rel_nodeAt 2 _) ?_; rintro mid _ rfl
  refine Rel.bind (rel_partsspan hS hc [l, mid, r]) ?_; rintro sp _ rfl
  exact Rel.pure ⟨⟨by simp [mapS, Node.mapPos, Node.mapPosL], qv_node _⟩, rfl⟩

theorem nat_subshell (h0 : f (0, 0) = (0, 0)) (hS : SGood f S) (hc : Comp f) :
    ActNat f Q S np₁ np₂ "p_subshell" :=
  actNat_of_core (fun args hq => by
    unfold actionCore; simp only []
    exact nat_subshell_group (np₁ := np₁) (np₂ := np₂) h0 hS hc args hq)

theorem nat_group_command (h0 : f (0, 0) = (0, 0)) (hS : SGood f S) (hc : Comp f) :
    ActNat f Q S np₁ np₂ "p_group_command" :=
  actNat_of_core (fun args hq => by
    unfold actionCore; simp only []
    exact nat_subshell_group (np₁ := np₁) (np₂ := np₂) h0 hS hc args hq)

theorem nat_pipeline_command (h0 : f (0, 0) = (0, 0)) (hS : SGood f S) (hc : Comp f) :
    ActNat f Q S np₁ np₂ "p_pipeline_command" :=
  actNat_of_core (fun args hq => by
    unfold actionCore; simp only []
    rw [len_map np₁ np₂, lexspan_map h0 np₁ np₂, slice_map np₁ np₂]
    refine Rel.ite' (fun _ => ?_) (fun _ => ?_)
    · refine Rel.bind (rel_nodesAt 1 _) ?_; rintro l _ rfl
      cases l with
      | nil => exact Rel.foreign_left
      | cons a t =>
        cases t with
        | nil => exact rel_ret_node a
        | cons b t' =>
          simp only [List.map_cons, List.head?_cons]
          rw [← List.map_cons, ← List.map_cons, List.getLast?_map]
          cases (a :: b :: t').getLast? with
          | none => exact Rel.foreign_left
          | some z =>
            simp only [Option.map_some]
            refine Rel.bind (rel_nodePos hS a) ?_; rintro pa _ rfl
            refine Rel.bind (rel_nodePos hS z) ?_; rintro pz _ rfl
            exact Rel.pure ⟨⟨by simp [mapS, Node.mapPos, Node.mapPosL_eq_map, hc pa pz], qv_node _⟩, rfl⟩
    · cases (PCtx.mk np₁ args).slice 2 with
      | none => exact Rel.pure ⟨⟨by simp [mapS, Node.mapPos, Node.mapPosL, Node.pos], qv_node _⟩, rfl⟩
      | tok t => exact Rel.foreign_left
      | nodes l => exact Rel.foreign_left
      | node n =>
        cases n with
        | pipeline sp parts =>
          simp only [mapS, Node.mapPos, Node.mapPosL_eq_map]
          generalize (PCtx.mk np₁ args).lexspan 1 = sp₁
          have hb : Node.reservedword (f sp₁) ['!'] = (Node.reservedword sp₁ ['!']).mapPos f := rfl
          rw [hb, ← List.map_cons, List.getLast?_map]
          cases (Node.reservedword sp₁ ['!'] :: parts).getLast? with
          | none => exact Rel.foreign_left
          | some z =>
            simp only [Option.map_some]
            refine Rel.bind (rel_nodePos hS z) ?_; rintro pz _ rfl
            refine Rel.pure ⟨⟨?_, qv_node _⟩, rfl⟩
            simp only [mapS, Node.mapPos, Node.mapPosL_eq_map, Node.pos]
            rw [hc sp₁ pz]
        | _ =>
          simp only [mapS, Node.mapPos]
          generalize (PCtx.mk np₁ args).lexspan 1 = sp₁
          refine Rel.bind (rel_nodePos hS _) ?_; rintro pn _ rfl
          refine Rel.pure ⟨⟨?_, qv_node _⟩, rfl⟩
          simp only [mapS, Node.mapPos, Node.mapPosL, Node.pos]
          rw [hc sp₁ pn])

/-! ## actions that expand words (word expansion itself is a hypothesis) -/

/-- naturality of word expansion on the tokens the tokenizer delivers (`Q`: the token lies on one
    side of the insertion point, so `f` moves it rigidly) -/
def WordNat (f : Span → Span) (Q : Token → Prop) (S : Local → Local → Prop)
    (np₁ np₂ : NestedParse) : Prop :=
  ∀ t, Q t → Rel S S (expandword np₁ t) (expandword np₂ (mapTok f t)) (fun w w' => w' = w.mapPos f)

theorem nat_word_list (hW : WordNat f Q S np₁ np₂) : ActNat f Q S np₁ np₂ "p_word_list" :=
  actNat_of_core (fun args hq => by
    unfold actionCore; simp only []
    rw [len_map np₁ np₂]
    refine Rel.ite' (fun _ => ?_) (fun _ => ?_)
    · refine Rel.bind (rel_tokAt hq 1) ?_; rintro t _ ⟨rfl, ht⟩
      refine Rel.bind (hW t ht) ?_; rintro w _ rfl
      exact rel_ret_nodes [w]
    · refine Rel.bind (rel_nodesAt 1 _) ?_; rintro l _ rfl
      refine Rel.bind (rel_tokAt hq 2) ?_; rintro t _ ⟨rfl, ht⟩
      refine Rel.bind (hW t ht) ?_; rintro w _ rfl
      have : l.map (Node.mapPos f) ++ [w.mapPos f] = (l ++ [w]).map (Node.mapPos f) := by simp
      rw [this]
      exact rel_ret_nodes _)

theorem nat_pattern (h0 : f (0, 0) = (0, 0)) (hW : WordNat f Q S np₁ np₂) :
    ActNat f Q S np₁ np₂ "p_pattern" :=
  actNat_of_core (fun args hq => by
    unfold actionCore; simp only []
    rw [len_map np₁ np₂]
    refine Rel.ite' (fun _ => ?_) (fun _ => ?_)
    · refine Rel.bind (rel_tokAt hq 1) ?_; rintro t _ ⟨rfl, ht⟩
      refine Rel.bind (hW t ht) ?_; rintro w _ rfl
      exact rel_ret_nodes [w]
    · refine Rel.bind (rel_nodesAt 1 _) ?_; rintro l _ rfl
      refine Rel.bind (rel_reservedAt h0 hq 2) ?_; rintro r _ rfl
      refine Rel.bind (rel_tokAt hq 3) ?_; rintro t _ ⟨rfl, ht⟩
      refine Rel.bind (hW t ht) ?_; rintro w _ rfl
      have : l.map (Node.mapPos f) ++ [r.mapPos f, w.mapPos f] =
          (l ++ [r, w]).map (Node.mapPos f) := by simp
      rw [this]
      exact rel_ret_nodes _)

theorem nat_simple_command_element (hW : WordNat f Q S np₁ np₂) :
    ActNat f Q S np₁ np₂ "p_simple_command_element" :=
  actNat_of_core (fun args hq => by
    unfold actionCore; simp only []
    rw [slice_map np₁ np₂]
    have hword : Rel S S
        (do let t ← (PCtx.mk np₁ args).tokAt 1
            let w ← expandword np₁ t
            if t.is .ASSIGNMENT_WORD then
              match w with
              | .word pos s parts => pure (SVal.nodes [.assignment pos s parts], false)
              | _ => pure (SVal.nodes [w], false)
            else pure (SVal.nodes [w], false) : M (SVal × Bool))
        (do let t ← (PCtx.mk np₂ (args.map (mapS f))).tokAt 1
            let w ← expandword np₂ t
            if t.is .ASSIGNMENT_WORD then
              match w with
              | .word pos s parts => pure (SVal.nodes [.assignment pos s parts], false)
              | _ => pure (SVal.nodes [w], false)
            else pure (SVal.nodes [w], false) : M (SVal × Bool)) (ResOK f Q) := by
      refine Rel.bind (rel_tokAt hq 1) ?_; rintro t _ ⟨rfl, ht⟩
      refine Rel.bind (hW t ht) ?_; rintro w _ rfl
      rw [mapTok_is]
      refine Rel.ite' (fun _ => ?_) (fun _ => rel_ret_nodes [w])
      cases w with
      | word pos s parts => exact rel_ret_nodes [.assignment pos s parts]
      | _ => exact rel_ret_nodes [_]
    cases (PCtx.mk np₁ args).slice 1 with
    | node n => exact rel_ret_nodes [n]
    | none => exact hword
    | tok t => exact hword
    | nodes l => exact hword)

theorem nat_redirection (h0 : f (0, 0) = (0, 0)) (hc : Comp f) (hW : WordNat f Q S np₁ np₂) :
    ActNat f Q S np₁ np₂ "p_redirection" :=
  actNat_of_core (fun args hq => by
    unfold actionCore; simp only []
    rw [len_map np₁ np₂]
    refine Rel.bind (rel_tokAt hq _) ?_; rintro otok _ ⟨rfl, hot⟩
    simp only [mapTok_is, mapTok_value, pure_bind, bind_assoc, lexspan_map h0 np₁ np₂]
    refine Rel.ite' (fun _ => ?_) (fun _ => ?_)
    · refine Rel.bind (hW otok hot) ?_; rintro w _ rfl
      refine Rel.ite' (fun _ => ?_) (fun _ => ?_)
      · refine Rel.bind (rel_strAt hq 1) ?_; rintro s _ rfl
        refine Rel.pure ⟨⟨?_, qv_node _⟩, rfl⟩
        simp only [mapS, Node.mapPos, Node.mapPosO]
        rw [hc _ _]
      · refine Rel.bind (rel_tokAt hq 1) ?_; rintro t1 _ ⟨rfl, _⟩
        refine Rel.bind (rel_strAt hq 2) ?_; rintro s _ rfl
        refine Rel.pure ⟨⟨?_, qv_node _⟩, rfl⟩
        simp only [mapS, Node.mapPos, Node.mapPosO, mapTok_value]
        rw [hc _ _]
    · refine Rel.ite' (fun _ => ?_) (fun _ => ?_)
      · refine Rel.bind (rel_strAt hq 1) ?_; rintro s _ rfl
        refine Rel.pure ⟨⟨?_, qv_node _⟩, rfl⟩
        simp only [mapS, Node.mapPos, Node.mapPosO]
        rw [hc _ _]
      · refine Rel.bind (rel_tokAt hq 1) ?_; rintro t1 _ ⟨rfl, _⟩
        refine Rel.bind (rel_strAt hq 2) ?_; rintro s _ rfl
        refine Rel.pure ⟨⟨?_, qv_node _⟩, rfl⟩
        simp only [mapS, Node.mapPos, Node.mapPosO, mapTok_value]
        rw [hc _ _])

/-! ## `_makeparts` and the compound commands built from it -/

theorem forall2_map_args (hq : ∀ a ∈ args, QV Q a) :
    Forall2 (fun a b => b = mapS f a ∧ QV Q a) args (args.map (mapS f)) := by
  induction args with
  | nil => exact .nil
  | cons a r ih =>
    exact .cons ⟨rfl, hq a (List.mem_cons_self ..)⟩
      (ih (fun b hb => hq b (List.mem_cons_of_mem _ hb)))

theorem rel_makeparts (h0 : f (0, 0) = (0, 0)) (hW : WordNat f Q S np₁ np₂)
    (hq : ∀ a ∈ args, QV Q a) :
    Rel S S (makeparts ⟨np₁, args⟩) (makeparts ⟨np₂, args.map (mapS f)⟩)
      (fun l l' => l' = l.map (Node.mapPos f)) := by
  unfold makeparts
  simp only [bind_pure]
  refine Rel.forIn_list (A := fun a b => b = mapS f a ∧ QV Q a)
    (I := fun (l l' : List Node) => l' = l.map (Node.mapPos f)) ?_ _ _ (forall2_map_args hq) _ _ rfl
  rintro a _ s _ ⟨rfl, ha⟩ rfl
  cases a with
  | none => exact Rel.pure rfl
  | tok t =>
    simp only [mapS, mapTok_is, mapTok_value]
    refine Rel.ite' (fun _ => ?_) (fun _ => ?_)
    · refine Rel.bind (hW t (ha t rfl)) ?_
      rintro w _ rfl
      exact Rel.pure (show _ ++ _ = List.map (Node.mapPos f) (s ++ [w]) by simp)
    · refine Rel.pure ?_
      show _ = List.map (Node.mapPos f) (s ++ [_])
      rw [mapTok_span h0 t]
      simp [Node.mapPos]
  | node n => exact Rel.pure (show _ ++ _ = List.map (Node.mapPos f) (s ++ [n]) by simp)
  | nodes l => exact Rel.pure (show _ ++ _ = List.map (Node.mapPos f) (s ++ l) by simp)

theorem rel_mkCompound1 (hS : SGood f S) (hc : Comp f) (inner : Span → List Node → Node)
    (hin : ∀ sp ps, (inner sp ps).mapPos f = inner (f sp) (ps.map (Node.mapPos f)))
    (parts : List Node) :
    Rel S S (mkCompound1 inner parts) (mkCompound1 inner (parts.map (Node.mapPos f)))
      (fun v v' => VRf f Q v v') := by
  unfold mkCompound1
  refine Rel.bind (rel_partsspan hS hc parts) ?_; rintro sp _ rfl
  refine Rel.pure ⟨?_, qv_node _⟩
  simp only [mapS, Node.mapPos, Node.mapPosL, hin]

theorem hin_if (sp : Span) (ps : List Node) :
    (Node.ifN sp ps).mapPos f = Node.ifN (f sp) (ps.map (Node.mapPos f)) := by
  simp only [Node.mapPos, Node.mapPosL_eq_map]
theorem hin_case (sp : Span) (ps : List Node) :
    (Node.caseN sp ps).mapPos f = Node.caseN (f sp) (ps.map (Node.mapPos f)) := by
  simp only [Node.mapPos, Node.mapPosL_eq_map]
theorem hin_for (sp : Span) (ps : List Node) :
    (Node.forN sp ps).mapPos f = Node.forN (f sp) (ps.map (Node.mapPos f)) := by
  simp only [Node.mapPos, Node.mapPosL_eq_map]

theorem nat_if_command (h0 : f (0, 0) = (0, 0)) (hS : SGood f S) (hc : Comp f)
    (hW : WordNat f Q S np₁ np₂) : ActNat f Q S np₁ np₂ "p_if_command" :=
  actNat_of_core (fun args hq => by
    unfold actionCore; simp only []
    refine Rel.bind (rel_makeparts h0 hW hq) ?_; rintro parts _ rfl
    refine Rel.bind (rel_mkCompound1 (Q := Q) hS hc .ifN hin_if parts) ?_
    intro v v' hv
    exact Rel.pure ⟨hv, rfl⟩)

theorem nat_case_command (h0 : f (0, 0) = (0, 0)) (hS : SGood f S) (hc : Comp f)
    (hW : WordNat f Q S np₁ np₂) : ActNat f Q S np₁ np₂ "p_case_command" :=
  actNat_of_core (fun args hq => by
    unfold actionCore; simp only []
    refine Rel.bind (rel_makeparts h0 hW hq) ?_; rintro parts _ rfl
    refine Rel.bind (rel_mkCompound1 (Q := Q) hS hc .caseN hin_case parts) ?_
    intro v v' hv
    exact Rel.pure ⟨hv, rfl⟩)

theorem fix_map (l : List Node) :
    actionCore.fix (l.map (Node.mapPos f)) = (actionCore.fix l).map (Node.mapPos f) := by
  induction l with
  | nil => rfl
  | cons n r ih =>
    cases n with
    | operator pos op =>
      simp only [List.map_cons, Node.mapPos, actionCore.fix]
      split
      · simp [Node.mapPos]
      · simp [Node.mapPos, ih]
    | _ => simp only [List.map_cons, Node.mapPos, actionCore.fix, ih]

theorem nat_for_command (h0 : f (0, 0) = (0, 0)) (hS : SGood f S) (hc : Comp f)
    (hW : WordNat f Q S np₁ np₂) : ActNat f Q S np₁ np₂ "p_for_command" :=
  actNat_of_core (fun args hq => by
    unfold actionCore; simp only []
    refine Rel.bind (rel_makeparts h0 hW hq) ?_; rintro parts _ rfl
    rw [fix_map]
    refine Rel.bind (rel_mkCompound1 (Q := Q) hS hc .forN hin_for _) ?_
    intro v v' hv
    exact Rel.pure ⟨hv, rfl⟩)

theorem nat_shell_command (h0 : f (0, 0) = (0, 0)) (hS : SGood f S) (hc : Comp f)
    (hW : WordNat f Q S np₁ np₂) : ActNat f Q S np₁ np₂ "p_shell_command" :=
  actNat_of_core (fun args hq => by
    unfold actionCore; simp only []
    rw [len_map np₁ np₂]
    refine Rel.ite' (fun _ => ?_) (fun _ => ?_)
    · refine Rel.bind (rel_nodeAt 1 _) ?_; rintro n _ rfl
      rw [isCompound_mapPos]
      refine Rel.bind (rel_handleAssert id) ?_; intro _ _ _
      exact rel_ret_node n
    · refine Rel.bind (rel_makeparts h0 hW hq) ?_; rintro parts _ rfl
      rw [List.head?_map]
      cases hh : parts.head? with
      | none => exact Rel.foreign_left
      | some hd =>
        cases hd with
        | reservedword p w =>
          simp only [Option.map_some, Node.mapPos]
          refine Rel.bind (rel_partsspan hS hc parts) ?_; rintro sp _ rfl
          refine Rel.ite' (fun _ => ?_) (fun _ => Rel.ite' (fun _ => ?_) (fun _ => Rel.foreign_left))
          · exact Rel.pure ⟨⟨by simp [mapS, Node.mapPos, Node.mapPosL, Node.mapPosL_eq_map], qv_node _⟩, rfl⟩
          · exact Rel.pure ⟨⟨by simp [mapS, Node.mapPos, Node.mapPosL, Node.mapPosL_eq_map], qv_node _⟩, rfl⟩
        | _ => exact Rel.foreign_left)

theorem findIdx?_mapPos (p : Node → Bool) (hp : ∀ n, p (n.mapPos f) = p n) (l : List Node) :
    (l.map (Node.mapPos f)).findIdx? p = l.findIdx? p := by
  induction l with
  | nil => rfl
  | cons a r ih => simp only [List.map_cons, List.findIdx?_cons, hp, ih]

theorem nat_function_def (h0 : f (0, 0) = (0, 0)) (hS : SGood f S) (hc : Comp f)
    (hW : WordNat f Q S np₁ np₂) : ActNat f Q S np₁ np₂ "p_function_def" :=
  actNat_of_core (fun args hq => by
    unfold actionCore; simp only []
    refine Rel.bind (rel_makeparts h0 hW hq) ?_; rintro parts _ rfl
    rw [List.isEmpty_map, List.length_map, findIdx?_mapPos _ (fun n => by cases n <;> rfl)]
    refine Rel.ite' (fun _ => Rel.foreign_left) (fun _ => ?_)
    refine Rel.bind (rel_partsspan hS hc parts) ?_; rintro sp _ rfl
    exact Rel.pure ⟨⟨by simp [mapS, Node.mapPos, Node.mapPosL_eq_map], qv_node _⟩, rfl⟩)

/-- `handleNotImplemented`, given that both runs see the same `proceedonerror` -/
theorem rel_handleNotImplemented (h0 : f (0, 0) = (0, 0)) (hS : SGood f S) (hc : Comp f)
    (hW : WordNat f Q S np₁ np₂) (hP : Rel S S optProceed optProceed Eq)
    (hq : ∀ a ∈ args, QV Q a) (ty : String) :
    Rel S S (handleNotImplemented ⟨np₁, args⟩ ty) (handleNotImplemented ⟨np₂, args.map (mapS f)⟩ ty)
      (fun v v' => VRf f Q v v') := by
  unfold handleNotImplemented
  refine Rel.bind hP ?_
  rintro b _ rfl
  cases b
  · exact Rel.raise_left
  · simp only [if_true]
    refine Rel.bind (rel_makeparts h0 hW hq) ?_; rintro parts _ rfl
    refine Rel.bind (rel_partsspan hS hc parts) ?_; rintro sp _ rfl
    exact Rel.pure ⟨by simp [mapS, Node.mapPos, Node.mapPosL_eq_map], qv_node _⟩

theorem nat_notImplemented (h0 : f (0, 0) = (0, 0)) (hS : SGood f S) (hc : Comp f)
    (hW : WordNat f Q S np₁ np₂) (hP : Rel S S optProceed optProceed Eq) {fname : String}
    (ty : String)
    (hcore : ∀ np args, actionCore np fname args =
      (do let v ← handleNotImplemented ⟨np, args⟩ ty; pure (v, false))) :
    ActNat f Q S np₁ np₂ fname :=
  actNat_of_core (fun args hq => by
    rw [hcore, hcore]
    refine Rel.bind (rel_handleNotImplemented h0 hS hc hW hP hq ty) ?_
    intro v v' hv
    exact Rel.pure ⟨hv, rfl⟩)

theorem nat_elif_clause (h0 : f (0, 0) = (0, 0)) : ActNat f Q S np₁ np₂ "p_elif_clause" :=
  actNat_of_core (fun args hq => by
    unfold actionCore; simp only [bind_pure]
    refine Rel.bind (S' := S) (P := fun (l l' : List Node) => l' = l.map (Node.mapPos f)) ?_ ?_
    · refine Rel.forIn_list (A := fun a b => b = mapS f a ∧ QV Q a)
        (I := fun (l l' : List Node) => l' = l.map (Node.mapPos f)) ?_ _ _
        (forall2_map_args hq) _ _ rfl
      rintro a _ s _ ⟨rfl, ha⟩ rfl
      cases a with
      | none =>
        refine Rel.pure ?_
        show _ = List.map (Node.mapPos f) (s ++ [_])
        simp [Node.mapPos, h0]
      | tok t =>
        refine Rel.pure ?_
        show _ = List.map (Node.mapPos f) (s ++ [_])
        simp only [mapS, mapTok_value]
        rw [mapTok_span h0 t]
        simp [Node.mapPos]
      | node n => exact Rel.pure (show _ ++ _ = List.map (Node.mapPos f) (s ++ [n]) by simp)
      | nodes l => exact Rel.pure (show _ ++ _ = List.map (Node.mapPos f) (s ++ l) by simp)
    · rintro parts _ rfl
      exact rel_ret_nodes parts)

section ni
variable (h0 : f (0, 0) = (0, 0)) (hS : SGood f S) (hc : Comp f) (hW : WordNat f Q S np₁ np₂)
  (hP : Rel S S optProceed optProceed Eq)
include h0 hS hc hW hP
theorem nat_arith_for_command : ActNat f Q S np₁ np₂ "p_arith_for_command" :=
  nat_notImplemented h0 hS hc hW hP "arithmetic for" (fun _ _ => rfl)
theorem nat_select_command : ActNat f Q S np₁ np₂ "p_select_command" :=
  nat_notImplemented h0 hS hc hW hP "select command" (fun _ _ => rfl)
theorem nat_coproc : ActNat f Q S np₁ np₂ "p_coproc" :=
  nat_notImplemented h0 hS hc hW hP "coproc" (fun _ _ => rfl)
theorem nat_arith_command : ActNat f Q S np₁ np₂ "p_arith_command" :=
  nat_notImplemented h0 hS hc hW hP "arithmetic command" (fun _ _ => rfl)
theorem nat_cond_command : ActNat f Q S np₁ np₂ "p_cond_command" :=
  nat_notImplemented h0 hS hc hW hP "cond command" (fun _ _ => rfl)
theorem nat_timespec : ActNat f Q S np₁ np₂ "p_timespec" :=
  nat_notImplemented h0 hS hc hW hP "time command" (fun _ _ => rfl)
end ni

/-- the tail of `p_redirection_heredoc` once type and span are known -/
theorem rel_heredoc_tail (hS : SGood f S) (np₁ np₂ : NestedParse) (args : List SVal)
    (wtok : Token) (wsp pos : Span) (input : RedirIn) (type : Str) (n : Nat) :
    Rel S S
      (do let l ← get
          set { l with store := l.store ++ [({ pos := pos, delim := wtok.valueStr } : RedirCell)],
                       redirstack := l.redirstack ++
                         [(l.store.length, !((PCtx.mk np₁ args).isTok n .LESS_LESS))] }
          pure (SVal.node (.redirect pos input type (some (Node.word wsp wtok.valueStr [])) .none
            none (some l.store.length)), false) : M (SVal × Bool))
      (do let l ← get
          set { l with store := l.store ++ [({ pos := f pos, delim := wtok.valueStr } : RedirCell)],
                       redirstack := l.redirstack ++
                         [(l.store.length, !((PCtx.mk np₁ args).isTok n .LESS_LESS))] }
          pure (SVal.node (.redirect (f pos) input type
            (some (Node.word (f wsp) wtok.valueStr [])) .none none (some l.store.length)), false)
        : M (SVal × Bool))
      (ResOK f Q) := by
  refine Rel.bind Rel.get ?_
  intro l₁ l₂ hl
  have hlen : l₂.store.length = l₁.store.length := by rw [hS.store l₁ l₂ hl, List.length_map]
  rw [hlen]
  refine Rel.bind (S' := S) (P := fun _ _ => True) (Rel.set (S' := S) ?_) ?_
  · exact hS.push l₁ l₂ hl { pos := pos, delim := wtok.valueStr } _
  · intro _ _ _
    exact Rel.pure ⟨⟨by simp [mapS, Node.mapPos, Node.mapPosO, Node.mapPosL], qv_node _⟩, rfl⟩

theorem nat_redirection_heredoc (h0 : f (0, 0) = (0, 0)) (hS : SGood f S) (hc : Comp f) :
    ActNat f Q S np₁ np₂ "p_redirection_heredoc" :=
  actNat_of_core (fun args hq => by
    unfold actionCore; simp only []
    rw [len_map np₁ np₂]
    refine Rel.bind (rel_tokAt hq _) ?_; rintro wtok _ ⟨rfl, _⟩
    simp only [pure_bind, bind_assoc, lexspan_map h0 np₁ np₂, isTok_map np₁ np₂, mapTok_valueStr,
      mapTok_value]
    rw [mapTok_span h0 wtok]
    refine Rel.ite' (fun _ => ?_) (fun _ => ?_)
    · refine Rel.bind (rel_strAt hq 1) ?_; rintro ty _ rfl
      rw [hc _ _]
      exact rel_heredoc_tail hS np₁ np₂ args wtok _ _ _ _ _
    · refine Rel.bind (rel_tokAt hq 1) ?_; rintro t1 _ ⟨rfl, _⟩
      refine Rel.bind (rel_strAt hq 2) ?_; rintro ty _ rfl
      simp only [mapTok_value]
      rw [hc _ _]
      exact rel_heredoc_tail hS np₁ np₂ args wtok _ _ _ _ _)

theorem nat_simple_list (h0 : f (0, 0) = (0, 0)) (hS : SGood f S) (hc : Comp f)
    (hG : Rel S S gatherheredocuments gatherheredocuments (fun _ _ => True)) :
    ActNat f Q S np₁ np₂ "p_simple_list" :=
  actNat_of_core (fun args hq => by
    unfold actionCore; simp only []
    refine Rel.bind hG ?_; intro _ _ _
    refine Rel.bind (rel_nodesAt 1 _) ?_; rintro l1 _ rfl
    rw [len_map np₁ np₂, List.length_map]
    simp only [pure_bind]
    -- the tail: `p.accept()` is decided from flags, `_shell_eof_token` and the span-erased token
    have hfin : ∀ v : SVal, QV Q v → ∀ l₁ l₂, S l₁ l₂ →
        Rel S S
          (pure (v, (PCtx.mk np₁ args).len == 2 && l₁.ps.cmdsubst &&
            (match l₁.eofToken with
             | some e => decide (({ l₁.currentToken with pos := none } : Token) = e)
             | none => false)) : M (SVal × Bool))
          (pure (mapS f v, (PCtx.mk np₁ args).len == 2 && l₂.ps.cmdsubst &&
            (match l₂.eofToken with
             | some e => decide (({ l₂.currentToken with pos := none } : Token) = e)
             | none => false)) : M (SVal × Bool)) (ResOK f Q) := by
      intro v hv l₁ l₂ hl
      rw [hS.ps l₁ l₂ hl, hS.eofTok l₁ l₂ hl, hS.cur l₁ l₂ hl]
      exact Rel.pure ⟨⟨rfl, hv⟩, rfl⟩
    refine Rel.ite' (fun _ => ?_) (fun _ => ?_)
    · refine Rel.ite' (fun _ => ?_) (fun _ => ?_)
      · refine Rel.bind (rel_operatorAt h0 hq 2) ?_; rintro op _ rfl
        have e1 : l1.map (Node.mapPos f) ++ [op.mapPos f] = (l1 ++ [op]).map (Node.mapPos f) := by
          simp
        rw [e1]
        refine Rel.bind (rel_partsspan hS hc _) ?_; rintro sp _ rfl
        refine Rel.bind Rel.get ?_; intro l₁ l₂ hl
        have := hfin (.node (.list sp (l1 ++ [op]))) (qv_node _) l₁ l₂ hl
        simp only [mapS, Node.mapPos, Node.mapPosL_eq_map] at this
        exact this
      · refine Rel.bind (rel_partsspan hS hc _) ?_; rintro sp _ rfl
        refine Rel.bind Rel.get ?_; intro l₁ l₂ hl
        have := hfin (.node (.list sp l1)) (qv_node _) l₁ l₂ hl
        simp only [mapS, Node.mapPos, Node.mapPosL_eq_map] at this
        exact this
    · cases l1 with
      | nil => exact Rel.noRet (NoRet.bind_left NoRet.foreign)
      | cons a t =>
        cases t with
        | nil =>
          refine Rel.bind Rel.get ?_; intro l₁ l₂ hl
          exact hfin (.node a) (qv_node _) l₁ l₂ hl
        | cons b t' => exact Rel.noRet (NoRet.bind_left NoRet.foreign))

theorem rel_fin_compound (hS : SGood f S) (hc : Comp f) (parts parts' : List Node)
    (hp : parts' = parts.map (Node.mapPos f)) :
    Rel S S
      (do let sp ← partsspan parts; pure (SVal.node (.compound sp parts []), false)
        : M (SVal × Bool))
      (do let sp ← partsspan parts'; pure (SVal.node (.compound sp parts' []), false)
        : M (SVal × Bool))
      (ResOK f Q) := by
  subst hp
  refine Rel.bind (rel_partsspan hS hc parts) ?_; rintro sp _ rfl
  exact Rel.pure ⟨⟨by simp [mapS, Node.mapPos, Node.mapPosL_eq_map, Node.mapPosL], qv_node _⟩, rfl⟩

theorem nat_pattern_list (h0 : f (0, 0) = (0, 0)) (hS : SGood f S) (hc : Comp f) :
    ActNat f Q S np₁ np₂ "p_pattern_list" :=
  actNat_of_core (fun args hq => by
    unfold actionCore; simp only []
    rw [len_map np₁ np₂]
    refine Rel.ite' (fun _ => ?_) (fun _ => ?_)
    · refine Rel.bind (rel_nodesAt 2 _) ?_; rintro pat _ rfl
      refine Rel.bind (rel_partsspan hS hc pat) ?_; rintro sp _ rfl
      refine Rel.bind (rel_reservedAt h0 hq 3) ?_; rintro r _ rfl
      rw [slice_map np₁ np₂]
      simp only [pure_bind]
      refine rel_fin_compound hS hc _ _ ?_
      cases (PCtx.mk np₁ args).slice 4 <;>
        simp [mapS, Node.mapPos, Node.mapPosL_eq_map]
    · refine Rel.bind (rel_nodesAt 3 _) ?_; rintro pat _ rfl
      refine Rel.bind (rel_reservedAt h0 hq 2) ?_; rintro r2 _ rfl
      refine Rel.bind (rel_partsspan hS hc pat) ?_; rintro sp _ rfl
      refine Rel.bind (rel_reservedAt h0 hq 4) ?_; rintro r4 _ rfl
      rw [slice_map np₁ np₂]
      simp only [pure_bind]
      refine rel_fin_compound hS hc _ _ ?_
      cases (PCtx.mk np₁ args).slice 5 <;>
        simp [mapS, Node.mapPos, Node.mapPosL_eq_map])

/-! ## summary -/

/-- production 0 (`S' → inputunit`) has no action function; the model's dispatch raises -/
theorem nat_noname : ActNat f Q S np₁ np₂ "" := by
  intro args hq
  refine Rel.noRet ?_
  unfold action actionCore
  exact NoRet.bind_left NoRet.foreign

/-- ALL action functions of `Model/Actions.lean` (39, and the nameless production 0) -/
def allActions : List String :=
  ["p_inputunit", "p_word_list", "p_redirection", "p_simple_command_element",
   "p_redirection_list", "p_simple_command", "p_command", "p_function_body", "p_subshell",
   "p_group_command", "p_case_clause", "p_case_clause_sequence", "p_pattern", "p_list",
   "p_compound_list", "p_list0", "p_list1", "p_simple_list_terminator", "p_list_terminator",
   "p_newline_list", "p_simple_list1", "p_pipeline_command", "p_pipeline", "p_empty", "",
   "p_redirection_heredoc", "p_shell_command", "p_for_command", "p_arith_for_command",
   "p_select_command", "p_case_command", "p_function_def", "p_coproc", "p_if_command",
   "p_arith_command", "p_cond_command", "p_elif_clause", "p_pattern_list", "p_simple_list",
   "p_timespec"]

/-- every action function of the generated grammar is in the list -/
theorem actions_covered : ∀ fname ∈ Gen.prodFuncs, fname ∈ allActions := by
  decide +kernel

/-- what the action lemmas use besides the algebra of `f`: word expansion, the state relation,
    and two environment-dependent primitives (`proceedonerror`, the here-document reader) -/
structure ActEnv (f : Span → Span) (Q : Token → Prop) (S : Local → Local → Prop)
    (np₁ np₂ : NestedParse) : Prop where
  /-- word expansion on tokens that lie on one side of the insertion point -/
  word : WordNat f Q S np₁ np₂
  /-- the state relation keeps the flags equal and the pending here-documents related -/
  state : SGood f S
  /-- both runs see the same `proceedonerror` -/
  proceed : Rel S S optProceed optProceed Eq
  /-- `gatherheredocuments` (called by `p_simple_list`) keeps the states related -/
  gather : Rel S S gatherheredocuments gatherheredocuments (fun _ _ => True)

/-- **every action function is natural in the spans** -/
theorem actNat_all (h0 : f (0, 0) = (0, 0)) (hc : Comp f) (hm : Mono f)
    (hE : ActEnv f Q S np₁ np₂) : ∀ fname ∈ allActions, ActNat f Q S np₁ np₂ fname := by
  obtain ⟨hW, hS, hP, hG⟩ := hE
  intro fname hmem
  simp only [allActions, List.mem_cons, List.mem_nil_iff, or_false] at hmem
  rcases hmem with rfl | rfl | rfl | rfl | rfl | rfl | rfl | rfl | rfl | rfl | rfl | rfl | rfl |
    rfl | rfl | rfl | rfl | rfl | rfl | rfl | rfl | rfl | rfl | rfl | rfl | rfl | rfl | rfl | rfl |
    rfl | rfl | rfl | rfl | rfl | rfl | rfl | rfl | rfl | rfl | rfl
  · exact nat_inputunit hS
  · exact nat_word_list hW
  · exact nat_redirection h0 hc hW
  · exact nat_simple_command_element hW
  · exact nat_redirection_list
  · exact nat_simple_command
  · exact nat_command hS hc hm
  · exact nat_function_body hS hc hm
  · exact nat_subshell h0 hS hc
  · exact nat_group_command h0 hS hc
  · exact nat_case_clause
  · exact nat_case_clause_sequence h0
  · exact nat_pattern h0 hW
  · exact nat_list
  · exact nat_compound_list hS hc
  · exact nat_list0 h0 hS hc
  · exact nat_list1 h0
  · exact nat_simple_list_terminator
  · exact nat_list_terminator h0
  · exact nat_newline_list
  · exact nat_simple_list1 h0
  · exact nat_pipeline_command h0 hS hc
  · exact nat_pipeline h0
  · exact nat_empty
  · exact nat_noname
  · exact nat_redirection_heredoc h0 hS hc
  · exact nat_shell_command h0 hS hc hW
  · exact nat_for_command h0 hS hc hW
  · exact nat_arith_for_command h0 hS hc hW hP
  · exact nat_select_command h0 hS hc hW hP
  · exact nat_case_command h0 hS hc hW
  · exact nat_function_def h0 hS hc hW
  · exact nat_coproc h0 hS hc hW hP
  · exact nat_if_command h0 hS hc hW
  · exact nat_arith_command h0 hS hc hW hP
  · exact nat_cond_command h0 hS hc hW hP
  · exact nat_elif_clause h0
  · exact nat_pattern_list h0 hS hc
  · exact nat_simple_list h0 hS hc hG
  · exact nat_timespec h0 hS hc hW hP

/-- **what is left to assume**: the token source, and `ActEnv` -/
structure InteriorResidual (f : Span → Span) (Q : Token → Prop) (S : Local → Local → Prop)
    (np₁ np₂ : NestedParse) : Prop where
  /-- the token source: same tokens, spans under `f`, each on one side (`Q`) -/
  tok : Rel S S nextToken nextToken (fun t₁ t₂ => t₂ = mapTok f t₁ ∧ Q t₁)
  env : ActEnv f Q S np₁ np₂

theorem interiorHyp_of_residual (h0 : f (0, 0) = (0, 0)) (hc : Comp f) (hm : Mono f)
    (h : InteriorResidual f Q S np₁ np₂) : InteriorHyp f Q S np₁ np₂ where
  tok := h.tok
  act := fun fname hmem => actNat_all h0 hc hm h.env fname (actions_covered fname hmem)
  store := h.env.state.store

end Bashlex.C14I
