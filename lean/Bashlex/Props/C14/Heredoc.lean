/-
  C14, layer 2b: `readline`, `makeheredoc`, `gatherheredocuments` under the translation:
  the same lines are read; the spans written into the redirect store are moved by the shift.
  Entry level 0 or 1 (the reader is called from `_readtoken` after a character was read, level 1,
  and from the action `p_simple_list`, level 0).
-/
import Bashlex.Props.C14.Walk
import Bashlex.Props.C10.Reader
import Bashlex.Props.C10.Gather

namespace Bashlex.C14
open Bashlex Bashlex.C10
set_option linter.unusedSimpArgs false
set_option linter.unusedVariables false

variable {pre : Str} {top : Bool} {n n' : Nat}

/-- one iteration of `readline`: at least one `_getc`, so the exit level is ≥ 1 -/
theorem sim_rlBody (rqn : Bool) (st : RLState) (hn : n ≤ 1) :
    Sim pre top n 1 (rlBody rqn st) (rlBody rqn st) (SumEq Eq) := by
  unfold rlBody
  refine Sim.bindEq (mid := n + 1) (sim_getc true hn) (fun c0 => ?_)
  have h1 : 1 ≤ n + 1 := Nat.le_add_left _ _
  refine Sim.lvlTo (a := 1) ?_ h1
  rel_walk

theorem sim_readline (rqn : Bool) (hn : n ≤ 1) : SimEq pre top n 1 (readline rqn) := by
  rw [readline_eq]
  simp only [loopFuel, pure_bind]
  exact Sim.loopFrom (S := Eq) (fun s t hst => by subst hst; exact sim_rlBody rqn s hn)
    (fun s t hst => by subst hst; exact sim_rlBody rqn s (Nat.le_refl _)) _ _ _ rfl
macro_rules | `(tactic| rel_atom) => `(tactic| exact sim_readline _ (by decide))

theorem sim_mhBody (d : Str) (k : Bool) (st : HDState) :
    Sim pre top 1 1 (mhBody d k st) (mhBody d k st) (SumEq Eq) := by
  unfold mhBody; rel_walk

theorem LocRel.setStore {k : Nat} {l₁ l₂ : Local} (h : LocRel k l₁ l₂) (st : List RedirCell) :
    LocRel k { l₁ with store := st } { l₂ with store := st.map (cellShift k) } :=
  { h with store := rfl }

/-- the end of `makeheredoc`: the error object, or the cell written to the store -/
theorem sim_mhFinish (id : Nat) (cell : RedirCell) (startpos : Nat) (fin : HDState) :
    Sim pre top 1 1 (mhFinish id cell startpos fin)
      (mhFinish id (cellShift (kOf pre top) cell) (startpos + kOf pre top) fin)
      (fun _ _ => True) := by
  unfold mhFinish
  refine Sim.ite (fun _ => ?_) (fun _ => ?_)
  · refine Sim.bind sim_tapeLine (fun s₁ s₂ hs => ?_)
    refine Sim.bind (sim_curIdx (by decide)) (fun i j hij => ?_)
    refine Sim.bind (mid := 1) (V := fun _ _ => False) (Sim.raise ?_) (fun _ _ h => h.elim)
    have := exnRel_mkParsingError hs
      ("here-document at line 0 delimited by end-of-file (wanted " ++ pyReprStr cell.delim ++ ")")
      (i : Int)
    rw [hij.1, Int.natCast_add]
    exact this
  · refine Sim.bind (sim_curIdx (by decide)) (fun i j hij => ?_)
    refine Sim.get_bind (fun l₁ l₂ hl => ?_)
    refine SimAt.set (fun e₁ e₂ hr => hr.update ?_ rfl rfl rfl)
    have key := hl.setStore (l₁.store.set id
      { cell with heredoc := some ((startpos, i - 1), fin.document),
                  pos := if cell.pos.2 + 1 == startpos then (cell.pos.1, i - 1) else cell.pos })
    have hj : j - 1 = i - 1 + kOf pre top := by
      rw [hij.1]
      cases top with
      | true => have := hij.2 rfl; omega
      | false => simp only [kOf_false]; omega
    have e : (l₁.store.set id
        { cell with heredoc := some ((startpos, i - 1), fin.document),
                    pos := if cell.pos.2 + 1 == startpos then (cell.pos.1, i - 1) else cell.pos }).map
          (cellShift (kOf pre top)) =
        l₂.store.set id
          { cellShift (kOf pre top) cell with
              heredoc := some ((startpos + kOf pre top, j - 1), fin.document),
              pos := if (cellShift (kOf pre top) cell).pos.2 + 1 == startpos + kOf pre top then
                  ((cellShift (kOf pre top) cell).pos.1, j - 1)
                else (cellShift (kOf pre top) cell).pos } := by
      rw [List.map_set, hl.store, hj]
      congr 1
      have hc : (cell.pos.2 + kOf pre top + 1 == startpos + kOf pre top) =
          (cell.pos.2 + 1 == startpos) := by
        by_cases h : cell.pos.2 + 1 = startpos
        · have h' : cell.pos.2 + kOf pre top + 1 = startpos + kOf pre top := by omega
          simp only [h, h', beq_self_eq_true]
        · have h' : ¬ cell.pos.2 + kOf pre top + 1 = startpos + kOf pre top := by omega
          simp only [beq_eq_false_iff_ne.2 h, beq_eq_false_iff_ne.2 h']
      simp only [cellShift, sh, Option.map_some, hc]
      split <;> rfl
    rw [e] at key
    exact key

theorem getElem?_store {k : Nat} {l₁ l₂ : Local} (h : LocRel k l₁ l₂) (id : Nat) :
    l₂.store[id]? = (l₁.store[id]?).map (cellShift k) := by
  rw [h.store, List.getElem?_map]

theorem sim_makeheredoc (id : Nat) (kill : Bool) (hn : n ≤ 1) :
    Sim pre top n 1 (makeheredoc id kill) (makeheredoc id kill) (fun _ _ => True) := by
  rw [makeheredoc_eq]
  refine Sim.get_bind (fun l₁ l₂ hl => ?_)
  rw [getElem?_store hl]
  cases hc : l₁.store[id]? with
  | none =>
    simp only [Option.map_none]
    exact SimAt.bind (mid := n) (V := fun _ _ => False) (SimAt.foreign _ _) (fun _ _ h => h.elim)
  | some cell =>
    simp only [Option.map_some, pure_bind, cellShift_delim, loopFuel]
    refine Sim.at ?_ _ _
    refine Sim.bind (sim_curIdx (by omega)) (fun i j hij => ?_)
    refine Sim.bindEq (sim_readline false hn) (fun first => ?_)
    refine Sim.bindEq (Sim.loopEq (sim_mhBody _ _) _ _) (fun fin => ?_)
    rw [hij.1]
    exact sim_mhFinish id cell i fin

theorem sim_gBody (u : Unit) (hn : n ≤ 1) : Sim pre top n n (gBody u) (gBody u) (SumEq Eq) := by
  unfold gBody
  refine Sim.get_bind (fun l₁ l₂ hl => ?_)
  rw [hl.redirstack]
  refine Sim.at ?_ _ _
  split
  · exact Sim.pureSum (Nat.le_refl _)
  · refine Sim.bindEq (sim_peekc true hn) (fun p => ?_)
    have hjp : ∀ rest id kill, Sim pre top n n (do
        modify fun l => { l with redirstack := rest }
        makeheredoc id kill
        pure (Sum.inl () : Unit ⊕ Unit)) (do
        modify fun l => { l with redirstack := rest }
        makeheredoc id kill
        pure (Sum.inl () : Unit ⊕ Unit)) (SumEq Eq) := by
      intro rest id kill
      refine Sim.bindU (mid := n) (by rel_modify) ?_
      refine Sim.bindU (mid := 1) (sim_makeheredoc id kill hn) ?_
      exact Sim.pureSum hn
    simp only []
    split
    · refine Sim.bindEq (mid := n) sim_optStrict (fun b => ?_)
      split
      · exact Sim.bindU (mid := n) sim_bumpIdx (Sim.pureSum (Nat.le_refl _))
      · exact hjp _ _ _
    · exact hjp _ _ _

theorem sim_gatherheredocuments (hn : n ≤ 1) :
    Sim pre top n n gatherheredocuments gatherheredocuments (fun _ _ => True) := by
  rw [gather_eq]
  refine Sim.get_bind (fun l₁ l₂ hl => ?_)
  rw [hl.redirstack]
  refine Sim.at ?_ _ _
  exact (Sim.loopEq (fun u => sim_gBody u hn) _ _).weaken (fun _ _ _ => True.intro)
macro_rules | `(tactic| rel_atom) => `(tactic| exact sim_gatherheredocuments (n := 0) (by decide))
macro_rules | `(tactic| rel_atom) => `(tactic| exact sim_gatherheredocuments (n := 1) (by decide))

end Bashlex.C14
