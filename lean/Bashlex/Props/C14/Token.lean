/-
  C14, layer 2e: `_readtoken` and `token()` under the translation: the second run delivers the
  token of the first run, moved by the shift (`TokRel`).
-/
import Bashlex.Props.C14.Finish
import Bashlex.Props.C14.Heredoc

namespace Bashlex.C14
open Bashlex Bashlex.C10
set_option linter.unusedSimpArgs false
set_option linter.unusedVariables false

variable {pre : Str} {top : Bool} {n n' : Nat}

theorem sim_discardUntil (ch : Char) :
    Sim pre top 1 1 (discardUntil ch) (discardUntil ch) (fun _ _ => True) := by
  unfold discardUntil
  simp only [loopFuel, pure_bind]
  refine Sim.bindEq (mid := 2) (sim_getc false (by decide)) (fun c => ?_)
  refine Sim.bindEq (mid := 2) (Sim.loopEq (fun s => ?_) _ _) (fun c => ?_)
  · rel_walk
  · rel_walk
macro_rules | `(tactic| rel_atom) => `(tactic| exact sim_discardUntil _)

theorem sim_tokentypeOfChar (c : Char) : SimEq pre top n n (tokentypeOfChar c) := by
  unfold tokentypeOfChar; rel_walk
macro_rules | `(tactic| rel_atom) => `(tactic| exact sim_tokentypeOfChar _)

set_option maxHeartbeats 1000000 in
theorem sim_readtokenMeta (c : Char) : SimEq pre top 1 1 (readtokenMeta c) := by
  unfold readtokenMeta
  rel_walk_jp
macro_rules | `(tactic| rel_atom) => `(tactic| exact sim_readtokenMeta _)

/-- `_readtokenword(c)`: called after `c` was read (level 1); the word may end by ungetting the
    break character (exit level 0) -/
theorem sim_readtokenword (c : Char) :
    Sim pre top 1 0 (readtokenword c) (readtokenword c) (TokRel (kOf pre top)) := by
  unfold readtokenword
  simp only [loopFuel, pure_bind]
  refine Sim.bindEq (mid := 0) ?_ (fun st => sim_finishWord st)
  exact Sim.loopL (S := Eq) (fun s t hst => by subst hst; exact sim_readtokenwordStep s) _ _ _ rfl

/-- results of `_readtoken`: a bare token type, or a token -/
abbrev RTRel (k : Nat) : TokType ⊕ Token → TokType ⊕ Token → Prop := SumRel Eq (TokRel k)

theorem sim_readtokenword_inr (c : Char) :
    Sim pre top 1 0 (do return .inr (← readtokenword c) : M (TokType ⊕ Token))
      (do return .inr (← readtokenword c)) (RTRel (kOf pre top)) :=
  Sim.bind (sim_readtokenword c) (fun a b hab => Sim.pure (Nat.le_refl _) hab)

theorem sim_tokentype_inl (c : Char) :
    Sim pre top n n (do return .inl (← tokentypeOfChar c) : M (TokType ⊕ Token))
      (do return .inl (← tokentypeOfChar c)) (RTRel (kOf pre top)) :=
  Sim.bindEq (sim_tokentypeOfChar c) (fun a => Sim.pure (Nat.le_refl _) rfl)

theorem Sim.pureRT {a : TokType ⊕ Token} (hn : n' ≤ n) (h : ∀ t, a = .inr t → t.pos = none ∧ t.ttype = some .EOF ∧ t.value = .none) :
    Sim pre top n n' (Pure.pure a : M (TokType ⊕ Token)) (Pure.pure a) (RTRel (kOf pre top)) := by
  refine Sim.pure hn ?_
  cases a with
  | inl t => exact rfl
  | inr t =>
    obtain ⟨h1, h2, h3⟩ := h t rfl
    exact ⟨rfl, rfl, rfl, by rw [h1]; rfl, fun _ => ⟨h2, h3⟩⟩

macro_rules | `(tactic| rel_atom) => `(tactic| exact sim_readtokenword_inr _)
macro_rules | `(tactic| rel_atom) => `(tactic| exact sim_tokentype_inl _)

set_option maxHeartbeats 1000000 in
/-- `_readtoken()`: from any state (level 0) -/
theorem sim_readtoken : Sim pre top 0 0 readtoken readtoken (RTRel (kOf pre top)) := by
  unfold readtoken
  simp only [loopFuel, pure_bind]
  refine Sim.bindEq (mid := 1) (sim_getc true (by decide)) (fun c0 => ?_)
  refine Sim.bindEq (mid := 1) (Sim.loopEq (fun s => ?_) _ _) (fun c1 => ?_)
  · rel_walk
  · repeat' (first
      | rel_step_jp
      | (with_reducible exact Sim.pureRT (by lvl) (by intro t h; cases h; exact ⟨rfl, rfl, rfl⟩))
      | (with_reducible exact Sim.pureRT (by lvl) (by intro t h; cases h)))

/-- **`tokenizer.token()` under the translation**: from related states (any level) the two runs
    deliver the same token, the span moved by the shift, and end in related states; or both raise
    related exceptions. -/
theorem sim_nextToken : Sim pre top 0 0 nextToken nextToken (TokRel (kOf pre top)) := by
  unfold nextToken
  refine Sim.bindU (mid := 0) ?_ ?_
  · refine Sim.modify (fun l₁ e₁ l₂ e₂ hr => hr.update ?_ rfl rfl rfl)
    exact { hr.loc with before := hr.loc.last, last := hr.loc.cur }
  have hjp : ∀ cur₁ cur₂, TokRel (kOf pre top) cur₁ cur₂ → Sim pre top 0 0
      (do
        modify fun l => { l with currentToken := cur₁ }
        modify fun l => { l with ps := { l.ps with eoftoken := false } }
        pure cur₁ : M Token)
      (do
        modify fun l => { l with currentToken := cur₂ }
        modify fun l => { l with ps := { l.ps with eoftoken := false } }
        pure cur₂ : M Token) (TokRel (kOf pre top)) := by
    intro cur₁ cur₂ hcur
    refine Sim.bindU (mid := 0) ?_ ?_
    · refine Sim.modify (fun l₁ e₁ l₂ e₂ hr => hr.update ?_ rfl rfl rfl)
      exact { hr.loc with cur := hcur.heq, curFlags := hcur.flags }
    refine Sim.bindU (mid := 0) (by rel_modify) ?_
    exact Sim.pure (Nat.le_refl _) hcur
  refine Sim.bind sim_readtoken (fun r₁ r₂ hr => ?_)
  cases r₁ with
  | inl ty₁ =>
    cases r₂ with
    | inr t₂ => exact hr.elim
    | inl ty₂ =>
      have : ty₁ = ty₂ := hr
      subst this
      refine Sim.bindU (mid := 0) (sim_recordpos 0 (Nat.le_refl _) (by decide)) ?_
      exact Sim.bind (sim_createtoken _ _ _) (fun c₁ c₂ hc => hjp c₁ c₂ hc)
  | inr t₁ =>
    cases r₂ with
    | inl ty₂ => exact hr.elim
    | inr t₂ => exact hjp t₁ t₂ hr

end Bashlex.C14
