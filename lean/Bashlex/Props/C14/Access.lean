/-
  C14, layer 1b: one relational lemma per tape accessor of `Model/Monad.lean`, and for
  `recordpos`, `createtoken`, `matchedPairError`, the delimiter stack, the option readers and
  `sh_syntaxtab`.

  Levels (`Room`): `getc` raises the level by one up to 2 (a character was consumed, or the end of
  a tape of length ≥ 2 was reached), `ungetc` needs level ≥ 1 and lowers it by one; every other
  accessor keeps the level.
-/
import Bashlex.Props.C14.Rel

namespace Bashlex.C14
open Bashlex Bashlex.C10
set_option linter.unusedSimpArgs false
set_option linter.unusedVariables false

variable {pre : Str} {top : Bool} {n n' : Nat}

/-! ## the tape functions under a prefix -/

theorem getElem?_pre (pre l : Str) (i : Nat) : (pre ++ l)[i + pre.length]? = l[i]? := by
  rw [List.getElem?_append_right (Nat.le_add_left _ _), Nat.add_sub_cancel]

/-! unfolding equations of `Tape.getc` -/

theorem tgetc_end (t : Tape) (rqn : Bool) (f : Nat) (h : ¬ t.idx < t.line.length) :
    t.getc rqn f = .ok (none, t) := by
  cases f with
  | zero => rfl
  | succ f => unfold Tape.getc; rw [if_neg h]

theorem tgetc_plain (t : Tape) (rqn : Bool) (f : Nat) (c : Char) (hlt : t.idx < t.line.length)
    (hc : t.line[t.idx]? = some c) (hb : (c == '\\' && rqn) = false) :
    t.getc rqn (f + 1) = .ok (some c, { t with idx := t.idx + 1 }) := by
  unfold Tape.getc; rw [if_pos hlt, hc]; simp only [hb]; rfl

theorem tgetc_bs_err (t : Tape) (rqn : Bool) (f : Nat) (c : Char) (hlt : t.idx < t.line.length)
    (hc : t.line[t.idx]? = some c) (hb : (c == '\\' && rqn) = true)
    (hd : t.line[t.idx + 1]? = none) :
    t.getc rqn (f + 1) = .error () := by
  unfold Tape.getc; rw [if_pos hlt, hc]; simp only [hb, hd, if_true]

theorem tgetc_bs_other (t : Tape) (rqn : Bool) (f : Nat) (c d : Char) (hlt : t.idx < t.line.length)
    (hc : t.line[t.idx]? = some c) (hb : (c == '\\' && rqn) = true)
    (hd : t.line[t.idx + 1]? = some d) (hnl : (d == '\n') = false) :
    t.getc rqn (f + 1) = .ok (some c, { t with idx := t.idx + 1 }) := by
  unfold Tape.getc; rw [if_pos hlt, hc]; simp only [hb, hd, if_true, hnl]; rfl

theorem tgetc_bs_nl (t : Tape) (rqn : Bool) (f : Nat) (c d : Char) (hlt : t.idx < t.line.length)
    (hc : t.line[t.idx]? = some c) (hb : (c == '\\' && rqn) = true)
    (hd : t.line[t.idx + 1]? = some d) (hnl : (d == '\n') = true) :
    t.getc rqn (f + 1) = Tape.getc { t with idx := t.idx + 1 + 1 } rqn f := by
  conv => lhs; unfold Tape.getc
  rw [if_pos hlt, hc]; simp only [hb, hd, if_true, hnl]

/-- `Tape.getc` on the two tapes, with any sufficient fuels -/
theorem tape_getc_rel (rqn : Bool) : ∀ (f₁ f₂ : Nat) (t₁ t₂ : Tape), TapeRel pre t₁ t₂ →
    t₁.line.length + 1 ≤ f₁ + t₁.idx → t₁.line.length + 1 ≤ f₂ + t₁.idx →
    match t₁.getc rqn f₁ with
    | .ok (c, t₁') => ∃ t₂', t₂.getc rqn f₂ = .ok (c, t₂') ∧ TapeRel pre t₁' t₂' ∧
        t₁'.line = t₁.line ∧ t₁.idx ≤ t₁'.idx ∧ (c.isSome = true → t₁.idx < t₁'.idx) ∧
        (c = none → t₁.line.length ≤ t₁'.idx)
    | .error () => t₂.getc rqn f₂ = .error () := by
  intro f₁
  induction f₁ with
  | zero =>
    intro f₂ t₁ t₂ hr h1 h2
    have hlt1 : ¬ t₁.idx < t₁.line.length := by omega
    have hlt : ¬ t₂.idx < t₂.line.length := by
      rw [hr.idx, hr.line, List.length_append]; omega
    rw [tgetc_end _ _ _ hlt1]
    exact ⟨t₂, tgetc_end _ _ _ hlt, hr, rfl, Nat.le_refl _, (fun h => by cases h), fun _ => by omega⟩
  | succ f₁ ih =>
    intro f₂ t₁ t₂ hr h1 h2
    have hiff : t₂.idx < t₂.line.length ↔ t₁.idx < t₁.line.length := by
      rw [hr.idx, hr.line, List.length_append]; omega
    by_cases hlt : t₁.idx < t₁.line.length
    · cases f₂ with
      | zero => omega
      | succ f₂ =>
        have hat : t₂.line[t₂.idx]? = t₁.line[t₁.idx]? := by
          rw [hr.idx, hr.line, getElem?_pre]
        have hat1 : t₂.line[t₂.idx + 1]? = t₁.line[t₁.idx + 1]? := by
          rw [hr.idx, hr.line, Nat.add_right_comm, getElem?_pre]
        obtain ⟨c, hc⟩ : ∃ c, t₁.line[t₁.idx]? = some c :=
          ⟨_, List.getElem?_eq_getElem hlt⟩
        have hr1 : TapeRel pre { t₁ with idx := t₁.idx + 1 } { t₂ with idx := t₂.idx + 1 } :=
          ⟨hr.line, by simp only [hr.idx]; omega, hr.added, hr.len⟩
        cases hb : (c == '\\' && rqn) with
        | false =>
          rw [tgetc_plain t₁ rqn f₁ c hlt hc hb]
          exact ⟨_, tgetc_plain t₂ rqn f₂ c (hiff.2 hlt) (hat.trans hc) hb, hr1, rfl,
            Nat.le_succ _, fun _ => Nat.lt_succ_self _, fun h => by cases h⟩
        | true =>
          cases hd : t₁.line[t₁.idx + 1]? with
          | none =>
            rw [tgetc_bs_err t₁ rqn f₁ c hlt hc hb hd]
            exact tgetc_bs_err t₂ rqn f₂ c (hiff.2 hlt) (hat.trans hc) hb (hat1.trans hd)
          | some d =>
            cases hnl : (d == '\n') with
            | false =>
              rw [tgetc_bs_other t₁ rqn f₁ c d hlt hc hb hd hnl]
              exact ⟨_, tgetc_bs_other t₂ rqn f₂ c d (hiff.2 hlt) (hat.trans hc) hb
                (hat1.trans hd) hnl, hr1, rfl, Nat.le_succ _, fun _ => Nat.lt_succ_self _,
                fun h => by cases h⟩
            | true =>
              rw [tgetc_bs_nl t₁ rqn f₁ c d hlt hc hb hd hnl,
                tgetc_bs_nl t₂ rqn f₂ c d (hiff.2 hlt) (hat.trans hc) hb (hat1.trans hd) hnl]
              have hr2 : TapeRel pre { t₁ with idx := t₁.idx + 1 + 1 }
                  { t₂ with idx := t₂.idx + 1 + 1 } :=
                ⟨hr.line, by simp only [hr.idx]; omega, hr.added, hr.len⟩
              have := ih f₂ _ _ hr2 (by simp only []; omega) (by simp only []; omega)
              revert this
              cases Tape.getc { t₁ with idx := t₁.idx + 1 + 1 } rqn f₁ with
              | error u => cases u; exact fun h => h
              | ok v =>
                obtain ⟨c', t₁'⟩ := v
                rintro ⟨t₂', h1', h2', h3', h4', h5', h6'⟩
                simp only [] at h3' h4' h5' h6'
                exact ⟨t₂', h1', h2', h3', by omega, fun _ => by omega, h6'⟩
    · rw [tgetc_end _ _ _ hlt]
      exact ⟨t₂, tgetc_end _ _ _ (fun h => hlt (hiff.1 h)), hr, rfl, Nat.le_refl _,
        (fun h => by cases h), fun _ => by omega⟩

/-- `Tape.ungetc` on the two tapes, when the first cursor has room -/
theorem tape_ungetc_rel {t₁ t₂ : Tape} (hr : TapeRel pre t₁ t₂) (hroom : Room 1 t₁) :
    (t₁.ungetc = (true, { t₁ with idx := t₁.idx - 1 }) ∧
     t₂.ungetc = (true, { t₂ with idx := t₂.idx - 1 }) ∧ t₁.idx ≤ t₁.line.length ∧ 1 ≤ t₁.idx) ∨
    (t₁.ungetc = (false, t₁) ∧ t₂.ungetc = (false, t₂) ∧ t₁.line.length < t₁.idx) := by
  have hl := hr.len
  have hne1 : t₁.line.isEmpty = false := by
    cases h : t₁.line with
    | nil => rw [h] at hl; simp at hl
    | cons a b => rfl
  have hne2 : t₂.line.isEmpty = false := by
    rw [hr.line]
    cases h : t₁.line with
    | nil => rw [h] at hl; simp at hl
    | cons a b => cases pre <;> rfl
  have hlen2 : t₂.line.length = pre.length + t₁.line.length := by
    rw [hr.line, List.length_append]
  unfold Tape.ungetc
  by_cases hle : t₁.idx ≤ t₁.line.length
  · have h1 : 1 ≤ t₁.idx := by
      rcases hroom with h | h
      · exact h
      · omega
    left
    refine ⟨?_, ?_, hle, h1⟩
    · rw [if_pos]
      simp only [hne1, Bool.not_false, Bool.true_and, Bool.and_eq_true, bne_iff_ne, ne_eq,
        decide_eq_true_eq]
      exact ⟨by omega, hle⟩
    · rw [if_pos]
      simp only [hne2, Bool.not_false, Bool.true_and, Bool.and_eq_true, bne_iff_ne, ne_eq,
        decide_eq_true_eq]
      rw [hr.idx, hlen2]
      exact ⟨by omega, by omega⟩
  · right
    refine ⟨?_, ?_, by omega⟩
    · rw [if_neg]
      simp only [hne1, Bool.not_false, Bool.true_and, Bool.and_eq_true, bne_iff_ne, ne_eq,
        decide_eq_true_eq]
      exact fun h => hle h.2
    · rw [if_neg]
      simp only [hne2, Bool.not_false, Bool.true_and, Bool.and_eq_true, bne_iff_ne, ne_eq,
        decide_eq_true_eq]
      rw [hr.idx, hlen2]
      exact fun h => hle (by omega)

/-! ## building related states -/

theorem Room.of_lt {t : Tape} (m : Nat) (h : t.line.length < t.idx) : Room m t := Or.inr h

/-- top-level mode: both environment tapes replaced -/
theorem Rel.putTop {l₁ l₂ : Local} {e₁ e₂ : Env} {m : Nat} (hr : Rel pre true n l₁ e₁ l₂ e₂)
    {t₁ t₂ : Tape} (ht : TapeRel pre t₁ t₂) (hroom : Room m t₁)
    (heol : l₁.eolLookahead.isSome = true → t₁.line.length < t₁.idx) :
    Rel pre true m l₁ { e₁ with tape := t₁ } l₂ { e₂ with tape := t₂ } :=
  { env := ⟨ht, hr.env.strict, hr.env.proceed, hr.env.touched⟩
    loc := hr.loc, mode := hr.mode, room := fun _ => hroom, eolOK := fun _ => heol
    proc := hr.proc }

/-- nested mode: both private tapes replaced by the same tape -/
theorem Rel.putNested {l₁ l₂ : Local} {e₁ e₂ : Env} {m : Nat} (hr : Rel pre false n l₁ e₁ l₂ e₂)
    (t : Tape) :
    Rel pre false m { l₁ with tape := some t } e₁ { l₂ with tape := some t } e₂ :=
  { env := hr.env
    loc := { hr.loc with tape := rfl }
    mode := rfl
    room := fun h => by cases h
    eolOK := fun h => by cases h
    proc := hr.proc }

/-- the look-ahead slot is written in both states -/
theorem Rel.setEol {l₁ l₂ : Local} {e₁ e₂ : Env} {m : Nat} (hr : Rel pre top n l₁ e₁ l₂ e₂)
    (c : Option Char) (hroom : top = true → Room m e₁.tape)
    (hc : top = true → c.isSome = true → e₁.tape.line.length < e₁.tape.idx) :
    Rel pre top m { l₁ with eolLookahead := c } e₁ { l₂ with eolLookahead := c } e₂ :=
  { env := hr.env
    loc := { hr.loc with eol := rfl }
    mode := hr.mode
    room := hroom
    eolOK := hc
    proc := hr.proc }

theorem Rel.tape_none {l₁ l₂ : Local} {e₁ e₂ : Env} (hr : Rel pre true n l₁ e₁ l₂ e₂) :
    l₁.tape = none ∧ l₂.tape = none := by
  have h1 : l₁.tape = none := by
    have := hr.mode
    cases h : l₁.tape with
    | none => rfl
    | some t => rw [h] at this; cases this
  exact ⟨h1, by rw [hr.loc.tape, h1]⟩

theorem Rel.tape_some {l₁ l₂ : Local} {e₁ e₂ : Env} (hr : Rel pre false n l₁ e₁ l₂ e₂) :
    ∃ t, l₁.tape = some t ∧ l₂.tape = some t := by
  have := hr.mode
  cases h : l₁.tape with
  | none => rw [h] at this; cases this
  | some t => exact ⟨t, rfl, by rw [hr.loc.tape, h]⟩

theorem tapeOf_none {l : Local} (h : l.tape = none) (e : Env) : tapeOf l e = e.tape := by
  unfold tapeOf; rw [h]
theorem tapeOf_some {l : Local} {t : Tape} (h : l.tape = some t) (e : Env) : tapeOf l e = t := by
  unfold tapeOf; rw [h]
theorem putL_none {l : Local} (h : l.tape = none) (t : Tape) : putL l t = l := by
  unfold putL; rw [h]
theorem putE_none {l : Local} (h : l.tape = none) (e : Env) (t : Tape) :
    putE l e t = { e with tape := t } := by
  unfold putE; rw [h]
theorem putL_some {l : Local} {t0 : Tape} (h : l.tape = some t0) (t : Tape) :
    putL l t = { l with tape := some t } := by
  unfold putL; rw [h]
theorem putE_some {l : Local} {t0 : Tape} (h : l.tape = some t0) (e : Env) (t : Tape) :
    putE l e t = e := by
  unfold putE; rw [h]

/-! ## `_getc`, `_ungetc`, `_peekc` -/

theorem run_getc_eol (rqn : Bool) (l : Local) (e : Env) (ch : Char)
    (h : l.eolLookahead = some ch) :
    M.run (getc rqn) l e = (.ok (some ch, { l with eolLookahead := none }), e) := by
  unfold getc
  simp only [M.run_bind, run_get, h, run_set, M.run_pure]

/-- `_getc` keeps any level and reaches level `m` whenever `m ≤ n + 1` and `m ≤ 2` -/
theorem sim_getc_gen (rqn : Bool) {m : Nat} (hm : m ≤ n + 1) (hm2 : m ≤ 2 ∨ m ≤ n) :
    SimEq pre top n m (getc rqn) := by
  intro l₁ l₂ e₁ e₂ hr
  cases hl : l₁.eolLookahead with
  | some ch =>
    rw [run_getc_eol rqn l₁ e₁ ch hl, run_getc_eol rqn l₂ e₂ ch (by rw [hr.loc.eol, hl])]
    refine ⟨rfl, hr.setEol none (fun ht => ?_) (fun _ h => by cases h)⟩
    exact Room.of_lt _ (hr.eolOK ht (by rw [hl]; rfl))
  | none =>
    rw [run_getc rqn l₁ e₁ hl, run_getc rqn l₂ e₂ (by rw [hr.loc.eol, hl])]
    cases top with
    | true =>
      obtain ⟨h1, h2⟩ := hr.tape_none
      rw [tapeOf_none h1, tapeOf_none h2]
      have hg := tape_getc_rel rqn (e₁.tape.line.length + 1) (e₂.tape.line.length + 1) _ _
        hr.env.tape (by omega) (by rw [hr.env.tape.line, List.length_append]; omega)
      revert hg
      cases Tape.getc e₁.tape rqn (e₁.tape.line.length + 1) with
      | error u =>
        cases u
        intro hg
        rw [hg]
        exact ⟨Or.inl rfl, hr.env⟩
      | ok v =>
        obtain ⟨c, t₁'⟩ := v
        rintro ⟨t₂', hg, htr, hline, hle, hsome, hnone⟩
        rw [hg]
        simp only [putL_none h1, putL_none h2, putE_none h1, putE_none h2]
        refine ⟨rfl, hr.putTop htr ?_ (fun h => by rw [hl] at h; cases h)⟩
        have hroom := hr.room rfl
        have hlen := hr.env.tape.len
        rcases hroom with hroom | hroom
        · cases c with
          | some ch =>
            have := hsome rfl
            exact Or.inl (by omega)
          | none =>
            have := hnone rfl
            rcases hm2 with hm2 | hm2
            · exact Or.inl (by omega)
            · exact Or.inl (by omega)
        · exact Or.inr (by rw [hline]; omega)
    | false =>
      obtain ⟨t, h1, h2⟩ := hr.tape_some
      rw [tapeOf_some h1, tapeOf_some h2]
      cases Tape.getc t rqn (t.line.length + 1) with
      | error u =>
        cases u
        exact ⟨Or.inl rfl, hr.env⟩
      | ok v =>
        obtain ⟨c, t'⟩ := v
        simp only [putL_some h1, putL_some h2, putE_some h1, putE_some h2]
        exact ⟨rfl, hr.putNested t'⟩

/-- `_getc` raises the level (up to 2) -/
theorem sim_getc (rqn : Bool) (hn : n ≤ 1) : SimEq pre top n (n + 1) (getc rqn) :=
  sim_getc_gen rqn (Nat.le_refl _) (Or.inl (by omega))

/-- `_getc` keeps the level -/
theorem sim_getc_same (rqn : Bool) : SimEq pre top n n (getc rqn) :=
  sim_getc_gen rqn (Nat.le_succ _) (Or.inr (Nat.le_refl _))

/-- `_ungetc` lowers the level -/
theorem sim_ungetc (c : Option Char) :
    Sim pre top (n + 1) n (ungetc c) (ungetc c) (fun _ _ => True) := by
  intro l₁ l₂ e₁ e₂ hr
  rw [run_ungetc, run_ungetc]
  cases top with
  | true =>
    obtain ⟨h1, h2⟩ := hr.tape_none
    rw [tapeOf_none h1, tapeOf_none h2]
    have hroom := hr.room rfl
    rcases tape_ungetc_rel hr.env.tape (hroom.mono (Nat.succ_le_succ (Nat.zero_le _))) with
      ⟨u1, u2, hle, h1i⟩ | ⟨u1, u2, hlt⟩
    · rw [u1, u2]
      simp only [putL_none h1, putL_none h2, putE_none h1, putE_none h2]
      refine ⟨True.intro, hr.putTop ⟨hr.env.tape.line, ?_, hr.env.tape.added, hr.env.tape.len⟩ ?_ ?_⟩
      · simp only [hr.env.tape.idx]; omega
      · rcases hroom with hroom | hroom
        · exact Or.inl (by simp only []; omega)
        · exact absurd hroom (by omega)
      · intro h
        have := hr.eolOK rfl h
        omega
    · rw [u1, u2]
      exact ⟨True.intro, hr.setEol c (fun _ => Room.of_lt _ hlt) (fun _ _ => hlt)⟩
  | false =>
    obtain ⟨t, h1, h2⟩ := hr.tape_some
    rw [tapeOf_some h1, tapeOf_some h2]
    rcases ungetc_cases t with hu | hu <;> rw [hu]
    · simp only [putL_some h1, putL_some h2, putE_some h1, putE_some h2]
      exact ⟨True.intro, hr.putNested _⟩
    · exact ⟨True.intro, hr.setEol c (fun h => by cases h) (fun h => by cases h)⟩

/-- `_peekc` keeps the level (0 or 1) -/
theorem sim_peekc (rqn : Bool) (hn : n ≤ 1) : SimEq pre top n n (peekc rqn) := by
  unfold peekc
  refine Sim.bindEq (sim_getc rqn hn) (fun c => ?_)
  split
  · exact Sim.bind (sim_ungetc c) (fun _ _ _ => Sim.pure (Nat.le_refl _) rfl)
  · exact Sim.pure (Nat.le_succ _) rfl

/-! ## the cursor, the line, the options -/

/-- `_shell_input_line_index`: moved by the shift; at level `n ≤ 2` it is at least `n` -/
theorem sim_curIdx (hn : n ≤ 2) :
    Sim pre top n n curIdx curIdx (fun i j => j = i + kOf pre top ∧ (top = true → n ≤ i)) := by
  intro l₁ l₂ e₁ e₂ hr
  rw [run_curIdx, run_curIdx]
  refine ⟨?_, hr⟩
  cases top with
  | true =>
    obtain ⟨h1, h2⟩ := hr.tape_none
    rw [tapeOf_none h1, tapeOf_none h2]
    refine ⟨hr.env.tape.idx, fun _ => ?_⟩
    have hlen := hr.env.tape.len
    rcases hr.room rfl with h | h <;> omega
  | false =>
    obtain ⟨t, h1, h2⟩ := hr.tape_some
    rw [tapeOf_some h1, tapeOf_some h2]
    exact ⟨rfl, fun h => by cases h⟩

theorem sim_bumpIdx : Sim pre top n n bumpIdx bumpIdx (fun _ _ => True) := by
  intro l₁ l₂ e₁ e₂ hr
  rw [run_bumpIdx, run_bumpIdx]
  cases top with
  | true =>
    obtain ⟨h1, h2⟩ := hr.tape_none
    simp only [tapeOf_none h1, tapeOf_none h2, putL_none h1, putL_none h2, putE_none h1,
      putE_none h2]
    refine ⟨True.intro, hr.putTop ⟨hr.env.tape.line, ?_, hr.env.tape.added, hr.env.tape.len⟩ ?_ ?_⟩
    · simp only [hr.env.tape.idx]; omega
    · rcases hr.room rfl with h | h
      · exact Or.inl (by simp only []; omega)
      · exact Or.inr (by simp only []; omega)
    · intro h
      have := hr.eolOK rfl h
      simp only []; omega
  | false =>
    obtain ⟨t, h1, h2⟩ := hr.tape_some
    simp only [tapeOf_some h1, tapeOf_some h2, putL_some h1, putL_some h2, putE_some h1,
      putE_some h2]
    exact ⟨True.intro, hr.putNested _⟩

/-- how a string read off the tape (`source`, `_shell_input_line`) differs between the runs -/
def SrcRel (pre : Str) (top : Bool) (s₁ s₂ : Str) : Prop :=
  if top then s₂ = pre ++ s₁ else s₂ = s₁

theorem SrcRel.length {s₁ s₂ : Str} (h : SrcRel pre top s₁ s₂) :
    s₂.length = s₁.length + kOf pre top := by
  cases top with
  | true => simp only [SrcRel, if_true] at h; rw [h, List.length_append, kOf_true, Nat.add_comm]
  | false => simp only [SrcRel] at h; rw [h]; rfl

theorem sim_tapeLine : Sim pre top n n tapeLine tapeLine (SrcRel pre top) := by
  intro l₁ l₂ e₁ e₂ hr
  rw [run_tapeLine, run_tapeLine]
  refine ⟨?_, hr⟩
  cases top with
  | true =>
    obtain ⟨h1, h2⟩ := hr.tape_none
    rw [tapeOf_none h1, tapeOf_none h2]
    exact hr.env.tape.line
  | false =>
    obtain ⟨t, h1, h2⟩ := hr.tape_some
    rw [tapeOf_some h1, tapeOf_some h2]
    exact rfl

theorem run_tapeSource (l : Local) (e : Env) :
    M.run tapeSource l e = (.ok ((tapeOf l e).source, l), e) := by
  cases l with
  | mk tape => cases tape <;> rfl

theorem run_tapeAdded (l : Local) (e : Env) :
    M.run tapeAdded l e = (.ok ((tapeOf l e).added, l), e) := by
  cases l with
  | mk tape => cases tape <;> rfl

theorem run_optProceed (l : Local) (e : Env) :
    M.run optProceed l e = (.ok (proceedOf l e, l), e) := by
  cases l with
  | mk tape opts =>
    cases opts with
    | none => rfl
    | some p => obtain ⟨s, p⟩ := p; rfl

theorem sim_tapeSource : Sim pre top n n tapeSource tapeSource (SrcRel pre top) := by
  intro l₁ l₂ e₁ e₂ hr
  rw [run_tapeSource, run_tapeSource]
  refine ⟨?_, hr⟩
  cases top with
  | true =>
    obtain ⟨h1, h2⟩ := hr.tape_none
    rw [tapeOf_none h1, tapeOf_none h2]
    show e₂.tape.source = pre ++ e₁.tape.source
    unfold Tape.source
    rw [hr.env.tape.added, hr.env.tape.line]
    split
    · have hlen := hr.env.tape.len
      cases hl : e₁.tape.line with
      | nil => rw [hl] at hlen; simp at hlen
      | cons a b => rw [List.dropLast_append_cons]
    · rfl
  | false =>
    obtain ⟨t, h1, h2⟩ := hr.tape_some
    rw [tapeOf_some h1, tapeOf_some h2]
    exact rfl

theorem sim_tapeAdded : SimEq pre top n n tapeAdded := by
  intro l₁ l₂ e₁ e₂ hr
  rw [run_tapeAdded, run_tapeAdded]
  refine ⟨?_, hr⟩
  cases top with
  | true =>
    obtain ⟨h1, h2⟩ := hr.tape_none
    rw [tapeOf_none h1, tapeOf_none h2]
    exact hr.env.tape.added.symm
  | false =>
    obtain ⟨t, h1, h2⟩ := hr.tape_some
    rw [tapeOf_some h1, tapeOf_some h2]

theorem sim_optStrict : SimEq pre top n n optStrict := by
  intro l₁ l₂ e₁ e₂ hr
  rw [run_optStrict, run_optStrict]
  refine ⟨?_, hr⟩
  unfold strictOf; rw [hr.loc.opts, hr.env.strict]

/-- `_proceedonerror` is off in both runs -/
theorem sim_optProceed :
    Sim pre top n n optProceed optProceed (fun a b => a = false ∧ b = false) := by
  intro l₁ l₂ e₁ e₂ hr
  rw [run_optProceed, run_optProceed]
  refine ⟨?_, hr⟩
  have h1 := hr.proc
  have h2 : proceedOf l₂ e₂ = false := by
    unfold proceedOf at h1 ⊢
    rw [hr.loc.opts, hr.env.proceed]; exact h1
  exact ⟨h1, h2⟩

/-- `sh_syntaxtab[c]`: the class of `c` in both runs -/
theorem sim_syn (c : Char) :
    Sim pre top n n (syn c) (syn c) (fun a b => a = synClass c ∧ b = synClass c) := by
  intro l₁ l₂ e₁ e₂ hr
  have r : ∀ (l : Local) (e : Env), M.run (syn c) l e =
      (.ok (synClass c, l),
        if e.touched.contains c then e else { e with touched := e.touched ++ [c] }) := by
    intro l e; rfl
  rw [r, r, hr.env.touched]
  refine ⟨⟨rfl, rfl⟩, ?_⟩
  by_cases hc : e₁.touched.contains c = true
  · rw [if_pos hc, if_pos hc]; exact hr
  · rw [if_neg hc, if_neg hc]
    exact { hr with env := { hr.env with touched := by simp only [hr.env.touched] } }

theorem sim_synField (c : Char) (f : SynClass → Bool) :
    Sim pre top n n (do return f (← syn c) : M Bool) (do return f (← syn c) : M Bool)
      (fun a b => a = f (synClass c) ∧ b = f (synClass c)) := by
  refine Sim.bind (sim_syn c) (fun a b hab => ?_)
  obtain ⟨ha, hb⟩ := hab
  subst ha hb
  exact Sim.pure (Nat.le_refl _) ⟨rfl, rfl⟩

theorem sim_shellmeta (c : Char) : Sim pre top n n (shellmeta c) (shellmeta c)
    (fun a b => a = (synClass c).metac ∧ b = (synClass c).metac) := sim_synField c (·.metac)
theorem sim_shellquote (c : Char) : Sim pre top n n (shellquote c) (shellquote c)
    (fun a b => a = (synClass c).quote ∧ b = (synClass c).quote) := sim_synField c (·.quote)
theorem sim_shellexp (c : Char) : Sim pre top n n (shellexp c) (shellexp c)
    (fun a b => a = (synClass c).exp ∧ b = (synClass c).exp) := sim_synField c (·.exp)
theorem sim_shellbreak (c : Char) : Sim pre top n n (shellbreak c) (shellbreak c)
    (fun a b => a = (synClass c).brk ∧ b = (synClass c).brk) := sim_synField c (·.brk)

/-! ## errors built from the tape -/

theorem exnRel_mkParsingError {s₁ s₂ : Str} (h : SrcRel pre top s₁ s₂) (m : String) (p : Int) :
    ExnRel pre (mkParsingError m s₁ p) (mkParsingError m s₂ (p + (kOf pre top : Nat))) := by
  cases top with
  | false =>
    simp only [SrcRel] at h
    subst h
    simp only [kOf_false, Int.natCast_zero, Int.add_zero]
    exact Or.inl rfl
  | true =>
    simp only [SrcRel, if_true] at h
    subst h
    unfold mkParsingError
    simp only [kOf_true, List.length_append, Int.natCast_add]
    by_cases hp : p ≤ (s₁.length : Int)
    · rw [if_pos hp, if_pos (by omega)]
      exact Or.inr ⟨m, s₁, p, rfl, rfl⟩
    · rw [if_neg hp, if_neg (by omega)]
      exact Or.inl rfl

/-- `MatchedPairError` (raised at level ≥ 1: after a `_getc`) -/
theorem sim_matchedPairError {α β : Type} {V : α → β → Prop} (close : Char) (hn : n ≤ 2) :
    Sim pre top n n' (matchedPairError close : M α) (matchedPairError close : M β) V := by
  unfold matchedPairError
  refine Sim.bind sim_tapeSource (fun s₁ s₂ hs => ?_)
  refine Sim.bind (sim_curIdx hn) (fun i j hij => ?_)
  refine Sim.raise ?_
  have := exnRel_mkParsingError hs
    s!"unexpected EOF while looking for matching {if close == '\'' then "\"'\"" else "'" ++ String.singleton close ++ "'"}"
    ((i : Int) - 1)
  rw [hij.1]
  have e : ((i + kOf pre top : Nat) : Int) - 1 = (i : Int) - 1 + (kOf pre top : Nat) := by omega
  rw [e]
  exact this

/-! ## positions and tokens -/

theorem LocRel.setPositions {k : Nat} {l₁ l₂ : Local} (h : LocRel k l₁ l₂) (p : List Nat) :
    LocRel k { l₁ with positions := p } { l₂ with positions := p.map (· + k) } :=
  { h with positions := rfl }

/-- `recordpos rel` needs `rel ≤ level` -/
theorem sim_recordpos (rel : Nat) (hrel : rel ≤ n) (hn : n ≤ 2) :
    Sim pre top n n (recordpos rel) (recordpos rel) (fun _ _ => True) := by
  unfold recordpos
  refine Sim.bind (sim_curIdx hn) (fun i j hij => ?_)
  refine Sim.modify (fun l₁ e₁ l₂ e₂ hr => ?_)
  refine hr.update ?_ rfl rfl rfl
  have := hr.loc.setPositions (l₁.positions ++ [i - rel])
  have e : (l₁.positions ++ [i - rel]).map (· + kOf pre top) = l₂.positions ++ [j - rel] := by
    rw [List.map_append, hr.loc.positions, hij.1]
    congr 1
    simp only [List.map_cons, List.map_nil, List.cons.injEq, and_true]
    cases top with
    | true => have := hij.2 rfl; omega
    | false => simp only [kOf_false]; omega
  rw [e] at this
  exact this

theorem getLast?_map_add (l : List Nat) (k : Nat) :
    ((l.map (· + k)).getLast?).getD 0 = if l = [] then 0 else l.getLast?.getD 0 + k := by
  rw [List.getLast?_map]
  cases h : l.getLast? with
  | none =>
    have : l = [] := List.getLast?_eq_none_iff.1 h
    simp [this]
  | some a =>
    have : l ≠ [] := by intro hl; rw [hl] at h; cases h
    simp [this]

theorem run_createtoken (ty : TokType) (v : TVal) (flags : WordFlags) (l : Local) (e : Env) :
    M.run (createtoken ty v flags) l e =
      if l.positions.length < 2 then (.error (.foreign "AssertionError" "_createtoken"), e)
      else if !(l.positions.dropLast.getLast?.getD 0 < l.positions.getLast?.getD 0) then
        (.error (.foreign "AssertionError" "token.__init__"), e)
      else (.ok ({ ttype := some ty, value := v,
                   pos := some (l.positions.dropLast.getLast?.getD 0, l.positions.getLast?.getD 0),
                   flags := flags },
                 { l with positions := l.positions.dropLast.dropLast }), e) := by
  unfold createtoken
  simp only [M.run_bind, run_get]
  by_cases h2 : l.positions.length < 2
  · simp only [h2, if_true, M.run_bind, run_foreign]
  · simp only [h2, if_false, M.run_bind, M.run_pure, run_set]
    by_cases h3 : l.positions.dropLast.getLast?.getD 0 < l.positions.getLast?.getD 0
    · simp only [h3, decide_true, Bool.not_true, Bool.false_eq_true, if_false, M.run_pure]
    · simp only [h3, decide_false, Bool.not_false, if_true, M.run_bind, run_foreign]

/-- `_createtoken`: the token span is moved by the shift -/
theorem sim_createtoken (ty : TokType) (v : TVal) (flags : WordFlags) :
    Sim pre top n n (createtoken ty v flags) (createtoken ty v flags) (TokRel (kOf pre top)) := by
  intro l₁ l₂ e₁ e₂ hr
  have hl := hr.loc
  rw [run_createtoken, run_createtoken]
  have hlen : l₂.positions.length = l₁.positions.length := by rw [hl.positions, List.length_map]
  rw [hlen]
  by_cases h2 : l₁.positions.length < 2
  · rw [if_pos h2, if_pos h2]
    exact ⟨Or.inl rfl, hr.env⟩
  · rw [if_neg h2, if_neg h2]
    have hne : l₁.positions ≠ [] := by intro h; rw [h] at h2; simp at h2
    have hne' : l₁.positions.dropLast ≠ [] := by
      intro h
      have := congrArg List.length h
      rw [List.length_dropLast] at this
      simp at this; omega
    have e2 : l₂.positions.getLast?.getD 0 = l₁.positions.getLast?.getD 0 + kOf pre top := by
      rw [hl.positions, getLast?_map_add, if_neg hne]
    have e1 : l₂.positions.dropLast.getLast?.getD 0 =
        l₁.positions.dropLast.getLast?.getD 0 + kOf pre top := by
      rw [hl.positions, ← List.map_dropLast, getLast?_map_add, if_neg hne']
    have e3 : l₂.positions.dropLast.dropLast =
        l₁.positions.dropLast.dropLast.map (· + kOf pre top) := by
      rw [hl.positions, ← List.map_dropLast, ← List.map_dropLast]
    rw [e1, e2, e3]
    by_cases h3 : l₁.positions.dropLast.getLast?.getD 0 < l₁.positions.getLast?.getD 0
    · have h3' : l₁.positions.dropLast.getLast?.getD 0 + kOf pre top <
          l₁.positions.getLast?.getD 0 + kOf pre top := by omega
      simp only [h3, h3', decide_true, Bool.not_true, Bool.false_eq_true, if_false]
      refine ⟨⟨rfl, rfl, rfl, rfl, fun h => by cases h⟩, ?_⟩
      exact hr.update (hl.setPositions _) rfl rfl rfl
    · have h3' : ¬ l₁.positions.dropLast.getLast?.getD 0 + kOf pre top <
          l₁.positions.getLast?.getD 0 + kOf pre top := by omega
      simp only [h3, h3', decide_false, Bool.not_false, if_true]
      exact ⟨Or.inl rfl, hr.env⟩

/-! ## the delimiter stack -/

theorem sim_pushDelimiter (c : Char) :
    Sim pre top n n (pushDelimiter c) (pushDelimiter c) (fun _ _ => True) := by
  unfold pushDelimiter
  refine Sim.modify (fun l₁ e₁ l₂ e₂ hr => hr.update ?_ rfl rfl rfl)
  exact { hr.loc with dstack := by simp only [hr.loc.dstack] }

theorem sim_popDelimiter :
    Sim pre top n n popDelimiter popDelimiter (fun _ _ => True) := by
  intro l₁ l₂ e₁ e₂ hr
  have r : ∀ (l : Local) (e : Env), M.run popDelimiter l e =
      if l.dstack.isEmpty then (.error (.foreign "IndexError" "_pop_delimiter"), e)
      else (.ok ((), { l with dstack := l.dstack.dropLast }), e) := by
    intro l e
    unfold popDelimiter
    simp only [M.run_bind, run_get]
    by_cases h : l.dstack.isEmpty = true
    · simp only [h, if_true, M.run_bind, run_foreign]
    · simp only [h, if_false, Bool.false_eq_true, M.run_bind, M.run_pure, run_set]
  rw [r, r, hr.loc.dstack]
  by_cases h : l₁.dstack.isEmpty = true
  · rw [if_pos h, if_pos h]; exact ⟨Or.inl rfl, hr.env⟩
  · rw [if_neg h, if_neg h]
    exact ⟨True.intro, hr.update { hr.loc with dstack := rfl } rfl rfl rfl⟩

theorem sim_currentDelimiter : SimEq pre top n n currentDelimiter := by
  intro l₁ l₂ e₁ e₂ hr
  have r : ∀ (l : Local) (e : Env), M.run currentDelimiter l e =
      (.ok (l.dstack.getLast?, l), e) := fun l e => rfl
  rw [r, r, hr.loc.dstack]
  exact ⟨rfl, hr⟩

theorem sim_loopFuel : SimEq pre top n n loopFuel := Sim.pure (Nat.le_refl _) rfl
theorem sim_depthFuel : SimEq pre top n n depthFuel := Sim.pure (Nat.le_refl _) rfl

end Bashlex.C14
