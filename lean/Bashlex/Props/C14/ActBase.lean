/-
  C14, layer 3a: semantic values under the translation, the interface of the relational lemmas
  about the semantic actions, and the helpers of `Model/Actions.lean`
  (`nodePos`, `_partsspan`, `_makeparts`, `handleNotImplemented`, `addRedirects`, …).

  The second run of an action is run on the arguments of the first run moved by the shift
  (`shiftS k`): tokens by `shiftTok`, nodes by `Node.shift`.  The claim for every action is
  `ActRes`: the second result is the first result moved by the shift, with the same
  YaccAccept flag.

  Spans of the nodes an action builds come from token spans (`p.lexspan i`, `lexpos`) and from
  node spans (`nodePos`).  Two places use a CONSTANT span instead and break the claim:
  * `p.lexspan i` of a non-token (`getattr(sym, 'lexpos', 0)` on a YaccSymbol) — reached for
    `timespec pipeline_command` (defect D19: `reservedword (0,0) "!"`); excluded: `timespec` values
    do not exist when `proceedonerror` is off;
  * the `.none` branch of `p_elif_clause` (`reservedword (0,0) "None"`) — unreachable: no
    production gives `elif_clause` an empty right-hand-side symbol.
  Both are excluded by `shiftSafe`, a decidable predicate on the sorts of the right-hand side,
  checked by the kernel on the generated grammar (`Engine.lean`).
-/
import Bashlex.Props.C14.Token
import Bashlex.Props.C12.Actions

namespace Bashlex.C14
open Bashlex Bashlex.C10 Bashlex.C12 Bashlex.LR
set_option linter.unusedSimpArgs false
set_option linter.unusedVariables false

variable {pre : Str} {top : Bool} {n n' : Nat}

/-! ## semantic values -/

/-- a semantic value moved by `k` -/
def shiftS (k : Nat) : SVal → SVal
  | .none => .none
  | .tok t => .tok (shiftTok k t)
  | .node n => .node (n.shift k)
  | .nodes l => .nodes (l.map (Node.shift k))

@[simp] theorem shiftS_none (k : Nat) : shiftS k .none = .none := rfl
@[simp] theorem shiftS_tok (k : Nat) (t : Token) : shiftS k (.tok t) = .tok (shiftTok k t) := rfl
@[simp] theorem shiftS_node (k : Nat) (n : Node) : shiftS k (.node n) = .node (n.shift k) := rfl
@[simp] theorem shiftS_nodes (k : Nat) (l : List Node) :
    shiftS k (.nodes l) = .nodes (l.map (Node.shift k)) := rfl

/-- a token on the value stack has a span, unless it is the EOF token (whose value is `None`) -/
def SOK (v : SVal) : Prop := ∀ t, v = .tok t → t.pos = none → t.ttype = some .EOF ∧ t.value = .none

theorem TokRel.sok {k : Nat} {t₁ t₂ : Token} (h : TokRel k t₁ t₂) : SOK (.tok t₁) := by
  intro t ht hp
  cases ht
  exact h.hasPos hp

theorem TokRel.shiftS {k : Nat} {t₁ t₂ : Token} (h : TokRel k t₁ t₂) :
    SVal.tok t₂ = shiftS k (.tok t₁) := by
  rw [h.eq_shiftTok]; rfl

/-! ## tokens moved by the shift -/

@[simp] theorem shiftTok_ttype (k : Nat) (t : Token) : (shiftTok k t).ttype = t.ttype := rfl
@[simp] theorem shiftTok_value (k : Nat) (t : Token) : (shiftTok k t).value = t.value := rfl
@[simp] theorem shiftTok_flags (k : Nat) (t : Token) : (shiftTok k t).flags = t.flags := rfl
@[simp] theorem shiftTok_valueStr (k : Nat) (t : Token) : (shiftTok k t).valueStr = t.valueStr := rfl
@[simp] theorem shiftTok_is (k : Nat) (t : Token) (ty : TokType) : (shiftTok k t).is ty = t.is ty :=
  rfl

theorem shiftTok_lexpos (k : Nat) {t : Token} (h : t.pos.isSome = true) :
    (shiftTok k t).lexpos = t.lexpos + k := by
  cases ht : t.pos with
  | none => rw [ht] at h; cases h
  | some p => simp [Token.lexpos, shiftTok, ht, sh]

theorem shiftTok_endlexpos (k : Nat) {t : Token} (h : t.pos.isSome = true) :
    (shiftTok k t).endlexpos = t.endlexpos + k := by
  cases ht : t.pos with
  | none => rw [ht] at h; cases h
  | some p => simp [Token.endlexpos, shiftTok, ht, sh]

/-- `(tok.lexpos, tok.endlexpos)` of a moved token -/
theorem shiftTok_span (k : Nat) {t : Token} (h : t.pos.isSome = true) :
    ((shiftTok k t).lexpos, (shiftTok k t).endlexpos) = sh k (t.lexpos, t.endlexpos) := by
  rw [shiftTok_lexpos k h, shiftTok_endlexpos k h]; rfl

/-- `SVal.lexspan` of a moved token -/
theorem lexspan_shiftS_tok (k : Nat) {t : Token} (h : t.pos.isSome = true) :
    (shiftS k (.tok t)).lexspan = sh k (SVal.tok t).lexspan := shiftTok_span k h

/-! ## sorts -/

/-- a token sort other than EOF (such tokens have spans) -/
def tokNotEOF : Srt → Bool
  | .tok (some ty) => ty != .EOF
  | .tok none => false
  | _ => true

/-- the right-hand sides on which the action `f` moves with the input (see the header) -/
def shiftSafe (f : String) (sorts : List Srt) : Bool :=
  match f with
  | "p_simple_list_terminator" | "p_inputunit" | "p_list_terminator" | "p_newline_list"
  | "p_empty" => true
  | "p_elif_clause" => sorts.all (fun s => s != .none && tokNotEOF s)
  | "p_pipeline_command" =>
    (match sorts with
     | [.nodes _] => true
     | [.tok (some ty), _] => ty != .EOF
     | _ => false)
  | _ => sorts.all tokNotEOF

/-- a value of a non-EOF token sort is a token with a span -/
theorem tok_of_sort {s : Srt} {v : SVal} {ty : TokType} (hs : HasSort (.tok (some ty)) v)
    (hne : ty ≠ .EOF) (hok : SOK v) :
    ∃ t, v = .tok t ∧ t.ttype = some ty ∧ TokWF t ∧ t.pos.isSome = true := by
  obtain ⟨t, rfl, hty, hwf⟩ := hs
  refine ⟨t, rfl, hty, hwf, ?_⟩
  cases hp : t.pos with
  | some p => rfl
  | none =>
    have := (hok t rfl hp).1
    rw [hty] at this
    exact absurd (Option.some.inj this) hne

/-- every token among the arguments has a span -/
def ArgsPos (args : List SVal) : Prop := ∀ a, a ∈ args → ∀ t, a = .tok t → t.pos.isSome = true

theorem argsPos_of_sorts : ∀ {sorts : List Srt} {args : List SVal}, Forall2 HasSort sorts args →
    sorts.all tokNotEOF = true → (∀ a, a ∈ args → SOK a) → ArgsPos args := by
  intro sorts args h
  induction h with
  | nil => intro _ _ a ha; cases ha
  | @cons s v ss vs h1 _ ih =>
    intro hall hok a ha t hat
    rw [List.all_cons, Bool.and_eq_true] at hall
    rcases List.mem_cons.1 ha with rfl | ha'
    · subst hat
      cases s with
      | tok ty =>
        cases ty with
        | none => exact absurd hall.1 (by decide)
        | some ty =>
          have hne : ty ≠ .EOF := by
            intro h; subst h; exact absurd hall.1 (by decide)
          obtain ⟨t', ht', _, _, hp⟩ := tok_of_sort (s := .tok (some ty)) h1 hne (hok _ List.mem_cons_self)
          cases ht'
          exact hp
      | none => cases h1
      | node c => obtain ⟨_, h, _⟩ := h1; cases h
      | optNode c =>
        rcases h1 with h | ⟨_, h, _⟩ <;> cases h
      | nodes k => obtain ⟨_, h, _⟩ := h1; cases h
    · exact ih hall.2 (fun a ha => hok a (List.mem_cons_of_mem _ ha)) a ha' t hat

/-! ## the interface -/

/-- the nested parser of the two runs: same results (its input is computed by the program and is
    not translated; its private tape is the same in both runs) -/
def NPRel (pre : Str) (top : Bool) (np : NestedParse) : Prop :=
  ∀ s d, SimEq pre top 0 0 (np s d)

/-- `parser._expandword` under the translation -/
def ExpRel (pre : Str) (top : Bool) (np : NestedParse) : Prop :=
  ∀ t : Token, t.pos.isSome = true →
    Sim pre top 0 0 (expandword np t) (expandword np (shiftTok (kOf pre top) t))
      (fun a b => b = a.shift (kOf pre top))

/-- the results of an action in the two runs -/
def ActRes (k : Nat) (r₁ r₂ : SVal × Bool) : Prop := r₂ = (shiftS k r₁.1, r₁.2)

/-- the statement to prove about every action `f` (for the sorts `sorts` of a right-hand side on
    which `f` type-checks and is `shiftSafe`) -/
def ActionRel (pre : Str) (top : Bool) (np : NestedParse) (f : String) : Prop :=
  ∀ (sorts : List Srt) (σ : Srt) (args : List SVal), absAction f sorts = some σ →
    shiftSafe f sorts = true → Forall2 HasSort sorts args → (∀ a, a ∈ args → SOK a) →
    Sim pre top 0 0 (actionCore np f args) (actionCore np f (args.map (shiftS (kOf pre top))))
      (ActRes (kOf pre top))

/-! ## spans and nodes -/

theorem pos_shift (k : Nat) (n : Node) : (n.shift k).pos = sh k n.pos := Node.pos_shift k n

theorem map_shift_append (k : Nat) (a b : List Node) :
    (a ++ b).map (Node.shift k) = a.map (Node.shift k) ++ b.map (Node.shift k) := List.map_append

/-- closing tactic for goals `X₂ = shiftS k X₁` / `n₂ = n₁.shift k` between explicit values -/
macro "shift_eq" : tactic => `(tactic|
  simp [ActRes, shiftS, Node.shift, Node.mapPos, Node.mapPosL, Node.mapPosO, Node.mapPosL_eq_map, sh,
    List.map_append, Nat.add_assoc])

/-- `nodePos` (the current span of a node; pending here-document redirects live in the store) -/
theorem sim_nodePos (nd : Node) :
    Sim pre top n n (nodePos nd) (nodePos (nd.shift (kOf pre top)))
      (fun a b => b = sh (kOf pre top) a) := by
  have hgen : ∀ m : Node, (∀ p i t o oa h id, m ≠ .redirect p i t o oa h (some id)) →
      Sim pre top n n (nodePos m) (nodePos (m.shift (kOf pre top)))
        (fun a b => b = sh (kOf pre top) a) := by
    intro m hm
    have e1 : nodePos m = pure m.pos := by
      unfold nodePos
      split
      · rename_i p i t o oa h id
        exact absurd rfl (hm p i t o oa h id)
      · rfl
    have e2 : nodePos (m.shift (kOf pre top)) = pure (m.shift (kOf pre top)).pos := by
      unfold nodePos
      split
      · rename_i p i t o oa h id heq
        cases m <;> simp [Node.shift, Node.mapPos] at heq
        rename_i p' i' t' o' oa' h' hid'
        obtain ⟨_, _, _, _, _, _, rfl⟩ := heq
        exact absurd rfl (hm p' i' t' o' oa' h' id)
      · rfl
    rw [e1, e2]
    exact Sim.pure (Nat.le_refl _) (pos_shift _ m)
  cases nd with
  | redirect p i t o oa h hid =>
    cases hid with
    | none => exact hgen _ (fun _ _ _ _ _ _ _ h => by cases h)
    | some id =>
      show Sim pre top n n (nodePos (.redirect p i t o oa h (some id)))
        (nodePos (.redirect (sh (kOf pre top) p) i t (Node.mapPosO (sh (kOf pre top)) o) oa
          (Node.mapPosO (sh (kOf pre top)) h) (some id))) _
      unfold nodePos
      refine Sim.get_bind (fun l₁ l₂ hl => ?_)
      rw [hl.store, List.getElem?_map]
      cases l₁.store[id]? with
      | none => exact SimAt.pure (Nat.le_refl _) rfl
      | some c => exact SimAt.pure (Nat.le_refl _) rfl
  | _ => exact hgen _ (fun _ _ _ _ _ _ _ h => by cases h)

/-- `_partsspan` -/
theorem sim_partsspan (parts : List Node) :
    Sim pre top n n (partsspan parts) (partsspan (parts.map (Node.shift (kOf pre top))))
      (fun a b => b = sh (kOf pre top) a) := by
  unfold partsspan
  rw [List.head?_map, List.getLast?_map]
  cases parts.head? with
  | none => exact Sim.foreign _ _
  | some a =>
    cases parts.getLast? with
    | none => exact Sim.foreign _ _
    | some b =>
      simp only [Option.map_some]
      refine Sim.bind (sim_nodePos a) (fun pa pa' ha => ?_)
      refine Sim.bind (sim_nodePos b) (fun pb pb' hb => ?_)
      subst ha hb
      exact Sim.pure (Nat.le_refl _) rfl

theorem sim_handleAssert (b : Bool) :
    Sim pre top n n (handleAssert b) (handleAssert b) (fun _ _ => True) := by
  unfold handleAssert
  split
  · exact Sim.pure (Nat.le_refl _) True.intro
  · exact Sim.foreign _ _

/-- `handleNotImplemented`: `proceedonerror` is off in both runs -/
theorem sim_handleNotImplemented {α : Type} (p₁ p₂ : PCtx) (ty : String) :
    Sim pre top n n (handleNotImplemented p₁ ty) (handleNotImplemented p₂ ty)
      (fun _ _ => False) := by
  unfold handleNotImplemented
  refine Sim.bind sim_optProceed (fun a b hab => ?_)
  obtain ⟨rfl, rfl⟩ := hab
  exact Sim.raise_eq _

theorem isCompound_shift (k : Nat) (nd : Node) : isCompound (nd.shift k) = isCompound nd := by
  cases nd <;> rfl

theorem shift_compound (k : Nat) (pos : Span) (l r : List Node) :
    (Node.compound pos l r).shift k =
      .compound (sh k pos) (l.map (Node.shift k)) (r.map (Node.shift k)) := by
  simp [Node.shift, Node.mapPos, Node.mapPosL_eq_map, sh]

/-- `p[0].redirects.extend(p[2])` -/
theorem sim_addRedirects (nd : Node) (reds : List Node) :
    Sim pre top n n (addRedirects nd reds)
      (addRedirects (nd.shift (kOf pre top)) (reds.map (Node.shift (kOf pre top))))
      (fun a b => b = a.shift (kOf pre top)) := by
  unfold addRedirects
  rw [isCompound_shift]
  refine Sim.bindU (mid := n) (sim_handleAssert _) ?_
  cases nd with
  | compound pos l r =>
    rw [shift_compound]
    simp only []
    rw [← List.map_append, List.getLast?_map]
    cases (r ++ reds).getLast? with
    | none => exact Sim.foreign _ _
    | some last =>
      simp only [Option.map_some]
      refine Sim.bind (sim_nodePos last) (fun e e' he => ?_)
      subst he
      have hc : (decide ((sh (kOf pre top) pos).1 < (sh (kOf pre top) e).2)) = decide (pos.1 < e.2) := by
        simp only [sh]
        by_cases h : pos.1 < e.2
        · have h' : pos.1 + kOf pre top < e.2 + kOf pre top := by omega
          simp [h, h']
        · have h' : ¬ pos.1 + kOf pre top < e.2 + kOf pre top := by omega
          simp [h, h']
      rw [hc]
      refine Sim.bindU (mid := n) (sim_handleAssert _) ?_
      refine Sim.pure (Nat.le_refl _) ?_
      rw [shift_compound, List.map_append]
      rfl
  | _ => exact Sim.foreign _ _

/-- `for x in l do …` in lock step over a list and its image -/
theorem Sim.forIn_map {α β : Type} {g : α → α} {f₁ f₂ : α → β → M (ForInStep β)}
    {R : β → β → Prop} (P : α → Prop)
    (hstep : ∀ a b₁ b₂, P a → R b₁ b₂ → Sim pre top n n (f₁ a b₁) (f₂ (g a) b₂)
      (fun r₁ r₂ => match r₁, r₂ with
        | .yield x, .yield y => R x y
        | .done x, .done y => R x y
        | _, _ => False)) :
    ∀ (l : List α) (b₁ b₂ : β), (∀ a, a ∈ l → P a) → R b₁ b₂ →
      Sim pre top n n (forIn l b₁ f₁) (forIn (l.map g) b₂ f₂) R := by
  intro l
  induction l with
  | nil => intro b₁ b₂ _ hb; exact Sim.pure (Nat.le_refl _) hb
  | cons a rest ih =>
    intro b₁ b₂ hP hb
    rw [List.map_cons, List.forIn_cons, List.forIn_cons]
    refine Sim.bind (hstep a b₁ b₂ (hP a List.mem_cons_self) hb) (fun r₁ r₂ hr => ?_)
    cases r₁ with
    | done x =>
      cases r₂ with
      | done y => exact Sim.pure (Nat.le_refl _) hr
      | yield y => exact hr.elim
    | yield x =>
      cases r₂ with
      | done y => exact hr.elim
      | yield y => exact ih x y (fun a ha => hP a (List.mem_cons_of_mem _ ha)) hr

/-- `_makeparts(p)` -/
theorem sim_makeparts {np : NestedParse} (hexp : ExpRel pre top np) (args : List SVal)
    (hpos : ArgsPos args) :
    Sim pre top 0 0 (makeparts ⟨np, args⟩) (makeparts ⟨np, args.map (shiftS (kOf pre top))⟩)
      (fun a b => b = a.map (Node.shift (kOf pre top))) := by
  unfold makeparts
  simp only [bind_pure]
  refine Sim.forIn_map (g := shiftS (kOf pre top)) (R := fun a b => b = a.map (Node.shift (kOf pre top)))
    (fun a => ∀ t, a = .tok t → t.pos.isSome = true) ?_ args [] [] (fun a ha => hpos a ha) rfl
  intro a b₁ b₂ ha hb
  subst hb
  cases a with
  | none => exact Sim.pure (Nat.le_refl _) rfl
  | node nd => exact Sim.pure (Nat.le_refl _) (by simp [List.map_append])
  | nodes l => exact Sim.pure (Nat.le_refl _) (by simp [List.map_append])
  | tok t =>
    have hp := ha t rfl
    show Sim pre top 0 0 (if t.is .WORD = true then _ else _)
      (if (shiftTok (kOf pre top) t).is .WORD = true then _ else _) _
    refine Sim.iteIff Iff.rfl (fun _ => ?_) (fun _ => ?_)
    · refine Sim.bind (hexp t hp) (fun w w' hw => ?_)
      subst hw
      exact Sim.pure (Nat.le_refl _) (by simp [List.map_append])
    · refine Sim.pure (Nat.le_refl _) ?_
      show _ = List.map _ _
      rw [shiftTok_span _ hp]
      simp [List.map_append, Node.shift, Node.mapPos, sh]

/-! ## the argument accessors of `PCtx` on moved arguments -/

theorem slice_map (np : NestedParse) (args : List SVal) (k i : Nat) :
    (PCtx.slice ⟨np, args.map (shiftS k)⟩ i) = shiftS k (PCtx.slice ⟨np, args⟩ i) := by
  unfold PCtx.slice
  simp only [List.getD_eq_getElem?_getD, List.getElem?_map]
  cases args[i - 1]? <;> rfl

theorem len_map (np : NestedParse) (args : List SVal) (k : Nat) :
    (PCtx.len ⟨np, args.map (shiftS k)⟩) = PCtx.len ⟨np, args⟩ := by
  unfold PCtx.len; simp

theorem slice_mem {np : NestedParse} {args : List SVal} {i : Nat} {t : Token}
    (h : PCtx.slice ⟨np, args⟩ i = .tok t) : SVal.tok t ∈ args := by
  unfold PCtx.slice at h
  simp only [List.getD_eq_getElem?_getD] at h
  cases hg : args[i - 1]? with
  | none => rw [hg] at h; cases h
  | some a =>
    rw [hg] at h
    simp only [Option.getD_some] at h
    subst h
    exact List.mem_of_getElem? hg

section accessors
variable {np : NestedParse} {args : List SVal}

local notation "P₁" => (PCtx.mk np args)
local notation "P₂" => (PCtx.mk np (List.map (shiftS (kOf pre top)) args))

theorem sim_tokAt0 (i : Nat) :
    Sim pre top n n (PCtx.tokAt P₁ i) (PCtx.tokAt P₂ i)
      (fun a b => b = shiftTok (kOf pre top) a ∧ PCtx.slice P₁ i = .tok a) := by
  unfold PCtx.tokAt
  rw [slice_map]
  cases h : PCtx.slice P₁ i with
  | tok t => exact Sim.pure (Nat.le_refl _) ⟨rfl, rfl⟩
  | none => exact Sim.foreign _ _
  | node nd => exact Sim.foreign _ _
  | nodes l => exact Sim.foreign _ _

/-- `p.slice[i]` as a token (with its span) -/
theorem sim_tokAt (hpos : ArgsPos args) (i : Nat) :
    Sim pre top n n (PCtx.tokAt P₁ i) (PCtx.tokAt P₂ i)
      (fun a b => b = shiftTok (kOf pre top) a ∧ a.pos.isSome = true ∧ PCtx.slice P₁ i = .tok a) :=
  (sim_tokAt0 i).weaken (fun a b h => ⟨h.1, hpos _ (slice_mem h.2) a rfl, h.2⟩)

/-- `p[i]` of a terminal: the same string in both runs; the position holds a token -/
theorem sim_strAt (i : Nat) :
    Sim pre top n n (PCtx.strAt P₁ i) (PCtx.strAt P₂ i)
      (fun a b => b = a ∧ ∃ t, PCtx.slice P₁ i = .tok t) := by
  unfold PCtx.strAt
  refine Sim.bind (sim_tokAt0 i) (fun a b hab => ?_)
  obtain ⟨rfl, h⟩ := hab
  exact Sim.pure (Nat.le_refl _) ⟨rfl, a, h⟩

theorem sim_nodeAt (i : Nat) (site : String) :
    Sim pre top n n (PCtx.nodeAt P₁ i site) (PCtx.nodeAt P₂ i site)
      (fun a b => b = a.shift (kOf pre top)) := by
  unfold PCtx.nodeAt
  rw [slice_map]
  cases h : PCtx.slice P₁ i with
  | node nd => exact Sim.pure (Nat.le_refl _) rfl
  | none => exact Sim.foreign _ _
  | tok t => exact Sim.foreign _ _
  | nodes l => exact Sim.foreign _ _

theorem sim_nodesAt (i : Nat) (site : String) :
    Sim pre top n n (PCtx.nodesAt P₁ i site) (PCtx.nodesAt P₂ i site)
      (fun a b => b = a.map (Node.shift (kOf pre top))) := by
  unfold PCtx.nodesAt
  rw [slice_map]
  cases h : PCtx.slice P₁ i with
  | nodes l => exact Sim.pure (Nat.le_refl _) rfl
  | none => exact Sim.foreign _ _
  | tok t => exact Sim.foreign _ _
  | node nd => exact Sim.foreign _ _

theorem isTok_map (i : Nat) (ty : TokType) : PCtx.isTok P₂ i ty = PCtx.isTok P₁ i ty := by
  unfold PCtx.isTok
  rw [slice_map]
  cases PCtx.slice P₁ i <;> rfl

/-- `p.lexspan i` when position `i` holds a token -/
theorem lexspan_map (hpos : ArgsPos args) {i : Nat} {t : Token} (h : PCtx.slice P₁ i = .tok t) :
    PCtx.lexspan P₂ i = sh (kOf pre top) (PCtx.lexspan P₁ i) := by
  unfold PCtx.lexspan
  rw [slice_map, h]
  exact lexspan_shiftS_tok _ (hpos _ (slice_mem h) t rfl)

/-- `mk(p.lexspan(i), p[i])` for `mk = reservedword / operator / pipe`; raises (in both runs) when
    position `i` is not a token -/
theorem sim_wordAt (mk : Span → Str → Node)
    (hmk : ∀ sp s, mk (sh (kOf pre top) sp) s = (mk sp s).shift (kOf pre top))
    (hpos : ArgsPos args) (i : Nat) :
    Sim pre top n n (do return mk (PCtx.lexspan P₁ i) (← PCtx.strAt P₁ i) : M Node)
      (do return mk (PCtx.lexspan P₂ i) (← PCtx.strAt P₂ i) : M Node)
      (fun a b => b = a.shift (kOf pre top)) := by
  refine Sim.bind (sim_strAt i) (fun s s' hs => ?_)
  obtain ⟨rfl, t, h⟩ := hs
  rw [lexspan_map hpos h]
  exact Sim.pure (Nat.le_refl _) (hmk _ _)

theorem sim_reservedAt (hpos : ArgsPos args) (i : Nat) :
    Sim pre top n n (reservedAt P₁ i) (reservedAt P₂ i) (fun a b => b = a.shift (kOf pre top)) :=
  sim_wordAt .reservedword (fun _ _ => rfl) hpos i

theorem sim_operatorAt (hpos : ArgsPos args) (i : Nat) :
    Sim pre top n n (operatorAt P₁ i) (operatorAt P₂ i) (fun a b => b = a.shift (kOf pre top)) :=
  sim_wordAt .operator (fun _ _ => rfl) hpos i

end accessors

end Bashlex.C14
