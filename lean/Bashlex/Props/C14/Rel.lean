/-
  C14, layer 1a: a relational Hoare logic for TWO runs of `M` programs, from states related by a
  translation of the input: the second run reads the tape of the first one behind a prefix `pre`.

  * `TapeRel pre t₁ t₂`: `t₂.line = pre ++ t₁.line`, `t₂.idx = t₁.idx + |pre|`, same `added`,
    and the first tape holds at least two characters (anything but `""` and `"\n"`).
  * `LocRel k l₁ l₂`: the parser objects agree, except that every position stored in the state
    (`positions`, the redirect store) is shifted by `k`, and the token-history fields
    (`lastReadToken`, …) agree up to `HEq` (positions are ignored — nobody reads them — and the
    initial placeholder token is identified with a NEWLINE token: every reader of the history
    answers the same for both, see `HEq.is_eq`, `HEq.rwa`).
  * `Rel pre top n`: `top = true`: both parsers are top-level (tape in the environment), the shift
    is `k = |pre|`, and the first cursor has *room* `n` (`n ≤ idx ∨ len < idx`: `n` more
    `_ungetc` calls cannot reach the start of the tape, where the first run would fill the
    `_eol_ungetc_lookahead` slot while the second run moves back into the prefix);
    `top = false`: both parsers are nested parsers over the SAME private tape, the shift is `0`,
    and the (related) environment tapes are a frame.
    In both modes the effective `proceedonerror` option is off (defect D19, see `C14.lean`).
  * `Sim pre top n n' m₁ m₂ V`: from `Rel … n` states, `m₁` and `m₂` both return, with `V`-related
    values and `Rel … n'` states, or both raise, with `ExnRel`-related exceptions
    (a top-level `ParsingError m src p` becomes `ParsingError m (pre ++ src) (p + |pre|)`;
    everything else, including the `ParsingError`s of nested parsers, is equal).
  Rules: `pure`, `bind`, `loop`, `raise`, `mono`, `get_bind` (continuation at the two states read:
  `SimAt`), `set`/`modify`, combination with the unary logic (`Sim.and_sat`).
-/
import Bashlex.Props.C10.Tape
import Bashlex.Props.C13.Shift

namespace Bashlex.C14
open Bashlex Bashlex.C10
set_option linter.unusedSimpArgs false
set_option linter.unusedVariables false

/-! ## related values -/

/-- a span moved by `k` -/
def sh (k : Nat) (p : Span) : Span := (p.1 + k, p.2 + k)

@[simp] theorem sh_zero (p : Span) : sh 0 p = p := rfl
theorem sh_fst (k : Nat) (p : Span) : (sh k p).1 = p.1 + k := rfl
theorem sh_snd (k : Nat) (p : Span) : (sh k p).2 = p.2 + k := rfl
theorem shift_eq_mapPos (k : Nat) (n : Node) : n.shift k = Node.mapPos (sh k) n := rfl

/-- a store cell moved by `k` -/
def cellShift (k : Nat) (c : RedirCell) : RedirCell :=
  { c with pos := sh k c.pos, heredoc := c.heredoc.map (fun x => (sh k x.1, x.2)) }

@[simp] theorem cellShift_delim (k : Nat) (c : RedirCell) : (cellShift k c).delim = c.delim := rfl
@[simp] theorem cellShift_pos (k : Nat) (c : RedirCell) : (cellShift k c).pos = sh k c.pos := rfl

/-- tokens delivered by the tokenizer: same type, value, flags; span moved by `k`; only the EOF
    token (whose value is `None`) has no span -/
structure TokRel (k : Nat) (t₁ t₂ : Token) : Prop where
  ttype : t₂.ttype = t₁.ttype
  value : t₂.value = t₁.value
  flags : t₂.flags = t₁.flags
  pos : t₂.pos = t₁.pos.map (sh k)
  hasPos : t₁.pos = none → t₁.ttype = some .EOF ∧ t₁.value = .none

/-- a token without information for the readers of the token history: the initial placeholder
    `token(None, None)` or a NEWLINE token -/
def Neutral (t : Token) : Prop :=
  (t.ttype = none ∧ t.value = .none) ∨ (t.ttype = some .NEWLINE ∧ t.value = .str ['\n'])

/-- equivalence of token-history entries -/
def HEq (t₁ t₂ : Token) : Prop :=
  (t₂.ttype = t₁.ttype ∧ t₂.value = t₁.value) ∨ (Neutral t₁ ∧ Neutral t₂)

theorem HEq.refl (t : Token) : HEq t t := Or.inl ⟨rfl, rfl⟩
theorem TokRel.heq {k : Nat} {t₁ t₂ : Token} (h : TokRel k t₁ t₂) : HEq t₁ t₂ :=
  Or.inl ⟨h.ttype, h.value⟩

/-- exceptions of the two runs -/
def ExnRel (pre : Str) (x₁ x₂ : Exn) : Prop :=
  x₂ = x₁ ∨ ∃ m src p, x₁ = .parsing m src p ∧ x₂ = .parsing m (pre ++ src) (p + (pre.length : Int))

theorem ExnRel.rfl' {pre : Str} (x : Exn) : ExnRel pre x x := Or.inl rfl

/-! ## related states -/

/-- the two top-level tapes -/
structure TapeRel (pre : Str) (t₁ t₂ : Tape) : Prop where
  line : t₂.line = pre ++ t₁.line
  idx : t₂.idx = t₁.idx + pre.length
  added : t₂.added = t₁.added
  len : 2 ≤ t₁.line.length

structure EnvRel (pre : Str) (e₁ e₂ : Env) : Prop where
  tape : TapeRel pre e₁.tape e₂.tape
  strict : e₂.strict = e₁.strict
  proceed : e₂.proceed = e₁.proceed
  touched : e₂.touched = e₁.touched

/-- the two parser objects; `twoTokensAgo` is never read and is not constrained -/
structure LocRel (k : Nat) (l₁ l₂ : Local) : Prop where
  tape : l₂.tape = l₁.tape
  opts : l₂.opts = l₁.opts
  eol : l₂.eolLookahead = l₁.eolLookahead
  before : HEq l₁.tokenBeforeThat l₂.tokenBeforeThat
  last : HEq l₁.lastReadToken l₂.lastReadToken
  cur : HEq l₁.currentToken l₂.currentToken
  /-- `p_simple_list` compares the current token (span erased) with `_shell_eof_token` -/
  curFlags : l₂.currentToken.flags = l₁.currentToken.flags
  ps : l₂.ps = l₁.ps
  obc : l₂.openBraceCount = l₁.openBraceCount
  esacs : l₂.esacsNeeded = l₁.esacsNeeded
  dstack : l₂.dstack = l₁.dstack
  positions : l₂.positions = l₁.positions.map (· + k)
  eofToken : l₂.eofToken = l₁.eofToken
  /-- `_shell_eof_token` is `None`, or the `)` of a `$(…)` parser -/
  eofOK : l₁.eofToken = none ∨ l₁.eofToken = some rparenEofToken
  redirstack : l₂.redirstack = l₁.redirstack
  store : l₂.store = l₁.store.map (cellShift k)
  limit : l₂.limit = l₁.limit

/-- room of the first cursor: `n` calls of `_ungetc` cannot reach the start of the tape -/
def Room (n : Nat) (t : Tape) : Prop := n ≤ t.idx ∨ t.line.length < t.idx

theorem Room.mono {n m : Nat} {t : Tape} (h : Room n t) (hm : m ≤ n) : Room m t := by
  rcases h with h | h
  · exact Or.inl (Nat.le_trans hm h)
  · exact Or.inr h

theorem Room.zero (t : Tape) : Room 0 t := Or.inl (Nat.zero_le _)

/-- `_parser._proceedonerror` as seen by the parser -/
def proceedOf (l : Local) (e : Env) : Bool :=
  match l.opts with
  | some (_, p) => p
  | none => e.proceed

/-- the shift in force -/
def kOf (pre : Str) (top : Bool) : Nat := if top then pre.length else 0

@[simp] theorem kOf_true (pre : Str) : kOf pre true = pre.length := rfl
@[simp] theorem kOf_false (pre : Str) : kOf pre false = 0 := rfl

structure Rel (pre : Str) (top : Bool) (n : Nat) (l₁ : Local) (e₁ : Env) (l₂ : Local) (e₂ : Env) :
    Prop where
  env : EnvRel pre e₁ e₂
  loc : LocRel (kOf pre top) l₁ l₂
  mode : l₁.tape.isNone = top
  room : top = true → Room n e₁.tape
  eolOK : top = true → l₁.eolLookahead.isSome = true → e₁.tape.line.length < e₁.tape.idx
  proc : proceedOf l₁ e₁ = false

theorem Rel.mono {pre top n m l₁ e₁ l₂ e₂} (h : Rel pre top n l₁ e₁ l₂ e₂) (hm : m ≤ n) :
    Rel pre top m l₁ e₁ l₂ e₂ :=
  { h with room := fun ht => (h.room ht).mono hm }

/-- related outcomes -/
def OutRel {α β : Type} (pre : Str) (top : Bool) (n' : Nat) (V : α → β → Prop) :
    Except Exn (α × Local) × Env → Except Exn (β × Local) × Env → Prop
  | (.ok (a₁, l₁), e₁), (.ok (a₂, l₂), e₂) => V a₁ a₂ ∧ Rel pre top n' l₁ e₁ l₂ e₂
  | (.error x₁, e₁), (.error x₂, e₂) => ExnRel pre x₁ x₂ ∧ EnvRel pre e₁ e₂
  | _, _ => False

/-- the relational judgement for given initial local states -/
def SimAt {α β : Type} (pre : Str) (top : Bool) (n n' : Nat) (l₁ l₂ : Local) (m₁ : M α) (m₂ : M β)
    (V : α → β → Prop) : Prop :=
  ∀ e₁ e₂, Rel pre top n l₁ e₁ l₂ e₂ → OutRel pre top n' V (M.run m₁ l₁ e₁) (M.run m₂ l₂ e₂)

/-- the relational judgement -/
def Sim {α β : Type} (pre : Str) (top : Bool) (n n' : Nat) (m₁ : M α) (m₂ : M β)
    (V : α → β → Prop) : Prop :=
  ∀ l₁ l₂, SimAt pre top n n' l₁ l₂ m₁ m₂ V

/-- same program, equal results -/
abbrev SimEq {α : Type} (pre : Str) (top : Bool) (n n' : Nat) (m : M α) : Prop :=
  Sim pre top n n' m m Eq

variable {pre : Str} {top : Bool} {n n' : Nat}

theorem Sim.at {α β : Type} {m₁ : M α} {m₂ : M β} {V : α → β → Prop}
    (h : Sim pre top n n' m₁ m₂ V) (l₁ l₂ : Local) : SimAt pre top n n' l₁ l₂ m₁ m₂ V := h l₁ l₂

/-! ## structural rules -/

theorem OutRel.weaken {α β : Type} {V W : α → β → Prop} {m : Nat} {r₁ r₂}
    (h : OutRel pre top n' V r₁ r₂) (hV : ∀ a b, V a b → W a b) (hm : m ≤ n') :
    OutRel pre top m W r₁ r₂ := by
  obtain ⟨x₁, e₁⟩ := r₁
  obtain ⟨x₂, e₂⟩ := r₂
  cases x₁ with
  | error a => cases x₂ with
    | error b => exact h
    | ok b => exact h
  | ok a => cases x₂ with
    | error b => exact h
    | ok b => exact ⟨hV _ _ h.1, h.2.mono hm⟩

theorem SimAt.pure {α β : Type} {V : α → β → Prop} {a : α} {b : β} {l₁ l₂ : Local}
    (hn : n' ≤ n) (h : V a b) :
    SimAt pre top n n' l₁ l₂ (Pure.pure a : M α) (Pure.pure b : M β) V := by
  intro e₁ e₂ hr
  exact ⟨h, hr.mono hn⟩

theorem Sim.pure {α β : Type} {V : α → β → Prop} {a : α} {b : β} (hn : n' ≤ n) (h : V a b) :
    Sim pre top n n' (Pure.pure a : M α) (Pure.pure b : M β) V :=
  fun _ _ => SimAt.pure hn h

theorem SimAt.raise {α β : Type} {V : α → β → Prop} {x₁ x₂ : Exn} {l₁ l₂ : Local}
    (h : ExnRel pre x₁ x₂) :
    SimAt pre top n n' l₁ l₂ (M.raise x₁ : M α) (M.raise x₂ : M β) V := by
  intro e₁ e₂ hr
  exact ⟨h, hr.env⟩

theorem Sim.raise {α β : Type} {V : α → β → Prop} {x₁ x₂ : Exn} (h : ExnRel pre x₁ x₂) :
    Sim pre top n n' (M.raise x₁ : M α) (M.raise x₂ : M β) V :=
  fun _ _ => SimAt.raise h

theorem Sim.raise_eq {α β : Type} {V : α → β → Prop} (x : Exn) :
    Sim pre top n n' (M.raise x : M α) (M.raise x : M β) V := Sim.raise (Or.inl rfl)

theorem Sim.foreign {α β : Type} {V : α → β → Prop} (a b : String) :
    Sim pre top n n' (M.foreign a b : M α) (M.foreign a b : M β) V := Sim.raise_eq _

theorem SimAt.foreign {α β : Type} {V : α → β → Prop} {l₁ l₂ : Local} (a b : String) :
    SimAt pre top n n' l₁ l₂ (M.foreign a b : M α) (M.foreign a b : M β) V :=
  Sim.foreign a b l₁ l₂

theorem SimAt.bind {α β γ δ : Type} {m₁ : M α} {m₂ : M β} {f₁ : α → M γ} {f₂ : β → M δ}
    {V : α → β → Prop} {W : γ → δ → Prop} {mid : Nat} {l₁ l₂ : Local}
    (hm : SimAt pre top n mid l₁ l₂ m₁ m₂ V)
    (hf : ∀ a b, V a b → Sim pre top mid n' (f₁ a) (f₂ b) W) :
    SimAt pre top n n' l₁ l₂ (m₁ >>= f₁) (m₂ >>= f₂) W := by
  intro e₁ e₂ hr
  rw [M.run_bind, M.run_bind]
  have h := hm e₁ e₂ hr
  rcases h1 : M.run m₁ l₁ e₁ with ⟨r₁, e₁'⟩
  rcases h2 : M.run m₂ l₂ e₂ with ⟨r₂, e₂'⟩
  rw [h1, h2] at h
  cases r₁ with
  | error x₁ =>
    cases r₂ with
    | error x₂ => exact h
    | ok v₂ => exact h.elim
  | ok v₁ =>
    obtain ⟨a₁, l₁'⟩ := v₁
    cases r₂ with
    | error x₂ => exact h.elim
    | ok v₂ =>
      obtain ⟨a₂, l₂'⟩ := v₂
      exact hf a₁ a₂ h.1 l₁' l₂' e₁' e₂' h.2

theorem Sim.bind {α β γ δ : Type} {m₁ : M α} {m₂ : M β} {f₁ : α → M γ} {f₂ : β → M δ}
    {V : α → β → Prop} {W : γ → δ → Prop} {mid : Nat}
    (hm : Sim pre top n mid m₁ m₂ V)
    (hf : ∀ a b, V a b → Sim pre top mid n' (f₁ a) (f₂ b) W) :
    Sim pre top n n' (m₁ >>= f₁) (m₂ >>= f₂) W :=
  fun l₁ l₂ => SimAt.bind (hm l₁ l₂) hf

/-- bind of the same continuation after equal results -/
theorem Sim.bindEq {α γ δ : Type} {m₁ m₂ : M α} {f₁ : α → M γ} {f₂ : α → M δ}
    {W : γ → δ → Prop} {mid : Nat}
    (hm : Sim pre top n mid m₁ m₂ Eq)
    (hf : ∀ a, Sim pre top mid n' (f₁ a) (f₂ a) W) :
    Sim pre top n n' (m₁ >>= f₁) (m₂ >>= f₂) W :=
  Sim.bind hm (fun a b hab => by subst hab; exact hf a)

theorem SimAt.bindEq {α γ δ : Type} {m₁ m₂ : M α} {f₁ : α → M γ} {f₂ : α → M δ}
    {W : γ → δ → Prop} {mid : Nat} {l₁ l₂ : Local}
    (hm : SimAt pre top n mid l₁ l₂ m₁ m₂ Eq)
    (hf : ∀ a, Sim pre top mid n' (f₁ a) (f₂ a) W) :
    SimAt pre top n n' l₁ l₂ (m₁ >>= f₁) (m₂ >>= f₂) W :=
  SimAt.bind hm (fun a b hab => by subst hab; exact hf a)

theorem SimAt.mono {α β : Type} {m₁ : M α} {m₂ : M β} {V W : α → β → Prop} {a b : Nat}
    {l₁ l₂ : Local}
    (h : SimAt pre top a b l₁ l₂ m₁ m₂ V) (hn : a ≤ n) (hn' : n' ≤ b) (hV : ∀ x y, V x y → W x y) :
    SimAt pre top n n' l₁ l₂ m₁ m₂ W := by
  intro e₁ e₂ hr
  exact (h e₁ e₂ (hr.mono hn)).weaken hV hn'

theorem Sim.mono {α β : Type} {m₁ : M α} {m₂ : M β} {V W : α → β → Prop} {a b : Nat}
    (h : Sim pre top a b m₁ m₂ V) (hn : a ≤ n) (hn' : n' ≤ b) (hV : ∀ x y, V x y → W x y) :
    Sim pre top n n' m₁ m₂ W :=
  fun l₁ l₂ => (h l₁ l₂).mono hn hn' hV

theorem Sim.lvl {α β : Type} {m₁ : M α} {m₂ : M β} {V : α → β → Prop} {a b : Nat}
    (h : Sim pre top a b m₁ m₂ V) (hn : a ≤ n) (hn' : n' ≤ b) :
    Sim pre top n n' m₁ m₂ V := h.mono hn hn' (fun _ _ h => h)

theorem Sim.weaken {α β : Type} {m₁ : M α} {m₂ : M β} {V W : α → β → Prop}
    (h : Sim pre top n n' m₁ m₂ V) (hV : ∀ x y, V x y → W x y) :
    Sim pre top n n' m₁ m₂ W := h.mono (Nat.le_refl _) (Nat.le_refl _) hV

/-- the relation on the results of two loop bodies -/
def SumRel {σ τ α β : Type} (S : σ → τ → Prop) (V : α → β → Prop) (x : σ ⊕ α) (y : τ ⊕ β) : Prop :=
  match x, y with
  | .inl s', .inl t' => S s' t'
  | .inr a, .inr b => V a b
  | _, _ => False

/-- lock-step loops -/
theorem Sim.loop {σ τ α β : Type} {site : String} {b₁ : σ → M (σ ⊕ α)} {b₂ : τ → M (τ ⊕ β)}
    {S : σ → τ → Prop} {V : α → β → Prop}
    (hb : ∀ s t, S s t → Sim pre top n n (b₁ s) (b₂ t) (SumRel S V)) :
    ∀ (fuel : Nat) (s : σ) (t : τ), S s t →
      Sim pre top n n (M.loop site b₁ fuel s) (M.loop site b₂ fuel t) V
  | 0, s, t, _ => Sim.raise_eq _
  | fuel + 1, s, t, hst => by
    show Sim pre top n n (b₁ s >>= _) (b₂ t >>= _) V
    refine Sim.bind (hb s t hst) ?_
    intro x y hxy
    cases x with
    | inl s' =>
      cases y with
      | inl t' => exact Sim.loop hb fuel s' t' hxy
      | inr b => exact hxy.elim
    | inr a =>
      cases y with
      | inl t' => exact hxy.elim
      | inr b => exact Sim.pure (Nat.le_refl _) hxy

/-- the relation on loop results for a loop state compared by equality -/
abbrev SumEq {σ α β : Type} (V : α → β → Prop) : σ ⊕ α → σ ⊕ β → Prop := SumRel Eq V

theorem Sim.loopEq {σ α β : Type} {site : String} {b₁ : σ → M (σ ⊕ α)} {b₂ : σ → M (σ ⊕ β)}
    {V : α → β → Prop} (hb : ∀ s, Sim pre top n n (b₁ s) (b₂ s) (SumEq V)) (fuel : Nat) (s : σ) :
    Sim pre top n n (M.loop site b₁ fuel s) (M.loop site b₂ fuel s) V :=
  Sim.loop (S := Eq) (fun s t hst => by subst hst; exact hb s) fuel s s rfl

/-- equal results of a sum type are `SumEq Eq` -/
theorem sumEq_of_eq {σ α : Type} {x y : σ ⊕ α} (h : x = y) : SumEq Eq x y := by
  subst h; cases x <;> rfl

/-- `get >>= k`: the continuations are compared at the two related states read -/
theorem Sim.get_bind {α β : Type} {k₁ : Local → M α} {k₂ : Local → M β} {V : α → β → Prop}
    (h : ∀ l₁ l₂, LocRel (kOf pre top) l₁ l₂ → SimAt pre top n n' l₁ l₂ (k₁ l₁) (k₂ l₂) V) :
    Sim pre top n n' (get >>= k₁) (get >>= k₂) V := by
  intro l₁ l₂ e₁ e₂ hr
  exact h l₁ l₂ hr.loc e₁ e₂ hr

theorem Sim.getThe_bind {α β : Type} {k₁ : Local → M α} {k₂ : Local → M β} {V : α → β → Prop}
    (h : ∀ l₁ l₂, LocRel (kOf pre top) l₁ l₂ → SimAt pre top n n' l₁ l₂ (k₁ l₁) (k₂ l₂) V) :
    Sim pre top n n' (getThe Local >>= k₁) (getThe Local >>= k₂) V := Sim.get_bind h

/-- the states reached are described by the caller -/
theorem SimAt.set {l₁ l₂ l₁' l₂' : Local}
    (h : ∀ e₁ e₂, Rel pre top n l₁ e₁ l₂ e₂ → Rel pre top n' l₁' e₁ l₂' e₂) :
    SimAt pre top n n' l₁ l₂ (set l₁' : M Unit) (set l₂' : M Unit) (fun _ _ => True) := by
  intro e₁ e₂ hr
  exact ⟨True.intro, h e₁ e₂ hr⟩

theorem Sim.modify {f₁ f₂ : Local → Local}
    (h : ∀ l₁ e₁ l₂ e₂, Rel pre top n l₁ e₁ l₂ e₂ → Rel pre top n' (f₁ l₁) e₁ (f₂ l₂) e₂) :
    Sim pre top n n' (modify f₁ : M Unit) (modify f₂ : M Unit) (fun _ _ => True) := by
  intro l₁ l₂ e₁ e₂ hr
  exact ⟨True.intro, h l₁ e₁ l₂ e₂ hr⟩

/-- a state update that keeps tape, look-ahead slot and options -/
theorem Rel.update {l₁ l₂ l₁' l₂' : Local} {e₁ e₂ : Env} (hr : Rel pre top n l₁ e₁ l₂ e₂)
    (hloc : LocRel (kOf pre top) l₁' l₂') (ht : l₁'.tape = l₁.tape)
    (he : l₁'.eolLookahead = l₁.eolLookahead) (ho : l₁'.opts = l₁.opts) :
    Rel pre top n l₁' e₁ l₂' e₂ :=
  { env := hr.env, loc := hloc, mode := by rw [ht]; exact hr.mode, room := hr.room,
    eolOK := by rw [he]; exact hr.eolOK,
    proc := by have := hr.proc; unfold proceedOf at this ⊢; rw [ho]; exact this }

/-- the unary logic can be used on the first run -/
theorem Sim.and_sat {α β : Type} {m₁ : M α} {m₂ : M β} {V : α → β → Prop} {P : α → Prop}
    (h : Sim pre top n n' m₁ m₂ V) (hs : M.Sat m₁ P) :
    Sim pre top n n' m₁ m₂ (fun a b => V a b ∧ P a) := by
  intro l₁ l₂ e₁ e₂ hr
  have h1 := h l₁ l₂ e₁ e₂ hr
  have h2 := hs l₁ e₁
  rcases r1 : M.run m₁ l₁ e₁ with ⟨x₁, e₁'⟩
  rcases r2 : M.run m₂ l₂ e₂ with ⟨x₂, e₂'⟩
  rw [r1, r2] at h1
  rw [r1] at h2
  cases x₁ with
  | error a => cases x₂ with
    | error b => exact h1
    | ok b => exact h1
  | ok a => cases x₂ with
    | error b => exact h1
    | ok b => exact ⟨⟨h1.1, h2⟩, h1.2⟩

/-! ## result-dependent exit levels (for loops whose exit path lowers the level) -/

def OutRelL {α β : Type} (pre : Str) (top : Bool) (L : α → Nat) (V : α → β → Prop) :
    Except Exn (α × Local) × Env → Except Exn (β × Local) × Env → Prop
  | (.ok (a₁, l₁), e₁), (.ok (a₂, l₂), e₂) => V a₁ a₂ ∧ Rel pre top (L a₁) l₁ e₁ l₂ e₂
  | (.error x₁, e₁), (.error x₂, e₂) => ExnRel pre x₁ x₂ ∧ EnvRel pre e₁ e₂
  | _, _ => False

/-- `Sim` with an exit level that depends on the result of the first run -/
def SimL {α β : Type} (pre : Str) (top : Bool) (n : Nat) (L : α → Nat) (m₁ : M α) (m₂ : M β)
    (V : α → β → Prop) : Prop :=
  ∀ l₁ l₂ e₁ e₂, Rel pre top n l₁ e₁ l₂ e₂ → OutRelL pre top L V (M.run m₁ l₁ e₁) (M.run m₂ l₂ e₂)

theorem SimL.of_sim {α β : Type} {m₁ : M α} {m₂ : M β} {V : α → β → Prop} {L : α → Nat}
    (h : Sim pre top n n' m₁ m₂ V) (hL : ∀ a, L a ≤ n') : SimL pre top n L m₁ m₂ V := by
  intro l₁ l₂ e₁ e₂ hr
  have h1 := h l₁ l₂ e₁ e₂ hr
  rcases r1 : M.run m₁ l₁ e₁ with ⟨x₁, e₁'⟩
  rcases r2 : M.run m₂ l₂ e₂ with ⟨x₂, e₂'⟩
  rw [r1, r2] at h1
  cases x₁ with
  | error a => cases x₂ with
    | error b => exact h1
    | ok b => exact h1
  | ok a => cases x₂ with
    | error b => exact h1
    | ok b => exact ⟨h1.1, h1.2.mono (hL _)⟩

theorem SimL.to_sim {α β : Type} {m₁ : M α} {m₂ : M β} {V : α → β → Prop}
    (h : SimL pre top n (fun _ => n') m₁ m₂ V) : Sim pre top n n' m₁ m₂ V := by
  intro l₁ l₂ e₁ e₂ hr
  have h1 := h l₁ l₂ e₁ e₂ hr
  rcases r1 : M.run m₁ l₁ e₁ with ⟨x₁, e₁'⟩
  rcases r2 : M.run m₂ l₂ e₂ with ⟨x₂, e₂'⟩
  rw [r1, r2] at h1
  cases x₁ with
  | error a => cases x₂ with
    | error b => exact h1
    | ok b => exact h1
  | ok a => cases x₂ with
    | error b => exact h1
    | ok b => exact h1

theorem SimL.pure {α β : Type} {V : α → β → Prop} {L : α → Nat} {a : α} {b : β}
    (hn : L a ≤ n) (h : V a b) :
    SimL pre top n L (Pure.pure a : M α) (Pure.pure b : M β) V := by
  intro l₁ l₂ e₁ e₂ hr
  exact ⟨h, hr.mono hn⟩

theorem SimL.bind {α β γ δ : Type} {m₁ : M α} {m₂ : M β} {f₁ : α → M γ} {f₂ : β → M δ}
    {V : α → β → Prop} {W : γ → δ → Prop} {mid : Nat} {L : γ → Nat}
    (hm : Sim pre top n mid m₁ m₂ V)
    (hf : ∀ a b, V a b → SimL pre top mid L (f₁ a) (f₂ b) W) :
    SimL pre top n L (m₁ >>= f₁) (m₂ >>= f₂) W := by
  intro l₁ l₂ e₁ e₂ hr
  rw [M.run_bind, M.run_bind]
  have h := hm l₁ l₂ e₁ e₂ hr
  rcases h1 : M.run m₁ l₁ e₁ with ⟨r₁, e₁'⟩
  rcases h2 : M.run m₂ l₂ e₂ with ⟨r₂, e₂'⟩
  rw [h1, h2] at h
  cases r₁ with
  | error x₁ =>
    cases r₂ with
    | error x₂ => exact h
    | ok v₂ => exact h.elim
  | ok v₁ =>
    obtain ⟨a₁, l₁'⟩ := v₁
    cases r₂ with
    | error x₂ => exact h.elim
    | ok v₂ =>
      obtain ⟨a₂, l₂'⟩ := v₂
      exact hf a₁ a₂ h.1 l₁' l₂' e₁' e₂' h.2

theorem SimL.bindEq {α γ δ : Type} {m₁ m₂ : M α} {f₁ : α → M γ} {f₂ : α → M δ}
    {W : γ → δ → Prop} {mid : Nat} {L : γ → Nat}
    (hm : Sim pre top n mid m₁ m₂ Eq)
    (hf : ∀ a, SimL pre top mid L (f₁ a) (f₂ a) W) :
    SimL pre top n L (m₁ >>= f₁) (m₂ >>= f₂) W :=
  SimL.bind hm (fun a b hab => by subst hab; exact hf a)

theorem SimL.bindU {γ δ : Type} {m₁ m₂ : M Unit} {f₁ : Unit → M γ} {f₂ : Unit → M δ}
    {W : γ → δ → Prop} {mid : Nat} {L : γ → Nat}
    (hm : Sim pre top n mid m₁ m₂ (fun _ _ => True))
    (hf : SimL pre top mid L (f₁ ()) (f₂ ()) W) :
    SimL pre top n L (m₁ >>= f₁) (m₂ >>= f₂) W :=
  SimL.bind hm (fun a b _ => hf)

theorem SimL.ite {α β : Type} {c : Prop} [Decidable c] {a₁ b₁ : M α} {a₂ b₂ : M β}
    {V : α → β → Prop} {L : α → Nat}
    (ha : c → SimL pre top n L a₁ a₂ V) (hb : ¬ c → SimL pre top n L b₁ b₂ V) :
    SimL pre top n L (if c then a₁ else b₁) (if c then a₂ else b₂) V := by
  by_cases h : c
  · rw [if_pos h, if_pos h]; exact ha h
  · rw [if_neg h, if_neg h]; exact hb h

theorem outRel_toL {α β : Type} {V : α → β → Prop} {r₁ : Except Exn (α × Local) × Env}
    {r₂ : Except Exn (β × Local) × Env} (h : OutRel pre top n' V r₁ r₂) :
    OutRelL pre top (fun _ => n') V r₁ r₂ := by
  obtain ⟨y₁, f₁⟩ := r₁
  obtain ⟨y₂, f₂⟩ := r₂
  cases y₁ <;> cases y₂ <;> exact h

/-- the exit levels of a loop body: `n` to iterate, `n'` to leave -/
def loopLvl {σ α : Type} (n n' : Nat) : σ ⊕ α → Nat
  | .inl _ => n
  | .inr _ => n'

/-- lock-step loops whose exit path ends at another level -/
theorem Sim.loopL {σ τ α β : Type} {site : String} {b₁ : σ → M (σ ⊕ α)} {b₂ : τ → M (τ ⊕ β)}
    {S : σ → τ → Prop} {V : α → β → Prop}
    (hb : ∀ s t, S s t → SimL pre top n (loopLvl n n') (b₁ s) (b₂ t) (SumRel S V)) :
    ∀ (fuel : Nat) (s : σ) (t : τ), S s t →
      Sim pre top n n' (M.loop site b₁ fuel s) (M.loop site b₂ fuel t) V
  | 0, s, t, _ => Sim.raise_eq _
  | fuel + 1, s, t, hst => by
    refine SimL.to_sim ?_
    show SimL pre top n _ (b₁ s >>= _) (b₂ t >>= _) V
    intro l₁ l₂ e₁ e₂ hr
    rw [M.run_bind, M.run_bind]
    have h := hb s t hst l₁ l₂ e₁ e₂ hr
    rcases h1 : M.run (b₁ s) l₁ e₁ with ⟨r₁, e₁'⟩
    rcases h2 : M.run (b₂ t) l₂ e₂ with ⟨r₂, e₂'⟩
    rw [h1, h2] at h
    cases r₁ with
    | error x₁ =>
      cases r₂ with
      | error x₂ => exact h
      | ok v₂ => exact h.elim
    | ok v₁ =>
      obtain ⟨a₁, l₁'⟩ := v₁
      cases r₂ with
      | error x₂ => exact h.elim
      | ok v₂ =>
        obtain ⟨a₂, l₂'⟩ := v₂
        obtain ⟨hv, hrel⟩ := h
        cases a₁ with
        | inl s' =>
          cases a₂ with
          | inl t' =>
            have := Sim.loopL (site := site) hb fuel s' t' hv l₁' l₂' e₁' e₂' hrel
            exact outRel_toL this
          | inr b => exact hv.elim
        | inr a =>
          cases a₂ with
          | inl t' => exact hv.elim
          | inr b => exact ⟨hv, hrel⟩

/-- loops whose first iteration starts from another level -/
theorem Sim.loopFrom {σ τ α β : Type} {site : String} {b₁ : σ → M (σ ⊕ α)} {b₂ : τ → M (τ ⊕ β)}
    {S : σ → τ → Prop} {V : α → β → Prop} {n₀ : Nat}
    (hb0 : ∀ s t, S s t → Sim pre top n₀ n (b₁ s) (b₂ t) (SumRel S V))
    (hb : ∀ s t, S s t → Sim pre top n n (b₁ s) (b₂ t) (SumRel S V)) :
    ∀ (fuel : Nat) (s : σ) (t : τ), S s t →
      Sim pre top n₀ n (M.loop site b₁ fuel s) (M.loop site b₂ fuel t) V
  | 0, s, t, _ => Sim.raise_eq _
  | fuel + 1, s, t, hst => by
    show Sim pre top n₀ n (b₁ s >>= _) (b₂ t >>= _) V
    refine Sim.bind (hb0 s t hst) ?_
    intro x y hxy
    cases x with
    | inl s' =>
      cases y with
      | inl t' => exact Sim.loop hb fuel s' t' hxy
      | inr b => exact hxy.elim
    | inr a =>
      cases y with
      | inl t' => exact hxy.elim
      | inr b => exact Sim.pure (Nat.le_refl _) hxy

/-! ## readers of the token history -/

theorem Neutral.is_eq {t : Token} (h : Neutral t) {ty : TokType} (hty : ty ≠ .NEWLINE) :
    t.is ty = false := by
  unfold Token.is
  rcases h with ⟨h1, _⟩ | ⟨h1, _⟩
  · rw [h1]; rfl
  · rw [h1]
    simp only [beq_eq_false_iff_ne, ne_eq, Option.some.injEq]
    exact fun h => hty h.symm

/-- `tok.ttype == X` for any `X` but NEWLINE -/
theorem HEq.is_eq {t₁ t₂ : Token} (h : HEq t₁ t₂) {ty : TokType} (hty : ty ≠ .NEWLINE) :
    t₂.is ty = t₁.is ty := by
  rcases h with ⟨h1, _⟩ | ⟨h1, h2⟩
  · unfold Token.is; rw [h1]
  · rw [h1.is_eq hty, h2.is_eq hty]

/-- `tok.value == v` for any `v` but `None` and `"\n"` -/
theorem HEq.value_beq {t₁ t₂ : Token} (h : HEq t₁ t₂) {v : TVal} (h1 : v ≠ .none)
    (h2 : v ≠ .str ['\n']) : (t₂.value == v) = (t₁.value == v) := by
  rcases h with ⟨_, hv⟩ | ⟨ha, hb⟩
  · rw [hv]
  · have : ∀ t : Token, Neutral t → (t.value == v) = false := by
      intro t ht
      rcases ht with ⟨_, hv⟩ | ⟨_, hv⟩ <;> rw [hv] <;> simp only [beq_eq_false_iff_ne, ne_eq]
      · exact fun h => h1 h.symm
      · exact fun h => h2 h.symm
    rw [this _ ha, this _ hb]

theorem Neutral.rwa {t : Token} (h : Neutral t) (l : Local) : reservedWordAcceptable l t = true := by
  unfold reservedWordAcceptable
  rcases h with ⟨h1, h2⟩ | ⟨h1, h2⟩
  · simp [Token.truthy, h1, h2]
  · simp [h1, h2, reservedChars]

/-- `_reserved_word_acceptable(tok)` -/
theorem HEq.rwa {k : Nat} {l₁ l₂ : Local} (hl : LocRel k l₁ l₂) {t₁ t₂ : Token} (h : HEq t₁ t₂) :
    reservedWordAcceptable l₂ t₂ = reservedWordAcceptable l₁ t₁ := by
  rcases h with ⟨h1, h2⟩ | ⟨ha, hb⟩
  · unfold reservedWordAcceptable Token.truthy
    rw [h1, h2, hl.last.is_eq (by decide), hl.before.is_eq (by decide)]
  · rw [ha.rwa, hb.rwa]

theorem HEq.ctp {k : Nat} {l₁ l₂ : Local} (hl : LocRel k l₁ l₂) {t₁ t₂ : Token} (h : HEq t₁ t₂) :
    commandTokenPosition l₂ t₂ = commandTokenPosition l₁ t₁ := by
  unfold commandTokenPosition
  rw [h.rwa hl, h.is_eq (by decide), h.is_eq (by decide), h.is_eq (by decide),
    h.is_eq (by decide), hl.ps]

theorem HEq.aa {k : Nat} {l₁ l₂ : Local} (hl : LocRel k l₁ l₂) {t₁ t₂ : Token} (h : HEq t₁ t₂) :
    assignmentAcceptable l₂ t₂ = assignmentAcceptable l₁ t₁ := by
  unfold assignmentAcceptable
  rw [h.ctp hl, hl.ps]

end Bashlex.C14
