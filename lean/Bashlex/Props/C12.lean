/-
  Property C12 at model level, for all inputs and options:
  every node of every AST returned by `parse` / `parsesingle` conforms to the schema of its kind
  (`Spec.schemaOK`), up to the known defects `C12_known` (two signatures, `Props/C12/Tree.lean`)
  and the open family `C12_multiBang` (a pipeline with a repeated `!`); all three concern the
  *pipeline* clause, every other clause holds without exception (`C12_only_pipelines`).
  Witness inputs are kernel-checked in `Props/C12/Witness.lean`.

  Architecture (robust against renumbering of productions):
    Tree.lean     `TreeOK`, invariance under `mapPos`/`shift`/`resolve`
    Sorts.lean    sorts of semantic values, `sortOfSymbol` (by symbol *name*), `absAction`
    Grammar.lean  `grammar_ok`, `accept_ok`: kernel `decide` on the generated tables
    Build.lean    constructor lemmas for `TreeOK`
    Actions.lean  `absAction_sound`: one lemma per action function of parser.py
    Expand.lean   word expansion under a conformant nested parser
    Tokens.lean   `sat_nextToken`: the real tokenizer delivers type/value-consistent tokens
    LR/SoundAcc.lean  `run_sound_acc`: `run_sound` plus "the root of an accepted tree is a
                  symbol at which accepting is allowed"
-/
import Bashlex.Props.C12.Expand
import Bashlex.Props.C12.Grammar
import Bashlex.Props.C12.Tokens
import Bashlex.LR.Real

namespace Bashlex.C12
open Bashlex Bashlex.Spec Bashlex.Node Bashlex.M Bashlex.LR
set_option linter.unusedSimpArgs false
set_option linter.unusedVariables false

theorem forall2_map_left {α β γ} {R : β → γ → Prop} {f : α → β} :
    ∀ {l₁ : List α} {l₂ : List γ}, Forall2 (fun a c => R (f a) c) l₁ l₂ → Forall2 R (l₁.map f) l₂ := by
  intro l₁ l₂ h
  induction h with
  | nil => exact .nil
  | cons h1 _ ih => exact .cons h1 ih

theorem action_unknown {np : NestedParse} {args : List SVal} :
    Sat (action np "" args) (fun _ => False) := by
  unfold action
  refine Sat.bind (P := fun _ => False) ?_ (fun _ h => h.elim)
  unfold actionCore; simp only []
  exact Sat.foreign trivial

/-- the hooks of the real parser respect the value invariant -/
theorem hooks_ok {np : NestedParse} (hT : Sat nextToken TokWF) (hnp : NPOK np) :
    HooksAcc realTables (lrHooks np) VI AccSym (fun _ => True) := by
  refine ⟨?_, ?_, fun la => Sat.trivial _⟩
  · show Sat (nextToken >>= fun t => pure (symOfTok t, SVal.tok t)) _
    refine Sat.bind hT (fun t ht => Sat.pure ?_)
    show HasSort (sortOfSymbol (symOfTok t)) (.tok t)
    unfold symOfTok
    cases hty : t.ttype with
    | none => simp only []; rw [err_sort]; exact ⟨t, rfl, hty, ht⟩
    | some ty => simp only []; rw [tok_sorts]; exact ⟨t, rfl, hty, ht⟩
  · intro p lhs rhs args hp hargs
    have hp' : Gen.prodTable[p]? = some (lhs, rhs) := hp
    have hlt : p < Gen.prodFuncs.length := by
      rw [prodFuncs_length]
      exact (List.getElem?_eq_some_iff.mp hp').1
    have hf : Gen.prodFuncs[p]? = some (Gen.prodFuncs.getD p "") := by
      simp [List.getD_eq_getElem?_getD, List.getElem?_eq_getElem hlt]
    have hz : (List.zip Gen.prodFuncs Gen.prodTable)[p]? = some (Gen.prodFuncs.getD p "", (lhs, rhs)) :=
      List.getElem?_zip_eq_some.mpr ⟨hf, hp'⟩
    have hmem := List.mem_of_getElem? hz
    have hg := grammar_ok
    unfold grammarCheck at hg
    have := List.all_eq_true.mp hg _ hmem
    simp only [Bool.or_eq_true, beq_iff_eq] at this
    show Sat (action np (Gen.prodFuncs.getD p "") args) _
    rcases this with he | hab
    · rw [he]
      exact action_unknown.weaken (fun _ h => h.elim) (fun _ h => h)
    · exact sat_action_of_core (absAction_sound (sat_expandword hnp) hab (forall2_map_left hargs))

theorem accept_sym : ∀ s la, s ∈ realRaw.reach → realTables.action s la = some .accept →
    AccSym (realRaw.accOf s) :=
  fun s la hs ha => Raw.checkAccept_sound accept_ok s la hs ha

theorem top_resolve (st : List RedirCell) {n : Node} (h : InCls .top n) :
    InCls .top (resolve st n) := by
  refine ⟨treeOK_resolve st n h.1, ?_⟩
  have h1 : isCommandLike (resolve st n) = isCommandLike n := by
    rw [← isCommandLike_norm, norm_resolve, isCommandLike_norm]
  have h2 : isListN (resolve st n) = isListN n := by
    have : ∀ a, isListN (norm a) = isListN a := fun a => by cases a <;> rfl
    rw [← this, norm_resolve, this]
  rw [h1, h2]; exact h.2

/-- what one parser run returns, at every nesting depth -/
theorem parserRun_ok (hT : Sat nextToken TokWF) :
    ∀ d, Sat (parserRun d) (fun r => ∀ n, r = some n → InCls .top n) := by
  intro d
  induction d with
  | zero => exact Sat.raise trivial
  | succ d ih =>
    unfold parserRun
    simp only []
    have hnp : NPOK (fun string dolparen => do
        let outer ← get
        let ps := if dolparen then { outer.ps with cmdsubst := true, eoftoken := true } else outer.ps
        set ({ tape := some (Tape.ofInput string), opts := some (true, false)
               lastReadToken := outer.lastReadToken, tokenBeforeThat := outer.tokenBeforeThat
               twoTokensAgo := outer.twoTokensAgo, ps := ps
               eofToken := if dolparen then some rparenEofToken else none
               limit := outer.limit.map (· - 1) } : Local)
        let r ← parserRun d
        let inner ← get
        set { outer with ps := inner.ps }
        pure r) := by
      intro s b
      refine Sat.bind_any (fun _ => Sat.bind_any (fun _ => Sat.bind ih (fun r hr => ?_)))
      exact Sat.bind_any (fun _ => Sat.bind_any (fun _ => Sat.pure hr))
    refine Sat.bind ((run_sound_acc real_WF accept_sym _ (hooks_ok hT hnp) _).weaken
      (fun _ h => h) (fun _ _ => trivial)) (fun res hres => ?_)
    refine Sat.bind_any (fun l => ?_)
    split
    · rename_i n _ _ _
      refine Sat.pure ?_
      intro m hm
      cases hm
      obtain ⟨hv, hacc⟩ := hres
      refine top_resolve _ ?_
      unfold VI at hv
      unfold AccSym accSort at hacc
      simp only [Bool.or_eq_true, beq_iff_eq] at hacc
      rcases hacc with hacc | hacc
      · rw [hacc] at hv
        rcases hv with hv | ⟨n', hn', hin⟩
        · cases hv
        · cases hn'; exact hin
      · rw [hacc] at hv
        obtain ⟨n', hn', hin⟩ := hv
        cases hn'; exact hin
    · exact Sat.pure (fun n hn => by cases hn)

/-! ## the entry points -/

theorem runParser_ok (hT : Sat nextToken TokWF) {s : Str} {o : Opts} {t : List Char} {n : Node}
    (h : (runParser s o t).1 = .ok (some n)) : InCls .top n := by
  unfold runParser at h
  simp only [] at h
  rcases hrun : (parserRun maxDepth).run { limit := o.limit }
      { tape := Tape.ofInput s, strict := o.strict, proceed := o.proceed, touched := t } with ⟨r, env'⟩
  rw [hrun] at h
  simp only [] at h
  cases r with
  | error x => cases h
  | ok v =>
    obtain ⟨a, l'⟩ := v
    have ha : a = some n := by
      simp only [Except.map] at h
      cases h; rfl
    exact (parserRun_ok hT maxDepth).ok hrun n ha

theorem parseLoop_ok (hT : Sat nextToken TokWF) (s : Str) (o : Opts) :
    ∀ (fuel index : Nat) (parts : List Node) (touched : List Char) (ps : List Node),
      (∀ n, n ∈ parts → TreeOK n) → (parseLoop s o fuel index parts touched).1 = .ok ps →
      ∀ n, n ∈ ps → TreeOK n := by
  intro fuel
  induction fuel with
  | zero => intro index parts touched ps _ h; simp [parseLoop] at h
  | succ fuel ih =>
    intro index parts touched ps hparts h
    unfold parseLoop at h
    split at h
    · rcases hr : runParser (s.drop index) o touched with ⟨r, t⟩
      rw [hr] at h
      cases r with
      | error e => simp only [] at h; cases h
      | ok v =>
        cases v with
        | none => simp only [] at h; cases h; exact hparts
        | some part =>
          simp only [] at h
          have hp : InCls .top part := runParser_ok hT (by rw [hr])
          refine ih _ _ _ ps ?_ h
          intro n hn
          rcases List.mem_append.mp hn with hn | hn
          · exact hparts n hn
          · simp at hn; subst hn; exact treeOK_shift _ hp.1
    · cases h; exact hparts

/-- C12 for `parse`, in terms of `TreeOK`, for every token source satisfying `TokWF` -/
theorem parse_treeOK (hT : Sat nextToken TokWF) (s : Str) (o : Opts) (parts : List Node)
    (h : (parse s o).1 = .parts parts) : ∀ n, n ∈ parts → TreeOK n := by
  unfold parse at h
  rcases hr : runParser s o [] with ⟨r, t⟩
  rw [hr] at h
  cases r with
  | error e => simp only [] at h; cases h
  | ok v =>
    cases v with
    | none => simp only [] at h; cases h; intro n hn; cases hn
    | some first =>
      simp only [] at h
      have hp : InCls .top first := runParser_ok hT (by rw [hr])
      rcases hl : parseLoop s o (s.length + 1) (max (nextIndex first) 1) [first] t with ⟨r2, t2⟩
      rw [hl] at h
      cases r2 with
      | error e => simp only [] at h; cases h
      | ok ps =>
        simp only [] at h
        cases h
        exact parseLoop_ok hT s o (s.length + 1) (max (nextIndex first) 1) [first] t _
          (by intro n hn; simp at hn; subst hn; exact hp.1)
          (by rw [hl])

theorem parsesingle_treeOK (hT : Sat nextToken TokWF) (s : Str) (o : Opts) (n : Node)
    (h : (parsesingle s o).1 = .single (some n)) : TreeOK n := by
  unfold parsesingle at h
  rcases hr : runParser s o [] with ⟨r, t⟩
  rw [hr] at h
  cases r with
  | error e => simp only [] at h; cases h
  | ok v =>
    simp only [] at h
    cases h
    exact (runParser_ok hT (by rw [hr])).1

/-! ## C12 -/

/-- the open family of signatures of a pipeline with a *repeated* `!`: the kinds after the first
    `!` start with `reservedword` (witnesses in `Tree.lean`: `"! ! a"`, `"! ! ! a | b"`, `"! ! ;"`) -/
def C12_multiBang (v : String) : Prop :=
  ∃ ks : List String, v = s!"pipeline-not-alternating:{"reservedword" :: ks}"

theorem known_iff {v : String} (h : Known v) : v ∈ C12_known ∨ C12_multiBang v := by
  rcases h with h | ⟨b, r, hb, rfl⟩
  · exact Or.inl h
  · right
    refine ⟨r.map Node.kind, ?_⟩
    have : b.kind = "reservedword" := by cases b <;> simp_all [isBang, Node.kind]
    show pipeSig _ = pipeSig _
    simp [this]

/-- **C12 (model level), `parse`**: for every input and all options, every violated schema clause
    of every returned tree is one of the known defects -/
theorem C12_partial (s : Str) (o : Opts) (parts : List Node) :
    (parse s o).1 = .parts parts →
    ∀ n ∈ parts, ∀ v ∈ Spec.schemaOK n, v ∈ C12_known ∨ C12_multiBang v := by
  intro h n hn v hv
  exact known_iff (schemaOK_of_treeOK (parse_treeOK sat_nextToken s o parts h n hn) v hv)

/-- **C12 (model level), `parsesingle`** -/
theorem C12_partial_single (s : Str) (o : Opts) (n : Node) :
    (parsesingle s o).1 = .single (some n) →
    ∀ v ∈ Spec.schemaOK n, v ∈ C12_known ∨ C12_multiBang v := by
  intro h v hv
  exact known_iff (schemaOK_of_treeOK (parsesingle_treeOK sat_nextToken s o n h) v hv)

/-- **all clauses but the pipeline clause hold without exception**: in every returned tree, a
    node that is not a pipeline has no schema violation at all -/
theorem C12_only_pipelines (s : Str) (o : Opts) (parts : List Node)
    (h : (parse s o).1 = .parts parts) :
    ∀ n ∈ parts, ∀ m ∈ n.preorder, (∀ p ps, m ≠ .pipeline p ps) → Spec.localSchemaViol m = [] := by
  intro n hn m hm hnp
  rcases ((parse_treeOK sat_nextToken s o parts h n hn) m hm).1 with h | ⟨⟨p, ps, rfl⟩, _⟩
  · exact h
  · exact absurd rfl (hnp p ps)

end Bashlex.C12

#print axioms Bashlex.C12.C12_partial
#print axioms Bashlex.C12.C12_partial_single
#print axioms Bashlex.C12.C12_only_pipelines
