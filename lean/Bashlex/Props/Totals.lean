/-
  The total theorems of C03 / C04 / C05 / C16 with the hypothesis `RootEnds` DISCHARGED
  (`Props/C03/RootEndsProof.lean`: **`rootEnds : RootEnds`**, no hypotheses):

  * the `_conditional` theorems (hypothesis `RootEnds`) become theorems without hypothesis;
  * the `_checked` theorems lose the per-input condition `rootEndsChecked s o`
    (`rootEndsChecked_of_rootEnds`).
-/
import Bashlex.Props.C03.RootEndsProof
import Bashlex.Props.C03.RootEnds
import Bashlex.Props.C05Checked
import Bashlex.Props.C05Chars
import Bashlex.Props.C16.Stable
import Bashlex.Props.C04Words

namespace Bashlex.Totals
open Bashlex

/-- the per-input check of `Props/C03/RootEnds.lean` never fires -/
theorem rootEndsChecked_all (s : Str) (o : Opts) (parts : List Node)
    (h : (parse s o).1 = .parts parts) : C03.rootEndsChecked s o = true :=
  C03.rootEndsChecked_of_rootEnds C03.rootEnds s o parts h

/-- **C03** (all inputs, all options): every signature `Spec.spansWF` raises on a tree of `parse`
    is known (`+heredoc`, `+emptydesc`, `empty-span:reservedword`) -/
theorem C03_total (s : Str) (o : Opts) (parts : List Node)
    (h : (parse s o).1 = .parts parts) :
    ∀ n ∈ parts, ∀ v ∈ Spec.spansWF s.length n, C03.C03_known v = true :=
  C03.C03_total_conditional C03.rootEnds s o parts h

theorem C03_total_single (s : Str) (o : Opts) (n : Node)
    (h : (parsesingle s o).1 = .single (some n)) :
    ∀ v ∈ Spec.spansWF s.length n, C03.C03_known v = true :=
  C03.C03_total_single_conditional C03.rootEnds s o n h

/-- **C05**, token level -/
theorem C05_total (s : Str) (o : Opts) (parts : List Node)
    (h : (parse s o).1 = .parts parts) : C05.PartsFrom C05.TLog s 0 parts :=
  C05.C05_total_conditional C03.rootEnds s o parts h

theorem C05_total_single (s : Str) (o : Opts) (n : Node)
    (h : (parsesingle s o).1 = .single (some n)) : C05.RunOK C05.TLog s n :=
  C05.C05_total_single_conditional C03.rootEnds s o n h

/-- **C05**, character level (`C05_chars_checked` without the per-input condition) -/
theorem C05_chars_total (s : Str) (o : Opts) (parts : List Node)
    (hlen : s.length + 1 < 1073741824) (h : (parse s o).1 = .parts parts) :
    ∀ part ∈ parts, ∃ k n, k ≤ s.length ∧ part = n.shift k ∧
      Spec.leaves part = (Spec.leaves n).map (C05.shL k) ∧
      C05.CharsOK (Tape.ofInput (s.drop k)).line n :=
  C05.C05_chars_checked s o parts hlen (rootEndsChecked_all s o parts h) h

/-- **C04**: every signature of `Spec.textOK` is a recorded defect or falls under `Unlinked'` -/
theorem C04_total (s : Str) (o : Opts) (parts : List Node)
    (h : (parse s o).1 = .parts parts) :
    ∀ n ∈ parts, ∀ v ∈ Spec.textOK s n, C04.C04_known v = true ∨ C04.Unlinked' s n v :=
  C04.C04_total_conditional' C03.rootEnds s o parts h

/-- **C16** (`C16_total_checked` without the per-input condition `rootEndsChecked`): the
    conditions left are `flagsNeutral` and `noD19`, both decidable -/
theorem C16_total (s : Str) (o : Opts) (k : Nat) (parts : List Node) :
    o.limit = none → (parse s o).1 = .parts parts → C16.flagsNeutral k s o = true →
    C16.noD19 parts = true →
    (parse s { o with limit := some (k : Int) }).1 = .parts (Spec.pruneLimitL k parts) :=
  fun ho hp hn hD =>
    C16.C16_total_checked s o k parts ho hp hn hD (rootEndsChecked_all s o parts hp)

end Bashlex.Totals

#print axioms Bashlex.C03.rootEnds
#print axioms Bashlex.Totals.C03_total
#print axioms Bashlex.Totals.C03_total_single
#print axioms Bashlex.Totals.C05_total
#print axioms Bashlex.Totals.C05_chars_total
#print axioms Bashlex.Totals.C04_total
#print axioms Bashlex.Totals.C16_total
