/-
  C08 at TEXT level, UNCONDITIONAL (`C08Text`).

  RUNNING LOG
  -----------
  DONE, building (no sorry, no new axiom):
  * C08/FSoundC.lean -- `HooksOrdC`, `run_sound_ordC`: `run_sound_ordB` with the relational stack
    invariant INDEXED BY THE ENGINE'S GHOST `consumed` (copy of the walk through `step`).
  * C08/HooksT.lean  -- `SILC`, `FinLC`, `leaves_hooksT`: C05's `leaves_hooksC` redone
    transparently with the link `consumed = (lead ++ tss.flatten).map symOfTok` (look-ahead
    excluded): `next` same witnesses, `shift` `tss ++ [[t]]`, dropped NEWLINE `lead ++ [t]`,
    reduce `tssR ++ [tssA.flatten]`, accept `ts = lead ++ tssA.flatten`.
  * C08/RunT.lean    -- `RunTextK`, `parserRunK_textT` (`run_sound_ordC` and `C08.engine_good`
    conjoined ON THE SAME RUN by `SatS.and_sat`), `PartsT`, `parseK_textT`.
  * here: **`C08_accept_text`** (all inputs, all options; `rootEndsChecked` discharged by
    `Totals.rootEndsChecked_all`), `runTextK_data` / **`C08_accept_text_chars`** (the log is
    anchored in the text: chain `Skip token Skip token …`, every position accounted for),
    **`C08_accept_text_final`** (with `C05.C05_final`: the run behind the last part found layout
    only -- nothing of `s` is left unparsed).
  * C08/RunIT.lean   -- `leaves_hooksIT`, `RunOKIS`, `parseK_leavesIT`: the FULL C05 pass
    (`FRun.lean`: body conservation, `NoneL`) with the link; here **`C08_accept_text_full`**:
    `PartsText s 0 parts` (the conclusion of `C08_accept_text_conditional`) with NO hypothesis
    but the loop-fuel bound: ONE log per run carries C05's `CharsData` and spells a sentence.
  `LogLink` of `C08/TextCond.lean` is no longer needed: the CONCLUSION of
  `C08_accept_text_conditional` (`PartsText s 0 parts`) is `C08_accept_text_full`, without it.
  (`LogLink` as a statement -- about C05's own existential log and the plain `topRun` -- is not
  proved; the consumed-indexed pass produces the log together with the link, for the checked
  runs `parserRunK`, which are the runs of `parse` by `C03.rootEnds` / `parseK_of_checked`.)
-/
import Bashlex.Props.C08.RunT
import Bashlex.Props.C08.RunIT
import Bashlex.Props.C08.TextCond
import Bashlex.Props.C05Final
import Bashlex.Props.Totals

namespace Bashlex.C08
open Bashlex Bashlex.Spec Bashlex.Node Bashlex.M Bashlex.LR Bashlex.C12 Bashlex.C03
  Bashlex.C03.Tok Bashlex.C10 Bashlex.C11 Bashlex.C05 Bashlex.C05.TG
set_option linter.unusedSimpArgs false
set_option linter.unusedVariables false

/-- **C08_accept_text** (all inputs, all options): the parts `parse` returns are the trees of
    successive runs over suffixes of `s` (run `i+1` starts at `max (nextIndex partᵢ) (kᵢ+1)`);
    each run has a token log `ts` (+ at most one look-ahead) that satisfies the text-anchored
    tokenizer invariant `TLfin` of `C05Final` over the run's line, covers the leaves of the
    returned tree group by group (`FCovers`), and whose terminal sequence `ts.map symOfTok` is
    NEWLINEs followed by a SENTENCE of the grammar (`RunTextK`) -/
theorem C08_accept_text (s : Str) (o : Opts) (parts : List Node)
    (h : (parse s o).1 = .parts parts) : PartsT TLfin s 0 parts :=
  parseK_textT tokLogC_fin (fun s0 tr d => npSpans_X (covOK_both _) tr d) tlfin_init s o parts
    (C03.parseK_of_checked (Totals.rootEndsChecked_all s o parts h) h)

/-- what `TLfin` says of the log of a run, spelled out on the text (as `C05.CharsData`, without
    the conservation of here-document bodies): the tokens are sorted, each lies in a leaf (or is
    a dropped NEWLINE / a `time` token), the line up to the cursor is the chain
    `Skip token Skip token …` of `ts` (with or without the look-ahead), every position below `B` is inside a leaf, layout,
    a `time` token, the look-ahead or a gathered here-document body -/
def TextData (s0 : Str) (n : Node) (ts la : List Token) (B : Nat) (st : List RedirCell) : Prop :=
  la.length ≤ 1 ∧ NoEOF ts ∧ TokSorted ts ∧ FCovers s0.length ts (Spec.leaves n) ∧
  (∀ t ∈ ts, Droppable t ∨ IsTimeTok t ∨ InLeaf t (Spec.leaves n)) ∧
  (∃ la' c, (la' = la ∨ la' = []) ∧ TGT.ChainL (Tape.ofInput s0).line st 0 (ts ++ la') c ∧
    (c = B ∨ ((Tape.ofInput s0).line.length < c ∧ (Tape.ofInput s0).line.length < B))) ∧
  (∀ p, p < B → p < (Tape.ofInput s0).line.length →
    InLeafPos (Spec.leaves n) p ∨ PosLay (Tape.ofInput s0).line p ∨
    (∃ t ∈ ts, IsTimeTok t ∧ t.lexpos ≤ p ∧ p < t.endlexpos) ∨ InToks la p ∨ InBody st p) ∧
  Sentence (ts.map symOfTok)

theorem runTextK_data {s0 : Str} {n : Node} (hlen : s0.length + 1 < 1073741824)
    (h : RunTextK (TLfin s0) s0 n) : ∃ ts la B st, TextData s0 n ts la B st := by
  obtain ⟨_, ts, la, F, l, e, ⟨htl, hsort⟩, hla, hno, hcv, hsent⟩ := h
  have hs : TokSorted ts := by
    have := hsort.1
    rw [List.filter_append, filter_noEOF hno] at this
    exact this.append.1
  have hin := token_in_leaf hcv hs
  obtain ⟨⟨hti, hdel⟩, hcov⟩ := htl
  obtain ⟨⟨hline, hcovp, heof⟩, hcc⟩ := hcov hlen
  obtain ⟨la', c, g1, g2, g3⟩ := TGT.chainC_split hcc hno hla
  refine ⟨ts, la, (tapeOf l e).idx, l.store, hla, hno, hs, hcv, hin, ⟨la', c, g1, g2.toL, g3⟩, ?_,
    hsent⟩
  intro p hp1 hp2
  have hcp := hcovp p hp1 (by rw [hline]; exact hp2)
  rw [hline] at hcp
  rcases hcp with ⟨t, ht, hnn, h1, h2⟩ | hl | hb
  · rcases List.mem_append.mp ht with ht | ht
    · rcases hin t ht with hd | htime | ⟨x, hx, hx1, hx2⟩
      · exact absurd hd (nn_not_droppable hnn)
      · exact Or.inr (Or.inr (Or.inl ⟨t, ht, htime, h1, h2⟩))
      · exact Or.inl ⟨x, hx, by omega, by omega⟩
    · exact Or.inr (Or.inr (Or.inr (Or.inl ⟨t, ht, h1, h2⟩)))
  · exact Or.inr (Or.inl hl)
  · exact Or.inr (Or.inr (Or.inr (Or.inr hb)))

/-- **C08_accept_text_chars**: every part of `parse` is the tree of a run over a suffix of `s`
    whose tokens are anchored in the text (`TextData`) and spell a sentence -/
theorem C08_accept_text_chars (s : Str) (o : Opts) (parts : List Node)
    (hlen : s.length + 1 < 1073741824) (h : (parse s o).1 = .parts parts) :
    ∀ part ∈ parts, ∃ k n, k ≤ s.length ∧ part = n.shift k ∧
      ∃ ts la B st, TextData (s.drop k) n ts la B st := by
  intro part hp
  obtain ⟨k, n, _, hk, rfl, hrun⟩ := (C08_accept_text s o parts h).mem part hp
  exact ⟨k, n, hk, rfl, runTextK_data (by rw [List.length_drop]; omega) hrun⟩

/-- **C08_accept_text_final**: both at once -- the runs with their sentences (`PartsT`), and
    `C05_final` (`PartsFinal`: same runs, same restart indices; its `stop` case says that the run
    behind the last part was delivered NEWLINEs and the end of input only and that the rest of
    the text is layout, `Spec.isLayout`): nothing of `s` is left unparsed -/
theorem C08_accept_text_final (s : Str) (o : Opts) (parts : List Node)
    (hlen : s.length + 1 < 1073741824) (h : (parse s o).1 = .parts parts) :
    PartsT TLfin s 0 parts ∧ PartsFinal s 0 parts :=
  ⟨C08_accept_text s o parts h,
   C05_final s o parts hlen (Totals.rootEndsChecked_all s o parts h) h⟩

/-! ### the full form: C05's `CharsData` (bodies conserved) and the sentence, SAME log -/

theorem runOKIS_text {s0 : Str} {n : Node} (hlen : s0.length + 1 < 1073741824)
    (h : RunOKIS (TLfin s0) s0 n) : RunText s0 n := by
  obtain ⟨_, ts, la, F, l, e, ⟨htl, hsort⟩, hla, hno, hcv, hbody, hsent⟩ := h
  have hs : TokSorted ts := by
    have := hsort.1
    rw [List.filter_append, filter_noEOF hno] at this
    exact this.append.1
  have hin := token_in_leaf hcv hs
  obtain ⟨⟨hti, hdel⟩, hcov⟩ := htl
  obtain ⟨⟨hline, hcovp, heof⟩, hcc⟩ := hcov hlen
  obtain ⟨la', c, g1, g2, g3⟩ := TGT.chainC_split hcc hno hla
  refine ⟨ts, la, (tapeOf l e).idx, l.store, ?_, hsent⟩
  unfold CharsData
  refine ⟨hla, hno, hs, hcv, hin, ?_, ?_, ?_, ⟨la', c, g1, g2.toL, g3⟩, hbody, ?_⟩
  · intro t ht hne
    have hF : t.endlexpos ≤ F := hsort.2 t ht (by simp [notEOF, hne])
    obtain ⟨L, _, _, hc⟩ := hti
    rcases hc with hc | hc
    · obtain ⟨a1, _, _, _, _, _, a7⟩ := hc
      have hL : L = (Tape.ofInput s0).line := by rw [← a1]; exact hline
      rw [hL] at a7
      simp only [Nat.min_def] at a7 ⊢
      split at a7 <;> split <;> omega
    · have hL : L = (Tape.ofInput s0).line := by rw [← hc.1]; exact hline
      have := hc.2.1
      rw [hL] at this
      simp only [Nat.min_def]
      split <;> omega
  · rintro ⟨t, ht, hp⟩
    exact heof ⟨t, List.mem_append_right _ ht, hp⟩
  · intro p hp1 hp2
    have hcp := hcovp p hp1 (by rw [hline]; exact hp2)
    rw [hline] at hcp
    rcases hcp with ⟨t, ht, hnn, h1, h2⟩ | hl | hb
    · rcases List.mem_append.mp ht with ht | ht
      · rcases hin t ht with hd | htime | ⟨x, hx, hx1, hx2⟩
        · exact absurd hd (nn_not_droppable hnn)
        · exact Or.inr (Or.inr (Or.inl ⟨t, ht, htime, h1, h2⟩))
        · exact Or.inl ⟨x, hx, by omega, by omega⟩
      · exact Or.inr (Or.inr (Or.inr ⟨t, ht, h1, h2⟩))
    · exact Or.inr (Or.inl hl)
    · exact Or.inl (hbody p hb).inLeaf
  · intro hfl hne
    have hnb : ∀ p, ¬ InBody l.store p := by
      intro p hp
      obtain ⟨x, hx, hxt, _⟩ := hbody p hp
      rw [hfl x hx] at hxt
      cases hxt
    exact TGT.tiled_of_covers hnb (fcovers_strict hcv hne) hfl hno 0 []
      (by simpa using g2.toL) (fun t ht => by cases ht)

theorem partsText_ofIS {s : Str} (hlen : s.length + 1 < 1073741824) :
    ∀ {i : Nat} {ps : List Node}, PartsIS TLfin s i ps → PartsText s i ps := by
  intro i ps h
  induction h with
  | done i hi => exact .done i hi
  | stop i hrun => exact .stop i (runNone_chars (by rw [List.length_drop]; omega) hrun)
  | @cons i n rest hi hrun _ ih =>
    exact .cons hi (runOKIS_text (by rw [List.length_drop]; omega) hrun) ih

/-- **C08_accept_text_full** (all inputs below the loop-fuel bound, all options) -- the
    statement of `C08_accept_text_conditional` WITHOUT the hypothesis `LogLink` and without
    `rootEndsChecked`: if `parse s o` returns parts, then (`PartsText`) the parts are the trees of
    successive runs tiling `s`; each run comes with ONE token log `ts` that satisfies all of
    C05's `CharsData` (anchored chain `Skip token Skip token …`, every position a leaf / layout /
    look-ahead, leaves covered, here-document bodies conserved) AND whose terminal sequence is
    NEWLINEs followed by a sentence of the grammar; behind the last part the rest of the text is
    layout (`CharsNone`) or the index is at the end: nothing of `s` is left unparsed -/
theorem C08_accept_text_full (s : Str) (o : Opts) (parts : List Node)
    (hlen : s.length + 1 < 1073741824) (h : (parse s o).1 = .parts parts) :
    PartsText s 0 parts :=
  partsText_ofIS hlen
    (parseK_leavesIT tokLogC_fin (fun s0 tr d => npSpans_X (covOK_both _) tr d) tlfin_init s o
      parts (C03.parseK_of_checked (Totals.rootEndsChecked_all s o parts h) h))

end Bashlex.C08

#print axioms Bashlex.C05.leaves_hooksIT
#print axioms Bashlex.C08.C08_accept_text_full
#print axioms Bashlex.LR.run_sound_ordC
#print axioms Bashlex.C05.leaves_hooksT
#print axioms Bashlex.C05.parserRunK_textT
#print axioms Bashlex.C08.C08_accept_text
#print axioms Bashlex.C08.C08_accept_text_chars
#print axioms Bashlex.C08.C08_accept_text_final
