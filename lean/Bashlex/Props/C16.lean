/-
  Property C16 at model level: `expansionlimit = k` prunes the substitution nodes nested deeper
  than `k` and changes nothing else.

  The statement relates two runs of the same program that differ only in `Local.limit`.

  Files
    C16/Rel.lean       relational ("two-run") program logic `Rel S S' m₁ m₂ R` for the monad `M`
                       (rules for pure / bind / get / set / modify / ite / loop / forIn; generic in
                       the relation between the environments, class `EnvRel`)
    C16/MapW.lean      word maps `mapW`, the relation "same image" (`NR f g`), `pruneLimit = mapW …`
    C16/Tree.lean      pruning / skeletons versus `mapPos`, `preorder`
    C16/Word.lean      `expandword` in two runs with related nested parsers
    C16/Actions.lean   every semantic action is natural in the word results (`rel_action`, one
                       lemma per action function of parser.py)
    C16/Engine.lean    the LR engine in two runs (`rel_run`)
    C16/Run.lean       state relation `St j b`, the instrumented parser `parserRunI`,
                       `parserRunI_plain` (it agrees with `parserRun` whenever it returns)
    C16/Keeps.lean     one level below the cut: the unlimited run expands words, the limited does not
    C16/Depth.lean     induction over the nesting depth (`parserRunI_rel`)
    C16/Frame.lean     the tokenizer frame: a walk through all of `Model/Tokenizer.lean` (automated:
                       `fr_auto`, `rel2`), generic in the side relation and in `EnvRel`
    C16/FrameInst.lean its two instances; `frameHyp : FrameHyp` (no hypothesis is left)

  What is proved.  `C16_partial`: for every input, all options and every `k`, if the unlimited parse
  succeeds then the parse with `expansionlimit = k` succeeds and returns exactly `pruneLimitL k` of
  the unlimited result (every returned part of a multi-line input), provided

  (E1) `flagsNeutral k s o` (decidable; computed by the instrumented parser `parseI`, which is the
       unlimited parser plus a run-time check and is proved to return what `parse` returns,
       `parseI_sound`): no nested parse that the limited run *skips* changes the parser-state flags
       it shares with its caller (`copy.copy(parserstate)` is shallow; flags compared up to
       CMDSUBST, EOFTOKEN, CASESTMT, which no tokenizer function reads).  Such a nested parse makes
       the two tokenizers diverge for real - but, on every input found, only in the direction
       the property allows: witness `$(case x in $(a)|b=1) echo;; esac)`: the unlimited parse
       FAILS (the inner `)` clears CASEPAT, `b=1` becomes an ASSIGNMENT_WORD and is rejected as
       a pattern) while `expansionlimit=0` succeeds.  The check also fires on harmless leaks
       (`$(case x in a) echo $(b);; c) echo;; esac)` with `k = 0`: CASEPAT is cleared one token
       early in the unlimited run only; the outcomes agree).  Frequency: 11 of 1791 accepted
       corpus / generator inputs with substitutions for `k = 0`, 1 for `k = 1`, 0 for `k = 2`;
       no input was found where the unlimited parse succeeds and the limited parse differs from
       the pruned result.
  (E2) `heredocStable k parts` (decidable): pruning does not change the index at which `parse`
       restarts.  This excluded a GENUINE DEFECT of bashlex, found here and meanwhile fixed in the
       repository (D39): `_endfinder` kept the LAST VISITED here-document, also one inside a
       substitution; witness `"cat <<E $(cat <<F\ny\nF\n)\nx\nE\necho b"`: unlimited → 4 parts
       (the body of `<<E` parsed again as commands `x`, `E`), `expansionlimit=0` → 2 parts.  With
       the fix (`lastHeredocEnd` is the maximum) no input violating (E2) is known; proving that it
       always holds needs span containment (a here-document inside a substitution ends before
       the part that holds the word ends), which is not available here - it stays an explicit
       decidable hypothesis.
-/
import Bashlex.Props.C16.Depth
import Bashlex.Props.C16.FrameInst

namespace Bashlex.C16
open Bashlex Bashlex.Spec Bashlex.Node Bashlex.M Bashlex.LR
set_option linter.unusedSimpArgs false
set_option linter.unusedVariables false
attribute [local instance] stdEnvRel

/-! ## the instrumented entry points -/

/-- `runParser` with the instrumented parser (`k` = the limit of the run it is compared with) -/
def runParserI (k : Nat) (s : Str) (o : Opts) (touched : List Char) :
    Except Exn (Option Node) × List Char :=
  let env : Env := { tape := Tape.ofInput s, strict := o.strict, proceed := o.proceed, touched := touched }
  let (r, env') := (parserRunI k maxDepth).run { limit := o.limit } env
  (r.map (·.1), env'.touched)

def parseLoopI (k : Nat) (s : Str) (o : Opts) :
    Nat → Nat → List Node → List Char → Except Exn (List Node) × List Char
  | 0, _, _, touched => (.error (.outOfFuel "parse"), touched)
  | fuel + 1, index, parts, touched =>
    if index < s.length then
      match runParserI k (s.drop index) o touched with
      | (.error e, t) => (.error e, t)
      | (.ok none, t) => (.ok parts, t)
      | (.ok (some part), t) =>
        let part := part.shift index
        parseLoopI k s o fuel (max (nextIndex part) (index + 1)) (parts ++ [part]) t
    else (.ok parts, touched)

/-- `parse` with the instrumented parser: raises `FlagLeak` when a nested parse that the run
    with `expansionlimit = k` skips changes the shared parser-state flags -/
def parseI (k : Nat) (s : Str) (o : Opts := {}) : Outcome × List Char :=
  match runParserI k s o [] with
  | (.error e, t) => (.exn e, t)
  | (.ok none, t) => (.parts [], t)
  | (.ok (some first), t) =>
    match parseLoopI k s o (s.length + 1) (max (nextIndex first) 1) [first] t with
    | (.error e, t) => (.exn e, t)
    | (.ok parts, t) => (.parts parts, t)

/-- (E1) the instrumented parse goes through -/
def flagsNeutral (k : Nat) (s : Str) (o : Opts) : Bool :=
  match (parseI k s o).1 with
  | .parts _ => true
  | _ => false

/-- (E2) pruning does not change the restart index of any part -/
def heredocStable (k : Nat) (parts : List Node) : Bool :=
  parts.all fun p => nextIndex (pruneLimit k p) == nextIndex p

/-! ## one top-level parser run -/

theorem runParserI_ok {k : Nat} {s : Str} {o : Opts} {t : List Char} {r : Option Node}
    (h : (runParserI k s o t).1 = .ok r) :
    ∃ l' e', (parserRunI k maxDepth).run { limit := o.limit }
      { tape := Tape.ofInput s, strict := o.strict, proceed := o.proceed, touched := t } =
      (.ok (r, l'), e') := by
  unfold runParserI at h
  simp only [] at h
  rcases hr : (parserRunI k maxDepth).run { limit := o.limit }
      { tape := Tape.ofInput s, strict := o.strict, proceed := o.proceed, touched := t } with ⟨x, e'⟩
  rw [hr] at h
  cases x with
  | error x => simp [Except.map] at h
  | ok v =>
    obtain ⟨a, l'⟩ := v
    simp only [Except.map] at h
    cases h
    exact ⟨l', e', rfl⟩

theorem runParser_of_run {s : Str} {o : Opts} {t : List Char} {r : Option Node} {l' : Local} {e' : Env}
    (h : (parserRun maxDepth).run { limit := o.limit }
      { tape := Tape.ofInput s, strict := o.strict, proceed := o.proceed, touched := t } =
      (.ok (r, l'), e')) : (runParser s o t).1 = .ok r := by
  unfold runParser
  simp only []
  rw [h]
  rfl

/-- the limited run returns the pruned result of the instrumented run -/
theorem runParserI_rel (hF : FrameHyp) (k : Nat) (s : Str) (o : Opts) (ho : o.limit = none)
    (t₁ t₂ : List Char) {r₁ : Option Node} (h : (runParserI k s o t₁).1 = .ok r₁) :
    (runParser s { o with limit := some (k : Int) } t₂).1 = .ok (r₁.map (pruneLimit k)) := by
  obtain ⟨l', e', hr⟩ := runParserI_ok h
  have hS : St k false { limit := o.limit } { limit := some (k : Int) } := by
    rw [ho]
    exact ⟨rfl, rfl, rfl, rfl⟩
  obtain ⟨r₂, l₂', e₂', h2, hR, _, _⟩ := (parserRunI_rel hF maxDepth).2 k false
    { limit := o.limit } { limit := some (k : Int) }
    { tape := Tape.ofInput s, strict := o.strict, proceed := o.proceed, touched := t₁ }
    { tape := Tape.ofInput s, strict := o.strict, proceed := o.proceed, touched := t₂ } hS
    ⟨rfl, rfl, rfl⟩ r₁ l' e' hr
  have : r₂ = r₁.map (pruneLimit k) := by
    revert hR
    cases r₁ <;> cases r₂ <;> simp [ORel]
  rw [← this]
  exact runParser_of_run (o := { o with limit := some (k : Int) }) h2

/-- the plain run returns what the instrumented run returns -/
theorem runParserI_plain (k : Nat) (s : Str) (o : Opts) (t₁ t₂ : List Char) {r : Option Node}
    (h : (runParserI k s o t₁).1 = .ok r) : (runParser s o t₂).1 = .ok r := by
  obtain ⟨l', e', hr⟩ := runParserI_ok h
  obtain ⟨r₂, l₂', e₂', h2, hR, _, _⟩ := parserRunI_plain maxDepth k
    { limit := o.limit } { limit := o.limit }
    { tape := Tape.ofInput s, strict := o.strict, proceed := o.proceed, touched := t₁ }
    { tape := Tape.ofInput s, strict := o.strict, proceed := o.proceed, touched := t₂ } rfl
    ⟨rfl, rfl, rfl⟩ r l' e' hr
  subst hR
  exact runParser_of_run h2

/-! ## the loop of `parse` -/

theorem parseLoopI_prefix (k : Nat) (s : Str) (o : Opts) :
    ∀ (fuel index : Nat) (parts : List Node) (t : List Char) (ps : List Node),
      (parseLoopI k s o fuel index parts t).1 = .ok ps → parts <+: ps := by
  intro fuel
  induction fuel with
  | zero => intro index parts t ps h; simp [parseLoopI] at h
  | succ fuel ih =>
    intro index parts t ps h
    unfold parseLoopI at h
    split at h
    · rcases hr : runParserI k (s.drop index) o t with ⟨r, t'⟩
      rw [hr] at h
      cases r with
      | error e => simp only [] at h; cases h
      | ok v =>
        cases v with
        | none => simp only [] at h; cases h; exact List.prefix_refl _
        | some part =>
          simp only [] at h
          exact (List.prefix_append _ _).trans (ih _ _ _ _ h)
    · cases h; exact List.prefix_refl _

theorem pruneLimitL_append (k : Nat) (a b : List Node) :
    pruneLimitL k (a ++ b) = pruneLimitL k a ++ pruneLimitL k b := by
  simp [pruneLimitL_map]

theorem parseLoopI_rel (hF : FrameHyp) (k : Nat) (s : Str) (o : Opts) (ho : o.limit = none) :
    ∀ (fuel index : Nat) (parts : List Node) (t₁ t₂ : List Char) (ps : List Node),
      (parseLoopI k s o fuel index parts t₁).1 = .ok ps → heredocStable k ps = true →
      (parseLoop s { o with limit := some (k : Int) } fuel index (pruneLimitL k parts) t₂).1 =
        .ok (pruneLimitL k ps) := by
  intro fuel
  induction fuel with
  | zero => intro index parts t₁ t₂ ps h; simp [parseLoopI] at h
  | succ fuel ih =>
    intro index parts t₁ t₂ ps h hst
    have hpre := parseLoopI_prefix k s o _ _ _ _ _ h
    unfold parseLoopI at h
    unfold parseLoop
    split at h
    · rename_i hlt
      rw [if_pos hlt]
      rcases hr : runParserI k (s.drop index) o t₁ with ⟨r, t'⟩
      rw [hr] at h
      cases r with
      | error e => simp only [] at h; cases h
      | ok v =>
        have h2 := runParserI_rel hF k (s.drop index) o ho t₁ t₂ (r₁ := v) (by rw [hr])
        rcases hr2 : runParser (s.drop index) { o with limit := some (k : Int) } t₂ with ⟨r2, t2'⟩
        rw [hr2] at h2
        simp only [] at h2
        subst h2
        cases v with
        | none => simp only [Option.map] at h ⊢; cases h; rfl
        | some part =>
          simp only [Option.map] at h ⊢
          have hpre2 := parseLoopI_prefix k s o _ _ _ _ _ h
          have hmem : part.shift index ∈ ps := hpre2.subset (by simp)
          have hsi : nextIndex (pruneLimit k (part.shift index)) = nextIndex (part.shift index) := by
            have := List.all_eq_true.mp hst _ hmem
            simpa using this
          rw [← prune_shift, hsi]
          have := ih _ (parts ++ [part.shift index]) t' t2' ps h hst
          rw [pruneLimitL_append] at this
          exact this
    · rename_i hlt
      rw [if_neg hlt]
      cases h; rfl

theorem parseLoopI_plain (k : Nat) (s : Str) (o : Opts) :
    ∀ (fuel index : Nat) (parts : List Node) (t₁ t₂ : List Char) (ps : List Node),
      (parseLoopI k s o fuel index parts t₁).1 = .ok ps →
      (parseLoop s o fuel index parts t₂).1 = .ok ps := by
  intro fuel
  induction fuel with
  | zero => intro index parts t₁ t₂ ps h; simp [parseLoopI] at h
  | succ fuel ih =>
    intro index parts t₁ t₂ ps h
    unfold parseLoopI at h
    unfold parseLoop
    split at h
    · rename_i hlt
      rw [if_pos hlt]
      rcases hr : runParserI k (s.drop index) o t₁ with ⟨r, t'⟩
      rw [hr] at h
      cases r with
      | error e => simp only [] at h; cases h
      | ok v =>
        have h2 := runParserI_plain k (s.drop index) o t₁ t₂ (r := v) (by rw [hr])
        rcases hr2 : runParser (s.drop index) o t₂ with ⟨r2, t2'⟩
        rw [hr2] at h2
        simp only [] at h2
        subst h2
        cases v with
        | none => simp only [] at h ⊢; cases h; rfl
        | some part =>
          simp only [] at h ⊢
          exact ih _ _ t' t2' ps h
    · rename_i hlt
      rw [if_neg hlt]
      cases h; rfl

/-! ## C16 -/

/-- the instrumented parse, when it goes through, is the unlimited parse -/
theorem parseI_sound (k : Nat) (s : Str) (o : Opts) (parts : List Node)
    (h : (parseI k s o).1 = .parts parts) : (parse s o).1 = .parts parts := by
  unfold parseI at h
  unfold parse
  rcases hr : runParserI k s o [] with ⟨r, t⟩
  rw [hr] at h
  cases r with
  | error e => simp only [] at h; cases h
  | ok v =>
    have h2 := runParserI_plain k s o [] [] (r := v) (by rw [hr])
    rcases hr2 : runParser s o [] with ⟨r2, t2⟩
    rw [hr2] at h2
    simp only [] at h2
    subst h2
    cases v with
    | none => simp only [] at h ⊢; exact h
    | some first =>
      simp only [] at h ⊢
      rcases hl : parseLoopI k s o (s.length + 1) (max (nextIndex first) 1) [first] t with ⟨r3, t3⟩
      rw [hl] at h
      cases r3 with
      | error e => simp only [] at h; cases h
      | ok ps =>
        simp only [] at h
        cases h
        have := parseLoopI_plain k s o _ _ _ t t2 parts (by rw [hl])
        rcases hl2 : parseLoop s o (s.length + 1) (max (nextIndex first) 1) [first] t2 with ⟨r4, t4⟩
        rw [hl2] at this
        simp only [] at this
        subst this
        rfl

/-- the limited parse is the pruned instrumented parse -/
theorem parseI_limit (hF : FrameHyp) (k : Nat) (s : Str) (o : Opts) (parts : List Node)
    (ho : o.limit = none) (h : (parseI k s o).1 = .parts parts) (hst : heredocStable k parts = true) :
    (parse s { o with limit := some (k : Int) }).1 = .parts (pruneLimitL k parts) := by
  unfold parseI at h
  unfold parse
  rcases hr : runParserI k s o [] with ⟨r, t⟩
  rw [hr] at h
  cases r with
  | error e => simp only [] at h; cases h
  | ok v =>
    have h2 := runParserI_rel hF k s o ho [] [] (r₁ := v) (by rw [hr])
    rcases hr2 : runParser s { o with limit := some (k : Int) } [] with ⟨r2, t2⟩
    rw [hr2] at h2
    simp only [] at h2
    subst h2
    cases v with
    | none => simp only [Option.map] at h ⊢; cases h; rfl
    | some first =>
      simp only [Option.map] at h ⊢
      rcases hl : parseLoopI k s o (s.length + 1) (max (nextIndex first) 1) [first] t with ⟨r3, t3⟩
      rw [hl] at h
      cases r3 with
      | error e => simp only [] at h; cases h
      | ok ps =>
        simp only [] at h
        cases h
        have hpre := parseLoopI_prefix k s o _ _ _ _ _ (show _ = Except.ok parts by rw [hl])
        have hmem : first ∈ parts := hpre.subset (by simp)
        have hsi : nextIndex (pruneLimit k first) = nextIndex first := by
          have := List.all_eq_true.mp hst _ hmem
          simpa using this
        rw [hsi]
        have := parseLoopI_rel hF k s o ho _ _ [first] t t2 parts (by rw [hl]) hst
        rcases hl2 : parseLoop s { o with limit := some (k : Int) } (s.length + 1)
          (max (nextIndex first) 1) (pruneLimitL k [first]) t2 with ⟨r4, t4⟩
        rw [hl2] at this
        simp only [] at this
        subst this
        have e1 : pruneLimitL k [first] = [pruneLimit k first] := rfl
        rw [e1] at hl2
        rw [hl2]

/-- **C16 (model level), conditional on the frame hypotheses on the tokenizer.**
    Whenever the unlimited parse of an input succeeds - and no nested parse skipped by the
    limited run changes the shared flags (E1), and pruning keeps the restart indices (E2) - the
    parse with `expansionlimit = k` succeeds too and equals the unlimited result with every
    substitution node nested deeper than `k` removed; this covers every returned part of a
    multi-line input. -/
theorem C16_partial_conditional (hF : FrameHyp) (s : Str) (o : Opts) (k : Nat) (parts : List Node) :
    o.limit = none → (parse s o).1 = .parts parts →
    flagsNeutral k s o = true → heredocStable k parts = true →
    (parse s { o with limit := some (k : Int) }).1 = .parts (Spec.pruneLimitL k parts) := by
  intro ho hp hn hst
  unfold flagsNeutral at hn
  rcases hI : (parseI k s o).1 with ps | _ | _ | _ <;> rw [hI] at hn <;> simp only [] at hn <;>
    try exact absurd hn (by decide)
  have := parseI_sound k s o ps hI
  rw [hp] at this
  cases this
  exact parseI_limit hF k s o parts ho hI hst

/-- **C16 (model level).**  The frame hypotheses are theorems (`frameHyp`,
    `Props/C16/FrameInst.lean`): for every input, all options and every `k`, whenever the unlimited
    parse succeeds - and (E1) no nested parse skipped by the limited run changes the shared
    flags, (E2) pruning keeps the restart indices - the parse with `expansionlimit = k` succeeds
    and returns the unlimited result with every substitution node nested deeper than `k` removed
    (word values, spans and all other nodes identical), for every returned part. -/
theorem C16_partial (s : Str) (o : Opts) (k : Nat) (parts : List Node) :
    o.limit = none → (parse s o).1 = .parts parts →
    flagsNeutral k s o = true → heredocStable k parts = true →
    (parse s { o with limit := some (k : Int) }).1 = .parts (Spec.pruneLimitL k parts) :=
  C16_partial_conditional frameHyp s o k parts

end Bashlex.C16

#print axioms Bashlex.C16.C16_partial
#print axioms Bashlex.C16.frameHyp
#print axioms Bashlex.C16.C16_partial_conditional
#print axioms Bashlex.C16.parseI_sound
#print axioms Bashlex.C16.parseI_limit
#print axioms Bashlex.C16.parserRunI_rel
#print axioms Bashlex.C16.rel_action
#print axioms Bashlex.C16.rel_run
#print axioms Bashlex.C16.rel_expandwordWith
