/-
  HelpersGen: the small helper modules the model transliterates by hand, tied to the source by the
  skeleton route.  `tools/extract.py` (`gen_helpers`) matches `shutils.legal_number`,
  `legal_identifier`, `_shellquote`, `removequotes`, every method of `utils.typedset` and
  `state.parserstate` against fixed skeletons (it raises on any deviation, and checks that every
  call of `removequotes` in the package passes the string only) and emits the constants
  (`Gen/Helpers.lean`).  Here the model's definitions are shown to be the parametrised ones at the
  generated values:
    `legalNumber_gen`      `legal_number` is `try: int(s); return True / except ValueError: return False`
                           (the model decides "int(s) succeeds" by "non-empty, ASCII digits": exact on the
                           digit strings the tokenizer hands it);
    `legalIdentifier_gen`  `legal_identifier` returns None: falsy for every argument;
    `removequotesStep_gen`, `removequotes_gen`  with the character class of `_shellquote` as data;
    `parserRun_gen`        the flag set is SHARED between a parser and its nested parsers — `typedset`
                           defines no copy hook and the state is copied with `copy.copy` — which is why the
                           model writes the nested parser's flags back (`parserRunP shared`);
    `pstate_initial`       a fresh `parserstate()` holds no flag.
-/
import Bashlex.Model.Parse
import Bashlex.Gen.Helpers

namespace Bashlex.HelpersGen
open Bashlex Bashlex.Gen

/-! ### shutils.legal_number / legal_identifier -/

/-- `try: x = int(s); return A / except ValueError: return B` on a string for which "int(s) succeeds"
    is "non-empty and all ASCII digits" -/
def legalNumberP (onSuccess onValueError : Bool) (s : Str) : Bool :=
  if !s.isEmpty && s.all isDigit then onSuccess else onValueError

theorem legalNumber_gen (s : Str) :
    legalNumber s = legalNumberP legalNumberOnSuccess legalNumberOnValueError s := by
  simp only [legalNumber, legalNumberP, legalNumberOnSuccess, legalNumberOnValueError]
  cases (!s.isEmpty && s.all isDigit) <;> rfl

theorem legalNumber_conv : legalNumberConv = "int" := by decide

theorem legalIdentifier_gen (s : Str) : legalIdentifier s = legalIdentifierTruthy := rfl

theorem legalIdentifier_none : legalIdentifierReturns = "None" := by decide

/-! ### shutils.removequotes -/

/-- one iteration of `removequotes` with `_shellquote`'s characters as a parameter -/
def removequotesStepP (q : List Char) (s : Str) (st : RQState) : RQState ⊕ Str :=
  if !(st.sindex < s.length) then .inr st.r else
  match s[st.sindex]? with
  | none => .inr st.r
  | some c =>
    if c == '\\' then
      let sindex := st.sindex + 1
      if sindex == s.length then .inr (st.r ++ ['\\'])
      else
        match s[sindex]? with
        | none => .inr st.r
        | some c2 =>
          let r := if st.dquote && !(q.contains c2) then st.r ++ ['\\'] else st.r
          .inl { st with r := r ++ [c2], sindex := sindex }
    else if c == '\'' then
      if st.dquote then .inl { st with r := st.r ++ [c], sindex := st.sindex + 1 }
      else
        let t := match Str.findFrom s '\'' (st.sindex + 1) with
          | none => s.length
          | some t => t + 1
        .inl { st with r := st.r ++ Str.slice s (st.sindex + 1) (t - 1), sindex := t }
    else if c == '"' then .inl { st with dquote := !st.dquote, sindex := st.sindex + 1 }
    else .inl { st with r := st.r ++ [c], sindex := st.sindex + 1 }

def removequotesLoopP (q : List Char) (s : Str) : Nat → RQState → Str
  | 0, st => st.r
  | fuel + 1, st =>
    match removequotesStepP q s st with
    | .inl st' => removequotesLoopP q s fuel st'
    | .inr r => r

theorem shellquote_gen (c : Char) :
    shellquoteChars.contains c = (c == '"' || c == '`' || c == '\'') := by
  have h1 : Char.ofNat 34 = '"' := rfl
  have h2 : Char.ofNat 96 = '`' := rfl
  have h3 : Char.ofNat 39 = '\'' := rfl
  simp only [shellquoteChars, List.contains, List.elem, h1, h2, h3]
  cases c == '"' <;> cases c == '`' <;> cases c == '\'' <;> rfl

theorem removequotesStep_gen (s : Str) (st : RQState) :
    removequotesStepP shellquoteChars s st = removequotesStep s st := by
  unfold removequotesStepP removequotesStep
  simp only [shellquote_gen]
  rfl

theorem removequotesLoop_gen (s : Str) : ∀ fuel st,
    removequotesLoopP shellquoteChars s fuel st = removequotesLoop s fuel st
  | 0, _ => rfl
  | fuel + 1, st => by
    rw [removequotesLoopP, removequotesLoop, removequotesStep_gen]
    cases removequotesStep s st with
    | inl st' => exact removequotesLoop_gen s fuel st'
    | inr r => rfl

/-- **`removequotes` is the parametrised scan at the character class read off `_shellquote`** -/
theorem removequotes_gen (s : Str) :
    removequotesLoopP shellquoteChars s (2 * s.length + 2) {} = removequotes s :=
  removequotesLoop_gen s _ _

/-- the model ignores `heredoc`/`doublequotes`: both default to False and no call passes them -/
theorem removequotes_defaults :
    removequotesHeredocDefault = false ∧ removequotesDoublequotesDefault = false := by decide

/-! ### utils.typedset / state.parserstate: the shared flag set -/

/-- `copy.copy(state)` shares the underlying set: `typedset` defines no copy hook, every copy of a
    parser state is made with `copy.copy` (not `deepcopy`), and the mutators work on `self._s` in place
    (skeleton) -/
def sharedFlagSet : Bool :=
  typedsetCopyHooks.isEmpty && parserstateCopies.all (fun c => c.2.1 == "copy") &&
    ["add", "discard", "__ior__", "__and__", "__contains__"].all typedsetMethods.contains

theorem sharedFlagSet_gen : sharedFlagSet = true := by decide

/-- `parserRun` with the sharing as a parameter: when the set is not shared the caller keeps its
    own flags -/
def parserRunP (shared : Bool) : Nat → M (Option Node)
  | 0 => M.raise (.outOfFuel "nesting")
  | depth + 1 => do
    let np : NestedParse := fun string dolparen => do
      let outer ← get
      let ps := if dolparen then { outer.ps with cmdsubst := true, eoftoken := true } else outer.ps
      set ({ tape := some (Tape.ofInput string), opts := some (true, false)
             lastReadToken := outer.lastReadToken, tokenBeforeThat := outer.tokenBeforeThat
             twoTokensAgo := outer.twoTokensAgo, ps := ps
             eofToken := if dolparen then some rparenEofToken else none
             limit := outer.limit.map (· - 1) } : Local)
      let r ← parserRunP shared depth
      let inner ← get
      set { outer with ps := if shared then inner.ps else outer.ps }
      pure r
    let res ← LR.run LR.realTables (lrHooks np) 1073741824
    let store := (← get).store
    match res with
    | .accepted (.node n) _ _ _ => pure (some (resolve store n))
    | _ => pure none

/-- **the model's nested parsers share the flag set, as the sources do** -/
theorem parserRun_gen : ∀ depth, parserRunP sharedFlagSet depth = parserRun depth
  | 0 => rfl
  | depth + 1 => by
    rw [sharedFlagSet_gen]
    unfold parserRunP parserRun
    rw [← sharedFlagSet_gen, parserRun_gen depth, sharedFlagSet_gen]
    rfl

/-- the flags of a parser state, from the names of the members it holds -/
def pstateOf (names : List String) : PState :=
  { casepat := names.contains "CASEPAT", allowopnbrc := names.contains "ALLOWOPNBRC",
    dblparen := names.contains "DBLPAREN", subshell := names.contains "SUBSHELL",
    cmdsubst := names.contains "CMDSUBST", casestmt := names.contains "CASESTMT",
    condcmd := names.contains "CONDCMD", condexpr := names.contains "CONDEXPR",
    compassign := names.contains "COMPASSIGN", assignok := names.contains "ASSIGNOK",
    eoftoken := names.contains "EOFTOKEN", regexp := names.contains "REGEXP",
    redirlist := names.contains "REDIRLIST" }

/-- a fresh `state.parserstate()` holds no flag: the model's default `PState` -/
theorem pstate_initial : pstateOf parserstateInitial = ({} : PState) := by decide

#print axioms legalNumber_gen
#print axioms legalIdentifier_gen
#print axioms removequotes_gen
#print axioms parserRun_gen
#print axioms sharedFlagSet_gen
#print axioms pstate_initial

end Bashlex.HelpersGen
