/-
  C14Total — the per-input hypotheses `hpos`, `hstop` of `Props/C14More.lean` discharged; `hrest`
  kept (it is NOT a C03 / C05 fact: it is false for some inputs, witness below).

  `hpos` (the first part of `B` does not end at index 0) and `hstop` (`parseStop B o ≤ |B|`) are
  consequences of C03's span theorem for ONE run (`C03.runParser_spans`, with `C03.tokSpans` and
  `C03.rootEnds`): the root of a run has a non-empty span inside the input and every
  here-document body ends inside the input — for an UNTAINTED root.  C03 says nothing about a
  tree that holds a D19 node anywhere (`tainted`, also below words), so what is needed in
  addition is

      `NoD19`:  with `proceedonerror` off, the tree a parser run returns holds no D19 node
                (`p_timespec` raises `NotImplementedError`, so the `time` pipelines at (0,0) are
                never built; nested parsers run with `proceedonerror` off).

  `NoD19` is a UNIVERSAL statement (not a per-input condition); it is proved inside C14's
  relational engine (`C14/Engine.lean`: `Extra`, "no entry stands for `timespec`") but not
  exported as a unary fact, and no other development supplies it (cross-check by evaluation:
  `Props/C14TotalValidate.lean`, 0 failures on 8640 inputs with all suffixes, strict and
  non-strict; it fails with `proceedonerror` on, as it must): it is the single hypothesis of
  the theorems below, besides the exclusions of `C14More.lean` (`proceed = false`, `Joinable`,
  `parseLocal`, model fuel).  What a proof needs: the state invariant "`_proceedonerror` is off"
  through `token()` and the actions (the environment half is `C14.run_proceed_frame`; the local
  half is a frame on `Local.opts`), then "no stack entry stands for `timespec`"
  (`C14.sim_timespec` is the relational form).  The spine half follows from `C04.LeafOK` (a
  reserved-word node of the spine is built from a token or sits at `(0,0)`) and
  `runParser_layout_all` with the prefix `"⏎"` (a shifted tree has no node at `(0,0)`); the half
  below words does not (a nested frame moves with the tree).

  `hrest` (`Layout (B.drop (parseStop B o))`) is kept as a hypothesis: it is FALSE when `B` ends in
  a comment without a newline (`#eval` in `Props/C14TotalValidate.lean`: `B = "a⏎#c"`,
  `parseStop B = 1`, the rest `⏎#c` is not in the language `Layout`, whose comments end in a
  newline; `Joinable B "⏎"` and `parseLocal B` hold and the conclusion of `parse_layout_suffix`
  holds too — the theorem just does not cover this `B`; a `decide +kernel` proof of the witness
  exhausts memory, hence `#eval`).
  For `B` whose rest is empty (`parseStop B o = |B|`) it is trivial (`parse_layout_suffix_end`).
  The general form needs the converse of `runParser_layout_only` on the tokenizer's LINE
  (`C05.CharsNone` gives `Spec.isLayout` of the line only when the cursor stopped AT its end).
-/
import Bashlex.Props.C14More
import Bashlex.Props.C03.RootEndsProof
import Bashlex.Props.C03Total

namespace Bashlex.C14
open Bashlex Bashlex.C13
set_option linter.unusedSimpArgs false
set_option linter.unusedVariables false

/-- **no D19 node without `proceedonerror`** (see the header) -/
def NoD19 : Prop :=
  ∀ (s : Str) (o : Opts) (t : List Char) (n : Node), o.proceed = false →
    (runParser s o t).1 = .ok (some n) → C03.tainted n = false

/-! ## one run: the root is non-empty and inside the input -/

theorem tainted_heredoc (p : Span) (v : Str) : C03.tainted (.heredoc p v) = false := by
  cases h : C03.tainted (.heredoc p v) with
  | false => rfl
  | true =>
    rcases (C03.tainted_iff _).mp h with h1 | ⟨c, hc, _⟩
    · cases h1
    · cases hc

theorem foldl_max_le {len : Nat} : ∀ (es : List Nat) (e : Nat), e ≤ len → (∀ x ∈ es, x ≤ len) →
    es.foldl max e ≤ len
  | [], e, he, _ => he
  | x :: xs, e, he, h => by
    rw [List.foldl_cons]
    refine foldl_max_le xs (max e x) ?_ (fun y hy => h y (List.mem_cons_of_mem _ hy))
    have := h x List.mem_cons_self
    omega

theorem lastHeredocEnd_le {n : Node} {len : Nat} (h : C03.Strict len n) :
    ∀ e, n.lastHeredocEnd = some e → e ≤ len := by
  intro e he
  rw [Node.lastHeredocEnd_eq] at he
  have hall : ∀ x ∈ n.preorder.filterMap Node.heredocEnd?, x ≤ len := by
    intro x hx
    obtain ⟨m, hm, hme⟩ := List.mem_filterMap.mp hx
    cases m with
    | heredoc p v =>
      simp only [Node.heredocEnd?, Option.some.injEq] at hme
      subst hme
      exact (h _ hm).rng (tainted_heredoc p v)
    | _ => simp [Node.heredocEnd?] at hme
  cases hl : n.preorder.filterMap Node.heredocEnd? with
  | nil => rw [hl] at he; cases he
  | cons a as =>
    rw [hl] at he hall
    simp only [Option.some.injEq] at he
    subst he
    exact foldl_max_le as a (hall a List.mem_cons_self)
      (fun x hx => hall x (List.mem_cons_of_mem _ hx))

/-- **the root of a parser run** (C03, for an untainted tree): non-empty, and the run's next index
    lies inside the input -/
theorem run_root (hD : NoD19) {s : Str} {o : Opts} {t : List Char} {n : Node}
    (hp : o.proceed = false) (h : (runParser s o t).1 = .ok (some n)) :
    n.pos.1 < n.pos.2 ∧ nextIndex n ≤ s.length := by
  have top := C03.runParser_spans C03.tokSpans C03.rootEnds h
  have ht := hD s o t n hp h
  have hne : n.pos.1 < n.pos.2 := by
    rcases top.root with h1 | h1
    · rw [ht] at h1; cases h1
    · exact h1
  have hrng : n.pos.2 ≤ s.length := (top.strict n (C12.self_mem_preorder n)).rng ht
  refine ⟨hne, ?_⟩
  unfold nextIndex
  cases hl : n.lastHeredocEnd with
  | none => exact hrng
  | some e =>
    have := lastHeredocEnd_le top.strict e hl
    simp only []
    omega

/-- `hpos` -/
theorem run_pos (hD : NoD19) {B : Str} {o : Opts} (hp : o.proceed = false) :
    ∀ part, (runParser B o []).1 = .ok (some part) → 0 < nextIndex part := by
  intro part h
  have h1 := (run_root hD hp h).1
  unfold nextIndex
  cases part.lastHeredocEnd with
  | none => simp only []; omega
  | some e => simp only []; omega

/-! ## the loop of `parse` stops inside the input -/

theorem walk_stop_le (hD : NoD19) (s : Str) (o : Opts) (hp : o.proceed = false) :
    ∀ (fuel i : Nat) (t : List Char) (w : Walk), i ≤ s.length →
      walk s o fuel i t = some w → w.stop ≤ s.length := by
  intro fuel
  induction fuel with
  | zero => intro i t w _ h; cases h
  | succ fuel ih =>
    intro i t w hi h
    unfold walk at h
    by_cases hlt : i < s.length
    · rw [if_pos hlt] at h
      rcases hr : runParser (s.drop i) o t with ⟨x, t'⟩
      rw [hr] at h
      cases x with
      | error e => cases h
      | ok v =>
        cases v with
        | none => simp only [] at h; cases h; exact hi
        | some part =>
          simp only [] at h
          cases hw : walk s o fuel (max (nextIndex (part.shift i)) (i + 1)) t' with
          | none => rw [hw] at h; cases h
          | some w' =>
            rw [hw] at h
            simp only [Option.some.injEq] at h
            subst h
            show w'.stop ≤ s.length
            refine ih _ _ w' ?_ hw
            have h2 := (run_root hD (s := s.drop i) (t := t) hp (by rw [hr])).2
            rw [List.length_drop] at h2
            have e := Bashlex.nextIndex_shift i part
            rw [e]
            omega
    · rw [if_neg hlt] at h
      cases h
      exact hi

/-- `hstop` -/
theorem parseStop_le (hD : NoD19) (B : Str) (o : Opts) (hp : o.proceed = false) :
    parseStop B o ≤ B.length := by
  unfold parseStop
  cases hw : walk B o (B.length + 2) 0 [] with
  | none => exact Nat.zero_le _
  | some w => exact walk_stop_le hD B o hp _ 0 [] w (Nat.zero_le _) hw

/-! ## the theorems of `C14More.lean` without `hpos`, `hstop` -/

/-- **C14 at `parse` level, layout prefix** (`parse_layout_prefix` without `hpos`) -/
theorem parse_layout_prefix_total (hD : NoD19) (pre B : Str) (o : Opts) (hpre : Layout pre)
    (hproc : o.proceed = false)
    (hfuel : ∀ site, (runParser (pre ++ B) o []).1 ≠ .error (.outOfFuel site)) :
    ParseRel pre (parse B o).1 (parse (pre ++ B) o).1 :=
  parse_layout_prefix pre B o hpre hproc hfuel (.inr (run_pos hD hproc))

theorem parse_layout_prefix_parts_total (hD : NoD19) (pre B : Str) (o : Opts) (ps : List Node)
    (hpre : Layout pre) (hproc : o.proceed = false)
    (hfuel : ∀ site, (runParser (pre ++ B) o []).1 ≠ .error (.outOfFuel site))
    (hB : (parse B o).1 = .parts ps) :
    (parse (pre ++ B) o).1 = .parts (ps.map (Node.shift pre.length)) :=
  parse_layout_prefix_parts pre B o ps hpre hproc hfuel (.inr (run_pos hD hproc)) hB

theorem parse_layout_prefix_exn_total (hD : NoD19) (pre B : Str) (o : Opts) (x : Exn)
    (hpre : Layout pre) (hproc : o.proceed = false)
    (hfuel : ∀ site, (runParser (pre ++ B) o []).1 ≠ .error (.outOfFuel site))
    (hB : (parse B o).1 = .exn x) :
    ∃ y, (parse (pre ++ B) o).1 = .exn y ∧ ExnRel pre x y :=
  parse_layout_prefix_exn pre B o x hpre hproc hfuel (.inr (run_pos hD hproc)) hB

/-- **C14 at `parse` level, trailing layout** (`parse_layout_suffix` without `hstop`; `hrest`
    stays: see the header) -/
theorem parse_layout_suffix_total (hD : NoD19) (B post : Str) (o : Opts) (ps : List Node)
    (hj : Joinable B post) (hproc : o.proceed = false)
    (hB : (parse B o).1 = .parts ps) (hloc : parseLocal B o = true)
    (hrest : Layout (B.drop (parseStop B o))) (hpost : Layout post)
    (hfuel : ∀ site, (runParser (B.drop (parseStop B o) ++ post) o []).1 ≠
      .error (.outOfFuel site)) :
    (parse (B ++ post) o).1 = .parts ps :=
  parse_layout_suffix B post o ps hj hB hloc (parseStop_le hD B o hproc) hrest hpost hfuel

/-- … when the loop of `parse B` ran to the end of `B` (no rest): no hypothesis on the rest -/
theorem parse_layout_suffix_end (hD : NoD19) (B post : Str) (o : Opts) (ps : List Node)
    (hj : Joinable B post) (hproc : o.proceed = false)
    (hB : (parse B o).1 = .parts ps) (hloc : parseLocal B o = true)
    (hend : B.length ≤ parseStop B o) (hpost : Layout post)
    (hfuel : ∀ site, (runParser post o []).1 ≠ .error (.outOfFuel site)) :
    (parse (B ++ post) o).1 = .parts ps := by
  have hd : B.drop (parseStop B o) = [] := List.drop_eq_nil_of_le hend
  refine parse_layout_suffix_total hD B post o ps hj hproc hB hloc (by rw [hd]; exact .nil) hpost ?_
  rw [hd, List.nil_append]; exact hfuel

/-- **C13 with a layout separator** (`C13_partial_layout` without `hstop`, `hpos`) -/
theorem C13_partial_layout_total (hD : NoD19) (A sep B : Str) (o : Opts) (psA psB : List Node)
    (hj : Joinable A (sep ++ B))
    (hA : (parse A o).1 = .parts psA) (hB : (parse B o).1 = .parts psB)
    (hloc : parseLocal A o = true)
    (hsep : Layout ((A ++ sep).drop (parseStop A o))) (hproc : o.proceed = false)
    (hfuel : ∀ site, (runParser ((A ++ sep).drop (parseStop A o) ++ B) o []).1 ≠
      .error (.outOfFuel site)) :
    (parse (A ++ sep ++ B) o).1 =
      .parts (psA ++ psB.map (Node.shift (A.length + sep.length))) := by
  have hstop : parseStop A o ≤ (A ++ sep).length := by
    have := parseStop_le hD A o hproc
    rw [List.length_append]; omega
  exact C13_partial_layout A sep B o psA psB hj hA hB hloc hstop hsep hproc hfuel
    (run_pos hD hproc)

/-- **inserting layout at a top-level command boundary** (`C14_insert_between` without `hstop`,
    `hpos`) -/
theorem C14_insert_between_total (hD : NoD19) (A sep ins B : Str) (o : Opts) (psA psB : List Node)
    (hj : Joinable A (sep ++ B)) (hj' : Joinable A ((sep ++ ins) ++ B))
    (hA : (parse A o).1 = .parts psA) (hB : (parse B o).1 = .parts psB)
    (hloc : parseLocal A o = true)
    (hsep : Layout ((A ++ sep).drop (parseStop A o)))
    (hsep' : Layout ((A ++ (sep ++ ins)).drop (parseStop A o))) (hproc : o.proceed = false)
    (hfuel : ∀ site, (runParser ((A ++ sep).drop (parseStop A o) ++ B) o []).1 ≠
      .error (.outOfFuel site))
    (hfuel' : ∀ site, (runParser ((A ++ (sep ++ ins)).drop (parseStop A o) ++ B) o []).1 ≠
      .error (.outOfFuel site)) :
    (parse (A ++ sep ++ B) o).1 =
      .parts (psA ++ psB.map (Node.shift (A.length + sep.length))) ∧
    (parse (A ++ (sep ++ ins) ++ B) o).1 =
      .parts (psA ++ (psB.map (Node.shift (A.length + sep.length))).map (Node.shift ins.length)) := by
  have hstop : parseStop A o ≤ (A ++ sep).length := by
    have := parseStop_le hD A o hproc
    rw [List.length_append]; omega
  exact C14_insert_between A sep ins B o psA psB hj hj' hA hB hloc hstop hsep hsep' hproc hfuel hfuel'
    (run_pos hD hproc)

end Bashlex.C14

#print axioms Bashlex.C14.run_root
#print axioms Bashlex.C14.parseStop_le
#print axioms Bashlex.C14.parse_layout_prefix_total
#print axioms Bashlex.C14.parse_layout_suffix_total
#print axioms Bashlex.C14.C14_insert_between_total
