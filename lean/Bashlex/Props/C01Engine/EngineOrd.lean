/-
  Termination of the LR engine loop, relational form: `engine_terminates_ord`.

  `engine_terminates` (Engine.lean) asks the hooks to keep a state invariant `J n` that does not
  depend on the stack.  The invariants the real parser keeps are RELATIONAL (`LR/SoundOrd.lean`:
  `SI vs la l e` speaks about the (symbol, value) pairs on the stack, the look-ahead and the state
  of the parser object; C03's `spans_hooks`, C05's `leaves_hooks`).  Here the budget is a ghost
  index of such an invariant: for every `n`, `SI n` is closed under the engine's moves
  (`HooksOrd`, as proved by those developments for any tokenizer invariant), and fetching a token
  other than the end marker moves from `SI n` to `SI n'` with `n' + 1 ≤ n`.
-/
import Bashlex.Props.C01Engine.Engine
import Bashlex.LR.SoundOrd

namespace Bashlex
namespace LR
open M
set_option linter.unusedSimpArgs false
set_option linter.unusedVariables false

variable {V : Type}

/-- a budget-indexed relational invariant, closed under the engine's moves -/
structure HooksOrdT (T : Tables) (H : Hooks V)
    (SI : Nat → List (Nat × V) → Option (Nat × V) → Local → Env → Prop)
    (Fin : V → Local → Env → Prop) (E : Exn → Prop) : Prop where
  /-- at a fixed budget: shifts, actions, acceptance (and a `next` that does not raise it) -/
  ord : ∀ n, HooksOrd T H (SI n) Fin E
  /-- fetching a token other than the end marker costs one unit -/
  next : ∀ n vs, SatS H.next (SI n vs none)
    (fun la l e => ∃ n', n' + tokCost T la.1 ≤ n ∧ SI n' vs (some la) l e) E

section
variable {R : Raw} {wS rk : Nat → Nat} {B : Nat} {H : Hooks V}
  {SI : Nat → List (Nat × V) → Option (Nat × V) → Local → Env → Prop}
  {Fin : V → Local → Env → Prop} {E : Exn → Prop}

/-- what `doReduce` does to the state stack and the look-ahead slot, whatever the hooks do -/
theorem doReduce_pot (hc : R.check = true) (c : Cfg V) (p : Nat)
    (hp : PathOK R.toTables (· ∈ R.reach) c.stack) (hv : AllValid R.toTables c.stack)
    (hb : ∃ lhs rhs, R.toTables.prods[p]? = some (lhs, rhs) ∧
          BackOK R.toTables (· ∈ R.reach) R.accOf (topState c.stack) rhs.reverse lhs)
    (hred : R.rankRed wS rk (topState c.stack) p = true) :
    Sat (doReduce R.toTables H c p)
      (fun r => match r with
        | .inl c' => pot wS rk c'.stack < pot wS rk c.stack ∧ c'.la = c.la
        | .inr _ => True) (fun _ => True) := by
  have hwf := Raw.check_sound hc
  obtain ⟨lhs, rhs, hprod, hback⟩ := hb
  obtain ⟨es, rest, t, hpop, _, _, _, _, hg, _, _, _, _⟩ :=
    pop_of_back hwf rhs.reverse c.stack lhs hp hv hback
  simp only [List.length_reverse] at hpop
  have hprod' : R.prods[p]? = some (lhs, rhs) := hprod
  have hg' : R.goto (topState rest) lhs = some t := hg
  unfold doReduce
  simp only [hprod, hpop]
  refine Sat.bind (Sat.trivial _) ?_
  rintro ⟨v, accept⟩ _
  simp only [hg]
  by_cases hacc : accept = true
  · simp only [hacc, if_true]
    exact Sat.pure True.intro
  · simp only [hacc]
    exact Sat.pure ⟨pot_reduce hc hp hprod' hred hpop hg' _ _, rfl⟩

/-- the ghost variant -/
def varOf (R : Raw) (wS rk : Nat → Nat) (B : Nat) (c : Cfg V) (n : Nat) : Nat :=
  pot wS rk c.stack + (B + 1) * (n + laFlag R.toTables c.la)

/-- a reduction, relational form (the proof of `doReduce_ord`, with the potential) -/
theorem doReduce_var_ord (hc : R.check = true) (hH : HooksOrdT R.toTables H SI Fin E)
    (c : Cfg V) (p n : Nat) (hla : LaHint R.toTables c.la p)
    (hb : ∃ lhs rhs, R.toTables.prods[p]? = some (lhs, rhs) ∧
          BackOK R.toTables (· ∈ R.reach) R.accOf (topState c.stack) rhs.reverse lhs)
    (hred : R.rankRed wS rk (topState c.stack) p = true) :
    SatS (doReduce R.toTables H c p) (InvO R.toTables (· ∈ R.reach) (SI n) c)
      (fun r l e => match r with
        | .inl c' => InvO R.toTables (· ∈ R.reach) (SI n) c' l e ∧
            pot wS rk c'.stack < pot wS rk c.stack ∧ c'.la = c.la
        | .inr res => GoodO Fin res l e) (TermExn E) := by
  have h := Raw.check_sound hc
  intro l0 e0 hinv
  obtain ⟨⟨hp, hv⟩, hsi⟩ := hinv
  obtain ⟨lhs, rhs, hprod, hback⟩ := hb
  obtain ⟨es, rest, t, hpop, hroots, hvl, hp', hv', hg, hl, hy, hmes, hmrest⟩ :=
    pop_of_back h rhs.reverse c.stack lhs hp hv hback
  simp only [List.length_reverse] at hpop
  have hroots' : es.map (fun e => e.tree.root) = rhs := by simpa using hroots
  have hstk : c.stack = es.reverse ++ rest := popN_eq _ _ _ _ hpop
  have hprod' : R.prods[p]? = some (lhs, rhs) := hprod
  have hg' : R.goto (topState rest) lhs = some t := hg
  have hvalid : Tree.Valid R.toTables (Tree.node p lhs (es.map (·.tree))) := by
    refine .node p lhs _ rhs hprod ?_ ?_
    · simpa [List.map_map, Function.comp_def] using hroots
    · intro k hk
      obtain ⟨e, he, rfl⟩ := List.mem_map.mp hk
      exact hvl e he
  have hnt : ¬ lhs < R.toTables.nTerms := Nat.not_lt.mpr hl
  have hrest : RestHint R.toTables (symVals rest) lhs := by
    cases hr : rest with
    | nil => exact Or.inl rfl
    | cons x r =>
      right
      rw [hr] at hp' hg
      refine ⟨x.state, t, ?_, by simpa [topState] using hg⟩
      exact (h.closed _ _ _ (reach_top h hp'.2.2) hp'.2.1).2.2
  have hargs1 : (es.map (fun e => (e.tree.root, e.val))).map (·.1) = rhs := by
    simpa [List.map_map, Function.comp_def] using hroots'
  have hargs2 : (es.map (fun e => (e.tree.root, e.val))).map (·.2) = es.map (·.val) := by
    simp [List.map_map, Function.comp_def]
  have hsi' : SI n (symVals rest ++ es.map (fun e => (e.tree.root, e.val))) c.la l0 e0 := by
    rw [← symVals_append, ← hstk]; exact hsi
  have hact := (hH.ord n).act p lhs rhs (symVals rest) _ c.la hprod hargs1 hrest hla
  rw [hargs2] at hact
  have key : SatS (doReduce R.toTables H c p)
      (SI n (symVals rest ++ es.map (fun e => (e.tree.root, e.val))) c.la)
      (fun r l e => match r with
        | .inl c' => InvO R.toTables (· ∈ R.reach) (SI n) c' l e ∧
            pot wS rk c'.stack < pot wS rk c.stack ∧ c'.la = c.la
        | .inr res => GoodO Fin res l e) (TermExn E) := by
    unfold doReduce
    simp only [hprod, hpop]
    refine SatS.bind (hact.weaken (fun _ _ h => h) (fun _ _ _ h => h) (fun _ h => Or.inl h)) ?_
    rintro ⟨v, accept⟩
    simp only [hg]
    by_cases hacc : accept = true
    · simp only [hacc, if_true]
      exact SatS.pure (fun l e hf => by simpa [GoodO] using hf)
    · simp only [hacc]
      refine SatS.pure (fun l e hf => ?_)
      simp only [Bool.false_eq_true, if_false] at hf
      refine ⟨⟨⟨⟨?_, ?_, hp'⟩, ⟨hvalid, hv'⟩⟩, ?_⟩, ?_, rfl⟩
      · have hedge : R.toTables.edge (topState rest) lhs = some t := by
          simp [Tables.edge, hnt, hg]
        exact (h.closed _ _ _ (reach_top h hp') hedge).1
      · simp [Tree.root, Tables.edge, hnt, hg]
      · simp only [symVals_cons, Tree.root]
        exact hf
      · exact pot_reduce hc hp hprod' hred hpop hg' _ _
  exact key l0 e0 hsi'

/-- **one iteration strictly decreases the ghost variant**, relational form -/
theorem step_var_ord (hc : R.check = true) (hk : R.rankCheck wS rk = true)
    (hB : ∀ t, wS t + rk t ≤ B) (hH : HooksOrdT R.toTables H SI Fin E) (c : Cfg V) (n : Nat) :
    SatS (step R.toTables H c) (InvO R.toTables (· ∈ R.reach) (SI n) c)
      (fun r l e => match r with
        | .inl c' => ∃ n', InvO R.toTables (· ∈ R.reach) (SI n') c' l e ∧
            varOf R wS rk B c' n' < varOf R wS rk B c n
        | .inr res => GoodO Fin res l e) (TermExn E) := by
  have hwf := Raw.check_sound hc
  intro l0 e0 hinv
  have hinv' := hinv
  obtain ⟨⟨hp, hv⟩, hsi⟩ := hinv
  have hr : topState c.stack ∈ R.reach := reach_top hwf hp
  have key : SatS (step R.toTables H c) (InvO R.toTables (· ∈ R.reach) (SI n) c)
      (fun r l e => match r with
        | .inl c' => ∃ n', InvO R.toTables (· ∈ R.reach) (SI n') c' l e ∧
            varOf R wS rk B c' n' < varOf R wS rk B c n
        | .inr res => GoodO Fin res l e) (TermExn E) := by
    unfold step
    simp only
    cases hd : R.toTables.dflt (topState c.stack) with
    | some p =>
      refine (doReduce_var_ord (wS := wS) (rk := rk) hc hH c p n (Or.inl ⟨_, hd⟩)
        (hwf.redDflt _ p hr hd) (Raw.rankRed_of_dflt hk hr hd)).post ?_
      intro r l e h
      cases r with
      | inl c' =>
        obtain ⟨hi, hpot, hla⟩ := h
        refine ⟨n, hi, ?_⟩
        unfold varOf
        rw [hla]
        exact arith_red hpot (Nat.le_refl _) (Nat.le_refl _)
      | inr res => exact h
    | none =>
      simp only
      refine SatS.bind (Q := fun la l e => ∃ n1, n1 + tokCost R.toTables la.1 ≤
          n + laFlag R.toTables c.la ∧
          InvO R.toTables (· ∈ R.reach) (SI n1) { c with la := some la } l e) ?_ ?_
      · cases hla : c.la with
        | some la =>
          refine SatS.pure (fun l e hi => ?_)
          obtain ⟨hs, hsi⟩ := hi
          exact ⟨n, by simp only [laFlag]; omega, hs, by rw [hla] at hsi; exact hsi⟩
        | none =>
          intro l e hi
          obtain ⟨hs, hsi⟩ := hi
          rw [hla] at hsi
          have := (hH.next n (symVals c.stack)).weaken (fun _ _ h => h) (fun _ _ _ h => h)
            (fun _ h => (Or.inl h : TermExn E _)) l e hsi
          revert this
          rcases H.next.run l e with ⟨r, e'⟩
          cases r with
          | ok v =>
            rintro ⟨n', hn, hs'⟩
            exact ⟨n', by simp only [laFlag]; omega, hs, hs'⟩
          | error x => intro this; exact this
      rintro ⟨la, lv⟩
      simp only
      refine SatS.exists_pre (fun n1 => SatS.assume (fun hn1 => ?_))
      split
      · exact SatS.pure (fun _ _ _ => trivial)
      · cases hact : R.toTables.action (topState c.stack) la with
        | none =>
          simp only
          refine SatS.bind (Q := fun _ _ _ => True)
            (((SatS.of_sat ((hH.ord n1).onError (la, lv)) _)).weaken (fun _ _ h => h)
              (fun _ _ _ _ => trivial) (fun _ h => Or.inl h)) ?_
          intro _
          exact SatS.foreign (Or.inr rfl)
        | some a =>
          cases a with
          | shift t =>
            have hla := hwf.shiftTerm _ _ _ hact
            have hne : la ≠ R.endTok := Raw.noShiftEnd hk hr hact
            have hcost : tokCost R.toTables la = 1 := by
              simp only [tokCost, Raw.toTables]; exact if_neg hne
            rw [hcost] at hn1
            simp only
            split
            · rename_i hnlc
              refine SatS.pure (fun l e hi => ?_)
              simp only [Bool.and_eq_true, beq_iff_eq] at hnlc
              obtain ⟨hs0, hlanl⟩ := hnlc
              have hnil : c.stack = [] := by
                cases hstk : c.stack with
                | nil => rfl
                | cons top rest =>
                  rw [hstk] at hp hs0
                  exact absurd hs0 (hwf.closed _ _ _ (reach_top hwf hp.2.2) hp.2.1).2.2
              obtain ⟨hs, hsi⟩ := hi
              refine ⟨n1, ⟨hs, ?_⟩, ?_⟩
              · simp only [hnil, symVals_nil] at hsi ⊢
                exact (hH.ord n1).shiftNl _ l e hsi
              · unfold varOf
                simp only [laFlag]
                exact arith_shift (by omega) hn1
            · refine SatS.pure (fun l e hi => ?_)
              obtain ⟨⟨hp1, hv1⟩, hsi⟩ := hi
              refine ⟨n1, ⟨⟨⟨?_, ?_, hp1⟩, ⟨.leaf _ hla, hv1⟩⟩, ?_⟩, ?_⟩
              · have hedge : R.toTables.edge (topState c.stack) la = some t := by
                  simp [Tables.edge, hla, hact]
                exact (hwf.closed _ _ _ hr hedge).1
              · simp [Tree.root, Tables.edge, hla, hact]
              · simp only [symVals_cons, Tree.root]
                exact (hH.ord n1).shift _ _ l e hsi
              · unfold varOf
                simp only [laFlag]
                have := pot_shift (wS := wS) (rk := rk) hB c.stack t (.leaf la) lv
                exact arith_shift (by omega) hn1
          | reduce p =>
            refine (doReduce_var_ord (wS := wS) (rk := rk) hc hH { c with la := some (la, lv) } p n1
              (Or.inr ⟨(la, lv), _, rfl, hact⟩) (hwf.redAct _ _ p hr hact)
              (Raw.rankRed_of_action hk hr hact)).post ?_
            intro r l e h
            cases r with
            | inl c' =>
              obtain ⟨hi, hpot, hla⟩ := h
              refine ⟨n1, hi, ?_⟩
              unfold varOf
              simp only at hpot hla ⊢
              rw [hla]
              simp only [laFlag]
              exact arith_red hpot (Nat.le_refl _) hn1
            | inr res => exact h
          | accept =>
            simp only
            split
            · rename_i top rest hstk
              have hstk' : c.stack = top :: rest := hstk
              refine SatS.pure (fun l e hi => ?_)
              simp only [GoodO]
              obtain ⟨_, hsi⟩ := hi
              simp only [hstk', symVals_cons] at hsi
              exact (hH.ord n1).accept _ _ _ l e hsi
            · exact SatS.pure (fun _ _ _ => trivial)
  exact key l0 e0 hinv'

/-- **engine_terminates_ord**: `run_sound_ord` with termination.  Started in a state satisfying
    `SI m [] none` with `rk 0 + (B+1)·m < fuel`, the engine returns a value satisfying `Fin` or
    raises what its hooks raise (or the unmodelled error recovery) — never
    `outOfFuel "LRParser.parse"`. -/
theorem engine_terminates_ord (hc : R.check = true) (hk : R.rankCheck wS rk = true)
    (hB : ∀ t, wS t + rk t ≤ B) (hH : HooksOrdT R.toTables H SI Fin E) (fuel m : Nat)
    (hfuel : rk 0 + (B + 1) * m < fuel) :
    SatS (run R.toTables H fuel) (SI m [] none) (GoodO Fin) (TermExn E) := by
  unfold run
  have hloop := SatS.loop_ghost (site := "LRParser.parse")
    (I := fun (c : Cfg V) N l e => ∃ n, InvO R.toTables (· ∈ R.reach) (SI n) c l e ∧
      varOf R wS rk B c n = N)
    (R := GoodO Fin) (E := TermExn E) (body := step R.toTables H) ?_ fuel {}
      (varOf R wS rk B ({} : Cfg V) m)
      (by simpa [varOf, pot, sumW, topState, laFlag] using hfuel)
  · intro l e hsi
    exact hloop l e ⟨m, ⟨⟨True.intro, True.intro⟩, hsi⟩, rfl⟩
  · intro c N
    refine SatS.exists_pre (fun n => ?_)
    refine SatS.pre (P := fun l e => varOf R wS rk B c n = N ∧
        InvO R.toTables (· ∈ R.reach) (SI n) c l e) ?_ (fun l e h => ⟨h.2, h.1⟩)
    refine SatS.assume (fun hN => ?_)
    refine (step_var_ord (wS := wS) (rk := rk) hc hk hB hH c n).post ?_
    intro r l e h
    cases r with
    | inl c' =>
      obtain ⟨n', hi, hlt⟩ := h
      exact ⟨_, by rw [← hN]; exact hlt, n', hi, rfl⟩
    | inr res => exact h

end
end LR
end Bashlex
