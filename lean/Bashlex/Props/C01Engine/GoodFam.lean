/-
  Termination of the LR engine loop: `TokValLen` discharged.

  The value of a delivered token fits into the line: `C04.tokText` (`TT.len`), which is stated for
  C11's tokenizer invariant `Good g []` (line and `_added_newline` flag pinned by the ghost `g`,
  look-ahead slot empty).  The family `TIg g n := TIb n ∧ Good g []` is again a budget-indexed
  family the parser keeps (`C11.nextToken_good`, `C11.gather_good`; everything else leaves the
  tape alone), so `real_hooksOrdB_v` applies to it without `TokValLen`:
  **`parserRun_noLRFuel_rootEnds'`** — the only hypothesis left is `RootEnds`.
-/
import Bashlex.Props.C01Engine.RealLift
import Bashlex.Props.C04.TokTextProof

namespace Bashlex.C01E
open Bashlex Bashlex.Spec Bashlex.Node Bashlex.M Bashlex.LR Bashlex.C12 Bashlex.C03 Bashlex.C10
  Bashlex.C01
set_option linter.unusedSimpArgs false
set_option linter.unusedVariables false

/-- C03's tokenizer invariant with a budget, and C11's with the line pinned -/
def TIg (g : C11.Ghost) (n len f : Nat) (l : Local) (e : Env) : Prop :=
  TIb n len f l e ∧ C11.Good g [] l e

/-- `Good` only looks at the tape, the look-ahead slot, the position stack and the options -/
theorem good_upd {g : C11.Ghost} {ps : List Nat} {l l' : Local} {e : Env}
    (h : C11.Good g ps l e) (h1 : l'.tape = l.tape) (h2 : l'.eolLookahead = l.eolLookahead)
    (h3 : l'.positions = l.positions) (h4 : l'.opts = l.opts) : C11.Good g ps l' e := by
  have ht : tapeOf l' e = tapeOf l e := by unfold tapeOf; rw [h1]
  have hs : strictOf l' e = strictOf l e := by unfold strictOf; rw [h4]
  unfold C11.Good C11.Base C11.Frame at h ⊢
  rw [ht, hs, h1, h2, h3]
  exact h

theorem satS_of_HT {α : Type} {P : Local → Env → Prop} {m : M α} {Q : α → Local → Env → Prop}
    {E : Exn → Prop} (h : C11.HT P m Q E) : SatS m P Q (fun _ => True) := by
  intro l e hp
  have h1 := h l e hp
  revert h1
  rcases m.run l e with ⟨r, e'⟩
  cases r with
  | ok v => exact fun h => h
  | error x => exact fun _ => True.intro

theorem tokAct_TIg (g : C11.Ghost) (n : Nat) : TokAct (TIg g n) := by
  refine ⟨?_, ?_, ?_, ?_⟩
  · intro len f st
    have hA := (tokAct_TIb n).gather len f st
    have hB : SatS gatherheredocuments (C11.Good g []) (fun _ l e => True ∧ C11.Good g [] l e) :=
      satS_of_HT (C11.gather_good (g := g) (ps := []))
    refine (SatS.and (hA.pre (P' := fun l e => TIg g n len f l e ∧ l.store = st)
      (fun l e h => ⟨h.1.1, h.2⟩)) (hB.pre (fun l e h => h.1.2))).post ?_
    rintro _ l e ⟨⟨h1, h2⟩, _, h3⟩
    exact ⟨⟨h1, h3⟩, h2⟩
  · rintro len f l e cell kill ⟨hti, hg⟩ h1 h2 h3
    exact ⟨(tokAct_TIb n).queue len f l e cell kill hti h1 h2 h3, good_upd hg rfl rfl rfl rfl⟩
  · rintro len f l e ps ⟨hti, hg⟩
    exact ⟨(tokAct_TIb n).ps len f l e ps hti, good_upd hg rfl rfl rfl rfl⟩
  · intro d len f st s b
    intro l e ⟨⟨hti, hg⟩, hst⟩
    have hA := (tokAct_TIb n).nested d len f st s b l e ⟨hti, hst⟩
    revert hA
    rw [run_npOf]
    rcases hr : M.run (parserRun d) (C11.nestedLocal l s b) e with ⟨r, e'⟩
    cases r with
    | error x => exact fun _ => True.intro
    | ok v =>
      obtain ⟨r, l'⟩ := v
      intro hA
      have hE := C16.nestedEnv_thm d (C11.nestedLocal l s b) e r l' e' rfl rfl hr
      exact ⟨⟨hA.1, (good_upd (l' := { l with ps := l'.ps }) hg rfl rfl rfl rfl).env hE.1.symm
        hE.2.1.symm⟩, hA.2⟩

theorem budFam_TIg (g : C11.Ghost) (len : Nat) (hlen : len + 1 < 1073741824) :
    BudFam (TIg g) len := by
  refine ⟨tokAct_TIg g, fun n F st => ?_, fun n n' f l e h hn => ⟨h.1.mono hn, h.2⟩⟩
  have hA := next_TIb n len F st hlen
  have hB : SatS nextToken (C11.Good g [])
      (fun t l e => C11.TF g t ∧ C11.Good g [] l e) :=
    satS_of_HT (C11.nextToken_good (g := g))
  refine (SatS.and (hA.pre (P' := fun l e => TIg g n len F l e ∧ l.store = st)
    (fun l e h => ⟨h.1.1, h.2⟩)) (hB.pre (fun l e h => h.1.2))).post ?_
  rintro t l e ⟨⟨a, b, h1, h2, ⟨n', hn', h3⟩, h4⟩, _, hg⟩
  exact ⟨a, b, h1, h2, ⟨n', hn', h3, hg⟩, h4⟩

/-- the slot is empty in every state satisfying `TI` -/
theorem ti_eol {len f : Nat} {l : Local} {e : Env} (h : TI len f l e) : l.eolLookahead = none := by
  obtain ⟨L, _, _, hc⟩ := h
  rcases hc with hc | hc
  · exact hc.2.2.1
  · exact hc.2.2.1

/-- **the value of a delivered token fits into the line** (for the family `TIg g`) -/
theorem famValLen_TIg (g : C11.Ghost) (hg : C11.WFG g) (len : Nat)
    (hL : g.line.length ≤ len + 1) : FamValLen (TIg g) len := by
  intro n F l0 e0 h
  have hT := satS_of_HT (C04.tokText.next g hg)
  refine (hT.pre (by rintro l e ⟨rfl, rfl⟩; exact ⟨h.2, ti_eol h.1.1⟩)).post ?_
  rintro t l e ⟨htt, _⟩
  have := htt.len
  omega

/-- the ghost of a parser object in its initial state over `s` -/
def initGhost (s : Str) (l : Local) (e : Env) : C11.Ghost :=
  { env := match l.tape with | none => none | some _ => some e.tape
    line := (Tape.ofInput s).line, added := (Tape.ofInput s).added, strict := e.strict }

theorem initGhost_wf (s : Str) (l : Local) (e : Env) : C11.WFG (initGhost s l e) := ⟨s, rfl, rfl⟩

theorem good_init {s : Str} {l : Local} {e : Env} (h : InitState s l e) :
    C11.Good (initGhost s l e) [] l e := by
  obtain ⟨_, _, h3, h4, h5⟩ := h
  have ht : tapeOf l e = Tape.ofInput s := by
    rcases h5 with h5 | ⟨h5, h6⟩
    · unfold tapeOf; rw [h5]
    · unfold tapeOf; rw [h5]; exact h6
  refine ⟨⟨⟨?_, rfl⟩, by rw [ht]; rfl, by rw [ht]; rfl⟩, (fun h => by rw [h3] at h; cases h),
    Or.inl ?_, h4⟩
  · unfold initGhost
    rcases h5 with h5 | ⟨h5, _⟩
    · rw [h5]; exact ⟨rfl, rfl⟩
    · rw [h5]
  · rw [ht, C11.ofInput_idx]; exact Nat.zero_le _

/-- **no parser run (top-level or nested, any nesting fuel) over an input `s` with
    `realBound (|s|+1) < 2^30` (= `16·(|s|+1)`, `realBound_val`) raises `outOfFuel "LRParser.parse"`** — for the real tokenizer and the
    real semantic actions; the only hypothesis is C03's `RootEnds` -/
theorem parserRun_noLRFuel_rootEnds' (hR : RootEnds) :
    ∀ d s, realBound (s.length + 1) < 1073741824 →
      SatS (parserRun d) (InitState s) (fun _ _ _ => True) NoLRFuel := by
  intro d
  induction d with
  | zero => intro s _; exact SatS.raise (noLRFuel_site (by decide))
  | succ d ih =>
    intro s hs
    rw [parserRun_succ]
    have hlen : s.length + 1 < 1073741824 := Nat.lt_of_le_of_lt (le_realBound _) hs
    refine SatS.intro_state (fun l0 e0 hinit0 => ?_)
    let g := initGhost s l0 e0
    have hgL : g.line.length ≤ s.length + 1 := (ofInput_line s).1
    have hH := real_hooksOrdB_v hR (budFam_TIg g s.length hlen)
      (famValLen_TIg g (initGhost_wf s l0 e0) s.length hgL) d
    have hrun := engine_terminates_ord (R := realRaw) (wS := realW) (rk := realRk) (B := realB)
      real_check real_rankCheck realB_bound hH 1073741824 (s.length + 1)
      hs
    have hexn : ∀ x, TermExn (AE (s.length + 1) (npOf (parserRun d))) x → NoLRFuel x := by
      rintro x ((hx | ⟨s', b, l, e, e', hlt, hr⟩) | hx)
      · exact hx
      · rw [run_npOf] at hr
        have hin := ih s' (Nat.lt_of_le_of_lt (realBound_mono (by omega)) hs) (C11.nestedLocal l s' b) e ⟨rfl, rfl, rfl, rfl, Or.inl rfl⟩
        rcases hr2 : M.run (parserRun d) (C11.nestedLocal l s' b) e with ⟨r, e2⟩
        rw [hr2] at hr hin
        cases r with
        | ok v => obtain ⟨r, l'⟩ := v; simp only [] at hr; cases hr
        | error y =>
          simp only [] at hr
          cases hr
          exact hin
      · rw [hx]; intro h; cases h
    refine SatS.bind (Q := fun _ _ _ => True) (SatS.weaken hrun ?_ (fun _ _ _ _ => True.intro) hexn)
      (fun res => ?_)
    · rintro l e ⟨rfl, rfl⟩
      refine ⟨⟨⟨0, 0, Nat.le_refl 0, Nat.le_refl 0,
        ⟨⟨tokSpans.init s l e hinit0, fun _ => rem_init hinit0⟩, good_init hinit0⟩, ?_⟩, ?_, ?_⟩,
        ?_, ?_⟩
      · intro x hx; cases hx
      · intro x hx; cases hx
      · intro x hx; cases hx
      · intro x hx; cases hx
      · intro x hx; cases hx
    · refine SatS.of_sat (sat_bindN noExn_get (fun l => ?_)) _
      split <;> exact Sat.pure trivial

end Bashlex.C01E

#print axioms Bashlex.C01E.parserRun_noLRFuel_rootEnds'
