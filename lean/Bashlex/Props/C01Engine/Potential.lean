/-
  Termination of the LR engine loop, part 1 (pure): a potential on the state stack that every
  reduction strictly decreases, from a CERTIFICATE (per-state weights and ranks) that a boolean
  function checks against the tables.

      pot stk = Σ_{e ∈ stk} wS e.state + rk (topState stk)

  `rankCheck`: for every reachable state `q`, every production `A → β` reduced there (on any
  look-ahead, or by default), every backward path `q = q₁, …, q_k, p'` of length `k = |β|` along
  the (checked) predecessor lists, and `t = goto(p', A)`:

      wS t + rk t  <  wS q₁ + … + wS q_k + rk q

  No trust in how the certificate was found (`tools/lrrank.py`: weight 0 for states accessed by a
  nullable symbol, `W` otherwise; rank = longest chain of weight-neutral reductions).
-/
import Bashlex.LR.Check

namespace Bashlex.LR
set_option linter.unusedSimpArgs false
set_option linter.unusedVariables false

namespace Raw

/-- all backward paths of length `k` from `s`; `a` accumulates the weights popped so far plus the
    rank of the state the reduction started in -/
def rankBack (R : Raw) (wS rk : Nat → Nat) : Nat → Nat → Nat → Nat → Bool
  | 0, s, lhs, a =>
    match R.goto s lhs with
    | some t => decide (wS t + rk t < a)
    | none => true
  | k + 1, s, lhs, a => (R.predsOf s).all fun s' => rankBack R wS rk k s' lhs (a + wS s)

def rankRed (R : Raw) (wS rk : Nat → Nat) (s p : Nat) : Bool :=
  match R.prods[p]? with
  | none => true
  | some (lhs, rhs) => rankBack R wS rk rhs.length s lhs (rk s)

/-- the productions reduced in an action row, without repetitions -/
def redsOf : List Nat → List Nat
  | [] => []
  | e :: row =>
    match decodeAct (e % 4096) with
    | .reduce p => if (redsOf row).contains p then redsOf row else p :: redsOf row
    | _ => redsOf row

def rankState (R : Raw) (wS rk : Nat → Nat) (s : Nat) : Bool :=
  (redsOf (R.actionRow s)).all (rankRed R wS rk s) &&
  (match R.dfltOf s with | none => true | some p => rankRed R wS rk s p) &&
  -- the end marker is never shifted
  (R.actionRow s).all (fun e => match decodeAct (e % 4096) with
    | .shift _ => e / 4096 != R.endTok
    | _ => true)

def rankCheck (R : Raw) (wS rk : Nat → Nat) : Bool := R.reach.all (rankState R wS rk)

theorem mem_redsOf {row : List Nat} {e p : Nat} (he : e ∈ row)
    (hd : decodeAct (e % 4096) = .reduce p) : p ∈ redsOf row := by
  induction row with
  | nil => cases he
  | cons x row ih =>
    rcases List.mem_cons.mp he with h | h
    · subst h
      simp only [redsOf, hd]
      split
      · rename_i hc; simpa using hc
      · exact List.mem_cons_self
    · have := ih h
      simp only [redsOf]
      split
      · split
        · exact this
        · exact List.mem_cons_of_mem _ this
      · exact this

theorem rankRed_of_action {R : Raw} {wS rk : Nat → Nat} (hk : R.rankCheck wS rk = true)
    {s la p : Nat} (hs : s ∈ R.reach) (hact : R.action s la = some (.reduce p)) :
    rankRed R wS rk s p = true := by
  unfold rankCheck at hk
  simp only [List.all_eq_true] at hk
  have h := hk s hs
  unfold rankState at h
  simp only [Bool.and_eq_true, List.all_eq_true] at h
  obtain ⟨e, hmem, _, hd⟩ := action_mem (R := R) hact
  exact h.1.1 p (mem_redsOf hmem hd)

theorem rankRed_of_dflt {R : Raw} {wS rk : Nat → Nat} (hk : R.rankCheck wS rk = true)
    {s p : Nat} (hs : s ∈ R.reach) (hd : R.dfltOf s = some p) :
    rankRed R wS rk s p = true := by
  unfold rankCheck at hk
  simp only [List.all_eq_true] at hk
  have h := hk s hs
  unfold rankState at h
  simp only [Bool.and_eq_true, List.all_eq_true] at h
  have := h.1.2
  simpa [hd] using this

theorem noShiftEnd {R : Raw} {wS rk : Nat → Nat} (hk : R.rankCheck wS rk = true)
    {s la t : Nat} (hs : s ∈ R.reach) (hact : R.action s la = some (.shift t)) :
    la ≠ R.endTok := by
  unfold rankCheck at hk
  simp only [List.all_eq_true] at hk
  have h := hk s hs
  unfold rankState at h
  simp only [Bool.and_eq_true, List.all_eq_true] at h
  obtain ⟨e, hmem, hla, hd⟩ := action_mem (R := R) hact
  have := h.2 e hmem
  simp only [hd, bne_iff_ne, ne_eq] at this
  rw [← hla]; exact this

end Raw

variable {V : Type}

def sumW (wS : Nat → Nat) : Stack V → Nat
  | [] => 0
  | e :: r => wS e.state + sumW wS r

/-- the potential of a state stack -/
def pot (wS rk : Nat → Nat) (stk : Stack V) : Nat := sumW wS stk + rk (topState stk)

/-- along a path-shaped stack, a checked reduction strictly decreases the potential -/
theorem pop_of_rank {R : Raw} (hc : R.check = true) (wS rk : Nat → Nat) :
    ∀ (k : Nat) (stk : Stack V) (lhs a : Nat), PathOK R.toTables (· ∈ R.reach) stk →
      R.rankBack wS rk k (topState stk) lhs a = true →
      ∀ es rest t, popN k stk = some (es, rest) → R.goto (topState rest) lhs = some t →
        wS t + rk t + sumW wS rest < a + sumW wS stk := by
  have hwf := Raw.check_sound hc
  intro k
  induction k with
  | zero =>
    intro stk lhs a _ hb es rest t hpop hg
    simp only [popN, Option.some.injEq, Prod.mk.injEq] at hpop
    obtain ⟨_, rfl⟩ := hpop
    unfold Raw.rankBack at hb
    simp only [hg, decide_eq_true_eq] at hb
    omega
  | succ k ih =>
    intro stk lhs a hp hb es rest t hpop hg
    cases stk with
    | nil => simp [popN] at hpop
    | cons top rest0 =>
      simp only [popN, Option.map_eq_some_iff] at hpop
      obtain ⟨⟨es', rest'⟩, hpop', heq⟩ := hpop
      simp only [Prod.mk.injEq] at heq
      obtain ⟨_, rfl⟩ := heq
      obtain ⟨_, hedge, hprest⟩ := hp
      have hr0 : topState rest0 ∈ R.reach := reach_top hwf hprest
      have hce := Raw.edge_ok hc hr0 hedge
      unfold Raw.checkEdge at hce
      simp only [Bool.and_eq_true, List.contains_iff_mem] at hce
      have hmem : topState rest0 ∈ R.predsOf top.state := by simpa using hce.2
      unfold Raw.rankBack at hb
      simp only [topState, List.all_eq_true] at hb
      have := ih rest0 lhs (a + wS top.state) hprest (hb _ hmem) es' rest' t hpop' hg
      simp only [sumW]
      omega

/-- the reduction step on stacks: potential strictly decreases -/
theorem pot_reduce {R : Raw} (hc : R.check = true) {wS rk : Nat → Nat}
    {stk : Stack V} {p lhs : Nat} {rhs : List Nat}
    (hp : PathOK R.toTables (· ∈ R.reach) stk)
    (hprod : R.prods[p]? = some (lhs, rhs))
    (hred : R.rankRed wS rk (topState stk) p = true)
    {es : List (Entry V)} {rest : Stack V} {t : Nat}
    (hpop : popN rhs.length stk = some (es, rest)) (hg : R.goto (topState rest) lhs = some t)
    (tr : Tree) (v : V) :
    pot wS rk ({ state := t, tree := tr, val := v } :: rest) < pot wS rk stk := by
  unfold Raw.rankRed at hred
  simp only [hprod] at hred
  have := pop_of_rank hc wS rk rhs.length stk lhs (rk (topState stk)) hp hred es rest t hpop hg
  show wS t + sumW wS rest + rk t < sumW wS stk + rk (topState stk)
  omega

/-- a shift raises the potential by at most `B` when `wS t + rk t ≤ B` for every state -/
theorem pot_shift {wS rk : Nat → Nat} {B : Nat} (hB : ∀ t, wS t + rk t ≤ B)
    (stk : Stack V) (t : Nat) (tr : Tree) (v : V) :
    pot wS rk ({ state := t, tree := tr, val := v } :: stk) ≤ pot wS rk stk + B := by
  show wS t + sumW wS stk + rk t ≤ sumW wS stk + rk (topState stk) + B
  have := hB t
  omega

end Bashlex.LR
